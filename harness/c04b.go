package main

// C04, continued: Function.Call with spy callbacks, convert.Convert, and a
// sample of the standard library — paired marked / unmarked runs.

import (
	"errors"
	"fmt"
	"strings"

	"github.com/zclconf/go-cty/cty"
	"github.com/zclconf/go-cty/cty/convert"
	"github.com/zclconf/go-cty/cty/function"
	"github.com/zclconf/go-cty/cty/function/stdlib"
)

// ---- Function.Call ----------------------------------------------------------------

type c04Param struct {
	ty      cty.Type
	m, u, d bool // AllowMarked, AllowUnknown, AllowDynamicType (AllowNull is always set)
}

func (p c04Param) real() function.Parameter {
	return function.Parameter{Name: "p", Type: p.ty, AllowNull: true, AllowMarked: p.m, AllowUnknown: p.u, AllowDynamicType: p.d}
}

func (p c04Param) String() string {
	return fmt.Sprintf("{%s m=%v u=%v d=%v}", encTy(p.ty), p.m, p.u, p.d)
}

type c04Spy struct {
	typeSaw, implSaw []string // wire form of the argument lists the callbacks were handed
	implMarks        map[string]struct{}
}

var errC04Spy = errors.New("spy callback error")

// callback behaviours: Type x Impl
var c04Callbacks = [][2]string{
	{"string", "const"}, {"string", "ownmark"}, {"arg0", "echo"}, {"string", "unknown"}, {"string", "null"},
	{"err", "-"}, {"panic", "-"}, {"string", "err"}, {"string", "panic"}, {"dyn", "const"},
}

func c04Func(params []c04Param, vp *c04Param, tf, impl string, refine bool, spy *c04Spy) function.Function {
	spec := &function.Spec{}
	for _, p := range params {
		spec.Params = append(spec.Params, p.real())
	}
	if vp != nil {
		r := vp.real()
		spec.VarParam = &r
	}
	spec.Type = func(args []cty.Value) (cty.Type, error) {
		spy.typeSaw = append(spy.typeSaw, c04Vals(args))
		switch tf {
		case "err":
			return cty.NilType, errC04Spy
		case "panic":
			panic("spy type panic")
		case "dyn":
			return cty.DynamicPseudoType, nil
		case "arg0":
			if len(args) > 0 {
				return args[0].Type(), nil
			}
		}
		return cty.String, nil
	}
	spec.Impl = func(args []cty.Value, retType cty.Type) (cty.Value, error) {
		spy.implSaw = append(spy.implSaw, c04Vals(args))
		var ret cty.Value
		switch impl {
		case "err":
			return cty.NilVal, errC04Spy
		case "panic":
			panic("spy impl panic")
		case "echo":
			if len(args) > 0 {
				ret = args[0]
			} else {
				ret = cty.StringVal("r")
			}
		case "ownmark":
			ret = cty.StringVal("r").Mark("own")
		case "unknown":
			ret = cty.UnknownVal(retType)
		case "null":
			ret = cty.NullVal(retType)
		default:
			ret = cty.StringVal("r")
		}
		spy.implMarks = c04DeepSet(ret)
		return ret, nil
	}
	if refine {
		spec.RefineResult = func(b *cty.RefinementBuilder) *cty.RefinementBuilder { return b.NotNull() }
	}
	return function.New(spec)
}

func c04ErrClass(err error) string {
	if err == nil {
		return "nil"
	}
	if ae, ok := err.(function.ArgError); ok {
		return fmt.Sprintf("argerror %d", ae.Index)
	}
	if _, ok := err.(function.PanicError); ok {
		return "panicerror"
	}
	if err == errC04Spy {
		return "callback"
	}
	return "error"
}

type c04CallOut struct {
	val     cty.Value
	cls     string // "nil", an error class, or "gopanic"
	spy     c04Spy
	summary string
}

func c04DoCall(params []c04Param, vp *c04Param, tf, impl string, refine bool, args []cty.Value) c04CallOut {
	var o c04CallOut
	f := c04Func(params, vp, tf, impl, refine, &o.spy)
	var err error
	p, _ := try(func() { o.val, err = f.Call(args) })
	if p {
		o.cls = "gopanic"
	} else {
		o.cls = c04ErrClass(err)
	}
	o.summary = o.cls
	if o.cls == "nil" {
		o.summary = "ok " + encVal(o.val)
	}
	return o
}

func c04CallCase(ctx *Ctx, params []c04Param, vp *c04Param, tf, impl string, refine bool, args []cty.Value) {
	desc := fmt.Sprintf("params=%v var=%v type=%s impl=%s refine=%v", params, vp, tf, impl, refine)
	key := "call " + desc + " " + c04Vals(args)
	argMarks := c04DeepSet(args...)
	ctx.Eval(key, len(argMarks) > 0)
	ctx.Tag("call")
	lit := desc + " ; args " + c04GoLit(args, "")
	fail := func(site, sig, what, outcome string) {
		ctx.Fail(Failure{Site: site, Sig: sig, What: what, Input: key, GoLit: lit, Outcome: outcome})
	}
	paramFor := func(i int) *c04Param {
		if i < len(params) {
			return &params[i]
		}
		return vp
	}
	m := c04DoCall(params, vp, tf, impl, refine, args)
	if m.cls == "nil" {
		top := c04TopSet(m.val)
		allowed := map[string]struct{}{}
		for k := range m.spy.implMarks {
			allowed[k] = struct{}{}
		}
		for i, a := range args {
			p := paramFor(i)
			deep := c04DeepSet(a)
			for k := range deep {
				allowed[k] = struct{}{}
			}
			if p != nil && !p.m {
				if mk, ok := c04Subset(c04Keys(deep), top); !ok {
					fail("call-marks", "call:unhandled-mark-lost", fmt.Sprintf("mark %q inside argument %d (parameter without AllowMarked) is not on the result", mk, i), m.summary)
				}
			}
		}
		if mk, ok := c04Subset(c04Keys(c04DeepSet(m.val)), allowed); !ok {
			fail("call-no-invention", "call:invented", fmt.Sprintf("the result carries mark %q that neither an argument nor the Impl result carries", mk), m.summary)
		}
	}
	// When Call answers without consulting Impl (an unknown or dynamically typed
	// argument short-circuits it) the marks of AllowMarked arguments are not put on
	// the result.  Intended (function_test.go TestFunctionCallWithUnknownVals pins
	// it) and outside the property, which exempts such arguments: tallied only.
	if m.cls == "nil" && len(m.spy.implSaw) == 0 {
		if _, ok := c04Subset(c04Keys(argMarks), c04TopSet(m.val)); !ok {
			ctx.Tag("short-circuit-without-allowmarked-marks:spy")
		}
	}
	// non-interference, for specs none of whose parameters handles marks itself
	anyAllow := vp != nil && vp.m
	for _, p := range params {
		anyAllow = anyAllow || p.m
	}
	if anyAllow {
		return
	}
	clean := make([]cty.Value, len(args))
	var sets []cty.ValueMarks
	for i, a := range args {
		var ms cty.ValueMarks
		clean[i], ms = a.UnmarkDeep()
		if len(ms) > 0 {
			sets = append(sets, ms)
		}
	}
	c := c04DoCall(params, vp, tf, impl, refine, clean)
	if m.cls != c.cls {
		fail("call-non-interference", "call:outcome", "Call on marked and on unmarked arguments end differently", m.summary+" ; unmarked: "+c.summary)
		return
	}
	if strings.Join(m.spy.typeSaw, "|") != strings.Join(c.spy.typeSaw, "|") || strings.Join(m.spy.implSaw, "|") != strings.Join(c.spy.implSaw, "|") {
		fail("call-non-interference", "call:callbacks-see-marks", "the callbacks were handed different arguments in the marked and in the unmarked call",
			fmt.Sprint(m.spy.typeSaw, m.spy.implSaw, " ; unmarked: ", c.spy.typeSaw, c.spy.implSaw))
	}
	if m.cls == "nil" {
		want := c.val
		if len(sets) > 0 {
			want = c.val.WithMarks(sets...)
		}
		if encVal(m.val) != encVal(want) {
			fail("call-non-interference", "call:result", "Call on marked arguments is not the unmarked call's result re-marked with the arguments' marks", m.summary+" ; unmarked: "+c.summary)
		}
	}
}

var c04ArgMenu = []cty.Value{
	cty.StringVal("a"),
	cty.StringVal("a").Mark("m1"),
	cty.ListVal([]cty.Value{cty.StringVal("a").Mark("m2")}),
	cty.ListVal([]cty.Value{cty.StringVal("a").Mark("m3"), cty.StringVal("b")}).WithMarks(c04VM("m1", "m2")),
	cty.UnknownVal(cty.String).Mark("m2"),
	cty.NullVal(cty.String).Mark("m1"),
	cty.DynamicVal.Mark("m3"),
	cty.UnknownVal(cty.String),
}

func c04Calls(ctx *Ctx) {
	var kinds []c04Param
	for _, ty := range []cty.Type{cty.DynamicPseudoType, cty.String} {
		for _, m := range []bool{false, true} {
			for _, u := range []bool{false, true} {
				kinds = append(kinds, c04Param{ty, m, u, false})
			}
		}
	}
	vps := []*c04Param{nil, {cty.DynamicPseudoType, false, false, false}, {cty.DynamicPseudoType, true, true, false}}
	var paramLists [][]c04Param
	paramLists = append(paramLists, nil)
	for _, a := range kinds {
		paramLists = append(paramLists, []c04Param{a})
		for _, b := range kinds {
			paramLists = append(paramLists, []c04Param{a, b})
		}
	}
	stride := ctx.N(7, 1) // the quick tier walks every 7th combination of the full product (offset by the seed)
	k := int(ctx.Seed) % stride
	for _, ps := range paramLists {
		for _, vp := range vps {
			nargs := []int{len(ps)}
			if vp != nil {
				nargs = append(nargs, len(ps)+1)
			}
			for _, n := range nargs {
				idx := make([]int, n)
				for {
					args := make([]cty.Value, n)
					for i := range idx {
						args[i] = c04ArgMenu[idx[i]]
					}
					for ci, cb := range c04Callbacks {
						k++
						if k%stride != 0 {
							continue
						}
						c04CallCase(ctx, ps, vp, cb[0], cb[1], ci%2 == 1 && cb[1] == "const", args)
					}
					// next argument tuple
					i := 0
					for ; i < n; i++ {
						idx[i]++
						if idx[i] < len(c04ArgMenu) {
							break
						}
						idx[i] = 0
					}
					if i == n {
						break
					}
				}
			}
		}
	}
	// random: generated types, values with marks at any depth, all four flags
	for i := 0; i < ctx.N(3000, 60000); i++ {
		np := ctx.R.Intn(3)
		ps := make([]c04Param, np)
		mk := func() c04Param {
			ty := cty.DynamicPseudoType
			if ctx.R.Intn(3) == 0 {
				ty = genTy(ctx.R, 2, TyOpts{Dyn: true})
			}
			return c04Param{ty, ctx.R.Intn(3) == 0, ctx.R.Intn(2) == 0, ctx.R.Intn(2) == 0}
		}
		for j := range ps {
			ps[j] = mk()
		}
		var vp *c04Param
		n := np
		if ctx.R.Intn(2) == 0 {
			p := mk()
			vp = &p
			n += ctx.R.Intn(3)
		}
		args := make([]cty.Value, n)
		for j := range args {
			p := vp
			if j < np {
				p = &ps[j]
			}
			t := p.ty
			if ctx.R.Intn(10) == 0 {
				t = genTy(ctx.R, 1, TyOpts{})
			}
			args[j] = c04RandomMarks(ctx, c04GenVal(ctx, t, 3))
		}
		cb := c04Callbacks[ctx.R.Intn(len(c04Callbacks))]
		c04CallCase(ctx, ps, vp, cb[0], cb[1], ctx.R.Intn(4) == 0 && cb[1] == "const", args)
	}
}

// ---- convert ----------------------------------------------------------------------

// c04Targets: target types worth trying for a value of type t.
func c04Targets(ctx *Ctx, t cty.Type) []cty.Type {
	out := []cty.Type{t, cty.DynamicPseudoType, cty.String, cty.Number, cty.Bool}
	switch {
	case t.IsListType() || t.IsSetType():
		e := t.ElementType()
		out = append(out, cty.List(e), cty.Set(e), cty.List(cty.String), cty.Set(cty.String), cty.List(cty.DynamicPseudoType), cty.Set(cty.DynamicPseudoType), cty.Map(e))
	case t.IsTupleType():
		out = append(out, cty.List(cty.DynamicPseudoType), cty.Set(cty.DynamicPseudoType), cty.List(cty.String), cty.Set(cty.String))
		es := t.TupleElementTypes()
		ds := make([]cty.Type, len(es))
		for i := range ds {
			ds[i] = cty.String
		}
		out = append(out, cty.Tuple(ds))
	case t.IsMapType():
		out = append(out, cty.Map(cty.String), cty.Map(cty.DynamicPseudoType), cty.Object(map[string]cty.Type{"a": cty.String}),
			cty.ObjectWithOptionalAttrs(map[string]cty.Type{"a": cty.String, "b": t.ElementType(), "q": cty.Number}, []string{"q"}))
	case t.IsObjectType():
		out = append(out, cty.Map(cty.String), cty.Map(cty.DynamicPseudoType))
		atys := map[string]cty.Type{}
		for k := range t.AttributeTypes() {
			atys[k] = cty.String
		}
		out = append(out, cty.Object(atys))
		atys2 := map[string]cty.Type{}
		for k, v := range t.AttributeTypes() {
			atys2[k] = v
		}
		atys2["opt"] = cty.String
		out = append(out, cty.ObjectWithOptionalAttrs(atys2, []string{"opt"}))
	}
	if ctx.R.Intn(3) == 0 {
		out = append(out, genTy(ctx.R, 2, TyOpts{Dyn: true}))
	}
	return out
}

func c04Kind(t cty.Type) string {
	switch {
	case t == cty.DynamicPseudoType:
		return "dynamic"
	case t.IsPrimitiveType():
		return t.FriendlyName()
	case t.IsListType():
		return "list"
	case t.IsSetType():
		return "set"
	case t.IsMapType():
		return "map"
	case t.IsTupleType():
		return "tuple"
	case t.IsObjectType():
		return "object"
	}
	return "capsule"
}

type c04NodeMark struct {
	path  cty.Path
	marks []string
	kind  string // null | unknown | known
}

// c04NodeMarks lists the marked nodes of v (independent walker).
func c04NodeMarks(v cty.Value) []c04NodeMark {
	var out []c04NodeMark
	var walk func(v cty.Value, path cty.Path)
	walk = func(v cty.Value, path cty.Path) {
		u, ms := v.Unmark()
		if len(ms) > 0 {
			kind := "known"
			if u.IsNull() {
				kind = "null"
			} else if !u.IsKnown() {
				kind = "unknown"
			}
			out = append(out, c04NodeMark{path.Copy(), c04MarkSet(ms), kind})
		}
		if u.IsNull() || !u.IsKnown() || u.Type().IsSetType() {
			return
		}
		ty := u.Type()
		switch {
		case ty.IsObjectType():
			for _, name := range sortedKeys(ty.AttributeTypes()) {
				walk(u.GetAttr(name), append(path.Copy(), cty.GetAttrStep{Name: name}))
			}
		case u.CanIterateElements():
			for it := u.ElementIterator(); it.Next(); {
				kv, ev := it.Element()
				walk(ev, append(path.Copy(), cty.IndexStep{Key: kv}))
			}
		}
	}
	walk(v, nil)
	return out
}

// c04Locate follows path in r; attribute steps and string-key steps are
// interchangeable; a set on the way is returned itself (SetVal hoists).
func c04Locate(r cty.Value, path cty.Path) (node cty.Value, found bool) {
	cur := r
	for i, st := range path {
		u, _ := cur.Unmark()
		if u.IsNull() || !u.IsKnown() {
			return cur, false
		}
		ty := u.Type()
		if ty.IsSetType() {
			// the set takes the marks of its members, but only of what survives in
			// them: the rest of the path must exist in the element type
			return cur, c04TypeHasPath(ty.ElementType(), path[i+1:])
		}
		var name string
		var idx int64 = -1
		switch st := st.(type) {
		case cty.GetAttrStep:
			name = st.Name
		case cty.IndexStep:
			switch {
			case st.Key.Type() == cty.String:
				name = st.Key.AsString()
			case st.Key.Type() == cty.Number:
				idx, _ = st.Key.AsBigFloat().Int64()
			default:
				return cur, false
			}
		}
		switch {
		case ty.IsObjectType():
			if idx >= 0 || !ty.HasAttribute(name) {
				return cur, false
			}
			cur = u.GetAttr(name)
		case ty.IsMapType():
			if idx >= 0 || !u.HasIndex(cty.StringVal(name)).True() {
				return cur, false
			}
			cur = u.Index(cty.StringVal(name))
		case ty.IsListType() || ty.IsTupleType():
			if idx < 0 || idx >= int64(u.LengthInt()) {
				return cur, false
			}
			cur = u.Index(cty.NumberIntVal(idx))
		default:
			return cur, false
		}
	}
	return cur, true
}

// c04TypeHasPath: do the steps name a position inside a value of type ty?
// (member steps below a set, list or map always do; a placeholder stands for anything)
func c04TypeHasPath(ty cty.Type, steps cty.Path) bool {
	for _, st := range steps {
		switch {
		case ty == cty.DynamicPseudoType:
			return true
		case ty.IsListType() || ty.IsSetType() || ty.IsMapType():
			ty = ty.ElementType()
		case ty.IsTupleType():
			is, ok := st.(cty.IndexStep)
			if !ok || is.Key.Type() != cty.Number {
				return false
			}
			i, _ := is.Key.AsBigFloat().Int64()
			if i < 0 || int(i) >= ty.Length() {
				return false
			}
			ty = ty.TupleElementType(int(i))
		case ty.IsObjectType():
			var name string
			switch st := st.(type) {
			case cty.GetAttrStep:
				name = st.Name
			case cty.IndexStep:
				if st.Key.Type() != cty.String {
					return false
				}
				name = st.Key.AsString()
			}
			if !ty.HasAttribute(name) {
				return false
			}
			ty = ty.AttributeType(name)
		default:
			return false
		}
	}
	return true
}

func c04ConvOut(v cty.Value, err error, panicked bool) string {
	switch {
	case panicked:
		return "panic"
	case err != nil:
		return "err"
	}
	return "ok " + encVal(v)
}

func c04ConvertCase(ctx *Ctx, v cty.Value, ty cty.Type) {
	w := encVal(v)
	key := "convert " + w + " " + encTy(ty)
	marks := c04DeepSet(v)
	ctx.Eval(key, len(marks) > 0)
	ctx.Tag("convert")
	lit := fmt.Sprintf("convert.Convert(%s, %#v)", c04GoLit([]cty.Value{v}, ""), ty)
	fail := func(site, sig, what, outcome string) {
		ctx.Fail(Failure{Site: site, Sig: sig, What: what, Input: key, GoLit: lit, Outcome: outcome})
	}
	var rm, rc, r1 cty.Value
	var em, ec, e1 error
	pm, _ := try(func() { rm, em = convert.Convert(v, ty) })
	clean, _ := v.UnmarkDeep()
	pc, _ := try(func() { rc, ec = convert.Convert(clean, ty) })
	outM, outC := c04ConvOut(rm, em, pm), c04ConvOut(rc, ec, pc)
	// the wrapper: Convert(marked) = Convert(top-unmarked).WithMarks(top marks)
	u1, _ := v.Unmark()
	p1, _ := try(func() { r1, e1 = convert.Convert(u1, ty) })
	ctx.Add("mk.convwrap", outM, w, c04Out(c04ConvOut(r1, e1, p1)))
	c04d04ConvTie(ctx, v, clean, ty, outM, outC)
	kind := func(s string) string { return strings.SplitN(s, " ", 2)[0] }
	if kind(outM) != kind(outC) {
		fail("convert-non-interference", "convert:outcome:"+kind(outM)+"-vs-"+kind(outC), "conversion of the marked and of the unmarked value end differently", "marked: "+outM+" ; unmarked: "+outC)
		return
	}
	if kind(outM) != "ok" {
		return
	}
	same := false
	var stripped cty.Value
	try(func() {
		stripped, _ = rm.UnmarkDeep()
		same = stripped.RawEquals(rc)
	})
	if !same {
		fail("convert-non-interference", "convert:result", "conversion result of the marked value, unmarked, is not the conversion result of the unmarked value", "marked: "+outM+" ; unmarked: "+outC)
	}
	if m, ok := c04Subset(c04MarkSet(v.Marks()), c04TopSet(rm)); !ok {
		fail("convert-no-loss", "convert:top", fmt.Sprintf("top-level mark %q of the converted value is not on the result", m), outM)
	}
	// nested marks: "propagated to the corresponding nested value in the result if
	// possible" (docs/marks.md) — judged only where the marked node HAS a
	// corresponding node in the result (same path, attribute and key steps
	// interchangeable); a set on the way takes the marks itself.
	for _, e := range c04NodeMarks(v) {
		node, ok := c04Locate(rm, e.path)
		if !ok {
			ctx.Tag("convert:marked-node-has-no-counterpart")
			continue
		}
		if m, ok := c04Subset(e.marks, c04TopSet(node)); !ok {
			sig := "convert:nested:" + c04Kind(v.Type()) + "-to-" + c04Kind(rm.Type()) + ":" + e.kind + "-member"
			if e.kind == "null" {
				sig = "convert:null-member-marks-dropped:" + c04Kind(v.Type()) + "-to-" + c04Kind(rm.Type())
			}
			fail("convert-no-loss", sig,
				fmt.Sprintf("mark %q on the %s member at %s is not on the corresponding member of the result", m, e.kind, c04PathWire(e.path)), outM)
		}
	}
	if m, ok := c04Subset(c04Keys(c04DeepSet(rm)), marks); !ok {
		fail("convert-no-invention", "convert:invented", fmt.Sprintf("the result carries mark %q that the input does not", m), outM)
	}
}

// c04ConvCorpus: witnesses of repaired defects (known_findings.json, status fixed); they must pass.
func c04ConvCorpus(ctx *Ctx) {
	nullS := cty.NullVal(cty.String).Mark("m1")
	for _, c := range []struct {
		v  cty.Value
		ty cty.Type
	}{
		{cty.ListVal([]cty.Value{nullS}), cty.List(cty.Number)},                                                   // ab9d5ec conversionCollectionToList
		{cty.ListVal([]cty.Value{cty.NumberIntVal(1), cty.NullVal(cty.Number).Mark("m2")}), cty.List(cty.String)}, // the same, as first reported
		{cty.ListVal([]cty.Value{nullS}), cty.Set(cty.Number)},                                                    // conversionCollectionToSet
		{cty.TupleVal([]cty.Value{nullS}), cty.Set(cty.String)},                                                   // conversionTupleToSet
		{cty.TupleVal([]cty.Value{nullS, cty.StringVal("a")}), cty.List(cty.String)},                              // conversionTupleToList
		{cty.MapVal(map[string]cty.Value{"a": nullS}), cty.Object(map[string]cty.Type{"a": cty.Number})},          // conversionMapToObject
		{cty.ObjectVal(map[string]cty.Value{"a": nullS}), cty.Object(map[string]cty.Type{"a": cty.Number})},       // conversionObjectToObject
		{cty.ObjectVal(map[string]cty.Value{"a": nullS, "b": cty.StringVal("x")}), cty.Map(cty.String)},           // conversionObjectToMap
		{cty.MapVal(map[string]cty.Value{"a": nullS}), cty.Map(cty.Number)},                                       // conversionCollectionToMap
	} {
		c04ConvertCase(ctx, c.v, c.ty)
		c04ConvertCase(ctx, c.v.Mark("m3"), c.ty)
	}
}

func c04Convert(ctx *Ctx) {
	c04ConvCorpus(ctx)
	var base []cty.Value
	base = append(base, c04CollBase...)
	base = append(base, cty.NumberIntVal(1), cty.StringVal("1"), cty.StringVal("true"), cty.True, cty.UnknownVal(cty.String), cty.NullVal(cty.Number),
		cty.TupleVal([]cty.Value{cty.StringVal("a"), cty.StringVal("b")}),
		cty.ObjectVal(map[string]cty.Value{"a": cty.StringVal("x"), "b": cty.StringVal("y")}),
		cty.ListVal([]cty.Value{cty.StringVal("a"), cty.StringVal("a")}),
		cty.SetVal([]cty.Value{cty.StringVal("a"), cty.StringVal("b")}))
	for _, b := range base {
		for _, v := range c04Placements(b) {
			for _, ty := range c04Targets(ctx, v.Type()) {
				c04ConvertCase(ctx, v, ty)
			}
		}
	}
	for i := 0; i < ctx.N(1500, 40000); i++ {
		t := genTy(ctx.R, 3, TyOpts{Dyn: true})
		v := c04RandomMarks(ctx, c04GenVal(ctx, t, 3))
		ts := c04Targets(ctx, v.Type())
		c04ConvertCase(ctx, v, ts[ctx.R.Intn(len(ts))])
		c04ConvertCase(ctx, v, mutateTy(ctx.R, v.Type(), TyOpts{Dyn: true, Opt: true}))
	}
}

// ---- a sample of the standard library ----------------------------------------------

type c04StdFn struct {
	name string
	f    function.Function
	args func(ctx *Ctx) []cty.Value
}

func c04StdList(ctx *Ctx) cty.Value {
	n := 1 + ctx.R.Intn(3)
	vs := make([]cty.Value, n)
	for i := range vs {
		vs[i] = cty.StringVal([]string{"a", "b", "c"}[ctx.R.Intn(3)])
		if ctx.R.Intn(8) == 0 {
			vs[i] = cty.UnknownVal(cty.String)
		}
	}
	return cty.ListVal(vs)
}

func c04StdNum(ctx *Ctx) cty.Value {
	if ctx.R.Intn(10) == 0 {
		return cty.UnknownVal(cty.Number)
	}
	return cty.NumberIntVal(int64(ctx.R.Intn(4)))
}

func c04StdStr(ctx *Ctx) cty.Value {
	if ctx.R.Intn(10) == 0 {
		return cty.UnknownVal(cty.String)
	}
	return cty.StringVal([]string{"a", "b", "hello world", ""}[ctx.R.Intn(4)])
}

func c04StdMap(ctx *Ctx) cty.Value {
	return cty.MapVal(map[string]cty.Value{"a": c04StdStr(ctx), "b": c04StdStr(ctx)})
}

func c04StdObj(ctx *Ctx) cty.Value {
	return cty.ObjectVal(map[string]cty.Value{"a": c04StdStr(ctx), "b": c04StdNum(ctx)})
}

func c04StdSet(ctx *Ctx) cty.Value {
	return cty.SetVal([]cty.Value{c04StdStr(ctx), c04StdStr(ctx)})
}

var c04StdFns = []c04StdFn{
	{"upper", stdlib.UpperFunc, func(c *Ctx) []cty.Value { return []cty.Value{c04StdStr(c)} }},
	{"strlen", stdlib.StrlenFunc, func(c *Ctx) []cty.Value { return []cty.Value{c04StdStr(c)} }},
	{"substr", stdlib.SubstrFunc, func(c *Ctx) []cty.Value { return []cty.Value{c04StdStr(c), c04StdNum(c), c04StdNum(c)} }},
	{"join", stdlib.JoinFunc, func(c *Ctx) []cty.Value { return []cty.Value{c04StdStr(c), c04StdList(c)} }},
	{"split", stdlib.SplitFunc, func(c *Ctx) []cty.Value { return []cty.Value{c04StdStr(c), c04StdStr(c)} }},
	{"format", stdlib.FormatFunc, func(c *Ctx) []cty.Value { return []cty.Value{cty.StringVal("%s-%d"), c04StdStr(c), c04StdNum(c)} }},
	{"formatlist", stdlib.FormatListFunc, func(c *Ctx) []cty.Value { return []cty.Value{cty.StringVal("%s-%s"), c04StdList(c), c04StdStr(c)} }},
	{"add", stdlib.AddFunc, func(c *Ctx) []cty.Value { return []cty.Value{c04StdNum(c), c04StdNum(c)} }},
	{"max", stdlib.MaxFunc, func(c *Ctx) []cty.Value { return []cty.Value{c04StdNum(c), c04StdNum(c), c04StdNum(c)} }},
	{"equal", stdlib.EqualFunc, func(c *Ctx) []cty.Value { return []cty.Value{c04StdList(c), c04StdList(c)} }},
	{"not", stdlib.NotFunc, func(c *Ctx) []cty.Value { return []cty.Value{cty.BoolVal(c.R.Intn(2) == 0)} }},
	{"and", stdlib.AndFunc, func(c *Ctx) []cty.Value {
		return []cty.Value{cty.BoolVal(c.R.Intn(2) == 0), cty.BoolVal(c.R.Intn(2) == 0)}
	}},
	{"length", stdlib.LengthFunc, func(c *Ctx) []cty.Value { return []cty.Value{c04StdList(c)} }},
	{"element", stdlib.ElementFunc, func(c *Ctx) []cty.Value { return []cty.Value{c04StdList(c), c04StdNum(c)} }},
	{"index", stdlib.IndexFunc, func(c *Ctx) []cty.Value { return []cty.Value{c04StdList(c), c04StdNum(c)} }},
	{"hasindex", stdlib.HasIndexFunc, func(c *Ctx) []cty.Value { return []cty.Value{c04StdList(c), c04StdNum(c)} }},
	{"concat", stdlib.ConcatFunc, func(c *Ctx) []cty.Value { return []cty.Value{c04StdList(c), c04StdList(c)} }},
	{"coalesce", stdlib.CoalesceFunc, func(c *Ctx) []cty.Value {
		return []cty.Value{cty.NullVal(cty.String), c04StdStr(c), c04StdStr(c)}
	}},
	{"coalescelist", stdlib.CoalesceListFunc, func(c *Ctx) []cty.Value {
		return []cty.Value{cty.ListValEmpty(cty.String), c04StdList(c), c04StdList(c)}
	}},
	{"compact", stdlib.CompactFunc, func(c *Ctx) []cty.Value { return []cty.Value{c04StdList(c)} }},
	{"contains", stdlib.ContainsFunc, func(c *Ctx) []cty.Value { return []cty.Value{c04StdList(c), c04StdStr(c)} }},
	{"distinct", stdlib.DistinctFunc, func(c *Ctx) []cty.Value { return []cty.Value{c04StdList(c)} }},
	{"chunklist", stdlib.ChunklistFunc, func(c *Ctx) []cty.Value { return []cty.Value{c04StdList(c), c04StdNum(c)} }},
	{"flatten", stdlib.FlattenFunc, func(c *Ctx) []cty.Value {
		return []cty.Value{cty.TupleVal([]cty.Value{c04StdList(c), c04StdStr(c), c04StdList(c)})}
	}},
	{"keys", stdlib.KeysFunc, func(c *Ctx) []cty.Value { return []cty.Value{c04StdMap(c)} }},
	{"values", stdlib.ValuesFunc, func(c *Ctx) []cty.Value { return []cty.Value{c04StdMap(c)} }},
	{"lookup", stdlib.LookupFunc, func(c *Ctx) []cty.Value {
		return []cty.Value{c04StdMap(c), cty.StringVal([]string{"a", "zz"}[c.R.Intn(2)]), c04StdStr(c)}
	}},
	{"merge", stdlib.MergeFunc, func(c *Ctx) []cty.Value { return []cty.Value{c04StdMap(c), c04StdObj(c)} }},
	{"reverse", stdlib.ReverseListFunc, func(c *Ctx) []cty.Value { return []cty.Value{c04StdList(c)} }},
	{"slice", stdlib.SliceFunc, func(c *Ctx) []cty.Value { return []cty.Value{c04StdList(c), cty.NumberIntVal(0), cty.NumberIntVal(1)} }},
	{"sort", stdlib.SortFunc, func(c *Ctx) []cty.Value { return []cty.Value{c04StdList(c)} }},
	{"zipmap", stdlib.ZipmapFunc, func(c *Ctx) []cty.Value {
		return []cty.Value{cty.ListVal([]cty.Value{cty.StringVal("k1"), cty.StringVal("k2")}), cty.ListVal([]cty.Value{c04StdStr(c), c04StdStr(c)})}
	}},
	{"setunion", stdlib.SetUnionFunc, func(c *Ctx) []cty.Value { return []cty.Value{c04StdSet(c), c04StdSet(c)} }},
	{"setintersection", stdlib.SetIntersectionFunc, func(c *Ctx) []cty.Value { return []cty.Value{c04StdSet(c), c04StdSet(c)} }},
	{"setproduct", stdlib.SetProductFunc, func(c *Ctx) []cty.Value { return []cty.Value{c04StdSet(c), c04StdList(c)} }},
	{"sethaselement", stdlib.SetHasElementFunc, func(c *Ctx) []cty.Value { return []cty.Value{c04StdSet(c), c04StdStr(c)} }},
	{"jsonencode", stdlib.JSONEncodeFunc, func(c *Ctx) []cty.Value { return []cty.Value{c04StdObj(c)} }},
	{"range", stdlib.RangeFunc, func(c *Ctx) []cty.Value { return []cty.Value{c04StdNum(c), c04StdNum(c)} }},
}

// c04StdArg: an argument of (roughly) the parameter's type, from small pools.
func c04StdArg(ctx *Ctx, ty cty.Type, depth int) cty.Value {
	r := ctx.R
	if ty != cty.DynamicPseudoType && r.Intn(12) == 0 {
		return cty.UnknownVal(ty)
	}
	if r.Intn(25) == 0 {
		return cty.NullVal(ty)
	}
	switch {
	case ty == cty.DynamicPseudoType:
		ts := []cty.Type{cty.String, cty.Number, cty.Bool, cty.List(cty.String), cty.Map(cty.String), cty.Set(cty.String), cty.List(cty.Number),
			cty.Tuple([]cty.Type{cty.String, cty.Number}), cty.Object(map[string]cty.Type{"a": cty.String, "b": cty.Number})}
		if depth <= 0 {
			ts = ts[:3]
		}
		if r.Intn(15) == 0 {
			return cty.DynamicVal
		}
		return c04StdArg(ctx, ts[r.Intn(len(ts))], depth)
	case ty == cty.String:
		return cty.StringVal([]string{"a", "b", "hello world", "", "%s", "%d-%s", "1", "true", "[a-z]+", "2006-01-02T15:04:05Z", "a,b\n1,2", "{\"k\":1}", "YYYY", "1h"}[r.Intn(14)])
	case ty == cty.Number:
		if r.Intn(8) == 0 {
			return cty.NumberFloatVal(0.5)
		}
		return cty.NumberIntVal(int64(r.Intn(5) - 1))
	case ty == cty.Bool:
		return cty.BoolVal(r.Intn(2) == 0)
	case ty.IsListType() || ty.IsSetType():
		n := r.Intn(3)
		ety := ty.ElementType()
		if n == 0 && ety != cty.DynamicPseudoType {
			if ty.IsListType() {
				return cty.ListValEmpty(ety)
			}
			return cty.SetValEmpty(ety)
		}
		if n == 0 {
			n = 1
		}
		if ety == cty.DynamicPseudoType {
			ety = []cty.Type{cty.String, cty.Number, cty.List(cty.String)}[r.Intn(3)]
		}
		vs := make([]cty.Value, n)
		for i := range vs {
			vs[i] = c04StdArg(ctx, ety, depth-1)
			if vs[i].Type() != ety { // an unknown/null of the right type keeps the collection homogeneous
				vs[i] = cty.UnknownVal(ety)
			}
		}
		if ty.IsListType() {
			return cty.ListVal(vs)
		}
		return cty.SetVal(vs)
	case ty.IsMapType():
		ety := ty.ElementType()
		if ety == cty.DynamicPseudoType {
			ety = []cty.Type{cty.String, cty.Number}[r.Intn(2)]
		}
		m := map[string]cty.Value{}
		for _, k := range []string{"a", "b"}[:1+r.Intn(2)] {
			v := c04StdArg(ctx, ety, depth-1)
			if v.Type() != ety {
				v = cty.UnknownVal(ety)
			}
			m[k] = v
		}
		return cty.MapVal(m)
	}
	return genVal(r, ty, 2, ValOpts{Unknown: true, Null: true, Small: true})
}

// c04StdCase: one paired run of a stdlib function.  Non-interference and "no
// invention" are judged for every function; "no loss" for every argument whose
// parameter lacks AllowMarked (the protocol's promise) — for AllowMarked
// parameters the function's own code decides, and a top-level mark that does
// not reach a wholly known result is only tallied.
func c04StdCase(ctx *Ctx, name string, f function.Function, base []cty.Value) {
	params, vp := f.Params(), f.VarParam()
	args := make([]cty.Value, len(base))
	for j, a := range base {
		args[j] = c04RandomMarks(ctx, a)
	}
	marks := c04DeepSet(args...)
	key := "stdlib " + name + " " + c04Vals(args)
	ctx.Eval(key, len(marks) > 0)
	ctx.Tag("stdlib")
	lit := "stdlib " + name + " " + c04GoLit(args, "")
	fail := func(site, sig, what, outcome string) {
		ctx.Fail(Failure{Site: site, Sig: sig, What: what, Input: key, GoLit: lit, Outcome: outcome})
	}
	clean := make([]cty.Value, len(args))
	for j, a := range args {
		clean[j], _ = a.UnmarkDeep()
	}
	var rm, rc cty.Value
	var em, ec error
	pm, _ := try(func() { rm, em = f.Call(args) })
	pc, _ := try(func() { rc, ec = f.Call(clean) })
	outM, outC := c04ConvOut(rm, em, pm), c04ConvOut(rc, ec, pc)
	kind := func(s string) string { return strings.SplitN(s, " ", 2)[0] }
	if kind(outM) != kind(outC) {
		fail("stdlib-non-interference", name+":outcome", name+": the marked and the unmarked call end differently", "marked: "+outM+" ; unmarked: "+outC)
		return
	}
	if kind(outM) != "ok" {
		return
	}
	ctx.Tag("stdlib-ok")
	same := false
	try(func() {
		s, _ := rm.UnmarkDeep()
		same = s.RawEquals(rc)
	})
	if !same {
		fail("stdlib-non-interference", name+":result", name+": result on marked arguments, unmarked, is not the result on unmarked arguments", "marked: "+outM+" ; unmarked: "+outC)
	}
	resMarks := c04DeepSet(rm)
	top := c04TopSet(rm)
	short := false // the protocol short-circuits: some argument is unknown (or dynamically typed) and its parameter does not allow that
	for j, a := range clean {
		p := vp
		if j < len(params) {
			p = &params[j]
		}
		if p != nil && ((!a.IsKnown() && !p.AllowUnknown) || (a.Type() == cty.DynamicPseudoType && !p.AllowDynamicType)) {
			short = true
		}
	}
	if short {
		if _, ok := c04Subset(c04Keys(marks), top); !ok {
			ctx.Tag("short-circuit-without-allowmarked-marks:" + name) // intended, see c04CallCase
		}
	}
	for j, a := range args {
		var p *function.Parameter
		if j < len(params) {
			p = &params[j]
		} else {
			p = vp
		}
		deep := c04Keys(c04DeepSet(a))
		if p != nil && !p.AllowMarked {
			if m, ok := c04Subset(deep, top); !ok {
				fail("stdlib-no-loss", name, fmt.Sprintf("%s: mark %q inside argument %d (parameter without AllowMarked) is not on the result", name, m, j), outM)
			}
		} else if _, ok := c04Subset(c04MarkSet(a.Marks()), resMarks); !ok && rm.IsWhollyKnown() {
			ctx.Tag("allowmarked-top-mark-not-in-result:" + name)
		}
	}
	if m, ok := c04Subset(c04Keys(resMarks), marks); !ok {
		fail("stdlib-no-invention", name, fmt.Sprintf("%s: the result carries mark %q that no argument carries", name, m), outM)
	}
}

// c04Stdlib: search only — a hand-written table of well-typed calls that reach
// the implementations, then every exported function of the package (the
// extractor's list) on arguments drawn from its own parameter types.
func c04Stdlib(ctx *Ctx) {
	n := ctx.N(60, 3000)
	for _, fn := range c04StdFns {
		for i := 0; i < n; i++ {
			var base []cty.Value
			if p, _ := try(func() { base = fn.args(ctx) }); p {
				continue
			}
			c04StdCase(ctx, fn.name, fn.f, base)
		}
	}
	n = ctx.N(40, 2500)
	for _, fn := range stdlibFuncs {
		params, vp := fn.F.Params(), fn.F.VarParam()
		for i := 0; i < n; i++ {
			var base []cty.Value
			p, _ := try(func() {
				for _, prm := range params {
					base = append(base, c04StdArg(ctx, prm.Type, 2))
				}
				if vp != nil {
					for k := ctx.R.Intn(3); k > 0; k-- {
						base = append(base, c04StdArg(ctx, vp.Type, 2))
					}
				}
			})
			if p {
				continue
			}
			c04StdCase(ctx, fn.Var, fn.F, base)
		}
	}
}
