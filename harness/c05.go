package main

// C05 — refinements only narrow, are faithful, and prefixes are continuation-safe.
//
// Every builder call sequence is (1) a correspondence case against the Lean
// state machine (CtyModel/Refine.lean: init/step/newValue + the Range accessors)
// and (2) judged on the REAL results against an independent specification kept
// here in Go: a concrete sample value is "in the spec" iff it conforms to the
// type and satisfies every constraint stated so far (c05Den), by exact
// big.Float comparison / byte prefix / length.  The real result is read back
// through Value.Range()'s accessors (what a caller observes), through the
// refinement struct itself (cty.VerifDump) and through ValueRange.Includes.

import (
	"bytes"
	"encoding/hex"
	"fmt"
	"math"
	"math/big"
	"strings"
	"unicode/utf8"

	"github.com/apparentlymart/go-textseg/v15/textseg"
	"github.com/zclconf/go-cty/cty"
	"github.com/zclconf/go-cty/cty/ctystrings"
	"golang.org/x/text/unicode/norm"
)

func init() {
	register("C05", "builder call sequences (NotNull, Null, numeric lower/upper bounds incl./excl., NumberRangeInclusive, collection length bounds, "+
		"StringPrefix/StringPrefixFull) on unknown, already-refined, known, null, marked and DynamicVal receivers of every type kind; all sequences of "+
		"length<=3 over bounds {-1,0,1}x{incl,excl}, lengths {0,1,2}, prefixes {\"\",\"a-\",\"ab\"} are enumerated, random sequences of length<=8 use 512-bit, "+
		"float64, mixed-precision, infinite, unknown and null bounds. Each real result is tested for membership of sampled concrete values (bounds, "+
		"neighbours, midpoints, infinities, prefixes and their extensions, lengths 0..4, null). Prefix pairs over the C05 alphabet. "+
		"non-trivial = at least one call of the receiver's own kind succeeded (or a prefix pair with a non-empty prefix); distinct = distinct wire strings", runC05)
}

// ---- call arguments -------------------------------------------------------

type c05Arg struct {
	tag string // known | ninf | pinf | unk | null
	v   cty.Value
}

func c05Known(v cty.Value) c05Arg {
	// the builder tells the two singleton infinities apart from every other value (Go ==)
	switch v {
	case cty.NegativeInfinity:
		return c05NegInf
	case cty.PositiveInfinity:
		return c05PosInf
	}
	return c05Arg{"known", v}
}

var (
	c05NegInf = c05Arg{"ninf", cty.NegativeInfinity}
	c05PosInf = c05Arg{"pinf", cty.PositiveInfinity}
	c05Unk    = c05Arg{"unk", cty.UnknownVal(cty.Number)}
	c05Null   = c05Arg{"null", cty.NullVal(cty.Number)}
)

func (a c05Arg) wire() string {
	if a.tag == "known" {
		return cty.VerifDump(a.v)
	}
	return a.tag
}

func (a c05Arg) lit() string {
	switch a.tag {
	case "ninf":
		return "cty.NegativeInfinity"
	case "pinf":
		return "cty.PositiveInfinity"
	case "unk":
		return "cty.UnknownVal(cty.Number)"
	case "null":
		return "cty.NullVal(cty.Number)"
	}
	f := a.v.AsBigFloat()
	if f.IsInf() {
		return fmt.Sprintf("cty.NumberFloatVal(math.Inf(%d))", f.Sign())
	}
	return fmt.Sprintf("%s /*prec %d*/", a.v.GoString(), f.Prec())
}

// f returns the number the argument denotes (nil for unknown / null).
func (a c05Arg) f() *big.Float {
	switch a.tag {
	case "known", "ninf", "pinf":
		return a.v.AsBigFloat()
	}
	return nil
}

type c05Call struct {
	k    string // nn nl lo hi ri ll lu cl sp sf
	a, b c05Arg
	incl bool
	n    int
	s    string // the prefix as the caller passes it
}

func (c c05Call) apply(b *cty.RefinementBuilder) {
	switch c.k {
	case "nn":
		b.NotNull()
	case "nl":
		b.Null()
	case "lo":
		b.NumberRangeLowerBound(c.a.v, c.incl)
	case "hi":
		b.NumberRangeUpperBound(c.a.v, c.incl)
	case "ri":
		b.NumberRangeInclusive(c.a.v, c.b.v)
	case "ll":
		b.CollectionLengthLowerBound(c.n)
	case "lu":
		b.CollectionLengthUpperBound(c.n)
	case "cl":
		b.CollectionLength(c.n)
	case "sp":
		b.StringPrefix(c.s)
	case "sf":
		b.StringPrefixFull(c.s)
	default:
		panic("c05: bad call kind " + c.k)
	}
}

// recorded is the prefix the call records: the oracle column of the model.
func (c c05Call) recorded() string {
	if c.k == "sp" {
		return cty.NormalizeString(ctystrings.SafeKnownPrefix(c.s))
	}
	return cty.NormalizeString(c.s)
}

func (c c05Call) wire() string {
	switch c.k {
	case "nn", "nl":
		return "(" + c.k + ")"
	case "lo", "hi":
		return fmt.Sprintf("(%s %s %s)", c.k, c.a.wire(), encBool(c.incl))
	case "ri":
		return fmt.Sprintf("(ri %s %s)", c.a.wire(), c.b.wire())
	case "ll", "lu", "cl":
		return fmt.Sprintf("(%s %d)", c.k, c.n)
	default:
		return fmt.Sprintf("(%s %s)", c.k, encStr(c.recorded()))
	}
}

func (c c05Call) lit() string {
	switch c.k {
	case "nn":
		return "NotNull()"
	case "nl":
		return "Null()"
	case "lo":
		return fmt.Sprintf("NumberRangeLowerBound(%s, %v)", c.a.lit(), c.incl)
	case "hi":
		return fmt.Sprintf("NumberRangeUpperBound(%s, %v)", c.a.lit(), c.incl)
	case "ri":
		return fmt.Sprintf("NumberRangeInclusive(%s, %s)", c.a.lit(), c.b.lit())
	case "ll":
		return fmt.Sprintf("CollectionLengthLowerBound(%d)", c.n)
	case "lu":
		return fmt.Sprintf("CollectionLengthUpperBound(%d)", c.n)
	case "cl":
		return fmt.Sprintf("CollectionLength(%d)", c.n)
	case "sp":
		return fmt.Sprintf("StringPrefix(%q)", c.s)
	default:
		return fmt.Sprintf("StringPrefixFull(%q)", c.s)
	}
}

func c05Kind(c c05Call) string {
	switch c.k {
	case "nn", "nl":
		return "null"
	case "lo", "hi", "ri":
		return "num"
	case "ll", "lu", "cl":
		return "len"
	}
	return "str"
}

func c05TyKind(t cty.Type) string {
	switch {
	case t == cty.DynamicPseudoType:
		return "dyn"
	case t == cty.Number:
		return "num"
	case t == cty.String:
		return "str"
	case t.IsCollectionType():
		return "len"
	}
	return "other"
}

func c05Wires(cs []c05Call) string {
	ws := make([]string, len(cs))
	for i, c := range cs {
		ws[i] = c.wire()
	}
	return "(" + strings.Join(ws, " ") + ")"
}

func c05Lit(recvLit string, cs []c05Call) string {
	var sb strings.Builder
	sb.WriteString(recvLit + ".Refine()")
	for _, c := range cs {
		sb.WriteString("." + c.lit())
	}
	sb.WriteString(".NewValue()")
	return sb.String()
}

// ---- receivers --------------------------------------------------------------

// A receiver is a base value plus the constraints it already carries (as the
// calls that put them there): the spec of "constraints stated so far".
type c05Recv struct {
	v     cty.Value
	prior []c05Call
	lit   string
	tag   string
}

func c05Refined(t cty.Type, tlit string, prior ...c05Call) c05Recv {
	b := cty.UnknownVal(t).Refine()
	for _, c := range prior {
		c.apply(b)
	}
	v := b.NewValue()
	lit := c05Lit("cty.UnknownVal("+tlit+")", prior)
	if len(prior) == 0 {
		lit = "cty.UnknownVal(" + tlit + ")"
	}
	if v.IsKnown() {
		panic("c05Refined: receiver collapsed: " + lit)
	}
	tag := "refined-unknown"
	if len(prior) == 0 {
		tag = "unknown"
	}
	return c05Recv{v, prior, lit, tag}
}

func c05KnownRecv(v cty.Value) c05Recv {
	tag := "known"
	if v.IsNull() {
		tag = "null"
	}
	return c05Recv{v, nil, v.GoString(), tag}
}

func (r c05Recv) marked(m string) c05Recv {
	return c05Recv{r.v.Mark(m), r.prior, r.lit + fmt.Sprintf(".Mark(%q)", m), r.tag + "+marked"}
}

// ---- running the real builder -------------------------------------------------

// c05Run replays the calls on the real builder; panicAt = -1 if nothing panicked,
// len(calls) if NewValue did.
func c05Run(recv cty.Value, calls []c05Call) (res cty.Value, panicAt int, why string) {
	var b *cty.RefinementBuilder
	if p, w := try(func() { b = recv.Refine() }); p {
		return cty.NilVal, -2, w
	}
	for i, c := range calls {
		if p, w := try(func() { c.apply(b) }); p {
			return cty.NilVal, i, w
		}
	}
	if p, w := try(func() { res = b.NewValue() }); p {
		return cty.NilVal, len(calls), w
	}
	return res, -1, ""
}

func c05BoundStr(f func() (cty.Value, bool)) string {
	var v cty.Value
	var inc bool
	if p, _ := try(func() { v, inc = f() }); p {
		return "P"
	}
	if !v.IsKnown() {
		return "unk/" + encBool(inc)
	}
	return cty.VerifDump(v) + "/" + encBool(inc)
}

// c05Observers prints the accessors of v.Range() (top-level marks removed).
func c05Observers(v cty.Value) string {
	u, _ := v.Unmark()
	var r cty.ValueRange
	if p, _ := try(func() { r = u.Range() }); p {
		return "range-panic"
	}
	pfx := "P"
	try(func() { pfx = encStr(r.StringPrefix()) })
	ll, lu := "P", "P"
	try(func() { ll = fmt.Sprint(r.LengthLowerBound()) })
	try(func() { lu = fmt.Sprint(r.LengthUpperBound()) })
	return fmt.Sprintf("dnn=%s lo=%s hi=%s pfx=%s ll=%s lu=%s", encBool(r.DefinitelyNotNull()),
		c05BoundStr(r.NumberLowerBound), c05BoundStr(r.NumberUpperBound), pfx, ll, lu)
}

func c05Impl(res cty.Value, panicAt int) string {
	if panicAt == -2 {
		return "panic init"
	}
	if panicAt >= 0 {
		return fmt.Sprintf("panic %d", panicAt)
	}
	return "ok " + encVal(res) + " " + c05Observers(res)
}

// ---- concrete samples and the specification --------------------------------------

type c05Sample struct {
	kind string // null | num | str | len | other
	f    *big.Float
	s    string
	n    int
	val  cty.Value // a real value for Includes (NilVal when none is built)
}

func (x c05Sample) wire() string {
	switch x.kind {
	case "null":
		return "null"
	case "num":
		return cty.VerifNumWire(x.f)
	case "str":
		return "(str " + encStr(x.s) + ")"
	case "len":
		return fmt.Sprintf("(len %d)", x.n)
	}
	return "other"
}

func c05ArgLower(a c05Arg, incl bool, x *big.Float) bool {
	switch a.tag {
	case "unk":
		return true
	case "null":
		return false
	}
	c := x.Cmp(a.f())
	return c > 0 || (incl && c == 0)
}

func c05ArgUpper(a c05Arg, incl bool, x *big.Float) bool {
	switch a.tag {
	case "unk":
		return true
	case "null":
		return false
	}
	c := x.Cmp(a.f())
	return c < 0 || (incl && c == 0)
}

// c05Den: does the concrete value satisfy the stated constraint?  Range
// constraints speak about non-null values of their own kind.
func c05Den(c c05Call, x c05Sample) bool {
	switch c.k {
	case "nn":
		return x.kind != "null"
	case "nl":
		return x.kind == "null"
	}
	if c05Kind(c) != x.kind {
		return true
	}
	switch c.k {
	case "lo":
		return c05ArgLower(c.a, c.incl, x.f)
	case "hi":
		return c05ArgUpper(c.a, c.incl, x.f)
	case "ri":
		return c05ArgLower(c.a, true, x.f) && c05ArgUpper(c.b, true, x.f)
	case "ll":
		return c.n <= x.n
	case "lu":
		return x.n <= c.n
	case "cl":
		return x.n == c.n
	default:
		return strings.HasPrefix(x.s, c.recorded())
	}
}

func c05Conforms(t cty.Type, x c05Sample) bool {
	k := c05TyKind(t)
	return x.kind == "null" || k == "dyn" || k == x.kind
}

// c05InSpec: x conforms to the type and satisfies every constraint stated so far.
func c05InSpec(t cty.Type, stated []c05Call, x c05Sample) bool {
	if !c05Conforms(t, x) {
		return false
	}
	for _, c := range stated {
		if !c05Den(c, x) {
			return false
		}
	}
	return true
}

// c05Spec accumulates stated constraints as an interval / prefix set / length
// interval so that emptiness (on non-null values) is decidable.
type c05Bd struct {
	f    *big.Float
	incl bool
}

type c05Spec struct {
	notNull, isNull bool
	numFalse        bool
	lo, hi          *c05Bd
	prefixes        []string
	minLen, maxLen  int
}

func c05NewSpec() *c05Spec { return &c05Spec{minLen: 0, maxLen: math.MaxInt} }

func (s *c05Spec) lower(a c05Arg, incl bool) {
	switch a.tag {
	case "unk":
		return
	case "null":
		s.numFalse = true
		return
	}
	f := a.f()
	if s.lo == nil {
		s.lo = &c05Bd{f, incl}
		return
	}
	if c := f.Cmp(s.lo.f); c > 0 || (c == 0 && !incl) {
		s.lo = &c05Bd{f, incl}
	}
}

func (s *c05Spec) upper(a c05Arg, incl bool) {
	switch a.tag {
	case "unk":
		return
	case "null":
		s.numFalse = true
		return
	}
	f := a.f()
	if s.hi == nil {
		s.hi = &c05Bd{f, incl}
		return
	}
	if c := f.Cmp(s.hi.f); c < 0 || (c == 0 && !incl) {
		s.hi = &c05Bd{f, incl}
	}
}

func (s *c05Spec) add(c c05Call) {
	switch c.k {
	case "nn":
		s.notNull = true
	case "nl":
		s.isNull = true
	case "lo":
		s.lower(c.a, c.incl)
	case "hi":
		s.upper(c.a, c.incl)
	case "ri":
		s.lower(c.a, true)
		s.upper(c.b, true)
	case "ll":
		if c.n > s.minLen {
			s.minLen = c.n
		}
	case "lu":
		if c.n < s.maxLen {
			s.maxLen = c.n
		}
	case "cl":
		if c.n > s.minLen {
			s.minLen = c.n
		}
		if c.n < s.maxLen {
			s.maxLen = c.n
		}
	default:
		s.prefixes = append(s.prefixes, c.recorded())
	}
}

// nonNullEmpty: no non-null value of this kind satisfies the accumulated constraints.
// shape names why (for root-cause signatures).
func (s *c05Spec) nonNullEmpty(kind string) (empty bool, shape string) {
	switch kind {
	case "num":
		if s.numFalse {
			return true, "null-bound"
		}
		if s.lo != nil && s.lo.f.IsInf() && s.lo.f.Sign() > 0 && !s.lo.incl {
			return true, "exclusive-infinite-bound"
		}
		if s.hi != nil && s.hi.f.IsInf() && s.hi.f.Sign() < 0 && !s.hi.incl {
			return true, "exclusive-infinite-bound"
		}
		if s.lo != nil && s.hi != nil {
			c := s.lo.f.Cmp(s.hi.f)
			if c > 0 {
				return true, "lower>upper"
			}
			if c == 0 && !(s.lo.incl && s.hi.incl) {
				if !s.lo.incl && !s.hi.incl {
					return true, "open-point-interval"
				}
				return true, "half-open-point-interval"
			}
		}
	case "str":
		for i := range s.prefixes {
			for j := i + 1; j < len(s.prefixes); j++ {
				a, b := s.prefixes[i], s.prefixes[j]
				if !strings.HasPrefix(a, b) && !strings.HasPrefix(b, a) {
					return true, "incompatible-prefixes"
				}
			}
		}
	case "len":
		if s.minLen > s.maxLen {
			return true, "minlen>maxlen"
		}
	}
	return false, ""
}

// singleton: the constraints admit exactly one value (at the granularity of samples).
func (s *c05Spec) singleton(kind string) bool {
	if s.isNull {
		return true
	}
	if !s.notNull {
		return false
	}
	switch kind {
	case "num":
		return s.lo != nil && s.hi != nil && s.lo.incl && s.hi.incl && s.lo.f.Cmp(s.hi.f) == 0
	case "len":
		return s.minLen == s.maxLen
	}
	return false
}

// ---- reading a real result ------------------------------------------------------

// c05KnownAdmits: does the known value w stand for the concrete sample x?
func c05KnownAdmits(w cty.Value, x c05Sample) bool {
	if w.IsNull() {
		return x.kind == "null"
	}
	if x.kind == "null" {
		return false
	}
	t := w.Type()
	switch {
	case t == cty.Number:
		return x.kind == "num" && w.AsBigFloat().Cmp(x.f) == 0
	case t == cty.String:
		return x.kind == "str" && w.AsString() == x.s
	case t.IsCollectionType():
		if x.kind != "len" {
			return false
		}
		n := w.LengthInt()
		if t.IsSetType() && n > 1 && !w.IsWhollyKnown() {
			return 1 <= x.n && x.n <= n
		}
		return x.n == n
	}
	return x.kind == "other"
}

func c05CmpOK(x, bound *big.Float, incl bool, lower bool) bool {
	c := x.Cmp(bound)
	if lower {
		return c > 0 || (incl && c == 0)
	}
	return c < 0 || (incl && c == 0)
}

// c05Adm reads membership of x in the real result w.  structural=false: through the
// public accessors of Range() exactly as they report (an absent bound is reported
// as an inclusive infinity since bb8bc8c/bc44d9b; it used to be exclusive);
// structural=true: an absent bound (seen in the refinement struct) means unbounded.
func c05Adm(w cty.Value, x c05Sample, structural bool) bool {
	w, _ = w.Unmark()
	if w.IsKnown() {
		return c05Conforms(w.Type(), x) && c05KnownAdmits(w, x)
	}
	if !c05Conforms(w.Type(), x) {
		return false
	}
	r := w.Range()
	if x.kind == "null" {
		return !r.DefinitelyNotNull()
	}
	switch c05TyKind(w.Type()) {
	case "num":
		dump := cty.VerifDump(w)
		noLo, noHi := true, true
		if strings.HasPrefix(dump, "(unk (nu ") {
			f := c05SplitTop(dump[len("(unk ") : len(dump)-1])
			if len(f) == 4 {
				noLo, noHi = f[2] == "-", f[3] == "-"
			}
		}
		lo, li := r.NumberLowerBound()
		hi, hinc := r.NumberUpperBound()
		if !(structural && noLo) && !c05CmpOK(x.f, lo.AsBigFloat(), li, true) {
			return false
		}
		if !(structural && noHi) && !c05CmpOK(x.f, hi.AsBigFloat(), hinc, false) {
			return false
		}
		return true
	case "str":
		return strings.HasPrefix(x.s, r.StringPrefix())
	case "len":
		return r.LengthLowerBound() <= x.n && x.n <= r.LengthUpperBound()
	}
	return true
}

// c05SplitTop splits "(a b (c d) e)" into its top-level items.
func c05SplitTop(s string) []string {
	s = strings.TrimSpace(s)
	if len(s) < 2 || s[0] != '(' {
		return nil
	}
	s = s[1 : len(s)-1]
	var out []string
	depth, start := 0, -1
	for i := 0; i < len(s); i++ {
		switch s[i] {
		case '(':
			if depth == 0 && start < 0 {
				start = i
			}
			depth++
		case ')':
			depth--
			if depth == 0 {
				out = append(out, s[start:i+1])
				start = -1
			}
		case ' ':
			if depth == 0 && start >= 0 {
				out = append(out, s[start:i])
				start = -1
			}
		default:
			if start < 0 {
				start = i
			}
		}
	}
	if start >= 0 {
		out = append(out, s[start:])
	}
	return out
}

// ---- sample generation --------------------------------------------------------

const c05SamplePrec = 192

// c05EpsOf: a step well below g's own resolution (1/16 ulp; 2^-80 for zero) and the
// precision at which g ± step is exact.
func c05EpsOf(g *big.Float) (*big.Float, uint) {
	if g.Sign() == 0 {
		return new(big.Float).SetMantExp(big.NewFloat(1), -80), 64
	}
	p := g.Prec()
	if p < 8 {
		p = 8
	}
	e := g.MantExp(nil) // g = m·2^e, 0.5 <= |m| < 1
	return new(big.Float).SetMantExp(big.NewFloat(1), e-int(p)-4), p + 16
}

func c05NumSample(f *big.Float) c05Sample {
	return c05Sample{kind: "num", f: f, val: cty.NumberVal(new(big.Float).Copy(f))}
}

func c05Samples(t cty.Type, calls []c05Call, extra []cty.Value) []c05Sample {
	out := []c05Sample{{kind: "null", val: cty.NullVal(t)}}
	switch c05TyKind(t) {
	case "num":
		// Sample precision: Value.Equals formats non-integers with math/big's shortest-decimal
		// algorithm, whose cost grows with the square of the precision, so the samples are held at
		// c05SamplePrec bits (not thousands); neighbours of a bound sit a fraction of the bound's own
		// ulp away, at the bound's precision + 16 bits.
		var base []*big.Float
		for _, k := range []int64{-2, -1, 0, 1, 2} {
			base = append(base, new(big.Float).SetPrec(c05SamplePrec).SetInt64(k))
		}
		base = append(base, new(big.Float).SetPrec(c05SamplePrec).SetFloat64(0.5), new(big.Float).SetPrec(c05SamplePrec).SetFloat64(-0.5))
		var args []*big.Float
		addArg := func(a c05Arg) {
			if f := a.f(); f != nil && !f.IsInf() && len(args) < 6 {
				args = append(args, f)
			}
		}
		for _, c := range calls {
			switch c.k {
			case "lo", "hi":
				addArg(c.a)
			case "ri":
				addArg(c.a)
				addArg(c.b)
			}
		}
		for _, v := range extra {
			if v.Type() == cty.Number && v.IsKnown() && !v.IsNull() {
				addArg(c05Known(v))
			}
		}
		for _, f := range args {
			// the sample equal to a bound keeps the bound's precision (Value.Equals is only exact at equal precision)
			g := new(big.Float).Copy(f)
			eps, p := c05EpsOf(g)
			base = append(base, g, new(big.Float).SetPrec(p).Add(g, eps), new(big.Float).SetPrec(p).Sub(g, eps))
		}
		for i := 0; i+1 < len(args); i++ {
			p := args[i].Prec()
			if q := args[i+1].Prec(); q > p {
				p = q
			}
			m := new(big.Float).SetPrec(p+16).Add(args[i], args[i+1])
			m.Quo(m, big.NewFloat(2))
			base = append(base, m)
		}
		for _, f := range base {
			out = append(out, c05NumSample(f))
		}
		out = append(out, c05NumSample(new(big.Float).SetInf(true)), c05NumSample(new(big.Float).SetInf(false)))
	case "str":
		seen := map[string]bool{}
		add := func(s string) {
			if !seen[s] && utf8.ValidString(s) && len(out) < 24 {
				seen[s] = true
				n := cty.NormalizeString(s)
				out = append(out, c05Sample{kind: "str", s: n, val: cty.StringVal(n)})
			}
		}
		for _, s := range []string{"", "a", "ab", "a-", "a-b", "abc", "b"} {
			add(s)
		}
		for _, c := range calls {
			if c05Kind(c) == "str" {
				p := c.recorded()
				add(p)
				add(p + "x")
				add(p + "-")
				if len(p) > 0 {
					add(p[:len(p)-1])
				}
			}
		}
		for _, v := range extra {
			if v.Type() == cty.String && v.IsKnown() && !v.IsNull() {
				add(v.AsString())
				add(v.AsString() + "z")
			}
		}
	case "len":
		for n := 0; n <= 4; n++ {
			out = append(out, c05Sample{kind: "len", n: n, val: c05Coll(t, n)})
		}
	case "dyn":
		out = append(out, c05NumSample(new(big.Float).SetInt64(1)), c05Sample{kind: "str", s: "a", val: cty.StringVal("a")},
			c05Sample{kind: "len", n: 1, val: cty.ListVal([]cty.Value{cty.True})}, c05Sample{kind: "other", val: cty.True})
	default:
		out = append(out, c05Sample{kind: "other", val: cty.NilVal})
	}
	return out
}

// c05Coll builds a wholly-known collection of the given type and length, when it
// can (element types string / number / bool / dynamic).
func c05Coll(t cty.Type, n int) cty.Value {
	et := t.ElementType()
	mk := func(i int) cty.Value {
		switch {
		case et == cty.Number:
			return cty.NumberIntVal(int64(i))
		case et == cty.Bool:
			return cty.BoolVal(i%2 == 0)
		default:
			return cty.StringVal(fmt.Sprintf("e%d", i))
		}
	}
	if et == cty.Bool && t.IsSetType() && n > 2 {
		return cty.NilVal
	}
	if et != cty.Number && et != cty.Bool && et != cty.String {
		return cty.NilVal
	}
	switch {
	case t.IsListType():
		if n == 0 {
			return cty.ListValEmpty(et)
		}
		vs := make([]cty.Value, n)
		for i := range vs {
			vs[i] = mk(i)
		}
		return cty.ListVal(vs)
	case t.IsSetType():
		if n == 0 {
			return cty.SetValEmpty(et)
		}
		vs := make([]cty.Value, n)
		for i := range vs {
			vs[i] = mk(i)
		}
		return cty.SetVal(vs)
	default:
		if n == 0 {
			return cty.MapValEmpty(et)
		}
		vs := map[string]cty.Value{}
		for i := 0; i < n; i++ {
			vs[fmt.Sprintf("k%d", i)] = mk(i)
		}
		return cty.MapVal(vs)
	}
}

// ---- judging one case ---------------------------------------------------------

// c05InexactEquals: do two numbers among fs hit the documented gap between
// Value.Equals (shortest decimal text) and exact comparison?
func c05InexactEquals(fs []*big.Float) bool {
	for i := range fs {
		for j := range fs {
			a, b := fs[i], fs[j]
			if i == j || a.IsInf() || b.IsInf() || a.IsInt() || b.IsInt() || a.Prec() == b.Prec() {
				continue
			}
			eq := cty.NumberVal(a).Equals(cty.NumberVal(b)).True()
			if eq != (a.Cmp(b) == 0) {
				return true
			}
		}
	}
	return false
}

// c05InexactWith: the same gap between the sample x and one of the numbers fs.
func c05InexactWith(x *big.Float, fs []*big.Float) bool {
	if x.IsInf() || x.IsInt() {
		return false
	}
	for _, b := range fs {
		if b.IsInf() || b.IsInt() || b.Prec() == x.Prec() {
			continue
		}
		if cty.NumberVal(x).Equals(cty.NumberVal(b)).True() != (x.Cmp(b) == 0) {
			return true
		}
	}
	return false
}

func c05CallNums(cs []c05Call, extra ...*big.Float) []*big.Float {
	var fs []*big.Float
	for _, c := range cs {
		for _, a := range []c05Arg{c.a, c.b} {
			if f := a.f(); f != nil {
				fs = append(fs, f)
			}
		}
	}
	for _, f := range extra {
		if f != nil {
			fs = append(fs, f)
		}
	}
	return fs
}

func c05KindsSig(cs []c05Call) string {
	ks := make([]string, len(cs))
	for i, c := range cs {
		ks[i] = c.k
		if c.k == "lo" || c.k == "hi" {
			if c.incl {
				ks[i] += "i"
			} else {
				ks[i] += "x"
			}
			if c.a.tag != "known" {
				ks[i] += ":" + c.a.tag
			}
		}
	}
	return strings.Join(ks, ",")
}

const c05DroppedSig = "exclusive-singleton-infinity-dropped"
const c05InexactPrefix = "inexact-number-equals:"

// c05Dropped: an exclusive bound at the singleton infinity of its own side — the builder drops it.
func c05Dropped(c c05Call) bool {
	return (c.k == "lo" && c.a.tag == "ninf" && !c.incl) || (c.k == "hi" && c.a.tag == "pinf" && !c.incl)
}

// c05DroppedAt: is x the infinity that a dropped constraint among cs excludes?
func c05DroppedAt(cs []c05Call, x c05Sample) bool {
	if x.kind != "num" || !x.f.IsInf() {
		return false
	}
	for _, c := range cs {
		if c05Dropped(c) && ((c.k == "lo") == (x.f.Sign() < 0)) {
			return true
		}
	}
	return false
}

type c05Judge struct {
	ctx       *Ctx
	allSteps  bool // judge every step (random cases) or only the last one (enumerated: prefixes are cases themselves)
	wireLines int  // how many extra gamma/den/includes correspondence lines per case
	nTF       int  // slice d05b: counter for sampling the rfn.textfree correspondence
}

func (j *c05Judge) fail(site, sig, what string, recv c05Recv, cs []c05Call, outcome string) {
	if strings.HasPrefix(sig, c05InexactPrefix) && site != "includes" {
		// one root cause, one (site, sig): the builder compares bounds with Value.Equals, which compares
		// shortest decimal texts.  (ValueRange.Includes has the same cause at another call site and keeps
		// its own entry.)
		what = "[observed at " + site + " / " + strings.TrimPrefix(sig, c05InexactPrefix) + "] " + what
		site, sig = "builder-number-compare", "inexact-number-equals"
	}
	if sig == c05DroppedSig && site != "exact" {
		// one root cause, one (site, sig): the builder drops an exclusive bound at the singleton
		// infinity of its own side.  Where the consequence was observed goes into the description.
		what = "[observed at " + site + "] " + what
		site = "exact"
	}
	j.ctx.Fail(Failure{Site: site, Sig: sig, What: what, Input: encVal(recv.v) + " " + c05Wires(cs),
		GoLit: c05Lit(recv.lit, cs), Outcome: outcome})
}

func (j *c05Judge) run(recv c05Recv, calls []c05Call) {
	ctx := j.ctx
	t := recv.v.Type()
	tk := c05TyKind(t)
	res, panicAt, why := c05Run(recv.v, calls)
	impl := c05Impl(res, panicAt)
	rw := encVal(recv.v)
	ctx.Add("rfn.run", impl, rw, c05Wires(calls))
	if tk == "num" {
		// the same case under the exact-where-it-answers equality oracle (the instance the theorems
		// are tied through); the driver answers "unmodelled" where the decimal text could matter
		ctx.Add("rfn.runx", impl, rw, c05Wires(calls))
		// slice d05b: the side condition of the bridge theorems, evaluated on the real code, against the model's
		// (every third numeric case: the model evaluates the shortest decimal text of every pair)
		if j.nTF++; j.nTF%3 == 0 {
			ctx.Add("rfn.textfree", encBool(c05TextAgrees(recv, calls)), rw, c05Wires(calls))
		}
		if c05TextFree(recv, calls) {
			// all numbers are integers or infinities: the code's text-based equality provably coincides with exact
			// comparison (C05.run_code_eq_exact), so the model under the total exact oracle must give this very outcome
			ctx.Add("rfn.runi", impl, rw, c05Wires(calls))
			ctx.Tag("bridge:integers-only(runi)")
		} else if c05TextAgrees(recv, calls) {
			// slice d05b: some non-integer, but every two numbers of the input are compared by Value.Equals exactly as
			// by Cmp (the decidable condition D05b.textFree, evaluated here on the real code): the model under the
			// total exact oracle must give this very outcome too (C05.refine_code_eq_exact_textfree)
			ctx.Add("rfn.runi", impl, rw, c05Wires(calls))
			ctx.Tag("bridge:text-free-non-integer(runi)")
		} else {
			ctx.Tag("bridge:text-dependent")
		}
	}
	if j.allSteps && ctx.R.Intn(3) == 0 {
		c05d05With(ctx, recv, calls) // the same case through RefineWith / RefineNotNull
	}
	ctx.Tag("recv:" + recv.tag + ":" + tk)
	if panicAt >= 0 {
		ctx.Tag("outcome:panic")
	} else {
		ctx.Tag("outcome:ok")
	}

	uRecv, recvMarks := recv.v.Unmark()
	isDynVal := uRecv == cty.DynamicVal
	ownKind := false
	nOK := len(calls)
	if panicAt >= 0 {
		nOK = panicAt
	}
	for _, c := range calls[:nOK] {
		if c05Kind(c) == tk || c05Kind(c) == "null" {
			ownKind = true
		}
		ctx.Tag("call:" + c.k)
	}
	ctx.Eval(rw+" "+c05Wires(calls), ownKind && !isDynVal)

	// -- DynamicVal ignores refinement
	if isDynVal {
		if panicAt != -1 {
			j.fail("dynamic-ignores", "dynval-panic:"+calls[panicAt%len(calls)].k, "a builder call on cty.DynamicVal panicked", recv, calls, why)
		} else if u, m := res.Unmark(); u != cty.DynamicVal || !m.Equal(recvMarks) {
			j.fail("dynamic-ignores", "dynval-changed", "refining cty.DynamicVal did not return cty.DynamicVal with the same marks", recv, calls, encVal(res))
		}
		return
	}
	if panicAt == -2 {
		j.fail("refine", "refine-panic", "Value.Refine() panicked", recv, calls, why)
		return
	}

	// -- type and marks preserved
	if panicAt == -1 {
		if !res.Type().Equals(t) {
			j.fail("type-preserved", "type-changed:"+tk, "the refined value has a different type", recv, calls, encVal(res))
		}
		if _, m := res.Unmark(); !m.Equal(recvMarks) {
			j.fail("marks-preserved", "marks-changed", "the refined value has different marks", recv, calls, encVal(res))
		}
	}

	known := uRecv.IsKnown()
	var extra []cty.Value
	if known {
		extra = append(extra, uRecv)
	}
	all := append(append([]c05Call{}, recv.prior...), calls...)
	samples := c05Samples(t, all, extra)

	// -- known receivers: calls are assertions
	if known {
		j.judgeKnown(recv, uRecv, calls, res, panicAt, why, samples)
		return
	}

	// -- unknown receivers: walk the states
	first := 0
	if !j.allSteps && nOK > 0 {
		first = nOK - 1
	}
	// state i = result after calls[:i]
	state := func(i int) (cty.Value, bool) {
		if i == len(calls) && panicAt == -1 {
			return res, true
		}
		w, p, _ := c05Run(recv.v, calls[:i])
		return w, p == -1
	}
	spec := c05NewSpec()
	for _, c := range recv.prior {
		spec.add(c)
	}
	for i := 0; i < first; i++ {
		spec.add(calls[i])
	}
	emptyBefore, _ := spec.nonNullEmpty(tk)
	wPrev, okPrev := state(first)
	for i := first; i <= nOK; i++ {
		stated := append(append([]c05Call{}, recv.prior...), calls[:i]...)
		statedNums := c05CallNums(stated)
		inexact := c05InexactEquals(statedNums)
		sigX := ""
		if inexact {
			sigX = c05InexactPrefix
		}
		if okPrev {
			// range_reports_exact / faithful: the reported range is exactly what the stated constraints imply
			for _, x := range samples {
				want := c05InSpec(t, stated, x)
				gotS := c05Adm(wPrev, x, true)
				gotA := c05Adm(wPrev, x, false)
				if gotS != want {
					sig := sigX + "refinement-vs-stated:" + tk + ":" + c05KindsSig(stated)
					if x.kind == "num" && x.f.IsInf() {
						sig = sigX + "refinement-vs-stated-at-infinity"
					}
					if c05DroppedAt(stated, x) {
						sig = "exclusive-singleton-infinity-dropped"
					}
					j.fail("faithful", sig, fmt.Sprintf("the refinement of the result admits=%v but the stated constraints admit=%v for sample %s", gotS, want, x.wire()),
						recv, calls[:i], encVal(wPrev))
				} else if gotA != want {
					sig := sigX + "range-vs-stated:" + tk + ":" + c05KindsSig(stated)
					if x.kind == "num" && x.f.IsInf() {
						sig = "unbounded-side-reported-as-exclusive-infinity"
					}
					j.fail("range-reports-exact", sig, fmt.Sprintf("Range() accessors admit=%v but the stated constraints admit=%v for sample %s", gotA, want, x.wire()),
						recv, calls[:i], encVal(wPrev)+" "+c05Observers(wPrev))
				}
				// Includes must not exclude what the stated constraints admit, and (for known samples of the
				// right kind) excludes what they exclude
				if x.val != cty.NilVal {
					sigX := sigX
					if x.kind == "num" && sigX == "" && c05InexactWith(x.f, statedNums) {
						sigX = "inexact-number-equals:"
					}
					u, _ := wPrev.Unmark()
					var inc cty.Value
					if p, w := try(func() { inc = u.Range().Includes(x.val) }); p {
						j.fail("includes", "includes-panic:"+tk, "ValueRange.Includes panicked on sample "+x.wire(), recv, calls[:i], w)
					} else {
						incFalse := inc.IsKnown() && inc.False()
						if incFalse && want {
							sig := sigX + "includes-excludes-admitted:" + tk
							if x.kind == "num" && x.f.IsInf() {
								sig = "includes-excludes-infinity"
							}
							j.fail("includes", sig, "Range().Includes answers False for a value the stated constraints admit: "+x.wire(), recv, calls[:i], encVal(wPrev))
						}
						if !incFalse && !want && !u.IsKnown() && c05Conforms(t, x) && x.kind != "other" {
							sig := "includes-admits-excluded:" + tk + ":" + c05KindsSig(stated)
							if sigX != "" {
								sig = sigX + "includes-admits-excluded:" + tk // the root cause says it all
							}
							if c05DroppedAt(stated, x) {
								sig = "exclusive-singleton-infinity-dropped"
							}
							j.fail("includes", sig, "Range().Includes does not answer False for a value the stated constraints exclude: "+x.wire(), recv, calls[:i], encVal(wPrev))
						}
					}
				}
			}
			// collapse to known only if a single value remains
			if u, _ := wPrev.Unmark(); u.IsKnown() && !spec.singleton(tk) {
				j.fail("newvalue-known-exact", sigX+"collapse-not-singleton:"+tk, "NewValue returned a known value although the stated constraints admit more than one", recv, calls[:i], encVal(wPrev))
			}
		}
		if i == nOK {
			break
		}
		// step i: calls[i] succeeded; the numbers compared now include its arguments
		c := calls[i]
		spec.add(c)
		inexact = c05InexactEquals(c05CallNums(append(append([]c05Call{}, stated...), c)))
		sigX = ""
		if inexact {
			sigX = c05InexactPrefix
		}
		emptyAfter, shape := spec.nonNullEmpty(tk)
		nullGone := (c.k == "nn" && spec.isNull) || (c.k == "nl" && spec.notNull)
		if nullGone {
			j.fail("rejects-contradiction", "null-vs-notnull", "NotNull and Null were both accepted", recv, calls[:i+1], "no panic")
		}
		if emptyAfter && !emptyBefore && (c05Kind(c) == tk) {
			sig := shape
			if inexact && shape != "open-point-interval" && shape != "exclusive-infinite-bound" {
				sig = sigX + shape
			}
			// would the constraints be satisfiable without the bounds the builder silently drops?
			s3 := c05NewSpec()
			for _, d := range append(append([]c05Call{}, recv.prior...), calls[:i+1]...) {
				if !c05Dropped(d) {
					s3.add(d)
				}
			}
			if e3, _ := s3.nonNullEmpty(tk); !e3 {
				sig = "exclusive-singleton-infinity-dropped"
			}
			j.fail("rejects-contradiction", sig, "a constraint that leaves no non-null value was accepted: "+c.lit(), recv, calls[:i+1], "no panic")
		}
		emptyBefore = emptyBefore || emptyAfter
		wNext, okNext := state(i + 1)
		if okPrev && okNext {
			for _, x := range samples {
				before, after := c05Adm(wPrev, x, true), c05Adm(wNext, x, true)
				d := c05Den(c, x)
				if after && !before {
					j.fail("narrows", sigX+"widened:"+tk+":"+c.k, "a value excluded before the call is admitted after it: "+x.wire(), recv, calls[:i+1], encVal(wPrev)+" -> "+encVal(wNext))
				} else if after != (before && d) {
					sig := sigX + "step-not-exact:" + tk + ":" + c.k
					if (c.k == "lo" && c.a.tag == "ninf" && !c.incl) || (c.k == "hi" && c.a.tag == "pinf" && !c.incl) {
						sig = "exclusive-singleton-infinity-dropped"
					}
					j.fail("exact", sig, fmt.Sprintf("after=%v but before=%v and the constraint holds=%v for sample %s", after, before, d, x.wire()), recv, calls[:i+1], encVal(wPrev)+" -> "+encVal(wNext))
				}
			}
		}
		wPrev, okPrev = wNext, okNext
	}
	// spurious rejection is not part of the property; record how often it happens
	if panicAt >= 0 && panicAt < len(calls) {
		s2 := c05NewSpec()
		for _, c := range all[:len(recv.prior)+panicAt+1] {
			s2.add(c)
		}
		e, _ := s2.nonNullEmpty(tk)
		c := calls[panicAt]
		if !e && c05Kind(c) == tk && !(c.k == "nn" && s2.isNull) && !(c.k == "nl" && s2.notNull) {
			ctx.Tag("note:panic-on-satisfiable-constraint")
		}
	}
	// correspondence of the specification itself (γ, ⟦c⟧) and of Includes on a few samples
	if panicAt == -1 {
		for k := 0; k < j.wireLines && k < len(samples); k++ {
			x := samples[(len(ctx.cases)+k*7)%len(samples)]
			ctx.Add("rfn.gamma", encBool(c05Adm(res, x, true)), encVal(res), x.wire())
			if len(calls) > 0 {
				c := calls[(len(ctx.cases)+k)%len(calls)]
				ctx.Add("rfn.den", encBool(c05Den(c, x)), c.wire(), x.wire())
			}
			if x.val != cty.NilVal {
				u, _ := res.Unmark()
				out := "panic"
				try(func() {
					inc := u.Range().Includes(x.val)
					switch {
					case !inc.IsKnown():
						out = "u"
					case inc.True():
						out = "t"
					default:
						out = "f"
					}
				})
				ctx.Add("rfn.includes", out, encVal(res), encVal(x.val))
			}
		}
	}
}

func (j *c05Judge) judgeKnown(recv c05Recv, uRecv cty.Value, calls []c05Call, res cty.Value, panicAt int, why string, samples []c05Sample) {
	t := uRecv.Type()
	tk := c05TyKind(t)
	if panicAt == -1 && !res.RawEquals(recv.v) {
		j.fail("known-is-assertion", "known-changed:"+tk, "refining a known value returned a different value", recv, calls, encVal(res))
	}
	c05d05bJointLength(j, recv, uRecv, calls, panicAt) // slice d05b: accepted length constraints hold JOINTLY of some possible length
	// the concrete values the known receiver stands for, among the samples
	var mine []c05Sample
	for _, x := range samples {
		if c05Conforms(t, x) && c05KnownAdmits(uRecv, x) {
			mine = append(mine, x)
		}
	}
	if len(mine) == 0 {
		return
	}
	definite := len(mine) == 1
	var knownNum *big.Float
	if t == cty.Number && !uRecv.IsNull() {
		knownNum = uRecv.AsBigFloat()
	}
	for i, c := range calls {
		if panicAt >= 0 && i > panicAt {
			break
		}
		holds := false
		for _, x := range mine {
			if c05Den(c, x) {
				holds = true
			}
		}
		inexact := c05InexactEquals(c05CallNums(calls[:i+1], knownNum))
		sigX := ""
		if inexact {
			sigX = "inexact-number-equals:"
		}
		if i == panicAt {
			if holds && definite && (c05Kind(c) == tk || c05Kind(c) == "null") {
				j.ctx.Tag("note:known-assertion-panic-though-it-holds")
				// a panic on a constraint the value satisfies: only a finding when the constraint is also
				// consistent with everything asserted before (otherwise an earlier assertion was the false one)
			}
			break
		}
		// call i was accepted
		if !definite && (c.k == "ll" || c.k == "lu" || c.k == "cl") && !uRecv.IsNull() && (t.IsListType() || t.IsSetType() || t.IsMapType()) {
			// a known collection that stands for several values (a set with not wholly known members: they may
			// coalesce): its possible lengths are [1, stored] — a length constraint that excludes ALL of them
			// contradicts the known value whatever the unknown members turn out to be.  (A seeded change skipped
			// the builder's comparison whenever Length() is not a known number.)
			lo, hi := uRecv.LengthInt(), uRecv.LengthInt()
			if t.IsSetType() && !uRecv.IsWhollyKnown() && hi >= 1 {
				lo = 1
			}
			excluded := (c.k == "ll" && c.n > hi) || (c.k == "lu" && c.n < lo) || (c.k == "cl" && (c.n < lo || c.n > hi))
			if excluded {
				j.fail("known-is-assertion", "length-constraint-excluding-every-possible-length-accepted:"+tk+":"+c.k,
					"a length constraint that no value the known collection stands for can satisfy was accepted: "+c.lit(), recv, calls[:i+1], "no panic")
			}
		}
		if !holds && definite {
			sig := sigX + "violated-assertion-accepted:" + tk + ":" + c.k
			if tk == "str" && c05Kind(c) == "str" && len(c.recorded()) > len(uRecv.AsString()) && strings.HasPrefix(c.recorded(), uRecv.AsString()) {
				sig = "prefix-longer-than-known-string"
			}
			j.fail("known-is-assertion", sig, "a constraint the known value violates was accepted: "+c.lit(), recv, calls[:i+1], "no panic")
		}
	}
}

// ---- enumeration ----------------------------------------------------------------

func c05Seqs(alpha []c05Call, maxLen int, f func([]c05Call)) {
	var rec func(cur []c05Call)
	rec = func(cur []c05Call) {
		f(cur)
		if len(cur) == maxLen {
			return
		}
		for _, c := range alpha {
			rec(append(append([]c05Call{}, cur...), c))
		}
	}
	rec(nil)
}

func c05I(n int64) c05Arg { return c05Known(cty.NumberIntVal(n)) }

func runC05(ctx *Ctx) {
	var scope []string
	// ---------- (a) exhaustive small scope
	nn, nl := c05Call{k: "nn"}, c05Call{k: "nl"}
	var numAlpha, numRI, lenAlpha, strAlpha []c05Call
	numAlpha = append(numAlpha, nn, nl)
	for _, v := range []int64{-1, 0, 1} {
		for _, inc := range []bool{true, false} {
			numAlpha = append(numAlpha, c05Call{k: "lo", a: c05I(v), incl: inc}, c05Call{k: "hi", a: c05I(v), incl: inc})
		}
		for _, w := range []int64{-1, 0, 1} {
			numRI = append(numRI, c05Call{k: "ri", a: c05I(v), b: c05I(w)})
		}
	}
	lenAlpha = append(lenAlpha, nn, nl)
	for _, n := range []int{0, 1, 2} {
		lenAlpha = append(lenAlpha, c05Call{k: "ll", n: n}, c05Call{k: "lu", n: n}, c05Call{k: "cl", n: n})
	}
	strAlpha = append(strAlpha, nn, nl)
	for _, p := range []string{"", "a-", "ab"} {
		strAlpha = append(strAlpha, c05Call{k: "sp", s: p}, c05Call{k: "sf", s: p})
	}
	lo0i := c05Call{k: "lo", a: c05I(0), incl: true}
	lo0x := c05Call{k: "lo", a: c05I(0), incl: false}
	hi1x := c05Call{k: "hi", a: c05I(1), incl: false}
	numRecvs := []c05Recv{
		c05Refined(cty.Number, "cty.Number"),
		c05Refined(cty.Number, "cty.Number", nn, lo0i, hi1x),
		c05Refined(cty.Number, "cty.Number", lo0x),
		c05Refined(cty.Number, "cty.Number").marked("m1"),
		c05KnownRecv(cty.NumberIntVal(0)),
		c05KnownRecv(cty.NumberIntVal(1)),
		c05KnownRecv(cty.NullVal(cty.Number)),
	}
	enum := &c05Judge{ctx: ctx, allSteps: false, wireLines: 1}
	cnt := 0
	for _, r := range numRecvs {
		c05Seqs(numAlpha, 3, func(cs []c05Call) { enum.run(r, cs); cnt++ })
		c05Seqs(append(append([]c05Call{}, numAlpha...), numRI...), 2, func(cs []c05Call) {
			for _, c := range cs {
				if c.k == "ri" {
					enum.run(r, cs)
					cnt++
					return
				}
			}
		})
	}
	scope = append(scope, fmt.Sprintf("number: all call sequences of length<=3 over NotNull, Null, lower/upper bounds {-1,0,1}x{incl,excl} (+ NumberRangeInclusive over {-1,0,1}^2 at length<=2) on %d receivers (unknown, refined [0,1) not-null, refined (0,..), marked unknown, known 0, known 1, null)", len(numRecvs)))
	var lenRecvs []c05Recv
	for _, tc := range []struct {
		t   cty.Type
		lit string
	}{{cty.List(cty.String), "cty.List(cty.String)"}, {cty.Set(cty.String), "cty.Set(cty.String)"}, {cty.Map(cty.String), "cty.Map(cty.String)"}} {
		lenRecvs = append(lenRecvs, c05Refined(tc.t, tc.lit), c05Refined(tc.t, tc.lit, c05Call{k: "ll", n: 1}, c05Call{k: "lu", n: 2}),
			c05KnownRecv(c05Coll(tc.t, 0)), c05KnownRecv(c05Coll(tc.t, 1)), c05KnownRecv(c05Coll(tc.t, 2)), c05KnownRecv(cty.NullVal(tc.t)))
	}
	lenRecvs = append(lenRecvs,
		c05KnownRecv(cty.SetVal([]cty.Value{cty.UnknownVal(cty.String), cty.StringVal("a")})),
		c05KnownRecv(cty.SetVal([]cty.Value{cty.UnknownVal(cty.String)})),
		c05KnownRecv(cty.ListVal([]cty.Value{cty.UnknownVal(cty.String), cty.StringVal("a")})),
		c05Refined(cty.List(cty.DynamicPseudoType), "cty.List(cty.DynamicPseudoType)"),
		c05Refined(cty.Set(cty.Number), "cty.Set(cty.Number)").marked("m2"))
	for _, r := range lenRecvs {
		c05Seqs(lenAlpha, 3, func(cs []c05Call) { enum.run(r, cs); cnt++ })
	}
	scope = append(scope, fmt.Sprintf("collections: all sequences of length<=3 over NotNull, Null, length lower/upper/exact {0,1,2} on %d receivers (list/set/map: unknown, refined [1,2], known of length 0/1/2, null; sets and lists with unknown members; list(dynamic); marked set)", len(lenRecvs)))
	strRecvs := []c05Recv{
		c05Refined(cty.String, "cty.String"),
		c05Refined(cty.String, "cty.String", c05Call{k: "sf", s: "a"}),
		c05Refined(cty.String, "cty.String", nn, c05Call{k: "sf", s: "a-b"}),
		c05Refined(cty.String, "cty.String").marked("m1"),
		c05KnownRecv(cty.StringVal("")), c05KnownRecv(cty.StringVal("a")), c05KnownRecv(cty.StringVal("ab")),
		c05KnownRecv(cty.StringVal("a-b")), c05KnownRecv(cty.NullVal(cty.String)),
	}
	for _, r := range strRecvs {
		c05Seqs(strAlpha, 3, func(cs []c05Call) { enum.run(r, cs); cnt++ })
	}
	scope = append(scope, fmt.Sprintf("string: all sequences of length<=3 over NotNull, Null, StringPrefix/StringPrefixFull {\"\",\"a-\",\"ab\"} on %d receivers (unknown, refined \"a\", refined not-null \"a-b\", marked, known \"\",\"a\",\"ab\",\"a-b\", null)", len(strRecvs)))
	// other kinds and cross-kind calls
	obj := cty.Object(map[string]cty.Type{"a": cty.String})
	otherRecvs := []c05Recv{
		c05Refined(cty.Bool, "cty.Bool"), c05Refined(cty.Bool, "cty.Bool", nn), c05KnownRecv(cty.True), c05KnownRecv(cty.NullVal(cty.Bool)),
		c05Refined(obj, "cty.Object(map[string]cty.Type{\"a\": cty.String})"), c05KnownRecv(cty.ObjectVal(map[string]cty.Value{"a": cty.StringVal("x")})),
		c05Refined(cty.EmptyTuple, "cty.EmptyTuple"), c05KnownRecv(cty.EmptyTupleVal),
		c05Refined(capsuleTypes[0], "capA"), c05KnownRecv(cty.NullVal(capsuleTypes[0])),
		{cty.DynamicVal, nil, "cty.DynamicVal", "dynval"}, {cty.DynamicVal.Mark("m1"), nil, "cty.DynamicVal.Mark(\"m1\")", "dynval+marked"},
		c05KnownRecv(cty.NullVal(cty.DynamicPseudoType)),
	}
	crossAlpha := []c05Call{nn, nl, lo0i, {k: "hi", a: c05I(1), incl: false}, {k: "ri", a: c05I(0), b: c05I(1)}, {k: "ll", n: 1}, {k: "lu", n: 1}, {k: "cl", n: 0},
		{k: "sp", s: "a-"}, {k: "sf", s: "ab"}, {k: "lo", a: c05Unk, incl: true}, {k: "hi", a: c05Null, incl: true}}
	for _, r := range otherRecvs {
		c05Seqs(crossAlpha, 2, func(cs []c05Call) { enum.run(r, cs); cnt++ })
	}
	for _, rs := range [][]c05Recv{numRecvs, lenRecvs, strRecvs} {
		for _, r := range rs {
			c05Seqs(crossAlpha, 2, func(cs []c05Call) { enum.run(r, cs); cnt++ })
		}
	}
	scope = append(scope, fmt.Sprintf("every receiver incl. bool/object/tuple/capsule/DynamicVal/null-of-dynamic: all sequences of length<=2 over one call of every builder method (cross-kind calls, unknown and null bounds); %d enumerated sequences in total", cnt))
	// infinities and the singleton infinities at length <= 2
	infAlpha := []c05Call{nn}
	for _, a := range []c05Arg{c05NegInf, c05PosInf, c05Known(cty.NumberFloatVal(math.Inf(-1))), c05Known(cty.NumberFloatVal(math.Inf(1))), c05I(0)} {
		for _, inc := range []bool{true, false} {
			infAlpha = append(infAlpha, c05Call{k: "lo", a: a, incl: inc}, c05Call{k: "hi", a: a, incl: inc})
		}
	}
	for _, r := range []c05Recv{numRecvs[0], numRecvs[1], c05KnownRecv(cty.PositiveInfinity), c05KnownRecv(cty.NumberFloatVal(math.Inf(-1)))} {
		c05Seqs(infAlpha, 2, func(cs []c05Call) { enum.run(r, cs); cnt++ })
	}
	scope = append(scope, "number: all sequences of length<=2 over bounds at cty.NegativeInfinity/PositiveInfinity (the singletons), other infinite values and 0, incl./excl.")

	// numbers that print alike at different precisions (the text-based Value.Equals): 0.1 parsed to 512 bits,
	// 0.1 as float64, and one number held at two precisions
	tieAlpha := []c05Call{nn}
	p01 := cty.MustParseNumberVal("0.1")
	f01 := cty.NumberFloatVal(0.1)
	w01 := cty.NumberVal(new(big.Float).SetPrec(100).SetFloat64(0.1)) // the float64 value, held at 100 bits
	for _, v := range []cty.Value{p01, f01, w01} {
		for _, inc := range []bool{true, false} {
			tieAlpha = append(tieAlpha, c05Call{k: "lo", a: c05Known(v), incl: inc}, c05Call{k: "hi", a: c05Known(v), incl: inc})
		}
	}
	for _, r := range []c05Recv{numRecvs[0], c05KnownRecv(f01)} {
		c05Seqs(tieAlpha, 2, func(cs []c05Call) { enum.run(r, cs); cnt++ })
	}
	scope = append(scope, "number: all sequences of length<=2 over bounds at 0.1 (512-bit decimal), 0.1 (float64) and the float64 value held at 100 bits, incl./excl., on an unknown and on the known float64 0.1")

	// ---------- (b) random longer sequences
	rnd := &c05Judge{ctx: ctx, allSteps: true, wireLines: 2}
	nr := ctx.N(2500, 120000)
	for i := 0; i < nr; i++ {
		c05Random(ctx, rnd)
	}

	// ---------- (b') slice d05: integer-only cases at mixed precisions (the bridge), nullness within one chain
	c05d05Integers(ctx, rnd)
	c05d05Chains(ctx, rnd, &scope)
	c05d05RawUnknown(ctx, rnd, &scope)

	// ---------- (b'') slice d05b: non-integer text-free cases (the bridge), far-side infinities, known collections
	// whose length is a range
	c05d05bFractions(ctx, rnd)
	c05d05bFarInfinity(ctx, rnd, &scope)
	c05d05bKnownLengths(ctx, rnd, &scope)
	c05d05bOnePrecision(ctx, &scope)

	// ---------- (c) prefixes
	c05Prefixes(ctx, &scope)
	c05d05NoBoundary(ctx, &scope)
	ctx.res.Exhaustive = true
	ctx.res.Scope = strings.Join(scope, "; ")
}

// ---- random cases -----------------------------------------------------------------

func c05RandNumArg(ctx *Ctx, pool []cty.Value) c05Arg {
	r := ctx.R
	switch r.Intn(20) {
	case 0:
		return c05Unk
	case 1:
		if r.Intn(3) == 0 {
			return c05Null
		}
		return c05NegInf
	case 2:
		return c05PosInf
	case 3, 4, 5, 6, 7, 8:
		// reuse a number seen before: ties between inclusive and exclusive bounds
		if len(pool) > 0 {
			return c05Known(pool[r.Intn(len(pool))])
		}
	case 9, 10:
		return c05I(int64(r.Intn(7) - 3))
	}
	return c05Known(genNumber(r, ValOpts{}))
}

func c05Random(ctx *Ctx, j *c05Judge) {
	r := ctx.R
	var recv c05Recv
	var alphaKind string
	switch k := r.Intn(10); {
	case k < 4:
		alphaKind = "num"
		switch r.Intn(6) {
		case 0:
			recv = c05KnownRecv(genNumber(r, ValOpts{}))
		case 1:
			lo := c05Known(genNumber(r, ValOpts{NoInf: true}))
			recv = c05Refined(cty.Number, "cty.Number", c05Call{k: "lo", a: lo, incl: r.Intn(2) == 0})
		case 2:
			hi := c05Known(genNumber(r, ValOpts{NoInf: true}))
			recv = c05Refined(cty.Number, "cty.Number", c05Call{k: "hi", a: hi, incl: r.Intn(2) == 0})
		default:
			recv = c05Refined(cty.Number, "cty.Number")
		}
	case k < 6:
		alphaKind = "len"
		ts := []struct {
			t   cty.Type
			lit string
		}{{cty.List(cty.String), "cty.List(cty.String)"}, {cty.Set(cty.String), "cty.Set(cty.String)"}, {cty.Map(cty.Number), "cty.Map(cty.Number)"},
			{cty.List(cty.DynamicPseudoType), "cty.List(cty.DynamicPseudoType)"}, {cty.Set(cty.Bool), "cty.Set(cty.Bool)"}}
		tc := ts[r.Intn(len(ts))]
		switch r.Intn(5) {
		case 0:
			v := genVal(r, tc.t, 1, ValOpts{Unknown: true, Width: 4})
			if v.Type().HasDynamicTypes() && v.IsKnown() {
				v = c05Coll(cty.List(cty.String), r.Intn(4))
			}
			recv = c05KnownRecv(v)
			if !v.IsKnown() {
				// the constraints of a generated refined unknown are not known to the spec: use a fresh one
				recv = c05Refined(tc.t, tc.lit)
			}
		case 1:
			lo := r.Intn(3)
			recv = c05Refined(tc.t, tc.lit, c05Call{k: "ll", n: lo}, c05Call{k: "lu", n: lo + 1 + r.Intn(3)})
		default:
			recv = c05Refined(tc.t, tc.lit)
		}
	case k < 8:
		alphaKind = "str"
		switch r.Intn(5) {
		case 0:
			recv = c05KnownRecv(cty.StringVal(genString(r)))
		case 1:
			recv = c05Refined(cty.String, "cty.String", c05Call{k: "sf", s: genString(r)})
		default:
			recv = c05Refined(cty.String, "cty.String")
		}
	case k == 8:
		alphaKind = "any"
		t := genTy(r, 1, TyOpts{Dyn: true, Capsule: true})
		if r.Intn(2) == 0 {
			v := genVal(r, t, 1, ValOpts{Null: true})
			recv = c05KnownRecv(v)
		} else if t == cty.DynamicPseudoType {
			recv = c05Recv{cty.DynamicVal, nil, "cty.DynamicVal", "dynval"}
		} else {
			recv = c05Refined(t, t.GoString())
		}
	default:
		alphaKind = "any"
		recv = c05Recv{cty.DynamicVal, nil, "cty.DynamicVal", "dynval"}
	}
	if r.Intn(6) == 0 {
		recv = recv.marked(markNames[r.Intn(len(markNames))])
	}
	n := 1 + r.Intn(8)
	var pool []cty.Value
	if u, _ := recv.v.Unmark(); u.Type() == cty.Number && u.IsKnown() && !u.IsNull() {
		pool = append(pool, u)
	}
	for _, c := range recv.prior {
		if f := c.a.f(); f != nil {
			pool = append(pool, c.a.v)
		}
	}
	calls := make([]c05Call, 0, n)
	for i := 0; i < n; i++ {
		kind := alphaKind
		if kind == "any" || r.Intn(25) == 0 {
			kind = []string{"num", "len", "str"}[r.Intn(3)]
		}
		var c c05Call
		switch q := r.Intn(12); {
		case q == 0:
			c = c05Call{k: "nn"}
		case q == 1 && r.Intn(3) == 0:
			c = c05Call{k: "nl"}
		default:
			switch kind {
			case "num":
				a := c05RandNumArg(ctx, pool)
				if a.tag == "known" {
					pool = append(pool, a.v)
				}
				switch r.Intn(7) {
				case 0:
					b := c05RandNumArg(ctx, pool)
					c = c05Call{k: "ri", a: a, b: b}
				case 1, 2, 3:
					c = c05Call{k: "lo", a: a, incl: r.Intn(2) == 0}
				default:
					c = c05Call{k: "hi", a: a, incl: r.Intn(2) == 0}
				}
			case "len":
				n := r.Intn(5)
				switch r.Intn(5) {
				case 0:
					c = c05Call{k: "cl", n: n}
				case 1, 2:
					c = c05Call{k: "ll", n: n - r.Intn(2)}
				default:
					if r.Intn(6) == 0 {
						n = []int{math.MaxInt, math.MaxInt - 1, 1 << 40, -1}[r.Intn(4)]
					}
					c = c05Call{k: "lu", n: n}
				}
			default:
				s := genString(r)
				if len(calls) > 0 && r.Intn(2) == 0 {
					// extend or cut an earlier prefix: compatible prefixes
					for _, p := range calls {
						if c05Kind(p) == "str" {
							s = p.s + strAtoms[r.Intn(len(strAtoms))]
							if r.Intn(3) == 0 && len(p.recorded()) > 0 {
								s = p.recorded()[:r.Intn(len(p.recorded()))]
								if !utf8.ValidString(s) {
									s = p.recorded()
								}
							}
						}
					}
				}
				if u, _ := recv.v.Unmark(); u.Type() == cty.String && u.IsKnown() && !u.IsNull() && r.Intn(2) == 0 {
					ks := u.AsString()
					s = ks[:r.Intn(len(ks)+1)]
					if !utf8.ValidString(s) {
						s = ks
					}
					if r.Intn(4) == 0 {
						s = ks + "x"
					}
				}
				if r.Intn(2) == 0 {
					c = c05Call{k: "sp", s: s}
				} else {
					c = c05Call{k: "sf", s: s}
				}
			}
		}
		calls = append(calls, c)
	}
	j.run(recv, calls)
}

// ---- (c) prefixes -----------------------------------------------------------------

func c05PrefixCase(ctx *Ctx, p string, conts []string) {
	nfc := norm.NFC.String(p)
	lb := norm.NFC.LastBoundary([]byte(nfc))
	var advs []string
	rem := []byte(nfc)
	prevB, thisB := 0, 0 // the scan loop of SafeKnownPrefix, mirrored (Refine.scanLoop)
	for len(rem) > 0 {
		a, _, err := textseg.ScanGraphemeClusters(rem, false)
		if err != nil {
			return
		}
		advs = append(advs, fmt.Sprint(a))
		prevB = thisB
		if a == 0 {
			break
		}
		thisB += a
		rem = rem[a:]
	}
	if lb == -1 {
		// law D05.ExtNB.noBoundary_nonascii: an ASCII byte always starts a normalisation boundary
		ascii := false
		for _, b := range []byte(nfc) {
			if b < 128 {
				ascii = true
			}
		}
		ctx.Probe("noBoundary_nonascii", !ascii, fmt.Sprintf("NFC(%q) has no normalisation boundary but contains an ASCII byte", p))
		if prevB > 0 {
			ctx.Tag("prefix:lastBoundary=-1:several-clusters")
		}
	}
	var safe string
	if pn, why := try(func() { safe = ctystrings.SafeKnownPrefix(p) }); pn {
		ctx.Fail(Failure{Site: "safe-prefix", Sig: "safeknownprefix-panic", What: "SafeKnownPrefix panicked", Input: encStr(p), GoLit: fmt.Sprintf("ctystrings.SafeKnownPrefix(%q)", p), Outcome: why})
		return
	}
	ctx.Add("pfx.safe", hex.EncodeToString([]byte(safe)), encStr(nfc), fmt.Sprint(lb), "("+strings.Join(advs, " ")+")")
	switch {
	case lb == -1:
		ctx.Tag("prefix:lastBoundary=-1")
	case lb == len(nfc):
		ctx.Tag("prefix:lastBoundary=len")
	default:
		ctx.Tag("prefix:lastBoundary<len")
	}
	if lb == -1 && safe != "" {
		ctx.Tag("prefix:nonempty-without-boundary")
	}
	// structural facts proved in Lean, evaluated on the real function
	if !strings.HasPrefix(nfc, safe) {
		ctx.Fail(Failure{Site: "safe-prefix", Sig: "not-a-prefix-of-nfc", What: "SafeKnownPrefix(p) is not a byte prefix of NFC(p)", Input: encStr(p), GoLit: fmt.Sprintf("ctystrings.SafeKnownPrefix(%q)", p), Outcome: fmt.Sprintf("%q", safe)})
	}
	if lb >= 0 && len(safe) > lb {
		ctx.Fail(Failure{Site: "safe-prefix", Sig: "beyond-last-boundary", What: "SafeKnownPrefix(p) is longer than the last normalization boundary", Input: encStr(p), GoLit: fmt.Sprintf("ctystrings.SafeKnownPrefix(%q)", p), Outcome: fmt.Sprintf("%q lb=%d", safe, lb)})
	}
	ctx.Probe("safe-prefix-is-normalized", cty.NormalizeString(safe) == safe, fmt.Sprintf("NormalizeString(SafeKnownPrefix(%q)) differs", p))
	for _, c := range conts {
		full := norm.NFC.String(p + c)
		if lb == -1 {
			// law D05.ExtNB.lastClusterStart_stable
			ctx.Probe("lastClusterStart_stable", strings.HasPrefix(full, nfc[:prevB]), fmt.Sprintf("NFC(%q) has no boundary; the text before its last scanned grapheme cluster is not a prefix of NFC(%q)", p, p+c))
		}
		if lb >= 0 {
			ctx.Probe("lastBoundary_stable", strings.HasPrefix(full, nfc[:lb]), fmt.Sprintf("NFC(%q)[:LastBoundary] is not a prefix of NFC(%q)", p, p+c))
		}
		ok := strings.HasPrefix(full, safe)
		if !ok {
			ctx.Fail(Failure{Site: "prefix-continuation", Sig: "continuation-unsafe", What: "SafeKnownPrefix(p) is not a byte prefix of NFC(p+c)",
				Input: encStr(p) + " " + encStr(c), GoLit: fmt.Sprintf("strings.HasPrefix(norm.NFC.String(%q+%q), ctystrings.SafeKnownPrefix(%q))", p, c, p),
				Outcome: fmt.Sprintf("safe=%q nfc(p+c)=%q", safe, full)})
		}
		ctx.Eval("prefix "+encStr(p)+" "+encStr(c), safe != "")
		// the same through the builder: the refined prefix admits the continued string
		if c != "" && len(p) < 12 && bytes.IndexByte([]byte(p), 0) < 0 {
			v := cty.UnknownVal(cty.String).Refine().StringPrefix(p).NewValue()
			inc := v.Range().Includes(cty.StringVal(p + c))
			if inc.IsKnown() && inc.False() {
				ctx.Fail(Failure{Site: "prefix-continuation", Sig: "refined-prefix-excludes-continuation", What: "an unknown string refined with StringPrefix(p) excludes the string p+c",
					Input: encStr(p) + " " + encStr(c), GoLit: fmt.Sprintf("cty.UnknownVal(cty.String).Refine().StringPrefix(%q).NewValue().Range().Includes(cty.StringVal(%q+%q))", p, p, c), Outcome: "cty.False"})
			}
		}
	}
}

func c05Prefixes(ctx *Ctx, scope *[]string) {
	atoms := strAtoms
	n := 0
	for _, a := range atoms {
		c05PrefixCase(ctx, a, atoms)
		n++
		for _, b := range atoms {
			c05PrefixCase(ctx, a+b, atoms)
			n++
		}
	}
	// every ASCII character after a letter and alone: the delimiter table
	for ch := 0; ch < 128; ch++ {
		c05PrefixCase(ctx, string(rune(ch)), []string{"", "́", "a"})
		c05PrefixCase(ctx, "a"+string(rune(ch)), []string{"", "́", "\U0001F3FD", "\n"})
		n += 2
	}
	*scope = append(*scope, fmt.Sprintf("prefixes: all %d prefixes of <=2 atoms of the C05 alphabet (%d atoms) x every single-atom continuation; every ASCII character alone and after a letter", n, len(atoms)))
	nr := ctx.N(1500, 60000)
	for i := 0; i < nr; i++ {
		p := ""
		for k := 1 + ctx.R.Intn(5); k > 0; k-- {
			p += atoms[ctx.R.Intn(len(atoms))]
		}
		var conts []string
		for k := 0; k < 4; k++ {
			c := ""
			for q := ctx.R.Intn(3); q >= 0; q-- {
				c += atoms[ctx.R.Intn(len(atoms))]
			}
			conts = append(conts, c)
		}
		c05PrefixCase(ctx, p, conts)
	}
}
