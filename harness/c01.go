package main

import (
	"fmt"

	"github.com/zclconf/go-cty/cty"
)

func init() {
	register("C01", "every operation method x generated operand tuples (primitives, nested collections/structures, nulls) x weakenings of any subset of sub-values at any depth to unknowns "+
		"(unrefined, or refined with nullness / inclusive or exclusive numeric bounds at or next to the value / true string prefixes / length bounds around the length) or DynamicVal at operand level. "+
		"non-trivial = at least one weakened position and the concrete call succeeded; distinct = distinct canonical wire strings of (op, concrete operands, weakened operands)", runC01)
}

type opSpec struct {
	name  string
	arity int
	gen   func(ctx *Ctx, o ValOpts) []cty.Value
	call  func(args []cty.Value) cty.Value
	extra func(args []cty.Value) []string // extra wire arguments (oracle columns)
}

func numOperand(ctx *Ctx, o ValOpts) cty.Value {
	switch ctx.R.Intn(14) {
	case 0:
		if o.DynVal {
			return cty.DynamicVal
		}
	case 1:
		if o.Null {
			return cty.NullVal(cty.Number)
		}
	case 2:
		if o.Unknown {
			return genUnknown(ctx.R, cty.Number)
		}
	case 3:
		if o.Unknown {
			return genUnknown(ctx.R, cty.Number)
		}
	}
	v := genNumber(ctx.R, o)
	if o.Marks && ctx.R.Intn(8) == 0 {
		v = v.Mark(markNames[ctx.R.Intn(3)])
	}
	return v
}

func boolOperand(ctx *Ctx, o ValOpts) cty.Value {
	return genVal(ctx.R, cty.Bool, 1, o)
}

func collTy(ctx *Ctx) cty.Type {
	e := genTy(ctx.R, 1, TyOpts{})
	switch ctx.R.Intn(4) {
	case 0:
		return cty.List(e)
	case 1:
		return cty.Map(e)
	case 2:
		return cty.Set(e)
	default:
		return genTy(ctx.R, 2, TyOpts{})
	}
}

func keyFor(ctx *Ctx, c cty.Value, o ValOpts) cty.Value {
	t := c.Type()
	switch ctx.R.Intn(10) {
	case 0:
		return genVal(ctx.R, genTy(ctx.R, 1, TyOpts{}), 1, o)
	case 1:
		if o.DynVal {
			return cty.DynamicVal
		}
	}
	var k cty.Value
	switch {
	case t.IsMapType() || t.IsObjectType():
		k = cty.StringVal([]string{"a", "b", "k", "é", "zz", "", "nope"}[ctx.R.Intn(7)])
		if o.Unknown && ctx.R.Intn(8) == 0 {
			k = genUnknown(ctx.R, cty.String)
		}
	default:
		switch ctx.R.Intn(8) {
		case 0:
			k = genNumber(ctx.R, o)
		default:
			k = cty.NumberIntVal(int64(ctx.R.Intn(6) - 1))
		}
		if o.Unknown && ctx.R.Intn(8) == 0 {
			k = genUnknown(ctx.R, cty.Number)
		}
	}
	if o.Null && ctx.R.Intn(20) == 0 {
		k = cty.NullVal(k.Type())
	}
	if o.Marks && ctx.R.Intn(8) == 0 {
		k = k.Mark(markNames[ctx.R.Intn(3)])
	}
	return k
}

func hashOracle(v cty.Value) string {
	u, _ := v.UnmarkDeep()
	var h int
	p, _ := try(func() { h = cty.VerifHash(u) })
	if p {
		return "-"
	}
	return fmt.Sprint(h)
}

var opSpecs = []opSpec{
	{"equals", 2, func(ctx *Ctx, o ValOpts) []cty.Value {
		t := genTy(ctx.R, 2, TyOpts{Dyn: true})
		a := genVal(ctx.R, t, 2, o)
		if ctx.R.Intn(5) == 0 {
			t = genTy(ctx.R, 2, TyOpts{Dyn: true})
		}
		return []cty.Value{a, genVal(ctx.R, t, 2, o)}
	}, func(a []cty.Value) cty.Value { return a[0].Equals(a[1]) }, nil},
	{"add", 2, func(ctx *Ctx, o ValOpts) []cty.Value { return []cty.Value{numOperand(ctx, o), numOperand(ctx, o)} },
		func(a []cty.Value) cty.Value { return a[0].Add(a[1]) }, nil},
	{"sub", 2, func(ctx *Ctx, o ValOpts) []cty.Value { return []cty.Value{numOperand(ctx, o), numOperand(ctx, o)} },
		func(a []cty.Value) cty.Value { return a[0].Subtract(a[1]) }, nil},
	{"mul", 2, func(ctx *Ctx, o ValOpts) []cty.Value { return []cty.Value{numOperand(ctx, o), numOperand(ctx, o)} },
		func(a []cty.Value) cty.Value { return a[0].Multiply(a[1]) }, nil},
	{"div", 2, func(ctx *Ctx, o ValOpts) []cty.Value { return []cty.Value{numOperand(ctx, o), numOperand(ctx, o)} },
		func(a []cty.Value) cty.Value { return a[0].Divide(a[1]) }, nil},
	{"mod", 2, func(ctx *Ctx, o ValOpts) []cty.Value { return []cty.Value{numOperand(ctx, o), numOperand(ctx, o)} },
		func(a []cty.Value) cty.Value { return a[0].Modulo(a[1]) }, nil},
	{"neg", 1, func(ctx *Ctx, o ValOpts) []cty.Value { return []cty.Value{numOperand(ctx, o)} },
		func(a []cty.Value) cty.Value { return a[0].Negate() }, nil},
	{"abs", 1, func(ctx *Ctx, o ValOpts) []cty.Value { return []cty.Value{numOperand(ctx, o)} },
		func(a []cty.Value) cty.Value { return a[0].Absolute() }, nil},
	{"lt", 2, func(ctx *Ctx, o ValOpts) []cty.Value { return []cty.Value{numOperand(ctx, o), numOperand(ctx, o)} },
		func(a []cty.Value) cty.Value { return a[0].LessThan(a[1]) }, nil},
	{"gt", 2, func(ctx *Ctx, o ValOpts) []cty.Value { return []cty.Value{numOperand(ctx, o), numOperand(ctx, o)} },
		func(a []cty.Value) cty.Value { return a[0].GreaterThan(a[1]) }, nil},
	{"not", 1, func(ctx *Ctx, o ValOpts) []cty.Value { return []cty.Value{boolOperand(ctx, o)} },
		func(a []cty.Value) cty.Value { return a[0].Not() }, nil},
	{"and", 2, func(ctx *Ctx, o ValOpts) []cty.Value { return []cty.Value{boolOperand(ctx, o), boolOperand(ctx, o)} },
		func(a []cty.Value) cty.Value { return a[0].And(a[1]) }, nil},
	{"or", 2, func(ctx *Ctx, o ValOpts) []cty.Value { return []cty.Value{boolOperand(ctx, o), boolOperand(ctx, o)} },
		func(a []cty.Value) cty.Value { return a[0].Or(a[1]) }, nil},
	{"index", 2, func(ctx *Ctx, o ValOpts) []cty.Value {
		c := genVal(ctx.R, collTy(ctx), 2, o)
		return []cty.Value{c, keyFor(ctx, c, o)}
	}, func(a []cty.Value) cty.Value { return a[0].Index(a[1]) }, nil},
	{"hasindex", 2, func(ctx *Ctx, o ValOpts) []cty.Value {
		c := genVal(ctx.R, collTy(ctx), 2, o)
		return []cty.Value{c, keyFor(ctx, c, o)}
	}, func(a []cty.Value) cty.Value { return a[0].HasIndex(a[1]) }, nil},
	{"length", 1, func(ctx *Ctx, o ValOpts) []cty.Value { return []cty.Value{genVal(ctx.R, collTy(ctx), 2, o)} },
		func(a []cty.Value) cty.Value { return a[0].Length() }, nil},
	{"getattr", 2, func(ctx *Ctx, o ValOpts) []cty.Value {
		var t cty.Type
		if ctx.R.Intn(6) == 0 {
			t = genTy(ctx.R, 2, TyOpts{Dyn: true})
		} else {
			atys := map[string]cty.Type{}
			for i := 0; i < 1+ctx.R.Intn(3); i++ {
				atys[attrNames[ctx.R.Intn(len(attrNames))]] = genTy(ctx.R, 1, TyOpts{Dyn: true})
			}
			t = cty.Object(atys)
		}
		return []cty.Value{genVal(ctx.R, t, 2, o), cty.StringVal(attrNames[ctx.R.Intn(len(attrNames))])}
	}, func(a []cty.Value) cty.Value { return a[0].GetAttr(a[1].AsString()) }, nil},
	{"haselement", 2, func(ctx *Ctx, o ValOpts) []cty.Value {
		e := genTy(ctx.R, 1, TyOpts{})
		var s cty.Value
		if ctx.R.Intn(10) == 0 {
			s = genVal(ctx.R, genTy(ctx.R, 2, TyOpts{Dyn: true}), 2, o)
		} else {
			s = genVal(ctx.R, cty.Set(e), 2, o)
		}
		et := e
		if s.Type().IsSetType() {
			et = s.Type().ElementType()
		}
		if ctx.R.Intn(8) == 0 {
			et = genTy(ctx.R, 1, TyOpts{Dyn: true})
		}
		return []cty.Value{s, genVal(ctx.R, et, 2, o)}
	}, func(a []cty.Value) cty.Value { return a[0].HasElement(a[1]) },
		func(a []cty.Value) []string { return []string{hashOracle(a[1])} }},
}

// opWire returns the driver arguments for an operand tuple.
func (s opSpec) wire(args []cty.Value) []string {
	var w []string
	for i, a := range args {
		if s.name == "getattr" && i == 1 {
			w = append(w, encStr(a.AsString()))
			continue
		}
		w = append(w, encVal(a))
	}
	if s.extra != nil {
		w = append(w, s.extra(args)...)
	}
	return w
}

func runC01(ctx *Ctx) {
	o := ValOpts{Unknown: true, Null: true, Marks: true, DynVal: true, Small: true}
	n := ctx.N(700, 20000)
	for _, s := range opSpecs {
		for i := 0; i < n; i++ {
			args := s.gen(ctx, o)
			out, _, _ := opOut(func() cty.Value { return s.call(args) })
			w := s.wire(args)
			ctx.Add("op."+s.name, out, w...)
			ctx.Eval(fmt.Sprint(s.name, w), true)
		}
	}
}
