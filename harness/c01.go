package main

import (
	"fmt"
	"math/big"
	"os"
	"strings"

	"github.com/zclconf/go-cty/cty"
)

func init() {
	register("C01", "every operation method x generated operand tuples (primitives, nested collections/structures, nulls) x weakenings of any subset of sub-values at any depth to unknowns "+
		"(unrefined, or refined with nullness / inclusive or exclusive numeric bounds at or next to the value / true string prefixes / length bounds around the length) or DynamicVal at operand level. "+
		"non-trivial = at least one weakened position and the concrete call succeeded; distinct = distinct canonical wire strings of (op, concrete operands, weakened operands)", runC01)
}

type opSpec struct {
	name  string
	arity int
	gen   func(ctx *Ctx, o ValOpts) []cty.Value
	call  func(args []cty.Value) cty.Value
	extra func(args []cty.Value) []string // extra wire arguments (oracle columns)
}

func numOperand(ctx *Ctx, o ValOpts) cty.Value {
	switch ctx.R.Intn(14) {
	case 0:
		if o.DynVal {
			return cty.DynamicVal
		}
	case 1:
		if o.Null {
			return cty.NullVal(cty.Number)
		}
	case 2:
		if o.Unknown {
			return genUnknown(ctx.R, cty.Number)
		}
	case 3:
		if o.Unknown {
			return genUnknown(ctx.R, cty.Number)
		}
	case 4, 5:
		return mixedPrecNumber(ctx)
	}
	v := genNumber(ctx.R, o)
	if o.Marks && ctx.R.Intn(8) == 0 {
		v = v.Mark(markNames[ctx.R.Intn(3)])
	}
	return v
}

// mixedPrecNumber: values whose natural 64-bit bound has another precision than
// the value itself (512-bit integers at the uint64/int64/2^53 limits), and small
// fractions at 53 and 512 bits whose sum with them rounds at 64 bits.
func mixedPrecNumber(ctx *Ctx) cty.Value {
	switch ctx.R.Intn(3) {
	case 0:
		ints := []string{"18446744073709551615", "18446744073709551614", "9223372036854775807", "-9223372036854775808",
			"9007199254740993", "18446744073709551616", "4611686018427387905"}
		return cty.MustParseNumberVal(ints[ctx.R.Intn(len(ints))])
	case 1:
		fr := []float64{0.25, 0.5, -0.25, 0.75, 1.5, -0.5}
		return cty.NumberFloatVal(fr[ctx.R.Intn(len(fr))])
	default:
		fr := []string{"0.25", "0.5", "-0.25", "0.125", "3.5"}
		return cty.MustParseNumberVal(fr[ctx.R.Intn(len(fr))])
	}
}

func boolOperand(ctx *Ctx, o ValOpts) cty.Value {
	return genVal(ctx.R, cty.Bool, 1, o)
}

func collTy(ctx *Ctx) cty.Type {
	e := genTy(ctx.R, 1, TyOpts{})
	switch ctx.R.Intn(4) {
	case 0:
		return cty.List(e)
	case 1:
		return cty.Map(e)
	case 2:
		return cty.Set(e)
	default:
		return genTy(ctx.R, 2, TyOpts{})
	}
}

func keyFor(ctx *Ctx, c cty.Value, o ValOpts) cty.Value {
	t := c.Type()
	switch ctx.R.Intn(10) {
	case 0:
		return genVal(ctx.R, genTy(ctx.R, 1, TyOpts{}), 1, o)
	case 1:
		if o.DynVal {
			return cty.DynamicVal
		}
	}
	var k cty.Value
	switch {
	case t.IsMapType() || t.IsObjectType():
		k = cty.StringVal([]string{"a", "b", "k", "é", "zz", "", "nope"}[ctx.R.Intn(7)])
		if o.Unknown && ctx.R.Intn(8) == 0 {
			k = genUnknown(ctx.R, cty.String)
		}
	default:
		switch ctx.R.Intn(8) {
		case 0:
			k = genNumber(ctx.R, o)
		default:
			k = cty.NumberIntVal(int64(ctx.R.Intn(6) - 1))
		}
		if o.Unknown && ctx.R.Intn(8) == 0 {
			k = genUnknown(ctx.R, cty.Number)
		}
	}
	if o.Null && ctx.R.Intn(20) == 0 {
		k = cty.NullVal(k.Type())
	}
	if o.Marks && ctx.R.Intn(8) == 0 {
		k = k.Mark(markNames[ctx.R.Intn(3)])
	}
	return k
}

func hashOracle(v cty.Value) string {
	u, _ := v.UnmarkDeep()
	var h int
	p, _ := try(func() { h = cty.VerifHash(u) })
	if p {
		return "-"
	}
	return fmt.Sprint(h)
}

var opSpecs = []opSpec{
	{"equals", 2, func(ctx *Ctx, o ValOpts) []cty.Value {
		t := genTy(ctx.R, 2, TyOpts{Dyn: true})
		a := genVal(ctx.R, t, 2, o)
		if ctx.R.Intn(5) == 0 {
			t = genTy(ctx.R, 2, TyOpts{Dyn: true})
		}
		if ctx.R.Intn(3) == 0 {
			return []cty.Value{a, a}
		}
		return []cty.Value{a, genVal(ctx.R, t, 2, o)}
	}, func(a []cty.Value) cty.Value { return a[0].Equals(a[1]) }, nil},
	{"notequal", 2, func(ctx *Ctx, o ValOpts) []cty.Value {
		t := genTy(ctx.R, 2, TyOpts{Dyn: true})
		a := genVal(ctx.R, t, 2, o)
		if ctx.R.Intn(2) == 0 {
			return []cty.Value{a, a}
		}
		return []cty.Value{a, genVal(ctx.R, t, 2, o)}
	}, func(a []cty.Value) cty.Value { return a[0].NotEqual(a[1]) }, nil},
	{"add", 2, func(ctx *Ctx, o ValOpts) []cty.Value { return []cty.Value{numOperand(ctx, o), numOperand(ctx, o)} },
		func(a []cty.Value) cty.Value { return a[0].Add(a[1]) }, nil},
	{"sub", 2, func(ctx *Ctx, o ValOpts) []cty.Value { return []cty.Value{numOperand(ctx, o), numOperand(ctx, o)} },
		func(a []cty.Value) cty.Value { return a[0].Subtract(a[1]) }, nil},
	{"mul", 2, func(ctx *Ctx, o ValOpts) []cty.Value { return []cty.Value{numOperand(ctx, o), numOperand(ctx, o)} },
		func(a []cty.Value) cty.Value { return a[0].Multiply(a[1]) }, nil},
	{"div", 2, func(ctx *Ctx, o ValOpts) []cty.Value { return []cty.Value{numOperand(ctx, o), numOperand(ctx, o)} },
		func(a []cty.Value) cty.Value { return a[0].Divide(a[1]) }, nil},
	{"mod", 2, func(ctx *Ctx, o ValOpts) []cty.Value { return []cty.Value{numOperand(ctx, o), numOperand(ctx, o)} },
		func(a []cty.Value) cty.Value { return a[0].Modulo(a[1]) }, nil},
	{"neg", 1, func(ctx *Ctx, o ValOpts) []cty.Value { return []cty.Value{numOperand(ctx, o)} },
		func(a []cty.Value) cty.Value { return a[0].Negate() }, nil},
	{"abs", 1, func(ctx *Ctx, o ValOpts) []cty.Value { return []cty.Value{numOperand(ctx, o)} },
		func(a []cty.Value) cty.Value { return a[0].Absolute() }, nil},
	{"lt", 2, func(ctx *Ctx, o ValOpts) []cty.Value { return []cty.Value{numOperand(ctx, o), numOperand(ctx, o)} },
		func(a []cty.Value) cty.Value { return a[0].LessThan(a[1]) }, nil},
	{"gt", 2, func(ctx *Ctx, o ValOpts) []cty.Value { return []cty.Value{numOperand(ctx, o), numOperand(ctx, o)} },
		func(a []cty.Value) cty.Value { return a[0].GreaterThan(a[1]) }, nil},
	{"le", 2, func(ctx *Ctx, o ValOpts) []cty.Value { return []cty.Value{numOperand(ctx, o), numOperand(ctx, o)} },
		func(a []cty.Value) cty.Value { return a[0].LessThanOrEqualTo(a[1]) }, nil},
	{"ge", 2, func(ctx *Ctx, o ValOpts) []cty.Value { return []cty.Value{numOperand(ctx, o), numOperand(ctx, o)} },
		func(a []cty.Value) cty.Value { return a[0].GreaterThanOrEqualTo(a[1]) }, nil},
	{"not", 1, func(ctx *Ctx, o ValOpts) []cty.Value { return []cty.Value{boolOperand(ctx, o)} },
		func(a []cty.Value) cty.Value { return a[0].Not() }, nil},
	{"and", 2, func(ctx *Ctx, o ValOpts) []cty.Value { return []cty.Value{boolOperand(ctx, o), boolOperand(ctx, o)} },
		func(a []cty.Value) cty.Value { return a[0].And(a[1]) }, nil},
	{"or", 2, func(ctx *Ctx, o ValOpts) []cty.Value { return []cty.Value{boolOperand(ctx, o), boolOperand(ctx, o)} },
		func(a []cty.Value) cty.Value { return a[0].Or(a[1]) }, nil},
	{"index", 2, func(ctx *Ctx, o ValOpts) []cty.Value {
		c := genVal(ctx.R, collTy(ctx), 2, o)
		return []cty.Value{c, keyFor(ctx, c, o)}
	}, func(a []cty.Value) cty.Value { return a[0].Index(a[1]) }, nil},
	{"hasindex", 2, func(ctx *Ctx, o ValOpts) []cty.Value {
		c := genVal(ctx.R, collTy(ctx), 2, o)
		return []cty.Value{c, keyFor(ctx, c, o)}
	}, func(a []cty.Value) cty.Value { return a[0].HasIndex(a[1]) }, nil},
	{"length", 1, func(ctx *Ctx, o ValOpts) []cty.Value { return []cty.Value{genVal(ctx.R, collTy(ctx), 2, o)} },
		func(a []cty.Value) cty.Value { return a[0].Length() }, nil},
	{"getattr", 2, func(ctx *Ctx, o ValOpts) []cty.Value {
		var t cty.Type
		if ctx.R.Intn(6) == 0 {
			t = genTy(ctx.R, 2, TyOpts{Dyn: true})
		} else {
			atys := map[string]cty.Type{}
			for i := 0; i < 1+ctx.R.Intn(3); i++ {
				atys[attrNames[ctx.R.Intn(len(attrNames))]] = genTy(ctx.R, 1, TyOpts{Dyn: true})
			}
			t = cty.Object(atys)
		}
		return []cty.Value{genVal(ctx.R, t, 2, o), cty.StringVal(attrNames[ctx.R.Intn(len(attrNames))])}
	}, func(a []cty.Value) cty.Value { return a[0].GetAttr(a[1].AsString()) }, nil},
	{"haselement", 2, func(ctx *Ctx, o ValOpts) []cty.Value {
		e := genTy(ctx.R, 1, TyOpts{})
		var s cty.Value
		if ctx.R.Intn(10) == 0 {
			s = genVal(ctx.R, genTy(ctx.R, 2, TyOpts{Dyn: true}), 2, o)
		} else {
			s = genVal(ctx.R, cty.Set(e), 2, o)
		}
		et := e
		if s.Type().IsSetType() {
			et = s.Type().ElementType()
		}
		if ctx.R.Intn(8) == 0 {
			et = genTy(ctx.R, 1, TyOpts{Dyn: true})
		}
		if su, _ := s.Unmark(); su.Type().IsSetType() && su.IsKnown() && !su.IsNull() && su.LengthInt() > 0 && ctx.R.Intn(2) == 0 {
			members := su.AsValueSlice()
			return []cty.Value{s, members[ctx.R.Intn(len(members))]}
		}
		return []cty.Value{s, genVal(ctx.R, et, 2, o)}
	}, func(a []cty.Value) cty.Value { return a[0].HasElement(a[1]) },
		func(a []cty.Value) []string { return []string{hashOracle(a[1])} }},
}

// opWire returns the driver arguments for an operand tuple.
func (s opSpec) wire(args []cty.Value) []string {
	var w []string
	for i, a := range args {
		if s.name == "getattr" && i == 1 {
			w = append(w, encStr(a.AsString()))
			continue
		}
		w = append(w, encVal(a))
	}
	if s.extra != nil {
		w = append(w, s.extra(args)...)
	}
	return w
}

// ---- the search predicate ------------------------------------------------

type c01Pending struct {
	kind    string // sound | known | includes
	op      string
	os, ws  []cty.Value
	ro, rw  cty.Value
	po, pw  bool // panicked
	extra   string
	wireKey string
}

func outcomeWire(v cty.Value, panicked bool) string {
	if panicked {
		return "panic"
	}
	return "(ok " + encVal(v) + ")"
}

func goLits(vs []cty.Value) string {
	var parts []string
	for _, v := range vs {
		parts = append(parts, fmt.Sprintf("%#v", v))
	}
	return strings.Join(parts, ", ")
}

func outLit(v cty.Value, panicked bool) string {
	if panicked {
		return "panic"
	}
	return fmt.Sprintf("%#v", v)
}

func numPrecs(vs ...cty.Value) map[uint]bool {
	m := map[uint]bool{}
	var walk func(v cty.Value)
	walk = func(v cty.Value) {
		v, _ = v.Unmark()
		if v.Type() != cty.Number || v.IsNull() {
			return
		}
		if v.IsKnown() {
			m[v.AsBigFloat().Prec()] = true
			return
		}
		r := v.Range()
		if lo, _ := r.NumberLowerBound(); lo.IsKnown() && !lo.AsBigFloat().IsInf() {
			m[lo.AsBigFloat().Prec()] = true
		}
		if hi, _ := r.NumberUpperBound(); hi.IsKnown() && !hi.AsBigFloat().IsInf() {
			m[hi.AsBigFloat().Prec()] = true
		}
	}
	for _, v := range vs {
		walk(v)
	}
	return m
}

// setWithPartlyUnknownMember: somewhere inside v there is a set one of whose
// members is a known container holding an unknown
func setWithPartlyUnknownMember(v cty.Value) bool {
	v, _ = v.UnmarkDeep()
	found := false
	cty.Walk(v, func(_ cty.Path, x cty.Value) (bool, error) {
		if x.IsKnown() && !x.IsNull() && x.Type().IsSetType() {
			for it := x.ElementIterator(); it.Next(); {
				_, m := it.Element()
				if m.IsKnown() && !m.IsWhollyKnown() {
					found = true
				}
			}
		}
		return true, nil
	})
	return found
}

func hasNestedDyn(v cty.Value) bool {
	v, _ = v.UnmarkDeep()
	return v.IsKnown() && !v.IsNull() && !v.HasWhollyKnownType()
}

// boundOtherPrec: the unknown a has an inclusive bound equal in exact value to the
// known non-integer number v but of another precision (cty's own equality then
// compares shortest decimal texts, which differ)
func boundOtherPrec(a, v cty.Value) bool {
	a, _ = a.Unmark()
	v, _ = v.Unmark()
	if a.IsKnown() || !v.IsKnown() || v.IsNull() || v.Type() != cty.Number || a.Type() != cty.Number {
		return false
	}
	f := v.AsBigFloat()
	if f.IsInt() {
		return false
	}
	r := a.Range()
	hit := func(b cty.Value, inc bool) bool {
		if !b.IsKnown() || !inc {
			return false
		}
		g := b.AsBigFloat()
		return g.Cmp(f) == 0 && g.Prec() != f.Prec()
	}
	lo, loInc := r.NumberLowerBound()
	hi, hiInc := r.NumberUpperBound()
	return hit(lo, loInc) || hit(hi, hiInc)
}

// anyBoundOtherPrec: somewhere inside the operands there is an unknown number
// with an inclusive bound, and a known non-integer number, equal in exact value
// but of different precision
func anyBoundOtherPrec(vs ...cty.Value) bool {
	var bounds, nums []*big.Float
	for _, v := range vs {
		u, _ := v.UnmarkDeep()
		cty.Walk(u, func(_ cty.Path, x cty.Value) (bool, error) {
			if x.Type() != cty.Number || x.IsNull() {
				return true, nil
			}
			if x.IsKnown() {
				if f := x.AsBigFloat(); !f.IsInt() && !f.IsInf() {
					nums = append(nums, f)
				}
				return true, nil
			}
			r := x.Range()
			if lo, inc := r.NumberLowerBound(); inc && lo.IsKnown() && !lo.AsBigFloat().IsInf() {
				bounds = append(bounds, lo.AsBigFloat())
			}
			if hi, inc := r.NumberUpperBound(); inc && hi.IsKnown() && !hi.AsBigFloat().IsInf() {
				bounds = append(bounds, hi.AsBigFloat())
			}
			return true, nil
		})
	}
	for _, b := range bounds {
		for _, f := range nums {
			if b.Cmp(f) == 0 && b.Prec() != f.Prec() {
				return true
			}
		}
	}
	return false
}

// c01Sig names the root cause of a predicate failure as tightly as the
// witness allows; anything unrecognised keeps the generic reason and the op.
func c01Sig(p c01Pending, why string) string {
	switch p.kind {
	case "known":
		anyNullDyn := false
		for _, o := range p.os {
			u, _ := o.Unmark()
			if u.Type() == cty.DynamicPseudoType && u.IsNull() {
				anyNullDyn = true
			}
		}
		if why == "spontaneous-unknown" && anyNullDyn {
			switch p.op {
			case "getattr", "index", "hasindex":
				return "null-of-dynamic-type-operand:" + p.op
			}
			return "null-of-dynamic-type-operand:typecheck"
		}
		if why == "null-result" && p.op == "mod" {
			u, _ := p.os[0].Unmark()
			if u.IsNull() {
				return "null-modulo-zero"
			}
		}
	case "includes":
		if why == "includes-false-but-covered" && boundOtherPrec(p.os[0], p.os[1]) {
			return "inclusive-bound-equal-in-value-other-precision"
		}
		return why
	case "sound":
		rwu := cty.NilVal
		if !p.pw {
			rwu, _ = p.rw.Unmark()
		}
		isFalse := rwu != cty.NilVal && rwu.IsKnown() && rwu.RawEquals(cty.False)
		switch p.op {
		case "haselement":
			n, _ := p.ws[1].UnmarkDeep()
			st, _ := p.ws[0].Unmark()
			if why == "result-not-covered" && isFalse {
				if n.IsKnown() && !n.IsWhollyKnown() {
					return "haselement-false-for-partly-unknown-element"
				}
				if st.Type().IsSetType() && (st.Type().ElementType().HasDynamicTypes() || n.Type().HasDynamicTypes()) &&
					n.Type() != cty.DynamicPseudoType && st.Type().ElementType() != cty.DynamicPseudoType {
					return "haselement-false-for-type-with-placeholder-inside"
				}
			}
		case "equals", "notequal", "le", "ge":
			if why == "result-not-covered" {
				a, _ := p.ws[0].UnmarkDeep()
				b, _ := p.ws[1].UnmarkDeep()
				isFalse := isFalse
				if p.op == "notequal" {
					isFalse = rwu != cty.NilVal && rwu.IsKnown() && rwu.RawEquals(cty.True)
				}
				if isFalse && (hasNestedDyn(a) || hasNestedDyn(b)) {
					return "equals-false-with-dynamic-nested-in-known-value"
				}
				if isFalse && (setWithPartlyUnknownMember(a) || setWithPartlyUnknownMember(b)) {
					return "equals-false-for-set-with-partly-unknown-member"
				}
				if isFalse && (boundOtherPrec(a, b) || boundOtherPrec(b, a) || anyBoundOtherPrec(a, b)) {
					return "inclusive-bound-equal-in-value-other-precision"
				}
			}
		case "add", "sub", "mul":
			if p.op == "mul" && why == "result-not-covered" && rwu != cty.NilVal && rwu.IsKnown() && !rwu.IsNull() &&
				rwu.RawEquals(cty.Zero) && c01NullDynTimesNullNumber(p.os) {
				return "zero-bounded-unknown-stands-for-null-next-to-null-of-dynamic-type"
			}
			if why == "result-not-covered" && rwu != cty.NilVal && len(numPrecs(append(append([]cty.Value{}, p.os...), p.ws...)...)) > 1 {
				return "range-bound-rounded-at-lower-precision"
			}
		case "mod":
			u, _ := p.os[0].Unmark()
			if why == "result-not-covered" && u.IsNull() && !p.po && p.ro.IsNull() {
				return "null-modulo-zero"
			}
		case "length":
			u, _ := p.ws[0].Unmark()
			if why == "weakened-call-fails" && u.Type().IsObjectType() && !u.IsKnown() {
				return "length-of-unknown-object-panics"
			}
		}
	}
	return why + ":" + p.op
}

// c01NullDynTimesNullNumber: the concrete operands are a null of the dynamic
// pseudo-type (taken for DynamicVal by typeCheck) and a null number
func c01NullDynTimesNullNumber(os []cty.Value) bool {
	nullDyn, nullNum := false, false
	for _, o := range os {
		u, _ := o.Unmark()
		if u.IsKnown() && u.IsNull() {
			if u.Type() == cty.DynamicPseudoType {
				nullDyn = true
			} else if u.Type() == cty.Number {
				nullNum = true
			}
		}
	}
	return nullDyn && nullNum
}

func c01Site(p c01Pending, why string) string {
	switch p.kind {
	case "known":
		if why == "null-result" {
			return "never-null"
		}
		return "known-in-known-out"
	case "includes":
		return "includes-false-sound"
	}
	return "sound"
}

func c01What(p c01Pending, why string) string {
	switch p.kind {
	case "known":
		if why == "null-result" {
			return "the result of " + p.op + " is null"
		}
		return "all operands of " + p.op + " are wholly known but the result is not"
	case "includes":
		return "ValueRange.Includes answered " + p.extra + " against what the range admits"
	}
	if why == "weakened-call-fails" {
		return "weakening the operands of " + p.op + " made a succeeding call fail"
	}
	return "the result of " + p.op + " on weakened operands does not admit the result on the original operands"
}

// c01Corpus: minimised witnesses of every recorded finding (and of repaired
// defects), replayed first on every run so that each KNOWN-FINDING line is
// reproduced deterministically and a repair shows up as a passing case.
type c01Case struct {
	op   string
	o, w []cty.Value
}

func c01Corpus() []c01Case {
	one := cty.NumberIntVal(1)
	maxu := cty.MustParseNumberVal("18446744073709551615")
	uMax := cty.UnknownVal(cty.Number).Refine().NumberRangeUpperBound(cty.NumberUIntVal(18446744073709551615), true).NewValue()
	q := cty.NumberFloatVal(0.25)
	setL := cty.SetVal([]cty.Value{cty.ListVal([]cty.Value{one})})
	listT := cty.ListVal([]cty.Value{cty.True})
	setT := cty.SetVal([]cty.Value{cty.TupleVal([]cty.Value{cty.True})})
	f := cty.NumberFloatVal(1e-100)
	g := cty.NumberVal(new(big.Float).SetPrec(512).Set(f.AsBigFloat()))
	uAtF := cty.UnknownVal(cty.Number).Refine().NumberRangeLowerBound(g, true).NewValue()
	nd := cty.NullVal(cty.DynamicPseudoType)
	z64 := cty.NumberIntVal(0) // a zero that is not the package value cty.Zero (64 bits, other pointer)
	u00 := cty.UnknownVal(cty.Number).Refine().NumberRangeInclusive(z64, z64).NewValue()
	infC := one.Divide(z64) // a computed infinity, not the package value cty.PositiveInfinity
	unkN := cty.UnknownVal(cty.Number)
	return []c01Case{
		// /repo 6d2fa5e (Multiply's zero exit for every zero, also in the corner products of the range
		// arithmetic) and 572b8ba (Modulo recognises a computed infinity): must pass
		{"mul", []cty.Value{z64, cty.NumberIntVal(-5)}, []cty.Value{z64, unkN}},
		{"mul", []cty.Value{cty.NumberFloatVal(-2.5), z64}, []cty.Value{cty.DynamicVal, z64}},
		{"mul", []cty.Value{cty.NumberIntVal(7), z64}, []cty.Value{cty.DynamicVal, u00}},
		{"mul", []cty.Value{nd, z64}, []cty.Value{nd, u00}},
		{"mul", []cty.Value{z64, cty.NumberIntVal(3)}, []cty.Value{u00, unkN}},
		{"mod", []cty.Value{infC, cty.NumberIntVal(5)}, []cty.Value{infC, unkN}},
		{"mod", []cty.Value{cty.NumberIntVal(5), infC.Negate()}, []cty.Value{cty.NumberIntVal(5), infC.Negate()}},
		// recorded: the zero exit of a corner product next to a null of the dynamic pseudo-type
		{"mul", []cty.Value{nd, cty.NullVal(cty.Number)}, []cty.Value{nd, u00}},
		{"haselement", []cty.Value{setL, cty.ListVal([]cty.Value{one})}, []cty.Value{setL, cty.ListVal([]cty.Value{cty.UnknownVal(cty.Number)})}},
		{"equals", []cty.Value{listT, listT}, []cty.Value{cty.ListVal([]cty.Value{cty.DynamicVal}), cty.UnknownVal(cty.List(cty.Bool))}},
		{"equals", []cty.Value{cty.TupleVal([]cty.Value{cty.StringVal("a")}), cty.TupleVal([]cty.Value{cty.StringVal("a")})},
			[]cty.Value{cty.TupleVal([]cty.Value{cty.DynamicVal}), cty.UnknownVal(cty.Tuple([]cty.Type{cty.String}))}},
		{"equals", []cty.Value{setT, setT}, []cty.Value{setT, cty.SetVal([]cty.Value{cty.TupleVal([]cty.Value{cty.UnknownVal(cty.Bool)})})}},
		{"haselement", []cty.Value{cty.SetVal([]cty.Value{cty.ListValEmpty(cty.Number)}), cty.ListValEmpty(cty.Number)},
			[]cty.Value{cty.SetVal([]cty.Value{cty.UnknownVal(cty.List(cty.Number))}), cty.UnknownVal(cty.List(cty.DynamicPseudoType))}},
		{"add", []cty.Value{maxu, q}, []cty.Value{uMax, q}},
		{"length", []cty.Value{cty.EmptyObjectVal}, []cty.Value{cty.UnknownVal(cty.EmptyObject)}},
		{"mod", []cty.Value{cty.NullVal(cty.Number), cty.NumberIntVal(0)}, []cty.Value{cty.NullVal(cty.Number), cty.UnknownVal(cty.Number)}},
		{"equals", []cty.Value{f, f}, []cty.Value{f, uAtF}},
		{"not", []cty.Value{nd}, []cty.Value{nd}},
		{"getattr", []cty.Value{nd, cty.StringVal("a")}, []cty.Value{nd, cty.StringVal("a")}},
		{"index", []cty.Value{nd, cty.StringVal("k")}, []cty.Value{nd, cty.StringVal("k")}},
		{"hasindex", []cty.Value{nd, cty.StringVal("k")}, []cty.Value{nd, cty.StringVal("k")}},
		// lt with an inclusive bound at the value (seeded change C01/m1), equals against a type constraint
		// holding the placeholder inside (C01/m2): must pass on the unchanged tree
		{"lt", []cty.Value{cty.NumberIntVal(5), cty.NumberIntVal(5)},
			[]cty.Value{cty.UnknownVal(cty.Number).Refine().NumberRangeUpperBound(cty.NumberIntVal(5), true).NewValue(), cty.NumberIntVal(5)}},
		{"notequal", []cty.Value{cty.ListVal([]cty.Value{cty.StringVal("a")}), cty.ListVal([]cty.Value{cty.StringVal("a")})},
			[]cty.Value{cty.ListVal([]cty.Value{cty.StringVal("a")}), cty.UnknownVal(cty.List(cty.DynamicPseudoType))}},
	}
}

func c01IncludesCorpus() [][2]cty.Value {
	f := cty.NumberFloatVal(1e-100)
	g := cty.NumberVal(new(big.Float).SetPrec(512).Set(f.AsBigFloat()))
	return [][2]cty.Value{
		{cty.UnknownVal(cty.Number).Refine().NumberRangeLowerBound(g, true).NewValue(), f},
	}
}

func runC01(ctx *Ctx) {
	// two streams of operand tuples: wholly known ones (the tuples of the
	// property's quantifier: judged, and compared with the model), and tuples that
	// already hold unknowns (compared with the model, converse clauses judged)
	streams := []ValOpts{
		{Null: true, Marks: true, Small: true},
		{Unknown: true, Null: true, Marks: true, DynVal: true, Small: true},
	}
	n := ctx.N(1200, 7000)
	perTuple := 2
	var pend []c01Pending
	var lines []string
	push := func(p c01Pending, line string) {
		pend = append(pend, p)
		lines = append(lines, line)
	}
	specByName := map[string]opSpec{}
	for _, s := range opSpecs {
		specByName[s.name] = s
	}
	// one concrete tuple: correspondence + converse clauses; its weakenings: correspondence + soundness
	doTuple := func(s opSpec, args []cty.Value, weak [][]cty.Value, stats []*wkStats, judge bool) {
		nOps := len(args)
		if s.name == "getattr" {
			nOps = 1
		}
		out, ro, po := opOut(func() cty.Value { return s.call(args) })
		w := s.wire(args)
		ctx.Add("op."+s.name, out, w...)
		push(c01Pending{kind: "known", op: s.name, os: args[:nOps], ro: ro, po: po, wireKey: s.name + " " + strings.Join(w, " ")},
			"judge.c01.known "+s.name+" "+strings.Join(w[:nOps], " ")+" "+outcomeWire(ro, po))
		for k, ws := range weak {
			outW, rw, pw := opOut(func() cty.Value { return s.call(ws) })
			ww := s.wire(ws)
			ctx.Add("op."+s.name, outW, ww...)
			if !judge {
				continue
			}
			positions := 1
			if stats != nil {
				st := stats[k]
				positions = st.positions
				for kind, c := range st.kinds {
					ctx.res.Dist["weaken:"+kind] += c
				}
				if st.frontier {
					ctx.Tag("weaken:frontier-nested-dynamic")
				}
			}
			key := s.name + " " + strings.Join(w, " ") + " => " + strings.Join(ww, " ")
			ctx.Eval(key, positions > 0 && !po)
			verb := "judge.c01.sound2 "
			if nOps == 1 {
				verb = "judge.c01.sound1 "
			}
			if s.name == "add" || s.name == "sub" || s.name == "mul" {
				// is this paired run in the scope of the Lean soundness theorem of the operation?
				push(c01Pending{kind: "scope", op: s.name},
					"judge.c01.scope "+s.name+" "+strings.Join(w[:nOps], " ")+" "+strings.Join(ww[:nOps], " "))
			} else if s.name == "length" {
				push(c01Pending{kind: "scope", op: s.name}, "judge.c01.scope1 length "+w[0]+" "+ww[0])
			} else if s.name == "haselement" {
				// C01.sound_hasElement_partial: each operand kept, or replaced as a whole by an unknown (the
				// needle: of its own type, or DynamicVal); decided here, on the wire forms and the public API
				if sc := c01HasElementScope(args, ws, w, ww); sc == "out" && w[1] == ww[1] && w[2] == ww[2] {
					// C01.sound_hasElement_members_partial (slice d01b): the needle kept, the members of the set
					// weakened in place; every hypothesis is evaluated by the driver (D01b.inScopeHasMembers)
					push(c01Pending{kind: "scope", op: s.name}, "judge.c01.scopeHas "+w[0]+" "+w[1]+" "+ww[0]+" "+w[2])
				} else {
					push(c01Pending{kind: "scope", op: s.name, extra: sc}, "judge.c01.scope1 none")
				}
			}
			push(c01Pending{kind: "sound", op: s.name, os: args, ws: ws, ro: ro, rw: rw, po: po, pw: pw, wireKey: key},
				verb+strings.Join(w[:nOps], " ")+" "+strings.Join(ww[:nOps], " ")+" "+outcomeWire(ro, po)+" "+outcomeWire(rw, pw))
		}
	}
	for _, c := range append(append(c01Corpus(), c01D01Corpus()...), c01D01bCorpus()...) {
		ctx.Tag("corpus")
		doTuple(specByName[c.op], c.o, [][]cty.Value{c.w}, nil, true)
	}
	c01D01Tuples(ctx, ctx.N(1500, 12000), func(op string, o, w []cty.Value) {
		doTuple(specByName[op], o, [][]cty.Value{w}, nil, true)
	})
	for _, s := range opSpecs {
		for i := 0; i < 2*n; i++ {
			stream := i % 2
			args := s.gen(ctx, streams[stream])
			nOps := len(args)
			if s.name == "getattr" {
				nOps = 1
			}
			if ctx.R.Intn(40) == 0 {
				// a null of the dynamic pseudo-type is a wholly known value too
				args[ctx.R.Intn(nOps)] = cty.NullVal(cty.DynamicPseudoType)
			}
			var weak [][]cty.Value
			var stats []*wkStats
			for k := 0; k < perTuple; k++ {
				wo := wkOpts{p: 0.22, dynTop: true, frontier: k == 1 && ctx.R.Intn(3) == 0}
				ws, st := weakenTuple(ctx, args, func(i int) bool { return i >= nOps }, wo)
				weak = append(weak, ws)
				stats = append(stats, st)
			}
			doTuple(s, args, weak, stats, stream == 0)
		}
	}
	// ValueRange.Includes against what the range admits
	incCorpus := c01IncludesCorpus()
	for i := 0; i < ctx.N(10000, 60000)+len(incCorpus); i++ {
		var a, v cty.Value
		if i < len(incCorpus) {
			a, v = incCorpus[i][0], incCorpus[i][1]
		} else {
			t := genTy(ctx.R, 1, TyOpts{})
			v = genVal(ctx.R, t, 2, ValOpts{Null: true, Small: true})
			if ctx.R.Intn(2) == 0 {
				a, _ = unknownTrueOf(ctx, v)
			} else {
				a = genUnknown(ctx.R, t)
			}
		}
		if a.IsKnown() || v.IsMarked() {
			continue
		}
		var ans cty.Value
		if p, _ := try(func() { ans = a.Range().Includes(v) }); p {
			continue
		}
		tri := "u"
		if ans.IsKnown() {
			tri = "f"
			if ans.True() {
				tri = "t"
			}
		}
		ctx.Tag("includes:" + tri)
		ctx.Eval("includes "+encVal(a)+" "+encVal(v), tri == "f")
		push(c01Pending{kind: "includes", op: "includes", os: []cty.Value{a, v}, extra: tri, wireKey: encVal(a) + " " + encVal(v)},
			"judge.c01.includes "+encVal(a)+" "+encVal(v)+" "+tri)
	}
	ans, err := drvBatch(lines)
	if err != nil {
		fmt.Fprintf(os.Stderr, "C01 judge: %v\n", err)
		os.Exit(2)
	}
	scope := "" // answer to the `judge.c01.scope` line that precedes a sound line of add / sub / mul
	for i, a := range ans {
		p := pend[i]
		if p.kind == "scope" {
			scope = a
			if p.extra != "" {
				scope = p.extra
			}
			continue
		}
		if p.kind == "sound" && (p.op == "add" || p.op == "sub" || p.op == "mul" || p.op == "length" || p.op == "haselement") {
			verdict := a
			if j := strings.IndexByte(a, ' '); j > 0 {
				verdict = a[:j]
			}
			ctx.Tag("scope:" + p.op + ":" + scope + ":" + verdict)
			if scope == "in-members" && c01MoreStored(p.os[0], p.ws[0]) {
				ctx.Tag("scope:haselement:in-members:more-members-stored-than-concrete")
			}
		} else {
			scope = ""
		}
		switch {
		case a == "pass":
			ctx.Tag("judge:" + p.kind + ":pass")
		case strings.HasPrefix(a, "skip "):
			ctx.Tag("judge:" + p.kind + ":skip: " + strings.TrimPrefix(a, "skip "))
			if strings.Contains(a, "do not cover") && os.Getenv("C01_DEBUG") != "" {
				fmt.Fprintf(os.Stderr, "NOT-COVERING %s: %s  =>  %s\n   %s\n", p.op, goLits(p.os), goLits(p.ws), lines[i])
			}
		case strings.HasPrefix(a, "fail "):
			why := strings.TrimPrefix(a, "fail ")
			ctx.Tag("judge:" + p.kind + ":fail")
			f := Failure{Site: c01Site(p, why), Sig: c01Sig(p, why), What: c01What(p, why), Input: p.wireKey}
			if p.kind == "sound" && (scope == "in" || scope == "in-members") {
				// every hypothesis of C01.sound_<op>_partial holds of this run (C01.in_scope_sound): the
				// theorem says the model passes, so the model is not the code here — never a known finding
				f.Sig = "contradicts-theorem:in_scope_sound:" + p.op
				if scope == "in-members" {
					f.Sig = "contradicts-theorem:in_scope_hasElement_members_sound"
				}
			}
			switch p.kind {
			case "sound":
				f.GoLit = p.op + "(" + goLits(p.os) + ") vs weakened " + p.op + "(" + goLits(p.ws) + ")"
				f.Outcome = outLit(p.ro, p.po) + " vs weakened " + outLit(p.rw, p.pw)
			case "known":
				f.GoLit = p.op + "(" + goLits(p.os) + ")"
				f.Outcome = outLit(p.ro, p.po)
			default:
				f.GoLit = fmt.Sprintf("%#v.Range().Includes(%#v)", p.os[0], p.os[1])
				f.Outcome = p.extra
			}
			ctx.Fail(f)
		default:
			fmt.Fprintf(os.Stderr, "C01 judge: unexpected driver answer %q to %q\n", a, lines[i])
			os.Exit(2)
		}
	}
}

