package main

// C11 — correspondence for the allocation drivers (model: lean/CtyModel/Stdlib/d11Alloc.lean,
// driver op c11.alloc): the outcome class (ok / err / panic) of indent, of format's width padding
// and of setproduct's allocation on requests the harness can run safely: at most 10^6 bytes, or so
// far beyond what the runtime can address (>= 2^49 bytes, negative after wrap-around) that
// makeslice panics before allocating.  Nothing in between is ever run.

import (
	"errors"
	"fmt"
	"math"
	"math/big"
	"strings"

	"github.com/zclconf/go-cty/cty"
	"github.com/zclconf/go-cty/cty/function"
	"github.com/zclconf/go-cty/cty/function/stdlib"
)

func c11Outcome(f function.Function, args []cty.Value, okTag func(cty.Value) string) string {
	var v cty.Value
	var err error
	if p, _ := try(func() { v, err = f.Call(args) }); p {
		return "gopanic"
	}
	var pe function.PanicError
	switch {
	case err != nil && errors.As(err, &pe):
		return "panic"
	case err != nil:
		return "err"
	}
	return strings.TrimSpace("ok " + okTag(v))
}

func c11AllocCorrespondence(ctx *Ctx) {
	// indent
	nums := []string{"0", "1", "-1", "2", "300", "65536", "65537", "1000000", "25000", "25001", "2147483647", "2147483644", "2147483645", "2147483646", "1073741822", "1073741823", "53687091", "53687090", "53687092", "-9223372036854775808", "0.5", "1e-30",
		"562949953421312", "1125899906842624", "4611686018427387904", "9223372036854775807", "9223372036854775808", "18446744073709551616", "1e30"}
	vals := []cty.Value{cty.PositiveInfinity, cty.NegativeInfinity}
	for _, s := range nums {
		vals = append(vals, cty.MustParseNumberVal(s))
	}
	vals = append(vals, cty.NumberIntVal(1<<62), cty.NumberIntVal(1<<49), cty.NumberUIntVal(1<<63), cty.NumberFloatVal(1<<50))
	for _, n := range vals {
		for _, str := range []string{"a", "a\nb", "", "\n", "x\n\ny\nz", strings.Repeat("ab\n", 40)} {
			if f := n.AsBigFloat(); !f.IsInf() && f.IsInt() && strings.Contains(str, "\n") {
				// the padded result is really built: keep it small
				if k, acc := f.Int64(); acc == big.Exact && k > 0 && k <= math.MaxInt32 && k*int64(strings.Count(str, "\n")) > c11AllocCap {
					ctx.Tag("alloc-driver-not-run:indent")
					continue
				}
			}
			got := c11Outcome(stdlib.IndentFunc, []cty.Value{n, cty.StringVal(str)}, func(v cty.Value) string {
				if len(v.AsString()) > len(str) {
					return "pad"
				}
				return "nopad"
			})
			ctx.Add("c11.alloc", got, "indent", encVal(n), fmt.Sprint(len(str)), fmt.Sprint(strings.Count(str, "\n")))
			ctx.Tag("c11.alloc:indent:" + got)
		}
	}
	// format width padding
	lits := []string{"0", "1", "2", "3", "4", "5", "10", "007", "00", "64", "999999", "1000000", "1000001", "1000009", "1000010", "9999999", "10000000", "562949953421312", "1125899906842624",
		"4611686018427387904", "9223372036854775807", "9223372036854775808", "9223372036854775809", "18446744073709551615", "18446744073709551616",
		"18446744073709551617", "18446744073709551621", "27670116110564327424", "99999999999999999999999999999", "184467440737095516160000000000000000005"}
	for _, w := range lits {
		eff := c11GoWrap(w)
		// since /repo 84cbc5e a width beyond 10^6 is an ordinary error; widths that would be a real
		// allocation of more than 50 MB if that guard were lost are still not run
		if lv, ok := new(big.Int).SetString(w, 10); ok && lv.Cmp(big.NewInt(50000000)) > 0 && eff > c11AllocCap && eff < 1<<49 {
			ctx.Tag("alloc-driver-not-run:pad:width=" + w)
			continue
		}
		for _, arg := range []string{"a", "abc", "abcde", ""} {
			for _, verb := range []string{"s", "v"} {
				got := c11Outcome(stdlib.FormatFunc, []cty.Value{cty.StringVal("%" + w + verb), cty.StringVal(arg)}, func(v cty.Value) string {
					if len(v.AsString()) > len(arg) {
						return "pad"
					}
					return "nopad"
				})
				ds := make([]string, len(w))
				for i, c := range w {
					ds[i] = string(c)
				}
				ctx.Add("c11.alloc", got, "pad", "("+strings.Join(ds, " ")+")", fmt.Sprint(len(arg)))
				ctx.Tag("c11.alloc:pad:" + got)
			}
		}
	}
	// setproduct
	rep := func(n, k int) []int {
		ls := make([]int, k)
		for i := range ls {
			ls[i] = n
		}
		return ls
	}
	cases := [][]int{{2, 3}, {0, 5}, {5, 0}, {1, 1}, {10, 10, 10}, {100, 100}, {1, 0, 1}, {3, 3, 3, 3}, {0, 0},
		rep(512, 7), rep(1024, 6), rep(256, 8), rep(65536, 4), rep(65536, 3), rep(2048, 5), append(rep(256, 8), 3), append(rep(512, 7), 0), append([]int{0}, rep(512, 7)...), rep(32768, 4), rep(2, 62), rep(2, 63), rep(2, 64), rep(2, 65)}
	for _, ls := range cases {
		p := big.NewInt(1)
		var w int64 = 1
		for _, l := range ls {
			p.Mul(p, big.NewInt(int64(l)))
			w *= int64(l)
		}
		safe := p.Cmp(big.NewInt(10000)) <= 0 || w <= 0 || w >= 1<<46
		if !safe {
			ctx.Tag(fmt.Sprintf("alloc-driver-not-run:setproduct:%v", ls))
			continue
		}
		args := make([]cty.Value, len(ls))
		ss := make([]string, len(ls))
		for i, l := range ls {
			args[i] = c11StrList(l)
			ss[i] = fmt.Sprint(l)
		}
		got := c11Outcome(stdlib.SetProductFunc, args, func(v cty.Value) string {
			if v.LengthInt() == 0 {
				return "empty"
			}
			return "nonempty"
		})
		ctx.Add("c11.alloc", got, "setproduct", "("+strings.Join(ss, " ")+")")
		ctx.Tag("c11.alloc:setproduct:" + got)
	}
}
