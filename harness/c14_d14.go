package main

// C14 (d14): formatlist against (a) the Lean model of FormatListFunc.Impl (correspondence, op std.glue formatlist)
// and (b) the reference "element i is format() of the i-th members, sequences must agree in length, no sequence =
// one call, empty sequences = empty list" evaluated with the harness's own format reference (refFormat) and,
// independently, with the real stdlib.Format.

import (
	"fmt"

	"github.com/zclconf/go-cty/cty"
	"github.com/zclconf/go-cty/cty/function/stdlib"
)

// a value of the same type as a (for the further members of a column)
func genLikeC14(ctx *Ctx, a cty.Value) cty.Value {
	r := ctx.R
	if r.Intn(15) == 0 {
		return cty.NullVal(a.Type())
	}
	switch a.Type() {
	case cty.String:
		return sv(genC14Str(ctx, 3))
	case cty.Number:
		if r.Intn(2) == 0 {
			return cty.NumberIntVal(int64(r.Intn(201) - 100))
		}
		return genC14Num(ctx)
	case cty.Bool:
		return cty.BoolVal(r.Intn(2) == 0)
	}
	return a
}

func runC14FormatList(ctx *Ctx) {
	r := ctx.R
	m := ctx.N(1500, 25000)
	for i := 0; i < m; i++ {
		format, row := genFormat(ctx)
		if r.Intn(3) == 0 { // the formats of the first version of this check
			format = []string{"%s-%d", "%v/%v", "%[2]d:%[1]s", "%s%%%d", "%5s|%-3d|"}[r.Intn(5)]
			row = []cty.Value{sv(genC14Str(ctx, 2)), cty.NumberIntVal(int64(r.Intn(100)))}
		}
		l := r.Intn(4)
		args := make([]cty.Value, len(row))
		kinds := ""
		for j, a := range row {
			k := r.Intn(8)
			if k <= 1 {
				args[j] = a
				kinds += "1"
				continue
			}
			lj := l
			if r.Intn(14) == 0 {
				lj = l + 1
			}
			col := make([]cty.Value, lj)
			for x := range col {
				if x == 0 {
					col[x] = a
				} else {
					col[x] = genLikeC14(ctx, a)
				}
			}
			switch {
			case k == 2:
				args[j] = cty.NullVal(cty.List(a.Type())) // a null sequence is a single value
				kinds += "n"
			case k == 3:
				args[j] = cty.TupleVal(col)
				kinds += "t"
			case k == 4 && lj > 0:
				args[j] = cty.SetVal(col)
				kinds += "s"
			case lj == 0:
				args[j] = cty.ListValEmpty(a.Type())
				kinds += "l"
			default:
				args[j] = cty.ListVal(col)
				kinds += "l"
			}
		}
		fv := sv(format)
		all := append([]cty.Value{fv}, args...)
		o := newOracle()
		c := glueCase{name: "formatlist", goNm: "FormatList", f: stdlib.FormatListFunc, args: all, orc: o}
		// ---- reference
		iterLen, bad := -1, false
		seqs := make([][]cty.Value, len(args))
		for j, a := range args {
			ty := a.Type()
			if (ty.IsListType() || ty.IsSetType() || ty.IsTupleType()) && !a.IsNull() {
				seqs[j] = a.AsValueSlice()
				if seqs[j] == nil {
					seqs[j] = []cty.Value{}
				}
				if iterLen == -1 {
					iterLen = len(seqs[j])
				} else if iterLen != len(seqs[j]) {
					bad = true
				}
			}
		}
		var want []cty.Value
		judged := true
		switch {
		case len(args) == 0:
			w, ok, j := refFormat(o, fv.AsString(), nil, false)
			judged = j
			if ok {
				want = []cty.Value{sv(o.nfc(w))}
			} else {
				bad = true
			}
			ctx.Tag("formatlist:no-arguments")
		case bad:
			ctx.Tag("formatlist:inconsistent-lengths")
		case iterLen == 0:
			ctx.Tag("formatlist:empty-sequences")
		default:
			n := iterLen
			if n == -1 {
				n = 1
				ctx.Tag("formatlist:no-sequence")
			}
			for x := 0; x < n && !bad && judged; x++ {
				rowx := make([]cty.Value, len(args))
				for j := range args {
					if seqs[j] != nil {
						rowx[j] = seqs[j][x]
					} else {
						rowx[j] = args[j]
					}
				}
				w, ok, j := refFormat(o, fv.AsString(), rowx, false)
				if !j {
					judged = false
				} else if !ok {
					bad = true
					ctx.Tag(fmt.Sprintf("formatlist:error-in-iteration:%d", x))
				} else {
					want = append(want, sv(o.nfc(w)))
				}
			}
		}
		ctx.Tag("formatlist:kinds:" + kinds)
		c.skip = !judged || fmtMinusZeroRe.MatchString(format)
		if bad {
			c.wantErr = true
		} else if len(want) == 0 {
			c.want = cty.ListValEmpty(cty.String)
		} else {
			c.want = cty.ListVal(want)
		}
		// facts about the real library: every member of the real result is a fixed point of NFC (the model asks
		// for the normal form of what IT computed, which differs from the reference's text under a recorded finding)
		if _, res0, class0 := stdOut(stdlib.FormatListFunc, all); class0 == "ok" && res0.IsKnown() && !res0.IsNull() && res0.Type().IsListType() {
			for _, el := range res0.AsValueSlice() {
				if el.IsKnown() && !el.IsNull() && el.Type() == cty.String {
					o.nfc(el.AsString())
				}
			}
		}
		runGlue(ctx, c)
		// ---- independent of the harness's format reference: element i is the real format() of the i-th members
		if judged && !bad && iterLen != 0 && len(args) > 0 {
			_, res, class := stdOut(stdlib.FormatListFunc, all)
			n := iterLen
			if n == -1 {
				n = 1
			}
			if class == "ok" && res.IsKnown() && res.LengthInt() == n {
				got := res.AsValueSlice()
				for x := 0; x < n; x++ {
					rowx := make([]cty.Value, len(args))
					for j := range args {
						if seqs[j] != nil {
							rowx[j] = seqs[j][x]
						} else {
							rowx[j] = args[j]
						}
					}
					v, err := stdlib.Format(fv, rowx...)
					if err != nil || !v.RawEquals(got[x]) {
						c14Fail(ctx, "formatlist", "formatlist-differs", "formatlist is not the element-wise format()", "FormatList", all, res.GoString())
						break
					}
				}
			}
		}
	}
}
