package main

// C10, slice d10: the wrappers and every entry point.
//
// A real function.Function with spy callbacks is put through a chain of the constructors
// WithNewDescriptions / function.Unpredictable (0..3 of them, in any order) and then ONE entry point is
// run on it: Call, Proxy()(…), ReturnTypeForValues, ReturnType.
//   (a) correspondence: op fn.wrap (lean/CtyModel/FnD10.lean `wrapRun`): outcome + trace of the spec's callbacks;
//   (b) predicates on the real observations:
//       - a panic of the Type callback comes back as a PanicError from EVERY entry point of EVERY wrapped function
//         (site panics-become-errors, sig type-panic-escapes:<entry>:<wrappers>);
//       - no entry point lets a Go panic escape unless a RefineResult declaration is involved (the recorded finding);
//       - the wrapped function type-checks exactly as the original (ReturnTypeForValues / ReturnType answers agree);
//       - Unpredictable: the spec's Impl is never invoked, and a successful Call answers an unknown value of the
//         checked return type carrying every unhandled mark;
//       - a re-described function behaves as the original (Call answer identical).
// Distribution tags: d10-entry:*, d10-wrappers:*, d10-outcome:*, d10-class:*.

import (
	"fmt"
	"strings"

	"github.com/zclconf/go-cty/cty"
	"github.com/zclconf/go-cty/cty/function"
)

type c10Wrapper struct {
	unpred bool
	n      int // number of descriptions for WithNewDescriptions
}

func c10WrappersWire(ws []c10Wrapper) string {
	parts := make([]string, len(ws))
	for i, w := range ws {
		if w.unpred {
			parts[i] = "unpred"
		} else {
			parts[i] = fmt.Sprintf("(redesc %d)", w.n)
		}
	}
	return "(" + strings.Join(parts, " ") + ")"
}

func c10WrappersKind(ws []c10Wrapper) string {
	if len(ws) == 0 {
		return "none"
	}
	parts := make([]string, len(ws))
	for i, w := range ws {
		if w.unpred {
			parts[i] = "unpred"
		} else {
			parts[i] = "redesc"
		}
	}
	return strings.Join(parts, "+")
}

func (c *c10Case) goLitWrapped(ws []c10Wrapper, entry string) string {
	base := c.goLit()
	i := strings.LastIndex(base, ").Call(")
	if i < 0 {
		return base
	}
	f := base[:i+1]
	for _, w := range ws {
		if w.unpred {
			f = "function.Unpredictable(" + f + ")"
		} else {
			f = f + fmt.Sprintf(".WithNewDescriptions(\"d\", make([]string, %d))", w.n)
		}
	}
	args := c10GoVals(c.args)
	switch entry {
	case "call":
		return f + ".Call(" + args + ")"
	case "proxy":
		return f + ".Proxy()(" + args + "...)"
	case "rtfv":
		return f + ".ReturnTypeForValues(" + args + ")"
	}
	return f + ".ReturnType(/* the types of */ " + args + ")"
}

// c10RunEntry runs one entry point; the answer is in the format of c10Answer.
func c10RunEntry(f function.Function, o *c10Obs, entry string, args []cty.Value) (ans string, panicked bool, why string, val cty.Value, err error) {
	var ty cty.Type
	panicked, why = try(func() {
		switch entry {
		case "call":
			val, err = f.Call(args)
		case "proxy":
			val, err = f.Proxy()(args...)
		case "rtfv":
			ty, err = f.ReturnTypeForValues(args)
		default:
			tys := make([]cty.Type, len(args))
			for i, a := range args {
				tys[i] = a.Type()
			}
			ty, err = f.ReturnType(tys)
		}
	})
	okStr := ""
	if !panicked && err == nil {
		if entry == "call" || entry == "proxy" {
			okStr = encVal(val)
		} else {
			okStr = encTy(ty)
		}
	}
	return c10Answer(c10Outcome(panicked, err, okStr), o), panicked, why, val, err
}

func c10WrapRun(ctx *Ctx, c *c10Case, ws []c10Wrapper, entry string) {
	sw := c.specWire()
	argsW := c10Vals(c.args)
	wsW := c10WrappersWire(ws)
	key := strings.Join(sw, " ") + " " + c.implWire() + " " + argsW + " " + wsW + " " + entry
	kind := c10WrappersKind(ws)
	lit := c.goLitWrapped(ws, entry)
	fail := func(site, sig, what, outc string) {
		ctx.Fail(Failure{Site: site, Sig: sig, What: what, Input: key, GoLit: lit, Outcome: outc})
	}
	ctx.Tag("d10-entry:" + entry)
	ctx.Tag("d10-wrappers:" + kind)

	var o c10Obs
	f := c.build(&o)
	accepted, unpred := true, false
	for _, w := range ws {
		if w.unpred {
			unpred = true
		} else if !(w.n == len(c.params) || (c.vp != nil && w.n == len(c.params)+1)) {
			accepted = false
		}
	}
	cur := f
	consPanicked, _ := try(func() {
		for _, w := range ws {
			if w.unpred {
				cur = function.Unpredictable(cur)
			} else {
				cur = cur.WithNewDescriptions("d", make([]string, w.n))
			}
		}
	})
	if consPanicked {
		ctx.Add("fn.wrap", "panic |", sw[0], sw[1], sw[2], sw[3], c.implWire(), argsW, wsW, entry)
		ctx.Tag("d10-outcome:constructor-panic")
		if accepted {
			fail("redescribe-same-protocol", "redesc-panics", "a wrapper constructor panicked on an admissible number of descriptions", wsW)
		}
		ctx.Eval(key, true)
		return
	}
	if !accepted {
		fail("redescribe-same-protocol", "redesc-accepts-wrong-count", "WithNewDescriptions accepted a wrong number of descriptions", wsW)
	}
	ans, panicked, why, val, err := c10RunEntry(cur, &o, entry, c.args)
	ctx.Add("fn.wrap", ans, sw[0], sw[1], sw[2], sw[3], c.implWire(), argsW, wsW, entry)
	outcome := strings.SplitN(ans, " ", 2)[0]
	ctx.Tag("d10-outcome:" + outcome)

	typeRan := len(o.typeSeen) > 0
	implRan := len(o.implSeen) > 0
	valued := entry == "call" || entry == "proxy"

	// (1) a panic of the Type callback comes back as an error, whatever the entry point and the wrappers
	if typeRan && c.tf == "panic" {
		ctx.Tag("d10-class:type-panicked:" + entry + ":" + kind)
		if outcome != "panicerr" {
			fail("panics-become-errors", "type-panic-escapes:"+entry+":"+kind, "the Type callback panicked and the entry point did not answer a PanicError", ans+" "+why)
		}
	}
	// (2) no Go panic without a RefineResult declaration being involved
	if panicked && !(valued && c.refine != "none" && o.refineSeen > 0) {
		fail("panics-become-errors", "go-panic:"+entry+":"+kind, "an entry point let a Go panic escape", why)
	}
	if !valued && (implRan || o.refineSeen > 0) {
		fail("impl-only-after-type", "rtfv-ran-impl", "a type-level entry point invoked Impl or RefineResult", string(o.order))
	}
	// (3) the wrapped function type-checks as the original
	if !valued {
		var ob c10Obs
		base := c.build(&ob)
		bans, _, _, _, _ := c10RunEntry(base, &ob, entry, c.args)
		if bans != ans {
			fail("wrappers-keep-type-checking", "wrapped-typecheck-differs:"+kind, "the wrapped function answers ReturnType(ForValues) differently from the original", ans+"  vs  "+bans)
		}
	}
	// (4) Unpredictable
	if unpred {
		if implRan {
			fail("unpredictable-unknown", "unpredictable-ran-impl", "the Impl of the original function ran through an Unpredictable wrapper", string(o.order))
		}
		if valued && !panicked && err == nil {
			ctx.Tag("d10-class:unpredictable-ok")
			checked := cty.DynamicPseudoType
			if typeRan && c.tf == "ok" {
				checked = c.tfTy
			}
			if val.IsKnown() {
				fail("unpredictable-unknown", "unpredictable-known-result", "Call on an Unpredictable function returned a known value", ans)
			}
			if !val.Type().Equals(checked) {
				fail("unpredictable-unknown", "unpredictable-type", "Call on an Unpredictable function returned a value whose type is not the checked return type", ans+" checked "+encTy(checked))
			}
			have := val.Marks()
			for i, a := range c.args {
				if p := c.paramFor(i); p != nil && !p.m {
					_, ms := a.UnmarkDeep()
					for m := range ms {
						if _, ok := have[m]; !ok {
							fail("shortcircuit-carries-marks", "unpredictable-lost-mark", "the result of an Unpredictable function lacks a mark of an argument whose parameter has no AllowMarked", ans)
						}
					}
				}
			}
		}
	} else if valued {
		// (5) only re-described: behaves as the original
		var ob c10Obs
		base := c.build(&ob)
		bans, _, _, _, _ := c10RunEntry(base, &ob, "call", c.args)
		if bans != ans {
			fail("redescribe-same-protocol", "redesc-differs:"+entry, "the re-described function (or its proxy) behaves differently from the original's Call", ans+"  vs  "+bans)
		}
	}
	// (6) the seeded change "refinement gated on the checked type": a typed value of Impl under a placeholder checked type
	if valued && !unpred && c.refine == "notnull" && implRan && c.tf == "ok" && c.tfTy == cty.DynamicPseudoType && c.impl == "ok" &&
		(c.implVal.IsKnown() || c.implVal.Type() != cty.DynamicPseudoType) {
		ctx.Tag("d10-class:placeholder-checked-type-typed-result")
		if o.refineSeen != 1 {
			fail("refinement-applied", "refine-not-invoked:placeholder-checked-type", "RefineResult was not invoked for a typed result although the checked type is the placeholder", string(o.order))
		}
	}
	ctx.Eval(key, len(ws) > 0 || entry != "call")
}

var c10Entries = []string{"call", "proxy", "rtfv", "rt"}

func c10D10(ctx *Ctx) {
	pickTy := func() cty.Type { return c10Tys[ctx.R.Intn(len(c10Tys))] }
	mkCase := func(params []c10Param, vp *c10Param, classes []int) *c10Case {
		c := &c10Case{params: params, vp: vp, refine: "none", tf: "ok", tfTy: cty.String, impl: "ok", implVal: cty.StringVal("r"), how: "d10"}
		for i, cl := range classes {
			t := cty.String
			if i < len(params) {
				t = params[i].ty
			} else if vp != nil {
				t = vp.ty
			}
			c.args = append(c.args, c10ClassVal(t, cl))
		}
		return c
	}
	chains := func(np int, variadic bool) [][]c10Wrapper {
		ok := c10Wrapper{n: np}
		ok2 := ok
		if variadic {
			ok2 = c10Wrapper{n: np + 1}
		}
		bad := c10Wrapper{n: np + 2}
		u := c10Wrapper{unpred: true}
		return [][]c10Wrapper{{}, {u}, {ok}, {ok2}, {bad}, {u, ok}, {ok2, u}, {u, u}, {ok, u, ok2}, {u, bad}}
	}
	tfMenu := []struct {
		tf string
		ty cty.Type
	}{{"panic", cty.NilType}, {"ok", cty.String}, {"ok", cty.DynamicPseudoType}, {"err", cty.NilType}}
	n := 0
	// (D1) enumerated: Type behaviour x wrapper chain x entry point x (no parameter | one parameter, flags x class sampled)
	for _, tfm := range tfMenu {
		for _, rf := range []string{"none", "notnull"} {
			for _, variadic := range []bool{false, true} {
				for ci, ch := range chains(1, variadic) {
					for _, entry := range c10Entries {
						reps := ctx.N(6, 60)
						for j := 0; j < reps; j++ {
							var vp *c10Param
							nargs := 1
							if variadic {
								p := c10Flags(ctx.R.Intn(16), pickTy())
								vp = &p
								nargs = 1 + ctx.R.Intn(3)
							}
							classes := make([]int, nargs)
							for k := range classes {
								// mostly acceptable arguments so that the Type callback is reached
								if ctx.R.Intn(3) == 0 {
									classes[k] = ctx.R.Intn(c10Classes)
								} else {
									classes[k] = []int{0, 5, 3}[ctx.R.Intn(3)]
								}
							}
							c := mkCase([]c10Param{c10Flags(ctx.R.Intn(16), pickTy())}, vp, classes)
							c.tf, c.tfTy, c.refine = tfm.tf, tfm.ty, rf
							menu := c10ImplMenu(cty.String)
							if tfm.tf == "ok" {
								menu = c10ImplMenu(tfm.ty)
							}
							switch k := ctx.R.Intn(len(menu) + 2); {
							case k < len(menu):
								c.implVal = menu[k]
							case k == len(menu):
								c.impl = "err"
							default:
								c.impl = "panic"
							}
							_ = ci
							c10WrapRun(ctx, c, ch, entry)
							n++
						}
					}
				}
			}
		}
	}
	// no parameters at all: every chain x entry x Type behaviour
	for _, tfm := range tfMenu {
		for _, ch := range chains(0, false) {
			for _, entry := range c10Entries {
				c := mkCase(nil, nil, nil)
				c.tf, c.tfTy = tfm.tf, tfm.ty
				c10WrapRun(ctx, c, ch, entry)
				n++
			}
		}
	}
	// (D2) random chains on random small specs
	for i := 0; i < ctx.N(3000, 60000); i++ {
		np := ctx.R.Intn(3)
		params := make([]c10Param, np)
		for j := range params {
			params[j] = c10Flags(ctx.R.Intn(16), pickTy())
		}
		var vp *c10Param
		nargs := np
		if ctx.R.Intn(2) == 0 {
			p := c10Flags(ctx.R.Intn(16), pickTy())
			vp = &p
			nargs += ctx.R.Intn(3)
		}
		classes := make([]int, nargs)
		for k := range classes {
			if ctx.R.Intn(2) == 0 {
				classes[k] = ctx.R.Intn(c10Classes)
			}
		}
		c := mkCase(params, vp, classes)
		tfm := tfMenu[ctx.R.Intn(len(tfMenu))]
		c.tf, c.tfTy = tfm.tf, tfm.ty
		if ctx.R.Intn(3) == 0 {
			c.refine = "notnull"
		}
		if tfm.tf == "ok" {
			menu := c10ImplMenu(tfm.ty)
			c.implVal = menu[ctx.R.Intn(len(menu))]
		}
		var ws []c10Wrapper
		for k := ctx.R.Intn(4); k > 0; k-- {
			switch ctx.R.Intn(5) {
			case 0, 1:
				ws = append(ws, c10Wrapper{unpred: true})
			case 2:
				ws = append(ws, c10Wrapper{n: ctx.R.Intn(np + 3)})
			default:
				w := c10Wrapper{n: np}
				if vp != nil && ctx.R.Intn(2) == 0 {
					w.n = np + 1
				}
				ws = append(ws, w)
			}
		}
		c10WrapRun(ctx, c, ws, c10Entries[ctx.R.Intn(len(c10Entries))])
		n++
	}
	ctx.res.Scope += fmt.Sprintf("; wrappers x entry points (fn.wrap): 4 Type behaviours x 2 RefineResult x 10 wrapper chains (WithNewDescriptions with admissible/inadmissible counts, Unpredictable, mixed, up to 3 deep) x 4 entry points (Call, Proxy, ReturnTypeForValues, ReturnType) on one parameter with/without a variadic one (flags, classes sampled), the same on no parameters, plus random chains on random specs = %d cases", n)
}
