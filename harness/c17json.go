package main

// C17, JSON half — decoders are safe on arbitrary input.
//
// Decoders under test (real code, /repo): ctyjson.Unmarshal, ctyjson.ImpliedType,
// ctyjson.UnmarshalType and (*cty.Type).UnmarshalJSON.
//
// Inputs: valid documents (ctyjson.Marshal of generated values against constraints with
// placeholders at any position; ctyjson.MarshalType of generated types) -> 1..4 token / byte
// mutations (c17json_mut.go) + raw random bytes + hand-written regression and finding families;
// target types equal to / related to / unrelated to the constraint of the original.
//
// Predicate = the property: (1) no panic, no crash (deep-recursion families run in a worker
// sub-process of this binary: a fatal error is an observation); (2) a returned value passes C06's
// public-accessor walk and the Lean judge Value.WF, TestConformance(target) is empty and its type
// carries no optional-attribute annotation; a returned type is usable (Equals itself, optional ⊆
// declared, names NFC, survives MarshalType/UnmarshalType); (3) allocation: TotalAlloc delta around
// the call <= c17jAllocK*len(input) + c17jAllocC.
//
// Correspondence: when the bytes lex as ONE JSON value (jsonTreeOfBytes) the outcome ok <value> /
// err / panic of the real code is compared with the Lean model through the C15 driver ops
// json.unmarshal / json.implied / ty.ofjson (type documents also inside a dynamic wrapper, which
// exercises Ty.ofJson under the NFC oracle).
//
// runC17Json(ctx) is what the C17 runner calls; "C17j" is a stand-alone id for this half.

import (
	"bytes"
	"encoding/json"
	"fmt"
	"os"
	"os/exec"
	"regexp"
	"runtime"
	"sort"
	"strings"
	"time"

	"github.com/zclconf/go-cty/cty"
	ctyjson "github.com/zclconf/go-cty/cty/json"
)

// allocation bound of the rule: generous; calibrated on flat documents (the dearest flat shape, a
// set of one-digit numbers, costs ~1900 bytes per input byte: every element gets its own
// json.Decoder with a 512-byte read buffer, a 512-bit big.Float and a path copy)
const (
	c17jAllocK = 4096
	c17jAllocC = 1 << 16
)

const c17jRule = "valid JSON encodings (json.Marshal of values generated to depth 3/4 against constraints with placeholders at any position; json.MarshalType of generated types " +
	"incl. optional attributes) with 1..4 mutations drawn from: bit flip, byte insert/delete, truncation, delimiter swap, slice duplication, duplicate key, drop/rename a member " +
	"(\"type\"/\"value\" of dynamic wrappers first), array length change, scalar<->container, splice of a fragment of another document, dynamic (un)wrapping, numbers with huge " +
	"exponents (1e999999999, 1e2147483648, ...) and 400..5000-digit mantissas, non-NFC / invalid-UTF-8 / surrogate-escape strings and keys; plus raw random bytes; nesting 10^3 " +
	"(quick) .. 10^5 (thorough); x target types equal to, related to (mutateTy, weakened, the value's own type) or unrelated to the original constraint. Per (bytes, type): " +
	"json.Unmarshal, json.ImpliedType, and for type documents json.UnmarshalType / (*cty.Type).UnmarshalJSON, each under recover with a TotalAlloc measurement; " +
	"bound: alloc <= 4096*len(input) + 65536 bytes. non-trivial = at least one mutation applied or raw bytes (not a pristine encoding); distinct = distinct (bytes, target type)"

func init() {
	c17jWorkerMain()
	register("C17j", c17jRule, runC17Json)
}

// ---- running one decoder ------------------------------------------------------------------

type c17jRes struct {
	out   string // ok | err | panic
	why   string
	alloc uint64
	v     cty.Value
	t     cty.Type
}

func c17jMeasure(f func() error) (out, why string, alloc uint64) {
	var m0, m1 runtime.MemStats
	runtime.ReadMemStats(&m0)
	var err error
	p, w := try(func() { err = f() })
	runtime.ReadMemStats(&m1)
	alloc = m1.TotalAlloc - m0.TotalAlloc
	switch {
	case p:
		return "panic", w, alloc
	case err != nil:
		return "err", err.Error(), alloc
	}
	return "ok", "", alloc
}

type c17j struct {
	ctx   *Ctx
	judge *c06Judge
	pool  [][]byte // fragments of other documents for splicing
	maxR  float64  // largest alloc / (len+16) ratio seen on generated cases (diagnostics)
}

func c17jLit(fn string, b []byte, t cty.Type) string {
	s := fmt.Sprintf("%q", b)
	if len(s) > 600 {
		s = s[:300] + "…" + s[len(s)-200:]
	}
	if t == cty.NilType {
		return fmt.Sprintf("%s([]byte(%s))", fn, s)
	}
	return fmt.Sprintf("%s([]byte(%s), %#v)", fn, s, t)
}

func c17jShort(b []byte) string {
	s := string(b)
	if len(s) > 300 {
		s = fmt.Sprintf("%s…(%d bytes)…%s", s[:150], len(s), s[len(s)-100:])
	}
	return fmt.Sprintf("%q", s)
}

// nesting depth of brackets outside strings
func c17jDepth(b []byte) int {
	d, m, inStr, esc := 0, 0, false, false
	for _, c := range b {
		switch {
		case inStr:
			switch {
			case esc:
				esc = false
			case c == '\\':
				esc = true
			case c == '"':
				inStr = false
			}
		case c == '"':
			inStr = true
		case c == '[' || c == '{':
			d++
			if d > m {
				m = d
			}
		case c == ']' || c == '}':
			if d > 0 {
				d--
			}
		}
	}
	return m
}

func c17jValueNodes(v cty.Value) int {
	n := 0
	var rec func(v cty.Value)
	rec = func(v cty.Value) {
		n++
		v, _ = v.Unmark()
		if !v.IsKnown() || v.IsNull() {
			return
		}
		if ty := v.Type(); ty.IsListType() || ty.IsSetType() || ty.IsMapType() || ty.IsTupleType() || ty.IsObjectType() {
			for it := v.ElementIterator(); it.Next(); {
				_, ev := it.Element()
				rec(ev)
			}
		}
	}
	try(func() { rec(v) })
	return n
}

// allocCause names the ROOT CAUSE of an allocation beyond the linear bound, from what was observed:
//
//	quadratic-in-nesting-depth   the document is nested >= 64 deep and the allocation is within the
//	                             bound multiplied by the depth: cty/json re-buffers the rest of the
//	                             document at every nesting level (readRawValue + a fresh json.Decoder
//	                             per level; a path copy per level)
//	value-larger-than-document   the decoder returned a value with more nodes than the document has
//	                             bytes and the allocation is within 1024 bytes per value node: object
//	                             attributes the document does not mention are filled with nulls
//	decimal-expansion-of-huge-exponent
//	                             the document holds number literals with decimal exponents of magnitude
//	                             >= 10^4 and the allocation is within 64 bytes per unit of exponent: a set
//	                             member is hashed through big.Float.String(), which expands the number
//	                             in decimal (~16 bytes and super-linear time per unit of exponent)
//	set-of-compound-members-ordered-by-hash-at-every-traversal
//	                             the decoded value's type holds a set whose members are not primitive and
//	                             the allocation is within 32 times the bound: every traversal of such a set
//	                             (set.Values) sorts the members with setRules.Less, which for non-primitive
//	                             members builds the hash text of BOTH operands of every comparison
//	                             (n log n hash texts of whole members per traversal, several traversals per
//	                             nesting level).  The EXPONENTIAL cost in the nesting depth that SetVal's
//	                             unconditional UnmarkDeep added on top was repaired (nested-singleton-sets family).
//	unexpected                   anything else (never matches a recorded finding)
func c17jAllocCause(b []byte, r c17jRes) string {
	limit := uint64(c17jAllocK)*uint64(len(b)) + c17jAllocC
	if d := c17jDepth(b); d >= 64 && r.alloc <= limit*uint64(d) {
		return "quadratic-in-nesting-depth"
	}
	if e := c17jSumExponents(b); e >= 10000 && r.alloc <= 64*e+limit {
		return "decimal-expansion-of-huge-exponent"
	}
	if r.out == "ok" && r.v != cty.NilVal {
		if n := c17jValueNodes(r.v); n > len(b) && r.alloc <= uint64(n)*1024+limit {
			return "value-larger-than-document"
		}
		if c17jHasSetOfCompound(r.v.Type()) && r.alloc <= 32*limit {
			return "set-of-compound-members-ordered-by-hash-at-every-traversal"
		}
	}
	return "unexpected"
}

// c17jHasSetOfCompound: the type holds a set whose element type is not primitive — the members of such
// a set are ordered by setRules.Less through makeSetHashBytes of BOTH operands of every comparison
func c17jHasSetOfCompound(t cty.Type) bool {
	switch {
	case t.IsSetType():
		if e := t.ElementType(); !e.IsPrimitiveType() {
			return true
		}
		return false
	case t.IsListType() || t.IsMapType():
		return c17jHasSetOfCompound(t.ElementType())
	case t.IsTupleType():
		for _, e := range t.TupleElementTypes() {
			if c17jHasSetOfCompound(e) {
				return true
			}
		}
	case t.IsObjectType():
		for _, e := range t.AttributeTypes() {
			if c17jHasSetOfCompound(e) {
				return true
			}
		}
	}
	return false
}

var c17jExpRe = regexp.MustCompile(`[0-9][eE][+-]?([0-9]{1,18})`)

// sum of the magnitudes of the decimal exponents spelled in the document (numbers or numeric strings)
func c17jSumExponents(b []byte) uint64 {
	var sum uint64
	for _, m := range c17jExpRe.FindAllSubmatch(b, -1) {
		var e uint64
		fmt.Sscanf(string(m[1]), "%d", &e)
		if e < 1<<31 {
			sum += e
		}
	}
	return sum
}

func (j *c17j) allocCheck(dec string, b []byte, t cty.Type, r c17jRes) {
	j.allocCheckLit(dec, b, r, func() (string, string) { return c17jShort(b) + " " + c17jTyWire(t), c17jLit(dec, b, t) })
}

// allocCheckLit: lit gives (wire input, Go literal) lazily — the hand-made families have types that are too deep to print
func (j *c17j) allocCheckLit(dec string, b []byte, r c17jRes, lit func() (string, string)) {
	limit := uint64(c17jAllocK)*uint64(len(b)) + c17jAllocC
	if ratio := float64(r.alloc) / float64(len(b)+16); ratio > j.maxR {
		j.maxR = ratio
	}
	if r.alloc <= limit {
		return
	}
	in, golit := lit()
	j.ctx.Fail(Failure{Site: "alloc", Sig: dec + ":" + c17jAllocCause(b, r),
		What:  fmt.Sprintf("%s allocated %d bytes for a %d-byte input: more than %d*len+%d", dec, r.alloc, len(b), c17jAllocK, c17jAllocC),
		Input: in, GoLit: golit, Outcome: fmt.Sprintf("%s alloc=%d len=%d depth=%d", r.out, r.alloc, len(b), c17jDepth(b))})
}

func c17jTyWire(t cty.Type) string {
	if t == cty.NilType {
		return "-"
	}
	w := "?"
	try(func() { w = encTy(t) })
	return w
}

func (j *c17j) panicFail(dec string, b []byte, t cty.Type, r c17jRes) {
	why := c17jPanicSig(r.why)
	j.ctx.Fail(Failure{Site: "no-panic", Sig: dec + ":" + why, What: dec + " panics on this input: " + r.why,
		Input: c17jShort(b) + " " + c17jTyWire(t), GoLit: c17jLit(dec, b, t), Outcome: "panic: " + r.why})
}

var c17jQuoted = regexp.MustCompile(`"[^"]*"|[0-9]+`)

// c17jPanicSig: the panic message without the parts that depend on the input (quoted names, numbers)
func c17jPanicSig(why string) string {
	why = c17jQuoted.ReplaceAllString(why, "_")
	if len(why) > 80 {
		why = why[:80]
	}
	return why
}

// ---- the value decoder ----------------------------------------------------------------------

func (j *c17j) unmarshal(b []byte, t cty.Type, corr bool) c17jRes {
	var r c17jRes
	r.out, r.why, r.alloc = c17jMeasure(func() error {
		var err error
		r.v, err = ctyjson.Unmarshal(b, t)
		return err
	})
	ctx := j.ctx
	ctx.Tag("json.Unmarshal:" + r.out)
	j.allocCheck("json.Unmarshal", b, t, r)
	switch r.out {
	case "panic":
		j.panicFail("json.Unmarshal", b, t, r)
	case "ok":
		v := r.v
		if v == cty.NilVal {
			ctx.Fail(Failure{Site: "result", Sig: "json.Unmarshal:nil-value-without-error", What: "Unmarshal returned cty.NilVal and a nil error",
				Input: c17jShort(b) + " " + c17jTyWire(t), GoLit: c17jLit("json.Unmarshal", b, t), Outcome: "NilVal"})
			break
		}
		// conforms to the requested type
		var errs []error
		if p, why := try(func() { errs = v.Type().TestConformance(t) }); p || len(errs) != 0 {
			ctx.Fail(Failure{Site: "conforms", Sig: "json.Unmarshal:result-type-does-not-conform", What: "the type of the decoded value does not conform to the requested type " + why,
				Input: c17jShort(b) + " " + c17jTyWire(t), GoLit: c17jLit("json.Unmarshal", b, t), Outcome: c17jTyWire(v.Type())})
		}
		if p, _ := try(func() {
			if !v.Type().Equals(v.Type().WithoutOptionalAttributesDeep()) {
				ctx.Fail(Failure{Site: "decoded-type", Sig: "json.Unmarshal:optional-annotations-in-value-type", What: "the decoded value's type carries optional-attribute annotations",
					Input: c17jShort(b) + " " + c17jTyWire(t), GoLit: c17jLit("json.Unmarshal", b, t), Outcome: c17jTyWire(v.Type())})
			}
		}); p {
			ctx.Fail(Failure{Site: "decoded-type", Sig: "json.Unmarshal:type-methods-panic", What: "Type().Equals panics on the decoded value's type",
				Input: c17jShort(b) + " " + c17jTyWire(t), GoLit: c17jLit("json.Unmarshal", b, t), Outcome: "panic"})
		}
		// well-formed: C06's accessor walk + the Lean judge
		bb, tt := b, t
		j.judge.see("json.Unmarshal", v, func() string { return c17jLit("json.Unmarshal", bb, tt) })
	}
	if corr {
		j.corrUnmarshal(b, t, r)
	}
	return r
}

// NFC collisions between DISTINCT keys of one object: the real constructors (cty.Object, MapVal)
// range over a Go map, so which member survives is not determined (recorded under C20); the model
// is compared only away from them.
func c17jKeyCollision(b []byte) bool {
	dec := json.NewDecoder(bytes.NewReader(b))
	dec.UseNumber()
	type frame struct {
		obj  bool
		key  bool
		seen map[string]string
	}
	var st []*frame
	for {
		tok, err := dec.Token()
		if err != nil {
			return false
		}
		top := func() *frame {
			if len(st) == 0 {
				return nil
			}
			return st[len(st)-1]
		}
		if d, ok := tok.(json.Delim); ok {
			switch d {
			case '{':
				st = append(st, &frame{obj: true, key: true, seen: map[string]string{}})
			case '[':
				st = append(st, &frame{})
			default:
				st = st[:len(st)-1]
				if f := top(); f != nil && f.obj {
					f.key = true
				}
			}
			continue
		}
		f := top()
		if f == nil || !f.obj {
			continue
		}
		if f.key {
			k, _ := tok.(string)
			n := cty.NormalizeString(k)
			if prev, ok := f.seen[n]; ok && prev != k {
				return true
			}
			f.seen[n] = k
			f.key = false
		} else {
			f.key = true
		}
	}
}

func (j *c17j) corrUnmarshal(b []byte, t cty.Type, r c17jRes) {
	if len(b) > 1<<16 {
		return
	}
	tree := jsonTreeOfBytes(b)
	if tree == "BAD" {
		j.ctx.Tag("lex:bad")
		return
	}
	j.ctx.Tag("lex:one-value")
	if c17jKeyCollision(b) {
		j.ctx.Tag("corr-skipped:nfc-key-collision")
		return
	}
	tw := c17jTyWire(t)
	impl := r.out
	tb := newC15tbl()
	tb.addDoc(b)
	if r.out == "ok" {
		if p, _ := try(func() { impl = "ok " + encVal(r.v); tb.addVal(r.v) }); p {
			return
		}
	} else if strings.Contains(tw, "(E ") || strings.Contains(tw, "D") {
		tb.addSetMembersOfDoc(b, t, 0)
	}
	j.ctx.Add("json.unmarshal", impl, tb.String(), tree, tw)
}

// ---- ImpliedType ----------------------------------------------------------------------------

// usable: what "a well-formed type" means through the public API
func c17jTypeProblem(t cty.Type) string {
	prob := ""
	if p, why := try(func() {
		if t == cty.NilType {
			prob = "nil-type-without-error"
			return
		}
		if !t.Equals(t) {
			prob = "not-equal-to-itself"
			return
		}
		if !tyNamesNFC(t) {
			prob = "attribute-name-not-nfc"
			return
		}
		if w := c17jOptionalUndeclared(t); w != "" {
			prob = "optional-attribute-not-declared"
			return
		}
		if c17jTyDepth(t) > 200 {
			return // printing and re-marshalling a very deep type is quadratic in the depth: not the decoder's cost
		}
		_ = t.FriendlyName()
		_ = t.GoString()
		b, err := ctyjson.MarshalType(t)
		if err != nil {
			prob = "marshaltype-fails"
			return
		}
		t2, err := ctyjson.UnmarshalType(b)
		if err != nil || !t2.Equals(t) {
			prob = "marshaltype-roundtrip"
		}
	}); p {
		prob = "type-methods-panic:" + why
	}
	return prob
}

func c17jTyDepth(t cty.Type) int {
	d := 0
	for {
		switch {
		case t.IsListType() || t.IsSetType() || t.IsMapType():
			t = t.ElementType()
			d++
			continue
		case t.IsTupleType():
			m := 0
			for _, e := range t.TupleElementTypes() {
				if x := c17jTyDepth(e); x > m {
					m = x
				}
			}
			return d + 1 + m
		case t.IsObjectType():
			m := 0
			for _, e := range t.AttributeTypes() {
				if x := c17jTyDepth(e); x > m {
					m = x
				}
			}
			return d + 1 + m
		}
		return d
	}
}

func c17jOptionalUndeclared(t cty.Type) string {
	switch {
	case t.IsListType() || t.IsSetType() || t.IsMapType():
		return c17jOptionalUndeclared(t.ElementType())
	case t.IsTupleType():
		for _, e := range t.TupleElementTypes() {
			if w := c17jOptionalUndeclared(e); w != "" {
				return w
			}
		}
	case t.IsObjectType():
		for k := range t.OptionalAttributes() {
			if !t.HasAttribute(k) {
				return k
			}
		}
		for _, k := range sortedKeys(t.AttributeTypes()) {
			if w := c17jOptionalUndeclared(t.AttributeType(k)); w != "" {
				return w
			}
		}
	}
	return ""
}

func (j *c17j) implied(b []byte, corr bool) c17jRes {
	var r c17jRes
	r.out, r.why, r.alloc = c17jMeasure(func() error {
		var err error
		r.t, err = ctyjson.ImpliedType(b)
		return err
	})
	ctx := j.ctx
	ctx.Tag("json.ImpliedType:" + r.out)
	j.allocCheck("json.ImpliedType", b, cty.NilType, r)
	switch r.out {
	case "panic":
		j.panicFail("json.ImpliedType", b, cty.NilType, r)
	case "ok":
		prob := c17jTypeProblem(r.t)
		if prob == "" && tyHasOptional(r.t) {
			prob = "optional-annotations-in-implied-type"
		}
		if prob != "" {
			ctx.Fail(Failure{Site: "implied-type", Sig: "json.ImpliedType:" + prob, What: "ImpliedType returned a type that is not usable: " + prob,
				Input: c17jShort(b), GoLit: c17jLit("json.ImpliedType", b, cty.NilType), Outcome: c17jTyWire(r.t)})
		}
	}
	if corr && len(b) <= 1<<16 && json.Valid(b) {
		// (jsonTreeOfBytes accepts trailing bytes that do not lex; ImpliedType looks past the value)
		if tree := jsonTreeOfBytes(b); tree != "BAD" && !c17jKeyCollision(b) {
			impl := r.out
			if r.out == "ok" {
				impl = "ok " + c17jTyWire(r.t)
			}
			tb := newC15tbl()
			tb.addDoc(b)
			// the model WITH the nesting limit of /repo 0c63e6a (lean/CtyModel/d17JsonDepth.lean)
			ctx.Add("d17.jsonimplied", impl, tb.String(), tree)
		}
	}
	return r
}

// ---- the type decoder -----------------------------------------------------------------------

func c17jAllNFC(b []byte) bool {
	dec := json.NewDecoder(bytes.NewReader(b))
	for {
		tok, err := dec.Token()
		if err != nil {
			return true
		}
		if s, ok := tok.(string); ok && cty.NormalizeString(s) != s {
			return false
		}
	}
}

func (j *c17j) typeDoc(b []byte, corr bool) c17jRes {
	ctx := j.ctx
	var r c17jRes
	r.out, r.why, r.alloc = c17jMeasure(func() error {
		var err error
		r.t, err = ctyjson.UnmarshalType(b)
		return err
	})
	ctx.Tag("json.UnmarshalType:" + r.out)
	j.allocCheck("json.UnmarshalType", b, cty.NilType, r)
	// the method itself (what encoding/json calls): same answer expected
	var r2 c17jRes
	r2.out, r2.why, r2.alloc = c17jMeasure(func() error { return (&r2.t).UnmarshalJSON(b) })
	j.allocCheck("Type.UnmarshalJSON", b, cty.NilType, r2)
	for _, x := range []struct {
		dec string
		r   c17jRes
	}{{"json.UnmarshalType", r}, {"Type.UnmarshalJSON", r2}} {
		switch x.r.out {
		case "panic":
			j.panicFail(x.dec, b, cty.NilType, x.r)
		case "ok":
			if prob := c17jTypeProblem(x.r.t); prob != "" {
				ctx.Fail(Failure{Site: "decoded-type", Sig: x.dec + ":" + prob, What: "the type decoder returned a type that is not usable: " + prob,
					Input: c17jShort(b), GoLit: c17jLit(x.dec, b, cty.NilType), Outcome: c17jTyWire(x.r.t)})
			}
		}
	}
	if !corr || len(b) > 1<<16 {
		return r
	}
	tree := jsonTreeOfBytes(b)
	if tree == "BAD" {
		ctx.Tag("lex:bad")
		return r
	}
	ctx.Tag("lex:one-value")
	if c17jKeyCollision(b) {
		ctx.Tag("corr-skipped:nfc-key-collision")
		return r
	}
	// (*Type).UnmarshalJSON is given exactly one JSON value by encoding/json; the model is of that call
	impl := r2.out
	if r2.out == "ok" {
		impl = "ok " + c17jTyWire(r2.t)
	}
	if !json.Valid(b) {
		return r // trailing bytes: encoding/json never hands such input to the method
	}
	if c17jAllNFC(b) {
		ctx.Add("ty.ofjson", impl, tree)
	}
	// … and under the NFC oracle, inside a dynamic wrapper
	wb := append(append([]byte(`{"type":`), b...), []byte(`,"value":null}`)...)
	j.unmarshal(wb, cty.DynamicPseudoType, true)
	return r
}

// ---- crash isolation: a worker sub-process of this binary -------------------------------------

// c17jWorkerMain: when C17J_WORKER is set this process is a worker: it builds the described input,
// runs one decoder and prints "<outcome> alloc=<n> len=<n>".  A fatal error (stack overflow, out of
// memory) ends it with a non-zero status, which the parent observes.
func c17jWorkerMain() {
	spec := os.Getenv("C17J_WORKER")
	if spec == "" {
		return
	}
	var dec, shape string
	var n int
	fmt.Sscanf(spec, "%s %s %d", &dec, &shape, &n)
	b := c17jFamily(shape, n)
	var r c17jRes
	r.out, r.why, r.alloc = c17jMeasure(func() error {
		var err error
		switch dec {
		case "implied":
			_, err = ctyjson.ImpliedType(b)
		case "type":
			_, err = ctyjson.UnmarshalType(b)
		case "simple":
			var sv ctyjson.SimpleJSONValue
			err = sv.UnmarshalJSON(b)
		default:
			_, err = ctyjson.Unmarshal(b, cty.DynamicPseudoType)
		}
		return err
	})
	fmt.Printf("%s alloc=%d len=%d\n", r.out, r.alloc, len(b))
	os.Exit(0)
}

// c17jFamily: the scalable hostile documents
func c17jFamily(shape string, n int) []byte {
	switch shape {
	case "open-arrays":
		return bytes.Repeat([]byte("["), n)
	case "arrays":
		return append(bytes.Repeat([]byte("["), n), bytes.Repeat([]byte("]"), n)...)
	case "objects":
		return append(append(bytes.Repeat([]byte(`{"a":`), n), '1'), bytes.Repeat([]byte("}"), n)...)
	case "dyn-wrappers":
		return append(append(bytes.Repeat([]byte(`{"type":"dynamic","value":`), n), []byte("null")...), bytes.Repeat([]byte("}"), n)...)
	case "type-lists":
		return append(append(bytes.Repeat([]byte(`["list",`), n), []byte(`"string"`)...), bytes.Repeat([]byte("]"), n)...)
	case "typed-lists": // {"type":["list",…["list","bool"]…],"value":[[…[]…]]}
		var sb bytes.Buffer
		sb.WriteString(`{"type":`)
		sb.Write(c17jFamily("type-lists", n))
		sb.WriteString(`,"value":`)
		sb.Write(c17jFamily("arrays", n))
		sb.WriteString(`}`)
		return sb.Bytes()
	}
	return nil
}

// runWorker: returns the worker's stdout line, whether it crashed, and the tail of its stderr
func c17jRunWorker(dec, shape string, n int, timeout time.Duration) (line string, crashed bool, stderrTail string) {
	cmd := exec.Command(os.Args[0])
	cmd.Env = append(os.Environ(), fmt.Sprintf("C17J_WORKER=%s %s %d", dec, shape, n), "GOMEMLIMIT=6GiB")
	var so, se bytes.Buffer
	cmd.Stdout, cmd.Stderr = &so, &se
	if err := cmd.Start(); err != nil {
		return "worker-did-not-start: " + err.Error(), false, ""
	}
	done := make(chan error, 1)
	go func() { done <- cmd.Wait() }()
	var err error
	select {
	case err = <-done:
	case <-time.After(timeout):
		cmd.Process.Kill()
		<-done
		return "timeout", false, ""
	}
	tail := se.String()
	if i := strings.Index(tail, "\n\n"); i > 0 {
		tail = tail[:i]
	}
	if len(tail) > 300 {
		tail = tail[:300]
	}
	return strings.TrimSpace(so.String()), err != nil, strings.TrimSpace(tail)
}

// ---- runner -----------------------------------------------------------------------------------

func runC17Json(ctx *Ctx) {
	j := &c17j{ctx: ctx, judge: &c06Judge{ctx: ctx, seen: map[string]struct{}{}}}
	t0 := time.Now()
	phase := func(name string) {
		if os.Getenv("C17J_TRACE") != "" {
			fmt.Fprintf(os.Stderr, "C17J %s %.1fs\n", name, time.Since(t0).Seconds())
		}
		t0 = time.Now()
	}
	j.corpus()
	phase("corpus")
	j.families()
	phase("families")
	j.maxR = 0
	j.generated()
	phase("generated")
	j.judge.finish()
	phase("judge")
	ctx.Tag(fmt.Sprintf("max-alloc-per-input-byte-on-generated-cases:%d", int(j.maxR)))
	sort.Strings(ctx.res.Samples)
}

// (S) regression cases first: the minimal witnesses of every repaired JSON decoder defect
func (j *c17j) corpus() {
	ctx := j.ctx
	str := cty.String
	objA := cty.Object(map[string]cty.Type{"a": str})
	optA := cty.ObjectWithOptionalAttrs(map[string]cty.Type{"a": str}, []string{"a"})
	type vc struct {
		doc  string
		t    cty.Type
		want string // "" = anything but a panic; else the required outcome
		fix  string
	}
	for _, c := range []vc{
		// e63bbcc: members of different types under a dynamic element type
		{`[{"value":1,"type":"number"},{"value":"a","type":"string"}]`, cty.List(cty.DynamicPseudoType), "err", "e63bbcc"},
		{`[{"value":1,"type":"number"},{"value":"a","type":"string"}]`, cty.Set(cty.DynamicPseudoType), "err", "e63bbcc"},
		{`{"a":{"value":1,"type":"number"},"b":{"value":"a","type":"string"}}`, cty.Map(cty.DynamicPseudoType), "err", "e63bbcc"},
		{`[1,"a"]`, cty.List(cty.DynamicPseudoType), "err", "e63bbcc"},
		{`[null,[{"value":"a","type":"string"}]]`, cty.List(cty.List(cty.DynamicPseudoType)), "err", "e63bbcc"},
		// 4e1e2c6: too-short tuple reported at the tuple's own path
		{`[]`, cty.Tuple([]cty.Type{str}), "err", "4e1e2c6"},
		{`{"value":[],"type":["tuple",["string"]]}`, cty.DynamicPseudoType, "err", "4e1e2c6"},
		{`[[]]`, cty.List(cty.Tuple([]cty.Type{str})), "err", "4e1e2c6"},
		{`["a"]`, cty.Tuple([]cty.Type{str, str}), "err", "4e1e2c6"},
		{`["a","b","c"]`, cty.Tuple([]cty.Type{str, str}), "err", "4e1e2c6"},
		// 5aa0ac9: object keys are looked up in NFC form
		{"{\"e\u0301\":\"x\"}", cty.Object(map[string]cty.Type{"\u00e9": str}), "ok", "5aa0ac9"},
		{"{\"\u00e9\":null,\"e\u0301\":\"y\"}", cty.Object(map[string]cty.Type{"\u00e9": str}), "ok", "5aa0ac9"},
		// 5020d30 through the value decoder: an undeclared optional attribute in a type descriptor
		{`{"value":1,"type":["object",{"a":"string"},["b"]]}`, cty.DynamicPseudoType, "err", "5020d30"},
		{`{"value":null,"type":["object",{"a":"string"},["a","a"]]}`, cty.DynamicPseudoType, "ok", "5020d30"},
		// afdc0a2: no optional-attribute annotation in the type of a value
		{`{"type":["object",{"a":"string"},["a"]],"value":null}`, cty.DynamicPseudoType, "ok", "afdc0a2"},
		{`{"type":["list",["object",{"a":"string"},["a"]]],"value":[]}`, cty.DynamicPseudoType, "ok", "afdc0a2"},
		{`[{"type":["object",{"a":"string"},["a"]],"value":null},{"type":["object",{"a":"string"}],"value":{"a":"x"}}]`, cty.List(cty.DynamicPseudoType), "ok", "afdc0a2"},
		{`null`, optA, "ok", "afdc0a2"},
		{`[]`, cty.List(optA), "ok", "afdc0a2"},
		{`{}`, cty.Map(cty.Tuple([]cty.Type{optA})), "ok", "afdc0a2"},
		{`{}`, optA, "ok", "afdc0a2"},
		{`[{},null]`, cty.Set(optA), "", "afdc0a2"},
		{`null`, objA, "ok", ""},
	} {
		b := []byte(c.doc)
		r := j.unmarshal(b, c.t, true)
		ctx.Eval("corpus "+c.doc+" "+c17jTyWire(c.t), true)
		if c.want != "" && r.out != c.want {
			ctx.Fail(Failure{Site: "regression", Sig: "json.Unmarshal:" + c.fix + ":" + c.doc, What: "the witness of a repaired decoder defect (/repo " + c.fix + ") no longer gives " + c.want,
				Input: c.doc + " " + c17jTyWire(c.t), GoLit: c17jLit("json.Unmarshal", b, c.t), Outcome: r.out + " " + r.why})
		}
		j.implied(b, true)
	}
	// 5020d30 at the type decoder itself, and the shapes around it
	for _, c := range []struct{ doc, want string }{
		{`["object",{"a":"string"},["b"]]`, "err"},
		{`["object",{"a":"string"},["a","b"]]`, "err"},
		{`["object",{},["a"]]`, "err"},
		{`["object",null,["a"]]`, "err"},
		{`["object",{"a":"string"},["a"]]`, "ok"},
		{`["object",{"a":"string"},[]]`, "ok"},
		{`["object",{"a":"string"},null]`, "ok"},
		{`["object",{"a":"string"},[null]]`, "err"},
		{"[\"object\",{\"\u00e9\":\"string\"},[\"e\u0301\"]]", "ok"},
		{`["object",{"a":"string"},["a"],1]`, "err"},
		{`["tuple",null]`, "ok"},
		{`["list"]`, "err"},
		{`["list","string","string"]`, "err"},
		{`["map",["set",["list","dynamic"]]]`, "ok"},
		{`[]`, "err"}, {`[1]`, "err"}, {`{}`, "err"}, {`null`, "err"}, {`"object"`, "err"}, {`["capsule","x"]`, "err"},
	} {
		b := []byte(c.doc)
		r := j.typeDoc(b, true)
		ctx.Eval("corpus-type "+c.doc, true)
		if r.out != c.want {
			ctx.Fail(Failure{Site: "regression", Sig: "json.UnmarshalType:5020d30:" + c.doc, What: "a type document around the repaired defect /repo 5020d30 no longer gives " + c.want,
				Input: c.doc, GoLit: c17jLit("json.UnmarshalType", b, cty.NilType), Outcome: r.out + " " + r.why})
		}
	}
	// numbers whose exponents are far outside anything representable: cheap, and never a panic
	for _, s := range c17jHugeNumbers {
		for _, t := range []cty.Type{cty.Number, cty.String, cty.Bool, cty.DynamicPseudoType, cty.List(cty.Number)} {
			b := []byte(s)
			t0 := time.Now()
			r := j.unmarshal(b, t, len(s) < 2000)
			if d := time.Since(t0); d > 2*time.Second {
				ctx.Fail(Failure{Site: "time", Sig: "json.Unmarshal:huge-number-slow", What: fmt.Sprintf("decoding a %d-byte number took %v", len(s), d),
					Input: c17jShort(b), GoLit: c17jLit("json.Unmarshal", b, t), Outcome: r.out})
			}
			ctx.Eval("huge "+c17jShort(b)+" "+c17jTyWire(t), true)
			j.unmarshal([]byte(`"`+s+`"`), t, len(s) < 2000)
		}
		j.implied([]byte(s), len(s) < 2000)
	}
}

var c17jHugeNumbers = []string{"1e999999999", "-1e999999999", "1e-999999999", "1E+2147483647", "1e2147483648", "-1e-2147483649", "1e9223372036854775807",
	"1e9223372036854775808", "0e999999999999999999999", "1e1000000", "123456789e-1000000",
	strings.Repeat("9", 400) + "e-400", strings.Repeat("7", 5000), "0." + strings.Repeat("3", 5000), "-" + strings.Repeat("1", 2500) + "." + strings.Repeat("2", 2500) + "e-2500",
	"1" + strings.Repeat("0", 4000) + "e-4000"}

// the scalable families: the witnesses of the recorded findings (they must keep reproducing under
// their own signatures) and the deep-nesting inputs of the quantifier
func (j *c17j) families() {
	ctx := j.ctx
	tt := time.Now()
	tr := func(name string) {
		if os.Getenv("C17J_TRACE") != "" {
			fmt.Fprintf(os.Stderr, "C17J   %s %.1fs\n", name, time.Since(tt).Seconds())
		}
		tt = time.Now()
	}
	// (a) value larger than the document: k empty objects against an object type of w attributes
	// given in the document itself (Lean: C17.json_nodes_within_counterexample)
	bomb := func(w, k int) []byte {
		var sb bytes.Buffer
		sb.WriteString(`{"type":["list",["object",{`)
		for i := 0; i < w; i++ {
			if i > 0 {
				sb.WriteByte(',')
			}
			fmt.Fprintf(&sb, `"a%05d":"bool"`, i)
		}
		sb.WriteString(`}]],"value":[`)
		for i := 0; i < k; i++ {
			if i > 0 {
				sb.WriteByte(',')
			}
			sb.WriteString("{}")
		}
		sb.WriteString(`]}`)
		return sb.Bytes()
	}
	{
		w, k := ctx.N(600, 1500), ctx.N(600, 2000)
		b := bomb(w, k)
		r := j.unmarshalBig(b, cty.DynamicPseudoType, fmt.Sprintf("object-bomb w=%d k=%d", w, k),
			fmt.Sprintf("json.Unmarshal([]byte(`{\"type\":[\"list\",[\"object\",{\"a00000\":\"bool\",… %d attributes}]],\"value\":[{},… %d times]}`), cty.DynamicPseudoType)", w, k))
		ctx.Eval(fmt.Sprintf("family bomb %d %d", w, k), true)
		ctx.Tag("family:object-bomb:" + r.out)
		// the same width requested by the caller: the multiple is then a property of the TYPE, still beyond the bound
		atys := map[string]cty.Type{}
		for i := 0; i < w; i++ {
			atys[fmt.Sprintf("a%05d", i)] = cty.Bool
		}
		plain := []byte("[" + strings.TrimSuffix(strings.Repeat("{},", k), ",") + "]")
		j.unmarshalBig(plain, cty.List(cty.Object(atys)), fmt.Sprintf("object-bomb-typed w=%d k=%d", w, k),
			fmt.Sprintf("json.Unmarshal([]byte(`[{},… %d times]`), cty.List(cty.Object(map[string]cty.Type{\"a00000\": cty.Bool,… %d attributes})))", k, w))
	}
	tr("bomb")
	// (b) nesting: 10^3 in the quick tier, up to 10^5 in the thorough tier (beyond 10^4 encoding/json's
	// own depth limit answers for Unmarshal and UnmarshalType; ImpliedType uses the Token API, which has none)
	depths := []int{1000, 2000}
	if ctx.Thorough {
		depths = []int{1000, 2000, 5000, 10000, 100000}
	}
	for _, d := range depths {
		ty := cty.Bool
		if d <= 5000 {
			for i := 0; i < d; i++ {
				ty = cty.List(ty)
			}
			b := c17jFamily("arrays", d)
			r := j.unmarshalBig(b, ty, fmt.Sprintf("nested-lists depth=%d", d),
				fmt.Sprintf("t := cty.Bool; for i := 0; i < %d; i++ { t = cty.List(t) }; json.Unmarshal([]byte(strings.Repeat(\"[\", %d)+strings.Repeat(\"]\", %d)), t)", d, d, d))
			ctx.Tag(fmt.Sprintf("family:nested-lists-%d:%s", d, r.out))
		}
		if d <= 1000 || (ctx.Thorough && d <= 2000) || d > 10000 {
			b := c17jFamily("dyn-wrappers", d)
			r := j.unmarshalBig(b, cty.DynamicPseudoType, fmt.Sprintf("dyn-wrappers depth=%d", d),
				fmt.Sprintf("json.Unmarshal([]byte(strings.Repeat(`{\"type\":\"dynamic\",\"value\":`, %d)+\"null\"+strings.Repeat(\"}\", %d)), cty.DynamicPseudoType)", d, d))
			ctx.Tag(fmt.Sprintf("family:dyn-wrappers-%d:%s", d, r.out))
		}
		{
			b := c17jFamily("type-lists", d)
			var r c17jRes
			r.out, r.why, r.alloc = c17jMeasure(func() error {
				var err error
				r.t, err = ctyjson.UnmarshalType(b)
				return err
			})
			if r.out == "panic" {
				j.panicFail("json.UnmarshalType", b, cty.NilType, r)
			}
			j.allocCheck("json.UnmarshalType", b, cty.NilType, r)
			ctx.Tag(fmt.Sprintf("family:type-lists-%d:%s", d, r.out))
		}
		for _, shape := range []string{"arrays", "objects", "open-arrays"} {
			b := c17jFamily(shape, d)
			r := j.implied(b, false)
			ctx.Tag(fmt.Sprintf("family:implied-%s-%d:%s", shape, d, r.out))
		}
		ctx.Eval(fmt.Sprintf("family nesting %d", d), true)
		tr(fmt.Sprintf("nesting %d", d))
	}
	d17JsonDepthBoundary(ctx)
	tr("implied depth boundary")
	// (b') numbers whose decimal exponent is large but inside big.Float's range, as set members: the set
	// hash formats them (big.Float.String), which costs ~16 bytes and super-linear time per unit of exponent
	{
		nums := []string{"1e1000000"}
		if ctx.Thorough {
			nums = []string{"1e1000000", "1e10000000", "1e-100000"}
		}
		for _, s := range nums {
			b := []byte("[" + s + "]")
			t0 := time.Now()
			r := j.unmarshalBig(b, cty.Set(cty.Number), "huge-exponent-set-member", c17jLit("json.Unmarshal", b, cty.Set(cty.Number)))
			ctx.Eval("family exponent "+s, true)
			ctx.Tag(fmt.Sprintf("family:set-of-%s:%s:%.1fs", s, r.out, time.Since(t0).Seconds()))
			// the same literal where nothing formats it is cheap
			j.unmarshal(b, cty.List(cty.Number), false)
		}
		tr("exponents")
	}
	// (b'') sets nested in sets.  (1) chains of singleton sets: cty.SetVal used to UnmarkDeep every member,
	// which rebuilds every set nested inside through SetVal again — 2^depth (repaired; regression).
	// (2) a set of 16 three-member sets under three more set levels: every traversal re-sorts the members
	// by hashing both operands of every comparison (recorded finding).
	for _, d := range []int{6, 10, 14} {
		b := []byte(strings.Repeat("[", d) + "1" + strings.Repeat("]", d))
		t := cty.Number
		for i := 0; i < d; i++ {
			t = cty.Set(t)
		}
		j.unmarshalBig(b, t, fmt.Sprintf("nested-singleton-sets depth=%d", d), fmt.Sprintf("json.Unmarshal([]byte(strings.Repeat(\"[\", %d)+\"1\"+strings.Repeat(\"]\", %d)), Set^%d(Number))", d, d, d))
		ctx.Eval(fmt.Sprintf("family nested-singleton-sets %d", d), true)
	}
	{
		parts := make([]string, 16)
		for i := range parts {
			parts[i] = fmt.Sprintf("[%d.1,2,null]", i)
		}
		b := []byte("[[[" + strings.Join(parts, ",") + "]]]")
		t := cty.Set(cty.Set(cty.Set(cty.Set(cty.Number))))
		j.unmarshalBig(b, t, "set-of-16-sets depth=4", c17jLit("json.Unmarshal", b, t))
		ctx.Eval("family set-of-sets 16", true)
	}
	tr("nested-sets")
	// (c) crash isolation: ImpliedType recurses once per '[' with no depth limit; a few megabytes of
	// '[' exhaust the 1 GB goroutine stack — a fatal error, not a panic.  In a worker process.
	for _, c := range []struct {
		dec, shape string
		n          int
	}{{"implied", "open-arrays", 2500000}} {
		line, crashed, tail := c17jRunWorker(c.dec, c.shape, c.n, 120*time.Second)
		ctx.Eval(fmt.Sprintf("worker %s %s %d", c.dec, c.shape, c.n), true)
		ctx.Tag(fmt.Sprintf("worker:%s-%s-%d:crashed=%v", c.dec, c.shape, c.n, crashed))
		if crashed || line == "timeout" {
			cause := "unexpected"
			if strings.Contains(tail, "stack overflow") || strings.Contains(tail, "goroutine stack exceeds") {
				cause = "unbounded-recursion-stack-overflow"
			}
			ctx.Fail(Failure{Site: "crash", Sig: "json.ImpliedType:" + cause, What: "the decoder crashes the process (fatal error, not recoverable) on this input",
				Input: fmt.Sprintf("%d x '['", c.n), GoLit: fmt.Sprintf("json.ImpliedType(bytes.Repeat([]byte(\"[\"), %d))", c.n), Outcome: line + " | " + tail})
		}
	}
	tr("worker")
	if ctx.Thorough {
		defer tr("workers-thorough")
		for _, c := range []struct {
			dec, shape string
			n          int
		}{{"simple", "arrays", 2500000}, {"unmarshal", "dyn-wrappers", 200000}, {"type", "type-lists", 1000000}, {"unmarshal", "typed-lists", 4000}} {
			line, crashed, tail := c17jRunWorker(c.dec, c.shape, c.n, 300*time.Second)
			ctx.Tag(fmt.Sprintf("worker:%s-%s-%d:crashed=%v:%s", c.dec, c.shape, c.n, crashed, strings.SplitN(line, " ", 2)[0]))
			if crashed {
				cause := "unexpected"
				if c.dec == "simple" && strings.Contains(tail, "stack") {
					cause = "unbounded-recursion-stack-overflow" // SimpleJSONValue.UnmarshalJSON calls ImpliedType
				}
				ctx.Fail(Failure{Site: "crash", Sig: "json.ImpliedType:" + cause, What: "the decoder crashes the process on this input (" + c.dec + ")",
					Input: fmt.Sprintf("%s %d", c.shape, c.n), GoLit: fmt.Sprintf("family %s depth %d through %s", c.shape, c.n, c.dec), Outcome: line + " | " + tail})
			}
		}
	}
}

// unmarshalBig: the value decoder on a large hand-made input: no-panic, conformance and allocation
// only (no dump, no model); desc / golit describe the input (the types are too deep or too wide to print)
func (j *c17j) unmarshalBig(b []byte, t cty.Type, desc, golit string) c17jRes {
	var r c17jRes
	r.out, r.why, r.alloc = c17jMeasure(func() error {
		var err error
		r.v, err = ctyjson.Unmarshal(b, t)
		return err
	})
	if r.out == "panic" {
		j.ctx.Fail(Failure{Site: "no-panic", Sig: "json.Unmarshal:" + c17jPanicSig(r.why), What: "json.Unmarshal panics on this input: " + r.why,
			Input: desc, GoLit: golit, Outcome: "panic: " + r.why})
	}
	if r.out == "ok" {
		var errs []error
		if p, _ := try(func() { errs = r.v.Type().TestConformance(t) }); p || len(errs) != 0 {
			j.ctx.Fail(Failure{Site: "conforms", Sig: "json.Unmarshal:result-type-does-not-conform", What: "the type of the decoded value does not conform to the requested type",
				Input: desc, GoLit: golit, Outcome: "?"})
		}
	}
	j.allocCheckLit("json.Unmarshal", b, r, func() (string, string) { return desc + " " + c17jShort(b), golit })
	r.v = cty.NilVal
	return r
}
