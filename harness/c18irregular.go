package main

// C18, irregular Go types: kinds gocty does not support (chan, func, interface,
// complex, uintptr, maps with non-string keys), structs without tags, structs
// whose tagged field is unexported or of an unsupported type.  They are outside
// the Lean model (GoTy has no constructor for them), so there is no
// correspondence case; the property's own clauses are evaluated directly on the
// real code: ImpliedType and ToCtyValue must refuse with an error, and
// FromCtyValue must not panic on an unmarked value given a non-nil pointer.

import (
	"fmt"
	"math/big"
	"reflect"
	"strings"

	"github.com/zclconf/go-cty/cty"
	"github.com/zclconf/go-cty/cty/gocty"
)

type c18Unexp struct {
	a int `cty:"a"`
	B int `cty:"b"`
}

type c18NoTag struct{ X, Y int }

type c18TaggedChan struct {
	A chan int `cty:"a"`
}

type c18TaggedIface struct {
	A interface{} `cty:"a"`
	B int         `cty:"b"`
}

type c18TaggedArr struct {
	A [2]int `cty:"a"`
}

// C18Inner is exported so that embedding it yields an exported (settable) field
type C18Inner struct {
	A int    `cty:"a"`
	B string `cty:"b"`
}

type c18Emb struct {
	C18Inner `cty:"emb"`
	Z        int `cty:"z"`
}

type c18Irregular struct {
	rt        reflect.Type
	implied   bool // ImpliedType must succeed
	supported bool // the kind is one gocty documents (informative)
}

var c18Irregulars = []c18Irregular{
	{c18T(new(chan int)), false, false}, {c18T(new(func())), false, false}, {c18T(new(interface{})), false, false},
	{c18T(new(complex128)), false, false}, {c18T(new(uintptr)), false, false}, {c18T(new(map[int]string)), false, false},
	{c18T(new(map[bool]int)), false, false}, {c18T(new([]chan int)), false, false}, {c18T(new(map[string]func())), false, false},
	{c18T(new(*chan int)), false, false}, {c18T(new(c18NoTag)), false, false}, {c18T(new(c18TaggedChan)), false, false},
	{c18T(new(c18TaggedArr)), false, false}, {c18T(new([]c18NoTag)), false, false}, {c18T(new(struct{})), false, false},
	{c18T(new([2]int)), false, true}, {c18T(new(big.Int)), false, true}, {c18T(new(*big.Float)), false, true},
	{c18T(new(c18Unexp)), true, false}, {c18T(new(c18TaggedIface)), false, false}, {c18T(new(c18Emb)), true, true},
}

func c18IrregularValues() []cty.Value {
	return []cty.Value{
		cty.StringVal("x"), cty.NumberIntVal(3), cty.True, cty.NullVal(cty.DynamicPseudoType), cty.NullVal(cty.String), cty.DynamicVal,
		cty.UnknownVal(cty.Map(cty.String)), cty.EmptyObjectVal, cty.EmptyTupleVal,
		cty.ObjectVal(map[string]cty.Value{"a": cty.NumberIntVal(1), "b": cty.NumberIntVal(2)}),
		cty.ObjectVal(map[string]cty.Value{"a": cty.NumberIntVal(1)}),
		cty.ObjectVal(map[string]cty.Value{"b": cty.NumberIntVal(2)}),
		cty.ObjectVal(map[string]cty.Value{"emb": cty.ObjectVal(map[string]cty.Value{"a": cty.NumberIntVal(1), "b": cty.StringVal("s")}), "z": cty.NumberIntVal(9)}),
		cty.ObjectVal(map[string]cty.Value{"x": cty.NumberIntVal(1), "y": cty.NumberIntVal(2)}),
		cty.MapVal(map[string]cty.Value{"a": cty.StringVal("x")}), cty.MapVal(map[string]cty.Value{"a": cty.NumberIntVal(1), "b": cty.NumberIntVal(2)}),
		cty.MapValEmpty(cty.String), cty.ListValEmpty(cty.Number), cty.ListVal([]cty.Value{cty.NumberIntVal(1), cty.NumberIntVal(2)}),
		cty.SetVal([]cty.Value{cty.StringVal("a")}), cty.TupleVal([]cty.Value{cty.NumberIntVal(1), cty.NumberIntVal(2)}),
		cty.TupleVal([]cty.Value{cty.NumberIntVal(1)}),
	}
}

// c18RefusedKind: a scalar kind gocty has no rule for at all.  Containers of such
// kinds are not judged by "must be refused": an empty list decodes into []chan int
// without ever meeting an element, which the property does not forbid.
func c18RefusedKind(rt reflect.Type) bool {
	for rt.Kind() == reflect.Ptr {
		rt = rt.Elem()
	}
	switch rt.Kind() {
	case reflect.Chan, reflect.Func, reflect.Interface, reflect.Complex128, reflect.Uintptr:
		return true
	}
	return false
}

// runC18IrregularRegressions: witnesses of two defects found by these probes and
// repaired in /repo (e62e542, 313eb3f): the decode must be refused with an error.
func runC18IrregularRegressions(ctx *Ctx) {
	type reg struct {
		v    cty.Value
		rt   reflect.Type
		what string
	}
	ab := cty.ObjectVal(map[string]cty.Value{"a": cty.NumberIntVal(1), "b": cty.NumberIntVal(2)})
	regs := []reg{
		{ab, c18T(new(c18Unexp)), "an object can not be decoded into a struct with an unexported cty-tagged field"},
		{ab, c18T(new(*c18Unexp)), "an object can not be decoded into a struct with an unexported cty-tagged field"},
		{cty.MapVal(map[string]cty.Value{"a": cty.StringVal("x")}), c18T(new(map[int]string)), "a map can not be decoded into a Go map whose key type is not string"},
		{cty.MapVal(map[string]cty.Value{"a": cty.NumberIntVal(1)}), c18T(new(map[bool]int)), "a map can not be decoded into a Go map whose key type is not string"},
		{ab, c18T(new(map[int]int)), "an object can not be decoded into a Go map whose key type is not string"},
		// 313eb3f checks the key kind before the null shortcut
		{cty.NullVal(cty.Map(cty.String)), c18T(new(map[int]string)), "a null map can not be decoded into a Go map whose key type is not string"},
		{cty.MapValEmpty(cty.String), c18T(new(map[bool]int)), "an empty map can not be decoded into a Go map whose key type is not string"},
	}
	for _, g := range regs {
		target := reflect.New(g.rt)
		var err error
		pn, why := try(func() { err = gocty.FromCtyValue(g.v, target.Interface()) })
		ctx.Eval("irregular regression "+encVal(g.v)+" "+g.rt.String(), true)
		ctx.Tag("regression")
		if pn || err == nil {
			out := "ok"
			if pn {
				out = "panic: " + why
			}
			ctx.Fail(Failure{Site: "regression", Sig: "repaired defect is back: " + g.what, What: g.what, Input: encVal(g.v) + " " + g.rt.String(),
				GoLit: fmt.Sprintf("var t %s; err := gocty.FromCtyValue(%#v, &t)", g.rt, g.v), Outcome: out})
		}
	}
}

func runC18Irregular(ctx *Ctx) {
	runC18IrregularRegressions(ctx)
	for _, ir := range c18Irregulars {
		rt := ir.rt
		name := rt.String()
		if rt.Kind() == reflect.Interface {
			// the zero value of an interface type is the untyped nil, which has no Go type at all
			// (ImpliedType(nil) dereferences a nil reflect.Type); hand over a pointer to it instead
			rt = reflect.PtrTo(rt)
			name = rt.String()
		}
		// ImpliedType
		var it cty.Type
		var ierr error
		pn, why := try(func() { it, ierr = gocty.ImpliedType(reflect.Zero(rt).Interface()) })
		ctx.Eval("irregular implied "+name, true)
		ctx.Tag("irregular:implied")
		switch {
		case pn:
			ctx.Fail(Failure{Site: "implied", Sig: "ImpliedType panics for " + rt.Kind().String(), What: "ImpliedType must return an error for a Go type without a cty type: " + why,
				Input: name, GoLit: fmt.Sprintf("gocty.ImpliedType(*new(%s))", name), Outcome: "panic"})
		case ir.implied != (ierr == nil):
			ctx.Fail(Failure{Site: "implied", Sig: fmt.Sprintf("ImpliedType ok=%v for %s", ierr == nil, name), What: "ImpliedType must succeed exactly for the documented Go types",
				Input: name, GoLit: fmt.Sprintf("gocty.ImpliedType(*new(%s))", name), Outcome: fmt.Sprintf("%#v %v", it, ierr)})
		}
		// ToCtyValue of the zero value into a few types: an unsupported kind is refused, never a panic
		for _, ty := range []cty.Type{cty.String, cty.Number, cty.Map(cty.String), cty.List(cty.Number), cty.EmptyObject, cty.DynamicPseudoType,
			cty.Object(map[string]cty.Type{"a": cty.Number, "b": cty.Number})} {
			var v cty.Value
			var err error
			pn, why := try(func() { v, err = gocty.ToCtyValue(reflect.Zero(rt).Interface(), ty) })
			ctx.Eval("irregular tocty "+name+" "+encTy(ty), true)
			ctx.Tag("irregular:tocty")
			lit := fmt.Sprintf("gocty.ToCtyValue(*new(%s), %#v)", name, ty)
			if pn {
				ctx.Fail(Failure{Site: "tocty_no_panic", Sig: "ToCtyValue panics for a Go value of kind " + rt.Kind().String(), What: "ToCtyValue must return an error, not panic: " + why,
					Input: name + " " + encTy(ty), GoLit: lit, Outcome: "panic"})
			} else if err == nil && c18RefusedKind(rt) && !v.IsNull() {
				// a nil chan/func/map/interface converts to null by the nil rule; anything else of an unsupported kind must be refused
				ctx.Fail(Failure{Site: "errors_otherwise", Sig: "Go value of unsupported kind " + rt.Kind().String() + " converted without error", What: "an unsupported Go kind must be refused",
					Input: name + " " + encTy(ty), GoLit: lit, Outcome: fmt.Sprintf("%#v", v)})
			}
		}
		// FromCtyValue of unmarked values into new(T): never a panic
		for _, v := range c18IrregularValues() {
			target := reflect.New(rt)
			var err error
			pn, why := try(func() { err = gocty.FromCtyValue(v, target.Interface()) })
			ctx.Eval("irregular fromcty "+encVal(v)+" "+name, true)
			ctx.Tag("irregular:fromcty")
			lit := fmt.Sprintf("var t %s; err := gocty.FromCtyValue(%#v, &t)", name, v)
			if pn {
				sig := "FromCtyValue panics on an unmarked value (irregular target " + rt.Kind().String() + ")"
				switch {
				case strings.Contains(why, "unexported field"):
					sig = "object into a struct with an unexported cty-tagged field: reflect Set panics"
				case strings.Contains(why, "SetMapIndex"):
					sig = "map into a Go map with a non-string key type: reflect SetMapIndex panics"
				}
				ctx.Fail(Failure{Site: "no_panic_unmarked", Sig: sig, What: "for unmarked values FromCtyValue must not panic given a non-nil pointer target: " + why,
					Input: encVal(v) + " " + name, GoLit: lit, Outcome: "panic"})
				continue
			}
			if err == nil && c18RefusedKind(rt) && v.IsKnown() && !v.IsNull() {
				ctx.Fail(Failure{Site: "errors_otherwise", Sig: "value decoded into unsupported kind " + rt.Kind().String() + " without error", What: "a target of an unsupported kind must be refused",
					Input: encVal(v) + " " + name, GoLit: lit, Outcome: fmt.Sprintf("ok %v", target.Elem().Interface())})
			}
		}
	}
}
