package main

func c20purity(ctx *Ctx) {}
