package main

// C20 — purity: "repeating a call on the same values yields an equal result".
// The operations whose code ranges over a Go map are repeated many times (Go
// randomises the starting point of every map iteration) on operands that are
// themselves rebuilt with different insertion orders.  Results are compared by
// their canonical wire form; results that are sets of things (mark paths) are
// compared as sets.

import (
	"fmt"
	"sort"
	"strings"

	"github.com/zclconf/go-cty/cty"
)

// c20repeat calls f `n` times and returns the distinct canonical results.
func c20repeat(n int, f func() string) []string {
	seen := map[string]bool{}
	for i := 0; i < n; i++ {
		var s string
		if p, why := try(func() { s = f() }); p {
			s = "panic"
			_ = why
		}
		seen[s] = true
	}
	out := make([]string, 0, len(seen))
	for s := range seen {
		out = append(out, s)
	}
	sort.Strings(out)
	return out
}

func (ctx *Ctx) c20pureCheck(sig, what, input, golit string, n int, f func() string) {
	res := c20repeat(n, f)
	ctx.Eval("pure "+sig+" "+input, false) // not a history: does not count as a distinct non-trivial case
	ctx.Tag("pure:" + sig)
	for _, x := range res {
		if x == "panic" {
			// every call of the purity battery is valid by construction: a panic is a finding of its own,
			// and "all calls panicked" must not pass as "all calls agree"
			ctx.Tag("pure-panic:" + sig)
			ctx.Fail(Failure{Site: "no-panic", Sig: "panic:pure:" + sig, What: "a call of the purity battery panicked: " + what, Input: input, GoLit: golit, Outcome: strings.Join(res, "  |  ")})
		}
	}
	if len(res) > 1 {
		ctx.Fail(Failure{Site: "purity-repeat", Sig: sig, What: what, Input: input, GoLit: golit,
			Outcome: fmt.Sprintf("%d distinct results in %d calls: %s", len(res), n, strings.Join(res, "  |  "))})
	}
}

// c20permMap rebuilds a map inserting the keys in a random order.
func c20permMap(ctx *Ctx, m map[string]cty.Value) map[string]cty.Value {
	ks := sortedKeys(m)
	ctx.R.Shuffle(len(ks), func(i, j int) { ks[i], ks[j] = ks[j], ks[i] })
	out := make(map[string]cty.Value)
	for _, k := range ks {
		out[k] = m[k]
	}
	return out
}

func c20purity(ctx *Ctx) {
	reps := ctx.N(60, 300)
	names := []string{"a", "b", "c", "d", "e", "f"}
	leaf := func() cty.Value {
		switch ctx.R.Intn(5) {
		case 0:
			return cty.UnknownVal(cty.Number)
		case 1:
			return cty.StringVal(names[ctx.R.Intn(3)])
		case 2:
			return cty.UnknownVal(cty.String)
		default:
			return cty.NumberIntVal(int64(ctx.R.Intn(3)))
		}
	}
	// --- Equals / RawEquals / operation methods over objects and maps
	for i := 0; i < ctx.N(300, 4000); i++ {
		w := 2 + ctx.R.Intn(4)
		am, bm := map[string]cty.Value{}, map[string]cty.Value{}
		for j := 0; j < w; j++ {
			v := leaf()
			am[names[j]] = v
			switch ctx.R.Intn(4) {
			case 0:
				// a different value of the same type
				if v.Type() == cty.Number {
					bm[names[j]] = cty.NumberIntVal(7)
				} else {
					bm[names[j]] = cty.StringVal("zz")
				}
			case 1:
				bm[names[j]] = cty.UnknownVal(v.Type())
			default:
				bm[names[j]] = v
			}
		}
		asMap := ctx.R.Intn(3) == 0 && cty.CanMapVal(am) && cty.CanMapVal(bm)
		mk := func(m map[string]cty.Value) cty.Value {
			if asMap {
				return cty.MapVal(c20permMap(ctx, m))
			}
			return cty.ObjectVal(c20permMap(ctx, m))
		}
		if asMap && ctx.R.Intn(3) == 0 {
			delete(bm, names[0])
			bm["zz"] = am[names[0]]
		}
		if asMap && (!cty.CanMapVal(am) || !cty.CanMapVal(bm)) {
			continue
		}
		a, b := mk(am), mk(bm)
		in := encVal(a) + " " + encVal(b)
		lit := fmt.Sprintf("a := %#v; b := %#v", a, b)
		ctx.c20pureCheck("equals-map-order", "Value.Equals answers differently from call to call", in, lit+"; a.Equals(b)", reps,
			func() string { return encVal(mk(am).Equals(mk(bm))) })
		ctx.c20pureCheck("rawequals-map-order", "Value.RawEquals answers differently from call to call", in, lit+"; a.RawEquals(b)", reps/2,
			func() string { return encBool(a.RawEquals(b)) })
		ctx.c20pureCheck("length-map-order", "LengthInt / Length differ from call to call", encVal(a), lit+"; a.LengthInt()", 8,
			func() string { return fmt.Sprint(a.LengthInt(), encVal(a.Length())) })
		ctx.c20pureCheck("iteration-order", "ElementIterator visits the members in a different order from call to call", encVal(a), lit+"; a.ElementIterator()", reps/3,
			func() string {
				var sb strings.Builder
				for it := mk(am).ElementIterator(); it.Next(); {
					k, v := it.Element()
					sb.WriteString(encVal(k) + "=" + encVal(v) + ";")
				}
				return sb.String()
			})
		ctx.c20pureCheck("asvaluemap-order", "AsValueMap / AsValueSlice differ from call to call", encVal(a), lit+"; a.AsValueSlice()", reps/3,
			func() string {
				var sb strings.Builder
				for _, v := range a.AsValueSlice() {
					sb.WriteString(encVal(v) + ";")
				}
				m := a.AsValueMap()
				for _, k := range sortedKeys(m) {
					sb.WriteString(k + "=" + encVal(m[k]) + ";")
				}
				return sb.String()
			})
		ctx.c20pureCheck("type-equals-map-order", "Type.Equals differs from call to call", encTy(a.Type())+" "+encTy(b.Type()), lit+"; a.Type().Equals(b.Type())", reps/3,
			func() string { return encBool(a.Type().Equals(b.Type())) })
		// Transform with the identity callback: the RESULT must not depend on the order
		// in which the attributes were visited (the callback order may)
		ctx.c20pureCheck("transform-map-order", "Transform with the identity callback differs from call to call", encVal(a), lit+"; cty.Transform(a, id)", reps/3,
			func() string {
				r, _ := cty.Transform(mk(am), func(_ cty.Path, v cty.Value) (cty.Value, error) { return v, nil })
				return encVal(r)
			})
		// marks at several attributes: the SET of (path, marks) pairs must not vary
		mm := map[string]cty.Value{}
		for k, v := range am {
			mm[k] = v.Mark("m" + k)
		}
		ctx.c20pureCheck("unmarkdeep-map-order", "UnmarkDeepWithPaths reports a different set of marked paths from call to call", encVal(a), lit+" (every attribute marked); UnmarkDeepWithPaths()", reps/3,
			func() string {
				v, pvm := cty.ObjectVal(c20permMap(ctx, mm)).UnmarkDeepWithPaths()
				parts := []string{}
				for _, p := range pvm {
					parts = append(parts, fmt.Sprintf("%#v=%#v", p.Path, p.Marks))
				}
				sort.Strings(parts)
				_, deep := cty.ObjectVal(c20permMap(ctx, mm)).UnmarkDeep()
				ms := []string{}
				for m := range deep {
					ms = append(ms, fmt.Sprint(m))
				}
				sort.Strings(ms)
				return encVal(v) + strings.Join(parts, ";") + "|" + strings.Join(ms, ",")
			})
	}
	// --- constructors that range over the caller's map
	//     (a) keys that stay distinct after NFC normalisation
	for i := 0; i < ctx.N(100, 1500); i++ {
		w := 1 + ctx.R.Intn(4)
		m := map[string]cty.Value{}
		tm := map[string]cty.Type{}
		pool := []string{"a", "b", "\u00e9", "\uac00", "z", "\u00c5", "ab"}
		for j := 0; j < w; j++ {
			k := pool[ctx.R.Intn(len(pool))]
			m[k] = leaf()
			tm[k] = m[k].Type()
		}
		in := fmt.Sprintf("%q", sortedKeys(m))
		ctx.c20pureCheck("objectval-map-order", "ObjectVal differs from call to call (keys distinct after normalisation)", in, fmt.Sprintf("cty.ObjectVal(%#v)", m), reps/2,
			func() string { return encVal(cty.ObjectVal(c20permMap(ctx, m))) })
		if cty.CanMapVal(m) {
			ctx.c20pureCheck("mapval-map-order", "MapVal differs from call to call (keys distinct after normalisation)", in, fmt.Sprintf("cty.MapVal(%#v)", m), reps/2,
				func() string { return encVal(cty.MapVal(c20permMap(ctx, m))) })
		}
		ctx.c20pureCheck("objecttype-map-order", "cty.Object differs from call to call (keys distinct after normalisation)", in, fmt.Sprintf("cty.Object(%#v)", tm), reps/3,
			func() string { return encTy(cty.Object(tm)) })
	}
	//     (b) two keys that normalise to the same string: which value wins?
	nfc, nfd := "\u00e9", "e\u0301"
	coll := map[string]cty.Value{nfc: cty.StringVal("composed"), nfd: cty.NumberIntVal(1)}
	ctx.c20pureCheck("constructor-key-normalization-collision", "ObjectVal with two keys that are equal after NFC normalisation keeps one of the two values, a different one from call to call (Go map iteration order)",
		`{"\u00e9": "composed", "e\u0301": 1}`, `cty.ObjectVal(map[string]cty.Value{"\u00e9": cty.StringVal("composed"), "e\u0301": cty.NumberIntVal(1)})`, 400,
		func() string { return encVal(cty.ObjectVal(coll)) })
	collM := map[string]cty.Value{nfc: cty.StringVal("composed"), nfd: cty.StringVal("decomposed")}
	ctx.c20pureCheck("constructor-key-normalization-collision", "MapVal with two keys that are equal after NFC normalisation keeps one of the two values, a different one from call to call",
		`{"\u00e9": "composed", "e\u0301": "decomposed"}`, `cty.MapVal(map[string]cty.Value{"\u00e9": cty.StringVal("composed"), "e\u0301": cty.StringVal("decomposed")})`, 400,
		func() string { return encVal(cty.MapVal(collM)) })
	collT := map[string]cty.Type{nfc: cty.String, nfd: cty.Number}
	ctx.c20pureCheck("constructor-key-normalization-collision", "cty.Object with two attribute names that are equal after NFC normalisation keeps one of the two types, a different one from call to call",
		`{"\u00e9": string, "e\u0301": number}`, `cty.Object(map[string]cty.Type{"\u00e9": cty.String, "e\u0301": cty.Number})`, 400,
		func() string { return encTy(cty.Object(collT)) })
}
