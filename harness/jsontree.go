package main

import (
	"bytes"
	"encoding/json"
	"fmt"
	"io"
	"strings"
)

// jsonTreeOfBytes lexes a JSON document with encoding/json into the token-tree
// wire form the model works on: key order and duplicate keys are preserved,
// numbers keep their spelling.
//
//	jv := null | (jb 0|1) | (jn xHEX) | (js xHEX) | (ja jv*) | (jo (xHEX jv)*)
//
// Returns "BAD" if the bytes are not one well-formed JSON value.
func jsonTreeOfBytes(b []byte) string {
	dec := json.NewDecoder(bytes.NewReader(b))
	dec.UseNumber()
	var sb strings.Builder
	if err := jsonTreeValue(dec, &sb); err != nil {
		return "BAD"
	}
	// nothing but JSON white space may follow: any other byte (a NUL, a stray letter, a second value)
	// makes the real decoders fail or behave in ways the token-tree model does not describe
	if _, err := dec.Token(); err != io.EOF {
		return "BAD"
	}
	return sb.String()
}

func jsonTreeValue(dec *json.Decoder, sb *strings.Builder) error {
	tok, err := dec.Token()
	if err != nil {
		return err
	}
	return jsonTreeFrom(dec, tok, sb)
}

func jsonTreeFrom(dec *json.Decoder, tok json.Token, sb *strings.Builder) error {
	switch v := tok.(type) {
	case nil:
		sb.WriteString("null")
	case bool:
		sb.WriteString("(jb " + encBool(v) + ")")
	case json.Number:
		sb.WriteString("(jn " + encStr(string(v)) + ")")
	case string:
		sb.WriteString("(js " + encStr(v) + ")")
	case json.Delim:
		switch v {
		case '[':
			sb.WriteString("(ja")
			for dec.More() {
				sb.WriteByte(' ')
				if err := jsonTreeValue(dec, sb); err != nil {
					return err
				}
			}
			if _, err := dec.Token(); err != nil {
				return err
			}
			sb.WriteByte(')')
		case '{':
			sb.WriteString("(jo")
			for dec.More() {
				kt, err := dec.Token()
				if err != nil {
					return err
				}
				k, ok := kt.(string)
				if !ok {
					return fmt.Errorf("non-string key")
				}
				sb.WriteString(" (" + encStr(k) + " ")
				if err := jsonTreeValue(dec, sb); err != nil {
					return err
				}
				sb.WriteByte(')')
			}
			if _, err := dec.Token(); err != nil {
				return err
			}
			sb.WriteByte(')')
		default:
			return fmt.Errorf("unexpected delimiter")
		}
	}
	return nil
}
