package main

// C06 producers: every way the sweep obtains a value from the real code.

import (
	"fmt"
	"math/big"
	"reflect"
	"strings"

	"github.com/zclconf/go-cty/cty"
	"github.com/zclconf/go-cty/cty/convert"
	"github.com/zclconf/go-cty/cty/function"
	"github.com/zclconf/go-cty/cty/function/stdlib"
	"github.com/zclconf/go-cty/cty/gocty"
	ctyjson "github.com/zclconf/go-cty/cty/json"
	"github.com/zclconf/go-cty/cty/msgpack"
)

func c06Lit(prefix string, vs ...cty.Value) func() string {
	return func() string {
		parts := make([]string, len(vs))
		for i, v := range vs {
			parts[i] = v.GoString()
		}
		return prefix + "(" + strings.Join(parts, ", ") + ")"
	}
}

func c06LitS(s string) func() string { return func() string { return s } }

var (
	c06Full  = ValOpts{Unknown: true, Null: true, Marks: true, DynVal: true, Small: true}
	c06Known = ValOpts{Null: true, Small: true}
	c06Plain = ValOpts{Small: true}
)

// keys / attribute names, NFC and not
var c06Keys = []string{"a", "b", "k", "é", "é", "zz", "", "Å", "Å", "가", "가"}

// ---- correspondence of the model functions C06 adds (lean/CtyModel/WFCons.lean) ------------

func c06Wires(vs []cty.Value) string {
	ws := make([]string, len(vs))
	for i, v := range vs {
		ws[i] = encVal(v)
	}
	return "(" + strings.Join(ws, " ") + ")"
}

// SetVal against the model, with the implementation's own hash of every member as oracle column
func c06CorrSetVal(ctx *Ctx, ms []cty.Value) {
	hs := make([]string, len(ms))
	for i, m := range ms {
		hs[i] = hashOracle(m)
		if hs[i] == "-" {
			return // the hash of this member panics (capsule): not modelled
		}
	}
	out, _, _ := opOut(func() cty.Value { return cty.SetVal(ms) })
	ctx.Add("c06.setval", out, c06Wires(ms), "("+strings.Join(hs, " ")+")")
}

func c06CorrAccessors(ctx *Ctx, v cty.Value) {
	w := encVal(v)
	var s string
	if p, _ := try(func() { s = v.AsString() }); p {
		ctx.Add("c06.asstring", "panic", w)
	} else {
		ctx.Add("c06.asstring", "ok "+encStr(s), w)
	}
	var n int
	if p, _ := try(func() { n = v.LengthInt() }); p {
		ctx.Add("c06.lengthint", "panic", w)
	} else {
		ctx.Add("c06.lengthint", fmt.Sprintf("ok %d", n), w)
	}
	var es []string
	if p, _ := try(func() {
		for it := v.ElementIterator(); it.Next(); {
			_, e := it.Element()
			es = append(es, encVal(e))
		}
	}); p {
		ctx.Add("c06.elements", "panic", w)
	} else {
		if v.Type().IsSetType() {
			sortStrings(es)
		}
		ctx.Add("c06.elements", "ok ("+strings.Join(es, " ")+")", w)
	}
}

func c06Produce(j *c06Judge) {
	c06Constructors(j)
	c06PrecisionPairs(j)
	c06Ops(j)
	c06Marks(j)
	c06Refine(j)
	c06Convert(j)
	c06Functions(j)
	c06Codecs(j)
	c06Gocty(j)
	c06Traversal(j)
	c06ValueSets(j)
	c06ConsN(j)
	c06CapsuleEquals(j)
	c06EmptyDynDuplicates(j)
}

// members of one element type, with the occasional DynamicVal / untyped null thrown in
func c06Members(ctx *Ctx, ety cty.Type, k int, o ValOpts) []cty.Value {
	ms := make([]cty.Value, k)
	for i := range ms {
		switch {
		case o.DynVal && ctx.R.Intn(12) == 0:
			ms[i] = cty.DynamicVal
		case o.Null && ctx.R.Intn(16) == 0:
			ms[i] = cty.NullVal(cty.DynamicPseudoType)
		default:
			ms[i] = genVal(ctx.R, ety, 2, o)
		}
	}
	return ms
}

// ---- constructors ---------------------------------------------------------------------

func c06Constructors(j *c06Judge) {
	ctx := j.ctx
	// constants and primitives
	for _, v := range []cty.Value{cty.True, cty.False, cty.Zero, cty.PositiveInfinity, cty.NegativeInfinity, cty.DynamicVal,
		cty.EmptyObjectVal, cty.EmptyTupleVal, cty.NullVal(cty.DynamicPseudoType), cty.UnknownVal(cty.DynamicPseudoType)} {
		j.see("constant", v, c06Lit("const", v))
	}
	for i := 0; i < ctx.N(300, 5000); i++ {
		n := genNumber(ctx.R, ValOpts{})
		j.see("NumberVal", n, c06Lit("", n))
		s := genString(ctx.R)
		j.produce("StringVal", c06LitS(fmt.Sprintf("cty.StringVal(%q)", s)), func() cty.Value { return cty.StringVal(s) })
		j.produce("BoolVal", c06LitS("cty.BoolVal"), func() cty.Value { return cty.BoolVal(i%2 == 0) })
		d := decimalPool[ctx.R.Intn(len(decimalPool))]
		j.produce("ParseNumberVal", c06LitS("cty.ParseNumberVal "+d), func() cty.Value { v, _ := cty.ParseNumberVal(d); return v })
		j.produce("NumberIntVal", c06LitS("cty.NumberIntVal"), func() cty.Value { return cty.NumberIntVal(ctx.R.Int63() - (1 << 62)) })
		j.produce("NumberUIntVal", c06LitS("cty.NumberUIntVal"), func() cty.Value { return cty.NumberUIntVal(ctx.R.Uint64()) })
		j.produce("NumberFloatVal", c06LitS("cty.NumberFloatVal"), func() cty.Value { return cty.NumberFloatVal(ctx.R.NormFloat64() * 1e6) })
		t := genTy(ctx.R, 2, TyOpts{Dyn: true, Capsule: true})
		j.produce("NullVal", c06LitS("cty.NullVal("+t.GoString()+")"), func() cty.Value { return cty.NullVal(t) })
		j.produce("UnknownVal", c06LitS("cty.UnknownVal("+t.GoString()+")"), func() cty.Value { return cty.UnknownVal(t) })
		ct := capsuleTypes[ctx.R.Intn(len(capsuleTypes))]
		j.produce("CapsuleVal", c06LitS("cty.CapsuleVal"), func() cty.Value { return cty.CapsuleVal(ct, capsulePayloads[ctx.R.Intn(2)]) })
	}
	// collections and structures from generated members
	for i := 0; i < ctx.N(2500, 60000); i++ {
		o := c06Full
		if ctx.R.Intn(3) == 0 {
			o = c06Known
		}
		ety := genTy(ctx.R, 1+ctx.R.Intn(2), TyOpts{Capsule: true})
		k := ctx.R.Intn(4)
		ms := c06Members(ctx, ety, k, o)
		if k == 0 {
			j.produce("ListValEmpty", c06LitS("cty.ListValEmpty("+ety.GoString()+")"), func() cty.Value { return cty.ListValEmpty(ety) })
			j.produce("SetValEmpty", c06LitS("cty.SetValEmpty("+ety.GoString()+")"), func() cty.Value { return cty.SetValEmpty(ety) })
			j.produce("MapValEmpty", c06LitS("cty.MapValEmpty("+ety.GoString()+")"), func() cty.Value { return cty.MapValEmpty(ety) })
		} else {
			j.produce("ListVal", c06Lit("cty.ListVal", ms...), func() cty.Value { return cty.ListVal(ms) })
			j.produce("SetVal", c06Lit("cty.SetVal", ms...), func() cty.Value { return cty.SetVal(ms) })
			c06CorrSetVal(ctx, ms)
			mm := map[string]cty.Value{}
			var desc []string
			for _, m := range ms {
				key := c06Keys[ctx.R.Intn(len(c06Keys))]
				mm[key] = m
				desc = append(desc, fmt.Sprintf("%q", key))
			}
			j.produce("MapVal", c06Lit("cty.MapVal keys "+strings.Join(desc, ","), ms...), func() cty.Value { return cty.MapVal(mm) })
		}
		// tuple / object from members of unrelated types
		hs := make([]cty.Value, ctx.R.Intn(4))
		for i := range hs {
			hs[i] = genVal(ctx.R, genTy(ctx.R, 1, TyOpts{Dyn: true, Capsule: true}), 2, o)
		}
		j.produce("TupleVal", c06Lit("cty.TupleVal", hs...), func() cty.Value { return cty.TupleVal(hs) })
		om := map[string]cty.Value{}
		var desc []string
		for _, h := range hs {
			key := c06Keys[ctx.R.Intn(len(c06Keys))]
			om[key] = h
			desc = append(desc, fmt.Sprintf("%q", key))
		}
		j.produce("ObjectVal", c06Lit("cty.ObjectVal attrs "+strings.Join(desc, ","), hs...), func() cty.Value { return cty.ObjectVal(om) })
		v := genVal(ctx.R, genTy(ctx.R, 2, TyOpts{Dyn: true}), 2, o)
		j.produce("UnknownAsNull", c06Lit("cty.UnknownAsNull", v), func() cty.Value { return cty.UnknownAsNull(v) })
	}
}

// numbers that are Equals-true at different precisions (float64 vs the 512-bit parse of
// its shortest decimal text, low-precision big.Floats): set membership must see one member
func c06PrecisionPairs(j *c06Judge) {
	ctx := j.ctx
	fs := []float64{3.9477794105, 0.1, 0.30000000000000004, 123456.789, 1.0 / 3.0, 0.5, 1e100, 2.5, 1e-7, 9.9999999995, 1.00000000001}
	for i := 0; i < ctx.N(400, 8000); i++ {
		f := fs[ctx.R.Intn(len(fs))]
		if i >= len(fs) && ctx.R.Intn(2) == 0 {
			f = ctx.R.NormFloat64() * []float64{1, 1e-5, 1e9}[ctx.R.Intn(3)]
		} else if i < len(fs) {
			f = fs[i]
		}
		a := cty.NumberFloatVal(f)
		bf := a.AsBigFloat()
		cands := []cty.Value{a}
		if v, err := cty.ParseNumberVal(bf.Text('f', -1)); err == nil {
			cands = append(cands, v)
		}
		if v, err := cty.ParseNumberVal(bf.Text('g', 10)); err == nil {
			cands = append(cands, v)
		}
		cands = append(cands, cty.NumberVal(new(big.Float).SetPrec(uint(20+ctx.R.Intn(80))).SetFloat64(f)))
		ctx.R.Shuffle(len(cands), func(x, y int) { cands[x], cands[y] = cands[y], cands[x] })
		ms := cands[:2+ctx.R.Intn(len(cands)-1)]
		j.produce("SetVal", c06Lit("cty.SetVal", ms...), func() cty.Value { return cty.SetVal(ms) })
		c06CorrSetVal(ctx, ms)
		j.produce("ListVal", c06Lit("cty.ListVal", ms...), func() cty.Value { return cty.ListVal(ms) })
		ts := make([]cty.Value, len(ms))
		for x, m := range ms {
			ts[x] = cty.TupleVal([]cty.Value{m, cty.StringVal("k")})
		}
		j.produce("SetVal", c06Lit("cty.SetVal", ts...), func() cty.Value { return cty.SetVal(ts) })
	}
}

// ---- operation methods and accessors -------------------------------------------------

var c06ExtraOps = []opSpec{
	{"notequal", 2, func(ctx *Ctx, o ValOpts) []cty.Value {
		t := genTy(ctx.R, 2, TyOpts{Dyn: true})
		return []cty.Value{genVal(ctx.R, t, 2, o), genVal(ctx.R, t, 2, o)}
	}, func(a []cty.Value) cty.Value { return a[0].NotEqual(a[1]) }, nil},
	{"le", 2, func(ctx *Ctx, o ValOpts) []cty.Value { return []cty.Value{numOperand(ctx, o), numOperand(ctx, o)} },
		func(a []cty.Value) cty.Value { return a[0].LessThanOrEqualTo(a[1]) }, nil},
	{"ge", 2, func(ctx *Ctx, o ValOpts) []cty.Value { return []cty.Value{numOperand(ctx, o), numOperand(ctx, o)} },
		func(a []cty.Value) cty.Value { return a[0].GreaterThanOrEqualTo(a[1]) }, nil},
}

func c06Ops(j *c06Judge) {
	ctx := j.ctx
	n := ctx.N(350, 8000)
	for _, s := range append(append([]opSpec{}, opSpecs...), c06ExtraOps...) {
		s := s
		for i := 0; i < n; i++ {
			o := c06Full
			if i%3 == 0 {
				o = c06Known
			}
			args := s.gen(ctx, o)
			j.produce("op:"+s.name, c06Lit(s.name, args...), func() cty.Value { return s.call(args) })
		}
	}
	// members handed out by accessors and iterators
	for i := 0; i < ctx.N(1500, 30000); i++ {
		v := genVal(ctx.R, collTy(ctx), 2, c06Full)
		try(func() {
			u := v
			if u.IsMarked() && ctx.R.Intn(2) == 0 {
				u, _ = u.Unmark()
			}
			if !u.CanIterateElements() {
				return
			}
			for it := u.ElementIterator(); it.Next(); {
				k, e := it.Element()
				j.see("ElementIterator:key", k, c06Lit("ElementIterator", v))
				j.see("ElementIterator:value", e, c06Lit("ElementIterator", v))
			}
		})
		try(func() {
			u, _ := v.Unmark()
			if !u.IsKnown() || u.IsNull() {
				return
			}
			t := u.Type()
			switch {
			case t.IsListType() || t.IsTupleType():
				for _, e := range u.AsValueSlice() {
					j.see("AsValueSlice", e, c06Lit("AsValueSlice", v))
				}
			case t.IsMapType() || t.IsObjectType():
				for _, e := range u.AsValueMap() {
					j.see("AsValueMap", e, c06Lit("AsValueMap", v))
				}
			case t.IsSetType():
				for _, e := range u.AsValueSet().Values() {
					j.see("AsValueSet.Values", e, c06Lit("AsValueSet.Values", v))
				}
			}
		})
		// the bounds a range reports are values too
		w := genVal(ctx.R, genTy(ctx.R, 1, TyOpts{Dyn: true}), 1, c06Full)
		try(func() {
			u, _ := w.Unmark()
			r := u.Range()
			if r.TypeConstraint() == cty.Number {
				lo, _ := r.NumberLowerBound()
				hi, _ := r.NumberUpperBound()
				j.see("Range.NumberLowerBound", lo, c06Lit("Range.NumberLowerBound", w))
				j.see("Range.NumberUpperBound", hi, c06Lit("Range.NumberUpperBound", w))
			}
		})
	}
}

// ---- marks ---------------------------------------------------------------------------------

func c06Marks(j *c06Judge) {
	ctx := j.ctx
	for i := 0; i < ctx.N(1500, 30000); i++ {
		v := genVal(ctx.R, genTy(ctx.R, 2, TyOpts{Dyn: true, Capsule: true}), 2, c06Full)
		w := genVal(ctx.R, genTy(ctx.R, 1, TyOpts{}), 1, c06Full)
		m1, m2 := markNames[ctx.R.Intn(3)], markNames[ctx.R.Intn(3)]
		j.produce("Mark", c06Lit("Mark "+m1, v), func() cty.Value { return v.Mark(m1) })
		ctx.Add("c06.mark", encVal(v.Mark(m1)), encVal(v), encStr(m1))
		c06CorrAccessors(ctx, v)
		j.produce("Mark.Mark", c06Lit("Mark.Mark", v), func() cty.Value { return v.Mark(m1).Mark(m2) })
		j.produce("WithMarks", c06Lit("WithMarks{m1,m2}", v), func() cty.Value { return v.WithMarks(cty.NewValueMarks(m1, m2)) })
		j.produce("WithMarks:none", c06Lit("WithMarks()", v), func() cty.Value { return v.WithMarks() })
		j.produce("WithMarks:nil-set", c06Lit("WithMarks(NewValueMarks())", v), func() cty.Value { return v.WithMarks(cty.NewValueMarks()) })
		j.produce("WithMarks:empty-set", c06Lit("WithMarks(ValueMarks{})", v), func() cty.Value { return v.WithMarks(cty.ValueMarks{}) })
		j.produce("WithMarks:two-sets", c06Lit("WithMarks(a,b)", v), func() cty.Value {
			return v.WithMarks(cty.NewValueMarks(m1), cty.ValueMarks{}, cty.NewValueMarks(m2))
		})
		j.produce("WithSameMarks", c06Lit("WithSameMarks", v, w), func() cty.Value { return v.WithSameMarks(w, v) })
		j.produce("Unmark", c06Lit("Unmark", v), func() cty.Value { u, _ := v.Unmark(); return u })
		j.produce("UnmarkDeep", c06Lit("UnmarkDeep", v), func() cty.Value { u, _ := v.UnmarkDeep(); return u })
		var pvm []cty.PathValueMarks
		j.produce("UnmarkDeepWithPaths", c06Lit("UnmarkDeepWithPaths", v), func() cty.Value {
			u, p := v.UnmarkDeepWithPaths()
			pvm = p
			return u
		})
		j.produce("MarkWithPaths:roundtrip", c06Lit("UnmarkDeepWithPaths+MarkWithPaths", v), func() cty.Value {
			u, p := v.UnmarkDeepWithPaths()
			return u.MarkWithPaths(p)
		})
		// the same paths applied to a value that is already marked
		j.produce("MarkWithPaths:again", c06Lit("MarkWithPaths on the marked value", v), func() cty.Value { return v.MarkWithPaths(pvm) })
	}
}

// ---- refinement builders ----------------------------------------------------------------

func c06RefineChain(ctx *Ctx, v cty.Value) (cty.Value, string) {
	b := v.Refine()
	var desc []string
	t := v.Type()
	pick := func() int {
		if ctx.R.Intn(5) == 0 {
			return ctx.R.Intn(11) // any call, applicable or not
		}
		switch {
		case t == cty.Number:
			return []int{0, 2, 3, 4, 10, 2, 3}[ctx.R.Intn(7)]
		case t == cty.String:
			return []int{0, 8, 9, 8}[ctx.R.Intn(4)]
		case t.IsCollectionType():
			return []int{0, 5, 6, 7, 5, 6}[ctx.R.Intn(6)]
		}
		return ctx.R.Intn(2)
	}
	for k := ctx.R.Intn(4); k >= 0; k-- {
		switch pick() {
		case 0:
			b = b.NotNull()
			desc = append(desc, "NotNull()")
		case 1:
			b = b.Null()
			desc = append(desc, "Null()")
		case 2:
			x, inc := cty.NumberIntVal(int64(ctx.R.Intn(7)-3)), ctx.R.Intn(2) == 0
			b = b.NumberRangeLowerBound(x, inc)
			desc = append(desc, fmt.Sprintf("NumberRangeLowerBound(%#v,%v)", x, inc))
		case 3:
			x, inc := cty.NumberIntVal(int64(ctx.R.Intn(7)-3)), ctx.R.Intn(2) == 0
			b = b.NumberRangeUpperBound(x, inc)
			desc = append(desc, fmt.Sprintf("NumberRangeUpperBound(%#v,%v)", x, inc))
		case 4:
			lo := int64(ctx.R.Intn(5) - 2)
			hi := lo + int64(ctx.R.Intn(3))
			b = b.NumberRangeInclusive(cty.NumberIntVal(lo), cty.NumberIntVal(hi))
			desc = append(desc, fmt.Sprintf("NumberRangeInclusive(%d,%d)", lo, hi))
		case 5:
			n := ctx.R.Intn(4)
			b = b.CollectionLengthLowerBound(n)
			desc = append(desc, fmt.Sprintf("CollectionLengthLowerBound(%d)", n))
		case 6:
			n := ctx.R.Intn(4)
			b = b.CollectionLengthUpperBound(n)
			desc = append(desc, fmt.Sprintf("CollectionLengthUpperBound(%d)", n))
		case 7:
			n := ctx.R.Intn(3)
			b = b.CollectionLength(n)
			desc = append(desc, fmt.Sprintf("CollectionLength(%d)", n))
		case 8:
			p := genString(ctx.R)
			b = b.StringPrefix(p)
			desc = append(desc, fmt.Sprintf("StringPrefix(%q)", p))
		case 9:
			p := genString(ctx.R)
			b = b.StringPrefixFull(p)
			desc = append(desc, fmt.Sprintf("StringPrefixFull(%q)", p))
		default:
			x := genNumber(ctx.R, ValOpts{})
			b = b.NumberRangeLowerBound(x, true)
			desc = append(desc, fmt.Sprintf("NumberRangeLowerBound(%#v,true)", x))
		}
	}
	return b.NewValue(), strings.Join(desc, ".")
}

func c06Refine(j *c06Judge) {
	ctx := j.ctx
	for i := 0; i < ctx.N(4000, 80000); i++ {
		t := genTy(ctx.R, 1, TyOpts{Dyn: true, Capsule: true})
		var v cty.Value
		switch ctx.R.Intn(4) {
		case 0:
			v = cty.UnknownVal(t)
		case 1:
			v = genUnknown(ctx.R, t)
		default:
			v = genVal(ctx.R, t, 2, c06Full)
		}
		desc := ""
		j.produce("Refine", func() string { return v.GoString() + ".Refine()." + desc + ".NewValue()" }, func() cty.Value {
			r, d := c06RefineChain(ctx, v)
			desc = d
			return r
		})
		j.produce("RefineNotNull", c06Lit("RefineNotNull", v), func() cty.Value { return v.RefineNotNull() })
	}
}

// ---- conversion ------------------------------------------------------------------------------

// a target type related to t: the same shape with kinds swapped, attributes made
// optional or added, placeholders inserted
func c06RelatedTy(ctx *Ctx, t cty.Type, depth int) cty.Type {
	if ctx.R.Intn(6) == 0 {
		return cty.DynamicPseudoType
	}
	switch {
	case t.IsListType() || t.IsSetType() || t.IsMapType():
		e := c06RelatedTy(ctx, t.ElementType(), depth+1)
		switch ctx.R.Intn(5) {
		case 0:
			return cty.List(e)
		case 1:
			return cty.Set(e)
		case 2:
			return cty.Map(e)
		}
		switch {
		case t.IsListType():
			return cty.List(e)
		case t.IsSetType():
			return cty.Set(e)
		default:
			return cty.Map(e)
		}
	case t.IsTupleType():
		es := t.TupleElementTypes()
		if len(es) > 0 && ctx.R.Intn(3) == 0 {
			e := c06RelatedTy(ctx, es[0], depth+1)
			if ctx.R.Intn(2) == 0 {
				return cty.List(e)
			}
			return cty.Set(e)
		}
		n := make([]cty.Type, len(es))
		for i := range es {
			n[i] = c06RelatedTy(ctx, es[i], depth+1)
		}
		return cty.Tuple(n)
	case t.IsObjectType():
		atys := t.AttributeTypes()
		if len(atys) > 0 && ctx.R.Intn(4) == 0 {
			for _, a := range atys {
				return cty.Map(c06RelatedTy(ctx, a, depth+1))
			}
		}
		n := map[string]cty.Type{}
		var opt []string
		for _, k := range sortedKeys(atys) {
			if ctx.R.Intn(8) == 0 {
				continue // attribute dropped from the target
			}
			n[k] = c06RelatedTy(ctx, atys[k], depth+1)
			if ctx.R.Intn(4) == 0 {
				opt = append(opt, k)
			}
		}
		if ctx.R.Intn(2) == 0 {
			k := attrNames[ctx.R.Intn(len(attrNames))]
			if _, ok := n[k]; !ok {
				n[k] = genTy(ctx.R, 1, TyOpts{Dyn: true, Opt: true})
				opt = append(opt, k)
			}
		}
		if len(opt) > 0 {
			return cty.ObjectWithOptionalAttrs(n, opt)
		}
		return cty.Object(n)
	case t == cty.DynamicPseudoType:
		return genTy(ctx.R, 1, TyOpts{Dyn: true, Opt: true})
	default:
		switch ctx.R.Intn(6) {
		case 0:
			return cty.String
		case 1:
			return cty.Number
		case 2:
			return cty.Bool
		}
		return t
	}
}

// c06OptCause explains an optional-attribute annotation left in a conversion result: it descends
// result and source in parallel to the first member whose type still carries the annotation and
// says what the source had there.
func c06OptCause(src, res cty.Value) string {
	for depth := 0; depth < 12; depth++ {
		ru, _ := res.Unmark()
		su, _ := src.Unmark()
		rt := ru.Type()
		state := "known"
		if ru.IsNull() {
			state = "null"
		} else if !ru.IsKnown() {
			state = "unknown"
		}
		if state != "known" {
			return state + "-result-for-" + c06Kind(su.Type()) + "-source"
		}
		srcUsable := su.IsKnown() && !su.IsNull()
		switch {
		case rt.IsObjectType():
			found := false
			for _, name := range sortedKeys(rt.AttributeTypes()) {
				if !tyHasOptional(rt.AttributeType(name)) {
					continue
				}
				found = true
				res = ru.GetAttr(name)
				st := su.Type()
				switch {
				case srcUsable && st.IsObjectType() && st.HasAttribute(name):
					src = su.GetAttr(name)
				case srcUsable && st.IsMapType() && su.HasIndex(cty.StringVal(name)).True():
					src = su.Index(cty.StringVal(name))
				default:
					state := "known"
					if r, _ := res.Unmark(); r.IsNull() {
						state = "null"
					} else if !r.IsKnown() {
						state = "unknown"
					}
					return state + "-for-attribute-missing-from-" + c06Kind(st) + "-source"
				}
				break
			}
			if !found {
				return "annotation-on-the-object-itself"
			}
		case rt.IsListType() || rt.IsSetType() || rt.IsMapType() || rt.IsTupleType():
			if ru.LengthInt() == 0 {
				return "empty-" + c06Kind(rt) + "-from-" + c06Kind(su.Type()) + "-source"
			}
			if !srcUsable || !su.CanIterateElements() || su.LengthInt() == 0 {
				return "members-of-" + c06Kind(rt) + "-without-source-members"
			}
			ri, si := ru.ElementIterator(), su.ElementIterator()
			advanced := false
			for ri.Next() && si.Next() {
				_, re := ri.Element()
				_, se := si.Element()
				if tyHasOptional(re.Type()) {
					res, src, advanced = re, se, true
					break
				}
			}
			if !advanced {
				return "member-of-" + c06Kind(rt)
			}
		default:
			return "leaf-" + c06Kind(rt)
		}
	}
	return "deep"
}

// targets with optional attributes nested inside optional attributes, for sources that lack them
func c06OptionalTarget(ctx *Ctx, v cty.Value) cty.Type {
	t := v.Type()
	atys := map[string]cty.Type{}
	var opt []string
	switch {
	case t.IsObjectType():
		for k, a := range t.AttributeTypes() {
			atys[k] = a
		}
	case t.IsMapType():
		for _, k := range []string{"a", "b", "k"} {
			if ctx.R.Intn(2) == 0 {
				atys[k] = t.ElementType()
			}
		}
	default:
		return cty.List(c06OptionalTarget(ctx, cty.EmptyObjectVal))
	}
	for k := ctx.R.Intn(3); k >= 0; k-- {
		name := []string{"n", "zz", "m", "d"}[ctx.R.Intn(4)]
		atys[name] = genTy(ctx.R, 2, TyOpts{Dyn: true, Opt: true, MaxWidth: 2})
		opt = append(opt, name)
	}
	return cty.ObjectWithOptionalAttrs(atys, opt)
}

func c06Convert(j *c06Judge) {
	ctx := j.ctx
	for i := 0; i < ctx.N(6000, 150000); i++ {
		o := c06Full
		if i%3 == 0 {
			o = c06Known
		}
		v := genVal(ctx.R, genTy(ctx.R, 2, TyOpts{Dyn: true}), 2, o)
		var want cty.Type
		switch ctx.R.Intn(8) {
		case 0:
			want = genTy(ctx.R, 2, TyOpts{Dyn: true, Opt: true})
		case 1:
			want = mutateTy(ctx.R, v.Type(), TyOpts{Dyn: true, Opt: true})
		case 2, 3:
			if ctx.R.Intn(2) == 0 {
				e := genTy(ctx.R, 1, TyOpts{})
				if ctx.R.Intn(2) == 0 {
					v = genVal(ctx.R, cty.Map(e), 2, o)
				} else {
					v = genVal(ctx.R, genTy(ctx.R, 2, TyOpts{}), 2, o)
				}
			}
			want = c06OptionalTarget(ctx, v)
			switch ctx.R.Intn(4) {
			case 0:
				want = []cty.Type{cty.List(want), cty.Map(want), cty.Tuple([]cty.Type{want})}[ctx.R.Intn(3)]
				v = []cty.Value{cty.ListVal([]cty.Value{v}), cty.TupleVal([]cty.Value{v}), cty.ObjectVal(map[string]cty.Value{"k": v})}[ctx.R.Intn(3)]
			case 1:
				// the annotated object below TWO directly nested collection layers, reached through a
				// null / absent / unknown position (where the type is taken from the constraint)
				inner := want
				want = []cty.Type{cty.List(cty.List(inner)), cty.Map(cty.List(inner)), cty.List(cty.Map(inner)), cty.Set(cty.List(inner)), cty.Map(cty.Map(inner))}[ctx.R.Intn(5)]
				switch ctx.R.Intn(4) {
				case 0:
					v = cty.NullVal(cty.DynamicPseudoType)
				case 1:
					v = cty.NullVal(want.WithoutOptionalAttributesDeep())
				case 2:
					v = cty.UnknownVal(cty.DynamicPseudoType)
				default:
					// an object that lacks an optional attribute of that doubly nested type
					want = cty.ObjectWithOptionalAttrs(map[string]cty.Type{"k": cty.String, "deep": want}, []string{"deep"})
					v = cty.ObjectVal(map[string]cty.Value{"k": cty.StringVal("x")})
				}
			}
		default:
			want = c06RelatedTy(ctx, v.Type(), 0)
		}
		j.nextCause = func(res cty.Value) string {
			if !tyHasOptional(res.Type()) {
				return ""
			}
			return c06OptCause(v, res)
		}
		j.produce("convert.Convert", func() string { return "convert.Convert(" + v.GoString() + ", " + want.GoString() + ")" }, func() cty.Value {
			r, err := convert.Convert(v, want)
			if err != nil {
				j.ctx.Tag("convert:err")
				return cty.NilVal
			}
			j.ctx.Tag("convert:ok")
			return r
		})
	}
	// unification: the conversions it hands out, applied
	for i := 0; i < ctx.N(1500, 30000); i++ {
		k := 2 + ctx.R.Intn(2)
		vs := make([]cty.Value, k)
		tys := make([]cty.Type, k)
		base := genTy(ctx.R, 2, TyOpts{Dyn: true})
		for x := range vs {
			t := base
			if ctx.R.Intn(2) == 0 {
				t = c06RelatedTy(ctx, base, 0)
				if tyHasOptional(t) {
					t = base
				}
			}
			vs[x] = genVal(ctx.R, t, 2, c06Full)
			tys[x] = vs[x].Type()
		}
		try(func() {
			var ut cty.Type
			var convs []convert.Conversion
			if ctx.R.Intn(2) == 0 {
				ut, convs = convert.Unify(tys)
			} else {
				ut, convs = convert.UnifyUnsafe(tys)
			}
			if ut == cty.NilType {
				return
			}
			for x, c := range convs {
				if c == nil {
					continue
				}
				x, c := x, c
				j.produce("convert.Unify:conversion", func() string { return fmt.Sprintf("Unify(%#v)[%d](%#v)", tys, x, vs[x]) }, func() cty.Value {
					r, err := c(vs[x])
					if err != nil {
						return cty.NilVal
					}
					return r
				})
			}
		})
	}
}

// ---- function calls ---------------------------------------------------------------------------

var c06Funcs = map[string]function.Function{
	"not": stdlib.NotFunc, "and": stdlib.AndFunc, "or": stdlib.OrFunc, "hasindex": stdlib.HasIndexFunc, "index": stdlib.IndexFunc,
	"length": stdlib.LengthFunc, "element": stdlib.ElementFunc, "coalescelist": stdlib.CoalesceListFunc, "compact": stdlib.CompactFunc,
	"contains": stdlib.ContainsFunc, "distinct": stdlib.DistinctFunc, "chunklist": stdlib.ChunklistFunc, "flatten": stdlib.FlattenFunc,
	"keys": stdlib.KeysFunc, "lookup": stdlib.LookupFunc, "merge": stdlib.MergeFunc, "reverselist": stdlib.ReverseListFunc,
	"setproduct": stdlib.SetProductFunc, "slice": stdlib.SliceFunc, "values": stdlib.ValuesFunc, "zipmap": stdlib.ZipmapFunc,
	"assertnotnull": stdlib.AssertNotNullFunc, "csvdecode": stdlib.CSVDecodeFunc, "format": stdlib.FormatFunc, "formatlist": stdlib.FormatListFunc,
	"equal": stdlib.EqualFunc, "notequal": stdlib.NotEqualFunc, "coalesce": stdlib.CoalesceFunc, "jsonencode": stdlib.JSONEncodeFunc,
	"jsondecode": stdlib.JSONDecodeFunc, "abs": stdlib.AbsoluteFunc, "add": stdlib.AddFunc, "sub": stdlib.SubtractFunc, "mul": stdlib.MultiplyFunc,
	"div": stdlib.DivideFunc, "mod": stdlib.ModuloFunc, "gt": stdlib.GreaterThanFunc, "ge": stdlib.GreaterThanOrEqualToFunc,
	"lt": stdlib.LessThanFunc, "le": stdlib.LessThanOrEqualToFunc, "neg": stdlib.NegateFunc, "min": stdlib.MinFunc, "max": stdlib.MaxFunc,
	"int": stdlib.IntFunc, "ceil": stdlib.CeilFunc, "floor": stdlib.FloorFunc, "signum": stdlib.SignumFunc, "parseint": stdlib.ParseIntFunc,
	"regex": stdlib.RegexFunc, "regexall": stdlib.RegexAllFunc, "concat": stdlib.ConcatFunc, "range": stdlib.RangeFunc,
	"sethaselement": stdlib.SetHasElementFunc, "setunion": stdlib.SetUnionFunc, "setintersection": stdlib.SetIntersectionFunc,
	"setsubtract": stdlib.SetSubtractFunc, "setsymmetricdifference": stdlib.SetSymmetricDifferenceFunc, "upper": stdlib.UpperFunc,
	"lower": stdlib.LowerFunc, "reverse": stdlib.ReverseFunc, "strlen": stdlib.StrlenFunc, "substr": stdlib.SubstrFunc, "join": stdlib.JoinFunc,
	"sort": stdlib.SortFunc, "split": stdlib.SplitFunc, "chomp": stdlib.ChompFunc, "indent": stdlib.IndentFunc, "title": stdlib.TitleFunc,
	"trimspace": stdlib.TrimSpaceFunc, "trim": stdlib.TrimFunc, "trimprefix": stdlib.TrimPrefixFunc, "trimsuffix": stdlib.TrimSuffixFunc,
	"replace": stdlib.ReplaceFunc, "regexreplace": stdlib.RegexReplaceFunc, "byteslen": stdlib.BytesLenFunc,
}

// an argument for a parameter of the given type constraint
func c06Arg(ctx *Ctx, pt cty.Type, o ValOpts) cty.Value {
	if pt == cty.Number {
		// small magnitudes only: several stdlib functions allocate in proportion to a numeric
		// argument (indent, range, substr, …) — memory use is another property's subject
		switch ctx.R.Intn(8) {
		case 0:
			if o.Unknown {
				return genUnknown(ctx.R, cty.Number)
			}
		case 1:
			if o.Null {
				return cty.NullVal(cty.Number)
			}
		case 2:
			return cty.NumberFloatVal([]float64{0.5, 1.5, -2.25, 2.5}[ctx.R.Intn(4)])
		case 3:
			v := cty.NumberIntVal(int64(ctx.R.Intn(7) - 2))
			if o.Marks {
				v = v.Mark(markNames[ctx.R.Intn(3)])
			}
			return v
		}
		return cty.NumberIntVal(int64(ctx.R.Intn(7) - 2))
	}
	if pt == cty.String && ctx.R.Intn(3) == 0 {
		return cty.StringVal([]string{"%s-%d", "a,b\nc,d", "[1, {\"é\": null}]", "(a)(b)?", "a", ","}[ctx.R.Intn(6)])
	}
	if pt == cty.DynamicPseudoType {
		switch ctx.R.Intn(4) {
		case 0:
			e := genTy(ctx.R, 1, TyOpts{})
			return genVal(ctx.R, []cty.Type{cty.List(e), cty.Set(e), cty.Map(e)}[ctx.R.Intn(3)], 2, o)
		case 1:
			return genVal(ctx.R, genTy(ctx.R, 2, TyOpts{}), 2, o)
		}
	}
	return genVal(ctx.R, concretize(ctx.R, pt), 2, o)
}

func c06Functions(j *c06Judge) {
	ctx := j.ctx
	names := sortedKeys(c06Funcs)
	for _, name := range names {
		f := c06Funcs[name]
		for i := 0; i < ctx.N(120, 3000); i++ {
			o := c06Full
			switch i % 3 {
			case 0:
				o = c06Plain
			case 1:
				o = c06Known
			}
			var args []cty.Value
			if p, _ := try(func() {
				for _, p := range f.Params() {
					args = append(args, c06Arg(ctx, p.Type, o))
				}
				if vp := f.VarParam(); vp != nil {
					for k := ctx.R.Intn(3); k > 0; k-- {
						if len(args) > 0 && vp.Type == cty.DynamicPseudoType && ctx.R.Intn(2) == 0 {
							u, _ := args[len(args)-1].UnmarkDeep()
							args = append(args, genVal(ctx.R, u.Type(), 2, o)) // same type as the neighbour: concat, merge, coalesce, set algebra
						} else {
							args = append(args, c06Arg(ctx, vp.Type, o))
						}
					}
				}
			}); p {
				continue // a parameter type the generators have no values for (foreign capsule)
			}
			j.produce("function.Call:"+name, c06Lit("stdlib."+name, args...), func() cty.Value {
				r, err := f.Call(args)
				if err != nil {
					j.ctx.Tag("call:err")
					return cty.NilVal
				}
				j.ctx.Tag("call:ok")
				return r
			})
		}
	}
}

// ---- decoders ------------------------------------------------------------------------------------

// placeholders put in some positions of a type (the decoders then carry type information in the data)
func c06Blur(ctx *Ctx, t cty.Type) cty.Type {
	if ctx.R.Intn(5) == 0 {
		return cty.DynamicPseudoType
	}
	switch {
	case t.IsListType():
		return cty.List(c06Blur(ctx, t.ElementType()))
	case t.IsSetType():
		return cty.Set(c06Blur(ctx, t.ElementType()))
	case t.IsMapType():
		return cty.Map(c06Blur(ctx, t.ElementType()))
	case t.IsTupleType():
		es := t.TupleElementTypes()
		n := make([]cty.Type, len(es))
		for i := range es {
			n[i] = c06Blur(ctx, es[i])
		}
		return cty.Tuple(n)
	case t.IsObjectType():
		n := map[string]cty.Type{}
		src := t.AttributeTypes()
		for _, k := range sortedKeys(src) { // sorted: reproducible order of the random draws
			n[k] = c06Blur(ctx, src[k])
		}
		return cty.Object(n)
	}
	return t
}

func c06Codecs(j *c06Judge) {
	ctx := j.ctx
	for i := 0; i < ctx.N(3000, 80000); i++ {
		t := genTy(ctx.R, 2, TyOpts{})
		v := genVal(ctx.R, t, 2, c06Known)
		want := v.Type()
		if ctx.R.Intn(2) == 0 {
			want = c06Blur(ctx, want)
		}
		try(func() {
			buf, err := ctyjson.Marshal(v, want)
			if err != nil {
				return
			}
			j.produce("json.Unmarshal", func() string { return fmt.Sprintf("json.Unmarshal(%q, %#v)", buf, want) }, func() cty.Value {
				r, err := ctyjson.Unmarshal(buf, want)
				if err != nil {
					return cty.NilVal
				}
				return r
			})
			j.produce("json.ImpliedType+Unmarshal", func() string { return fmt.Sprintf("json.ImpliedType+Unmarshal(%q)", buf) }, func() cty.Value {
				it, err := ctyjson.ImpliedType(buf)
				if err != nil {
					return cty.NilVal
				}
				r, err := ctyjson.Unmarshal(buf, it)
				if err != nil {
					return cty.NilVal
				}
				return r
			})
			j.produce("json.SimpleJSONValue", func() string { return fmt.Sprintf("SimpleJSONValue.UnmarshalJSON(%q)", buf) }, func() cty.Value {
				var sv ctyjson.SimpleJSONValue
				if err := sv.UnmarshalJSON(buf); err != nil {
					return cty.NilVal
				}
				return sv.Value
			})
		})
		// msgpack carries unknowns (refined or not) too
		w := genVal(ctx.R, t, 2, ValOpts{Unknown: true, Null: true, Small: true, DynVal: true})
		mwant := w.Type()
		if ctx.R.Intn(2) == 0 {
			mwant = c06Blur(ctx, mwant)
		}
		try(func() {
			buf, err := msgpack.Marshal(w, mwant)
			if err != nil {
				return
			}
			j.produce("msgpack.Unmarshal", func() string { return fmt.Sprintf("msgpack.Unmarshal(%x, %#v)", buf, mwant) }, func() cty.Value {
				r, err := msgpack.Unmarshal(buf, mwant)
				if err != nil {
					return cty.NilVal
				}
				return r
			})
			j.produce("msgpack.ImpliedType+Unmarshal", func() string { return fmt.Sprintf("msgpack.ImpliedType+Unmarshal(%x)", buf) }, func() cty.Value {
				it, err := msgpack.ImpliedType(buf)
				if err != nil {
					return cty.NilVal
				}
				r, err := msgpack.Unmarshal(buf, it)
				if err != nil {
					return cty.NilVal
				}
				return r
			})
		})
	}
	// hand-written documents: strings, keys and attribute names that are not NFC; empty containers for non-empty structural types
	type doc struct {
		name string
		buf  []byte
		ty   cty.Type
		mp   bool
	}
	nonNFC := "é" // e + combining acute
	docs := []doc{
		{"json string not NFC", []byte(`"` + nonNFC + `"`), cty.String, false},
		{"json map key not NFC", []byte(`{"` + nonNFC + `": "` + nonNFC + `"}`), cty.Map(cty.String), false},
		{"json object attr given decomposed", []byte(`{"` + nonNFC + `": 1}`), cty.Object(map[string]cty.Type{nonNFC: cty.Number}), false},
		{"json dynamic with decomposed keys", []byte(`{"value": {"` + nonNFC + `": ["` + nonNFC + `"]}, "type": ["object", {"` + nonNFC + `": ["list", "string"]}]}`), cty.DynamicPseudoType, false},
		{"json set with NFC-equal members", []byte(`["é", "` + nonNFC + `"]`), cty.Set(cty.String), false},
		{"json empty array for tuple(string)", []byte(`[]`), cty.Tuple([]cty.Type{cty.String}), false},
		{"json empty object for object{a}", []byte(`{}`), cty.Object(map[string]cty.Type{"a": cty.String}), false},
		{"msgpack 0x90 for tuple(string)", []byte{0x90}, cty.Tuple([]cty.Type{cty.String}), true},
		{"msgpack 0x80 for object{a}", []byte{0x80}, cty.Object(map[string]cty.Type{"a": cty.String}), true},
		{"msgpack 0x90 nested in list(tuple(string))", []byte{0x91, 0x90}, cty.List(cty.Tuple([]cty.Type{cty.String})), true},
		{"msgpack 0x80 nested in map(object{a})", []byte{0x81, 0xa1, 'k', 0x80}, cty.Map(cty.Object(map[string]cty.Type{"a": cty.String})), true},
		{"msgpack string not NFC", []byte{0xa3, 0x65, 0xcc, 0x81}, cty.String, true},
		{"msgpack map key not NFC", []byte{0x81, 0xa3, 0x65, 0xcc, 0x81, 0xa3, 0x65, 0xcc, 0x81}, cty.Map(cty.String), true},
		{"msgpack set with NFC-equal members", []byte{0x92, 0xa2, 0xc3, 0xa9, 0xa3, 0x65, 0xcc, 0x81}, cty.Set(cty.String), true},
		{"msgpack set with equal numbers", []byte{0x92, 0x01, 0xcb, 0x3f, 0xf0, 0, 0, 0, 0, 0, 0}, cty.Set(cty.Number), true},
	}
	for _, d := range docs {
		d := d
		j.produce("decoder-document", func() string { return fmt.Sprintf("%s: Unmarshal(%x, %#v)", d.name, d.buf, d.ty) }, func() cty.Value {
			var r cty.Value
			var err error
			if d.mp {
				r, err = msgpack.Unmarshal(d.buf, d.ty)
			} else {
				r, err = ctyjson.Unmarshal(d.buf, d.ty)
			}
			if err != nil {
				j.ctx.Tag("document-rejected:" + d.name)
				return cty.NilVal
			}
			j.ctx.Tag("document-accepted:" + d.name)
			return r
		})
	}
}

// ---- gocty -----------------------------------------------------------------------------------------

func c06Gocty(j *c06Judge) {
	ctx := j.ctx
	for i := 0; i < ctx.N(1500, 30000); i++ {
		fam := c18Family[ctx.R.Intn(len(c18Family))]
		ty, _, err := c18Bridge(fam.rt)
		if err != nil {
			continue
		}
		g := &c18Gen{r: ctx.R, mode: c18Mode(ctx.R.Intn(3))}
		var gv reflect.Value
		if p, _ := try(func() { gv = g.gen(fam.rt, 2) }); p {
			continue
		}
		j.produce("gocty.ToCtyValue", func() string { return fmt.Sprintf("gocty.ToCtyValue(%s, %#v)", encGoVal(gv), ty) }, func() cty.Value {
			r, err := gocty.ToCtyValue(gv.Interface(), ty)
			if err != nil {
				return cty.NilVal
			}
			return r
		})
	}
}

// ---- traversal ---------------------------------------------------------------------------------------

func c06Traversal(j *c06Judge) {
	ctx := j.ctx
	for i := 0; i < ctx.N(1500, 30000); i++ {
		v := genVal(ctx.R, genTy(ctx.R, 2, TyOpts{Dyn: true, Capsule: true}), 3, c06Full)
		var paths []cty.Path
		try(func() {
			cty.Walk(v, func(p cty.Path, e cty.Value) (bool, error) {
				j.see("Walk:visited", e, c06Lit("Walk", v))
				paths = append(paths, p.Copy())
				return true, nil
			})
		})
		for _, p := range paths {
			p := p
			j.produce("Path.Apply", func() string { return fmt.Sprintf("%#v.Apply(%#v)", p, v) }, func() cty.Value {
				r, err := p.Apply(v)
				if err != nil {
					return cty.NilVal
				}
				return r
			})
		}
		j.produce("Transform:identity", c06Lit("Transform(id)", v), func() cty.Value {
			r, _ := cty.Transform(v, func(p cty.Path, e cty.Value) (cty.Value, error) { return e, nil })
			return r
		})
		mode := ctx.R.Intn(4)
		j.produce("Transform:rewrite", c06Lit(fmt.Sprintf("Transform(rewrite mode %d)", mode), v), func() cty.Value {
			r, _ := cty.Transform(v, func(p cty.Path, e cty.Value) (cty.Value, error) {
				u, _ := e.Unmark()
				switch {
				case mode == 0 && e.Type() == cty.String && u.IsKnown() && !u.IsNull():
					return cty.StringVal(u.AsString() + "́").WithSameMarks(e), nil // stays a string, new content
				case mode == 1 && e.Type().IsPrimitiveType():
					return cty.UnknownVal(e.Type()).WithSameMarks(e), nil
				case mode == 2 && e.Type().IsPrimitiveType():
					return e.Mark("t"), nil
				case mode == 3 && e.Type().IsPrimitiveType():
					return cty.NullVal(e.Type()), nil
				}
				return e, nil
			})
			return r
		})
	}
}

// ---- ValueSet ------------------------------------------------------------------------------------------

func c06ValueSets(j *c06Judge) {
	ctx := j.ctx
	for i := 0; i < ctx.N(1500, 30000); i++ {
		ety := genTy(ctx.R, 1, TyOpts{})
		o := ValOpts{Unknown: ctx.R.Intn(3) == 0, Null: true, Small: true}
		mk := func() (cty.ValueSet, []cty.Value) {
			s := cty.NewValueSet(ety)
			var ms []cty.Value
			for k := ctx.R.Intn(4); k > 0; k-- {
				m := genVal(ctx.R, ety, 2, o)
				ms = append(ms, m)
				try(func() { s.Add(m) })
			}
			if len(ms) > 0 && ctx.R.Intn(3) == 0 {
				try(func() { s.Remove(ms[0]) })
			}
			return s, ms
		}
		a, am := mk()
		b, bm := mk()
		all := append(append([]cty.Value{}, am...), bm...)
		j.produce("SetValFromValueSet", c06Lit("SetValFromValueSet", am...), func() cty.Value { return cty.SetValFromValueSet(a) })
		for _, op := range []struct {
			name string
			f    func() cty.ValueSet
		}{
			{"Union", func() cty.ValueSet { return a.Union(b) }}, {"Intersection", func() cty.ValueSet { return a.Intersection(b) }},
			{"Subtract", func() cty.ValueSet { return a.Subtract(b) }}, {"SymmetricDifference", func() cty.ValueSet { return a.SymmetricDifference(b) }},
			{"Copy", func() cty.ValueSet { return a.Copy() }},
		} {
			op := op
			j.produce("ValueSet."+op.name, c06Lit("ValueSet."+op.name, all...), func() cty.Value { return cty.SetValFromValueSet(op.f()) })
		}
		try(func() {
			for _, e := range a.Values() {
				j.see("ValueSet.Values", e, c06Lit("ValueSet.Values", am...))
			}
		})
	}
}

// c06EmptyDynDuplicates: sets whose members are the same known, empty collection of dynamic
// element type (bare or nested in a structure), said twice, through every way a set is
// built. Two such members are Equal, so the set must keep one of them.
func c06EmptyDynDuplicates(j *c06Judge) {
	empties := []cty.Value{
		cty.ListValEmpty(cty.DynamicPseudoType), cty.MapValEmpty(cty.DynamicPseudoType), cty.SetValEmpty(cty.DynamicPseudoType),
		cty.ListValEmpty(cty.List(cty.DynamicPseudoType)), cty.MapValEmpty(cty.Set(cty.DynamicPseudoType)),
	}
	var members []cty.Value
	for _, e := range empties {
		members = append(members, e,
			cty.ObjectVal(map[string]cty.Value{"name": cty.StringVal("a"), "deps": e}),
			cty.TupleVal([]cty.Value{e, cty.True}),
			cty.ListVal([]cty.Value{cty.ObjectVal(map[string]cty.Value{"k": e})}))
	}
	for _, m := range members {
		m := m
		for n := 2; n <= 3; n++ {
			ms := make([]cty.Value, n)
			for i := range ms {
				ms[i] = m
			}
			j.produce("SetVal/empty-dynamic-twice", c06Lit("SetVal", ms...), func() cty.Value { return cty.SetVal(ms) })
			j.produce("SetValFromValueSet/empty-dynamic-twice", c06Lit("SetValFromValueSet", ms...), func() cty.Value {
				s := cty.NewValueSet(m.Type())
				for _, x := range ms {
					s.Add(x)
				}
				return cty.SetValFromValueSet(s)
			})
			j.produce("Convert/list-to-set/empty-dynamic-twice", c06Lit("Convert", cty.ListVal(ms)), func() cty.Value {
				v, err := convert.Convert(cty.ListVal(ms), cty.Set(m.Type()))
				if err != nil {
					return cty.NilVal
				}
				return v
			})
			j.produce("Convert/tuple-to-set/empty-dynamic-twice", c06Lit("Convert", cty.TupleVal(ms)), func() cty.Value {
				v, err := convert.Convert(cty.TupleVal(ms), cty.Set(m.Type()))
				if err != nil {
					return cty.NilVal
				}
				return v
			})
			j.produce("Value.Add-set-union/empty-dynamic-twice", c06Lit("SetVal.Union", ms...), func() cty.Value {
				a := cty.NewValueSet(m.Type())
				a.Add(m)
				b := cty.NewValueSet(m.Type())
				b.Add(m)
				return cty.SetValFromValueSet(a.Union(b))
			})
		}
	}
	// members unmarked at the top with a mark inside, through the ValueSet API (SetVal hoists such marks; ValueSet must refuse
	// the member or keep the set free of marks and duplicates — a seeded change made Hash() look at the top level only)
	for _, inner := range []cty.Value{cty.StringVal("alice").Mark("secret"), cty.NumberIntVal(1).Mark("m"), cty.True.Mark("m")} {
		for _, m := range []cty.Value{
			cty.ObjectVal(map[string]cty.Value{"name": inner}),
			cty.TupleVal([]cty.Value{inner, cty.Zero}),
			cty.ListVal([]cty.Value{inner}),
			cty.MapVal(map[string]cty.Value{"k": inner}),
			cty.ObjectVal(map[string]cty.Value{"o": cty.TupleVal([]cty.Value{inner})}),
		} {
			m := m
			j.produce("SetValFromValueSet/member-with-nested-mark", c06Lit("ValueSet.Add x2", m), func() cty.Value {
				s := cty.NewValueSet(m.Type())
				s.Add(m)
				s.Add(m)
				return cty.SetValFromValueSet(s)
			})
			j.produce("AsValueSet/members-with-nested-marks", c06Lit("ListVal.AsValueSet", m, m), func() cty.Value {
				return cty.SetValFromValueSet(cty.ListVal([]cty.Value{m, m}).AsValueSet())
			})
			j.produce("ValueSet.Union/member-with-nested-mark", c06Lit("ValueSet.Union", m), func() cty.Value {
				a := cty.NewValueSet(m.Type())
				a.Add(m)
				b := cty.NewValueSet(m.Type())
				b.Add(m)
				return cty.SetValFromValueSet(a.Union(b))
			})
		}
	}
	for _, src := range []string{`[[],[]]`, `[[],[],[]]`, `[{"deps":[]},{"deps":[]}]`} {
		src := src
		for _, ty := range []cty.Type{cty.Set(cty.List(cty.DynamicPseudoType)), cty.Set(cty.Object(map[string]cty.Type{"deps": cty.List(cty.DynamicPseudoType)}))} {
			ty := ty
			j.produce("json.Unmarshal/empty-dynamic-twice", c06LitS("json.Unmarshal("+src+", "+ty.GoString()+")"), func() cty.Value {
				v, err := ctyjson.Unmarshal([]byte(src), ty)
				if err != nil {
					return cty.NilVal
				}
				return v
			})
		}
	}
}
