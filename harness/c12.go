package main

// C12 — standard functions treat unknown arguments soundly.
//
// For every exported stdlib function (list regenerated from the source): generate
// wholly known, unmarked, in-domain argument lists; where the REAL call succeeds,
// weaken arguments and nested members to TYPED unknowns that are true of what they
// replace (the C01 weakening generator: unrefined, not-null, numeric bounds at and
// next to the value, true prefixes, length bounds around the length) and call
// again.  The predicate is the Lean function `judgeSound` (Covers.lean — the same
// definition the C01/C12 theorems speak about), evaluated by the driver on the
// implementation's own two outcomes: the weakened call must not fail and its
// result must admit the concrete result (type, nullness, numeric and length
// bounds, string prefix, every known part).  Also: wholly known arguments give a
// wholly known result.

import (
	"fmt"
	"strings"

	"github.com/zclconf/go-cty/cty"
)

func init() {
	register("C12", "every exported stdlib function (list regenerated from the source) x wholly known unmarked in-domain argument lists on which the real call succeeds "+
		"x weakenings of arguments and nested members to typed unknowns true of the replaced part (unrefined / not-null / numeric bounds at and next to the value, inclusive and exclusive / "+
		"true string prefixes / length bounds around the length): (a) random arguments x 3 random weakenings; (b) for every function with a collection, structural or dynamically typed parameter, "+
		"structured arguments (every collection argument with 2-3 members, member collections with 1-2, often one type for all dynamically typed parameters, format strings with one verb per argument, in-range indices and present keys) "+
		"x SYSTEMATIC weakenings: an unknown member at each position of each collection argument, at each position one level further down, the same position in all collection arguments at once, "+
		"a pair of positions in two arguments, one argument wholly unknown and refined next to a partly unknown one; (c) witnesses of repaired defects first; "+
		"predicate = Lean judgeSound via the driver on the two real outcomes; per-function counts (pairs, with a nested unknown, weakened call ok, … with a known result) are in the distribution; "+
		"non-trivial = at least one position weakened and the concrete call succeeded; distinct = distinct (function, concrete args, weakened args) wire strings", runC12)
}

// c12Cause names the ROOT CAUSE class of a failing weakened call, so that a
// recorded finding suppresses exactly its own cause:
//   nested-placeholder-type   a weakened argument is an unknown whose type constraint holds the
//                             placeholder INSIDE (list(dynamic), …): the framework's conformance check
//                             and the Type callbacks only know the placeholder at the top
//   set-with-unknown-member   a known set holding an unknown member was passed
//   <kinds>                   otherwise: the refinement kinds used, top-level or nested
func c12Cause(ws []cty.Value, st *wkStats) string {
	for _, w := range ws {
		if t := w.Type(); t != cty.DynamicPseudoType && t.HasDynamicTypes() {
			return "nested-placeholder-type"
		}
	}
	setUnk := false
	var walk func(v cty.Value)
	walk = func(v cty.Value) {
		if !v.IsKnown() || v.IsNull() {
			return
		}
		t := v.Type()
		if t.IsSetType() && !v.IsWhollyKnown() {
			setUnk = true
		}
		if t.IsCollectionType() || t.IsTupleType() || t.IsObjectType() {
			for it := v.ElementIterator(); it.Next(); {
				_, e := it.Element()
				walk(e)
			}
		}
	}
	for _, w := range ws {
		try(func() { walk(w) })
	}
	if setUnk {
		return "set-with-unknown-member"
	}
	var ks []string
	for k := range st.kinds {
		ks = append(ks, k)
	}
	sortStrings(ks)
	for _, w := range ws {
		if w.IsKnown() && !w.IsWhollyKnown() {
			return "nested:" + strings.Join(ks, "+")
		}
	}
	return "top:" + strings.Join(ks, "+")
}

func c12Outcome(v cty.Value, err error, panicked bool) string {
	if panicked || err != nil {
		return "fail"
	}
	return "(ok " + encVal(v) + ")"
}

type c12FnStat struct{ pairs, nested, wok, wunk, cfail int }

type c12Pending struct {
	fn       string
	os, ws   []cty.Value
	ro, rw   cty.Value
	eo, ew   error
	po, pw   bool
	st       *wkStats
	line     string
	pmsg     string
}

func runC12(ctx *Ctx) {
	fns := c11Funcs()
	per := ctx.N(60, 1500)
	var pend []c12Pending
	stat := map[string]*c12FnStat{}
	fstat := func(n string) *c12FnStat {
		if stat[n] == nil {
			stat[n] = &c12FnStat{}
		}
		return stat[n]
	}
	// one paired run: the real call on the weakened arguments, queued for the Lean judge
	pair := func(fn c11Fn, args []cty.Value, ro cty.Value, ws []cty.Value, st *wkStats, scheme string) {
		var rw cty.Value
		var ew error
		pw, pmsg := try(func() { rw, ew = fn.f.Call(ws) })
		if !pw && ew == nil && c12CostlySet(rw) {
			// the set clause of Covers is decided by search (a surjection of members): exponential in the
			// number of partly unknown members; such results are counted, not judged
			ctx.Tag("not-judged:partly-unknown-set-result-with-more-than-6-members")
			return
		}
		line := "judge.c12 " + c11Wire(args) + " " + c11Wire(ws) + " " + c12Outcome(ro, nil, false) + " " + c12Outcome(rw, ew, pw)
		pend = append(pend, c12Pending{fn.name, args, ws, ro, rw, nil, ew, false, pw, st, line, pmsg})
		fs := fstat(fn.name)
		fs.pairs++
		if c12NestedUnknown(ws) {
			fs.nested++
		}
		if !pw && ew == nil {
			fs.wok++
			if !rw.IsKnown() {
				fs.wunk++
			}
		}
		ctx.Tag("scheme:" + scheme)
		c12d12bScenario(ctx, fn.name, args, ws)
		// correspondence: the modelled Impl/Type callbacks (Stdlib/*.lean, written for C13 and exercised there on
		// wholly known arguments only) against the real function on the WEAKENED arguments — their unknown branches
		if mn, ok := c12Modelled[fn.name]; ok {
			if p, _ := try(func() { c13Case(ctx, mn, ws, false) }); p {
				ctx.Tag("correspondence:oracle-panic")
			}
		}
	}
	concrete := func(fn c11Fn, args []cty.Value) (cty.Value, bool) {
		for _, a := range args {
			if !a.IsWhollyKnown() {
				return cty.NilVal, false
			}
		}
		var ro cty.Value
		var eo error
		po, _ := try(func() { ro, eo = fn.f.Call(args) })
		if po || eo != nil {
			ctx.Tag("concrete:fails")
			fstat(fn.name).cfail++
			return cty.NilVal, false
		}
		ctx.Tag("concrete:ok")
		if !ro.IsWhollyKnown() {
			ctx.Fail(Failure{Site: "known-in-known-out", Sig: "spontaneous-unknown:" + fn.name, What: "all arguments are wholly known but the result is not",
				Input: fn.name + " " + c11Wire(args), GoLit: "stdlib." + fn.name + ".Call(" + c11GoArgs(args) + ")", Outcome: ro.GoString()})
		}
		return ro, true
	}
	c12d12bStrlen(ctx) // strlen on unknown arguments against its model (c12_d12b.go)
	byName := map[string]c11Fn{}
	for _, fn := range fns {
		byName[fn.name] = fn
	}
	// case 0: witnesses of repaired defects must pass
	for _, rg := range c12Regressions() {
		fn := byName[rg.fn]
		if ro, ok := concrete(fn, rg.os); ok {
			pair(fn, rg.os, ro, rg.ws, &wkStats{positions: 1}, "regression")
		} else {
			ctx.Probe("regression-witness-concrete-call", false, rg.fn+" "+c11Wire(rg.os))
		}
	}
	for _, fn := range fns {
		ps := fn.f.Params()
		vp := fn.f.VarParam()
		okCalls := 0
		for k := 0; k < per*6 && okCalls < per; k++ {
			n := len(ps)
			if vp != nil {
				n += ctx.R.Intn(3)
			}
			args := make([]cty.Value, n)
			for i := range args {
				p := vp
				if i < len(ps) {
					p = &ps[i]
				}
				a := c11GenArg(ctx, fn.name, i, *p, false)
				a, _ = a.UnmarkDeep()
				args[i] = a
			}
			ro, ok := concrete(fn, args)
			if !ok {
				continue
			}
			okCalls++
			for rep := 0; rep < 3; rep++ {
				ws, st := weakenTuple(ctx, args, nil, wkOpts{p: 0.22})
				if st.positions == 0 {
					continue
				}
				pair(fn, args, ro, ws, st, "random")
			}
		}
		// structured half (c12gen.go): functions with collection / structural / dynamically typed parameters
		if !c12HasCollParam(fn.f) && !c12Shaped[fn.name] {
			continue
		}
		sper := ctx.N(40, 600)
		okCalls = 0
		for k := 0; k < sper*8 && okCalls < sper; k++ {
			var args []cty.Value
			if p, _ := try(func() { args = c12StructArgs(ctx, fn) }); p {
				ctx.Tag("structured:generator-panic")
				continue
			}
			ro, ok := concrete(fn, args)
			if !ok {
				continue
			}
			okCalls++
			for _, w := range c12Systematic(ctx, args, 16) {
				pair(fn, args, ro, w.ws, w.st, w.scheme)
			}
			ws, st := weakenTuple(ctx, args, nil, wkOpts{p: 0.3})
			if st.positions > 0 {
				pair(fn, args, ro, ws, st, "random-on-structured")
			}
			// near-equal twins (c12gen.go): each has its own concrete call
			var tws []c12TwinCase
			if p, _ := try(func() { tws = c12Twins(ctx, fn, args, 6) }); p {
				ctx.Tag("structured:twin-generator-panic")
			}
			for _, tc := range tws {
				if tro, ok := concrete(fn, tc.os); ok {
					pair(fn, tc.os, tro, tc.ws, tc.st, tc.scheme)
				} else {
					ctx.Tag("twin:concrete-call-fails")
				}
			}
		}
	}
	// per-function distribution (starvation must be visible in the evidence)
	for _, fn := range fns {
		fs := fstat(fn.name)
		ctx.res.Dist[fmt.Sprintf("fn:%s pairs", fn.name)] = fs.pairs
		ctx.res.Dist[fmt.Sprintf("fn:%s pairs-with-nested-unknown", fn.name)] = fs.nested
		ctx.res.Dist[fmt.Sprintf("fn:%s weakened-call-ok", fn.name)] = fs.wok
		ctx.res.Dist[fmt.Sprintf("fn:%s weakened-call-ok-known-result", fn.name)] = fs.wok - fs.wunk
		if fs.pairs == 0 {
			ctx.Tag("starved-functions")
		}
		if c12HasCollParam(fn.f) && fs.nested == 0 {
			ctx.Tag("collection-functions-without-nested-unknown")
		}
	}
	lines := make([]string, len(pend))
	for i, p := range pend {
		lines[i] = p.line
	}
	outs, err := drvBatch(lines)
	if err != nil {
		ctx.Probe("driver-judge", false, err.Error())
		return
	}
	for i, p := range pend {
		v := outs[i]
		key := p.fn + " " + c11Wire(p.os) + " => " + c11Wire(p.ws)
		switch {
		case v == "pass":
			ctx.Eval(key, true)
			ctx.Tag("judge:pass")
		case strings.HasPrefix(v, "skip"):
			ctx.Tag("judge:" + strings.ReplaceAll(v, " ", "-"))
		case strings.HasPrefix(v, "fail"):
			ctx.Eval(key, true)
			why := strings.TrimPrefix(v, "fail ")
			out := "weakened call: "
			switch {
			case p.pw:
				out += "Go panic " + trunc(p.pmsg, 120)
			case p.ew != nil:
				out += "error " + trunc(p.ew.Error(), 160)
			default:
				out += p.rw.GoString()
			}
			cause := c12Cause(p.ws, p.st)
			if why == "result-not-covered" && cause != "nested-placeholder-type" {
				// which clause of "admits" failed (for the signature only; the verdict is Lean's)
				try(func() {
					if !p.rw.IsKnown() && p.rw.Type().IsCollectionType() && p.ro.IsKnown() && !p.ro.IsNull() {
						n := p.ro.LengthInt()
						if p.rw.Range().LengthLowerBound() > n {
							cause = "length-lower-bound-excludes-result"
						} else if p.rw.Range().LengthUpperBound() < n {
							cause = "length-upper-bound-excludes-result"
						}
					} else if p.rw.IsKnown() && !p.rw.IsNull() && p.rw.Type().IsCollectionType() && p.ro.IsKnown() && !p.ro.IsNull() &&
						p.ro.Type().IsCollectionType() && p.rw.LengthInt() > p.ro.LengthInt() {
						cause = "known-result-longer-than-concrete-result"
					} else if p.rw.IsKnown() && !p.rw.IsNull() && p.ro.IsKnown() && !p.ro.IsNull() && (p.rw.Type().IsListType() || p.rw.Type().IsTupleType()) &&
						p.rw.Type().Equals(p.ro.Type()) && p.rw.LengthInt() == p.ro.LengthInt() {
						// same shape: is it a KNOWN member of the weakened result that differs from the concrete one?
						ia, ib := p.rw.ElementIterator(), p.ro.ElementIterator()
						for ia.Next() && ib.Next() {
							_, a := ia.Element()
							_, b := ib.Element()
							if a.IsWhollyKnown() && !a.RawEquals(b) {
								cause = "known-element-differs"
							}
						}
					}
				})
			}
			if why == "result-not-covered" && cause != "nested-placeholder-type" && p.rw.Type() == cty.Bool && p.rw.IsKnown() && c12EqualsBoundDefect(p.os, p.ws) {
				// a definite boolean answer built on Value.Equals, and Equals itself shows the recorded C01 defect on this input
				cause = "equals-false-on-inclusive-bound-of-other-precision"
			}
			if why == "result-not-covered" && (strings.HasPrefix(cause, "nested:") || strings.HasPrefix(cause, "top:")) &&
				p.rw.Type() == cty.Bool && p.rw.IsKnown() && !p.rw.IsNull() && p.ro.Type() == cty.Bool && p.ro.IsKnown() && !p.ro.IsNull() {
				// both answers are definite and they differ
				cause = "definite-answer-differs"
			}
			if why == "result-not-covered" && cause == "definite-answer-differs" && p.fn == "SetHasElementFunc" && len(p.ws) == 2 && len(p.os) == 2 {
				// sethaselement is Value.HasElement: is it the recorded C01 defect (a definite False for a
				// candidate element that is known at the top and holds an unknown inside) on this very input?
				try(func() {
					set, _ := p.ws[0].Unmark()
					needle, _ := p.ws[1].UnmarkDeep()
					if set.IsKnown() && !set.IsNull() && needle.IsKnown() && !needle.IsNull() && !needle.IsWhollyKnown() && set.Type().IsSetType() {
						if h := set.HasElement(needle); h.IsKnown() && h.False() && p.rw.False() {
							cause = "haselement-false-for-partly-unknown-element"
						}
					}
				})
			}
			ctx.Fail(Failure{Site: "sound", Sig: why + ":" + cause + ":" + p.fn,
				What:    fmt.Sprintf("%s: the concrete call gives %s, the weakened call does not admit it (%s)", p.fn, p.ro.GoString(), why),
				Input:   key,
				GoLit:   "stdlib." + p.fn + ".Call(" + c11GoArgs(p.os) + ") vs .Call(" + c11GoArgs(p.ws) + ")",
				Outcome: out})
		default:
			ctx.Probe("driver-judge", false, "unexpected verdict "+v+" for "+trunc(p.line, 300))
		}
	}
}
