package main

// C19 — walk, transform, paths, path sets.
//
// The REAL cty.Walk / cty.Transform / cty.TransformWithTransformer /
// Value.UnmarkDeepWithPaths / MarkWithPaths / Path.Apply / Path.Equals / PathSet
// of /repo against the Lean model (CtyModel.Walk, CtyModel.Path,
// CtyModel.PathSet through Driver/HWalk.lean), and the property predicates
// evaluated on the implementation's own outputs:
//
//	walk-once          every member visited once, parent before children
//	walk-lead-back     a visited path without set steps, applied to the root, yields
//	                   the visited member plus the marks of its ancestors
//	transform-id       identity transform returns a RawEquals value and visits the
//	                   same paths as Walk
//	transform-replace  replacing one member leaves the disjoint members alone
//	unmark-remark      UnmarkDeepWithPaths then MarkWithPaths restores the value
//	apply-ok-iff       Path.Apply succeeds exactly when every step names a member
//	apply-no-panic     Path.Apply never panics
//	pathset-*          (c19ps.go) PathSet answers are those of a set of paths
//
// Callbacks are described by a small rule language interpreted identically by
// this file (as Go closures handed to the real functions) and by the driver (as
// Lean functions handed to the model).  What the model is told instead of
// computing it — set hashes, set iteration order, Go map order of
// transform's object branch — is read off the real run and sent along.

import (
	"errors"
	"fmt"
	"math/big"
	"sort"
	"strings"

	"github.com/zclconf/go-cty/cty"
)

func init() {
	register("C19", "generated values of every kind (nested, marked at any depth, unknown and null members, sets incl. hash-tied members) x callbacks from a rule language "+
		"(descend/prune/error/panic, keep/replace/mark/unmark, by path or by call number) x valid and invalid paths; PathSet histories: every history of length <= 4 over three paths "+
		"plus long random ones. non-trivial = the value has at least one nested member / the path has at least one step / the history has >= 3 calls; "+
		"distinct = distinct canonical wire strings", runC19)
}

// ---- wire -------------------------------------------------------------------

func encStep(s cty.PathStep) string {
	switch s := s.(type) {
	case cty.GetAttrStep:
		return "(a " + encStr(s.Name) + ")"
	case cty.IndexStep:
		return "(i " + encVal(s.Key) + ")"
	}
	return "(bad)"
}

func encPath(p cty.Path) string {
	parts := make([]string, len(p))
	for i, s := range p {
		parts[i] = encStep(s)
	}
	return "(" + strings.Join(parts, " ") + ")"
}

func pathLit(p cty.Path) string { return fmt.Sprintf("%#v", p) }

type c19Visit struct {
	kind string // "" (walk / post-order callback), "e", "x"
	p    cty.Path
	v    cty.Value
}

func encLog(l []c19Visit) string {
	var sb strings.Builder
	sb.WriteString("(log")
	for _, e := range l {
		if e.kind == "" {
			sb.WriteString(" (" + encPath(e.p) + " " + encVal(e.v) + ")")
		} else {
			sb.WriteString(" (" + e.kind + " " + encPath(e.p) + " " + encVal(e.v) + ")")
		}
	}
	sb.WriteString(")")
	return sb.String()
}

// ---- what the model is told ---------------------------------------------------

type c19Orc struct {
	hs  map[string]int
	its map[string][]int
}

func newOrc() *c19Orc { return &c19Orc{map[string]int{}, map[string][]int{}} }

// ssetMembers splits "(sset (id payload) …)" into the payload strings.
func ssetMembers(dump string) []string {
	var out []string
	if !strings.HasPrefix(dump, "(sset") {
		return out
	}
	body := dump[len("(sset") : len(dump)-1]
	depth, start := 0, -1
	for i := 0; i < len(body); i++ {
		switch body[i] {
		case '(':
			if depth == 0 {
				start = i
			}
			depth++
		case ')':
			depth--
			if depth == 0 {
				item := body[start+1 : i] // "id payload"
				sp := strings.IndexByte(item, ' ')
				out = append(out, item[sp+1:])
			}
		}
	}
	return out
}

func (o *c19Orc) hash(v cty.Value) {
	try(func() {
		u, _ := v.UnmarkDeep()
		h := cty.VerifHash(u)
		o.hs[encVal(u)] = h
	})
}

// collect records iteration order and member hashes of every set inside v.
func (o *c19Orc) collect(v cty.Value) {
	if v == cty.NilVal {
		return
	}
	v, _ = v.Unmark()
	if v.IsNull() || !v.IsKnown() {
		return
	}
	ty := v.Type()
	switch {
	case ty.IsSetType():
		key := encVal(v)
		if _, ok := o.its[key]; ok {
			return
		}
		members := ssetMembers(cty.VerifDump(v))
		used := make([]bool, len(members))
		idx := []int{}
		for it := v.ElementIterator(); it.Next(); {
			_, e := it.Element()
			d := cty.VerifDump(e)
			for i, m := range members {
				if !used[i] && m == d {
					used[i] = true
					idx = append(idx, i)
					break
				}
			}
			o.hash(e)
			o.collect(e)
		}
		o.its[key] = idx
	case ty.IsListType() || ty.IsTupleType() || ty.IsMapType() || ty.IsObjectType():
		for it := v.ElementIterator(); it.Next(); {
			_, e := it.Element()
			o.collect(e)
		}
	}
}

func (o *c19Orc) enc() string {
	var rows []string
	for k, h := range o.hs {
		rows = append(rows, fmt.Sprintf("(h %s %d)", k, h))
	}
	for k, idx := range o.its {
		ss := make([]string, len(idx))
		for i, x := range idx {
			ss[i] = fmt.Sprint(x)
		}
		rows = append(rows, "(it "+k+" ("+strings.Join(ss, " ")+"))")
	}
	sort.Strings(rows)
	return "(orc " + strings.Join(rows, " ") + ")"
}

// schedOf reads the order in which transform's object branch visited attributes.
func schedOf(log []c19Visit, firstKind string) string {
	order := map[string][]string{}
	var keys []string
	for _, e := range log {
		if e.kind != firstKind {
			continue
		}
		// every attribute step on the way counts: a member's events come before
		// its container's Exit (which may never come if the run is cut short)
		for i, s := range e.p {
			ga, ok := s.(cty.GetAttrStep)
			if !ok {
				continue
			}
			pk := encPath(e.p[:i])
			if _, seen := order[pk]; !seen {
				keys = append(keys, pk)
			}
			dup := false
			for _, n := range order[pk] {
				if n == ga.Name {
					dup = true
				}
			}
			if !dup {
				order[pk] = append(order[pk], ga.Name)
			}
		}
	}
	var rows []string
	for _, pk := range keys {
		ns := make([]string, len(order[pk]))
		for i, n := range order[pk] {
			ns[i] = encStr(n)
		}
		rows = append(rows, "("+pk+" ("+strings.Join(ns, " ")+"))")
	}
	return "(sched " + strings.Join(rows, " ") + ")"
}

// ---- the rule language ----------------------------------------------------------

type c19Rule struct {
	at    string // wire form of the path, or "" for a call-number rule
	nth   int
	act   string // walk: d1 d0 err panic; transform: keep ret err panic mark unmark
	val   cty.Value
	marks []string
}

func (r c19Rule) enc() string {
	sel := fmt.Sprintf("nth %d", r.nth)
	if r.at != "" {
		sel = "at " + r.at
	}
	act := r.act
	switch r.act {
	case "ret":
		act = "(ret " + encVal(r.val) + ")"
	case "mark":
		ms := make([]string, len(r.marks))
		for i, m := range r.marks {
			ms[i] = encStr(m)
		}
		act = "(mark " + strings.Join(ms, " ") + ")"
	}
	return "(" + sel + " " + act + ")"
}

func (r c19Rule) lit() string {
	sel := fmt.Sprintf("call #%d", r.nth)
	if r.at != "" {
		sel = "path " + r.at
	}
	switch r.act {
	case "ret":
		return sel + " -> return " + r.val.GoString()
	case "mark":
		return sel + " -> mark " + strings.Join(r.marks, ",")
	}
	return sel + " -> " + r.act
}

func encRules(rs []c19Rule) string {
	ss := make([]string, len(rs))
	for i, r := range rs {
		ss[i] = r.enc()
	}
	return strings.Join(ss, " ")
}

func litRules(rs []c19Rule) string {
	ss := make([]string, len(rs))
	for i, r := range rs {
		ss[i] = r.lit()
	}
	return "[" + strings.Join(ss, "; ") + "]"
}

func hitRule(rs []c19Rule, n int, p cty.Path) *c19Rule {
	pk := ""
	for i := range rs {
		if rs[i].at == "" {
			if rs[i].nth == n {
				return &rs[i]
			}
			continue
		}
		if pk == "" {
			pk = encPath(p)
		}
		if rs[i].at == pk {
			return &rs[i]
		}
	}
	return nil
}

var errCb = errors.New("cb")

// walkReal runs the real cty.Walk with the callback the rules describe.
func walkReal(v cty.Value, dflt string, rules []c19Rule) (log []c19Visit, outcome string) {
	var err error
	n := 0
	pan, _ := try(func() {
		err = cty.Walk(v, func(p cty.Path, x cty.Value) (bool, error) {
			pc := p.Copy()
			log = append(log, c19Visit{"", pc, x})
			act := dflt
			if r := hitRule(rules, n, pc); r != nil {
				act = r.act
			}
			n++
			switch act {
			case "d0":
				return false, nil
			case "err":
				return true, errCb
			case "panic":
				panic("cb")
			}
			return true, nil
		})
	})
	switch {
	case pan:
		return log, "panic"
	case err != nil:
		return log, "err"
	}
	return log, "ok -"
}

func runTAct(r *c19Rule, x cty.Value) (cty.Value, error) {
	if r == nil {
		return x, nil
	}
	switch r.act {
	case "ret":
		return r.val, nil
	case "err":
		return cty.DynamicVal, errCb
	case "panic":
		panic("cb")
	case "mark":
		ms := make([]interface{}, len(r.marks))
		for i, m := range r.marks {
			ms[i] = m
		}
		return x.WithMarks(cty.NewValueMarks(ms...)), nil
	case "unmark":
		u, _ := x.Unmark()
		return u, nil
	}
	return x, nil
}

type c19T struct {
	enter, exit []c19Rule
	log         []c19Visit
	seen        []cty.Value
}

func (t *c19T) Enter(p cty.Path, x cty.Value) (cty.Value, error) {
	pc := p.Copy()
	r := hitRule(t.enter, len(t.log), pc)
	t.log = append(t.log, c19Visit{"e", pc, x})
	out, err := runTAct(r, x)
	t.seen = append(t.seen, out)
	return out, err
}

func (t *c19T) Exit(p cty.Path, x cty.Value) (cty.Value, error) {
	pc := p.Copy()
	r := hitRule(t.exit, len(t.log), pc)
	t.log = append(t.log, c19Visit{"x", pc, x})
	out, err := runTAct(r, x)
	t.seen = append(t.seen, out)
	return out, err
}

// transformReal runs cty.Transform (post) or cty.TransformWithTransformer (full).
func transformReal(v cty.Value, mode string, enter, exit []c19Rule) (log []c19Visit, seen []cty.Value, res cty.Value, outcome string) {
	var err error
	var pan bool
	if mode == "post" {
		pan, _ = try(func() {
			res, err = cty.Transform(v, func(p cty.Path, x cty.Value) (cty.Value, error) {
				pc := p.Copy()
				log = append(log, c19Visit{"", pc, x})
				out, e := runTAct(hitRule(exit, -1, pc), x)
				seen = append(seen, out)
				return out, e
			})
		})
	} else {
		t := &c19T{enter: enter, exit: exit}
		pan, _ = try(func() { res, err = cty.TransformWithTransformer(v, t) })
		log, seen = t.log, t.seen
	}
	switch {
	case pan:
		return log, seen, cty.NilVal, "panic"
	case err != nil:
		return log, seen, cty.NilVal, "err"
	}
	return log, seen, res, "ok " + encVal(res)
}

// ---- generators ---------------------------------------------------------------------

var c19ValOpts = ValOpts{Unknown: true, Null: true, Marks: true, DynVal: true}

// hash-tied numbers: equal to 10 significant digits, so one bucket; Less orders them
var c19Tied = []string{"1.00000000001", "1", "1.00000000002", "1.000000000005"}

func c19TiedSet(ctx *Ctx) cty.Value {
	perm := ctx.R.Perm(len(c19Tied))
	n := 2 + ctx.R.Intn(len(c19Tied)-1)
	vs := make([]cty.Value, 0, n)
	for _, i := range perm[:n] {
		vs = append(vs, cty.MustParseNumberVal(c19Tied[i]))
	}
	return cty.SetVal(vs)
}

func c19GenVal(ctx *Ctx, depth int) cty.Value {
	r := ctx.R
	switch r.Intn(12) {
	case 0:
		// a structure around a hash-tied set
		s := c19TiedSet(ctx)
		switch r.Intn(4) {
		case 0:
			return s
		case 1:
			return cty.ObjectVal(map[string]cty.Value{"s": s.Mark("m1"), "n": cty.NumberIntVal(1)})
		case 2:
			return cty.TupleVal([]cty.Value{s, cty.StringVal("a").Mark("m2")}).Mark("m3")
		default:
			return cty.ListVal([]cty.Value{s, c19TiedSet(ctx)})
		}
	case 1:
		// heavily marked
		o := c19ValOpts
		t := genTy(r, depth, TyOpts{Dyn: true})
		v := genVal(r, t, depth, o)
		if r.Intn(2) == 0 {
			v = v.Mark(markNames[r.Intn(len(markNames))])
		}
		return v
	}
	t := genTy(r, depth, TyOpts{Dyn: true, Capsule: r.Intn(6) == 0})
	return genVal(r, t, depth, c19ValOpts)
}

// ---- independent reference: the members of a value --------------------------------------

type c19Kid struct {
	step cty.PathStep
	v    cty.Value
}

func c19Kids(v cty.Value) []c19Kid {
	if v.IsNull() || !v.IsKnown() {
		return nil
	}
	raw, _ := v.Unmark()
	ty := raw.Type()
	var out []c19Kid
	switch {
	case ty.IsObjectType():
		for _, n := range sortedKeys(ty.AttributeTypes()) {
			out = append(out, c19Kid{cty.GetAttrStep{Name: n}, raw.GetAttr(n)})
		}
	case ty.IsListType() || ty.IsTupleType():
		for i, e := range raw.AsValueSlice() {
			out = append(out, c19Kid{cty.IndexStep{Key: cty.NumberIntVal(int64(i))}, e})
		}
	case ty.IsMapType():
		m := raw.AsValueMap()
		for _, k := range sortedKeys(m) {
			out = append(out, c19Kid{cty.IndexStep{Key: cty.StringVal(k)}, m[k]})
		}
	case ty.IsSetType():
		for _, e := range raw.AsValueSlice() {
			out = append(out, c19Kid{cty.IndexStep{Key: e}, e})
		}
	}
	return out
}

// c19RefReplace: the reference for "transform with a callback that replaces the node at path `target`
// by repl and leaves every other node alone": children first, through the public constructors.
func c19RefReplace(v cty.Value, p cty.Path, target string, repl cty.Value) cty.Value {
	out := v
	if v.IsKnown() && !v.IsNull() {
		raw, marks := v.Unmark()
		kids := c19Kids(v)
		if len(kids) > 0 {
			vals := make([]cty.Value, len(kids))
			for i, k := range kids {
				vals[i] = c19RefReplace(k.v, append(p.Copy(), k.step), target, repl)
			}
			ty := raw.Type()
			var nv cty.Value
			switch {
			case ty.IsObjectType():
				m := map[string]cty.Value{}
				for i, k := range kids {
					m[k.step.(cty.GetAttrStep).Name] = vals[i]
				}
				nv = cty.ObjectVal(m)
			case ty.IsMapType():
				m := map[string]cty.Value{}
				for i, k := range kids {
					m[k.step.(cty.IndexStep).Key.AsString()] = vals[i]
				}
				nv = cty.MapVal(m)
			case ty.IsListType():
				nv = cty.ListVal(vals)
			case ty.IsTupleType():
				nv = cty.TupleVal(vals)
			case ty.IsSetType():
				nv = cty.SetVal(vals)
			}
			out = nv.WithMarks(marks)
		}
	}
	if encPath(p) == target {
		return repl
	}
	return out
}

// c19OrderOnly: a and b are sets (possibly marked) with the same members and differ only in the
// iteration order of members that setRules.Less does not order (recorded under C03)
func c19OrderOnly(a, b cty.Value) bool {
	ok := false
	try(func() {
		ua, ma := a.UnmarkDeep()
		ub, mb := b.UnmarkDeep()
		if !ma.Equal(mb) || !ua.Type().Equals(ub.Type()) || !ua.IsWhollyKnown() || !ub.IsWhollyKnown() {
			return
		}
		ok = ua.Equals(ub).True()
	})
	return ok
}

func c19Count(v cty.Value) int {
	n := 1
	for _, k := range c19Kids(v) {
		n += c19Count(k.v)
	}
	return n
}

func hasSetStep(root cty.Value, p cty.Path) bool {
	// a step is a set step when its key is neither a number nor a string, or the
	// container reached is a set; decided along the reference members
	cur := root
	for _, s := range p {
		raw, _ := cur.Unmark()
		if raw.IsKnown() && !raw.IsNull() && raw.Type().IsSetType() {
			return true
		}
		found := false
		for _, k := range c19Kids(cur) {
			if encStep(k.step) == encStep(s) {
				cur, found = k.v, true
				break
			}
		}
		if !found {
			return false
		}
	}
	return false
}

func marksUnion(ms ...cty.ValueMarks) cty.ValueMarks {
	out := cty.ValueMarks{}
	for _, m := range ms {
		for k := range m {
			out[k] = struct{}{}
		}
	}
	return out
}

// ---- the scenarios -------------------------------------------------------------------------

func c19WalkCase(ctx *Ctx, v cty.Value) []c19Visit {
	orc := newOrc()
	orc.collect(v)
	ow := orc.enc()
	vw := encVal(v)
	lit := v.GoString()

	log, outcome := walkReal(v, "d1", nil)
	ctx.Add("walk.walk", encLog(log)+" "+outcome, ow, "(wcb d1)", vw)
	ctx.Tag("walk:descend")
	ctx.Eval("walk "+vw, len(log) > 1)

	// walk-once
	if outcome != "ok -" {
		ctx.Fail(Failure{Site: "walk-once", Sig: "walk-failed", What: "Walk with an always-descend callback did not return nil", Input: vw, GoLit: lit, Outcome: outcome})
		return log
	}
	if want := c19Count(v); want != len(log) {
		ctx.Fail(Failure{Site: "walk-once", Sig: "count", What: fmt.Sprintf("Walk made %d visits, the value has %d members", len(log), want), Input: vw, GoLit: lit, Outcome: encLog(log)})
	}
	seen := map[string]int{}
	for i, e := range log {
		pk := encPath(e.p)
		if _, dup := seen[pk]; dup && !hasSetStep(v, e.p) {
			ctx.Fail(Failure{Site: "walk-once", Sig: "twice", What: "a path was visited twice", Input: vw + " " + pk, GoLit: lit, Outcome: encLog(log)})
		}
		if len(e.p) > 0 {
			if j, ok := seen[encPath(e.p[:len(e.p)-1])]; !ok || j >= i {
				ctx.Fail(Failure{Site: "walk-once", Sig: "child-before-parent", What: "a member was visited before its container", Input: vw + " " + pk, GoLit: lit, Outcome: encLog(log)})
			}
		}
		if _, dup := seen[pk]; !dup {
			seen[pk] = i
		}
	}

	// walk-lead-back + Path.Apply / LastStep correspondence of every visited path
	byPath := map[string]cty.Value{}
	for _, e := range log {
		byPath[encPath(e.p)] = e.v
	}
	for _, e := range log {
		pk := encPath(e.p)
		var got cty.Value
		var err error
		pan, _ := try(func() { got, err = e.p.Apply(v) })
		impl := "panic"
		if !pan {
			impl = "err"
			if err == nil {
				impl = "ok " + encVal(got)
			}
		}
		ctx.Add("path.apply", impl, pk, vw)
		ctx.Tag("apply:visited")
		setStep := hasSetStep(v, e.p)
		ctx.Eval("leadback "+vw+" "+pk, len(e.p) > 0 && !setStep)
		if setStep {
			// d19b (C19.walk_paths_through_sets_do_not_apply): a reported path that passes through a set does
			// not apply: Path.Apply answers with an error, it neither panics nor returns some other member
			ctx.Tag("apply:visited-through-set")
			ctx.Eval("setpath "+vw+" "+pk, true)
			if pan || err == nil {
				sig := "applies"
				if pan {
					sig = "panic"
				}
				ctx.Fail(Failure{Site: "walk-set-path", Sig: sig, What: "a visited path that passes through a set did not answer with an error", Input: vw + " " + pk, GoLit: lit + " ; " + pathLit(e.p), Outcome: impl})
			}
			continue
		}
		if pan || err != nil {
			ctx.Fail(Failure{Site: "walk-lead-back", Sig: "apply-failed", What: "a visited path without set steps does not apply to the root", Input: vw + " " + pk, GoLit: lit + " ; " + pathLit(e.p), Outcome: impl})
			continue
		}
		wantMarks := e.v.Marks()
		for i := 0; i < len(e.p); i++ {
			wantMarks = marksUnion(wantMarks, byPath[encPath(e.p[:i])].Marks())
		}
		gu, _ := got.Unmark()
		nu, _ := e.v.Unmark()
		if !gu.RawEquals(nu) {
			ctx.Fail(Failure{Site: "walk-lead-back", Sig: "other-member", What: "the path leads to a different member than the one visited", Input: vw + " " + pk, GoLit: lit + " ; " + pathLit(e.p), Outcome: impl + " visited " + encVal(e.v)})
		} else if !got.Marks().Equal(wantMarks) {
			ctx.Fail(Failure{Site: "walk-lead-back", Sig: "marks", What: "marks of the applied path are not those of the member and its ancestors", Input: vw + " " + pk, GoLit: lit + " ; " + pathLit(e.p), Outcome: impl + " visited " + encVal(e.v)})
		}
	}
	if len(log) > 1 {
		e := log[ctx.R.Intn(len(log))]
		var lv cty.Value
		var ls cty.PathStep
		var err error
		pan, _ := try(func() { lv, ls, err = e.p.LastStep(v) })
		impl := "panic"
		if !pan {
			impl = "err"
			if err == nil {
				impl = "ok " + encVal(lv) + " nil"
				if ls != nil {
					impl = "ok " + encVal(lv) + " " + encStep(ls)
				}
			}
		}
		ctx.Add("path.laststep", impl, encPath(e.p), vw)
	}

	// pruning / failing callbacks
	for k := 0; k < 2 && len(log) > 1; k++ {
		var rules []c19Rule
		nr := 1 + ctx.R.Intn(2)
		for i := 0; i < nr; i++ {
			act := []string{"d0", "d0", "err", "panic"}[ctx.R.Intn(4)]
			if ctx.R.Intn(3) == 0 {
				rules = append(rules, c19Rule{nth: ctx.R.Intn(len(log)), act: act})
			} else {
				rules = append(rules, c19Rule{at: encPath(log[ctx.R.Intn(len(log))].p), act: act})
			}
		}
		dflt := "d1"
		if ctx.R.Intn(8) == 0 {
			dflt = "d0"
		}
		l2, out2 := walkReal(v, dflt, rules)
		ctx.Add("walk.walk", encLog(l2)+" "+out2, ow, "(wcb "+dflt+" "+encRules(rules)+")", vw)
		ctx.Tag("walk:rules")
		// whatever the callback does: at most once, in the order of the full walk
		j := 0
		for _, e := range l2 {
			for j < len(log) && encPath(log[j].p) != encPath(e.p) {
				j++
			}
			if j == len(log) {
				ctx.Fail(Failure{Site: "walk-once", Sig: "pruned-order", What: "a pruned walk is not a subsequence of the full walk", Input: vw + " " + encRules(rules), GoLit: lit + " ; " + litRules(rules), Outcome: encLog(l2)})
				break
			}
			j++
		}
	}
	return log
}

func c19TransformCase(ctx *Ctx, v cty.Value, wlog []c19Visit) {
	vw := encVal(v)
	lit := v.GoString()
	emit := func(mode string, enter, exit []c19Rule) (cty.Value, string, []c19Visit) {
		log, seen, res, outcome := transformReal(v, mode, enter, exit)
		orc := newOrc()
		orc.collect(v)
		for _, e := range log {
			orc.collect(e.v)
		}
		for _, s := range seen {
			orc.collect(s)
			orc.hash(s)
		}
		orc.collect(res)
		first := "e"
		if mode == "post" {
			first = ""
		}
		ctx.Add("walk.trans", encLog(log)+" "+outcome, orc.enc(), schedOf(log, first), mode,
			"(tcb ("+encRules(enter)+") ("+encRules(exit)+"))", vw)
		ctx.Tag("transform:" + mode)
		if mode == "full" {
			// d19b (C19.transform_calls_properly_nested): whatever the transformer does, Exit(p) is only called for
			// the most recent Enter(p) still open; a successful run leaves nothing open
			var st []string
			nested := true
			for _, e := range log {
				pk := encPath(e.p)
				if e.kind == "e" {
					st = append(st, pk)
				} else if len(st) == 0 || st[len(st)-1] != pk {
					nested = false
					break
				} else {
					st = st[:len(st)-1]
				}
			}
			if nested && strings.HasPrefix(outcome, "ok ") && len(st) != 0 {
				nested = false
			}
			ctx.Eval("tnest "+vw+" "+encRules(enter)+" "+encRules(exit), len(log) > 2)
			if !nested {
				ctx.Fail(Failure{Site: "transform-nesting", Sig: "not-nested", What: "the Enter / Exit calls of TransformWithTransformer are not properly nested",
					Input: vw + " (" + encRules(enter) + ") (" + encRules(exit) + ")", GoLit: lit + " ; Enter " + litRules(enter) + " ; Exit " + litRules(exit), Outcome: encLog(log) + " " + outcome})
			}
		}
		return res, outcome, log
	}

	// transform-id, through both entry points
	for _, mode := range []string{"post", "full"} {
		res, outcome, log := emit(mode, nil, nil)
		ctx.Eval("tid "+mode+" "+vw, len(wlog) > 1)
		if !strings.HasPrefix(outcome, "ok ") {
			ctx.Fail(Failure{Site: "transform-id", Sig: "failed", What: "identity transform did not succeed", Input: vw, GoLit: lit, Outcome: outcome})
			continue
		}
		if !res.RawEquals(v) {
			ctx.Fail(Failure{Site: "transform-id", Sig: "not-rawequals", What: "identity transform returned a value that is not RawEquals the input", Input: vw, GoLit: lit, Outcome: outcome})
		}
		var a, b []string
		for _, e := range wlog {
			a = append(a, encPath(e.p))
		}
		for _, e := range log {
			if e.kind != "e" {
				b = append(b, encPath(e.p))
			}
		}
		sort.Strings(a)
		sort.Strings(b)
		if strings.Join(a, " ") != strings.Join(b, " ") {
			ctx.Fail(Failure{Site: "transform-id", Sig: "paths", What: "identity transform passed other paths to the callback than Walk does", Input: vw, GoLit: lit, Outcome: encLog(log)})
		}
	}

	if len(wlog) == 0 {
		return
	}
	// transform-replace: one member replaced by a value of its own type
	for k := 0; k < 2; k++ {
		tgt := wlog[ctx.R.Intn(len(wlog))]
		repl := genVal(ctx.R, tgt.v.Type(), 1, ValOpts{Unknown: true, Null: true, Marks: k == 1})
		rule := c19Rule{at: encPath(tgt.p), act: "ret", val: repl}
		res, outcome, _ := emit("post", nil, []c19Rule{rule})
		tk := encPath(tgt.p)
		// d19: an evaluation counts as non-trivial only when the predicate below is really applied
		ctx.Eval("trepl "+vw+" "+rule.enc(), len(tgt.p) > 0 && !hasSetStep(v, tgt.p) && repl.Type().Equals(tgt.v.Type()))
		if hasSetStep(v, tgt.p) {
			// below a set there are no stable paths into the result: compare the whole result with an
			// independent post-order rebuild through the public constructors (a seeded change returned the
			// ORIGINAL set whenever the member iterated last came back unchanged, dropping the replacement)
			ctx.Tag("trepl:set-step-by-reference")
			if repl.Type().Equals(tgt.v.Type()) && strings.HasPrefix(outcome, "ok ") {
				var ref cty.Value
				if pan, _ := try(func() { ref = c19RefReplace(v, nil, tk, repl) }); !pan {
					same := false
					try(func() { same = res.RawEquals(ref) })
					if !same && !c19OrderOnly(res, ref) {
						ctx.Fail(Failure{Site: "transform-replace", Sig: "set-member-not-replaced", What: "replacing one member below a set: the result is not the value rebuilt from the transformed members",
							Input: vw + " " + rule.enc(), GoLit: lit + " ; " + rule.lit(), Outcome: outcome + " expected " + encVal(ref)})
					}
				}
			}
			continue
		}
		if !repl.Type().Equals(tgt.v.Type()) {
			ctx.Tag("trepl:skipped-dynamic-slot")
			// a dynamically typed member: the generator instantiated the placeholder,
			// so this is not "a value of the member's own type" (the list/map/set
			// around it may legitimately change its element type)
			continue
		}
		glit := lit + " ; " + rule.lit()
		if !strings.HasPrefix(outcome, "ok ") {
			// replacing a member by a value of the same type must not fail … unless the
			// replaced member's container is a set (excluded above) or the types differ
			// only by a dynamically typed slot: ListVal etc. accept both.
			ctx.Fail(Failure{Site: "transform-replace", Sig: "failed", What: "replacing one member by a value of its own type failed", Input: vw + " " + rule.enc(), GoLit: glit, Outcome: outcome})
			continue
		}
		for _, e := range wlog {
			if hasSetStep(v, e.p) {
				continue
			}
			isPre := func(a, b cty.Path) bool { // a is a prefix of b
				if len(a) > len(b) {
					return false
				}
				for i := range a {
					if encStep(a[i]) != encStep(b[i]) {
						return false
					}
				}
				return true
			}
			ek := encPath(e.p)
			switch {
			case ek == tk:
				got, err := e.p.Apply(res)
				if err != nil {
					ctx.Fail(Failure{Site: "transform-replace", Sig: "lost", What: "the replaced member cannot be reached in the result", Input: vw + " " + rule.enc(), GoLit: glit, Outcome: outcome})
					continue
				}
				gu, _ := got.Unmark()
				ru, _ := repl.Unmark()
				if !gu.RawEquals(ru) {
					ctx.Fail(Failure{Site: "transform-replace", Sig: "not-replaced", What: "the result does not hold the replacement at the path", Input: vw + " " + rule.enc(), GoLit: glit, Outcome: outcome})
				}
			case isPre(e.p, tgt.p) || isPre(tgt.p, e.p):
			default:
				var g1, g2 cty.Value
				var e1, e2 error
				if pan, _ := try(func() { g1, e1 = e.p.Apply(v); g2, e2 = e.p.Apply(res) }); pan || e1 != nil || e2 != nil || !g1.RawEquals(g2) {
					ctx.Fail(Failure{Site: "transform-replace", Sig: "disturbed", What: "a member outside the replaced one changed", Input: vw + " " + rule.enc() + " " + ek, GoLit: glit + " ; " + pathLit(e.p), Outcome: outcome})
				}
			}
		}
	}

	// transform-enter-replace: Enter answers a value of another null / unknown status than the member it was
	// given: what is traversed is what Enter RETURNED (a known container is descended into, a null or unknown one
	// is a leaf), the result is the rebuilt value, and nothing panics.  (A seeded change tested the member as it
	// was BEFORE Enter: a replacement for a null member was not descended into, a null replacement for a known
	// container panicked.)
	for k := 0; k < 2; k++ {
		tgt := wlog[ctx.R.Intn(len(wlog))]
		if hasSetStep(v, tgt.p) {
			continue
		}
		tu, _ := tgt.v.Unmark()
		ty := tu.Type()
		if ty == cty.DynamicPseudoType || !(ty.IsCollectionType() || ty.IsTupleType() || ty.IsObjectType()) {
			continue
		}
		var repl cty.Value
		if tu.IsNull() || !tu.IsKnown() {
			repl = genVal(ctx.R, ty, 2, ValOpts{})
			if !repl.IsKnown() || repl.IsNull() || !repl.Type().Equals(ty) {
				continue
			}
		} else if k == 0 {
			repl = cty.NullVal(ty)
		} else {
			repl = cty.UnknownVal(ty)
		}
		rule := c19Rule{at: encPath(tgt.p), act: "ret", val: repl}
		// d19b: through emit, so that the run is a `walk.trans` correspondence case as well (the model's Enter path:
		// C19.transform_enter_replace is about Walk.transformWith with this very transformer)
		res, outcome, log := emit("full", []c19Rule{rule}, nil)
		ctx.Eval("tenter "+vw+" "+rule.enc(), true)
		if tu.IsNull() || !tu.IsKnown() {
			ctx.Tag("tenter:leaf-to-container")
		} else {
			ctx.Tag("tenter:container-to-leaf")
		}
		ctx.Tag("transform:enter-replace")
		glit := lit + " ; Enter " + rule.lit()
		if !strings.HasPrefix(outcome, "ok ") {
			ctx.Fail(Failure{Site: "transform-enter-replace", Sig: "failed:" + strings.SplitN(outcome, " ", 2)[0], What: "Enter replacing a member by a value of its own type (another null / unknown status) made the transform fail",
				Input: vw + " " + rule.enc(), GoLit: glit, Outcome: outcome})
			continue
		}
		var ref cty.Value
		if pan, _ := try(func() { ref = c19RefReplace(v, nil, encPath(tgt.p), repl) }); pan {
			continue
		}
		same := false
		try(func() { same = res.RawEquals(ref) })
		if !same && !c19OrderOnly(res, ref) {
			ctx.Fail(Failure{Site: "transform-enter-replace", Sig: "result", What: "the result is not the value rebuilt with the member Enter returned",
				Input: vw + " " + rule.enc(), GoLit: glit, Outcome: outcome + " expected " + encVal(ref)})
			continue
		}
		// every node of the replacement must have been entered (paths below sets have no stable spelling: skipped)
		want := map[string]bool{}
		var collect func(x cty.Value, p cty.Path)
		collect = func(x cty.Value, p cty.Path) {
			want[encPath(p)] = true
			xu, _ := x.Unmark()
			if xu.IsKnown() && !xu.IsNull() && xu.Type().IsSetType() {
				return
			}
			for _, kid := range c19Kids(x) {
				collect(kid.v, append(p.Copy(), kid.step))
			}
		}
		collect(repl, tgt.p.Copy())
		seenE := map[string]bool{}
		for _, e := range log {
			if e.kind == "e" {
				seenE[encPath(e.p)] = true
			}
		}
		for _, pth := range sortedKeys(want) {
			if !seenE[pth] {
				ctx.Fail(Failure{Site: "transform-enter-replace", Sig: "member-of-replacement-not-entered", What: "a member of the value Enter returned was never passed to Enter",
					Input: vw + " " + rule.enc() + " " + pth, GoLit: glit, Outcome: encLog(log)})
				break
			}
		}
		// d19b (C19.transform_enter_replace, last clauses): the Enter calls at or below the path are exactly one per
		// member of the REPLACEMENT (plus the one that received the original member): the members of the original are
		// never entered, no member of the replacement twice — counted, so that members below sets are included
		nEnter := 0
		for _, e := range log {
			if e.kind != "e" || len(e.p) < len(tgt.p) {
				continue
			}
			pre := true
			for i := range tgt.p {
				if encStep(e.p[i]) != encStep(tgt.p[i]) {
					pre = false
					break
				}
			}
			if pre {
				nEnter++
			}
		}
		if want := c19Count(repl); nEnter != want {
			ctx.Fail(Failure{Site: "transform-enter-replace", Sig: "enter-count", What: fmt.Sprintf("%d Enter calls at or below the path, the value Enter returned has %d members (itself included)", nEnter, want),
				Input: vw + " " + rule.enc(), GoLit: glit, Outcome: encLog(log)})
		}
	}

	// arbitrary transformers
	for k := 0; k < 3; k++ {
		mk := func(n int) []c19Rule {
			var rs []c19Rule
			for i := 0; i < n; i++ {
				tgt := wlog[ctx.R.Intn(len(wlog))]
				r := c19Rule{at: encPath(tgt.p)}
				if k > 0 && ctx.R.Intn(4) == 0 {
					r = c19Rule{nth: ctx.R.Intn(2*len(wlog) + 1)}
				}
				switch ctx.R.Intn(9) {
				case 0:
					r.act = "err"
				case 1:
					r.act = "panic"
				case 2, 3:
					r.act, r.marks = "mark", []string{markNames[ctx.R.Intn(3)]}
				case 4:
					r.act = "unmark"
				case 5:
					// any type: may break ListVal / SetVal / MapVal homogeneity
					r.act, r.val = "ret", genVal(ctx.R, genTy(ctx.R, 1, TyOpts{Dyn: true}), 1, c19ValOpts)
				default:
					r.act, r.val = "ret", genVal(ctx.R, tgt.v.Type(), 2, c19ValOpts)
				}
				rs = append(rs, r)
			}
			return rs
		}
		if k == 0 {
			emit("post", nil, mk(1+ctx.R.Intn(2)))
		} else {
			emit("full", mk(ctx.R.Intn(2)), mk(ctx.R.Intn(3)))
		}
	}
}

func encPVM(pvm []cty.PathValueMarks) string {
	ss := make([]string, len(pvm))
	for i, p := range pvm {
		ss[i] = "(" + encPath(p.Path) + " " + encMarks(p.Marks) + ")"
	}
	return "(" + strings.Join(ss, " ") + ")"
}

func c19MarksCase(ctx *Ctx, v cty.Value) {
	vw := encVal(v)
	lit := v.GoString()
	orc := newOrc()
	orc.collect(v)
	// the model needs the attribute order of the real run; the transformer behind
	// UnmarkDeepWithPaths is not observable, its pvm list is: marked attributes in
	// visiting order.  An instrumented run with the same transformer semantics
	// gives the schedule of *this* call only by luck, so the comparison is made
	// on the order-insensitive form: pvm sorted by path.
	var u cty.Value
	var pvm []cty.PathValueMarks
	pan, _ := try(func() { u, pvm = v.UnmarkDeepWithPaths() })
	if pan {
		ctx.Fail(Failure{Site: "unmark-remark", Sig: "unmark-panic", What: "UnmarkDeepWithPaths panicked", Input: vw, GoLit: lit, Outcome: "panic"})
		return
	}
	orc.collect(u)
	sorted := append([]cty.PathValueMarks(nil), pvm...)
	sort.SliceStable(sorted, func(i, j int) bool { return encPath(sorted[i].Path) < encPath(sorted[j].Path) })
	ctx.Add("walk.unmarkpaths", "ok "+encVal(u)+" "+encPVM(sorted), orc.enc(), "(sched)", vw)
	ud, dm := v.UnmarkDeep()
	ctx.Add("walk.unmarkdeep", "ok "+encVal(ud)+" "+encMarks(dm), orc.enc(), "(sched)", vw)
	ctx.Tag("marks:unmarkpaths")
	ctx.Eval("unmark "+vw, len(pvm) > 0)
	if u.ContainsMarked() {
		ctx.Fail(Failure{Site: "unmark-remark", Sig: "marks-left", What: "UnmarkDeepWithPaths left a mark in the value", Input: vw, GoLit: lit, Outcome: encVal(u)})
	}
	var back cty.Value
	pan, _ = try(func() { back = u.MarkWithPaths(pvm) })
	impl := "panic"
	if !pan {
		impl = "ok " + encVal(back)
		orc.collect(back)
	}
	ctx.Add("walk.markpaths", impl, orc.enc(), "(sched)", encVal(u), encPVM(pvm))
	if pan || !back.RawEquals(v) {
		ctx.Fail(Failure{Site: "unmark-remark", Sig: "not-restored", What: "MarkWithPaths(UnmarkDeepWithPaths(v)) is not RawEquals v", Input: vw, GoLit: lit, Outcome: impl})
	}
	// marks applied at chosen paths (MarkWithPaths on its own, incl. paths that match nothing)
	if len(pvm) > 0 && ctx.R.Intn(2) == 0 {
		alt := append([]cty.PathValueMarks(nil), pvm...)
		ctx.R.Shuffle(len(alt), func(i, j int) { alt[i], alt[j] = alt[j], alt[i] })
		alt = append(alt, cty.PathValueMarks{Path: cty.GetAttrPath("nope").IndexInt(7), Marks: cty.NewValueMarks("m9")})
		alt = append(alt, cty.PathValueMarks{Path: alt[0].Path.Copy(), Marks: cty.NewValueMarks("shadowed")})
		var b2 cty.Value
		pan, _ := try(func() { b2 = v.MarkWithPaths(alt) })
		impl := "panic"
		if !pan {
			impl = "ok " + encVal(b2)
			orc.collect(b2)
		}
		ctx.Add("walk.markpaths", impl, orc.enc(), "(sched)", vw, encPVM(alt))
	}
}

// ---- paths: valid and invalid ------------------------------------------------------------------

// c19StepExists: does the step name a member of cur?  Returns (exists, decidable).
func c19StepExists(cur cty.Value, s cty.PathStep) (bool, bool) {
	if cur.IsNull() {
		return false, true
	}
	ty := cur.Type()
	switch s := s.(type) {
	case cty.GetAttrStep:
		return ty.IsObjectType() && ty.HasAttribute(s.Name), true
	case cty.IndexStep:
		k, _ := s.Key.Unmark()
		kt := k.Type()
		switch {
		case kt == cty.Number:
			if !(ty.IsListType() || ty.IsTupleType()) {
				return false, true
			}
		case kt == cty.String:
			if !ty.IsMapType() {
				return false, true
			}
		default:
			return false, true
		}
		if k.IsNull() {
			return false, true // a null key names nothing
		}
		if !k.IsKnown() {
			return true, true // names no particular member of a container it fits: accepted
		}
		raw, _ := cur.Unmark()
		switch {
		case ty.IsTupleType():
			f := k.AsBigFloat()
			if !f.IsInt() || f.Sign() < 0 {
				return false, true
			}
			return f.Cmp(big.NewFloat(float64(ty.Length()))) < 0, true
		case ty.IsListType():
			f := k.AsBigFloat()
			if !raw.IsKnown() {
				return true, true // an unknown list may have any member
			}
			if !f.IsInt() || f.Sign() < 0 {
				return false, true
			}
			return f.Cmp(big.NewFloat(float64(raw.LengthInt()))) < 0, true
		default:
			if !raw.IsKnown() {
				return true, true
			}
			_, ok := raw.AsValueMap()[k.AsString()]
			return ok, true
		}
	}
	return false, true
}

func c19MutatePath(ctx *Ctx, p cty.Path, v cty.Value) cty.Path {
	r := ctx.R
	q := p.Copy()
	keys := []cty.Value{cty.NumberIntVal(0), cty.NumberIntVal(1), cty.NumberIntVal(7), cty.NumberIntVal(-1), cty.NumberFloatVal(0.5),
		cty.StringVal("a"), cty.StringVal("zz"), cty.StringVal("nope"), cty.UnknownVal(cty.Number), cty.UnknownVal(cty.String),
		cty.NullVal(cty.Number), cty.NullVal(cty.String), cty.DynamicVal, cty.True, cty.NumberIntVal(0).Mark("m1"), cty.StringVal("a").Mark("m2"),
		cty.MustParseNumberVal("1e40"), cty.UnknownVal(cty.Number).Refine().NotNull().NewValue(), cty.ListValEmpty(cty.String)}
	newStep := func() cty.PathStep {
		if r.Intn(3) == 0 {
			return cty.GetAttrStep{Name: attrNames[r.Intn(len(attrNames))]}
		}
		return cty.IndexStep{Key: keys[r.Intn(len(keys))]}
	}
	switch c := r.Intn(5); {
	case c == 0 || len(q) == 0:
		q = append(q, newStep())
	case c == 1:
		q[r.Intn(len(q))] = newStep()
	case c == 2:
		q = q[:len(q)-1]
		q = append(q, newStep(), newStep())
	case c == 3:
		i := r.Intn(len(q))
		q = append(q[:i:i], append(cty.Path{newStep()}, q[i:]...)...)
	default:
		q = append(q, newStep())
		q = append(q, newStep())
	}
	return q
}

func c19ApplyCase(ctx *Ctx, v cty.Value, p cty.Path, tag string) {
	vw, pk := encVal(v), encPath(p)
	var got cty.Value
	var err error
	pan, why := try(func() { got, err = p.Apply(v) })
	impl := "panic"
	if !pan {
		impl = "err"
		if err == nil {
			impl = "ok " + encVal(got)
		}
	}
	ctx.Add("path.apply", impl, pk, vw)
	ctx.Tag("apply:" + tag)
	ctx.Eval("apply "+vw+" "+pk, len(p) > 0)
	glit := pathLit(p) + ".Apply(" + v.GoString() + ")"

	// reference: walk the steps with the public accessors
	cur := v
	exists, decidable := true, true
	for _, s := range p {
		ex, dec := c19StepExists(cur, s)
		if !dec {
			decidable = false
			break
		}
		if !ex {
			exists = false
			break
		}
		// d19: a step that names an existing member must apply; if the real step fails here
		// the whole Apply fails too and the comparison below reports it (was: skipped)
		var next cty.Value
		if pn, _ := try(func() { next, _ = s.Apply(cur) }); pn || next == cty.NilVal {
			ctx.Tag("apply:existing-step-failed")
			break
		}
		cur = next
	}
	if pan {
		// classify by the step that panics
		sig := "other"
		at := v
		for _, s := range p {
			var next cty.Value
			var serr error
			if pn, _ := try(func() { next, serr = s.Apply(at) }); pn {
				if is, ok := s.(cty.IndexStep); ok {
					k, _ := is.Key.Unmark()
					switch {
					case !k.IsKnown() && k.Type() == cty.Number && at.Type().IsTupleType():
						sig = "unknown-number-key-on-tuple"
					case k.IsNull() && (k.Type() == cty.Number || k.Type() == cty.String):
						sig = "null-key"
					}
				}
				break
			}
			if serr != nil {
				break
			}
			at = next
		}
		ctx.Fail(Failure{Site: "apply-no-panic", Sig: sig, What: "Path.Apply panicked: " + why, Input: pk + " " + vw, GoLit: glit, Outcome: "panic"})
		return
	}
	if decidable && exists != (err == nil) {
		ctx.Fail(Failure{Site: "apply-ok-iff", Sig: fmt.Sprintf("exists=%v", exists), What: "Path.Apply succeeded/failed against the existence of the named members", Input: pk + " " + vw, GoLit: glit, Outcome: impl})
	}
}

func c19PathOpsCase(ctx *Ctx, v cty.Value, p, q cty.Path) {
	orc := newOrc()
	for _, pp := range []cty.Path{p, q} {
		for _, s := range pp {
			if is, ok := s.(cty.IndexStep); ok {
				orc.collect(is.Key)
			}
		}
	}
	var eq, hp bool
	pan, _ := try(func() { eq = p.Equals(q) })
	impl := "panic"
	if !pan {
		impl = "ok " + encBool(eq)
	}
	ctx.Add("path.equals", impl, orc.enc(), encPath(p), encPath(q))
	pan, _ = try(func() { hp = p.HasPrefix(q) })
	impl = "panic"
	if !pan {
		impl = "ok " + encBool(hp)
	}
	ctx.Add("path.hasprefix", impl, orc.enc(), encPath(p), encPath(q))
	ctx.Tag("path:equals")
	if !pan && eq && !hp {
		ctx.Fail(Failure{Site: "path-equals", Sig: "equal-not-prefix", What: "equal paths but HasPrefix is false", Input: encPath(p) + " " + encPath(q), GoLit: pathLit(p) + " ; " + pathLit(q), Outcome: impl})
	}
}

func c19RawEqCase(ctx *Ctx, a, b cty.Value) {
	orc := newOrc()
	orc.collect(a)
	orc.collect(b)
	var eq bool
	pan, _ := try(func() { eq = a.RawEquals(b) })
	impl := "panic"
	if !pan {
		impl = "ok " + encBool(eq)
	}
	ctx.Add("val.rawequals", impl, orc.enc(), encVal(a), encVal(b))
	ctx.Tag("rawequals")
}

// c19Corpus: witnesses of repaired findings (must pass now) and boundary shapes the
// generator meets only by luck: every kind of empty container, marked and not,
// at the root and nested; marked nulls and unknowns.
func c19Corpus() (vals []cty.Value, paths []struct {
	p cty.Path
	v cty.Value
}) {
	empties := []cty.Value{
		cty.MapValEmpty(cty.String), cty.ListValEmpty(cty.Number), cty.SetValEmpty(cty.Bool),
		cty.EmptyTupleVal, cty.EmptyObjectVal, cty.NullVal(cty.Map(cty.String)), cty.UnknownVal(cty.List(cty.String)),
		cty.StringVal("a"), cty.MapVal(map[string]cty.Value{"k": cty.True}),
	}
	for _, e := range empties {
		m := e.Mark("m1")
		vals = append(vals, e, m, m.Mark("m2"),
			cty.ObjectVal(map[string]cty.Value{"a": m, "b": e}),
			cty.TupleVal([]cty.Value{m, e}).Mark("m3"),
			cty.ListVal([]cty.Value{m, e}),
			cty.MapVal(map[string]cty.Value{"x": m, "y": e}))
	}
	add := func(p cty.Path, v cty.Value) {
		paths = append(paths, struct {
			p cty.Path
			v cty.Value
		}{p, v})
	}
	// repaired: 32f15f9
	add(cty.IndexPath(cty.UnknownVal(cty.Number)), cty.EmptyTupleVal)
	add(cty.IndexPath(cty.UnknownVal(cty.Number).RefineNotNull()), cty.TupleVal([]cty.Value{cty.True, cty.StringVal("a")}))
	add(cty.IndexPath(cty.UnknownVal(cty.Number)), cty.UnknownVal(cty.Tuple([]cty.Type{cty.Bool})).Mark("m1"))
	add(cty.IndexPath(cty.NullVal(cty.Number)), cty.EmptyTupleVal)
	add(cty.IndexPath(cty.NullVal(cty.Number)), cty.ListValEmpty(cty.Number))
	add(cty.IndexPath(cty.NullVal(cty.Number).Mark("m1")), cty.ListVal([]cty.Value{cty.True}))
	add(cty.IndexPath(cty.NullVal(cty.String)), cty.MapValEmpty(cty.Number))
	add(cty.IndexPath(cty.NullVal(cty.String)), cty.UnknownVal(cty.Map(cty.Number)))
	add(cty.IndexPath(cty.NullVal(cty.DynamicPseudoType)), cty.ListValEmpty(cty.Number))
	add(cty.GetAttrPath("a").Index(cty.UnknownVal(cty.Number)), cty.ObjectVal(map[string]cty.Value{"a": cty.TupleVal([]cty.Value{cty.True})}))
	add(cty.IndexPath(cty.UnknownVal(cty.Number).Mark("m2")), cty.ListVal([]cty.Value{cty.True}).Mark("m1"))
	add(cty.IndexPath(cty.UnknownVal(cty.String)), cty.MapVal(map[string]cty.Value{"k": cty.True}))
	add(cty.IndexPath(cty.NumberIntVal(0).Mark("m2")), cty.ListVal([]cty.Value{cty.True}).Mark("m1"))
	return
}

func c19ValueCase(ctx *Ctx, v cty.Value, depth int) {
	wlog := c19WalkCase(ctx, v)
	c19TransformCase(ctx, v, wlog)
	c19MarksCase(ctx, v)
	c19RawEqCase(ctx, v, v)
	_ = depth
}

func runC19(ctx *Ctx) {
	cvals, cpaths := c19Corpus()
	for _, v := range cvals {
		c19ValueCase(ctx, v, 2)
		ctx.Tag("corpus:value")
	}
	for _, c := range cpaths {
		c19ApplyCase(ctx, c.v, c.p, "corpus")
	}
	n := ctx.N(700, 12000)
	for i := 0; i < n; i++ {
		depth := 2 + ctx.R.Intn(2)
		if ctx.Thorough && ctx.R.Intn(4) == 0 {
			depth = 4
		}
		v := c19GenVal(ctx, depth)
		d19ProbeOracle(ctx, v)
		c19BuiltPathsCase(ctx, v)
		wlog := c19WalkCase(ctx, v)
		c19TransformCase(ctx, v, wlog)
		c19MarksCase(ctx, v)
		// invalid and odd paths
		for k := 0; k < 4 && len(wlog) > 0; k++ {
			base := wlog[ctx.R.Intn(len(wlog))].p
			q := c19MutatePath(ctx, base, v)
			c19ApplyCase(ctx, v, q, "mutated")
			if k == 0 {
				c19PathOpsCase(ctx, v, base, q)
				c19PathOpsCase(ctx, v, base, base.Copy())
				if len(q) > 0 {
					c19PathOpsCase(ctx, v, q, q[:ctx.R.Intn(len(q)+1)])
				}
			}
		}
		// RawEquals: the value against itself, its identity transform, a sibling
		c19RawEqCase(ctx, v, v)
		if r, err := cty.Transform(v, func(_ cty.Path, x cty.Value) (cty.Value, error) { return x, nil }); err == nil {
			c19RawEqCase(ctx, v, r)
		}
		c19RawEqCase(ctx, v, genVal(ctx.R, v.Type(), depth, c19ValOpts))
	}
	runC19PathSet(ctx)
	runC19D19(ctx)
	runC19D19b(ctx)
}
