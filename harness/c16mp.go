package main

// A small MessagePack byte reader / writer of the harness' own.
//
// TRUSTED BASE NOTE (C16/C17).  The Lean model of cty/msgpack works on item
// trees, not bytes.  The tie between the two is THIS file: it splits the bytes
// the real library wrote into items, and writes the bytes of item trees that
// the real decoder is then run on.  It deliberately does not use the decoder of
// github.com/vmihailenco/msgpack (the library go-cty itself decodes with), so
// that library is an independently cross-checked oracle: if the two disagreed
// about the format, model and implementation would disagree on the case.  The
// format is the public MessagePack specification; every item read from real
// output is re-written and compared byte for byte (self-check `mp-rewrite`).

import (
	"encoding/binary"
	"encoding/hex"
	"fmt"
	"math"
	"math/big"
	"strings"
	"unicode/utf8"

	"github.com/zclconf/go-cty/cty"
)

type mpItem struct {
	kind  string // nil bool int uint f32 f64 str bin arr map ext
	b     bool
	i     int64
	u     uint64
	f     float64
	s     []byte
	xs    []*mpItem // arr: elements; map: k0 v0 k1 v1 …; ext: the stream after the header
	code  int8
	raw   []byte // ext payload
	hdr   string // ext: "m" "nil" "ext" "other"
	hdrN  int
	width int // bytes of the length/number field the writer should use (0 = most compact)
	bad   string
}

func (it *mpItem) clone() *mpItem {
	c := *it
	c.s = append([]byte(nil), it.s...)
	c.raw = append([]byte(nil), it.raw...)
	c.xs = make([]*mpItem, len(it.xs))
	for i, x := range it.xs {
		c.xs[i] = x.clone()
	}
	return &c
}

var errMPShort = fmt.Errorf("truncated")

func mpNeed(b []byte, p, n int) error {
	if n < 0 || p+n > len(b) {
		return errMPShort
	}
	return nil
}

// mpRead reads one complete item starting at b[p].
func mpRead(b []byte, p int, depth int) (*mpItem, int, error) {
	if depth > 64 {
		return nil, p, fmt.Errorf("too deep")
	}
	if err := mpNeed(b, p, 1); err != nil {
		return nil, p, err
	}
	c := b[p]
	p++
	num := func(n int) (uint64, error) {
		if err := mpNeed(b, p, n); err != nil {
			return 0, err
		}
		var v uint64
		for k := 0; k < n; k++ {
			v = v<<8 | uint64(b[p+k])
		}
		p += n
		return v, nil
	}
	bytesOf := func(n int) ([]byte, error) {
		if err := mpNeed(b, p, n); err != nil {
			return nil, err
		}
		s := append([]byte(nil), b[p:p+n]...)
		p += n
		return s, nil
	}
	seq := func(n int, kind string, w int) (*mpItem, int, error) {
		it := &mpItem{kind: kind, width: w}
		if n > len(b) { // cannot possibly be complete
			return nil, p, errMPShort
		}
		for k := 0; k < n; k++ {
			x, np, err := mpRead(b, p, depth+1)
			if err != nil {
				return nil, p, err
			}
			p = np
			it.xs = append(it.xs, x)
		}
		return it, p, nil
	}
	ext := func(n int, w int) (*mpItem, int, error) {
		t, err := num(1)
		if err != nil {
			return nil, p, err
		}
		raw, err := bytesOf(n)
		if err != nil {
			return nil, p, err
		}
		it := &mpItem{kind: "ext", code: int8(t), raw: raw, width: w, hdr: "other"}
		mpParseExtBody(it)
		return it, p, nil
	}
	switch {
	case c <= 0x7f:
		return &mpItem{kind: "int", i: int64(c)}, p, nil
	case c >= 0xe0:
		return &mpItem{kind: "int", i: int64(int8(c))}, p, nil
	case c >= 0x80 && c <= 0x8f:
		return seq(2*int(c&0xf), "map", 0)
	case c >= 0x90 && c <= 0x9f:
		return seq(int(c&0xf), "arr", 0)
	case c >= 0xa0 && c <= 0xbf:
		s, err := bytesOf(int(c & 0x1f))
		return &mpItem{kind: "str", s: s}, p, err
	}
	switch c {
	case 0xc0:
		return &mpItem{kind: "nil"}, p, nil
	case 0xc2, 0xc3:
		return &mpItem{kind: "bool", b: c == 0xc3}, p, nil
	case 0xc4, 0xc5, 0xc6:
		w := 1 << (c - 0xc4)
		n, err := num(w)
		if err != nil {
			return nil, p, err
		}
		s, err := bytesOf(int(n))
		return &mpItem{kind: "bin", s: s, width: w}, p, err
	case 0xc7, 0xc8, 0xc9:
		w := 1 << (c - 0xc7)
		n, err := num(w)
		if err != nil {
			return nil, p, err
		}
		return ext(int(n), w)
	case 0xca:
		v, err := num(4)
		return &mpItem{kind: "f32", f: float64(math.Float32frombits(uint32(v)))}, p, err
	case 0xcb:
		v, err := num(8)
		return &mpItem{kind: "f64", f: math.Float64frombits(v)}, p, err
	case 0xcc, 0xcd, 0xce, 0xcf:
		w := 1 << (c - 0xcc)
		v, err := num(w)
		return &mpItem{kind: "uint", u: v, width: w}, p, err
	case 0xd0, 0xd1, 0xd2, 0xd3:
		w := 1 << (c - 0xd0)
		v, err := num(w)
		sh := uint(64 - 8*w)
		return &mpItem{kind: "int", i: int64(v<<sh) >> sh, width: w}, p, err
	case 0xd4, 0xd5, 0xd6, 0xd7, 0xd8:
		return ext(1<<(c-0xd4), 0)
	case 0xd9, 0xda, 0xdb:
		w := 1 << (c - 0xd9)
		n, err := num(w)
		if err != nil {
			return nil, p, err
		}
		s, err := bytesOf(int(n))
		return &mpItem{kind: "str", s: s, width: w}, p, err
	case 0xdc, 0xdd:
		w := 2 << (c - 0xdc)
		n, err := num(w)
		if err != nil {
			return nil, p, err
		}
		return seq(int(n), "arr", w)
	case 0xde, 0xdf:
		w := 2 << (c - 0xde)
		n, err := num(w)
		if err != nil {
			return nil, p, err
		}
		if n > uint64(len(b)) {
			return nil, p, errMPShort
		}
		return seq(2*int(n), "map", w)
	}
	return nil, p, fmt.Errorf("unassigned code %#x", c)
}

// mpParseExtBody splits the payload of an extension item the way the refinement
// decoder looks at it — only when the item can be a refinement map at all (type code 12,
// length 2 or more; above 1024 bytes the decoder refuses before looking): the header found where a map is expected, then the complete items
// that follow.  A payload that does not split into complete items is outside
// the item-level model (`bad`).
func mpParseExtBody(it *mpItem) {
	it.hdr, it.hdrN, it.xs = "other", 0, nil
	n := len(it.raw)
	if it.code != 12 || n <= 1 {
		return
	}
	b := it.raw
	p := 1
	switch c := b[0]; {
	case c == 0xc0:
		it.hdr = "nil"
	case c >= 0x80 && c <= 0x8f:
		it.hdr, it.hdrN = "m", int(c&0xf)
	case c == 0xde && n >= 3:
		it.hdr, it.hdrN, p = "m", int(binary.BigEndian.Uint16(b[1:])), 3
	case c == 0xdf && n >= 5:
		it.hdr, it.hdrN, p = "m", int(binary.BigEndian.Uint32(b[1:])), 5
	case c == 0xde || c == 0xdf:
		it.bad = "truncated map header in extension body"
		return
	case c >= 0xd4 && c <= 0xd8 || c >= 0xc7 && c <= 0xc9:
		it.hdr = "ext"
		return
	default:
		return
	}
	for p < n {
		x, np, err := mpRead(b, p, 1)
		if err != nil {
			it.bad = "extension body is not a sequence of complete items"
			return
		}
		it.xs = append(it.xs, x)
		p = np
	}
}

func mpHasBad(it *mpItem) string {
	if it.bad != "" {
		return it.bad
	}
	if it.kind == "str" && !utf8.Valid(it.s) {
		return "str that is not UTF-8"
	}
	for _, x := range it.xs {
		if w := mpHasBad(x); w != "" {
			return w
		}
	}
	return ""
}

// mpReadAll reads exactly one item that spans all of b.
func mpReadAll(b []byte) (*mpItem, error) {
	it, p, err := mpRead(b, 0, 0)
	if err != nil {
		return nil, err
	}
	if p != len(b) {
		return nil, fmt.Errorf("trailing bytes")
	}
	return it, nil
}

func floatWire(f float64) string {
	return cty.VerifNumWire(new(big.Float).SetFloat64(f))
}

// wire prints the item in the form the Lean driver reads.
func (it *mpItem) wire() string {
	switch it.kind {
	case "nil":
		return "nil"
	case "bool":
		return "(b " + encBool(it.b) + ")"
	case "int":
		return fmt.Sprintf("(i %d)", it.i)
	case "uint":
		return fmt.Sprintf("(u %d)", it.u)
	case "f32", "f64":
		if math.IsNaN(it.f) {
			return "nan"
		}
		return "(" + it.kind + " " + floatWire(it.f) + ")"
	case "str":
		return "(s " + encStr(string(it.s)) + ")"
	case "bin":
		if len(it.s) > 0 {
			if t := jsonTreeOfBytes(it.s); t != "BAD" {
				return "(binj " + t + ")"
			}
		}
		return "(bin h" + hex.EncodeToString(it.s) + ")"
	case "arr":
		var sb strings.Builder
		sb.WriteString("(arr")
		for _, x := range it.xs {
			sb.WriteByte(' ')
			sb.WriteString(x.wire())
		}
		sb.WriteByte(')')
		return sb.String()
	case "map":
		var sb strings.Builder
		sb.WriteString("(map")
		for k := 0; k+1 < len(it.xs); k += 2 {
			sb.WriteString(" (" + it.xs[k].wire() + " " + it.xs[k+1].wire() + ")")
		}
		sb.WriteByte(')')
		return sb.String()
	case "ext":
		var sb strings.Builder
		h := it.hdr
		if h == "m" {
			h = fmt.Sprintf("(m %d)", it.hdrN)
		}
		fmt.Fprintf(&sb, "(ext %d %d %s", it.code, len(it.raw), h)
		for _, x := range it.xs {
			sb.WriteByte(' ')
			sb.WriteString(x.wire())
		}
		sb.WriteByte(')')
		return sb.String()
	}
	panic("mpItem.wire: " + it.kind)
}

func mpPutN(out []byte, v uint64, n int) []byte {
	for k := n - 1; k >= 0; k-- {
		out = append(out, byte(v>>(8*uint(k))))
	}
	return out
}

func mpWidthFor(n uint64, min int, widths ...int) int {
	for _, w := range widths {
		if w >= min && (w == 8 || n < 1<<(8*uint(w))) {
			return w
		}
	}
	return widths[len(widths)-1]
}

// mpWrite appends the bytes of the item; `width` hints are honoured when the
// value fits, otherwise the most compact form is used.
func mpWrite(out []byte, it *mpItem) []byte {
	switch it.kind {
	case "nil":
		return append(out, 0xc0)
	case "bool":
		if it.b {
			return append(out, 0xc3)
		}
		return append(out, 0xc2)
	case "int":
		if it.width == 0 && it.i >= -32 && it.i <= 127 {
			return append(out, byte(it.i))
		}
		w := it.width
		fits := func(w int) bool {
			if w == 8 {
				return true
			}
			lim := int64(1) << (8*uint(w) - 1)
			return it.i >= -lim && it.i < lim
		}
		if w == 0 || !fits(w) {
			for _, c := range []int{1, 2, 4, 8} {
				if fits(c) {
					w = c
					break
				}
			}
		}
		out = append(out, map[int]byte{1: 0xd0, 2: 0xd1, 4: 0xd2, 8: 0xd3}[w])
		return mpPutN(out, uint64(it.i), w)
	case "uint":
		w := mpWidthFor(it.u, it.width, 1, 2, 4, 8)
		out = append(out, map[int]byte{1: 0xcc, 2: 0xcd, 4: 0xce, 8: 0xcf}[w])
		return mpPutN(out, it.u, w)
	case "f32":
		out = append(out, 0xca)
		return mpPutN(out, uint64(math.Float32bits(float32(it.f))), 4)
	case "f64":
		out = append(out, 0xcb)
		return mpPutN(out, math.Float64bits(it.f), 8)
	case "str":
		n := uint64(len(it.s))
		if it.width == 0 && n < 32 {
			out = append(out, 0xa0|byte(n))
		} else {
			w := mpWidthFor(n, it.width, 1, 2, 4)
			out = append(out, map[int]byte{1: 0xd9, 2: 0xda, 4: 0xdb}[w])
			out = mpPutN(out, n, w)
		}
		return append(out, it.s...)
	case "bin":
		n := uint64(len(it.s))
		w := mpWidthFor(n, it.width, 1, 2, 4)
		out = append(out, map[int]byte{1: 0xc4, 2: 0xc5, 4: 0xc6}[w])
		out = mpPutN(out, n, w)
		return append(out, it.s...)
	case "arr", "map":
		n := uint64(len(it.xs))
		base, c16, c32 := byte(0x90), byte(0xdc), byte(0xdd)
		if it.kind == "map" {
			n /= 2
			base, c16, c32 = 0x80, 0xde, 0xdf
		}
		if it.width == 0 && n < 16 {
			out = append(out, base|byte(n))
		} else {
			w := mpWidthFor(n, it.width, 2, 4)
			if w == 2 {
				out = append(out, c16)
			} else {
				out = append(out, c32)
			}
			out = mpPutN(out, n, w)
		}
		for _, x := range it.xs {
			out = mpWrite(out, x)
		}
		return out
	case "ext":
		n := len(it.raw)
		fix := map[int]byte{1: 0xd4, 2: 0xd5, 4: 0xd6, 8: 0xd7, 16: 0xd8}
		if c, ok := fix[n]; ok && it.width == 0 {
			out = append(out, c)
		} else {
			w := mpWidthFor(uint64(n), it.width, 1, 2, 4)
			out = append(out, map[int]byte{1: 0xc7, 2: 0xc8, 4: 0xc9}[w])
			out = mpPutN(out, uint64(n), w)
		}
		out = append(out, byte(it.code))
		return append(out, it.raw...)
	}
	panic("mpWrite: " + it.kind)
}

// mpExt builds a refinement extension item from a header count and a stream.
func mpExt(code int8, count int, stream []*mpItem, trailing []byte) *mpItem {
	var raw []byte
	if count >= 0 {
		if count < 16 {
			raw = append(raw, 0x80|byte(count))
		} else {
			raw = append(raw, 0xde)
			raw = mpPutN(raw, uint64(count), 2)
		}
	} else {
		raw = append(raw, 0xc0)
	}
	for _, x := range stream {
		raw = mpWrite(raw, x)
	}
	raw = append(raw, trailing...)
	it := &mpItem{kind: "ext", code: code, raw: raw}
	mpParseExtBody(it)
	return it
}

func mpInt(i int64) *mpItem    { return &mpItem{kind: "int", i: i} }
func mpUint(u uint64) *mpItem  { return &mpItem{kind: "uint", u: u} }
func mpStr(s string) *mpItem   { return &mpItem{kind: "str", s: []byte(s)} }
func mpBool(b bool) *mpItem    { return &mpItem{kind: "bool", b: b} }
func mpNil() *mpItem           { return &mpItem{kind: "nil"} }
func mpF64(f float64) *mpItem  { return &mpItem{kind: "f64", f: f} }
func mpF32(f float32) *mpItem  { return &mpItem{kind: "f32", f: float64(f)} }
func mpBin(b []byte) *mpItem   { return &mpItem{kind: "bin", s: b} }
func mpArr(xs ...*mpItem) *mpItem { return &mpItem{kind: "arr", xs: xs} }
func mpMap(kv ...*mpItem) *mpItem { return &mpItem{kind: "map", xs: kv} }
