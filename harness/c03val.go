package main

// C03, value half: equality (Equals / RawEquals / rawNumberEqual), hashing
// (appendSetHashBytes, Value.Hash) and set-typed values / ValueSet of the REAL
// go-cty, against
//   (a) the Lean model (correspondence: num.textf/textg/raweq, op.equals,
//       op.rawequals, hash.bytes, hash.crc, setval incl. bucket layout and
//       iteration order, vset.run histories incl. bucket layout), and
//   (b) the property predicates, evaluated on the implementation's own answers:
//
//	raw-refl / raw-symm / raw-trans      RawEquals is an equivalence
//	equals-refl / -symm / -trans         Equals (incl. unknown results for symmetry)
//	equals-nulls                         null = null, null != every known non-null value
//	equals-vs-rawequals                  wholly known, unmarked, same type: Equals true iff RawEquals
//	trichotomy                           numbers: exactly one of <, =, >
//	hash-coherence                       Equals true  =>  same hash bytes
//	set-members / set-order-independence SetVal of every permutation of the same inputs: no two
//	                                     equal members, every input is an element, same length,
//	                                     same iteration order, RawEquals and Equals each other
//	valueset-vs-reference                ValueSet add/remove/has/copy/union/... against a list set
//
// Values come in POOLS: a handful of values of one type with many equalities among
// them (one number carried at several precisions, its neighbours in the 11th
// significant digit, NFC-equal strings, nulls; the same wrapped in tuples, lists,
// maps, objects, sets, sets of sets).  All pairs and triples of a pool are judged.

import (
	"fmt"
	"math"
	"math/big"
	"sort"
	"strconv"
	"strings"

	"github.com/zclconf/go-cty/cty"
)

// ---- Go literals that reproduce a value exactly (precision included) -------

const c03LitPrelude = "/* bigNum := func(prec uint, s string) cty.Value { f, _, _ := new(big.Float).SetPrec(prec).Parse(s, 0); return cty.NumberVal(f) } */ "

func c03NumLit(v cty.Value) string {
	f := v.AsBigFloat()
	if f.IsInf() {
		if f.Signbit() {
			return "cty.NegativeInfinity"
		}
		return "cty.PositiveInfinity"
	}
	w := cty.VerifNumWire(f)
	same := func(c func() cty.Value) bool {
		ok := false
		try(func() { ok = cty.VerifNumWire(c().AsBigFloat()) == w })
		return ok
	}
	if f.IsInt() && f.Prec() == 64 {
		if i, acc := f.Int64(); acc == big.Exact && same(func() cty.Value { return cty.NumberIntVal(i) }) {
			return fmt.Sprintf("cty.NumberIntVal(%d)", i)
		}
	}
	if f.Prec() == 53 {
		if x, acc := f.Float64(); acc == big.Exact && same(func() cty.Value { return cty.NumberFloatVal(x) }) {
			return "cty.NumberFloatVal(" + strconv.FormatFloat(x, 'g', -1, 64) + ")"
		}
	}
	if f.Prec() == 512 {
		s := f.Text('f', -1)
		if len(s) < 60 && same(func() cty.Value { return cty.MustParseNumberVal(s) }) {
			return "cty.MustParseNumberVal(\"" + s + "\")"
		}
	}
	return fmt.Sprintf("bigNum(%d, %q /* %s */)", f.Prec(), f.Text('p', 0), f.Text('g', 25))
}

func c03Lit(v cty.Value) string {
	if v == cty.NilVal {
		return "cty.NilVal"
	}
	if v.IsMarked() {
		u, m := v.Unmark()
		var ms []string
		for k := range m {
			ms = append(ms, fmt.Sprintf("%q", fmt.Sprint(k)))
		}
		sort.Strings(ms)
		s := c03Lit(u)
		for _, k := range ms {
			s += ".Mark(" + k + ")"
		}
		return s
	}
	t := v.Type()
	if !v.IsKnown() {
		return v.GoString()
	}
	if v.IsNull() {
		return "cty.NullVal(" + t.GoString() + ")"
	}
	list := func(vs []cty.Value) string {
		p := make([]string, len(vs))
		for i, e := range vs {
			p[i] = c03Lit(e)
		}
		return "[]cty.Value{" + strings.Join(p, ", ") + "}"
	}
	switch {
	case t == cty.Number:
		return c03NumLit(v)
	case t == cty.Bool:
		if v.True() {
			return "cty.True"
		}
		return "cty.False"
	case t == cty.String:
		return fmt.Sprintf("cty.StringVal(%q)", v.AsString())
	case t.IsListType():
		if v.LengthInt() == 0 {
			return "cty.ListValEmpty(" + t.ElementType().GoString() + ")"
		}
		return "cty.ListVal(" + list(v.AsValueSlice()) + ")"
	case t.IsSetType():
		if v.LengthInt() == 0 {
			return "cty.SetValEmpty(" + t.ElementType().GoString() + ")"
		}
		return "cty.SetVal(" + list(v.AsValueSlice()) + ")"
	case t.IsTupleType():
		return "cty.TupleVal(" + list(v.AsValueSlice()) + ")"
	case t.IsMapType() || t.IsObjectType():
		m := v.AsValueMap()
		if t.IsMapType() && len(m) == 0 {
			return "cty.MapValEmpty(" + t.ElementType().GoString() + ")"
		}
		var p []string
		for _, k := range sortedKeys(m) {
			p = append(p, fmt.Sprintf("%q: %s", k, c03Lit(m[k])))
		}
		c := "cty.ObjectVal"
		if t.IsMapType() {
			c = "cty.MapVal"
		}
		return c + "(map[string]cty.Value{" + strings.Join(p, ", ") + "})"
	}
	return v.GoString()
}

func c03Lits(vs ...cty.Value) string {
	p := make([]string, len(vs))
	for i, v := range vs {
		p[i] = c03Lit(v)
	}
	s := strings.Join(p, " ; ")
	if strings.Contains(s, "bigNum(") {
		s = c03LitPrelude + s
	}
	return s
}

// ---- numbers: one value at several precisions, and its neighbours -----------

var c03One = cty.MustParseNumberVal("1")

// c03NumVariants: the decimal d parsed at 512 bits; its float64 rounding; that
// float64's exact value re-carried at 512 bits; a 24-bit and a 100-bit rounding.
func c03NumVariants(d string) []cty.Value {
	var a cty.Value
	if p, _ := try(func() { a = cty.MustParseNumberVal(d) }); p {
		return nil
	}
	out := []cty.Value{a}
	f, err := strconv.ParseFloat(d, 64)
	if err == nil && !math.IsInf(f, 0) {
		b := cty.NumberFloatVal(f)
		out = append(out, b, b.Multiply(c03One))
		out = append(out, cty.NumberVal(new(big.Float).SetPrec(24).SetFloat64(f)))
	}
	out = append(out, cty.NumberVal(new(big.Float).SetPrec(100).Set(a.AsBigFloat())))
	return out
}

var c03Decimals = []string{"0.1", "3.9477794105", "0.5", "-2.25", "1.0000000005", "9.9999999995", "1180591620717411303424", "18014398509481984",
	"36028797018963969", "17179869181", "17179869185", "123456789.123456789", "0.30000000000000004", "1e-7", "-1e20", "0.000001234567891", "1.00000000001",
	"0", "-0", "1e3", "2.5e-320", "340282366920938463463374607431768211456", "0.1e1", "7", "-3", "1e22", "1e23", "4.35", "0.7", "-0.3"}

// c03RandomDecimal: a decimal text of one of several shapes.
func c03RandomDecimal(ctx *Ctx) string {
	r := ctx.R
	switch r.Intn(8) {
	case 0, 1:
		return c03Decimals[r.Intn(len(c03Decimals))]
	case 2: // random digits with a decimal point
		n := 1 + r.Intn(24)
		var sb strings.Builder
		if r.Intn(4) == 0 {
			sb.WriteByte('-')
		}
		dot := r.Intn(n + 1)
		for i := 0; i < n; i++ {
			if i == dot {
				if i == 0 {
					sb.WriteByte('0')
				}
				sb.WriteByte('.')
			}
			sb.WriteByte(byte('0' + r.Intn(10)))
		}
		return sb.String()
	case 3: // a power of two >= 2^54, exactly
		z := new(big.Int).Lsh(big.NewInt(1), uint(54+r.Intn(200)))
		return z.String()
	case 4: // a float64-derived integer >= 2^54, exactly
		f := math.Ldexp(1+r.Float64(), 54+r.Intn(150))
		return new(big.Float).SetFloat64(f).Text('f', 0)
	case 5: // a random float64, shortest text
		f := math.Float64frombits(r.Uint64())
		if math.IsNaN(f) || math.IsInf(f, 0) {
			f = 0.1
		}
		if e := math.Abs(f); e != 0 && (e > 1e60 || e < 1e-60) {
			f = math.Mod(f, 1000) + 0.3
			if math.IsNaN(f) {
				f = 0.3
			}
		}
		return strconv.FormatFloat(f, 'g', -1, 64)
	case 6: // ten significant digits then a 5: the rounding boundary of the hash text
		var sb strings.Builder
		sb.WriteByte(byte('1' + r.Intn(9)))
		sb.WriteByte('.')
		for i := 0; i < 9; i++ {
			sb.WriteByte(byte('0' + r.Intn(10)))
		}
		sb.WriteString([]string{"5", "49", "51", "4999999999", "5000000001"}[r.Intn(5)])
		if r.Intn(3) == 0 {
			sb.WriteString("e" + strconv.Itoa(r.Intn(30)-15))
		}
		return sb.String()
	default: // small integers and halves
		return []string{"1", "2", "-1", "10", "0.25", "1.5", "100", "255", "65536"}[r.Intn(9)]
	}
}

// c03Neighbour: the same number changed in the 12th significant digit or so.
func c03Neighbour(ctx *Ctx, d string) string {
	a := new(big.Float).SetPrec(512)
	if _, ok := a.SetString(d); !ok || a.Sign() == 0 {
		return "1.00000000002"
	}
	eps := new(big.Float).SetPrec(512).SetFloat64([]float64{1e-11, 3e-11, -1e-11, 1e-13, 1e-17}[ctx.R.Intn(5)])
	a.Add(a, new(big.Float).SetPrec(512).Mul(a, eps))
	return a.Text('g', 30)
}

func c03DedupVals(vs []cty.Value, max int) []cty.Value {
	seen := map[string]bool{}
	var out []cty.Value
	for _, v := range vs {
		k := encVal(v)
		if !seen[k] && len(out) < max {
			seen[k] = true
			out = append(out, v)
		}
	}
	return out
}

func c03NumPool(ctx *Ctx) []cty.Value {
	d := c03RandomDecimal(ctx)
	vs := c03NumVariants(d)
	vs = append(vs, c03NumVariants(c03Neighbour(ctx, d))...)
	if ctx.R.Intn(3) == 0 {
		vs = append(vs, genNumber(ctx.R, ValOpts{}))
	}
	ctx.R.Shuffle(len(vs), func(i, j int) { vs[i], vs[j] = vs[j], vs[i] })
	return c03DedupVals(vs, 8)
}

// ---- pools -------------------------------------------------------------------

type c03Pool struct {
	name string
	vals []cty.Value // all of one type
}

var c03Strs = []string{"é", "é", "e", "", "a", "Å", "Å", "Å", "가", "가", "a\"\\\n", "­", "b"}

var c03Wrappers = []string{"tuple1", "list2", "map1", "obj", "set1", "set2", "tupnull", "listset", "setset", "setlist"}

func c03Wrap(kind string, x, y cty.Value) cty.Value {
	switch kind {
	case "tuple1":
		return cty.TupleVal([]cty.Value{x})
	case "list2":
		return cty.ListVal([]cty.Value{x, y})
	case "map1":
		return cty.MapVal(map[string]cty.Value{"k": x})
	case "obj":
		return cty.ObjectVal(map[string]cty.Value{"a": x, "b": cty.StringVal("s")})
	case "set1":
		return cty.SetVal([]cty.Value{x})
	case "set2":
		return cty.SetVal([]cty.Value{x, y})
	case "tupnull":
		return cty.TupleVal([]cty.Value{cty.NullVal(x.Type()), x})
	case "listset":
		return cty.ListVal([]cty.Value{cty.SetVal([]cty.Value{x})})
	case "setset":
		return cty.SetVal([]cty.Value{cty.SetVal([]cty.Value{x, y})})
	case "setlist":
		return cty.SetVal([]cty.Value{cty.ListVal([]cty.Value{x}), cty.ListVal([]cty.Value{y})})
	}
	panic("c03Wrap " + kind)
}

func c03WrapPool(name, kind string, base []cty.Value) c03Pool {
	vs := make([]cty.Value, 0, len(base)+1)
	for _, x := range base {
		vs = append(vs, c03Wrap(kind, x, base[0]))
	}
	vs = c03DedupVals(vs, 8)
	vs = append(vs, cty.NullVal(vs[0].Type()))
	return c03Pool{name + ":" + kind, vs}
}

// c03Reprec rebuilds a value with every number re-carried: mode 0 float64
// rounding, 1 the 512-bit parse of its shortest text, 2 the exact value at 512 bits.
func c03Reprec(v cty.Value, mode int) cty.Value {
	if v.IsMarked() {
		u, m := v.Unmark()
		return c03Reprec(u, mode).WithMarks(m)
	}
	if !v.IsKnown() || v.IsNull() {
		return v
	}
	t := v.Type()
	each := func() []cty.Value {
		vs := v.AsValueSlice()
		out := make([]cty.Value, len(vs))
		for i, e := range vs {
			out[i] = c03Reprec(e, mode)
		}
		return out
	}
	switch {
	case t == cty.Number:
		f := v.AsBigFloat()
		if f.IsInf() {
			return v
		}
		switch mode {
		case 0:
			x, _ := f.Float64()
			if math.IsInf(x, 0) {
				return v
			}
			return cty.NumberFloatVal(x)
		case 1:
			return cty.MustParseNumberVal(f.Text('f', -1))
		default:
			return v.Multiply(c03One)
		}
	case t.IsListType():
		if v.LengthInt() == 0 {
			return v
		}
		return cty.ListVal(each())
	case t.IsSetType():
		if v.LengthInt() == 0 {
			return v
		}
		return cty.SetVal(each())
	case t.IsTupleType():
		return cty.TupleVal(each())
	case t.IsMapType() || t.IsObjectType():
		m := v.AsValueMap()
		if len(m) == 0 {
			return v
		}
		out := map[string]cty.Value{}
		for k, e := range m {
			out[k] = c03Reprec(e, mode)
		}
		if t.IsMapType() {
			return cty.MapVal(out)
		}
		return cty.ObjectVal(out)
	}
	return v
}

// c03GenPool: a generated value, its three re-precisioned twins, another value of
// the same type, a null.  known=false admits unknowns, marks and DynamicVal.
func c03GenPool(ctx *Ctx, known bool) (c03Pool, bool) {
	vo := ValOpts{Null: true, Small: ctx.R.Intn(2) == 0, NoInf: false}
	name := "gen-known"
	if !known {
		vo.Unknown, vo.Marks, vo.DynVal = true, true, true
		name = "gen-any"
	}
	t := concretize(ctx.R, genTy(ctx.R, 2, TyOpts{}))
	var pool c03Pool
	p, _ := try(func() {
		v := genVal(ctx.R, t, 2, vo)
		vs := []cty.Value{v, c03Reprec(v, 0), c03Reprec(v, 1), c03Reprec(v, 2), genVal(ctx.R, t, 2, vo), genVal(ctx.R, t, 2, vo), cty.NullVal(t)}
		ok := vs[:0]
		for _, x := range vs {
			if x.Type().Equals(t) {
				ok = append(ok, x)
			}
		}
		pool = c03Pool{name, c03DedupVals(ok, 8)}
	})
	return pool, !p && len(pool.vals) >= 2
}

// ---- the pair matrix of a pool ---------------------------------------------

type c03Mat struct {
	p    c03Pool
	n    int
	w    []string   // wire
	wk   []bool     // wholly known and mark-free
	hb   []string   // hash bytes ("\x00PANIC" if hashing panics)
	eqT  [][]bool   // Equals is the unmarked known True
	eqD  [][]string // canonical Equals outcome
	raw  [][]int    // RawEquals: 1, 0, -1 = panic
	isNl []bool
}

func c03HashBytes(v cty.Value) string {
	b, p := cty.VerifHashBytes(v)
	if p {
		return "\x00PANIC"
	}
	return string(b)
}

func c03Matrix(p c03Pool) *c03Mat {
	n := len(p.vals)
	m := &c03Mat{p: p, n: n, w: make([]string, n), wk: make([]bool, n), hb: make([]string, n), isNl: make([]bool, n)}
	for i, v := range p.vals {
		m.w[i] = encVal(v)
		m.wk[i] = v.IsWhollyKnown() && !v.ContainsMarked()
		m.hb[i] = c03HashBytes(v)
		u, _ := v.Unmark()
		m.isNl[i] = u.IsNull()
	}
	m.eqT, m.eqD, m.raw = make([][]bool, n), make([][]string, n), make([][]int, n)
	for i := 0; i < n; i++ {
		m.eqT[i], m.eqD[i], m.raw[i] = make([]bool, n), make([]string, n), make([]int, n)
		for j := 0; j < n; j++ {
			a, b := p.vals[i], p.vals[j]
			out, r, pn := opOut(func() cty.Value { return a.Equals(b) })
			m.eqD[i][j] = out
			if !pn && !r.IsMarked() && r.IsKnown() && !r.IsNull() && r.Type() == cty.Bool {
				m.eqT[i][j] = r.True()
			}
			var re bool
			if pp, _ := try(func() { re = a.RawEquals(b) }); pp {
				m.raw[i][j] = -1
			} else if re {
				m.raw[i][j] = 1
			}
		}
	}
	return m
}

// ---- diagnosis: WHY do two Equals-true values hash differently? -------------

const (
	c03SigHashText  = "noninteger-numbers-equal-shortest-text-different-10-digit-text"
	c03SigLessTied  = "less-tied-inequivalent-members"
	c03SigEqVsCmp   = "equals-by-text-disagrees-with-exact-cmp"
	c03SiteOrder    = "set-order-independence"
	c03SiteCoherent = "hash-coherence"
)

func c03EqualsTrue(a, b cty.Value) bool {
	ok := false
	try(func() {
		r := a.Equals(b)
		ok = !r.IsMarked() && r.IsKnown() && r.True()
	})
	return ok
}

// c03NumIncoherence classifies an Equals-true pair of numbers whose hash bytes differ.
func c03NumIncoherence(a, b cty.Value) string {
	fa, fb := a.AsBigFloat(), b.AsBigFloat()
	switch {
	case fa.Sign() == 0 && fb.Sign() == 0:
		return "zeros"
	case fa.IsInt() && fb.IsInt():
		return "integers-of-equal-value"
	case fa.IsInf() || fb.IsInf():
		return "infinities"
	case !fa.IsInt() && !fb.IsInt() && fa.Text('f', -1) == fb.Text('f', -1) && fa.String() != fb.String() && fa.Cmp(fb) != 0:
		return c03SigHashText
	}
	return "numbers-other"
}

// c03LessTied mirrors setRules.Less only to NAME the cause of an order
// difference: two members of element type ety that Less orders neither way.
func c03LessTied(x, y cty.Value) bool {
	if x.IsNull() || y.IsNull() || !x.IsKnown() || !y.IsKnown() {
		return false
	}
	switch x.Type() {
	case cty.String, cty.Bool:
		return false
	case cty.Number:
		return x.AsBigFloat().Cmp(y.AsBigFloat()) == 0
	}
	return c03HashBytes(x) == c03HashBytes(y)
}

// c03SetHasTie: the set value holds two members that are not Equals and that Less does not order.
func c03SetHasTie(s cty.Value) bool {
	return c03SetTieSig(s) != ""
}

// c03SigTieCollision: two inequivalent compound members tie in Less because their hash texts
// coincide although they differ in SHAPE or in a string / bool leaf — something the recorded
// cause (numbers that agree in 10 significant digits, unknown or capsule leaves) does not explain.
// Never recorded as a finding: on the unchanged tree the hash text is injective on those parts
// (strings are %q-quoted, every delimiter is outside the quoted text).
const c03SigTieCollision = "less-tied-by-colliding-hash-text-of-different-structures"

// c03SetTieSig: "" (no tie), c03SigLessTied (every tie is explained by the recorded cause) or c03SigTieCollision.
func c03SetTieSig(s cty.Value) string {
	sig := ""
	try(func() {
		ms := s.AsValueSlice()
		for i := range ms {
			for j := i + 1; j < len(ms); j++ {
				if !c03EqualsTrue(ms[i], ms[j]) && c03LessTied(ms[i], ms[j]) {
					if ms[i].Type() != cty.Number && !c03TieExplained(ms[i], ms[j]) {
						sig = c03SigTieCollision
					} else if sig == "" {
						sig = c03SigLessTied
					}
				}
			}
		}
	})
	return sig
}

// c03TieExplained: x and y (one type, equal hash text) have the same shape and agree on every
// string and bool leaf, so that they can only differ in number leaves (equal to 10 significant
// digits), unknown / null-vs-null leaves or capsule leaves — the recorded cause of hash ties.
func c03TieExplained(x, y cty.Value) bool {
	ok := true
	try(func() { ok = c03SameShape(x, y) })
	return ok
}

func c03SameShape(x, y cty.Value) bool {
	if x.IsMarked() || y.IsMarked() {
		x, _ = x.Unmark()
		y, _ = y.Unmark()
	}
	if !x.Type().Equals(y.Type()) || x.IsNull() != y.IsNull() || x.IsKnown() != y.IsKnown() {
		return false
	}
	if x.IsNull() || !x.IsKnown() {
		return true
	}
	t := x.Type()
	switch {
	case t == cty.String:
		return x.AsString() == y.AsString()
	case t == cty.Bool:
		return x.True() == y.True()
	case t == cty.Number || t.IsCapsuleType():
		return true
	case t.IsListType() || t.IsTupleType() || t.IsSetType():
		if x.LengthInt() != y.LengthInt() {
			return false
		}
		a, b := x.AsValueSlice(), y.AsValueSlice()
		for i := range a {
			if !c03SameShape(a[i], b[i]) {
				return false
			}
		}
		return true
	case t.IsMapType() || t.IsObjectType():
		a, b := x.AsValueMap(), y.AsValueMap()
		if len(a) != len(b) {
			return false
		}
		for k, av := range a {
			bv, ok := b[k]
			if !ok || !c03SameShape(av, bv) {
				return false
			}
		}
		return true
	}
	return true
}

// c03Cause walks two values of one type in parallel and names the first reason it
// finds for "Equals true but different hash bytes" / "Equals and RawEquals
// disagree": (site, sig).  Empty site = no known cause found.
func c03Cause(a, b cty.Value) (site, sig string) {
	if a.IsMarked() || b.IsMarked() {
		a, _ = a.Unmark()
		b, _ = b.Unmark()
	}
	if !a.IsKnown() || !b.IsKnown() || a.IsNull() || b.IsNull() || !a.Type().Equals(b.Type()) {
		return "", ""
	}
	t := a.Type()
	switch {
	case t == cty.Number:
		if c03EqualsTrue(a, b) && c03HashBytes(a) != c03HashBytes(b) {
			return c03SiteCoherent, c03NumIncoherence(a, b)
		}
		return "", ""
	case t.IsSetType():
		for _, s := range []cty.Value{a, b} {
			if sg := c03SetTieSig(s); sg != "" {
				return c03SiteOrder, sg
			}
		}
		// a cause inside some pair of members (Equals-true numbers that hash
		// differently, or a tie inside nested sets), at any depth
		for _, x := range a.AsValueSlice() {
			for _, y := range b.AsValueSlice() {
				if st, sg := c03Cause(x, y); st != "" {
					return st, sg
				}
			}
		}
		return "", ""
	case t.IsListType() || t.IsTupleType():
		as, bs := a.AsValueSlice(), b.AsValueSlice()
		for i := 0; i < len(as) && i < len(bs); i++ {
			if st, sg := c03Cause(as[i], bs[i]); st != "" {
				return st, sg
			}
		}
	case t.IsMapType() || t.IsObjectType():
		am, bm := a.AsValueMap(), b.AsValueMap()
		for _, k := range sortedKeys(am) {
			if y, ok := bm[k]; ok {
				if st, sg := c03Cause(am[k], y); st != "" {
					return st, sg
				}
			}
		}
	}
	return "", ""
}

// ---- predicates over a pool ---------------------------------------------------

func c03Judge(ctx *Ctx, m *c03Mat) {
	vs, n := m.p.vals, m.n
	ctx.Tag("pool:" + strings.SplitN(m.p.name, "/", 2)[0])
	fail := func(site, sig, what string, outcome string, idx ...int) {
		var ws []string
		var ls []cty.Value
		for _, i := range idx {
			ws = append(ws, m.w[i])
			ls = append(ls, vs[i])
		}
		ctx.Fail(Failure{Site: site, Sig: sig, What: what, Input: strings.Join(ws, " "), GoLit: c03Lits(ls...), Outcome: outcome})
	}
	isNum := vs[0].Type() == cty.Number
	for i := 0; i < n; i++ {
		// reflexivity
		if m.raw[i][i] != 1 {
			fail("raw-refl", "raw-refl", "RawEquals(a, a) is not true", fmt.Sprint("RawEquals = ", m.raw[i][i]), i)
		}
		if m.wk[i] && !m.eqT[i][i] {
			fail("equals-refl", "equals-refl", "Equals(a, a) is not True for a wholly known value", m.eqD[i][i], i)
		}
		for j := 0; j < n; j++ {
			key := "pair " + m.w[i] + " " + m.w[j]
			ctx.Eval(key, m.eqT[i][j] || m.hb[i] == m.hb[j])
			// symmetry
			if i < j {
				if m.raw[i][j] != m.raw[j][i] {
					fail("raw-symm", "raw-symm", "RawEquals(a, b) differs from RawEquals(b, a)", fmt.Sprint(m.raw[i][j], " vs ", m.raw[j][i]), i, j)
				}
				if m.eqD[i][j] != m.eqD[j][i] {
					fail("equals-symm", "equals-symm", "Equals(a, b) differs from Equals(b, a)", m.eqD[i][j]+" vs "+m.eqD[j][i], i, j)
				}
			}
			// nulls
			ui, _ := vs[i].Unmark()
			uj, _ := vs[j].Unmark()
			if m.isNl[i] && !vs[i].IsMarked() && !vs[j].ContainsMarked() {
				switch {
				case m.isNl[j] && !m.eqT[i][j]:
					fail("equals-nulls", "null-not-equal-null", "Equals of two nulls is not True", m.eqD[i][j], i, j)
				case !m.isNl[j] && uj.IsKnown():
					if m.eqD[i][j] != "ok "+encVal(cty.False) {
						fail("equals-nulls", "null-vs-known", "Equals(null, known non-null value) is not False", m.eqD[i][j], i, j)
					}
				}
			}
			_ = ui
			if !(m.wk[i] && m.wk[j]) {
				continue
			}
			// Equals agrees with RawEquals on wholly known unmarked values of one type
			if m.eqT[i][j] != (m.raw[i][j] == 1) {
				site, sig := c03Cause(vs[i], vs[j])
				if site == "" {
					site, sig = "equals-vs-rawequals", "unexplained"
				}
				fail(site, sig, "Equals and RawEquals disagree on wholly known values of one type (cause named by the signature)",
					fmt.Sprint("Equals ", m.eqD[i][j], ", RawEquals ", m.raw[i][j] == 1), i, j)
			}
			// hash coherence
			if m.eqT[i][j] && m.hb[i] != m.hb[j] && i < j {
				site, sig := c03Cause(vs[i], vs[j])
				if site == "" {
					site, sig = c03SiteCoherent, "unexplained"
				}
				fail(site, sig, "two values that are Equals have different hash bytes (a set can hold both)",
					fmt.Sprintf("Equals True; hash bytes %q vs %q", m.hb[i], m.hb[j]), i, j)
			}
			// trichotomy
			if isNum && !m.isNl[i] && !m.isNl[j] {
				var lt, gt bool
				if pn, _ := try(func() { lt, gt = vs[i].LessThan(vs[j]).True(), vs[i].GreaterThan(vs[j]).True() }); pn {
					fail("trichotomy", "panic", "LessThan/GreaterThan panicked on known numbers", "panic", i, j)
				} else {
					cnt := 0
					for _, b := range []bool{lt, m.eqT[i][j], gt} {
						if b {
							cnt++
						}
					}
					ctx.Eval("tri "+m.w[i]+" "+m.w[j], m.eqT[i][j])
					if cnt != 1 {
						sig := "unexplained"
						cmp := vs[i].AsBigFloat().Cmp(vs[j].AsBigFloat())
						if lt == (cmp < 0) && gt == (cmp > 0) && m.eqT[i][j] != (cmp == 0) {
							sig = c03SigEqVsCmp
						}
						fail("trichotomy", sig, "not exactly one of a<b, a=b, a>b holds for two numbers", fmt.Sprintf("LessThan %v, Equals %v, GreaterThan %v", lt, m.eqT[i][j], gt), i, j)
					}
				}
			}
		}
	}
	// transitivity, all triples
	for i := 0; i < n; i++ {
		for j := 0; j < n; j++ {
			if i == j || (m.raw[i][j] != 1 && !m.eqT[i][j]) {
				continue
			}
			for k := 0; k < n; k++ {
				if k == j {
					continue
				}
				ctx.Eval("triple "+m.w[i]+" "+m.w[j]+" "+m.w[k], true)
				if m.raw[i][j] == 1 && m.raw[j][k] == 1 && m.raw[i][k] != 1 {
					fail("raw-trans", "raw-trans", "RawEquals(a,b) and RawEquals(b,c) but not RawEquals(a,c)", fmt.Sprint("RawEquals(a,c) = ", m.raw[i][k]), i, j, k)
				}
				if m.eqT[i][j] && m.eqT[j][k] && !m.eqT[i][k] {
					fail("equals-trans", "equals-trans", "Equals(a,b) and Equals(b,c) are True but Equals(a,c) is not", m.eqD[i][k], i, j, k)
				}
			}
		}
	}
}

// c03PoolCorr: correspondence cases for every member and pair of a pool.
func c03PoolCorr(ctx *Ctx, m *c03Mat) {
	for i, v := range m.p.vals {
		if b, pn := cty.VerifHashBytes(v); pn {
			ctx.Add("hash.bytes", "panic", m.w[i])
		} else {
			ctx.Add("hash.bytes", "ok "+encStr(string(b)), m.w[i])
		}
		var h int
		if pn, _ := try(func() { h = cty.VerifHash(v) }); pn {
			ctx.Add("hash.crc", "panic", m.w[i])
		} else {
			ctx.Add("hash.crc", "ok "+strconv.Itoa(h), m.w[i])
		}
		if v.Type() == cty.Number && v.IsKnown() && !v.IsNull() && !v.IsMarked() {
			f := v.AsBigFloat()
			nw := numWire(v)
			ctx.Add("num.textf", encStr(f.Text('f', -1)), nw)
			ctx.Add("num.textg", encStr(f.String()), nw)
		}
		for j, u := range m.p.vals {
			ctx.Add("op.equals", m.eqD[i][j], m.w[i], m.w[j])
			switch m.raw[i][j] {
			case -1:
				ctx.Add("op.rawequals", "panic", m.w[i], m.w[j])
			default:
				ctx.Add("op.rawequals", "ok "+strconv.Itoa(m.raw[i][j]), m.w[i], m.w[j])
			}
			if v.Type() == cty.Number && v.IsKnown() && !v.IsNull() && !v.IsMarked() && u.IsKnown() && !u.IsNull() && !u.IsMarked() {
				ctx.Add("num.raweq", encBool(m.eqT[i][j]), numWire(v), numWire(u))
			}
		}
	}
}

// ---- set-typed values: SetVal of every permutation ---------------------------

func c03Perms(n int, f func([]int)) {
	p := make([]int, n)
	for i := range p {
		p[i] = i
	}
	var rec func(int)
	rec = func(k int) {
		if k == n {
			f(append([]int(nil), p...))
			return
		}
		for i := k; i < n; i++ {
			p[k], p[i] = p[i], p[k]
			rec(k + 1)
			p[k], p[i] = p[i], p[k]
		}
	}
	rec(0)
}

type c03Built struct {
	perm   []int
	s      cty.Value
	wire   string   // (v ty payload): bucket layout included
	order  []string // dumps of the members in iteration order
	length int
	hasAll bool
	dupMem bool
}

// c03LawfulOn: on the real code, are the members idx pairwise coherent, and is
// Equals-true an equivalence among them?  (premise of the set clauses)
func c03LawfulOn(m *c03Mat, idx []int) bool {
	for _, i := range idx {
		if !m.wk[i] || !m.eqT[i][i] {
			return false
		}
		for _, j := range idx {
			if m.eqT[i][j] != m.eqT[j][i] || (m.eqT[i][j] && m.hb[i] != m.hb[j]) {
				return false
			}
			for _, k := range idx {
				if m.eqT[i][j] && m.eqT[j][k] && !m.eqT[i][k] {
					return false
				}
			}
		}
	}
	return true
}

func c03Classes(m *c03Mat, idx []int) int {
	var reps []int
	for _, i := range idx {
		found := false
		for _, r := range reps {
			if m.eqT[i][r] {
				found = true
				break
			}
		}
		if !found {
			reps = append(reps, i)
		}
	}
	return len(reps)
}

// c03SetCase: one multiset of inputs (indices into the pool), all or sampled permutations.
func c03SetCase(ctx *Ctx, m *c03Mat, in []int, maxPerms int) {
	vs := m.p.vals
	for _, i := range in {
		if !m.wk[i] {
			return
		}
	}
	lawful := c03LawfulOn(m, in)
	if !lawful {
		ctx.Tag("setval:inputs-not-lawful(premise-failed,reported-by-pair-predicates)")
	}
	var perms [][]int
	c03Perms(len(in), func(p []int) { perms = append(perms, p) })
	if len(perms) > maxPerms {
		ctx.R.Shuffle(len(perms)-1, func(i, j int) { perms[i+1], perms[j+1] = perms[j+1], perms[i+1] })
		perms = perms[:maxPerms]
	}
	lit := func(p []int) string {
		l := make([]cty.Value, len(p))
		for i, k := range p {
			l[i] = vs[in[k]]
		}
		s := "cty.SetVal([]cty.Value{" + strings.ReplaceAll(c03Lits(l...), " ; ", ", ") + "})"
		if strings.Contains(s, c03LitPrelude) {
			s = c03LitPrelude + strings.ReplaceAll(s, c03LitPrelude, "")
		}
		return s
	}
	wires := func(p []int) []string {
		w := make([]string, len(p))
		for i, k := range p {
			w[i] = m.w[in[k]]
		}
		return w
	}
	var built []c03Built
	seenPerm := map[string]bool{}
	for _, p := range perms {
		ws := wires(p)
		pk := strings.Join(ws, " ")
		if seenPerm[pk] {
			continue
		}
		seenPerm[pk] = true
		var b c03Built
		b.perm = p
		l := make([]cty.Value, len(p))
		for i, k := range p {
			l[i] = vs[in[k]]
		}
		pn, why := try(func() {
			b.s = cty.SetVal(l)
			b.wire = encVal(b.s)
			ms := b.s.AsValueSlice()
			b.length = b.s.LengthInt()
			for _, e := range ms {
				b.order = append(b.order, cty.VerifDump(e))
			}
			b.hasAll = true
			for _, x := range l {
				if !b.s.HasElement(x).True() {
					b.hasAll = false
				}
			}
			for i := range ms {
				for j := i + 1; j < len(ms); j++ {
					if c03EqualsTrue(ms[i], ms[j]) {
						b.dupMem = true
					}
				}
			}
		})
		ctx.Eval("setval "+pk, len(p) >= 2)
		ctx.Tag(fmt.Sprintf("setval:inputs=%d", len(p)))
		if pn {
			ctx.Add("setval", "panic", ws...)
			ctx.Fail(Failure{Site: "set-members", Sig: "setval-panic", What: "SetVal / AsValueSlice / HasElement panicked on wholly known members of one type", Input: "setval " + pk, GoLit: lit(p), Outcome: why})
			continue
		}
		ctx.Add("setval", "ok "+b.wire+" | ("+strings.Join(b.order, " ")+")", ws...)
		built = append(built, b)
		if !lawful {
			continue
		}
		if b.dupMem {
			ctx.Fail(Failure{Site: "set-members", Sig: "two-equal-members", What: "a set value holds two members that are Equals", Input: "setval " + pk, GoLit: lit(p), Outcome: b.wire})
		}
		if !b.hasAll {
			ctx.Fail(Failure{Site: "set-members", Sig: "input-not-element", What: "a value the set was built from is not an element (HasElement)", Input: "setval " + pk, GoLit: lit(p), Outcome: b.wire})
		}
		if want := c03Classes(m, in); b.length != want {
			ctx.Fail(Failure{Site: "set-members", Sig: "length-vs-distinct-inputs", What: "the set does not hold exactly the distinct values it was built from", Input: "setval " + pk, GoLit: lit(p),
				Outcome: fmt.Sprintf("LengthInt %d, distinct inputs %d: %s", b.length, want, b.wire)})
		}
	}
	if !lawful || len(built) < 2 {
		return
	}
	b0 := built[0]
	for _, b := range built[1:] {
		pk := strings.Join(wires(b0.perm), " ") + "  vs  " + strings.Join(wires(b.perm), " ")
		glit := lit(b0.perm) + " ; " + lit(b.perm)
		// same iteration order = the same members position by position (a member may be
		// represented by any of the equal inputs, so positions are compared with RawEquals)
		sameOrder := len(b0.order) == len(b.order)
		var rawEq, eqT bool
		try(func() {
			m0, m1 := b0.s.AsValueSlice(), b.s.AsValueSlice()
			for i := 0; sameOrder && i < len(m0); i++ {
				sameOrder = m0[i].RawEquals(m1[i])
			}
			rawEq = b0.s.RawEquals(b.s)
			eqT = c03EqualsTrue(b0.s, b.s)
		})
		if sameOrder && rawEq && eqT {
			continue
		}
		site, sig := c03SiteOrder, "unexplained"
		if s0, s1 := c03SetTieSig(b0.s), c03SetTieSig(b.s); s0 == c03SigTieCollision || s1 == c03SigTieCollision {
			sig = c03SigTieCollision
		} else if s0 != "" || s1 != "" {
			sig = c03SigLessTied
		} else if st, sg := c03Cause(b0.s, b.s); st != "" {
			site, sig = st, sg
		} else if vs[in[0]].Type() == cty.Number {
			// two inputs that are Equals but not equal in value: whichever of them the set
			// retains is placed by exact comparison, possibly on different sides of a third member
			for _, i := range in {
				for _, j := range in {
					if m.eqT[i][j] && !m.isNl[i] && !m.isNl[j] && vs[i].AsBigFloat().Cmp(vs[j].AsBigFloat()) != 0 {
						site, sig = "trichotomy", c03SigEqVsCmp
					}
				}
			}
		}
		ctx.Fail(Failure{Site: site, Sig: sig,
			What:  "two sets built from the same values in different insertion orders iterate differently / are not RawEquals (members that are not equivalent but that setRules.Less orders neither way keep their insertion order)",
			Input: "setval " + pk, GoLit: glit,
			Outcome: fmt.Sprintf("same iteration order %v, RawEquals %v, Equals true %v: (%s) vs (%s)", sameOrder, rawEq, eqT, strings.Join(b0.order, " "), strings.Join(b.order, " "))})
	}
}

// c03SetCases: allPairs = every input multiset of size <= 2 in every order (the
// exhaustive scope), else a sample of pairs; nLarge random multisets of 3..6 inputs.
func c03SetCases(ctx *Ctx, m *c03Mat, allPairs bool, nLarge int) {
	n := m.n
	var known []int
	for i := 0; i < n; i++ {
		if m.wk[i] {
			known = append(known, i)
		}
	}
	if len(known) == 0 {
		return
	}
	if allPairs {
		// every input multiset of size <= 2, every order
		for a := 0; a < len(known); a++ {
			c03SetCase(ctx, m, []int{known[a]}, 1)
			for b := a; b < len(known); b++ {
				c03SetCase(ctx, m, []int{known[a], known[b]}, 2)
			}
		}
	} else {
		for k := 0; k < ctx.N(5, 12); k++ {
			c03SetCase(ctx, m, []int{known[ctx.R.Intn(len(known))], known[ctx.R.Intn(len(known))]}, 2)
		}
	}
	// random larger multisets: all permutations up to 4 inputs; 5..6 inputs sampled (quick) / all (thorough)
	for k := 0; k < nLarge; k++ {
		sz := 3 + ctx.R.Intn(2)
		maxP := ctx.N(6, 24)
		if k == 0 && (allPairs || ctx.R.Intn(ctx.N(4, 10)) == 0) {
			sz = 5 + ctx.R.Intn(2)
			maxP = ctx.N(6, 60)
			if allPairs {
				maxP = ctx.N(6, 720) // thorough, exhaustive-scope pools: every permutation of <= 6 inputs
			}
		}
		in := make([]int, sz)
		for i := range in {
			in[i] = known[ctx.R.Intn(len(known))]
		}
		c03SetCase(ctx, m, in, maxP)
	}
}

// ---- ValueSet histories -----------------------------------------------------------

// c03VSHistory runs one history on real ValueSets over the pool's values; values
// are named by pool index.  When judge is set the answers are compared with a
// reference list set of class representatives.
func c03VSHistory(ctx *Ctx, m *c03Mat, nregs int, ops []c03Op, judge bool) {
	vs := m.p.vals
	ety := vs[0].Type()
	regs := make([]cty.ValueSet, nregs)
	ref := make([][]int, nregs)
	for i := range regs {
		regs[i] = cty.NewValueSet(ety)
	}
	has := func(l []int, x int) bool {
		for _, y := range l {
			if m.eqT[x][y] {
				return true
			}
		}
		return false
	}
	var outs []string
	var viol []c03Viol
	bad := func(sig, what, outcome string) {
		if len(viol) < 3 {
			viol = append(viol, c03Viol{"valueset-vs-reference", sig, what, outcome})
		}
	}
	dump := func(l []cty.Value) string {
		p := make([]string, len(l))
		for i, e := range l {
			p[i] = cty.VerifDump(e)
		}
		return "(" + strings.Join(p, " ") + ")"
	}
	pn, why := try(func() {
		for step, o := range ops {
			switch o.k {
			case "add":
				regs[o.a].Add(vs[o.b])
				if !has(ref[o.a], o.b) {
					ref[o.a] = append(ref[o.a], o.b)
				}
			case "rem":
				regs[o.a].Remove(vs[o.b])
				var nl []int
				for _, y := range ref[o.a] {
					if !m.eqT[o.b][y] {
						nl = append(nl, y)
					}
				}
				ref[o.a] = nl
			case "has":
				got := regs[o.a].Has(vs[o.b])
				outs = append(outs, encBool(got))
				if judge && got != has(ref[o.a], o.b) {
					bad("has", "ValueSet.Has disagrees with the reference set", fmt.Sprintf("step %d %s = %v", step, o.wire(), got))
				}
			case "len":
				got := regs[o.a].Length()
				outs = append(outs, strconv.Itoa(got))
				if judge && got != len(ref[o.a]) {
					bad("length", "ValueSet.Length is not the number of distinct members", fmt.Sprintf("step %d %s = %d, reference %d", step, o.wire(), got, len(ref[o.a])))
				}
			case "vals":
				got := regs[o.a].Values()
				outs = append(outs, dump(got))
				if judge {
					ok := len(got) == len(ref[o.a])
					for _, g := range got {
						f := false
						for _, y := range ref[o.a] {
							if c03EqualsTrue(g, vs[y]) {
								f = true
							}
						}
						ok = ok && f
					}
					if !ok {
						bad("values", "ValueSet.Values does not list one representative of every member", fmt.Sprintf("step %d %s = %s, reference has %d", step, o.wire(), dump(got), len(ref[o.a])))
					}
				}
			case "copy":
				regs[o.a] = regs[o.b].Copy()
				ref[o.a] = append([]int(nil), ref[o.b]...)
			case "union", "inter", "sub", "symd":
				A, B := ref[o.b], ref[o.c]
				var nl []int
				for _, x := range A {
					inB := has(B, x)
					if o.k == "union" || (o.k == "inter" && inB) || ((o.k == "sub" || o.k == "symd") && !inB) {
						nl = append(nl, x)
					}
				}
				for _, y := range B {
					inA := has(A, y)
					if (o.k == "union" && !inA) || (o.k == "symd" && !inA) {
						nl = append(nl, y)
					}
				}
				switch o.k {
				case "union":
					regs[o.a] = regs[o.b].Union(regs[o.c])
				case "inter":
					regs[o.a] = regs[o.b].Intersection(regs[o.c])
				case "sub":
					regs[o.a] = regs[o.b].Subtract(regs[o.c])
				case "symd":
					regs[o.a] = regs[o.b].SymmetricDifference(regs[o.c])
				}
				ref[o.a] = nl
			}
			if judge {
				for i := range regs {
					ms := regs[i].Values()
					ok := len(ms) == len(ref[i])
					for _, y := range ref[i] {
						if !regs[i].Has(vs[y]) {
							ok = false
						}
					}
					if !ok {
						bad("members:after-"+o.k, "the members of a ValueSet are not those of the mathematical result", fmt.Sprintf("after step %d %s set %d = %s, reference has %d members", step, o.wire(), i, dump(ms), len(ref[i])))
					}
				}
			}
		}
	})
	// wire: values by payload dump
	wops := make([]string, len(ops))
	gl := make([]string, len(ops))
	for i, o := range ops {
		switch o.arity() {
		case 2:
			if o.k == "copy" {
				wops[i] = o.wire()
			} else {
				wops[i] = fmt.Sprintf("(%s %d %s)", o.k, o.a, cty.VerifDump(vs[o.b]))
			}
		default:
			wops[i] = o.wire()
		}
		g := o.golit()
		if o.k == "add" || o.k == "rem" || o.k == "has" {
			g = strings.Replace(g, fmt.Sprintf("(%d)", o.b), "("+c03Lit(vs[o.b])+")", 1)
		}
		gl[i] = g
	}
	key := "vset.run " + encTy(ety) + " " + strconv.Itoa(nregs) + " " + strings.Join(wops, " ")
	ctx.Eval(key, len(ops) >= 3)
	ctx.Tag("vset:history")
	golit := fmt.Sprintf("s := make([]cty.ValueSet, %d); for i := range s { s[i] = cty.NewValueSet(%s) }; %s", nregs, ety.GoString(), strings.Join(gl, "; "))
	if strings.Contains(golit, "bigNum(") {
		golit = c03LitPrelude + golit
	}
	if pn {
		ctx.Fail(Failure{Site: "valueset-vs-reference", Sig: "panic", What: "a ValueSet call panicked on unmarked values of the element type", Input: key, GoLit: golit, Outcome: why})
		ctx.Add("vset.run", "panic", encTy(ety), strconv.Itoa(nregs), strings.Join(wops, " "))
		return
	}
	for _, v := range viol {
		ctx.Fail(Failure{Site: v.site, Sig: v.sig, What: v.what, Input: key, GoLit: golit, Outcome: v.outcome})
	}
	parts := append(outs, "|")
	for i := range regs {
		parts = append(parts, cty.VerifDump(cty.SetValFromValueSet(regs[i])))
	}
	ctx.Add("vset.run", strings.Join(parts, " "), encTy(ety), strconv.Itoa(nregs), strings.Join(wops, " "))
}

func c03VSCases(ctx *Ctx, m *c03Mat, count int) {
	// unmarked members only (ValueSet refuses marked values)
	var all, lawful []int
	for i, v := range m.p.vals {
		if v.ContainsMarked() {
			continue // marked values cannot be stored in sets (requireElementType / Hash panic by design)
		}
		all = append(all, i)
		if m.wk[i] && c03LawfulOn(m, append(append([]int(nil), lawful...), i)) {
			lawful = append(lawful, i)
		}
	}
	if len(all) == 0 {
		return
	}
	for k := 0; k < count; k++ {
		alpha, judge := all, false
		if k%2 == 0 && len(lawful) >= 2 {
			alpha, judge = lawful, true
		}
		nregs := 2 + ctx.R.Intn(2)
		l := 2 + ctx.R.Intn(ctx.N(10, 24))
		ops := make([]c03Op, l)
		for i := range ops {
			o := c03RandOp(ctx, &c03Rules{universe: alpha}, nregs)
			ops[i] = o
		}
		c03VSHistory(ctx, m, nregs, ops, judge)
	}
}

// ---- values of different types, unknowns, marks: symmetry only ----------------

func c03WildPair(ctx *Ctx) {
	vo := ValOpts{Unknown: true, Null: true, Marks: true, DynVal: true, Small: true}
	t := genTy(ctx.R, 2, TyOpts{Dyn: true})
	var a, b cty.Value
	if pn, _ := try(func() {
		a = genVal(ctx.R, t, 2, vo)
		if ctx.R.Intn(3) == 0 {
			b = genVal(ctx.R, mutateTy(ctx.R, a.Type(), TyOpts{Dyn: true}), 2, vo)
		} else {
			b = genVal(ctx.R, t, 2, vo)
		}
	}); pn {
		return
	}
	wa, wb := encVal(a), encVal(b)
	ab, _, _ := opOut(func() cty.Value { return a.Equals(b) })
	ba, _, _ := opOut(func() cty.Value { return b.Equals(a) })
	ctx.Add("op.equals", ab, wa, wb)
	ctx.Eval("wild "+wa+" "+wb, ab != "ok "+encVal(cty.False))
	ctx.Tag("wild-pair")
	if ab != ba {
		ctx.Fail(Failure{Site: "equals-symm", Sig: "equals-symm", What: "Equals(a, b) differs from Equals(b, a)", Input: wa + " " + wb, GoLit: c03Lits(a, b), Outcome: ab + " vs " + ba})
	}
	var r1, r2 bool
	p1, _ := try(func() { r1 = a.RawEquals(b) })
	p2, _ := try(func() { r2 = b.RawEquals(a) })
	if p1 {
		ctx.Add("op.rawequals", "panic", wa, wb)
	} else {
		ctx.Add("op.rawequals", "ok "+encBool(r1), wa, wb)
	}
	if p1 != p2 || r1 != r2 {
		ctx.Fail(Failure{Site: "raw-symm", Sig: "raw-symm", What: "RawEquals(a, b) differs from RawEquals(b, a)", Input: wa + " " + wb, GoLit: c03Lits(a, b), Outcome: fmt.Sprint(r1, p1, " vs ", r2, p2)})
	}
}
