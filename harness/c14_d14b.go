package main

// d14b: correspondence without oracle columns for the strings-package calls behind
// split / trimprefix / trimsuffix / trimspace / trim (the Lean side transliterates
// strings.Split, TrimPrefix, TrimSuffix, TrimSpace, Trim) and for the error domain of
// log / pow (the Lean side decides from the arguments alone whether math answers NaN).

import (
	"fmt"
	"math"
	"strings"
	"time"

	"github.com/zclconf/go-cty/cty"
	"github.com/zclconf/go-cty/cty/function/stdlib"
)

var c14RefNames = map[string]bool{"formatdate": true, "timeadd": true, "split": true, "trimprefix": true, "trimsuffix": true, "trimspace": true, "trim": true}

// nfcOnly keeps the recorded NFC facts and drops every other library column.
func (o *oracle) nfcOnly() string {
	var es []string
	for _, e := range o.entries {
		if strings.HasPrefix(e, "(nfc ") || strings.HasPrefix(e, "(timeAdd ") {
			es = append(es, e)
		}
	}
	return "(" + strings.Join(es, " ") + ")"
}

func c14RefGlue(ctx *Ctx, c glueCase, out string) {
	if !c14RefNames[c.name] {
		return
	}
	ctx.Add("std.glue.ref", out, c.name, wireArgs(c.args), c.orc.nfcOnly())
	ctx.Tag("ref:" + c.name)
}

func c14DomCase(ctx *Ctx, nm string, args []cty.Value, class string, fa, fb float64) {
	ctx.Add("std.dom", class, nm, wireArgs(args))
	switch {
	case class != "err":
		ctx.Tag("dom:" + nm + ":number")
	case nm == "log" && (fa < 0 || fb < 0):
		ctx.Tag("dom:log:negative")
	case nm == "log" && fa == 1 && fb == 1:
		ctx.Tag("dom:log:one-base-one")
	case nm == "log" && (fa == 0 || math.IsInf(fa, 1)) && (fb == 0 || math.IsInf(fb, 1)):
		ctx.Tag("dom:log:inf-over-inf")
	case nm == "pow" && fa < 0:
		ctx.Tag("dom:pow:negative-base-fractional-power")
	default:
		ctx.Tag("dom:" + nm + ":outside-float64")
	}
}

// extra inputs for the transliterated strings package: separators that occur, overlap
// themselves or are empty; empty strings; every Unicode space; cutsets.
func runC14D14b(ctx *Ctx) {
	r := ctx.R
	n := ctx.N(400, 6000)
	spaces := []string{"\t", "\n", "\v", "\f", "\r", " ", "\u0085", "\u00a0", "\u1680", "\u2000", "\u2003", "\u200a", "\u2028", "\u2029", "\u202f", "\u205f", "\u3000",
		"\u200b", "\u180e", "\ufeff", "\u001f", "\u001c"} // the last five are NOT spaces for unicode.IsSpace
	atoms := []string{"a", "b", "ab", "aa", "aba", ",", ", ", "é", "é", "ß", "日本", "😀", "x"}
	word := func(max int) string {
		var sb strings.Builder
		for k := r.Intn(max + 1); k > 0; k-- {
			sb.WriteString(atoms[r.Intn(len(atoms))])
		}
		return sb.String()
	}
	for i := 0; i < n; i++ {
		// split: separator drawn from the string itself half of the time
		str := word(8)
		sep := word(2)
		switch r.Intn(6) {
		case 0:
			sep = ""
		case 1:
			str = ""
		case 2, 3:
			if rs := []rune(str); len(rs) > 0 {
				a := r.Intn(len(rs))
				b := a + 1 + r.Intn(imin(2, len(rs)-a))
				sep = string(rs[a:b])
			}
		}
		parts := strings.Split(str, sep)
		ctx.Add("std.strref", encStrs(parts), "split", encStr(str), encStr(sep))
		switch {
		case sep == "" && str == "":
			ctx.Tag("split:empty-sep:empty-string")
		case sep == "":
			ctx.Tag("split:empty-sep")
		case str == "":
			ctx.Tag("split:empty-string")
		case len(parts) == 1:
			ctx.Tag("split:separator-absent")
		default:
			ctx.Tag("split:separator-present")
		}
		if sep != "" && strings.Join(parts, sep) != str {
			c14Fail(ctx, "split", "strings-split-join-not-inverse", "strings.Join(strings.Split(s, sep), sep) != s", "Split", []cty.Value{sv(sep), sv(str)}, encStrs(parts))
		}
		{
			o := newOracle()
			sv1, sv2 := sv(sep), sv(str)
			ps := strings.Split(sv2.AsString(), sv1.AsString())
			o.add("split", []string{sv2.AsString(), sv1.AsString()}, encStrs(ps))
			vals := make([]cty.Value, len(ps))
			for j, p := range ps {
				vals[j] = sv(o.nfc(p))
			}
			want := cty.ListValEmpty(cty.String)
			if len(vals) > 0 {
				want = cty.ListVal(vals)
			}
			runGlue(ctx, glueCase{name: "split", goNm: "Split", f: stdlib.SplitFunc, args: []cty.Value{sv1, sv2}, orc: o, want: want})
		}
		// trimspace over every space character, and some that only look like one
		sp := func() string {
			var sb strings.Builder
			for k := r.Intn(3); k > 0; k-- {
				sb.WriteString(spaces[r.Intn(len(spaces))])
			}
			return sb.String()
		}
		ts := sv(sp() + word(2) + sp() + word(1) + sp())
		{
			o := newOracle()
			lib := strings.TrimSpace(ts.AsString())
			o.add("trimSpace", []string{ts.AsString()}, encStr(lib))
			if lib == ts.AsString() {
				ctx.Tag("trimspace:unchanged")
			} else {
				ctx.Tag("trimspace:trimmed")
			}
			runGlue(ctx, glueCase{name: "trimspace", goNm: "TrimSpace", f: stdlib.TrimSpaceFunc, args: []cty.Value{ts}, orc: o, want: sv(o.nfc(lib))})
		}
		// trim / trimprefix / trimsuffix with a second argument cut from the first
		a := sv(word(5))
		b := sv(word(2))
		if rs := []rune(a.AsString()); len(rs) > 0 && r.Intn(2) == 0 {
			k := 1 + r.Intn(imin(3, len(rs)))
			if r.Intn(2) == 0 {
				b = sv(string(rs[:k]))
			} else {
				b = sv(string(rs[len(rs)-k:]))
			}
		}
		if r.Intn(10) == 0 {
			b = sv("")
		}
		for _, e := range []struct {
			name, goNm, lib string
			call            func(a, b string) string
		}{{"trim", "Trim", "trim", strings.Trim}, {"trimprefix", "TrimPrefix", "trimPrefix", strings.TrimPrefix}, {"trimsuffix", "TrimSuffix", "trimSuffix", strings.TrimSuffix}} {
			o := newOracle()
			lib := e.call(a.AsString(), b.AsString())
			o.add(e.lib, []string{a.AsString(), b.AsString()}, encStr(lib))
			if lib == a.AsString() {
				ctx.Tag(e.name + ":unchanged")
			} else {
				ctx.Tag(e.name + ":cut")
			}
			f := stdlib.TrimFunc
			if e.name == "trimprefix" {
				f = stdlib.TrimPrefixFunc
			} else if e.name == "trimsuffix" {
				f = stdlib.TrimSuffixFunc
			}
			runGlue(ctx, glueCase{name: e.name, goNm: e.goNm, f: f, args: []cty.Value{a, b}, orc: o, want: sv(o.nfc(lib))})
		}
	}
	c14Durations(ctx)
	// log / pow at the corners of the domain rule
	corner := []cty.Value{cty.NumberIntVal(0), cty.NumberIntVal(1), cty.NumberIntVal(-1), cty.NumberIntVal(2), cty.NumberIntVal(-2), cty.NumberIntVal(3), cty.NumberIntVal(-3),
		cty.NumberFloatVal(0.5), cty.NumberFloatVal(-0.5), cty.NumberFloatVal(1.5), cty.NumberFloatVal(-1.5), cty.PositiveInfinity, cty.NegativeInfinity,
		cty.NumberFloatVal(math.Nextafter(1, 2)), cty.NumberFloatVal(math.Nextafter(1, 0)), cty.NumberFloatVal(5e-324), cty.NumberFloatVal(-5e-324),
		cty.NumberFloatVal(math.MaxFloat64), cty.NumberFloatVal(-math.MaxFloat64), cty.NumberFloatVal(math.Copysign(0, -1)),
		cty.MustParseNumberVal("1e-400"), cty.MustParseNumberVal("-1e-400"), cty.MustParseNumberVal("1.00000000000000000000001"), cty.MustParseNumberVal("0.99999999999999999999999"),
		cty.NumberFloatVal(9007199254740993), cty.NumberFloatVal(-4503599627370497.5)}
	for _, x := range corner {
		for _, y := range corner {
			args := []cty.Value{x, y}
			fa, _ := x.AsBigFloat().Float64()
			fb, _ := y.AsBigFloat().Float64()
			for _, e := range []struct {
				nm string
				f  func([]cty.Value) (string, cty.Value, string)
			}{{"log", func(a []cty.Value) (string, cty.Value, string) { return stdOut(stdlib.LogFunc, a) }},
				{"pow", func(a []cty.Value) (string, cty.Value, string) { return stdOut(stdlib.PowFunc, a) }}} {
				_, _, class := e.f(args)
				c14DomCase(ctx, e.nm, args, class, fa, fb)
			}
		}
	}
}

// c14Durations: time.ParseDuration's verdict against the transliteration (op std.strref parsedur), and timeadd
// through it: the documented grammar, every unit, missing / unknown units, signs, the "0" special case, and the
// overflow tests around 2^63 ns (without a fraction: the fraction goes through float64 in Go).
func c14Durations(ctx *Ctx) {
	r := ctx.R
	fixed := []string{"", "0", "+0", "-0", "-", "+", "00", "1", "1h", "-1h30m", "+1.5h", ".5s", "1.s", ".s", "-.s", "1x", "1hh", "1h1", "1h.", "1.0.5s", "1e3s", " 1s", "1s ", "1H",
		"1ns", "1us", "1\u00b5s", "1\u03bcs", "1ms", "1s", "1m", "1h", "1d", "1\u00b5", "\u00b5s",
		"9223372036854775807ns", "9223372036854775808ns", "-9223372036854775808ns", "-9223372036854775809ns", "9223372036854775809ns", "92233720368547758080ns",
		"9223372036854775us", "9223372036854776us", "9223372036854ms", "9223372036855ms", "9223372036s", "9223372037s", "153722867m", "153722868m", "2562047h", "2562048h",
		"2562047h47m16s854ms775us807ns", "2562047h47m16s854ms775us808ns", "-2562047h47m16s854ms775us808ns", "-2562047h47m16s854ms775us809ns",
		"2562047h2562047h", "9223372036s9223372036s", "0.000000000000000000000000000001h", "1.00000000000000000000000000000000000001s", "0.9223372036854775807999s",
		"3000000h", "1.5h30.25m", "100000000000000000000h", "0.5ns", "0h0m0s"}
	digits := func(k int) string {
		var sb strings.Builder
		for ; k > 0; k-- {
			sb.WriteByte(byte('0' + r.Intn(10)))
		}
		return sb.String()
	}
	units := []string{"ns", "us", "\u00b5s", "\u03bcs", "ms", "s", "m", "h", "h", "s", "", "d", "sec", "S"}
	gen := func() string {
		var sb strings.Builder
		switch r.Intn(6) {
		case 0:
			sb.WriteString("-")
		case 1:
			sb.WriteString("+")
		}
		for k := 1 + r.Intn(3); k > 0; k-- {
			switch r.Intn(8) {
			case 0:
				sb.WriteString(digits(r.Intn(3)) + "." + digits(r.Intn(4)))
			case 1:
				sb.WriteString(digits(17 + r.Intn(4)))
			default:
				sb.WriteString(digits(1 + r.Intn(4)))
				if r.Intn(3) == 0 {
					sb.WriteString("." + digits(1+r.Intn(12)))
				}
			}
			sb.WriteString(units[r.Intn(len(units))])
		}
		return sb.String()
	}
	n := ctx.N(600, 8000)
	ts := "2020-01-02T03:04:05Z"
	for i := 0; i < len(fixed)+n; i++ {
		var d string
		if i < len(fixed) {
			d = fixed[i]
		} else {
			d = gen()
		}
		d = sv(d).AsString()
		dv, err := time.ParseDuration(d)
		verdict := "ok"
		if err != nil {
			verdict = "err"
		}
		ctx.Add("std.strref", verdict, "parsedur", encStr(d))
		switch {
		case err == nil:
			ctx.Tag("duration:accepted")
		case strings.Contains(err.Error(), "missing unit"):
			ctx.Tag("duration:missing-unit")
		case strings.Contains(err.Error(), "unknown unit"):
			ctx.Tag("duration:unknown-unit")
		default:
			ctx.Tag("duration:invalid-or-overflow")
		}
		o := newOracle()
		t, ok := o.parseTimestamp(ts)
		if !ok {
			continue
		}
		o.add("parseDuration", []string{d}, encBool(err == nil))
		c := glueCase{name: "timeadd", goNm: "TimeAdd", f: stdlib.TimeAddFunc, args: []cty.Value{sv(ts), sv(d)}, orc: o}
		if err != nil {
			c.wantErr = true
		} else {
			lib := t.Add(dv).Format(time.RFC3339)
			o.add("timeAdd", []string{ts, d}, encStr(lib))
			c.want = sv(o.nfc(lib))
		}
		runGlue(ctx, c)
	}
}

// c14ProbeIdx: the index-list law (IdxOK) that C14.regexall_never_panics assumes of every match of
// FindAllStringSubmatchIndex, probed on the real regexp package.
func c14ProbeIdx(ctx *Ctx, groups, size int, idx []int, pat, str string) {
	okIdx := len(idx) == 2*(groups+1) && idx[0] >= 0
	for j := 0; okIdx && j+1 < len(idx); j += 2 {
		a, b := idx[j], idx[j+1]
		okIdx = (a < 0 && b < 0) || (0 <= a && a <= b && b <= size)
	}
	ctx.Probe("regexp-findall-submatch-index-shape", okIdx, fmt.Sprintf("FindAllStringSubmatchIndex(%q, %q) has %v", pat, str, idx))
}
