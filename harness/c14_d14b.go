package main

// d14b: correspondence without oracle columns for the strings-package calls behind
// split / trimprefix / trimsuffix / trimspace / trim (the Lean side transliterates
// strings.Split, TrimPrefix, TrimSuffix, TrimSpace, Trim) and for the error domain of
// log / pow (the Lean side decides from the arguments alone whether math answers NaN).

import (
	"math"
	"strings"

	"github.com/zclconf/go-cty/cty"
	"github.com/zclconf/go-cty/cty/function/stdlib"
)

var c14RefNames = map[string]bool{"split": true, "trimprefix": true, "trimsuffix": true, "trimspace": true, "trim": true}

// nfcOnly keeps the recorded NFC facts and drops every other library column.
func (o *oracle) nfcOnly() string {
	var es []string
	for _, e := range o.entries {
		if strings.HasPrefix(e, "(nfc ") {
			es = append(es, e)
		}
	}
	return "(" + strings.Join(es, " ") + ")"
}

func c14RefGlue(ctx *Ctx, c glueCase, out string) {
	if !c14RefNames[c.name] {
		return
	}
	ctx.Add("std.glue.ref", out, c.name, wireArgs(c.args), c.orc.nfcOnly())
	ctx.Tag("ref:" + c.name)
}

func c14DomCase(ctx *Ctx, nm string, args []cty.Value, class string, fa, fb float64) {
	ctx.Add("std.dom", class, nm, wireArgs(args))
	switch {
	case class != "err":
		ctx.Tag("dom:" + nm + ":number")
	case nm == "log" && (fa < 0 || fb < 0):
		ctx.Tag("dom:log:negative")
	case nm == "log" && fa == 1 && fb == 1:
		ctx.Tag("dom:log:one-base-one")
	case nm == "log" && (fa == 0 || math.IsInf(fa, 1)) && (fb == 0 || math.IsInf(fb, 1)):
		ctx.Tag("dom:log:inf-over-inf")
	case nm == "pow" && fa < 0:
		ctx.Tag("dom:pow:negative-base-fractional-power")
	default:
		ctx.Tag("dom:" + nm + ":outside-float64")
	}
}

// extra inputs for the transliterated strings package: separators that occur, overlap
// themselves or are empty; empty strings; every Unicode space; cutsets.
func runC14D14b(ctx *Ctx) {
	r := ctx.R
	n := ctx.N(400, 6000)
	spaces := []string{"\t", "\n", "\v", "\f", "\r", " ", "\u0085", "\u00a0", "\u1680", "\u2000", "\u2003", "\u200a", "\u2028", "\u2029", "\u202f", "\u205f", "\u3000",
		"\u200b", "\u180e", "\ufeff", "\u001f", "\u001c"} // the last five are NOT spaces for unicode.IsSpace
	atoms := []string{"a", "b", "ab", "aa", "aba", ",", ", ", "é", "é", "ß", "日本", "😀", "x"}
	word := func(max int) string {
		var sb strings.Builder
		for k := r.Intn(max + 1); k > 0; k-- {
			sb.WriteString(atoms[r.Intn(len(atoms))])
		}
		return sb.String()
	}
	for i := 0; i < n; i++ {
		// split: separator drawn from the string itself half of the time
		str := word(8)
		sep := word(2)
		switch r.Intn(6) {
		case 0:
			sep = ""
		case 1:
			str = ""
		case 2, 3:
			if rs := []rune(str); len(rs) > 0 {
				a := r.Intn(len(rs))
				b := a + 1 + r.Intn(imin(2, len(rs)-a))
				sep = string(rs[a:b])
			}
		}
		parts := strings.Split(str, sep)
		ctx.Add("std.strref", encStrs(parts), "split", encStr(str), encStr(sep))
		switch {
		case sep == "" && str == "":
			ctx.Tag("split:empty-sep:empty-string")
		case sep == "":
			ctx.Tag("split:empty-sep")
		case str == "":
			ctx.Tag("split:empty-string")
		case len(parts) == 1:
			ctx.Tag("split:separator-absent")
		default:
			ctx.Tag("split:separator-present")
		}
		if sep != "" && strings.Join(parts, sep) != str {
			c14Fail(ctx, "split", "strings-split-join-not-inverse", "strings.Join(strings.Split(s, sep), sep) != s", "Split", []cty.Value{sv(sep), sv(str)}, encStrs(parts))
		}
		{
			o := newOracle()
			sv1, sv2 := sv(sep), sv(str)
			ps := strings.Split(sv2.AsString(), sv1.AsString())
			o.add("split", []string{sv2.AsString(), sv1.AsString()}, encStrs(ps))
			vals := make([]cty.Value, len(ps))
			for j, p := range ps {
				vals[j] = sv(o.nfc(p))
			}
			want := cty.ListValEmpty(cty.String)
			if len(vals) > 0 {
				want = cty.ListVal(vals)
			}
			runGlue(ctx, glueCase{name: "split", goNm: "Split", f: stdlib.SplitFunc, args: []cty.Value{sv1, sv2}, orc: o, want: want})
		}
		// trimspace over every space character, and some that only look like one
		sp := func() string {
			var sb strings.Builder
			for k := r.Intn(3); k > 0; k-- {
				sb.WriteString(spaces[r.Intn(len(spaces))])
			}
			return sb.String()
		}
		ts := sv(sp() + word(2) + sp() + word(1) + sp())
		{
			o := newOracle()
			lib := strings.TrimSpace(ts.AsString())
			o.add("trimSpace", []string{ts.AsString()}, encStr(lib))
			if lib == ts.AsString() {
				ctx.Tag("trimspace:unchanged")
			} else {
				ctx.Tag("trimspace:trimmed")
			}
			runGlue(ctx, glueCase{name: "trimspace", goNm: "TrimSpace", f: stdlib.TrimSpaceFunc, args: []cty.Value{ts}, orc: o, want: sv(o.nfc(lib))})
		}
		// trim / trimprefix / trimsuffix with a second argument cut from the first
		a := sv(word(5))
		b := sv(word(2))
		if rs := []rune(a.AsString()); len(rs) > 0 && r.Intn(2) == 0 {
			k := 1 + r.Intn(imin(3, len(rs)))
			if r.Intn(2) == 0 {
				b = sv(string(rs[:k]))
			} else {
				b = sv(string(rs[len(rs)-k:]))
			}
		}
		if r.Intn(10) == 0 {
			b = sv("")
		}
		for _, e := range []struct {
			name, goNm, lib string
			call            func(a, b string) string
		}{{"trim", "Trim", "trim", strings.Trim}, {"trimprefix", "TrimPrefix", "trimPrefix", strings.TrimPrefix}, {"trimsuffix", "TrimSuffix", "trimSuffix", strings.TrimSuffix}} {
			o := newOracle()
			lib := e.call(a.AsString(), b.AsString())
			o.add(e.lib, []string{a.AsString(), b.AsString()}, encStr(lib))
			if lib == a.AsString() {
				ctx.Tag(e.name + ":unchanged")
			} else {
				ctx.Tag(e.name + ":cut")
			}
			f := stdlib.TrimFunc
			if e.name == "trimprefix" {
				f = stdlib.TrimPrefixFunc
			} else if e.name == "trimsuffix" {
				f = stdlib.TrimSuffixFunc
			}
			runGlue(ctx, glueCase{name: e.name, goNm: e.goNm, f: f, args: []cty.Value{a, b}, orc: o, want: sv(o.nfc(lib))})
		}
	}
	// log / pow at the corners of the domain rule
	corner := []cty.Value{cty.NumberIntVal(0), cty.NumberIntVal(1), cty.NumberIntVal(-1), cty.NumberIntVal(2), cty.NumberIntVal(-2), cty.NumberIntVal(3), cty.NumberIntVal(-3),
		cty.NumberFloatVal(0.5), cty.NumberFloatVal(-0.5), cty.NumberFloatVal(1.5), cty.NumberFloatVal(-1.5), cty.PositiveInfinity, cty.NegativeInfinity,
		cty.NumberFloatVal(math.Nextafter(1, 2)), cty.NumberFloatVal(math.Nextafter(1, 0)), cty.NumberFloatVal(5e-324), cty.NumberFloatVal(-5e-324),
		cty.NumberFloatVal(math.MaxFloat64), cty.NumberFloatVal(-math.MaxFloat64), cty.NumberFloatVal(math.Copysign(0, -1)),
		cty.MustParseNumberVal("1e-400"), cty.MustParseNumberVal("-1e-400"), cty.MustParseNumberVal("1.00000000000000000000001"), cty.MustParseNumberVal("0.99999999999999999999999"),
		cty.NumberFloatVal(9007199254740993), cty.NumberFloatVal(-4503599627370497.5)}
	for _, x := range corner {
		for _, y := range corner {
			args := []cty.Value{x, y}
			fa, _ := x.AsBigFloat().Float64()
			fb, _ := y.AsBigFloat().Float64()
			for _, e := range []struct {
				nm string
				f  func([]cty.Value) (string, cty.Value, string)
			}{{"log", func(a []cty.Value) (string, cty.Value, string) { return stdOut(stdlib.LogFunc, a) }},
				{"pow", func(a []cty.Value) (string, cty.Value, string) { return stdOut(stdlib.PowFunc, a) }}} {
				_, _, class := e.f(args)
				c14DomCase(ctx, e.nm, args, class, fa, fb)
			}
		}
	}
}
