package main

// C15, attribute names, map keys and strings that need escaping in JSON (or are otherwise unusual).
// Added after the seeded change C15-object-attr-names-go-quoted-in-json-marshal was missed: every
// generated attribute name was a letter sequence, so the quoting of NAMES was never exercised
// (c07OddNames does the same for the type serialization).

import "github.com/zclconf/go-cty/cty"

func runC15OddNames(ctx *Ctx) {
	str := cty.StringVal
	for i, n := range c07OddNames {
		m := c07OddNames[(i+5)%len(c07OddNames)]
		ctx.Tag("oddname")
		obj := cty.ObjectVal(map[string]cty.Value{n: str("v"), "a": cty.True})
		vals := []cty.Value{
			obj,
			cty.ObjectVal(map[string]cty.Value{n: cty.NumberIntVal(1), m: cty.NullVal(cty.String)}),
			cty.MapVal(map[string]cty.Value{n: str(m), "k": str(n)}),
			cty.ListVal([]cty.Value{obj, obj}),
			cty.TupleVal([]cty.Value{str(n), cty.MapVal(map[string]cty.Value{m: obj})}),
			cty.SetVal([]cty.Value{str(n), str(m)}),
			cty.ObjectVal(map[string]cty.Value{"o": obj, n: cty.ListVal([]cty.Value{str(n)})}),
		}
		for _, v := range vals {
			c15RoundTrip(ctx, v, v.Type(), "own-type")
			c15RoundTrip(ctx, v, weakenToConstraint(ctx.R, v.Type()), "weakened")
			c15RoundTrip(ctx, v, cty.DynamicPseudoType, "dynamic")
		}
	}
}
