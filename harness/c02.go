package main

import (
	"fmt"
	"math/big"

	"github.com/zclconf/go-cty/cty"
)

func init() {
	register("C02", "pairs of numbers from every magnitude/precision class (small/huge ints, float64, 512-bit decimals, low precision, ±0, ±inf), all booleans, "+
		"generated lists/maps/sets/tuples/objects x keys in and out of range; results compared exactly with the Lean model and judged against math/big.Rat / plain Go collections. "+
		"non-trivial = the call did not panic; distinct = distinct canonical wire strings of (op, operands)", runC02)
}

// ratOf returns the exact value of a finite number.
func ratOf(v cty.Value) *big.Rat {
	f := v.AsBigFloat()
	if f.IsInf() {
		return nil
	}
	r, _ := f.Rat(nil)
	return r
}

func numWire(v cty.Value) string { return cty.VerifDump(v) }

// callV runs a Value-returning operation under recover and prints the outcome.
func callV(f func() cty.Value) (out string, v cty.Value, panicked bool) {
	p, _ := try(func() { v = f() })
	if p {
		return "panic", cty.NilVal, true
	}
	return "ok " + encVal(v), v, false
}

// halfUlpOK checks |res − exact| ≤ ½ulp(res at its precision), i.e. res is a
// nearest representable value, using exact rational arithmetic.
func halfUlpOK(res cty.Value, exact *big.Rat) bool {
	f := res.AsBigFloat()
	if f.IsInf() {
		return false
	}
	rr, _ := f.Rat(nil)
	diff := new(big.Rat).Sub(rr, exact)
	diff.Abs(diff)
	if diff.Sign() == 0 {
		return true
	}
	if f.Sign() == 0 {
		return false // a non-zero exact result must not round to zero at these magnitudes
	}
	// ulp = 2^(exp - prec) where f = mant × 2^exp, 0.5 ≤ mant < 1
	exp := f.MantExp(nil)
	ulpExp := exp - int(f.Prec())
	ulp := new(big.Rat)
	if ulpExp >= 0 {
		ulp.SetInt(new(big.Int).Lsh(big.NewInt(1), uint(ulpExp)))
	} else {
		ulp.SetFrac(big.NewInt(1), new(big.Int).Lsh(big.NewInt(1), uint(-ulpExp)))
	}
	half := new(big.Rat).Mul(ulp, big.NewRat(1, 2))
	return diff.Cmp(half) <= 0
}

func c02Arith(ctx *Ctx, a, b cty.Value) {
	wa, wb := numWire(a), numWire(b)
	ra, rb := ratOf(a), ratOf(b)
	lit := a.GoString() + " ; " + b.GoString()
	type binop struct {
		name  string
		f     func() cty.Value
		exact func() *big.Rat // nil when not finite/defined
	}
	ops := []binop{
		{"add", func() cty.Value { return a.Add(b) }, func() *big.Rat { return new(big.Rat).Add(ra, rb) }},
		{"sub", func() cty.Value { return a.Subtract(b) }, func() *big.Rat { return new(big.Rat).Sub(ra, rb) }},
		{"mul", func() cty.Value { return a.Multiply(b) }, func() *big.Rat { return new(big.Rat).Mul(ra, rb) }},
		{"quo", func() cty.Value { return a.Divide(b) }, func() *big.Rat {
			if rb.Sign() == 0 {
				return nil
			}
			return new(big.Rat).Quo(ra, rb)
		}},
	}
	for _, op := range ops {
		out, res, panicked := callV(op.f)
		impl := "panic"
		if !panicked {
			impl = "ok " + numWire(res)
		}
		_ = out
		ctx.Add("num."+op.name, impl, wa, wb)
		ctx.Tag("arith:" + op.name)
		key := op.name + " " + wa + " " + wb
		ctx.Eval(key, !panicked)
		if panicked {
			// documented NaN cases only: inf-inf, 0*inf, 0/0, inf/inf
			nanCase := (ra == nil || rb == nil) || (op.name == "quo" && ra.Sign() == 0 && rb.Sign() == 0)
			if !nanCase {
				ctx.Fail(Failure{Site: "arith-total", Sig: "panic:" + op.name, What: "arithmetic on finite operands panicked", Input: key, GoLit: lit, Outcome: "panic"})
			}
			continue
		}
		if !res.Type().Equals(cty.Number) || res.IsNull() || !res.IsKnown() {
			ctx.Fail(Failure{Site: "arith-type", Sig: "type:" + op.name, What: "arithmetic result is not a known non-null number", Input: key, GoLit: lit, Outcome: res.GoString()})
			continue
		}
		if ra == nil || rb == nil {
			continue
		}
		if op.name == "quo" && rb.Sign() == 0 {
			// documented signed infinity
			f := res.AsBigFloat()
			wantNeg := (a.AsBigFloat().Signbit()) != (b.AsBigFloat().Signbit())
			if !f.IsInf() || f.Signbit() != wantNeg {
				ctx.Fail(Failure{Site: "div-zero", Sig: "divzero", What: "division by zero did not give the signed infinity", Input: key, GoLit: lit, Outcome: res.GoString()})
			}
			continue
		}
		ex := op.exact()
		if ex == nil {
			continue
		}
		if !halfUlpOK(res, ex) {
			ctx.Fail(Failure{Site: "arith-halfulp", Sig: "halfulp:" + op.name, What: "result is not within half an ulp of the exact rational result at the result's precision", Input: key, GoLit: lit, Outcome: res.GoString() + " exact " + ex.RatString()})
		}
		// exact when the exact result fits the operands' precision
		maxPrec := a.AsBigFloat().Prec()
		if p := b.AsBigFloat().Prec(); p > maxPrec {
			maxPrec = p
		}
		if ex.IsInt() && uint(ex.Num().BitLen()) <= maxPrec {
			rr, _ := res.AsBigFloat().Rat(nil)
			if rr == nil || rr.Cmp(ex) != 0 { // rr == nil: an infinite result where the exact one is a finite integer
				ctx.Fail(Failure{Site: "arith-exact-int", Sig: "exactint:" + op.name, What: "integer result that fits the operand precision is not exact", Input: key, GoLit: lit, Outcome: res.GoString() + " exact " + ex.RatString()})
			}
		}
	}
	// negate / absolute
	for _, u := range []struct {
		name string
		f    func() cty.Value
		ex   func() *big.Rat
	}{
		{"neg", func() cty.Value { return a.Negate() }, func() *big.Rat { return new(big.Rat).Neg(ra) }},
		{"abs", func() cty.Value { return a.Absolute() }, func() *big.Rat { return new(big.Rat).Abs(ra) }},
	} {
		_, res, panicked := callV(u.f)
		impl := "panic"
		if !panicked {
			impl = "ok " + numWire(res)
		}
		ctx.Add("num."+u.name, impl, wa)
		ctx.Eval(u.name+" "+wa, !panicked)
		if panicked {
			ctx.Fail(Failure{Site: "arith-total", Sig: "panic:" + u.name, What: "unary arithmetic panicked", Input: wa, GoLit: a.GoString(), Outcome: "panic"})
		} else if ra != nil {
			rr := ratOf(res)
			if rr == nil || rr.Cmp(u.ex()) != 0 {
				ctx.Fail(Failure{Site: "arith-unary", Sig: "unary:" + u.name, What: "negate/absolute is not exact", Input: wa, GoLit: a.GoString(), Outcome: res.GoString()})
			}
		}
	}
	// comparisons against exact comparison
	var want int
	switch {
	case ra != nil && rb != nil:
		want = ra.Cmp(rb)
	default:
		want = a.AsBigFloat().Cmp(b.AsBigFloat()) // infinities: trust sign logic, cross-checked by the model
	}
	cmps := []struct {
		name string
		got  cty.Value
		want bool
	}{
		{"lt", a.LessThan(b), want < 0}, {"gt", a.GreaterThan(b), want > 0},
		{"le", a.LessThanOrEqualTo(b), want <= 0}, {"ge", a.GreaterThanOrEqualTo(b), want >= 0},
	}
	ctx.Add("num.cmp", fmt.Sprint(a.AsBigFloat().Cmp(b.AsBigFloat())), wa, wb)
	// "to within the precision of their operands": when the two operands round to the same value at the
	// coarser of their precisions the order is not determined at that precision and either answer is accepted
	if ra != nil && rb != nil && want != 0 {
		p := a.AsBigFloat().Prec()
		if q := b.AsBigFloat().Prec(); q < p {
			p = q
		}
		if p > 0 {
			x := new(big.Float).SetPrec(p).Set(a.AsBigFloat())
			y := new(big.Float).SetPrec(p).Set(b.AsBigFloat())
			if x.Cmp(y) == 0 {
				ctx.Tag("cmp:equal-at-coarser-precision")
				return
			}
		}
	}
	for _, c := range cmps {
		if !c.got.IsKnown() || c.got.IsNull() || c.got.Type() != cty.Bool || c.got.True() != c.want {
			ctx.Fail(Failure{Site: "compare", Sig: "cmp:" + c.name, What: "comparison disagrees with exact comparison", Input: wa + " " + wb, GoLit: lit, Outcome: c.got.GoString()})
		}
	}
	ctx.Eval("cmp "+wa+" "+wb, true)
}

func runC02(ctx *Ctx) {
	o := ValOpts{}
	n := ctx.N(4000, 150000)
	for i := 0; i < n; i++ {
		a, b := genNumber(ctx.R, o), genNumber(ctx.R, o)
		c02Arith(ctx, a, b)
	}
	runC02More(ctx)
	c02NonNFC(ctx)
	c02Deep(ctx)
	c02Pinned(ctx)
}
