package main

// C08 — type conversion (package cty/convert).
//
// Every case is a (value, target type) pair.  The REAL convert.Convert /
// GetConversion / GetConversionUnsafe run under recover(); their outcome
// (ok value | err | panic — never the error text) is compared with the Lean
// model through the driver (cv.convert, cv.getconv, cv.apply), and the clauses
// of the property are evaluated on the real outputs, both here (conformance via
// the real TestConformance, ValueRange.Includes, RawEquals, Equals) and by the
// Lean predicates the theorems are about (cv.judge, cv.admits).
//
// Helper correspondences localise a disagreement: cv.unify (type result of
// convert.Unify/UnifyUnsafe, which the conversions consult), cv.parse
// (cty.ParseNumberVal), cv.hash (Value.Hash, which decides set layout).

import (
	"fmt"
	"math/big"
	"math/rand"
	"os"
	"strings"

	"github.com/zclconf/go-cty/cty"
	"github.com/zclconf/go-cty/cty/convert"
)

func init() {
	register("C08", "(value, target type) pairs: every ordered pair of types of size<=2 (7 leaves incl. placeholder, capsule, empty tuple/object; 6 unary constructors incl. an optional attribute) "+
		"with known / null / unknown / marked values of the source type is enumerated (quick: getconv for all pairs of size<=3 sampled, thorough: all); random pairs to depth 3/4 where the target is "+
		"unrelated or derived from the value's type by kind changes (list/set/tuple, map/object), element conversions, dropped / added optional attributes and inserted placeholders; values include "+
		"known, null, refined unknown and marked ones at every depth, number strings of every shape, bool strings. non-trivial = source type differs from target; distinct = distinct wire strings of (value, target)", runC08)
}

// ---- outcome of a real call ------------------------------------------------

type c08Out struct {
	kind string // ok | err | panic
	v    cty.Value
	why  string
}

func (o c08Out) wire() string {
	if o.kind == "ok" {
		return "ok " + encVal(o.v)
	}
	return o.kind
}

func c08Call(f func() (cty.Value, error)) (out c08Out) {
	p, why := try(func() {
		v, err := f()
		if err != nil {
			out = c08Out{kind: "err", why: err.Error()}
		} else {
			out = c08Out{kind: "ok", v: v}
		}
	})
	if p {
		out = c08Out{kind: "panic", why: why}
	}
	return
}

func c08Convert(v cty.Value, t cty.Type) c08Out {
	return c08Call(func() (cty.Value, error) { return convert.Convert(v, t) })
}

// ---- generators --------------------------------------------------------------

var c08NumStrings = []string{"1", "1.5", "1e3", " 1", "1 ", "0x10", "inf", "Inf", "-Inf", "+inf", "nan", "NaN", "-0", "0", "+1", "-1", "1.0", "01", "1e0", "1E0",
	".5", "5.", ".", "", "-", "+", "1e", "1e+", "1e-2", "1p3", "1P-2", "1_0", "1e5000", "1e-5000", "0e99999999999999999999", "1e99999999999999999999",
	"1234567890123456789012345678901234567890", "0.1", "0.10", "3.9477794105", "100000000000000000000000", "0.000000000000000000000000000001", "12.5e-1",
	"1e248", "1e-248", "1e249", "1.2.3", "1e2e3", "--1", "１", "1a", "a1", "2", "2.0", "10", "1e1"}
var c08BoolStrings = []string{"true", "false", "1", "0", "TRUE", "True", "FALSE", "False", "tRuE", "yes", "no", "t", "f", " true", "true ", "", "01", "00"}
var c08PlainStrings = []string{"a", "b", "ab", "k", "zz", "", "-", "x y", "\"q\"", "back\\slash", "tab\t", "nl\n", "\x01", "\x7f", "é", "a-"}

func c08String(r *rand.Rand) string {
	switch r.Intn(10) {
	case 0, 1, 2, 3:
		return c08NumStrings[r.Intn(len(c08NumStrings))]
	case 4, 5, 6:
		return c08BoolStrings[r.Intn(len(c08BoolStrings))]
	default:
		return c08PlainStrings[r.Intn(len(c08PlainStrings))]
	}
}

type c08VOpts struct {
	unknown, null, marks, dynVal bool
	width                        int
}

var c08Keys = []string{"a", "b", "c", "k", "zz", ""}

// c08Val generates a value conforming to t (placeholders are instantiated).
func c08Val(r *rand.Rand, t cty.Type, depth int, o c08VOpts) cty.Value {
	if t == cty.DynamicPseudoType {
		if o.dynVal && r.Intn(3) == 0 {
			if o.null && r.Intn(2) == 0 {
				return cty.NullVal(cty.DynamicPseudoType)
			}
			if o.unknown {
				return cty.DynamicVal
			}
		}
		t = genTy(r, minInt(depth, 1), TyOpts{})
	}
	v := c08ValUnmarked(r, t, depth, o)
	if o.marks && r.Intn(7) == 0 {
		v = v.Mark(markNames[r.Intn(len(markNames))])
		if r.Intn(3) == 0 {
			v = v.Mark(markNames[r.Intn(len(markNames))])
		}
	}
	return v
}

func c08ValUnmarked(r *rand.Rand, t cty.Type, depth int, o c08VOpts) cty.Value {
	if o.null && r.Intn(9) == 0 {
		return cty.NullVal(t.WithoutOptionalAttributesDeep())
	}
	if o.unknown && r.Intn(8) == 0 {
		return genUnknown(r, t.WithoutOptionalAttributesDeep())
	}
	w := o.width
	if w == 0 {
		w = 3
	}
	switch {
	case t == cty.Bool:
		return cty.BoolVal(r.Intn(2) == 0)
	case t == cty.Number:
		if r.Intn(3) == 0 {
			return cty.NumberIntVal(int64(r.Intn(4)))
		}
		return genNumber(r, ValOpts{})
	case t == cty.String:
		return cty.StringVal(c08String(r))
	case t.IsCapsuleType():
		return cty.CapsuleVal(t, capsulePayloads[r.Intn(len(capsulePayloads))])
	case t.IsListType():
		ety := concretize(r, t.ElementType()).WithoutOptionalAttributesDeep()
		n := r.Intn(w + 1)
		if n == 0 || depth <= 0 {
			return cty.ListValEmpty(ety)
		}
		vs := make([]cty.Value, n)
		for i := range vs {
			vs[i] = c08Val(r, ety, depth-1, o)
		}
		return cty.ListVal(vs)
	case t.IsSetType():
		ety := concretize(r, t.ElementType()).WithoutOptionalAttributesDeep()
		n := r.Intn(w + 1)
		if n == 0 || depth <= 0 {
			return cty.SetValEmpty(ety)
		}
		vs := make([]cty.Value, n)
		for i := range vs {
			vs[i] = c08Val(r, ety, depth-1, o)
		}
		return cty.SetVal(vs)
	case t.IsMapType():
		ety := concretize(r, t.ElementType()).WithoutOptionalAttributesDeep()
		n := r.Intn(w + 1)
		if n == 0 || depth <= 0 {
			return cty.MapValEmpty(ety)
		}
		vs := map[string]cty.Value{}
		for i := 0; i < n; i++ {
			vs[c08Keys[r.Intn(len(c08Keys))]] = c08Val(r, ety, depth-1, o)
		}
		return cty.MapVal(vs)
	case t.IsTupleType():
		es := t.TupleElementTypes()
		vs := make([]cty.Value, len(es))
		for i := range es {
			vs[i] = c08Val(r, es[i], depth-1, o)
		}
		return cty.TupleVal(vs)
	case t.IsObjectType():
		vs := map[string]cty.Value{}
		src := t.AttributeTypes()
		for _, k := range sortedKeys(src) { // sorted: reproducible order of the random draws
			vs[k] = c08Val(r, src[k], depth-1, o)
		}
		return cty.ObjectVal(vs)
	}
	panic("c08Val: unsupported type " + t.GoString())
}

// c08Derive derives a target type from a source type: kind changes, element
// conversions, dropped / added (optional) attributes, inserted placeholders.
func c08Derive(r *rand.Rand, t cty.Type, depth int) cty.Type {
	if r.Intn(9) == 0 {
		return cty.DynamicPseudoType
	}
	if depth <= 0 && r.Intn(2) == 0 {
		return t
	}
	prim := func() cty.Type {
		return []cty.Type{cty.String, cty.String, cty.Number, cty.Bool}[r.Intn(4)]
	}
	switch {
	case t == cty.DynamicPseudoType:
		return genTy(r, 1, TyOpts{Dyn: true, Opt: true})
	case t.IsPrimitiveType():
		if r.Intn(2) == 0 {
			return prim()
		}
		return t
	case t.IsCapsuleType():
		return []cty.Type{t, capsuleTypes[r.Intn(len(capsuleTypes))], cty.String}[r.Intn(3)]
	case t.IsListType() || t.IsSetType():
		e := c08Derive(r, t.ElementType(), depth-1)
		switch r.Intn(7) {
		case 0, 1, 2:
			return cty.List(e)
		case 3, 4:
			return cty.Set(e)
		case 5:
			return cty.Tuple([]cty.Type{e})
		default:
			return cty.Map(e)
		}
	case t.IsMapType():
		e := c08Derive(r, t.ElementType(), depth-1)
		if r.Intn(3) != 0 {
			return cty.Map(e)
		}
		atys := map[string]cty.Type{}
		var opts []string
		for _, k := range c08Keys[:5] {
			if r.Intn(2) == 0 {
				if r.Intn(4) == 0 {
					atys[k] = genTy(r, 1, TyOpts{Dyn: true, Opt: true})
				} else {
					atys[k] = c08Derive(r, t.ElementType(), depth-1)
				}
				if r.Intn(2) == 0 {
					opts = append(opts, k)
				}
			}
		}
		return cty.ObjectWithOptionalAttrs(atys, opts)
	case t.IsTupleType():
		es := t.TupleElementTypes()
		switch r.Intn(6) {
		case 0, 1, 2:
			n := make([]cty.Type, len(es))
			for i := range es {
				n[i] = c08Derive(r, es[i], depth-1)
			}
			if r.Intn(8) == 0 {
				n = append(n, prim())
			}
			return cty.Tuple(n)
		case 3, 4:
			if len(es) > 0 && r.Intn(2) == 0 {
				return cty.List(c08Derive(r, es[r.Intn(len(es))], depth-1))
			}
			return cty.List([]cty.Type{cty.DynamicPseudoType, cty.String, cty.Number}[r.Intn(3)])
		default:
			if len(es) > 0 && r.Intn(2) == 0 {
				return cty.Set(c08Derive(r, es[r.Intn(len(es))], depth-1))
			}
			return cty.Set([]cty.Type{cty.DynamicPseudoType, cty.String, cty.Number}[r.Intn(3)])
		}
	case t.IsObjectType():
		atys := t.AttributeTypes()
		if r.Intn(4) == 0 {
			ks := sortedKeys(atys)
			if len(ks) > 0 && r.Intn(2) == 0 {
				return cty.Map(c08Derive(r, atys[ks[r.Intn(len(ks))]], depth-1))
			}
			return cty.Map([]cty.Type{cty.DynamicPseudoType, cty.String, cty.Number}[r.Intn(3)])
		}
		n := map[string]cty.Type{}
		var opts []string
		for _, k := range sortedKeys(atys) {
			if r.Intn(6) == 0 {
				continue // dropped
			}
			n[k] = c08Derive(r, atys[k], depth-1)
			if r.Intn(4) == 0 {
				opts = append(opts, k)
			}
		}
		for _, k := range []string{"n1", "n2"} {
			if r.Intn(4) == 0 { // added
				n[k] = genTy(r, 1, TyOpts{Dyn: true, Opt: true})
				if r.Intn(5) != 0 {
					opts = append(opts, k)
				}
			}
		}
		return cty.ObjectWithOptionalAttrs(n, opts)
	}
	return t
}

// ---- Go-side property predicates ------------------------------------------------

func c08HasOpt(t cty.Type) bool {
	switch {
	case t.IsCollectionType():
		return c08HasOpt(t.ElementType())
	case t.IsTupleType():
		for _, e := range t.TupleElementTypes() {
			if c08HasOpt(e) {
				return true
			}
		}
	case t.IsObjectType():
		if len(t.OptionalAttributes()) > 0 {
			return true
		}
		for _, e := range t.AttributeTypes() {
			if c08HasOpt(e) {
				return true
			}
		}
	}
	return false
}

// c08Resolved: every placeholder of r sits where in has one too, or at a position
// without counterpart in in (mirror of Convert.resolvedIn).
func c08Resolved(in, r cty.Type) bool {
	switch {
	case r == cty.DynamicPseudoType:
		return in == cty.DynamicPseudoType
	case r.IsCollectionType():
		re := r.ElementType()
		switch {
		case in.IsCollectionType():
			return c08Resolved(in.ElementType(), re)
		case in.IsTupleType() || in.IsObjectType():
			// many positions map to one: demanded only where they agree on one type
			var its []cty.Type
			if in.IsTupleType() {
				its = in.TupleElementTypes()
			} else {
				atys := in.AttributeTypes()
				for _, k := range sortedKeys(atys) {
					its = append(its, atys[k])
				}
			}
			for _, it := range its {
				if !it.Equals(its[0]) {
					return true
				}
			}
			if len(its) > 0 {
				return c08Resolved(its[0], re)
			}
		}
		return true
	case r.IsTupleType():
		if in.IsTupleType() {
			ie, re := in.TupleElementTypes(), r.TupleElementTypes()
			for i := 0; i < len(ie) && i < len(re); i++ {
				if !c08Resolved(ie[i], re[i]) {
					return false
				}
			}
		}
		return true
	case r.IsObjectType():
		switch {
		case in.IsObjectType():
			ia := in.AttributeTypes()
			for k, rt := range r.AttributeTypes() {
				if it, ok := ia[k]; ok && !c08Resolved(it, rt) {
					return false
				}
			}
		}
		return true
	}
	return true
}

func c08AllMembersUnknown(r cty.Value) bool {
	r, _ = r.Unmark()
	if !r.IsKnown() || r.IsNull() || !(r.Type().IsCollectionType() || r.Type().IsTupleType() || r.Type().IsObjectType()) {
		return false
	}
	for it := r.ElementIterator(); it.Next(); {
		_, e := it.Element()
		if e.IsKnown() {
			return false
		}
	}
	return true
}

func c08PassThrough(v, r cty.Value) bool {
	if !v.IsKnown() {
		return !r.IsKnown() || r.IsNull() || c08AllMembersUnknown(r)
	}
	if v.IsNull() {
		return r.IsNull()
	}
	return true
}

// c08Judge mirrors Convert.judge; returns "pass" or "fail <clause>*".
func c08Judge(v cty.Value, want cty.Type, r cty.Value) []string {
	var fails []string
	if errs := r.Type().TestConformance(want); len(errs) > 0 {
		fails = append(fails, "conforms")
	}
	if c08HasOpt(r.Type()) {
		fails = append(fails, "no-optional")
	}
	if !c08Resolved(v.Type(), r.Type()) {
		fails = append(fails, "resolves")
	}
	if want != cty.DynamicPseudoType && !c08PassThrough(v, r) {
		fails = append(fails, "pass-through")
	}
	return fails
}

// c08Probes: the laws the theorems assume of the parameters, on the real code.
func c08Probes(ctx *Ctx) {
	r := ctx.R
	for i := 0; i < ctx.N(3000, 30000); i++ {
		// UnifyLaws.same: types that are all the same unify to that type
		t := genTy(r, 3, TyOpts{Dyn: r.Intn(4) == 0, Capsule: r.Intn(8) == 0})
		n := 1 + r.Intn(4)
		tys := make([]cty.Type, n)
		for j := range tys {
			tys[j] = t
		}
		for _, uns := range []bool{false, true} {
			var got cty.Type
			p, why := try(func() {
				if uns {
					got, _ = convert.UnifyUnsafe(tys)
				} else {
					got, _ = convert.Unify(tys)
				}
			})
			ctx.Probe("unify-same", !p && got != cty.NilType && got.Equals(t), fmt.Sprintf("%d x %#v (unsafe=%v) -> %#v %s", n, t, uns, got, why))
		}
		// SetLaws: Hash / Equals of unmarked members of one type neither panic nor fail
		ety := genTy(r, 2, TyOpts{})
		a := c08Val(r, ety, 2, c08VOpts{unknown: true, null: true})
		b := c08Val(r, ety, 2, c08VOpts{unknown: true, null: true})
		p1, w1 := try(func() { cty.VerifHash(a) })
		p2, w2 := try(func() { a.Equals(b) })
		ctx.Probe("set-hash-total", !p1, fmt.Sprintf("Hash(%#v): %s", a, w1))
		ctx.Probe("set-equiv-total", !p2, fmt.Sprintf("%#v.Equals(%#v): %s", a, b, w2))
	}
}

// ---- root-cause signatures --------------------------------------------------------

func c08Kind(t cty.Type) string { return kindTag(t) }

// first position where the result type does not conform: "<path> want/got"
func c08Mismatch(want, got cty.Type, path string) string {
	switch {
	case want == cty.DynamicPseudoType:
		return ""
	case want.IsCollectionType() && got.IsCollectionType() && c08Kind(want) == c08Kind(got):
		return c08Mismatch(want.ElementType(), got.ElementType(), path+c08Kind(want)+">")
	case want.IsTupleType() && got.IsTupleType() && len(want.TupleElementTypes()) == len(got.TupleElementTypes()):
		for i, w := range want.TupleElementTypes() {
			if m := c08Mismatch(w, got.TupleElementTypes()[i], path+"tuple>"); m != "" {
				return m
			}
		}
		return ""
	case want.IsObjectType() && got.IsObjectType():
		wa, ga := want.AttributeTypes(), got.AttributeTypes()
		if len(ga) == 0 && len(wa) > 0 {
			return "object-became-empty"
		}
		for _, k := range sortedKeys(wa) {
			g, ok := ga[k]
			if !ok {
				return "object-attr-missing"
			}
			if m := c08Mismatch(wa[k], g, path+"object>"); m != "" {
				return m
			}
		}
		if len(ga) != len(wa) {
			return "object-attr-extra"
		}
		return ""
	case want.Equals(got):
		return ""
	}
	_ = path
	return c08Kind(want) + "/" + c08Kind(got)
}

func c08HasUnknownLengthSet(v cty.Value) bool {
	found := false
	p, _ := try(func() {
		cty.Walk(v, func(_ cty.Path, x cty.Value) (bool, error) {
			x, _ = x.Unmark()
			if x.Type().IsSetType() && x.IsKnown() && !x.IsNull() && !x.Length().IsKnown() {
				found = true
			}
			return true, nil
		})
	})
	return found && !p
}

func c08PanicSig(why string) string {
	// drop addresses / numbers so that the signature is stable
	var sb strings.Builder
	for _, c := range why {
		if c >= '0' && c <= '9' {
			continue
		}
		sb.WriteRune(c)
	}
	s := sb.String()
	if len(s) > 60 {
		s = s[:60]
	}
	return "panic:" + s
}

// ---- one (value, target) case ------------------------------------------------------

type c08Run struct {
	ctx *Ctx
}

func c08GoLit(v cty.Value, t cty.Type) string {
	return fmt.Sprintf("convert.Convert(%#v, %#v)", v, t)
}

func (c *c08Run) fail(site, sig, what string, v cty.Value, t cty.Type, outcome string) {
	lit := ""
	try(func() { lit = c08GoLit(v, t) })
	c.ctx.Fail(Failure{Site: site, Sig: sig, What: what, Input: encVal(v) + " " + encTy(t), GoLit: lit, Outcome: outcome})
}

func c08Outcome(o c08Out) string {
	switch o.kind {
	case "ok":
		s := ""
		try(func() { s = fmt.Sprintf("%#v", o.v) })
		return "ok " + s
	default:
		return o.kind + ": " + o.why
	}
}

func c08RawEq(a, b cty.Value) (eq bool) {
	p, _ := try(func() { eq = a.RawEquals(b) })
	return eq && !p
}

// c08Norm erases refinements that constrain nothing (the refinement object that
// Refine()…NewValue() leaves behind when no bound was tightened) from a wire string.
func c08Norm(w string) string {
	for _, triv := range []string{"(unk (co u 0 9223372036854775807))", "(unk (nl u))", "(unk (st u x))", "(unk (nu u - -))"} {
		w = strings.ReplaceAll(w, triv, "(unk -)")
	}
	return w
}

// c08Same: the two values are the same value: RawEquals, or identical payloads up
// to refinements that constrain nothing.
func c08Same(a, b cty.Value) bool {
	return c08RawEq(a, b) || c08Norm(encVal(a)) == c08Norm(encVal(b))
}

// c08EmptyCollWithDyn: the value holds an empty collection whose element type
// still contains a placeholder.
func c08EmptyCollWithDyn(v cty.Value) bool {
	found := false
	try(func() {
		cty.Walk(v, func(_ cty.Path, x cty.Value) (bool, error) {
			x, _ = x.Unmark()
			if x.Type().IsCollectionType() && x.IsKnown() && !x.IsNull() && x.LengthInt() == 0 && x.Type().ElementType().HasDynamicTypes() {
				found = true
			}
			return true, nil
		})
	})
	return found
}

func c08HasEmptyColl(v cty.Value) bool {
	found := false
	try(func() {
		cty.Walk(v, func(_ cty.Path, x cty.Value) (bool, error) {
			x, _ = x.Unmark()
			if x.Type().IsCollectionType() && x.IsKnown() && !x.IsNull() && x.LengthInt() == 0 {
				found = true
			}
			return true, nil
		})
	})
	return found
}

// c08MarkedNullCarries: some null value inside v carries mark m.
func c08MarkedNullCarries(v cty.Value, m interface{}) bool {
	found := false
	try(func() {
		cty.Walk(v, func(_ cty.Path, x cty.Value) (bool, error) {
			if x.IsMarked() && x.IsNull() {
				if _, ok := x.Marks()[m]; ok {
					found = true
				}
			}
			return true, nil
		})
	})
	return found
}

func c08HasObject(t cty.Type) bool { return strings.Contains(encTy(t), "(O") }

// c08NullMapToOptional: the shape behind the dynamicReplace findings — a null or
// unknown value whose type holds a map type somewhere in v, and an object type with an optional
// attribute somewhere in t (for a null / unknown map the type of the result is
// computed by dynamicReplace, which assumes that every optional attribute could
// be converted from the map's element type).
func c08NullMapToOptional(v cty.Value, t cty.Type) bool {
	found := false
	try(func() {
		cty.Walk(v, func(_ cty.Path, x cty.Value) (bool, error) {
			x, _ = x.Unmark()
			if (!x.IsKnown() || x.IsNull()) && strings.Contains(encTy(x.Type()), "(M ") {
				found = true
			}
			return true, nil
		})
	})
	return found && strings.Contains(encTy(t), " 1)")
}

// pair runs one (value, target) case: correspondence + predicates.
func (c *c08Run) pair(v cty.Value, t cty.Type, deep bool) {
	ctx := c.ctx
	vw, tw := encVal(v), encTy(t)
	out := c08Convert(v, t)
	ctx.Add("cv.convert", out.wire(), vw, tw)
	ctx.Eval(vw+" "+tw, !v.Type().Equals(t))
	ctx.Tag("convert:" + out.kind)
	ctx.Tag("pair:" + c08Kind(v.Type()) + ">" + c08Kind(t))
	c.unmarkCommutes(v, t, out) // d08b
	c.conformingIdentity(v, t, out) // d08b
	stripped := t.WithoutOptionalAttributesDeep()

	// no_panic
	if out.kind == "panic" {
		c.fail("no_panic", c08PanicSig(out.why), "convert.Convert panics", v, t, c08Outcome(out))
		return
	}
	// GetConversion / GetConversionUnsafe: existence, and the conversions applied
	var safe, uns convert.Conversion
	if p, why := try(func() { safe = convert.GetConversion(v.Type(), t); uns = convert.GetConversionUnsafe(v.Type(), t) }); p {
		c.fail("no_panic", c08PanicSig(why), "GetConversion panics", v, t, "panic: "+why)
		return
	}
	sw := encTy(v.Type())
	ctx.Add("cv.getconv", map[bool]string{true: "conv", false: "nil"}[safe != nil], sw, tw, "0")
	ctx.Add("cv.getconv", map[bool]string{true: "conv", false: "nil"}[uns != nil], sw, tw, "1")
	if safe != nil {
		so := c08Call(func() (cty.Value, error) { return safe(v) })
		ctx.Add("cv.apply", so.wire(), sw, tw, "0", vw)
		ctx.Tag("safe:" + so.kind)
		if so.kind == "panic" {
			c.fail("no_panic", c08PanicSig(so.why), "a conversion returned by GetConversion panics", v, t, c08Outcome(so))
		}
		// safe_sub_unsafe
		if uns == nil {
			c.fail("safe_sub_unsafe", "safe-without-unsafe", "GetConversion offers a conversion that GetConversionUnsafe does not", v, t, "GetConversionUnsafe = nil")
		} else {
			uo := c08Call(func() (cty.Value, error) { return uns(v) })
			same := so.kind == uo.kind && (so.kind != "ok" || c08RawEq(so.v, uo.v))
			if t.HasDynamicTypes() && so.kind == "err" {
				// with placeholders in the target the unsafe conversion may succeed (through
				// late unsafe unification) where the safe one reports an error
				same = true
			}
			if !same && so.kind != "panic" && uo.kind != "panic" {
				c.fail("safe_sub_unsafe", "safe-unsafe-differ:"+so.kind+"/"+uo.kind, "the safe and the unsafe conversion of the same pair give different results", v, t, c08Outcome(so)+" vs "+c08Outcome(uo))
			}
		}
		// safe_total: a safe conversion to a placeholder-free target never fails
		if so.kind == "err" && !t.HasDynamicTypes() {
			sig := "safe-fails:" + c08Kind(v.Type()) + ">" + c08Kind(t)
			if c08HasUnknownLengthSet(v) {
				// a set of unknown length was turned into an unknown list of the source element
				// type (reported as result_conforms), which then does not fit its neighbours
				sig = "set-unknown-length-to-list"
			}
			c.fail("safe_total", sig, "a conversion offered as safe to a placeholder-free target fails", v, t, c08Outcome(so))
		}
	}
	if out.kind != "ok" {
		return
	}
	r := out.v
	rw := encVal(r)
	// clauses about one successful conversion, here and by the Lean predicates
	fails := c08Judge(v, t, r)
	js := "pass"
	if len(fails) > 0 {
		js = "fail " + strings.Join(fails, " ")
	}
	ctx.Add("cv.judge", js, vw, tw, rw)
	for _, f := range fails {
		switch f {
		case "conforms":
			sig := c08Mismatch(t, r.Type(), "")
			if c08HasUnknownLengthSet(v) && !r.IsWhollyKnown() {
				sig = "set-unknown-length-to-list"
			} else if c08NullMapToOptional(v, t) {
				sig = "dynamicReplace-unconvertible-optional-attr"
			}
			c.fail("result_conforms", sig, "the result type does not conform to the requested type", v, t, c08Outcome(out))
		case "no-optional":
			sig := "other"
			if strings.Contains(sw, "(M ") && strings.Contains(tw, "(O ") {
				sig = "map-to-object-missing-optional-attr"
			}
			c.fail("result_no_optional", sig, "the result type carries an optional-attribute annotation", v, t, c08Outcome(out))
		case "resolves":
			sig := c08Kind(v.Type()) + ">" + c08Kind(t)
			if c08EmptyCollWithDyn(r) {
				sig = "empty-collection-keeps-nested-placeholder"
			} else if c08HasUnknownLengthSet(v) && !r.IsWhollyKnown() {
				// the unknown list standing for a set of unknown length takes the target's
				// element type as written, nested placeholders included
				sig = "set-unknown-length-keeps-nested-placeholder"
			}
			c.fail("result_resolves_placeholders", sig, "the result type has a placeholder where the input type had none", v, t, c08Outcome(out))
		case "pass-through":
			c.fail("unknown_null_sound", "shape:"+c08Kind(v.Type())+">"+c08Kind(t), "unknown / null input did not convert to unknown / null", v, t, c08Outcome(out))
		}
	}
	// marks are kept (a C04 clause, evaluated here because conversions rebuild values;
	// regression check of the repaired loss of the marks of null elements).  Attributes
	// that a conversion drops take their marks with them, so object types are left out.
	if !c08HasObject(t) && !c08HasObject(r.Type()) {
		_, vm := v.UnmarkDeep()
		_, rm := r.UnmarkDeep()
		for m := range vm {
			if _, ok := rm[m]; !ok {
				sig := "mark-lost:" + c08Kind(v.Type()) + ">" + c08Kind(t)
				if c08MarkedNullCarries(v, m) {
					sig = "null-element-rebuilt-without-marks"
				}
				c.fail("marks_kept", sig, "a mark of the input is missing from the result (C04: no loss of marks)", v, t, c08Outcome(out))
				break
			}
		}
	}
	// identity
	if v.Type().Equals(stripped) && !c08RawEq(r, v) {
		c.fail("identity", c08Kind(t), "converting a value to its own type changed it", v, t, c08Outcome(out))
	}
	// idempotent
	again := c08Convert(r, t)
	ctx.Add("cv.convert", again.wire(), rw, tw)
	switch {
	case again.kind == "panic":
		c.fail("no_panic", c08PanicSig(again.why), "convert.Convert panics on its own result", r, t, c08Outcome(again))
	case again.kind == "err":
		sig := "second-fails:" + c08Kind(r.Type()) + ">" + c08Kind(t)
		if len(r.Type().TestConformance(t)) > 0 {
			sig = "first-result-nonconforming"
		} else if c08HasEmptyColl(r) && t.HasDynamicTypes() {
			// an empty collection inside r takes the target's element type with its nested
			// placeholder, which then does not match its non-empty neighbours
			sig = "empty-collection-keeps-nested-placeholder"
		}
		c.fail("idempotent", sig, "converting the result again fails", v, t, c08Outcome(out)+" then "+c08Outcome(again))
	case !c08Same(again.v, r):
		sig := "second-differs:" + c08Kind(r.Type()) + ">" + c08Kind(t)
		if len(r.Type().TestConformance(t)) > 0 {
			// the first result did not conform (reported as result_conforms)
			sig = "first-result-nonconforming"
		} else if c08HasOpt(r.Type()) {
			// the first result carried optional annotations (reported as result_no_optional)
			sig = "first-result-has-optional"
		} else if _, rm := r.UnmarkDeep(); len(rm) > 0 {
			// a marked null inside r is rebuilt without its marks by the second conversion
			for m := range rm {
				if c08MarkedNullCarries(r, m) {
					sig = "null-element-rebuilt-without-marks"
				}
			}
		}
		c.fail("idempotent", sig, "converting the result again changes it", v, t, c08Outcome(out)+" then "+c08Outcome(again))
	}
	// unknown_null_sound, refinement part: the unknown result admits the conversion of
	// every known value the unknown input admits
	if uv, _ := v.Unmark(); !uv.IsKnown() && deep {
		c.admits(uv, t, r)
	}
	c.roundtrip(v, t, r)
}

// admits samples known values k admitted by the unknown u and checks that the
// (unknown) result r for u admits Convert(k, t).
func (c *c08Run) admits(u cty.Value, t cty.Type, r cty.Value) {
	ctx := c.ctx
	if u.Type() == cty.DynamicPseudoType {
		return
	}
	rng := u.Range()
	ru, _ := r.Unmark()
	for i := 0; i < 6; i++ {
		k := c08Val(ctx.R, u.Type(), 2, c08VOpts{width: 4, null: i == 0})
		if i == 1 && (u.Type().IsSetType() || u.Type().IsListType()) && u.Type().ElementType() == cty.String {
			// members that coalesce under a non-injective element conversion
			pool := [][]string{{"1", "1.0"}, {"1", "1.0", "01"}, {"true", "1"}, {"1", "1e0", "2"}}[ctx.R.Intn(4)]
			vs := make([]cty.Value, len(pool))
			for j, s := range pool {
				vs[j] = cty.StringVal(s)
			}
			if u.Type().IsSetType() {
				k = cty.SetVal(vs)
			} else {
				k = cty.ListVal(vs)
			}
		}
		inc := cty.False
		if p, _ := try(func() { inc = rng.Includes(k) }); p || inc.RawEquals(cty.False) {
			continue // not admitted by the input
		}
		ko := c08Convert(k, t)
		if ko.kind != "ok" {
			continue
		}
		ctx.Tag("admits:checked")
		ok := true
		kv, _ := ko.v.UnmarkDeep()
		if !ru.IsKnown() {
			// the refinement of the unknown result: nullness and length bounds (the type
			// is the business of result_conforms)
			rr := ru.Range()
			switch {
			case kv.IsNull():
				ok = !rr.DefinitelyNotNull()
			case rr.CouldBeNull() && ru.Range().TypeConstraint() == cty.DynamicPseudoType:
			default:
				try(func() {
					if n := ru.Range(); kv.Type().IsCollectionType() && ru.Type().IsCollectionType() && kv.Length().IsKnown() {
						l := kv.LengthInt()
						ok = n.LengthLowerBound() <= l && l <= n.LengthUpperBound()
					}
				})
			}
			if p, _ := try(func() { _ = ru.Range().Includes(kv) }); p {
				ok = false
			}
		} else if ru.IsNull() {
			ok = kv.IsNull()
		}
		if kv.IsWhollyKnown() {
			ctx.Add("cv.admits", encBool(ok), encVal(ru), encVal(kv))
		}
		ctx.Eval("admits "+encVal(u)+" "+encTy(t)+" "+encVal(k), true)
		if !ok {
			sig := "refinement-excludes-result:" + c08Kind(u.Type()) + ">" + c08Kind(t)
			c.ctx.Fail(Failure{Site: "unknown_null_sound", Sig: sig,
				What:    "the result for an unknown input carries a refinement that excludes the conversion of a value the input admits",
				Input:   encVal(u) + " " + encTy(t) + " admitted: " + encVal(k),
				GoLit:   fmt.Sprintf("u := %#v; k := %#v; ru, _ := convert.Convert(u, %#v); rk, _ := convert.Convert(k, %#v); ru.Range().Includes(rk) // False", u, k, t, t),
				Outcome: fmt.Sprintf("Convert(u) = %#v, Convert(k) = %#v", r, ko.v)})
		}
	}
}

// roundtrip: information is preserved through an inverse conversion.
func (c *c08Run) roundtrip(v cty.Value, t cty.Type, r cty.Value) {
	uv, marks := v.UnmarkDeep()
	if len(marks) > 0 || !uv.IsWhollyKnown() || uv.IsNull() {
		return
	}
	st := uv.Type()
	check := func(site, sig string) {
		back := c08Convert(r, st)
		if back.kind == "panic" {
			c.fail("no_panic", c08PanicSig(back.why), "convert.Convert panics on the way back", r, st, c08Outcome(back))
			return
		}
		c.ctx.Tag("roundtrip:" + site)
		c.ctx.Add("cv.convert", back.wire(), encVal(r), encTy(st))
		eq := false
		if back.kind == "ok" {
			try(func() { eq = back.v.Equals(uv).True() })
		}
		if !eq {
			c.fail(site, sig, "the round trip through the inverse conversion does not give back an equal value", v, t, "there: "+c08Outcome(c08Out{kind: "ok", v: r})+" back: "+c08Outcome(back))
		}
	}
	switch {
	case st == cty.Number && t == cty.String:
		f := uv.AsBigFloat()
		sig := "non-integer"
		if f.IsInf() {
			sig = "infinity"
		} else if f.IsInt() {
			sig = "integer-text-exact"
			if i, _ := f.Int(nil); i.String() != r.AsString() {
				sig = "integer-shortest-text-not-exact"
			}
		}
		check("roundtrip_number_string", sig)
	case st == cty.Bool && t == cty.String:
		check("roundtrip_bool_string", "bool")
	case st.IsObjectType() && t.IsMapType() && len(st.AttributeTypes()) > 0 && t.ElementType() != cty.DynamicPseudoType && !c08HasNull(uv):
		same := true
		for _, a := range st.AttributeTypes() {
			if !a.Equals(t.ElementType()) {
				same = false
			}
		}
		if same {
			check("roundtrip_object_map", c08Kind(t.ElementType()))
		}
	case st.IsSetType() && t.IsListType() && st.ElementType().Equals(t.ElementType()):
		check("roundtrip_set_list", c08Kind(t.ElementType()))
	case st.IsTupleType() && t.IsListType():
		// there is no list → tuple conversion; what can be checked is that length and
		// order are kept
		if r.IsKnown() && !r.IsNull() && r.LengthInt() != uv.LengthInt() {
			c.fail("roundtrip_tuple_list", "length", "tuple → list changed the number of elements", v, t, c08Outcome(c08Out{kind: "ok", v: r}))
		}
		if convert.GetConversionUnsafe(r.Type(), st) != nil && len(st.TupleElementTypes()) > 0 {
			c.fail("roundtrip_tuple_list", "inverse-exists", "a list → tuple conversion exists (the model says none does)", v, t, "GetConversionUnsafe != nil")
		}
	}
}

func c08HasNull(v cty.Value) bool {
	found := false
	cty.Walk(v, func(_ cty.Path, x cty.Value) (bool, error) {
		if x.IsKnown() && x.IsNull() {
			found = true
		}
		return true, nil
	})
	return found
}

// ---- helper correspondences --------------------------------------------------------

func c08Unify(ctx *Ctx, tys []cty.Type) {
	ws := make([]string, len(tys))
	for i, t := range tys {
		ws[i] = encTy(t)
	}
	arg := "(" + strings.Join(ws, " ") + ")"
	for _, uns := range []bool{false, true} {
		var got cty.Type
		p, _ := try(func() {
			if uns {
				got, _ = convert.UnifyUnsafe(tys)
			} else {
				got, _ = convert.Unify(tys)
			}
		})
		impl := "panic"
		if !p {
			impl = encTy(got)
		}
		ctx.Add("cv.unify", impl, encBool(uns), arg)
	}
}

func c08Parse(ctx *Ctx, s string) {
	v, err := cty.ParseNumberVal(s)
	impl := "err"
	if err == nil {
		impl = "ok " + cty.VerifNumWire(v.AsBigFloat())
	}
	ctx.Add("cv.parse", impl, encStr(s))
}

func c08Hash(ctx *Ctx, v cty.Value) {
	impl := "panic"
	try(func() { impl = fmt.Sprintf("ok %d", cty.VerifHash(v)) })
	ctx.Add("cv.hash", impl, encVal(v))
}

// ---- the runner ---------------------------------------------------------------------

func c08SmallTypes(maxSize int) []cty.Type {
	memo := map[int][]cty.Type{}
	var out []cty.Type
	for s := 1; s <= maxSize; s++ {
		out = append(out, enumTys(s, memo)...)
	}
	return out
}

func runC08(ctx *Ctx) {
	c := &c08Run{ctx: ctx}
	r := ctx.R
	only := os.Getenv("C08_ONLY") // debugging aid: run a single section
	sec := func(n string) bool { return only == "" || only == n }

	// (0) the assumed laws, probed on the real code; helper correspondences
	if sec("0") {
		c08Probes(ctx)
		c08D08(c)
		c08D08b(c)
		for _, s := range c08NumStrings {
			c08Parse(ctx, s)
		}
		for i := 0; i < ctx.N(1500, 10000); i++ {
			// random decimal strings
			var sb strings.Builder
			if r.Intn(3) == 0 {
				sb.WriteByte("+-"[r.Intn(2)])
			}
			for j := r.Intn(25); j >= 0; j-- {
				sb.WriteByte(byte('0' + r.Intn(10)))
			}
			if r.Intn(2) == 0 {
				sb.WriteByte('.')
				for j := r.Intn(25); j > 0; j-- {
					sb.WriteByte(byte('0' + r.Intn(10)))
				}
			}
			if r.Intn(3) == 0 {
				fmt.Fprintf(&sb, "%c%d", "eEpP"[r.Intn(4)], r.Intn(600)-300)
			}
			c08Parse(ctx, sb.String())
		}
		for i := 0; i < ctx.N(2500, 20000); i++ {
			t := genTy(r, 2, TyOpts{})
			c08Hash(ctx, c08Val(r, t, 2, c08VOpts{unknown: true, null: true}))
		}
		for i := 0; i < ctx.N(6000, 60000); i++ {
			n := 1 + r.Intn(4)
			tys := make([]cty.Type, n)
			base := genTy(r, 2, TyOpts{Dyn: true})
			for j := range tys {
				switch r.Intn(4) {
				case 0:
					tys[j] = base
				case 1:
					tys[j] = mutateTy(r, base, TyOpts{Dyn: true})
				case 2:
					tys[j] = c08Derive(r, base, 2).WithoutOptionalAttributesDeep()
				default:
					tys[j] = genTy(r, 2, TyOpts{Dyn: true})
				}
			}
			c08Unify(ctx, tys)
		}
	}

	// (1) enumerated small scope: every ordered pair of types of size <= 2, with a
	// known, a null, an unknown and a marked value of the source type
	small := c08SmallTypes(2)
	if sec("1") {
		for _, s := range small {
			vals := []cty.Value{
				c08Val(r, s, 2, c08VOpts{}),
				c08Val(r, s, 2, c08VOpts{unknown: true, null: true, dynVal: true}),
				cty.NullVal(s.WithoutOptionalAttributesDeep()),
				cty.UnknownVal(s.WithoutOptionalAttributesDeep()),
				c08Val(r, s, 2, c08VOpts{}).Mark("m1"),
				cty.NullVal(s.WithoutOptionalAttributesDeep()).Mark("m1"),
				genUnknown(r, s.WithoutOptionalAttributesDeep()).Mark("m2"),
			}
			for _, t := range small {
				for _, v := range vals {
					c.pair(v, t, false)
				}
			}
		}
	}
	ctx.res.Exhaustive = only == ""
	ctx.res.Scope = fmt.Sprintf("all %d ordered pairs of the %d types of size<=2 (leaves bool number string placeholder capsule emptytuple emptyobject; list set map tuple1 object{a} object{b} object{a?}) x 7 values of the source type each", len(small)*len(small), len(small))

	// (2) conversion existence over pairs of types of size <= 3
	mid := c08SmallTypes(3)
	nPairs := ctx.N(60000, len(mid)*len(mid))
	if !sec("2") {
		nPairs = 0
	}
	for i := 0; i < nPairs; i++ {
		var s, t cty.Type
		if ctx.Thorough {
			s, t = mid[i/len(mid)], mid[i%len(mid)]
		} else {
			s, t = mid[r.Intn(len(mid))], mid[r.Intn(len(mid))]
		}
		var safe, uns convert.Conversion
		if p, why := try(func() { safe = convert.GetConversion(s, t); uns = convert.GetConversionUnsafe(s, t) }); p {
			ctx.Fail(Failure{Site: "no_panic", Sig: c08PanicSig(why), What: "GetConversion panics", Input: encTy(s) + " " + encTy(t), GoLit: fmt.Sprintf("convert.GetConversionUnsafe(%#v, %#v)", s, t), Outcome: why})
			continue
		}
		ctx.Add("cv.getconv", map[bool]string{true: "conv", false: "nil"}[safe != nil], encTy(s), encTy(t), "0")
		ctx.Add("cv.getconv", map[bool]string{true: "conv", false: "nil"}[uns != nil], encTy(s), encTy(t), "1")
		if safe != nil && uns == nil {
			ctx.Fail(Failure{Site: "safe_sub_unsafe", Sig: "safe-without-unsafe", What: "GetConversion offers a conversion that GetConversionUnsafe does not", Input: encTy(s) + " " + encTy(t), GoLit: fmt.Sprintf("convert.GetConversion(%#v, %#v)", s, t), Outcome: "unsafe = nil"})
		}
		ctx.Eval("getconv "+encTy(s)+" "+encTy(t), !s.Equals(t))
	}

	// (3) random deeper pairs: derived and unrelated targets
	depth := ctx.N(3, 4)
	n3 := ctx.N(45000, 600000)
	if !sec("3") {
		n3 = 0
	}
	for i := 0; i < n3; i++ {
		s := genTy(r, depth, TyOpts{Dyn: r.Intn(4) == 0, Capsule: r.Intn(6) == 0, MaxWidth: 3})
		o := c08VOpts{unknown: r.Intn(2) == 0, null: r.Intn(2) == 0, marks: r.Intn(3) == 0, dynVal: true}
		v := c08Val(r, s, depth, o)
		var t cty.Type
		switch r.Intn(8) {
		case 0:
			t = genTy(r, depth-1, TyOpts{Dyn: true, Opt: true, Capsule: true})
			ctx.Tag("target:unrelated")
		case 1:
			t = v.Type()
			ctx.Tag("target:same")
		default:
			t = c08Derive(r, v.Type(), depth)
			ctx.Tag("target:derived")
		}
		c.pair(v, t, true)
	}

	// (4) primitive pairs with every string shape
	if sec("4") {
		for _, s := range append(append([]string{}, c08NumStrings...), c08BoolStrings...) {
			for _, t := range []cty.Type{cty.Number, cty.Bool, cty.String, cty.DynamicPseudoType} {
				c.pair(cty.StringVal(s), t, false)
			}
		}
		for i := 0; i < ctx.N(1500, 15000); i++ {
			n := genNumber(r, ValOpts{})
			c.pair(n, cty.String, false)
			c.pair(n, cty.Bool, false)
		}
		for _, b := range []cty.Value{cty.True, cty.False} {
			for _, t := range []cty.Type{cty.Number, cty.Bool, cty.String} {
				c.pair(b, t, false)
			}
		}
		c.pair(cty.NumberVal(new(big.Float).SetPrec(64).SetMantExp(big.NewFloat(1), 124)), cty.String, false)
	}

	// (5) refined unknown collections (length bounds) through every collection pair
	n5 := ctx.N(6000, 60000)
	if !sec("5") {
		n5 = 0
	}
	for i := 0; i < n5; i++ {
		ety := []cty.Type{cty.String, cty.Number, cty.Bool, cty.Object(map[string]cty.Type{"a": cty.String, "b": cty.String})}[r.Intn(4)]
		var st cty.Type
		switch r.Intn(4) {
		case 0:
			st = cty.List(ety)
		case 1:
			st = cty.Set(ety)
		case 2:
			st = cty.Map(ety)
		default:
			st = cty.Tuple([]cty.Type{ety, ety}[:r.Intn(3)])
		}
		u := cty.UnknownVal(st)
		if st.IsCollectionType() {
			b := u.Refine()
			lo := r.Intn(4)
			if r.Intn(3) != 0 {
				b = b.CollectionLengthLowerBound(lo)
			}
			if r.Intn(2) == 0 {
				b = b.CollectionLengthUpperBound(lo + r.Intn(3))
			}
			if r.Intn(2) == 0 {
				b = b.NotNull()
			}
			u = b.NewValue()
		} else if r.Intn(2) == 0 {
			u = u.RefineNotNull()
		}
		tety := []cty.Type{cty.String, cty.Number, cty.Bool, cty.Object(map[string]cty.Type{"a": cty.String}), cty.DynamicPseudoType}[r.Intn(5)]
		var t cty.Type
		switch r.Intn(3) {
		case 0:
			t = cty.List(tety)
		case 1:
			t = cty.Set(tety)
		default:
			t = cty.Map(tety)
		}
		if r.Intn(5) == 0 {
			u = u.Mark("m3")
		}
		c.pair(u, t, true)
	}
}
