package main

// C20 (d20) — goroutines over shared values, diffed against the Lean model.
//
// A sequential history builds a pool of values and Go data ("the shared state").
// Then 2–4 REAL goroutines run, concurrently, a history each over that state:
// read-only API calls on anything shared, and mutation of Go data the goroutine
// made or was handed by an accessor itself (copies out of shared values, its own
// ValueSets / PathSets / Walks).  For every goroutine and every step the
// registers whose fingerprint changed are printed, exactly as in heap.run.
//
//   (T) driver op heap.conc runs the same programs (a) under Interleave.exec in the
//       arena instance the theorem C20.goroutines_equiv_sequential is about, for a
//       random complete schedule, (b) alone, (c) over one heap with the model's
//       bump allocator, and prints (a) plus whether (b) and (c) print the same.
//       The real goroutines must have printed what (a) prints.
//   (S) independently of the model: each goroutine's concurrent results must be
//       the results the same program gave when it ran alone before the fork, and
//       the shared registers must read the same before and after.
//
// What admits a step on the Go side mirrors `Conc.sharedSafe`: a mutator's target
// (receiver of Add/Remove, the *big.Float given to NumberVal, …) must be an object
// this goroutine got after the fork and that no documented ownership transfer or
// leak has touched.  The filter is at least as strict as the model's guard; a step
// Go admits and the model does not shows up as a mismatch (`!`).

import (
	"fmt"
	"strings"
	"sync"
	"unsafe"
)

// clone copies the register files; the Go objects behind them stay shared.
func (h *c20H) clone() *c20H {
	c := &c20H{vals: append(h.vals[:0:0], h.vals...), outs: nil}
	for _, g := range h.gos {
		cp := *g
		cp.given = map[string]bool{}
		for k, v := range g.given {
			cp.given[k] = v
		}
		c.gos = append(c.gos, &cp)
	}
	return c
}

// c20stepStr runs one op and prints which registers it changed or created.
func (h *c20H) stepStr(op *c20Op) (s, wire, lit string, ok bool) {
	bv, bg := h.snapshot()
	nout := len(h.outs)
	wire, lit, ok = h.do(op)
	if !ok || wire == "" {
		return "", wire, lit, ok
	}
	av, ag := h.snapshot()
	items := []string{}
	for i, f := range av {
		if i >= len(bv) || bv[i] != f {
			items = append(items, fmt.Sprintf("v%d=%s", i, f))
		}
	}
	for i, f := range ag {
		if i >= len(bg) || bg[i] != f {
			items = append(items, fmt.Sprintf("g%d=%s", i, f))
		}
	}
	for _, o := range h.outs[nout:] {
		items = append(items, "o="+o)
	}
	return "[" + strings.Join(items, " ") + "]", wire, lit, true
}

var c20leakOrigins = map[string]bool{"tupleElementTypes": true, "attributeTypes": true, "psList": true, "walk": true}

// c20concThread is one goroutine's program under construction.
type c20concThread struct {
	h      *c20H
	ng0    int
	shared map[unsafe.Pointer]bool // objects that existed at the fork
	spent  map[unsafe.Pointer]bool // own objects given away (NumberVal, cty.Tuple, PathSet.Add) or leaked
	ops    []*c20Op
	wires  []string
	lits   []string
	expect []string
	nMut   int
}

// own: register i is an object this goroutine may write
func (t *c20concThread) own(i int, kinds ...string) bool {
	if i < t.ng0 || i >= len(t.h.gos) {
		return false
	}
	g := t.h.gos[i]
	okKind := false
	for _, k := range kinds {
		okKind = okKind || g.kind == k
	}
	if !okKind || c20leakOrigins[g.origin] {
		return false
	}
	if p := g.ident(); p != nil && (t.shared[p] || t.spent[p]) {
		return false
	}
	return true
}

// admits mirrors Conc.sharedSafe on the Go side.
func (t *c20concThread) admits(op *c20Op) bool {
	switch op.name {
	case "setFloat":
		return t.own(op.a, "float")
	case "setElem", "appendVal":
		return t.own(op.a, "slice")
	case "setElemType":
		return t.own(op.a, "types")
	case "setStep", "appendStep":
		return t.own(op.a, "path")
	case "mapPut", "mapDelete":
		return t.own(op.a, "map")
	case "mapPutType":
		return t.own(op.a, "tymap")
	case "marksAdd":
		return t.own(op.a, "marks")
	case "numberVal":
		return t.own(op.a, "float")
	case "tupleType":
		return t.own(op.a, "types")
	case "vsAdd", "vsRemove", "psRemove":
		return op.a >= t.ng0
	case "psAdd", "psAddAllSteps":
		if op.a < t.ng0 {
			return false
		}
		if op.b >= 0 && op.b < len(t.h.gos) && t.h.gos[op.b].kind == "path" && t.h.gos[op.b].path == nil {
			return true // a nil path: nothing is retained
		}
		return t.own(op.b, "path")
	case "elemPath":
		return true
	}
	return true
}

func (t *c20concThread) noteSpent(op *c20Op) {
	var g *c20Go
	switch op.name {
	case "numberVal", "tupleType":
		g = t.h.gos[op.a]
	case "psAdd", "psAddAllSteps":
		g = t.h.gos[op.b]
	default:
		return
	}
	if p := g.ident(); p != nil {
		t.spent[p] = true
	}
}

func c20concCase(ctx *Ctx) {
	// ---- the shared state
	r := newC20Run(ctx)
	want := 4 + ctx.R.Intn(10)
	for tries := 0; len(r.wires) < want && tries < want*40 && !r.panics && !r.stop; tries++ {
		op := r.h.genOp(ctx.R)
		switch op.name {
		case "walkBegin", "walkNext", "setElemType", "mapPutType":
			continue // no walk in progress at the fork; no type corrupted through a documented back door
		}
		r.step(op)
	}
	if r.panics || r.stop {
		r.h.close()
		return
	}
	shared := r.h
	sharedIDs := map[unsafe.Pointer]bool{}
	for _, g := range shared.gos {
		if p := g.ident(); p != nil {
			sharedIDs[p] = true
		}
	}
	bv, bg := shared.snapshot()
	// ---- the programs: generated by running each of them alone on a clone
	nT := 2 + ctx.R.Intn(3)
	threads := make([]*c20concThread, nT)
	for ti := range threads {
		t := &c20concThread{h: shared.clone(), ng0: len(shared.gos), shared: sharedIDs, spent: map[unsafe.Pointer]bool{}}
		threads[ti] = t
		steps := 3 + ctx.R.Intn(8)
		for tries := 0; len(t.ops) < steps && tries < steps*40; tries++ {
			op := t.h.genOp(ctx.R)
			if !t.admits(op) {
				continue
			}
			s, wire, lit, ok := t.h.stepStr(op)
			if !ok {
				continue
			}
			if wire == "" {
				ctx.Fail(Failure{Site: "no-panic", Sig: "panic:" + op.name, What: "API call panicked in a goroutine's history: " + lit,
					Input: strings.Join(append(append([]string{}, r.wires...), t.wires...), " "), GoLit: strings.Join(append(append([]string{}, r.lits...), t.lits...), "; "), Outcome: lit})
				for _, th := range threads[:ti+1] {
					th.h.close()
				}
				shared.close()
				return
			}
			t.noteSpent(op)
			t.ops, t.wires, t.lits, t.expect = append(t.ops, op), append(t.wires, wire), append(t.lits, lit), append(t.expect, s)
			if c20mutators[op.name] || op.name == "vsAdd" || op.name == "vsRemove" || op.name == "psAdd" || op.name == "psRemove" || op.name == "psAddAllSteps" {
				t.nMut++
			}
			ctx.Tag("conc:step:" + op.name)
		}
		t.h.close()
	}
	// ---- the same programs, concurrently, each on a fresh clone
	got := make([][]string, nT)
	panics := make([]string, nT)
	var wg sync.WaitGroup
	start := make(chan struct{})
	for ti, t := range threads {
		wg.Add(1)
		go func(ti int, t *c20concThread) {
			defer wg.Done()
			h := shared.clone()
			defer h.close()
			<-start
			for _, op := range t.ops {
				s, wire, lit, ok := h.stepStr(op)
				if !ok {
					s = "!"
				} else if wire == "" {
					s, panics[ti] = "PANIC", lit
				}
				got[ti] = append(got[ti], s)
			}
		}(ti, t)
	}
	close(start)
	wg.Wait()
	av, ag := shared.snapshot()
	shared.close()
	// ---- (S)
	all := func() (string, string) {
		w, l := append([]string{}, r.wires...), append([]string{}, r.lits...)
		for ti, t := range threads {
			w = append(w, fmt.Sprintf("|T%d", ti))
			w = append(w, t.wires...)
			l = append(l, fmt.Sprintf("go func() { /* goroutine %d */ %s }()", ti, strings.Join(t.lits, "; ")))
		}
		return strings.Join(w, " "), strings.Join(l, "; ")
	}
	nSteps, nMut := len(r.wires), r.nMut
	for ti, t := range threads {
		nSteps, nMut = nSteps+len(t.ops), nMut+t.nMut
		for k := range t.ops {
			if got[ti][k] != t.expect[k] {
				in, lit := all()
				ctx.Fail(Failure{Site: "goroutines", Sig: "concurrent-result-differs:" + t.ops[k].name,
					What:  fmt.Sprintf("goroutine %d, step %d (%s) gave a different result running concurrently than running alone", ti, k, t.lits[k]),
					Input: in, GoLit: lit, Outcome: "alone " + t.expect[k] + " concurrently " + got[ti][k] + " " + panics[ti]})
				break
			}
		}
	}
	if strings.Join(bv, "\x00") != strings.Join(av, "\x00") || strings.Join(bg, "\x00") != strings.Join(ag, "\x00") {
		in, lit := all()
		ctx.Fail(Failure{Site: "goroutines", Sig: "shared-state-changed", What: "a shared value or shared Go data reads differently after goroutines used it read-only",
			Input: in, GoLit: lit, Outcome: strings.Join(bv, " ") + " " + strings.Join(bg, " ") + " -> " + strings.Join(av, " ") + " " + strings.Join(ag, " ")})
	}
	// ---- (T)
	var sched []int
	left := make([]int, nT)
	total := 0
	for ti, t := range threads {
		left[ti] = len(t.ops)
		total += len(t.ops)
	}
	for total > 0 {
		ti := ctx.R.Intn(nT)
		if left[ti] == 0 {
			continue
		}
		left[ti]--
		total--
		sched = append(sched, ti)
	}
	args := append([]string{}, r.wires...)
	args = append(args, "|", c20ints(sched))
	parts := []string{}
	for ti, t := range threads {
		args = append(args, "|")
		args = append(args, t.wires...)
		parts = append(parts, fmt.Sprintf("T%d:%s", ti, strings.Join(got[ti], " ")))
	}
	outside := shared.outside
	for _, t := range threads {
		if t.h.outside != "" {
			outside = t.h.outside
		}
	}
	if outside != "" {
		ctx.Tag("conc:outside-model:" + outside) // judged by (S) only
	} else {
		ctx.Add("heap.conc", strings.Join(parts, " ; ")+" | complete arena=solo global=arena shared-untouched", args...)
	}
	key, _ := all()
	ctx.Eval("conc "+key, nSteps >= 4 && nMut >= 1)
	ctx.Tag(fmt.Sprintf("conc:goroutines=%d", nT))
}

func c20conc(ctx *Ctx) {
	for i := 0; i < ctx.N(300, 6000); i++ {
		c20concCase(ctx)
	}
}
