package main

import (
	"fmt"
	"sort"
)

func sortStrings(s []string) { sort.Strings(s) }

// try runs f and converts a panic into a description.
func try(f func()) (panicked bool, why string) {
	defer func() {
		if r := recover(); r != nil {
			panicked = true
			why = fmt.Sprint(r)
		}
	}()
	f()
	return
}
