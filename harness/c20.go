package main

// C20 — immutability and sharing.
//
//  (T1) histories of API calls + caller mutations run on the REAL code and on the
//       Lean heap model (driver op heap.run): after every step both sides print
//       which registers' fingerprints changed or were created, and at the end the
//       bucket / slice layout (len, cap, which backing arrays are shared).  "Does
//       the result share backing store with the input" is thereby observed by
//       mutating and looking, for every modelled entry point.
//  (S)  independently of the model, every fingerprint change of an existing value
//       (or of a helper set that was not the receiver) is classified: documented
//       ownership transfers are KNOWN-FINDINGs, anything else is a violation.
//       Purity: map-ranging operations repeated many times, with the operand maps
//       built in different insertion orders.
//       Thorough tier: a worker built with `go build -race` runs 2–16 goroutines
//       over shared values (c20race.go).

import (
	"fmt"
	"math/rand"
	"reflect"
	"strings"
	"unsafe"

	"github.com/zclconf/go-cty/cty"
)

func init() {
	register("C20", "histories of API calls (constructors, accessors, operation methods, marks, ValueSet/PathSet/Path/Walk) interleaved with caller mutations of every Go object passed in or handed back; "+
		"scripted aliasing scenarios (every accessor/constructor x mutation of its result/argument) + random histories; valid calls outside the model's fragment are executed and judged by (S) only (tags outside-model:*); "+
		"goroutines: 2-4 REAL goroutines run a history each over a shared state (read-only API on shared data, mutation of their own), diffed against the driver's arena/one-heap interleaving semantics (op heap.conc) and against their own sequential results; "+
		"S-only scenarios for API outside the model (tags d1:*); Set.Values / ValueSet.Values / AsValueSlice of a set / PathSet.List / convert.Unify(tuples, lists) / UnmarkDeepWithPaths / PathSet.Union / PathSet.Subtract inside the ordinary histories, diffed against the driver op heapx.run incl. len/cap/backing-array identity (steps x*, tag d2:*); purity repeats; -race worker with 2-16 goroutines (quick: 2 short runs when the race build is cached; thorough: 15 long runs) "+
		"(the -race runs SUPPORT the model's write sets — API calls write only what they allocate — under the schedules that occurred; they are not a proof of race freedom, and the Go memory model is not modelled). "+
		"non-trivial = history (goroutine programs included) of >= 4 steps with >= 1 caller mutation; distinct = distinct canonical history strings; purity / derived / d1 evaluations are counted as evaluations only", runC20)
}

var c20mutators = map[string]bool{"setFloat": true, "setElem": true, "setElemType": true, "setStep": true, "mapPut": true,
	"mapPutType": true, "mapDelete": true, "marksAdd": true, "appendVal": true, "appendStep": true}

// ident is the identity of the Go object behind a register (nil for none).
func (g *c20Go) ident() unsafe.Pointer {
	switch g.kind {
	case "float":
		return unsafe.Pointer(g.f)
	case "slice":
		if cap(g.vs) > 0 {
			return c20data(g.vs)
		}
	case "types":
		if cap(g.tys) > 0 {
			return c20data(g.tys)
		}
	case "path":
		if cap(g.path) > 0 {
			return c20data(g.path)
		}
	case "paths":
		if cap(g.paths) > 0 {
			return c20data(g.paths)
		}
	case "map":
		if g.vm != nil {
			return reflect.ValueOf(g.vm).UnsafePointer()
		}
	case "tymap":
		if g.tm != nil {
			return reflect.ValueOf(g.tm).UnsafePointer()
		}
	case "marks":
		if g.mk != nil {
			return reflect.ValueOf(g.mk).UnsafePointer()
		}
	}
	return nil
}

// c20Run is one history being executed and judged.
type c20Run struct {
	ctx    *Ctx
	h      *c20H
	prov   map[unsafe.Pointer]map[string]bool // what happened to the object behind a register
	wires  []string
	lits   []string
	steps  []string
	nMut   int
	panics bool
	stop   bool // the type of a value was corrupted through a documented back door: what follows is undefined
}

func newC20Run(ctx *Ctx) *c20Run {
	return &c20Run{ctx: ctx, h: &c20H{}, prov: map[unsafe.Pointer]map[string]bool{}}
}

func (r *c20Run) note(g *c20Go, what string) {
	if p := g.ident(); p != nil {
		if r.prov[p] == nil {
			r.prov[p] = map[string]bool{}
		}
		r.prov[p][what] = true
	}
}

func (r *c20Run) has(g *c20Go, what string) bool {
	if p := g.ident(); p != nil {
		return r.prov[p][what]
	}
	return false
}

// c20copying: accessors / helpers whose CONTRACT is a fresh object.  Provenance (`prov`)
// is keyed by pointer for the whole history; so that an accessor which handed out a
// pointer the caller ALREADY holds (say AsBigFloat returning the *big.Float that was
// given to NumberVal) is not filed under that earlier, documented transfer, every
// object such an accessor returns is compared with all registers when it is created.
var c20copying = map[string]bool{"asBigFloat": true, "asValueSlice": true, "asValueMap": true, "asValueSet": true, "marks": true, "unmark": true,
	"vsValues": true, "vsCopy": true, "pathCopy": true, "pathIndex": true, "pathGetAttr": true}

// classify names the documented ownership transfer behind a leak, or "".
// changed is the Go register that reads differently (nil: an existing VALUE does).
func (r *c20Run) classify(op *c20Op, target, changed *c20Go) string {
	switch op.name {
	case "setFloat":
		if target != nil && r.has(target, "numberVal") {
			return "numberval-retains-bigfloat"
		}
	case "setElemType":
		if target != nil && r.has(target, "from:tupleElementTypes") {
			return "tupleelementtypes-returns-internal-slice"
		}
		if target != nil && r.has(target, "tupleType") {
			return "tuple-type-retains-elemtypes-slice"
		}
	case "mapPutType":
		if target != nil && r.has(target, "from:attributeTypes") {
			return "attributetypes-returns-internal-map"
		}
	case "setStep", "appendStep":
		if op.name == "appendStep" && target != nil && r.has(target, "from:psList") && r.has(target, "psAddAllSteps") {
			// not a write to the listed path itself: append found the spare capacity AddAllSteps left in it
			return "pathset-addallsteps-members-share-capacity"
		}
		if target != nil && r.has(target, "from:walk") {
			return "walk-path-buffer-reused"
		}
		if target != nil && r.has(target, "from:psList") {
			return "pathset-list-returns-member-paths"
		}
		if target != nil && r.has(target, "psAdd") {
			return "pathset-add-retains-path"
		}
	case "walkNext":
		// the next callback invocation re-uses the path buffer: only a path the callback
		// was handed, or a PathSet / []Path that was given such a path WITHOUT copying it,
		// may read differently — never a value
		if changed != nil && (r.has(changed, "from:walk") || changed.holdsWalkPath) {
			return "walk-path-buffer-reused"
		}
	}
	return ""
}

// step executes one op and judges it.  false: the op did not apply.
func (r *c20Run) step(op *c20Op) bool {
	h := r.h
	bv, bg := h.snapshot()
	nout := len(h.outs)
	var target *c20Go
	if c20mutators[op.name] && op.a >= 0 && op.a < len(h.gos) {
		target = h.gos[op.a]
	}
	var targetID unsafe.Pointer
	if target != nil {
		targetID = target.ident()
	}
	wire, lit, ok := h.do(op)
	if !ok {
		return false
	}
	if wire == "" { // the real code panicked on a call the generator believes valid
		r.panics = true
		r.ctx.Fail(Failure{Site: "no-panic", Sig: "panic:" + op.name, What: "API call panicked in a history: " + lit,
			Input: strings.Join(append(r.wires, "("+op.name+" …)"), " "), GoLit: strings.Join(r.lits, "; "), Outcome: lit})
		return true
	}
	r.wires, r.lits = append(r.wires, wire), append(r.lits, lit)
	if c20mutators[op.name] {
		r.nMut++
	}
	// provenance of new registers and of arguments
	for i := len(bg); i < len(h.gos); i++ {
		if o := h.gos[i].origin; o != "" {
			r.note(h.gos[i], "from:"+o)
		}
	}
	for _, g := range h.gos {
		for k := range g.given {
			r.note(g, k)
		}
	}
	// a PathSet that was given a walk callback's path without a copy, and what List() hands out of it
	if (op.name == "psAdd" || op.name == "psAddAllSteps") && op.a >= 0 && op.a < len(h.gos) && op.b >= 0 && op.b < len(h.gos) &&
		(r.has(h.gos[op.b], "from:walk") || h.gos[op.b].origin == "walk") {
		h.gos[op.a].holdsWalkPath = true
	}
	if op.name == "psList" && op.a >= 0 && op.a < len(h.gos) && h.gos[op.a].holdsWalkPath {
		h.gos[len(h.gos)-1].holdsWalkPath = true
	}
	// independent of the model: what a copying accessor returns is an object no register held before
	for i := len(bg); i < len(h.gos); i++ {
		g := h.gos[i]
		if !c20copying[g.origin] || g.origin != op.name || g.ident() == nil {
			continue
		}
		for j := 0; j < len(bg); j++ {
			if h.gos[j].ident() == g.ident() {
				r.ctx.Fail(Failure{Site: "no-escape", Sig: "accessor-result-not-fresh:" + g.origin, What: "an accessor returned a Go object the caller already holds: " + lit,
					Input: strings.Join(r.wires, " "), GoLit: strings.Join(r.lits, "; "), Outcome: fmt.Sprintf("g%d is the same object as g%d", i, j)})
			}
		}
		r.ctx.Eval("fresh "+g.origin+" "+strings.Join(r.wires, " "), false)
	}
	av, ag := h.snapshot()
	items := []string{}
	valueChanged := false
	for i := range bv {
		valueChanged = valueChanged || bv[i] != av[i]
	}
	for i, f := range av {
		if i >= len(bv) || bv[i] != f {
			items = append(items, fmt.Sprintf("v%d=%s", i, f))
		}
		if i < len(bv) && bv[i] != f {
			// an EXISTING value reports something else now
			sig := r.classify(op, target, nil)
			f := Failure{Site: "fingerprints-stable", Sig: sig, What: "an existing value changed after " + lit,
				Input: strings.Join(r.wires, " "), GoLit: strings.Join(r.lits, "; "), Outcome: fmt.Sprintf("v%d was %s, is now %s", i, bv[i], av[i])}
			if sig == "" {
				f.Sig = "value-changed-by:" + op.name
			}
			r.ctx.Fail(f)
			r.ctx.Tag("leak:" + f.Sig)
			if op.name == "setElemType" || op.name == "mapPutType" {
				r.stop = true
			}
			// a member of a set changed IN PLACE (through a documented transfer): it is now filed under the
			// hash it had before, so Has / Equals / Add on that set no longer find it.  The model's
			// `Equivalent` (equality of fingerprints) does not follow go-cty there; what comes after is
			// outside every theorem anyway (the history is not respectful): stop here, this step included.
			if strings.Contains(bv[i], "(set") {
				r.stop = true
				r.ctx.Tag("stop:set-member-changed-in-place")
			}
		}
	}
	for i, f := range ag {
		if i >= len(bg) || bg[i] != f {
			items = append(items, fmt.Sprintf("g%d=%s", i, f))
		}
		if i < len(bg) && bg[i] != f {
			g := h.gos[i]
			receiver := (op.name == "vsAdd" || op.name == "vsRemove" || op.name == "psAdd" || op.name == "psRemove" || op.name == "psAddAllSteps") && i == op.a
			alias := target != nil && (g == target || (targetID != nil && g.ident() == targetID))
			if receiver || alias {
				continue
			}
			helper := g.kind == "vset" || g.kind == "pset"
			walked := g.kind == "path" && g.origin == "walk"
			if helper || walked || g.kind == "paths" {
				sig := r.classify(op, target, g)
				fl := Failure{Site: "fingerprints-stable", Sig: sig, What: "Go data the caller holds (" + g.kind + ") changed though it was not the receiver/target of " + lit,
					Input: strings.Join(r.wires, " "), GoLit: strings.Join(r.lits, "; "), Outcome: fmt.Sprintf("g%d was %s, is now %s", i, bg[i], ag[i])}
				if sig == "" {
					fl.Sig = "helper-changed-by:" + op.name
				}
				r.ctx.Fail(fl)
				r.ctx.Tag("leak:" + fl.Sig)
				if helper {
					// a member of a helper set changed in place: filed under a stale hash from here on (see above)
					r.stop = true
					r.ctx.Tag("stop:set-member-changed-in-place")
				}
			} else if c20mutators[op.name] && valueChanged {
				// seen through a value it holds (reported above)
			} else if c20mutators[op.name] {
				// plain caller data changed by a write to a DIFFERENT Go object (no register
				// aliases: those were skipped above) — two objects share storage
				r.ctx.Fail(Failure{Site: "fingerprints-stable", Sig: "caller-data-aliased:" + g.kind + ":" + g.origin, What: "a write to one Go object changed another the caller holds: " + lit,
					Input: strings.Join(r.wires, " "), GoLit: strings.Join(r.lits, "; "), Outcome: fmt.Sprintf("g%d was %s, is now %s", i, bg[i], ag[i])})
			} else {
				// plain caller data changed by an API call
				r.ctx.Fail(Failure{Site: "fingerprints-stable", Sig: "caller-data-changed-by:" + op.name, What: "an API call changed Go data the caller holds: " + lit,
					Input: strings.Join(r.wires, " "), GoLit: strings.Join(r.lits, "; "), Outcome: fmt.Sprintf("g%d was %s, is now %s", i, bg[i], ag[i])})
			}
		}
	}
	for _, o := range h.outs[nout:] {
		items = append(items, "o="+o)
	}
	r.steps = append(r.steps, "["+strings.Join(items, " ")+"]")
	r.ctx.Tag("step:" + op.name)
	return true
}

func (r *c20Run) finish() {
	layout := r.h.layout()
	r.h.close()
	if r.panics || len(r.wires) == 0 {
		return
	}
	impl := strings.Join(append(append([]string{}, r.steps...), "|", layout), " ")
	if r.h.outside != "" {
		// a valid call the model does not cover was executed on the real code and judged by (S): no correspondence case
		r.ctx.Tag("outside-model:" + r.h.outside)
	} else {
		r.ctx.Add(map[bool]string{false: "heap.run", true: "heapx.run"}[r.h.ext], impl, r.wires...)
	}
	r.ctx.Eval(strings.Join(r.wires, " "), len(r.wires) >= 4 && r.nMut >= 1)
}

// ---- random histories ---------------------------------------------------------

var c20names = []string{"a", "b", "k"}

func (h *c20H) pickGo(r *rand.Rand, kinds ...string) int {
	var c []int
	for i, g := range h.gos {
		for _, k := range kinds {
			if g.kind == k {
				c = append(c, i)
			}
		}
	}
	if len(c) == 0 {
		return -1
	}
	// prefer recent registers: aliasing shows between a call and what follows it
	if r.Intn(2) == 0 {
		return c[len(c)-1-r.Intn(c20min(3, len(c)))]
	}
	return c[r.Intn(len(c))]
}

// valsWhere lists the value registers that satisfy p.
func (h *c20H) valsWhere(p func(cty.Value) bool) []int {
	var c []int
	for i, v := range h.vals {
		if p(v) {
			c = append(c, i)
		}
	}
	return c
}

func (h *c20H) pickVal(r *rand.Rand) int {
	if len(h.vals) == 0 {
		return -1
	}
	if r.Intn(2) == 0 {
		return len(h.vals) - 1 - r.Intn(c20min(4, len(h.vals)))
	}
	return r.Intn(len(h.vals))
}

func c20min(a, b int) int {
	if a < b {
		return a
	}
	return b
}

type c20w struct {
	name string
	w    int
}

var c20weights = []c20w{
	{"newFloat", 4}, {"newSlice", 8}, {"newMap", 6}, {"newMarks", 2}, {"newTypes", 3}, {"newTypeMap", 2}, {"nilPath", 2},
	{"setFloat", 8}, {"setElem", 8}, {"setElemType", 5}, {"setStep", 5}, {"mapPut", 6}, {"mapPutType", 4}, {"mapDelete", 3}, {"marksAdd", 3},
	{"appendVal", 5}, {"appendStep", 4}, {"elemPath", 5},
	{"numberVal", 5}, {"numberIntVal", 5}, {"stringVal", 4}, {"boolVal", 1}, {"nullVal", 1}, {"unknownVal", 3},
	{"listVal", 5}, {"tupleVal", 5}, {"objectVal", 5}, {"mapVal", 4}, {"setVal", 5}, {"setValFromValueSet", 5},
	{"asBigFloat", 4}, {"asValueSlice", 6}, {"asValueMap", 4}, {"asValueSet", 5}, {"elements", 3}, {"lengthInt", 2}, {"getAttr", 5}, {"index", 5},
	{"marks", 2}, {"unmark", 2}, {"mark", 3}, {"withMarks", 3}, {"withSameMarks", 3},
	{"opAdd", 2}, {"opNegate", 1}, {"opEquals", 2}, {"opLength", 1},
	{"newValueSet", 4}, {"vsAdd", 12}, {"vsRemove", 4}, {"vsHas", 2}, {"vsCopy", 7}, {"vsValues", 3}, {"vsLength", 1},
	{"tupleType", 3}, {"tupleElementTypes", 3}, {"objectType", 2}, {"attributeTypes", 3},
	{"pathIndex", 3}, {"pathGetAttr", 4}, {"pathCopy", 3}, {"newPathSet", 2}, {"psAdd", 5}, {"psAddAllSteps", 3}, {"psHas", 2}, {"psRemove", 3}, {"psList", 5},
	{"walkBegin", 2}, {"walkNext", 8},
}

var c20wTotal = func() int {
	t := 0
	for _, w := range c20weights {
		t += w.w
	}
	return t
}()

func (h *c20H) genOp(r *rand.Rand) *c20Op {
	k := r.Intn(c20wTotal)
	name := ""
	for _, w := range c20weights {
		if k < w.w {
			name = w.name
			break
		}
		k -= w.w
	}
	op := &c20Op{name: name, a: -1, b: -1}
	str := func() string { return c20names[r.Intn(len(c20names))] }
	tysrcs := func(n int) {
		for i := 0; i < n; i++ {
			if len(h.vals) > 0 && r.Intn(3) == 0 {
				op.prim, op.idxs = append(op.prim, ""), append(op.idxs, h.pickVal(r))
			} else {
				op.prim, op.idxs = append(op.prim, []string{"number", "string", "bool"}[r.Intn(3)]), append(op.idxs, 0)
			}
		}
	}
	switch name {
	case "newFloat", "numberIntVal":
		op.n = int64(r.Intn(7))
	case "newSlice":
		n := r.Intn(4)
		if len(h.vals) == 0 {
			n = 0
		}
		// homogeneous slices often, so that ListVal / SetVal apply
		if n > 0 && r.Intn(2) == 0 {
			first := h.pickVal(r)
			for i := 0; i < n; i++ {
				j := h.pickVal(r)
				if !h.vals[j].Type().Equals(h.vals[first].Type()) {
					j = first
				}
				op.idxs = append(op.idxs, j)
			}
		} else {
			for i := 0; i < n; i++ {
				op.idxs = append(op.idxs, h.pickVal(r))
			}
		}
		op.n = int64(n + r.Intn(3))
	case "newMap":
		n := r.Intn(3)
		if len(h.vals) == 0 {
			n = 0
		}
		for i := 0; i < n; i++ {
			op.keys, op.idxs = append(op.keys, c20names[i]), append(op.idxs, h.pickVal(r))
		}
	case "newMarks":
		op.keys = []string{"p", "q"}[:1+r.Intn(2)]
	case "newTypes":
		tysrcs(1 + r.Intn(3))
	case "newTypeMap":
		n := 1 + r.Intn(2)
		tysrcs(n)
		op.keys = c20names[:n]
	case "setFloat":
		op.a, op.n = h.pickGo(r, "float"), int64(7+r.Intn(5))
	case "setElem":
		op.a, op.b, op.n = h.pickGo(r, "slice"), h.pickVal(r), int64(r.Intn(3))
	case "setElemType":
		op.a, op.n = h.pickGo(r, "types"), int64(r.Intn(3))
		op.s = []string{"number", "string", "bool"}[r.Intn(3)]
	case "setStep":
		op.a, op.n, op.s = h.pickGo(r, "path"), int64(r.Intn(4)), "z"+str()
	case "mapPut":
		op.a, op.b, op.s = h.pickGo(r, "map"), h.pickVal(r), str()
	case "mapPutType":
		op.a, op.s = h.pickGo(r, "tymap"), str()
		op.keys = []string{[]string{"number", "string", "bool"}[r.Intn(3)]}
	case "mapDelete":
		op.a, op.s = h.pickGo(r, "map"), str()
	case "marksAdd":
		op.a, op.s = h.pickGo(r, "marks"), []string{"p", "q", "r"}[r.Intn(3)]
	case "appendVal":
		op.a, op.b = h.pickGo(r, "slice"), h.pickVal(r)
	case "appendStep":
		op.a, op.s = h.pickGo(r, "path"), str()
	case "elemPath":
		op.a, op.n = h.pickGo(r, "paths"), int64(r.Intn(3))
		if op.a >= 0 && len(h.gos[op.a].paths) > 0 {
			op.n = int64(r.Intn(len(h.gos[op.a].paths)))
		}
	case "numberVal":
		op.a = h.pickGo(r, "float")
	case "stringVal":
		op.s = str()
	case "boolVal":
		op.n = int64(r.Intn(2))
	case "nullVal":
		op.s = []string{"number", "string"}[r.Intn(2)]
	case "unknownVal":
		op.s = fmt.Sprint(r.Intn(6))
	case "listVal", "tupleVal", "setVal":
		op.a = h.pickGo(r, "slice")
	case "objectVal", "mapVal":
		op.a = h.pickGo(r, "map")
	case "setValFromValueSet", "vsCopy", "vsValues", "vsLength":
		op.a = h.pickGo(r, "vset")
	case "asBigFloat", "asValueSlice", "asValueMap", "asValueSet", "elements", "lengthInt", "marks", "unmark",
		"opNegate", "opLength", "tupleElementTypes", "attributeTypes", "walkBegin":
		op.a = h.pickVal(r)
	case "getAttr":
		op.a, op.s = h.pickVal(r), str()
		// mostly: an object that has attributes, and one of them
		if c := h.valsWhere(func(v cty.Value) bool { return v.Type().IsObjectType() && len(v.Type().AttributeTypes()) > 0 && v.IsKnown() && !v.IsNull() }); len(c) > 0 && r.Intn(4) != 0 {
			op.a = c[r.Intn(len(c))]
			ks := sortedKeys(h.vals[op.a].Type().AttributeTypes())
			op.s = ks[r.Intn(len(ks))]
		}
	case "index":
		op.a, op.n, op.s = h.pickVal(r), int64(r.Intn(3)), str()
		// mostly: a non-empty list / tuple / map and an index it has
		if c := h.valsWhere(func(v cty.Value) bool {
			return c20plain(v) && (v.Type().IsListType() || v.Type().IsTupleType() || v.Type().IsMapType()) && v.LengthInt() > 0
		}); len(c) > 0 && r.Intn(4) != 0 {
			op.a = c[r.Intn(len(c))]
			v := h.vals[op.a]
			op.n = int64(r.Intn(v.LengthInt()))
			if v.Type().IsMapType() {
				ks := sortedKeys(v.AsValueMap())
				op.s = ks[r.Intn(len(ks))]
			}
		}
	case "mark":
		op.a, op.s = h.pickVal(r), []string{"p", "q"}[r.Intn(2)]
	case "withMarks":
		op.a, op.b = h.pickVal(r), h.pickGo(r, "marks")
	case "opAdd", "opEquals", "withSameMarks":
		op.a, op.b = h.pickVal(r), h.pickVal(r)
	case "newValueSet":
		if len(h.vals) > 0 && r.Intn(2) == 0 {
			op.a = h.pickVal(r)
		} else {
			op.s = []string{"number", "string"}[r.Intn(2)]
		}
	case "vsAdd", "vsRemove", "vsHas":
		op.a, op.b = h.pickGo(r, "vset"), h.pickVal(r)
		// look for a value of the set's element type
		if op.a >= 0 && op.b >= 0 {
			ety := h.gos[op.a].set.ElementType()
			for t := 0; t < 6 && !h.vals[op.b].Type().Equals(ety); t++ {
				op.b = r.Intn(len(h.vals))
			}
		}
	case "tupleType":
		op.a = h.pickGo(r, "types")
	case "objectType":
		op.a = h.pickGo(r, "tymap")
	case "pathIndex":
		op.a, op.b = h.pickGo(r, "path"), h.pickVal(r)
	case "pathGetAttr":
		op.a, op.s = h.pickGo(r, "path"), str()
	case "pathCopy":
		op.a = h.pickGo(r, "path")
	case "psAdd", "psHas", "psRemove", "psAddAllSteps":
		op.a, op.b = h.pickGo(r, "pset"), h.pickGo(r, "path")
	case "psList":
		op.a = h.pickGo(r, "pset")
	case "walkNext":
		if len(h.walks) == 0 {
			op.a = -1
		} else {
			op.a = r.Intn(len(h.walks))
		}
	}
	return op
}

func c20random(ctx *Ctx, steps int) {
	r := newC20Run(ctx)
	for tries := 0; len(r.wires) < steps && tries < steps*40 && !r.panics && !r.stop; tries++ {
		op := r.h.genOp(ctx.R)
		if !r.step(op) {
			ctx.Tag("skip:" + op.name) // not applicable in this state (harness-side fragment of the model): nothing was executed
		}
	}
	r.finish()
}

func runC20(ctx *Ctx) {
	c20scenarios(ctx)
	n := ctx.N(1800, 40000)
	for i := 0; i < n; i++ {
		c20random(ctx, 6+ctx.R.Intn(ctx.N(18, 40)))
	}
	c20purity(ctx)
	c20derived(ctx)
	c20conc(ctx)
	c20d1(ctx)
	c20d2(ctx)
	c20race(ctx) // quick: 2 short runs when the -race build is cached; thorough: 15 long runs
}
