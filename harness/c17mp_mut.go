package main

// C17, MessagePack half — the mutation engine: byte-level edits, edits of the length fields of
// array / map / str / bin / ext headers (found by a best-effort scan of the bytes), splices of
// complete items of other encodings, extension-body swaps, and edits of the item tree.

import (
	"encoding/binary"
	"math"
	"math/rand"
)

// mpSpan is one complete item found in a byte string: b[off:end], its header b[off:off+hdr].
type mpSpan struct {
	off, end int
	hdr      int
	kind     string // nil bool int uint f32 f64 str bin arr map ext
	n        uint64 // announced length (members, pairs or bytes)
	code     byte   // ext: the type code
	depth    int
}

// mpScan lists the complete items of b in document order (nested ones included), as far as the
// bytes can be followed; it stops quietly at the first thing that is not an item.
func mpScan(b []byte) []mpSpan {
	var spans []mpSpan
	var rec func(p, depth int) int
	rec = func(p, depth int) int {
		if p >= len(b) || depth > 200 || len(spans) > 4096 {
			return -1
		}
		c := b[p]
		sp := mpSpan{off: p, depth: depth}
		num := func(at, w int) (uint64, bool) {
			if at+w > len(b) {
				return 0, false
			}
			var v uint64
			for k := 0; k < w; k++ {
				v = v<<8 | uint64(b[at+k])
			}
			return v, true
		}
		flat := func(kind string, hdr int, n uint64) int {
			if uint64(p+hdr)+n > uint64(len(b)) {
				return -1
			}
			sp.kind, sp.hdr, sp.n, sp.end = kind, hdr, n, p+hdr+int(n)
			spans = append(spans, sp)
			return sp.end
		}
		seq := func(kind string, hdr int, n uint64) int {
			cnt := n
			if kind == "map" {
				cnt = 2 * n
			}
			if cnt > uint64(len(b)) {
				return -1
			}
			sp.kind, sp.hdr, sp.n = kind, hdr, n
			idx := len(spans)
			spans = append(spans, sp)
			q := p + hdr
			for k := uint64(0); k < cnt; k++ {
				q = rec(q, depth+1)
				if q < 0 {
					spans = spans[:idx] // incomplete: not a span (its complete members were found, drop them too)
					return -1
				}
			}
			spans[idx].end = q
			return q
		}
		switch {
		case c <= 0x7f || c >= 0xe0:
			return flat("int", 1, 0)
		case c >= 0x80 && c <= 0x8f:
			return seq("map", 1, uint64(c&0xf))
		case c >= 0x90 && c <= 0x9f:
			return seq("arr", 1, uint64(c&0xf))
		case c >= 0xa0 && c <= 0xbf:
			return flat("str", 1, uint64(c&0x1f))
		}
		switch c {
		case 0xc0:
			return flat("nil", 1, 0)
		case 0xc2, 0xc3:
			return flat("bool", 1, 0)
		case 0xc4, 0xc5, 0xc6:
			w := 1 << (c - 0xc4)
			if n, ok := num(p+1, w); ok {
				return flat("bin", 1+w, n)
			}
		case 0xc7, 0xc8, 0xc9:
			w := 1 << (c - 0xc7)
			if n, ok := num(p+1, w); ok && p+1+w < len(b) {
				sp.code = b[p+1+w]
				return flat("ext", 2+w, n)
			}
		case 0xca:
			sp.kind = "f32"
			if p+5 <= len(b) {
				return flat("f32", 5, 0)
			}
		case 0xcb:
			if p+9 <= len(b) {
				return flat("f64", 9, 0)
			}
		case 0xcc, 0xcd, 0xce, 0xcf:
			return flat("uint", 1+(1<<(c-0xcc)), 0)
		case 0xd0, 0xd1, 0xd2, 0xd3:
			return flat("int", 1+(1<<(c-0xd0)), 0)
		case 0xd4, 0xd5, 0xd6, 0xd7, 0xd8:
			if p+1 < len(b) {
				sp.code = b[p+1]
				return flat("ext", 2, uint64(1)<<(c-0xd4))
			}
		case 0xd9, 0xda, 0xdb:
			w := 1 << (c - 0xd9)
			if n, ok := num(p+1, w); ok {
				return flat("str", 1+w, n)
			}
		case 0xdc, 0xdd:
			w := 2 << (c - 0xdc)
			if n, ok := num(p+1, w); ok {
				return seq("arr", 1+w, n)
			}
		case 0xde, 0xdf:
			w := 2 << (c - 0xde)
			if n, ok := num(p+1, w); ok {
				return seq("map", 1+w, n)
			}
		}
		return -1
	}
	for p := 0; p >= 0 && p < len(b); {
		p = rec(p, 0)
	}
	return spans
}

// mpHeader writes the header of a str / bin / arr / map / ext item announcing n, in the given
// width (0 = the fix form when there is one and n fits, else the narrowest).
func mpHeader(kind string, n uint64, width int, code byte) []byte {
	put := func(c byte, w int) []byte { return mpPutN([]byte{c}, n, w) }
	narrow := func(ws ...int) int {
		for _, w := range ws {
			if w >= width && n < 1<<(8*uint(w)) {
				return w
			}
		}
		return ws[len(ws)-1]
	}
	switch kind {
	case "arr", "map":
		base, c16, c32 := byte(0x90), byte(0xdc), byte(0xdd)
		if kind == "map" {
			base, c16, c32 = 0x80, 0xde, 0xdf
		}
		if width == 0 && n < 16 {
			return []byte{base | byte(n)}
		}
		if narrow(2, 4) == 2 {
			return put(c16, 2)
		}
		return put(c32, 4)
	case "str":
		if width == 0 && n < 32 {
			return []byte{0xa0 | byte(n)}
		}
		w := narrow(1, 2, 4)
		return put(map[int]byte{1: 0xd9, 2: 0xda, 4: 0xdb}[w], w)
	case "bin":
		w := narrow(1, 2, 4)
		return put(map[int]byte{1: 0xc4, 2: 0xc5, 4: 0xc6}[w], w)
	case "ext":
		if width == 0 {
			if c, ok := map[uint64]byte{1: 0xd4, 2: 0xd5, 4: 0xd6, 8: 0xd7, 16: 0xd8}[n]; ok {
				return []byte{c, code}
			}
		}
		w := narrow(1, 2, 4)
		return append(put(map[int]byte{1: 0xc7, 2: 0xc8, 4: 0xc9}[w], w), code)
	}
	panic("mpHeader: " + kind)
}

func c17mHasLen(kind string) bool {
	return kind == "arr" || kind == "map" || kind == "str" || kind == "bin" || kind == "ext"
}

func c17mHugeLen(r *rand.Rand) uint64 {
	switch r.Intn(4) {
	case 0:
		return math.MaxUint32
	case 1:
		return 1 << 31
	case 2:
		return 1<<31 - 1
	}
	return 1<<31 + uint64(r.Int63n(1<<31))
}

var c17mHostileTypeJSON = []string{`"dynamic"`, `"string"`, `"strin`, `["list"]`, `["list","string","string"]`, `["object",{"a":"string"},["b"]]`, `["object",{"a":"string"},["a"]]`,
	`["object",{"a":"string","a":"number"}]`, `["tuple",null]`, `["tuple",[]]`, `["map",["set",["list","dynamic"]]]`, `["capsule","x"]`, `null`, `{}`, `[]`, `1e999999999`,
	"\"é\"", `["object",{"` + "é" + `":"string","` + "é" + `":"number"}]`, `"number" "string"`, "\xff", `["list",["list",["list",["list",["list",["list","bool"]]]]]]`, ``}

// c17mMutate applies one mutation to b and names it.
func (m *c17m) mutate(b []byte) ([]byte, string) {
	r := m.ctx.R
	out := append([]byte(nil), b...)
	pickSpan := func(pred func(s mpSpan) bool) (mpSpan, bool) {
		var c []mpSpan
		for _, s := range mpScan(out) {
			if pred(s) {
				c = append(c, s)
			}
		}
		if len(c) == 0 {
			return mpSpan{}, false
		}
		return c[r.Intn(len(c))], true
	}
	replace := func(s mpSpan, with []byte) []byte {
		return append(append(append([]byte(nil), out[:s.off]...), with...), out[s.end:]...)
	}
	switch k := r.Intn(20); {
	case k <= 1:
		if len(out) == 0 {
			return []byte{byte(r.Intn(256))}, "insert"
		}
		out[r.Intn(len(out))] ^= 1 << uint(r.Intn(8))
		return out, "bit-flip"
	case k == 2:
		i := r.Intn(len(out) + 1)
		c := byte(r.Intn(256))
		if r.Intn(2) == 0 {
			c = []byte{0xc0, 0xc1, 0x90, 0x91, 0x80, 0x81, 0xdc, 0xdd, 0xde, 0xdf, 0xc4, 0xc7, 0xc9, 0xd4, 0xd9, 0xdb, 0xca, 0xcb, 0xcf, 0xd3, 0xa1, 0xff, 0x00, 0x0c}[r.Intn(24)]
		}
		return append(out[:i], append([]byte{c}, out[i:]...)...), "insert"
	case k == 3:
		if len(out) == 0 {
			return out, "delete"
		}
		i := r.Intn(len(out))
		return append(out[:i], out[i+1:]...), "delete"
	case k == 4:
		if len(out) == 0 {
			return out, "truncate"
		}
		return out[:r.Intn(len(out))], "truncate"
	case k == 5:
		if len(out) == 0 {
			return out, "delete-slice"
		}
		i := r.Intn(len(out))
		j := i + r.Intn(minInt(len(out)-i, 8)+1)
		return append(out[:i], out[j:]...), "delete-slice"
	case k == 6:
		if len(out) == 0 {
			return out, "duplicate-slice"
		}
		i := r.Intn(len(out))
		j := i + r.Intn(minInt(len(out)-i, 16)+1)
		at := r.Intn(len(out) + 1)
		frag := append([]byte(nil), out[i:j]...)
		return append(out[:at], append(frag, out[at:]...)...), "duplicate-slice"
	case k <= 9:
		// length-field edit
		s, ok := pickSpan(func(s mpSpan) bool { return c17mHasLen(s.kind) })
		if !ok {
			return m.mutateTree(out)
		}
		body := out[s.off+s.hdr : s.end]
		switch r.Intn(6) {
		case 0:
			return replace(s, append(mpHeader(s.kind, c17mHugeLen(r), 4, s.code), body...)), "length-huge:" + s.kind
		case 1:
			// the huge header and nothing after it
			return append(append([]byte(nil), out[:s.off]...), mpHeader(s.kind, c17mHugeLen(r), 4, s.code)...), "length-huge-no-body:" + s.kind
		case 2:
			return replace(s, append(mpHeader(s.kind, s.n+1+uint64(r.Intn(3)), 0, s.code), body...)), "length-more:" + s.kind
		case 3:
			n := s.n
			if n > 0 {
				n -= 1 + uint64(r.Intn(int(minInt(int(n), 3))))
			}
			return replace(s, append(mpHeader(s.kind, n, 0, s.code), body...)), "length-less:" + s.kind
		case 4:
			return replace(s, append(mpHeader(s.kind, s.n, []int{1, 2, 4}[r.Intn(3)], s.code), body...)), "length-width:" + s.kind
		default:
			n := []uint64{0, 15, 16, 31, 32, 255, 256, 1023, 1024, 1025, 65535, 65536, 1 << 20}[r.Intn(13)]
			return replace(s, append(mpHeader(s.kind, n, 0, s.code), body...)), "length-other:" + s.kind
		}
	case k <= 11:
		// splice a complete item of another encoding over (or before) an item of this one
		if len(m.pool) == 0 {
			return m.mutateTree(out)
		}
		frag := m.pool[r.Intn(len(m.pool))]
		s, ok := pickSpan(func(mpSpan) bool { return true })
		if !ok {
			return append(out, frag...), "splice-append"
		}
		if r.Intn(3) == 0 {
			return append(append(append([]byte(nil), out[:s.off]...), frag...), out[s.off:]...), "splice-insert"
		}
		return replace(s, frag), "splice-replace"
	case k <= 13:
		// swap in an extension item
		ext := m.extItem()
		s, ok := pickSpan(func(s mpSpan) bool { return s.kind == "ext" })
		if !ok || r.Intn(4) == 0 {
			s, ok = pickSpan(func(s mpSpan) bool { return s.kind != "arr" && s.kind != "map" })
		}
		if !ok {
			return ext, "ext-swap"
		}
		return replace(s, ext), "ext-swap"
	case k == 14:
		// bytes that are not UTF-8 inside a string (value or key)
		s, ok := pickSpan(func(s mpSpan) bool { return s.kind == "str" && s.n > 0 })
		if !ok {
			return m.mutateTree(out)
		}
		out[s.off+s.hdr+r.Intn(int(s.n))] = []byte{0xff, 0xc3, 0xed, 0x80, 0xfe}[r.Intn(5)]
		return out, "invalid-utf8"
	case k == 15:
		// the type JSON of a dynamic wrapper (any bin item)
		s, ok := pickSpan(func(s mpSpan) bool { return s.kind == "bin" })
		if !ok {
			return m.mutateTree(out)
		}
		var body []byte
		if r.Intn(2) == 0 {
			body = []byte(c17mHostileTypeJSON[r.Intn(len(c17mHostileTypeJSON))])
		} else {
			body, _ = c17jMutateBytes(r, out[s.off+s.hdr:s.end])
		}
		return replace(s, append(mpHeader("bin", uint64(len(body)), 0, 0), body...)), "type-json"
	case k == 16:
		// NaN
		s, ok := pickSpan(func(s mpSpan) bool { return s.kind == "f64" || s.kind == "f32" || s.kind == "int" || s.kind == "uint" })
		if !ok {
			return m.mutateTree(out)
		}
		nan := mpPutN([]byte{0xcb}, math.Float64bits(math.NaN())|uint64(r.Intn(2))<<63, 8)
		if r.Intn(2) == 0 {
			nan = mpPutN([]byte{0xca}, uint64(math.Float32bits(float32(math.NaN()))), 4)
		}
		return replace(s, nan), "nan"
	}
	return m.mutateTree(out)
}

// mutateTree: an edit of the item tree (c16Mutate), when the bytes are one item
func (m *c17m) mutateTree(b []byte) ([]byte, string) {
	tree, err := mpReadAll(b)
	if err != nil {
		if len(b) == 0 {
			return []byte{byte(m.ctx.R.Intn(256))}, "insert"
		}
		out := append([]byte(nil), b...)
		out[m.ctx.R.Intn(len(out))] ^= 1 << uint(m.ctx.R.Intn(8))
		return out, "bit-flip"
	}
	return mpWrite(nil, c16Mutate(m.ctx, tree)), "item-tree"
}

// extItem: an extension item of the adversarial families
func (m *c17m) extItem() []byte {
	r := m.ctx.R
	pad := func(body []byte, n int) []byte {
		for len(body) < n {
			body = append(body, 0xc0)
		}
		return body[:n]
	}
	ext := func(code byte, body []byte) []byte {
		return append(mpHeader("ext", uint64(len(body)), []int{0, 0, 1, 2, 4}[r.Intn(5)], code), body...)
	}
	stream := func(count int, items ...*mpItem) []byte {
		var body []byte
		switch {
		case count < 0:
			body = []byte{0xc0}
		case count < 16:
			body = []byte{0x80 | byte(count)}
		case count < 1<<16:
			body = mpPutN([]byte{0xde}, uint64(count), 2)
		default:
			body = mpPutN([]byte{0xdf}, uint64(count), 4)
		}
		for _, it := range items {
			body = mpWrite(body, it)
		}
		return body
	}
	bound := func(n *mpItem, inc bool) *mpItem { return mpArr(n, mpBool(inc)) }
	switch r.Intn(26) {
	case 0:
		// type code 12, bodies of the boundary lengths: a real refinement map padded with nil items
		n := []int{0, 1, 2, 3, 1023, 1024, 1025, 2048, 65536}[r.Intn(9)]
		return ext(12, pad(stream(1, mpInt(1), mpBool(false)), n))
	case 1:
		n := []int{0, 1, 2, 1023, 1024, 1025}[r.Intn(6)]
		return ext(12, pad(stream(0), n))
	case 2:
		n := []int{1023, 1024, 1025}[r.Intn(3)]
		// a string prefix that fills the body
		body := stream(1, mpInt(2))
		body = append(body, mpHeader("str", uint64(n-len(body)-3), 2, 0)...)
		return ext(12, pad(append(body, make([]byte, n)...), n))
	case 3:
		return ext(12, stream(2, mpInt(1), mpBool(false), mpInt(1), mpBool(true)))
	case 4:
		return ext(12, stream(2, mpInt(1), mpBool(true), mpInt(1), mpBool(false)))
	case 5:
		return ext(12, stream(1+r.Intn(2), mpInt(int64(7+r.Intn(200))), c16RandItem(m.ctx, 2), mpInt(1), mpBool(false)))
	case 6:
		return ext(12, stream(2, mpInt(3), bound(mpInt(5), true), mpInt(4), bound(mpInt(int64(r.Intn(7))), r.Intn(2) == 0)))
	case 7:
		return ext(12, stream(2, mpInt(5), mpInt(int64(r.Intn(5))), mpInt(6), mpInt(int64(r.Intn(5)-1))))
	case 8:
		k := int64(1 + r.Intn(3))
		return ext(12, stream(3, mpInt(1), mpBool(false), mpInt(5), mpInt(k), mpInt(6), mpInt(k)))
	case 9:
		return ext(12, stream(1, mpInt(int64(5+r.Intn(2))), []*mpItem{mpInt(-1), mpInt(math.MinInt64), mpUint(math.MaxUint64), mpUint(1 << 63), mpInt(math.MaxInt64), mpF64(1), mpStr("1")}[r.Intn(7)]))
	case 10:
		return ext(12, stream(1, mpInt(2), []*mpItem{mpBin([]byte{0xff}), mpBin([]byte("a")), mpStr(""), mpNil(), mpInt(1), mpStr("é"), mpStr("á")}[r.Intn(7)]))
	case 11:
		return ext(12, stream(1, mpInt(int64(3+r.Intn(2))), []*mpItem{mpArr(), mpArr(mpInt(1)), mpArr(mpInt(1), mpBool(true), mpNil()), mpNil(), bound(mpNil(), true), bound(mpInt(1), false).clone(),
			bound(mpF64(math.NaN()), true), bound(mpF64(math.Inf(1)), true), bound(mpStr("-Inf"), false), bound(mpStr("x"), false), mpArr(mpInt(1), mpNil()), mpArr(mpInt(1), mpInt(1)),
			bound(mpExt(0, -1, nil, nil), true), mpExt(12, 1, []*mpItem{mpInt(1), mpBool(false)}, nil), bound(mpBin([]byte("12")), true)}[r.Intn(15)]))
	case 12:
		// more entries announced than present
		return ext(12, stream([]int{2, 15, 16, 65535, 65536, math.MaxUint32}[r.Intn(6)], mpInt(1), mpBool(false)))
	case 13:
		return ext(12, stream(-1))
	case 14:
		return ext(byte(r.Intn(256)), stream(1, mpInt(1), mpBool(false)))
	case 15:
		return ext(byte([]int{0, 12}[r.Intn(2)]), make([]byte, r.Intn(2)))
	case 16:
		// a non-integer key
		return ext(12, stream(1, c16RandItem(m.ctx, 1), mpBool(false)))
	case 17:
		// crossed bounds in both orders, exclusive bounds meeting
		a, b := int64(r.Intn(4)), int64(r.Intn(4))
		return ext(12, stream(2, mpInt(4), bound(mpInt(a), r.Intn(2) == 0), mpInt(3), bound(mpInt(b), r.Intn(2) == 0)))
	case 18:
		// an extension header where the map header is expected
		return ext(12, append([]byte{0xd4, 0x00, 0x00}, stream(1, mpInt(1), mpBool(false))...))
	case 19:
		// truncated map header
		return ext(12, [][]byte{{0xde, 0x00}, {0xdf, 0x00, 0x00}, {0xde}, {0xdf, 0xff, 0xff, 0xff}}[r.Intn(4)])
	case 20:
		// the body ends inside an entry
		body := stream(2, mpInt(1), mpBool(false), mpInt(2), mpStr("abcdef"))
		return ext(12, body[:2+r.Intn(len(body)-2)])
	}
	if len(m.exts) > 0 && r.Intn(2) == 0 {
		return m.exts[r.Intn(len(m.exts))]
	}
	return mpWrite(nil, c16RandExt(m.ctx))
}

var _ = binary.BigEndian
