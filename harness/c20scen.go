package main

// C20 — scripted aliasing scenarios: for every modelled constructor, mutate each
// Go object passed in afterwards; for every accessor, mutate what it handed
// back; ValueSet copy/add/remove interleavings; paths, path sets and the walk
// buffer.  Each scenario is a short history, so a leak found here is already a
// minimal witness.  (The expectations live in the Lean model and in `classify`,
// not here: a scenario only says what to do.)

import (
	"fmt"
	"unsafe"

	"github.com/zclconf/go-cty/cty"
	"github.com/zclconf/go-cty/cty/set"
)

// c20setMirror has the layout of set.Set[interface{}] (cty/set/set.go).
type c20setMirror struct {
	vals  map[int][]interface{}
	rules set.Rules[interface{}]
}

// c20oldCopy re-enacts Set.Copy as it was before /repo 877dbc3 (`ret.vals[k] = v`:
// the copy's buckets are the receiver's slice headers) on the real types.
func c20oldCopy(s cty.ValueSet) cty.ValueSet {
	src := (*c20setMirror)(unsafe.Pointer(&s))
	dst := c20setMirror{vals: map[int][]interface{}{}, rules: src.rules}
	for k, v := range src.vals {
		dst.vals[k] = v
	}
	return *(*cty.ValueSet)(unsafe.Pointer(&dst))
}

// c20regressionWitness: the predicate "a helper set changes only through its own
// methods" has teeth — with the OLD Copy it fails on the scenario below (and the
// model's C20.valueset_copy_add_old_counterexample is the same history).
func c20regressionWitness(ctx *Ctx) {
	unk := func(i int) cty.Value {
		return cty.UnknownVal(cty.String).Refine().StringPrefixFull(fmt.Sprint("u", i)).NewValue()
	}
	s := cty.NewValueSet(cty.String)
	for i := 0; i < 3; i++ {
		s.Add(unk(i)) // one bucket (all unknowns hash alike), len 3 cap 4
	}
	c1, c2 := c20oldCopy(s), c20oldCopy(s)
	c1.Add(unk(3))
	before := c20vsetFP(c1)
	c2.Add(unk(4))
	after := c20vsetFP(c1)
	ctx.Probe("regression-witness: the old Set.Copy (shared bucket arrays) is caught by the helper-set predicate", before != after,
		"c1 := oldCopy(s); c2 := oldCopy(s); c1.Add(u3); c2.Add(u4) left c1 unchanged: "+before)
	// and the current Copy passes the same history
	n1, n2 := s.Copy(), s.Copy()
	n1.Add(unk(3))
	before = c20vsetFP(n1)
	n2.Add(unk(4))
	ctx.Probe("the current Set.Copy keeps copies independent on the same history", before == c20vsetFP(n1), before+" -> "+c20vsetFP(n1))
}

type c20Scen struct {
	r    *c20Run
	name string
}

func newScen(ctx *Ctx, name string) *c20Scen {
	ctx.Tag("scenario:" + name)
	return &c20Scen{r: newC20Run(ctx), name: name}
}

func (s *c20Scen) do(op *c20Op) {
	if !s.r.step(op) {
		panic(fmt.Sprintf("C20 scenario %s: op %s does not apply (harness bug)", s.name, op.name))
	}
}
func (s *c20Scen) g(op *c20Op) int { s.do(op); return len(s.r.h.gos) - 1 }
func (s *c20Scen) v(op *c20Op) int { s.do(op); return len(s.r.h.vals) - 1 }
func (s *c20Scen) end()            { s.r.finish() }

func (s *c20Scen) num(n int64) int { return s.v(&c20Op{name: "numberIntVal", n: n}) }
func (s *c20Scen) str(x string) int { return s.v(&c20Op{name: "stringVal", s: x}) }
func (s *c20Scen) unk(k int) int   { return s.v(&c20Op{name: "unknownVal", s: fmt.Sprint(k)}) }
func (s *c20Scen) slice(cap int, vs ...int) int {
	return s.g(&c20Op{name: "newSlice", idxs: vs, n: int64(cap)})
}
func (s *c20Scen) gomap(keys []string, vs ...int) int {
	return s.g(&c20Op{name: "newMap", keys: keys, idxs: vs})
}

func c20scenarios(ctx *Ctx) {
	c20regressionWitness(ctx)
	// --- constructors: mutate the argument afterwards
	{
		s := newScen(ctx, "numberVal+setFloat")
		f := s.g(&c20Op{name: "newFloat", n: 3})
		v := s.v(&c20Op{name: "numberVal", a: f})
		s.do(&c20Op{name: "setFloat", a: f, n: 7}) // documented ownership transfer
		s.v(&c20Op{name: "opAdd", a: v, b: v})
		s.end()
	}
	for _, ctor := range []string{"listVal", "tupleVal", "setVal"} {
		s := newScen(ctx, ctor+"+setElem")
		a, b, c := s.num(1), s.num(2), s.num(3)
		g := s.slice(4, a, b)
		var hs []int
		_ = hs
		v := s.v(&c20Op{name: ctor, a: g})
		s.do(&c20Op{name: "setElem", a: g, b: c, n: 0})
		g2 := s.g(&c20Op{name: "appendVal", a: g, b: c})
		s.do(&c20Op{name: "setElem", a: g2, b: c, n: 1})
		s.do(&c20Op{name: "lengthInt", a: v})
		s.end()
	}
	for _, ctor := range []string{"objectVal", "mapVal"} {
		s := newScen(ctx, ctor+"+mapPut")
		a, b := s.num(1), s.num(2)
		g := s.gomap([]string{"a", "b"}, a, b)
		v := s.v(&c20Op{name: ctor, a: g})
		s.do(&c20Op{name: "mapPut", a: g, b: b, s: "a"})
		s.do(&c20Op{name: "mapPut", a: g, b: b, s: "k"})
		s.do(&c20Op{name: "mapDelete", a: g, s: "b"})
		s.do(&c20Op{name: "lengthInt", a: v})
		s.end()
	}
	{
		// a big.Float inside a container: NumberVal is the only door
		s := newScen(ctx, "numberVal-in-list+setFloat")
		f := s.g(&c20Op{name: "newFloat", n: 3})
		v := s.v(&c20Op{name: "numberVal", a: f})
		g := s.slice(0, v, v)
		l := s.v(&c20Op{name: "listVal", a: g})
		s.v(&c20Op{name: "index", a: l, n: 0})
		s.do(&c20Op{name: "setFloat", a: f, n: 9})
		s.end()
	}
	{
		s := newScen(ctx, "withMarks+marksAdd")
		a := s.num(1)
		m := s.g(&c20Op{name: "newMarks", keys: []string{"p"}})
		v := s.v(&c20Op{name: "withMarks", a: a, b: m})
		s.do(&c20Op{name: "marksAdd", a: m, s: "q"})
		m2 := s.g(&c20Op{name: "marks", a: v})
		s.do(&c20Op{name: "marksAdd", a: m2, s: "r"})
		s.do(&c20Op{name: "unmark", a: v})
		m3 := len(s.r.h.gos) - 1
		s.do(&c20Op{name: "marksAdd", a: m3, s: "r"})
		s.v(&c20Op{name: "mark", a: v, s: "q"})
		s.end()
	}
	// --- accessors: mutate what came back
	{
		s := newScen(ctx, "asBigFloat+setFloat")
		a := s.num(5)
		f := s.g(&c20Op{name: "asBigFloat", a: a})
		s.do(&c20Op{name: "setFloat", a: f, n: 8})
		s.end()
	}
	for _, kind := range []string{"listVal", "tupleVal", "setVal"} {
		s := newScen(ctx, kind+".asValueSlice+setElem")
		a, b, c := s.num(1), s.num(2), s.num(3)
		g := s.slice(0, a, b)
		v := s.v(&c20Op{name: kind, a: g})
		out := s.g(&c20Op{name: "asValueSlice", a: v})
		s.do(&c20Op{name: "setElem", a: out, b: c, n: 0})
		out2 := s.g(&c20Op{name: "appendVal", a: out, b: c})
		s.do(&c20Op{name: "setElem", a: out2, b: c, n: 1})
		s.do(&c20Op{name: "elements", a: v})
		s.end()
	}
	for _, kind := range []string{"objectVal", "mapVal"} {
		s := newScen(ctx, kind+".asValueMap+mapPut")
		a, b := s.num(1), s.num(2)
		g := s.gomap([]string{"a", "b"}, a, b)
		v := s.v(&c20Op{name: kind, a: g})
		out := s.g(&c20Op{name: "asValueMap", a: v})
		s.do(&c20Op{name: "mapPut", a: out, b: b, s: "a"})
		s.do(&c20Op{name: "mapDelete", a: out, s: "b"})
		if kind == "objectVal" {
			s.v(&c20Op{name: "getAttr", a: v, s: "a"})
		} else {
			s.v(&c20Op{name: "index", a: v, s: "a"})
		}
		s.end()
	}
	{
		s := newScen(ctx, "asValueSet+vsAdd")
		a, b, c := s.num(1), s.num(2), s.num(3)
		g := s.slice(0, a, b)
		v := s.v(&c20Op{name: "setVal", a: g})
		vs := s.g(&c20Op{name: "asValueSet", a: v})
		s.do(&c20Op{name: "vsAdd", a: vs, b: c})
		s.do(&c20Op{name: "vsRemove", a: vs, b: a})
		v2 := s.v(&c20Op{name: "setValFromValueSet", a: vs})
		s.do(&c20Op{name: "vsAdd", a: vs, b: a})
		s.do(&c20Op{name: "vsRemove", a: vs, b: c})
		s.do(&c20Op{name: "lengthInt", a: v2})
		s.end()
	}
	// --- ValueSet copies sharing one bucket (unknown members all hash alike):
	//     the regression witness of /repo 877dbc3
	for n := 0; n <= 4; n++ {
		s := newScen(ctx, fmt.Sprintf("vsCopy-twice+add-each(%d members)", n))
		us := []int{}
		for i := 0; i < 6; i++ {
			us = append(us, s.unk(i))
		}
		vs := s.g(&c20Op{name: "newValueSet", s: "string"})
		for i := 0; i < n; i++ {
			s.do(&c20Op{name: "vsAdd", a: vs, b: us[i]})
		}
		c1 := s.g(&c20Op{name: "vsCopy", a: vs})
		c2 := s.g(&c20Op{name: "vsCopy", a: vs})
		s.do(&c20Op{name: "vsAdd", a: c1, b: us[4]})
		s.do(&c20Op{name: "vsAdd", a: c2, b: us[5]})
		s.do(&c20Op{name: "vsAdd", a: vs, b: us[4]})
		v := s.v(&c20Op{name: "setValFromValueSet", a: vs})
		s.do(&c20Op{name: "vsAdd", a: vs, b: us[5]})
		s.do(&c20Op{name: "vsValues", a: c1})
		s.do(&c20Op{name: "lengthInt", a: v})
		s.end()
	}
	// --- types
	{
		s := newScen(ctx, "tupleType+setElemType")
		t := s.g(&c20Op{name: "newTypes", prim: []string{"string", "number"}, idxs: []int{0, 0}})
		v := s.v(&c20Op{name: "tupleType", a: t})
		s.do(&c20Op{name: "setElemType", a: t, n: 0, s: "bool"}) // documented ownership transfer
		t2 := s.g(&c20Op{name: "tupleElementTypes", a: v})
		s.do(&c20Op{name: "setElemType", a: t2, n: 1, s: "bool"}) // documented read-only
		s.end()
	}
	{
		s := newScen(ctx, "tupleVal.tupleElementTypes+setElemType")
		a, b := s.num(1), s.str("x")
		g := s.slice(0, a, b)
		v := s.v(&c20Op{name: "tupleVal", a: g})
		t := s.g(&c20Op{name: "tupleElementTypes", a: v})
		s.do(&c20Op{name: "setElemType", a: t, n: 0, s: "bool"})
		s.end()
	}
	{
		s := newScen(ctx, "objectType+mapPutType")
		t := s.g(&c20Op{name: "newTypeMap", prim: []string{"string", "number"}, idxs: []int{0, 0}, keys: []string{"a", "b"}})
		v := s.v(&c20Op{name: "objectType", a: t})
		s.do(&c20Op{name: "mapPutType", a: t, s: "a", keys: []string{"bool"}}) // Object copies
		t2 := s.g(&c20Op{name: "attributeTypes", a: v})
		s.do(&c20Op{name: "mapPutType", a: t2, s: "b", keys: []string{"bool"}}) // documented read-only
		s.end()
	}
	{
		s := newScen(ctx, "objectVal.attributeTypes+mapPutType")
		a := s.num(1)
		g := s.gomap([]string{"a"}, a)
		v := s.v(&c20Op{name: "objectVal", a: g})
		t := s.g(&c20Op{name: "attributeTypes", a: v})
		s.do(&c20Op{name: "mapPutType", a: t, s: "a", keys: []string{"bool"}})
		s.end()
	}
	// --- paths and path sets
	{
		s := newScen(ctx, "psAdd+setStep")
		p0 := s.g(&c20Op{name: "nilPath"})
		p1 := s.g(&c20Op{name: "pathGetAttr", a: p0, s: "a"})
		one := s.num(1)
		p2 := s.g(&c20Op{name: "pathIndex", a: p1, b: one})
		ps := s.g(&c20Op{name: "newPathSet"})
		s.do(&c20Op{name: "psAdd", a: ps, b: p2})
		s.do(&c20Op{name: "psHas", a: ps, b: p2})
		s.do(&c20Op{name: "setStep", a: p2, n: 0, s: "zz"}) // documented: must not mutate a member
		s.do(&c20Op{name: "psHas", a: ps, b: p2})
		s.end()
	}
	{
		s := newScen(ctx, "psAdd(copy)+setStep")
		p0 := s.g(&c20Op{name: "nilPath"})
		p1 := s.g(&c20Op{name: "pathGetAttr", a: p0, s: "a"})
		pc := s.g(&c20Op{name: "pathCopy", a: p1})
		ps := s.g(&c20Op{name: "newPathSet"})
		s.do(&c20Op{name: "psAdd", a: ps, b: pc})
		s.do(&c20Op{name: "setStep", a: p1, n: 0, s: "zz"})
		s.end()
	}
	{
		s := newScen(ctx, "psList+setStep")
		p0 := s.g(&c20Op{name: "nilPath"})
		p1 := s.g(&c20Op{name: "pathGetAttr", a: p0, s: "a"})
		pc := s.g(&c20Op{name: "pathCopy", a: p1})
		ps := s.g(&c20Op{name: "newPathSet"})
		s.do(&c20Op{name: "psAdd", a: ps, b: pc})
		l := s.g(&c20Op{name: "psList", a: ps})
		m := s.g(&c20Op{name: "elemPath", a: l, n: 0})
		s.do(&c20Op{name: "setStep", a: m, n: 0, s: "zz"}) // Paths are immutable by convention
		s.end()
	}
	{
		s := newScen(ctx, "path.append-in-place")
		p0 := s.g(&c20Op{name: "nilPath"})
		p1 := s.g(&c20Op{name: "appendStep", a: p0, s: "a"})
		p2 := s.g(&c20Op{name: "appendStep", a: p1, s: "b"})
		p3 := s.g(&c20Op{name: "appendStep", a: p2, s: "k"}) // len 3 cap 4
		s.g(&c20Op{name: "appendStep", a: p3, s: "a"})       // in place
		s.g(&c20Op{name: "appendStep", a: p3, s: "b"})       // in place again: overwrites the sibling
		s.g(&c20Op{name: "pathGetAttr", a: p3, s: "k"})      // the API helper always copies
		s.end()
	}
	// --- the walk path buffer: siblings at depth 4 share one backing array
	for _, retain := range []string{"retain", "copy"} {
		s := newScen(ctx, "walk-depth4+"+retain)
		x, y := s.str("x"), s.str("y")
		l := s.v(&c20Op{name: "listVal", a: s.slice(0, x, y)})
		for d := 0; d < 3; d++ {
			l = s.v(&c20Op{name: "listVal", a: s.slice(0, l)})
		}
		ps := s.g(&c20Op{name: "newPathSet"})
		s.do(&c20Op{name: "walkBegin", a: l})
		for i := 0; i < 7; i++ {
			before := len(s.r.h.gos)
			s.do(&c20Op{name: "walkNext", a: 0})
			if len(s.r.h.gos) > before {
				p := len(s.r.h.gos) - 1
				if retain == "copy" {
					p = s.g(&c20Op{name: "pathCopy", a: p})
				}
				if c20pathPlain(s.r.h.gos[p].path) {
					s.do(&c20Op{name: "psAdd", a: ps, b: p})
				}
			}
		}
		s.g(&c20Op{name: "psList", a: ps})
		s.end()
	}
}
