package main

// C09 — unification (cty/convert/unify.go, sort_types.go, compare_types.go, public.go).
//
// Every case is a list of 1..4 types.  The REAL convert.Unify / UnifyUnsafe run
// under recover(); the unified type and WHICH returned conversions are nil are
// compared with the full Lean model (`un.unify`), the type alone with the instance
// of `Env.unify` the model's conversions consult (`un.ty`).  Then every returned
// conversion is APPLIED to generated values of its input type (known, null,
// unknown, marked, nested) and the clauses of the property are judged on the real
// outputs — the outcome has the unified type, nothing panics, a conversion handed
// out by safe unification of placeholder-free types does not fail on a known value —
// and each outcome is compared with the model's plan applied by C08's `apply`
// (`un.apply`).  The Lean predicates the theorems are about are evaluated on the real
// outputs too (`un.judge`, `un.yields`).  sortTypes / compareTypes are unexported; the
// model's versions are tied through the results of the preference loop they steer.

import (
	"fmt"
	"math/rand"
	"os"
	"strings"

	"github.com/zclconf/go-cty/cty"
	"github.com/zclconf/go-cty/cty/convert"
)

func init() {
	register("C09", "lists of 1..4 types: every list of <=3 types of size<=2 over {bool number string placeholder emptytuple emptyobject; list set map tuple1 object{a}} is enumerated, each returned conversion applied to "+
		"known / null / unknown / marked values of its input type; random lists of 1..4 types to depth 3 (thorough 4) built from one base type by kind changes, element conversions, attribute changes and inserted placeholders, "+
		"every permutation of sampled multisets, map-before-object and object-before-map orders, mixed-kind lists whose preferred candidate is rejected by a late input; values known, null, refined unknown, marked, nested. "+
		"placeholder-free structural lists (objects / tuples / collections sharing one skeleton, depth 1..3, a list among tuples / a map among objects) whose unified type is checked to be placeholder-free (d09b). "+
		"non-trivial = a returned non-nil conversion applied to a value, or the unified type of a placeholder-free list inspected; distinct = distinct wire strings of (mode, type list, slot, value)", runC09)
}

type c09Res struct {
	ty       cty.Type
	convs    []convert.Conversion
	panicked bool
	why      string
}

func c09Unify(tys []cty.Type, uns bool) (res c09Res) {
	// Unify gets its own copy of the slice: the clauses are judged against the types that were
	// asked about, and a call that modifies its argument cannot leak into the next call (d09:
	// the seeded in-place swap of unifyTuplesAsList did, and hid its own nil_iff_equal failures).
	given := append([]cty.Type(nil), tys...)
	p, why := try(func() {
		if uns {
			res.ty, res.convs = convert.UnifyUnsafe(given)
		} else {
			res.ty, res.convs = convert.Unify(given)
		}
	})
	if p {
		res = c09Res{panicked: true, why: why}
	}
	return
}

func (r c09Res) ok() bool { return !r.panicked && r.ty != cty.NilType }

func (r c09Res) wire() string {
	switch {
	case r.panicked:
		return "panic"
	case r.ty == cty.NilType:
		return "NIL"
	}
	fl := make([]string, len(r.convs))
	for i, c := range r.convs {
		if c == nil {
			fl[i] = "n"
		} else {
			fl[i] = "c"
		}
	}
	return encTy(r.ty) + " (" + strings.Join(fl, " ") + ")"
}

func c09TysWire(tys []cty.Type) string {
	ws := make([]string, len(tys))
	for i, t := range tys {
		ws[i] = encTy(t)
	}
	return "(" + strings.Join(ws, " ") + ")"
}

func c09GoLit(tys []cty.Type, uns bool) string {
	f := "convert.Unify"
	if uns {
		f = "convert.UnifyUnsafe"
	}
	s := ""
	try(func() { s = fmt.Sprintf("%s(%#v)", f, tys) })
	return s
}

func c09Plain(t cty.Type) bool { return !t.HasDynamicTypes() }

func c09AllPlain(tys []cty.Type) bool {
	for _, t := range tys {
		if !c09Plain(t) {
			return false
		}
	}
	return true
}

func c09Kinds(tys []cty.Type) string {
	ks := make([]string, len(tys))
	for i, t := range tys {
		ks[i] = kindTag(t)
	}
	return strings.Join(ks, ",")
}

type c09Run struct {
	ctx *Ctx
	// pinned witness values: values() hands each of them to every conversion whose input
	// type it has (section 0: the witnesses of repaired defects)
	pinned []cty.Value
}

func (c *c09Run) fail(site, sig, what string, tys []cty.Type, uns bool, extraIn, extraLit, outcome string) {
	in := encBool(uns) + " " + c09TysWire(tys)
	if extraIn != "" {
		in += " " + extraIn
	}
	lit := c09GoLit(tys, uns)
	if extraLit != "" {
		lit += "; " + extraLit
	}
	c.ctx.Fail(Failure{Site: site, Sig: sig, What: what, Input: in, GoLit: lit, Outcome: outcome})
}

// c09Mid: the list / map type the tuples / objects of the list unify to on their own
// (what unifyTuplesAsList / unifyObjectsAsMaps compose through), or NilType.
func c09Mid(tys []cty.Type, uns bool, tuples bool) cty.Type {
	var sub []cty.Type
	for _, t := range tys {
		if (tuples && t.IsTupleType()) || (!tuples && t.IsObjectType()) {
			sub = append(sub, t)
		}
	}
	if len(sub) == 0 {
		return cty.NilType
	}
	// the tuples / objects alone unify to a tuple / object type where they can; the
	// composed path asks for their common list / map type instead
	var etys []cty.Type
	for _, t := range sub {
		if tuples {
			etys = append(etys, t.TupleElementTypes()...)
		} else {
			atys := t.AttributeTypes()
			for _, k := range sortedKeys(atys) {
				etys = append(etys, atys[k])
			}
		}
	}
	if len(etys) == 0 {
		return cty.NilType
	}
	e := c09Unify(etys, uns)
	if !e.ok() {
		return cty.NilType
	}
	if tuples {
		return cty.List(e.ty)
	}
	return cty.Map(e.ty)
}

// c09Composed: slot i of this unification went through the closure composed by
// unifyTuplesAsList / unifyObjectsAsMaps (a tuple among lists → list, an object among
// maps → map, and the intermediate type differs from the result).
func c09Composed(tys []cty.Type, i int, res cty.Type, uns bool) (mid cty.Type, ok bool) {
	t := tys[i]
	switch {
	case t.IsTupleType() && res.IsListType():
		hasList := false
		for _, o := range tys {
			if o.IsListType() {
				hasList = true
			}
		}
		if !hasList {
			return cty.NilType, false
		}
		mid = c09Mid(tys, uns, true)
	case t.IsObjectType() && res.IsMapType():
		hasMap := false
		for _, o := range tys {
			if o.IsMapType() {
				hasMap = true
			}
		}
		if !hasMap {
			return cty.NilType, false
		}
		mid = c09Mid(tys, uns, false)
	default:
		return cty.NilType, false
	}
	if mid == cty.NilType || mid.Equals(res) {
		return mid, false
	}
	return mid, true
}

// c09Two(…, original=false): the composition the comments of unify.go describe and,
// since /repo df9d7d3, the closure performs — the second conversion applied to the OUTPUT
// of the first.  original=true: what the closure did before that repair — the second
// conversion applied to the ORIGINAL value.
func c09Two(in, mid, res cty.Type, uns bool, v cty.Value, original bool) c08Out {
	return c08Call(func() (cty.Value, error) {
		get := convert.GetConversion
		if uns {
			get = convert.GetConversionUnsafe
		}
		first, second := get(in, mid), get(mid, res)
		if first == nil || second == nil {
			return cty.NilVal, fmt.Errorf("no such conversion")
		}
		m, err := first(v)
		if err != nil {
			return m, err
		}
		if original {
			return second(v)
		}
		return second(m)
	})
}

// c09RootComposed: the outcome `out` of a composed slot is exactly what "second
// conversion applied to the original value" gives, and the proper composition gives a
// value of the unified type — the root cause of the defect repaired by /repo df9d7d3,
// nothing else.  The finding is recorded as `fixed` (it suppresses nothing): a failure
// that gets this signature again is a regression of that repair.
func c09RootComposed(in, mid, res cty.Type, uns bool, v cty.Value, out c08Out) bool {
	pr := c09Two(in, mid, res, uns, v, false)
	aw := c09Two(in, mid, res, uns, v, true)
	if out.kind == "panic" {
		// the second conversion met a value of a type it was not built for
		return aw.kind == "panic" && pr.kind != "panic"
	}
	if pr.kind != "ok" || len(pr.v.Type().TestConformance(res)) != 0 {
		return false
	}
	if aw.kind != out.kind {
		return false
	}
	return out.kind != "ok" || c08Same(aw.v, out.v)
}

// values of an input type: known, null, unknown, marked, nested
func (c *c09Run) values(t cty.Type, n int) []cty.Value {
	r := c.ctx.R
	st := t.WithoutOptionalAttributesDeep()
	var vs []cty.Value
	for _, pv := range c.pinned {
		if pv.Type().Equals(t) {
			vs = append(vs, pv)
		}
	}
	vs = append(vs, c08Val(r, t, 2, c08VOpts{}))
	if n >= 2 {
		vs = append(vs, c08Val(r, t, 3, c08VOpts{unknown: true, null: true, marks: true, dynVal: true}))
	}
	if n >= 3 && !st.HasDynamicTypes() {
		vs = append(vs, cty.NullVal(st), cty.UnknownVal(st))
	} else if n >= 3 {
		ct := concretize(r, st)
		vs = append(vs, cty.NullVal(ct), cty.UnknownVal(ct))
	}
	if n >= 4 {
		vs = append(vs, c08Val(r, t, 2, c08VOpts{null: true}).Mark("m1"), c08Val(r, t, 3, c08VOpts{width: 2}))
	}
	if n >= 5 {
		vs = append(vs, genUnknown(r, concretize(r, st)).Mark("m2"), c08Val(r, t, 3, c08VOpts{unknown: true, null: true, marks: true}))
	}
	return vs
}

func c09WhollyKnown(v cty.Value) bool {
	u, _ := v.UnmarkDeep()
	return u.IsWhollyKnown()
}

// one type list, both modes
func (c *c09Run) list(tys []cty.Type, nvals int) {
	ctx := c.ctx
	arg := c09TysWire(tys)
	plain := c09AllPlain(tys)
	var both [2]c09Res
	for mi, uns := range []bool{false, true} {
		res := c09Unify(tys, uns)
		both[mi] = res
		ub := encBool(uns)
		ctx.Add("un.unify", res.wire(), ub, arg)
		if res.panicked {
			c.fail("no_panic", c08PanicSig(res.why), "unify panics", tys, uns, "", "", "panic: "+res.why)
			continue
		}
		ctx.Add("un.ty", encTy(res.ty), ub, arg)
		ctx.Tag("unify:" + map[bool]string{true: "ok", false: "nil"}[res.ok()])
		// the result does not depend on Go's map iteration order (attribute types are
		// collected by ranging over Go maps)
		if strings.Contains(arg, "(O") {
			for k := 0; k < 2; k++ {
				again := c09Unify(tys, uns)
				if again.wire() != res.wire() {
					c.fail("deterministic", "result-depends-on-map-order", "two calls with the same type list give different results", tys, uns, "", "", res.wire()+" vs "+again.wire())
				}
			}
		}
		if !res.ok() {
			if res.convs != nil {
				c.fail("single_result", "nil-type-with-conversions", "NilType returned together with a non-nil slice", tys, uns, "", "", res.wire())
			}
			continue
		}
		ty := res.ty
		// d09b (C09.unified_plain / unified_type_plain_std): placeholder-free inputs unify to a
		// placeholder-free type — the side condition the applied-conversion theorems no longer carry
		if plain {
			ctx.Eval("unified_plain "+ub+" "+arg, true)
			ctx.Tag("d09b:plain-inputs:result-" + kindTag(ty))
			if ty.HasDynamicTypes() {
				c.fail("unified_plain", "placeholder-in-result:"+kindTag(ty), "placeholder-free types unify to a type with a placeholder", tys, uns, "", "", res.wire())
			}
		}
		// ---- clauses about the returned slice
		var fails []string
		if len(res.convs) != len(tys) {
			fails = append(fails, "slots")
			c.fail("convs_length", "slots", "the returned slice does not have one slot per input", tys, uns, "", "", res.wire())
			continue
		}
		flags := make([]string, len(tys))
		nie := true
		for i, t := range tys {
			flags[i] = encBool(res.convs[i] == nil)
			if t != cty.DynamicPseudoType && (res.convs[i] == nil) != t.Equals(ty) {
				nie = false
				sig := "nil-but-differs"
				if res.convs[i] != nil {
					sig = "conversion-for-equal-type"
				}
				c.fail("nil_iff_equal", sig+":"+kindTag(t)+">"+kindTag(ty), "a conversion is absent although the input type differs from the result, or present although it equals it", tys, uns, fmt.Sprint(i), "", res.wire())
			}
		}
		if !nie {
			fails = append(fails, "nil-iff-equal")
		}
		js := "pass"
		if len(fails) > 0 {
			js = "fail " + strings.Join(fails, " ")
		}
		ctx.Add("un.judge", js, ub, arg, encTy(ty), "("+strings.Join(flags, " ")+")")
		// unify_equal_types
		allEq := true
		for _, t := range tys {
			if !t.Equals(tys[0]) {
				allEq = false
			}
		}
		if allEq {
			ctx.Tag("equal-types")
			bad := !ty.Equals(tys[0])
			for _, cv := range res.convs {
				if cv != nil {
					bad = true
				}
			}
			if bad {
				c.fail("unify_equal_types", kindTag(tys[0]), "identical types do not unify to that type without conversions", tys, uns, "", "", res.wire())
			}
		}
		ctx.Tag("result:" + kindTag(ty))
		// ---- every returned conversion applied
		for i, cv := range res.convs {
			if cv == nil {
				continue
			}
			in := tys[i]
			mid, composed := c09Composed(tys, i, ty, uns)
			if composed {
				ctx.Tag("slot:composed")
			}
			// safe_never_unsafe, on the real code: a slot that is not a composed closure and
			// not the constant of unifyAllAsDynamic behaves as GetConversion(in, result)
			var direct convert.Conversion
			if !uns && ty != cty.DynamicPseudoType {
				if p, _ := try(func() { direct = convert.GetConversion(in, ty) }); p {
					direct = nil
				}
				if direct == nil && !composed {
					c.fail("safe_never_unsafe", "no-safe-conversion:"+kindTag(in)+">"+kindTag(ty), "safe unification returned a conversion for a slot where GetConversion(input, result) offers none", tys, uns, fmt.Sprint(i), "", res.wire())
				}
			}
			for _, v := range c.values(in, nvals) {
				out := c08Call(func() (cty.Value, error) { return cv(v) })
				vw := encVal(v)
				ctx.Add("un.apply", out.wire(), ub, arg, fmt.Sprint(i), vw)
				ctx.Eval(ub+" "+arg+" "+fmt.Sprint(i)+" "+vw, true)
				ctx.Tag("apply:" + out.kind)
				vlit := ""
				try(func() { vlit = fmt.Sprintf("_, convs := …; convs[%d](%#v)", i, v) })
				switch out.kind {
				case "panic":
					sig := c08PanicSig(out.why)
					if composed && c09RootComposed(in, mid, ty, uns, v, out) {
						sig = "composed-second-conversion-gets-original-value"
					}
					c.fail("no_panic", sig, "a conversion returned by unify panics", tys, uns, fmt.Sprint(i)+" "+vw, vlit, c08Outcome(out))
				case "ok":
					conf := len(out.v.Type().TestConformance(ty)) == 0 && !c08HasOpt(out.v.Type())
					if !ty.HasDynamicTypes() && !out.v.Type().Equals(ty) {
						conf = false
					}
					ctx.Add("un.yields", encBool(conf), encTy(ty), encVal(out.v))
					if !conf {
						sig := "type:" + c08Mismatch(ty, out.v.Type(), "")
						if composed && c09RootComposed(in, mid, ty, uns, v, out) {
							sig = "composed-second-conversion-gets-original-value"
						}
						c.fail("convs_yield_unified", sig, "a returned conversion yields a value whose type is not the unified type", tys, uns, fmt.Sprint(i)+" "+vw, vlit, c08Outcome(out))
					}
					if direct != nil && !composed {
						d := c08Call(func() (cty.Value, error) { return direct(v) })
						if d.kind != "ok" || !c08Same(d.v, out.v) {
							c.fail("safe_never_unsafe", "differs-from-GetConversion:"+kindTag(in)+">"+kindTag(ty), "a conversion returned by safe unification behaves differently from GetConversion(input, result)", tys, uns, fmt.Sprint(i)+" "+vw, vlit, c08Outcome(out)+" vs "+c08Outcome(d))
						}
					}
				case "err":
					// safe_convs_total
					if !uns && plain && c09WhollyKnown(v) {
						sig := "safe-fails:" + kindTag(in) + ">" + kindTag(ty)
						if composed && c09RootComposed(in, mid, ty, uns, v, out) {
							sig = "composed-second-conversion-gets-original-value"
						}
						c.fail("safe_convs_total", sig, "a conversion returned by safe unification of placeholder-free types fails on a known value of its input type", tys, uns, fmt.Sprint(i)+" "+vw, vlit, c08Outcome(out))
					}
				}
			}
		}
	}
	// unsafe_of_safe
	if both[0].ok() && !both[1].panicked && !both[1].ok() {
		if plain {
			c.fail("unsafe_of_safe", "safe-without-unsafe:"+c09Kinds(tys), "safe unification of placeholder-free types succeeds but unsafe unification fails", tys, true, "", "", "Unify = "+both[0].wire()+", UnifyUnsafe = NIL")
		} else {
			ctx.Tag("unsafe-fails-where-safe-succeeds:with-placeholders")
		}
	}
}

// ---- generators ------------------------------------------------------------------

// the small alphabet of the exhaustive scope
func c09Alphabet(big bool) []cty.Type {
	leaves := []cty.Type{cty.Bool, cty.Number, cty.String, cty.DynamicPseudoType, cty.EmptyTuple, cty.EmptyObject}
	out := append([]cty.Type{}, leaves...)
	for _, e := range leaves {
		out = append(out, cty.List(e), cty.Set(e), cty.Map(e), cty.Tuple([]cty.Type{e}), cty.Object(map[string]cty.Type{"a": e}))
		if big {
			out = append(out, cty.Object(map[string]cty.Type{"b": e}))
		}
	}
	if big {
		out = append(out, capsuleTypes[0])
	}
	return out
}

func c09Perms(tys []cty.Type) [][]cty.Type {
	if len(tys) <= 1 {
		return [][]cty.Type{append([]cty.Type{}, tys...)}
	}
	var out [][]cty.Type
	for i := range tys {
		rest := append(append([]cty.Type{}, tys[:i]...), tys[i+1:]...)
		for _, p := range c09Perms(rest) {
			out = append(out, append([]cty.Type{tys[i]}, p...))
		}
	}
	return out
}

// c09Related derives a type list from one base type
func c09Related(r *rand.Rand, depth int) []cty.Type {
	n := 1 + r.Intn(4)
	tys := make([]cty.Type, n)
	dyn := r.Intn(3) == 0
	base := genTy(r, depth-1, TyOpts{Dyn: dyn})
	for j := range tys {
		switch r.Intn(6) {
		case 0:
			tys[j] = base
		case 1:
			tys[j] = mutateTy(r, base, TyOpts{Dyn: dyn})
		case 2, 3:
			tys[j] = c08Derive(r, base, depth).WithoutOptionalAttributesDeep()
			if !dyn {
				tys[j] = c09NoDyn(r, tys[j])
			}
		case 4:
			tys[j] = c09KindChange(r, base)
		default:
			tys[j] = genTy(r, depth-1, TyOpts{Dyn: dyn})
		}
	}
	return tys
}

// replace every placeholder by a primitive
func c09NoDyn(r *rand.Rand, t cty.Type) cty.Type {
	switch {
	case t == cty.DynamicPseudoType:
		return []cty.Type{cty.String, cty.Number, cty.Bool}[r.Intn(3)]
	case t.IsListType():
		return cty.List(c09NoDyn(r, t.ElementType()))
	case t.IsSetType():
		return cty.Set(c09NoDyn(r, t.ElementType()))
	case t.IsMapType():
		return cty.Map(c09NoDyn(r, t.ElementType()))
	case t.IsTupleType():
		es := t.TupleElementTypes()
		n := make([]cty.Type, len(es))
		for i := range es {
			n[i] = c09NoDyn(r, es[i])
		}
		return cty.Tuple(n)
	case t.IsObjectType():
		atys := map[string]cty.Type{}
		src := t.AttributeTypes()
		for _, k := range sortedKeys(src) {
			atys[k] = c09NoDyn(r, src[k])
		}
		return cty.Object(atys)
	}
	return t
}

// list <-> set <-> tuple, map <-> object, at the top or one level down
func c09KindChange(r *rand.Rand, t cty.Type) cty.Type {
	prim := func() cty.Type { return []cty.Type{cty.String, cty.Number, cty.Bool}[r.Intn(3)] }
	switch {
	case t.IsListType() || t.IsSetType():
		e := t.ElementType()
		if r.Intn(3) == 0 {
			e = c09KindChange(r, e)
		}
		switch r.Intn(4) {
		case 0:
			return cty.List(e)
		case 1:
			return cty.Set(e)
		case 2:
			return cty.Tuple([]cty.Type{e, e}[:1+r.Intn(2)])
		default:
			return cty.Tuple([]cty.Type{e, prim()})
		}
	case t.IsTupleType():
		es := t.TupleElementTypes()
		if len(es) == 0 {
			return cty.List(prim())
		}
		e := es[r.Intn(len(es))]
		if r.Intn(2) == 0 {
			return cty.List(e)
		}
		return cty.Set(e)
	case t.IsMapType():
		e := t.ElementType()
		if r.Intn(3) == 0 {
			e = c09KindChange(r, e)
		}
		atys := map[string]cty.Type{}
		for _, k := range []string{"a", "b", "k"}[:1+r.Intn(3)] {
			if r.Intn(3) == 0 {
				atys[k] = prim()
			} else {
				atys[k] = e
			}
		}
		return cty.Object(atys)
	case t.IsObjectType():
		atys := t.AttributeTypes()
		ks := sortedKeys(atys)
		if len(ks) == 0 {
			return cty.Map(prim())
		}
		return cty.Map(atys[ks[r.Intn(len(ks))]])
	case t.IsPrimitiveType():
		return prim()
	}
	return t
}

// mixed-kind lists that take the general path and reject the preferred candidate late
func c09LateReject(r *rand.Rand) []cty.Type {
	prim := func() cty.Type { return []cty.Type{cty.String, cty.Number, cty.Bool}[r.Intn(3)] }
	coll := func(e cty.Type) cty.Type {
		switch r.Intn(3) {
		case 0:
			return cty.List(e)
		case 1:
			return cty.Set(e)
		default:
			return cty.Tuple([]cty.Type{e})
		}
	}
	n := 3 + r.Intn(2)
	tys := make([]cty.Type, n)
	switch r.Intn(4) {
	case 0: // sets and lists of primitives
		for i := range tys {
			if r.Intn(2) == 0 {
				tys[i] = cty.Set(prim())
			} else {
				tys[i] = cty.List(prim())
			}
		}
	case 1: // primitives and a placeholder
		for i := range tys {
			tys[i] = prim()
		}
		if r.Intn(2) == 0 {
			tys[r.Intn(n)] = cty.DynamicPseudoType
		}
	case 2: // sets, lists, tuples
		for i := range tys {
			tys[i] = coll(prim())
		}
	default: // nested
		for i := range tys {
			tys[i] = coll(coll(prim()))
		}
	}
	return tys
}

// maps and objects in both orders
func c09MapObject(r *rand.Rand) []cty.Type {
	prim := func() cty.Type { return []cty.Type{cty.String, cty.Number, cty.Bool, cty.String}[r.Intn(4)] }
	elem := func() cty.Type {
		if r.Intn(4) == 0 {
			return cty.List(prim())
		}
		return prim()
	}
	obj := func() cty.Type {
		atys := map[string]cty.Type{}
		for _, k := range []string{"a", "b", "k"}[:1+r.Intn(3)] {
			atys[k] = elem()
		}
		return cty.Object(atys)
	}
	n := 2 + r.Intn(3)
	tys := make([]cty.Type, n)
	for i := range tys {
		if r.Intn(2) == 0 {
			tys[i] = cty.Map(elem())
		} else {
			tys[i] = obj()
		}
	}
	tys[r.Intn(n)] = cty.Map(elem())
	tys[r.Intn(n)] = obj()
	if r.Intn(6) == 0 {
		tys[r.Intn(n)] = cty.DynamicPseudoType
	}
	return tys
}

// tuples among lists (the other composed path)
func c09TupleList(r *rand.Rand) []cty.Type {
	prim := func() cty.Type { return []cty.Type{cty.String, cty.Number, cty.Bool, cty.String}[r.Intn(4)] }
	elem := func() cty.Type {
		switch r.Intn(6) {
		case 0:
			return cty.List(prim())
		case 1:
			return cty.Tuple([]cty.Type{prim()})
		}
		return prim()
	}
	tup := func() cty.Type {
		es := make([]cty.Type, r.Intn(4))
		for i := range es {
			es[i] = elem()
		}
		return cty.Tuple(es)
	}
	n := 2 + r.Intn(3)
	tys := make([]cty.Type, n)
	for i := range tys {
		if r.Intn(2) == 0 {
			tys[i] = cty.List(elem())
		} else {
			tys[i] = tup()
		}
	}
	tys[r.Intn(n)] = cty.List(elem())
	tys[r.Intn(n)] = tup()
	if r.Intn(8) == 0 {
		tys[r.Intn(n)] = cty.List(cty.DynamicPseudoType)
	}
	return tys
}

// ---- the runner ----------------------------------------------------------------------

func runC09(ctx *Ctx) {
	c := &c09Run{ctx: ctx}
	r := ctx.R
	only := os.Getenv("C09_ONLY")
	sec := func(n string) bool { return only == "" || only == n }

	// (0) witnesses: the shapes behind the recorded findings and the seeded changes
	if sec("0") {
		obj := func(kv ...interface{}) cty.Type {
			m := map[string]cty.Type{}
			for i := 0; i < len(kv); i += 2 {
				m[kv[i].(string)] = kv[i+1].(cty.Type)
			}
			return cty.Object(m)
		}
		tup := func(es ...cty.Type) cty.Type { return cty.Tuple(es) }
		tv := func(es ...cty.Value) cty.Value { return cty.TupleVal(es) }
		// the witness VALUES of the defect repaired by /repo df9d7d3 (composed closure applied
		// its second step to the original value; known_findings.json, C09, `fixed`): the
		// conversions returned for the lists below must now yield the unified type on them
		// (safe_convs_total, convs_yield_unified, no_panic; Lean: C09.…_witness_fixed)
		c.pinned = []cty.Value{
			tv(tv(cty.NumberIntVal(1)), tv(cty.StringVal("a"))), // was: error "element types must all match"
			tv(tv(cty.True), tv(cty.StringVal("a"))),
			tv(tv(cty.NumberIntVal(1))), // was: list(list(number)) for list(list(string))
			tv(tv(cty.True)),
			cty.EmptyTupleVal, // was: panic "not a collection type"
			tv(cty.NumberIntVal(1), cty.StringVal("a")),
			cty.ObjectVal(map[string]cty.Value{"a": cty.NumberIntVal(1)}),
		}
		for _, tys := range [][]cty.Type{
			{cty.Set(cty.String), cty.Set(cty.Bool), cty.List(cty.Number)},
			{cty.Map(cty.String), obj("a", cty.Number)},
			{obj("a", cty.Number), cty.Map(cty.String)},
			{cty.Map(cty.Tuple([]cty.Type{cty.String})), obj("a", cty.Bool, "m", cty.DynamicPseudoType, "zz", cty.String)},
			{tup(tup(cty.Number), tup(cty.String)), cty.List(cty.List(cty.String))},
			{tup(cty.Number, cty.String), cty.List(cty.DynamicPseudoType)},
			{tup(cty.Set(cty.Number)), tup(cty.Set(cty.String)), cty.List(cty.List(cty.String))},
			{cty.EmptyTuple, tup(cty.Bool), cty.List(cty.DynamicPseudoType)},
			{obj("a", cty.Number), obj("a", cty.String), cty.Map(cty.DynamicPseudoType)},
			{tup(cty.String, cty.List(cty.Bool), cty.Number), tup(cty.Number, cty.String, cty.List(cty.Bool)), tup(cty.List(cty.Bool), cty.Number, cty.String), cty.String},
			{tup(tup(cty.Bool)), tup(tup(cty.String)), cty.List(cty.List(cty.String))},
			{tup(tup(cty.Bool), tup(cty.String)), cty.List(cty.List(cty.String))},
			{tup(tup(cty.Number)), tup(tup(cty.String)), cty.List(cty.List(cty.String))},
		} {
			for _, p := range c09Perms(tys) {
				c.list(p, 5)
			}
		}
		c.pinned = nil
		// a cycle of the preference relation hides the placeholder candidate (C09.sort_cycle_hides_candidate)
		cyc := []cty.Type{tup(cty.String, cty.List(cty.Bool), cty.Number), tup(cty.Number, cty.String, cty.List(cty.Bool)), tup(cty.List(cty.Bool), cty.Number, cty.String), cty.String, cty.DynamicPseudoType}
		for k := 0; k < len(cyc); k++ {
			c.list(append(append([]cty.Type{}, cyc[k:]...), cyc[:k]...), 3)
		}
		c.list([]cty.Type{cyc[0], cty.String, cty.DynamicPseudoType}, 3)
	}

	// (1) enumerated small scope: every list of <= 3 types of the alphabet
	alpha := c09Alphabet(ctx.Thorough)
	if sec("1") {
		for _, a := range alpha {
			c.list([]cty.Type{a}, 3)
			for _, b := range alpha {
				c.list([]cty.Type{a, b}, ctx.N(3, 5))
				for _, d := range alpha {
					c.list([]cty.Type{a, b, d}, ctx.N(1, 2))
				}
			}
		}
	}
	ctx.res.Exhaustive = only == ""
	ctx.res.Scope = fmt.Sprintf("all %d lists of 1..3 types drawn from the %d types of size<=2 over the alphabet, both modes, every returned conversion applied to values of its input type", len(alpha)+len(alpha)*len(alpha)+len(alpha)*len(alpha)*len(alpha), len(alpha))

	// (2) random lists derived from one base type, with all permutations of some
	depth := ctx.N(3, 4)
	n2 := ctx.N(6000, 100000)
	if !sec("2") {
		n2 = 0
	}
	for i := 0; i < n2; i++ {
		tys := c09Related(r, depth)
		ctx.Tag(fmt.Sprintf("len:%d", len(tys)))
		if len(tys) <= 3 && r.Intn(4) == 0 {
			for _, p := range c09Perms(tys) {
				c.list(p, 2)
			}
			ctx.Tag("permuted")
		} else {
			c.list(tys, 3)
		}
	}

	// (3) targeted shapes: late rejection in the preference loop, map/object orders,
	// tuples among lists — each in every order
	n3 := ctx.N(1500, 20000)
	if !sec("3") {
		n3 = 0
	}
	for i := 0; i < n3; i++ {
		var tys []cty.Type
		switch i % 3 {
		case 0:
			tys = c09LateReject(r)
			ctx.Tag("shape:late-reject")
		case 1:
			tys = c09MapObject(r)
			ctx.Tag("shape:map-object")
		default:
			tys = c09TupleList(r)
			ctx.Tag("shape:tuple-list")
		}
		if len(tys) <= 3 || ctx.Thorough {
			for _, p := range c09Perms(tys) {
				c.list(p, 2)
			}
		} else {
			c.list(tys, 3)
			// a rotation and the reverse
			c.list(append(append([]cty.Type{}, tys[1:]...), tys[0]), 2)
			rev := make([]cty.Type, len(tys))
			for j := range tys {
				rev[len(tys)-1-j] = tys[j]
			}
			c.list(rev, 2)
		}
	}

	// (4) d09: placeholder members next to lists and tuples, tuples of different lengths,
	// nested objects with differing attribute sets, deep chains (c09_d09.go)
	if sec("4") {
		c09D09(c)
	}

	// (5) d09b: placeholder-free structural types that reach the object / tuple sub-unifiers at
	// several levels (c09_d09b.go)
	if sec("5") {
		c09D09b(c)
	}
}
