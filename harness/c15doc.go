package main

// C15, document side: grammar-generated JSON documents (duplicate keys, nested
// nulls, empty arrays/objects, number spellings, dynamic wrappers), the types they
// are decoded against, ImpliedType / SimpleJSONValue correspondence, the document
// round-trip predicate, number parsing correspondence and the NumOK probes.

import (
	"bytes"
	"encoding/json"
	"fmt"
	"math"
	"math/big"
	"math/rand"
	"strings"
	"unicode/utf16"

	"github.com/zclconf/go-cty/cty"
	ctyjson "github.com/zclconf/go-cty/cty/json"
)

type jdoc struct {
	kind byte // 'n' null, 'b' bool, '#' number, 's' string, 'a' array, 'o' object, 'r' raw fragment
	b    bool
	s    string // number literal / string value / raw bytes
	keys []string
	kids []*jdoc
}

var c15NumSpellings = []string{"0", "-0", "0.0", "1", "-1", "1.0", "1.50", "1e0", "1E0", "10e-1", "1e+2", "0.1", "0.10", "100e-3", "1e23", "1e22",
	"123456789012345678901234567890", "0.30000000000000004", "1.7976931348623157e308", "5e-324", "1e300", "1e-300", "1.5E-300",
	"12345678901234567890.12345678901234567890", "9007199254740993", "-12.50", "0e0", "0E-10", "1e400", "1e-400", "2", "3.9477794105", "1E+5", "-0.0e-0"}

var c15NumJunk = []string{"", "+", "-", ".", "1.", ".5", "+5", "1e", "1e+", "e5", "1.2.3", "0x10", "1_000", "Inf", "-inf", "+Inf", "inf", "INF", "NaN", " 1", "1 ",
	"1p4", "1P-2", "0.5p1", "\uff11", "1e5.5", "--1", "00012", "1e0000000005", "-.5e1", "1.e2", "true", "1,5", "+-1", "1e-", "5.p-1", "+inf", "-Inf", "Infinity"}

// exponent-range spellings: beyond int64 (strconv.ParseInt fails in scanExponent, even for a
// zero mantissa), at the int64 limits with a zero mantissa, and beyond big.MaxExp/MinExp
// ("exponent overflow", decided before any power is computed).  All are cheap in math/big.
var c15NumRange = []string{"0e99999999999999999999", "1e99999999999999999999", "0e-99999999999999999999", "-0.0E+99999999999999999999",
	"0e9223372036854775807", "0e9223372036854775808", "0e-9223372036854775808", "0e-9223372036854775809", "0.000e9223372036854775807",
	"1e9223372036854775807", "1e-9223372036854775808", "1e2147483647", "1e-2147483700", "0.5e2147483647", "12e2147483644", "1p2147483646", "1p2147483647",
	"1p-2147483649", "1p-2147483650", "0p99999999999999999999", "1e00000000000000000000000000000000000005", "0e+00000000000000000000000000000000000000"}

var c15DocKeys = []string{"a", "b", "k", "\u00e9", "e\u0301", "type", "value", "", "zz", "a"}

var c15DocStrings = []string{"", "a", "true", "false", "1", "0", "True", "0.5", "1e3", "\u00e9", "e\u0301", "\u212a", "x\ny", "\"", "Inf", "null", "\U0001F44D"}

func genDoc(r *rand.Rand, depth int) *jdoc {
	k := r.Intn(20)
	if depth <= 0 && k >= 12 {
		k = r.Intn(12)
	}
	switch {
	case k < 2:
		return &jdoc{kind: 'n'}
	case k < 4:
		return &jdoc{kind: 'b', b: r.Intn(2) == 0}
	case k < 8:
		return &jdoc{kind: '#', s: c15NumSpellings[r.Intn(len(c15NumSpellings))]}
	case k < 12:
		if r.Intn(4) == 0 {
			return &jdoc{kind: 's', s: c15String(r)}
		}
		if r.Intn(5) == 0 {
			return &jdoc{kind: 's', s: append(c15NumSpellings, c15NumJunk...)[r.Intn(len(c15NumSpellings)+len(c15NumJunk))]}
		}
		return &jdoc{kind: 's', s: c15DocStrings[r.Intn(len(c15DocStrings))]}
	case k < 15:
		n := r.Intn(4)
		d := &jdoc{kind: 'a'}
		same := r.Intn(2) == 0
		for i := 0; i < n; i++ {
			if same && i > 0 && r.Intn(3) != 0 {
				d.kids = append(d.kids, genDocLike(r, d.kids[0], depth-1))
			} else {
				d.kids = append(d.kids, genDoc(r, depth-1))
			}
		}
		return d
	case k < 18:
		n := r.Intn(4)
		d := &jdoc{kind: 'o'}
		for i := 0; i < n; i++ {
			key := c15DocKeys[r.Intn(len(c15DocKeys))]
			if i > 0 && r.Intn(5) == 0 {
				key = d.keys[r.Intn(len(d.keys))] // duplicate
				j := 0
				for d.keys[j] != key {
					j++
				}
				if r.Intn(2) == 0 {
					d.keys = append(d.keys, key)
					d.kids = append(d.kids, genDocLike(r, d.kids[j], depth-1))
					continue
				}
			}
			d.keys = append(d.keys, key)
			d.kids = append(d.kids, genDoc(r, depth-1))
		}
		return d
	default:
		return genWrapper(r, depth)
	}
}

// genDocLike: a document of the same structural type as d (leaves re-drawn).
func genDocLike(r *rand.Rand, d *jdoc, depth int) *jdoc {
	switch d.kind {
	case 'n':
		return &jdoc{kind: 'n'}
	case 'b':
		return &jdoc{kind: 'b', b: r.Intn(2) == 0}
	case '#':
		return &jdoc{kind: '#', s: c15NumSpellings[r.Intn(len(c15NumSpellings))]}
	case 's':
		return &jdoc{kind: 's', s: c15DocStrings[r.Intn(len(c15DocStrings))]}
	case 'a':
		n := &jdoc{kind: 'a'}
		for _, k := range d.kids {
			n.kids = append(n.kids, genDocLike(r, k, depth-1))
		}
		return n
	case 'o':
		n := &jdoc{kind: 'o', keys: append([]string(nil), d.keys...)}
		for _, k := range d.kids {
			n.kids = append(n.kids, genDocLike(r, k, depth-1))
		}
		return n
	}
	return d
}

// genWrapper: a dynamic wrapper object around a real Marshal output, with defects.
func genWrapper(r *rand.Rand, depth int) *jdoc {
	ty := genTy(r, minInt(depth, 1), TyOpts{Dyn: r.Intn(4) == 0})
	v := c15Val(r, ty, minInt(depth, 1), c15Opts{Null: true})
	vb, err := ctyjson.Marshal(v, v.Type())
	if err != nil {
		return &jdoc{kind: 'n'}
	}
	tb, err := ctyjson.MarshalType(v.Type())
	if err != nil {
		return &jdoc{kind: 'n'}
	}
	val := &jdoc{kind: 'r', s: string(vb)}
	typ := &jdoc{kind: 'r', s: string(tb)}
	d := &jdoc{kind: 'o', keys: []string{"value", "type"}, kids: []*jdoc{val, typ}}
	switch r.Intn(14) {
	case 12, 13: // a type descriptor with optional attributes (sometimes around a null): the annotations must not reach the value
		if ab, err := ctyjson.MarshalType(c15Annotate(r, v.Type())); err == nil {
			d.kids[1] = &jdoc{kind: 'r', s: string(ab)}
		}
		if r.Intn(3) == 0 {
			d.kids[0] = &jdoc{kind: 'n'}
		}
	case 0:
		d.keys, d.kids = []string{"type", "value"}, []*jdoc{typ, val}
	case 1:
		d.keys, d.kids = []string{"value"}, []*jdoc{val}
	case 2:
		d.keys, d.kids = []string{"type"}, []*jdoc{typ}
	case 3:
		d.keys = append(d.keys, "extra")
		d.kids = append(d.kids, &jdoc{kind: 'n'})
	case 4:
		d.kids[1] = &jdoc{kind: 'n'}
	case 5: // a second, different type: the last one stands
		t2, _ := ctyjson.MarshalType(genTy(r, 1, TyOpts{}))
		d.keys = append(d.keys, "type")
		d.kids = append(d.kids, &jdoc{kind: 'r', s: string(t2)})
	case 6: // a second value: the last one stands
		d.keys = append(d.keys, "value")
		d.kids = append(d.kids, genDoc(r, 0))
	case 7:
		d.kids[1] = &jdoc{kind: 'r', s: []string{`"nope"`, `["list"]`, `["object",{"a":"string"},["b"]]`, `["tuple",null]`, `{}`, `["list","string","x"]`, `7`}[r.Intn(7)]}
	case 8:
		d.kids[0] = genDoc(r, depth-1)
	case 9:
		d.kids[0] = &jdoc{kind: 'n'}
	}
	return d
}

// c15Annotate marks attributes of the object types inside t optional (nothing else changes).
func c15Annotate(r *rand.Rand, t cty.Type) cty.Type {
	switch {
	case t.IsListType():
		return cty.List(c15Annotate(r, t.ElementType()))
	case t.IsSetType():
		return cty.Set(c15Annotate(r, t.ElementType()))
	case t.IsMapType():
		return cty.Map(c15Annotate(r, t.ElementType()))
	case t.IsTupleType():
		es := t.TupleElementTypes()
		n := make([]cty.Type, len(es))
		for i := range es {
			n[i] = c15Annotate(r, es[i])
		}
		return cty.Tuple(n)
	case t.IsObjectType():
		atys := map[string]cty.Type{}
		var opts []string
		src := t.AttributeTypes()
		for _, k := range sortedKeys(src) {
			atys[k] = c15Annotate(r, src[k])
			if r.Intn(2) == 0 {
				opts = append(opts, k)
			}
		}
		return cty.ObjectWithOptionalAttrs(atys, opts)
	}
	return t
}

func (d *jdoc) write(sb *strings.Builder, r *rand.Rand) {
	ws := func() {
		if r.Intn(8) == 0 {
			sb.WriteString([]string{" ", "\n", "\t", "  "}[r.Intn(4)])
		}
	}
	ws()
	switch d.kind {
	case 'n':
		sb.WriteString("null")
	case 'b':
		if d.b {
			sb.WriteString("true")
		} else {
			sb.WriteString("false")
		}
	case '#', 'r':
		sb.WriteString(d.s)
	case 's':
		writeJSONString(sb, d.s, r.Intn(5) == 0)
	case 'a':
		sb.WriteByte('[')
		for i, k := range d.kids {
			if i > 0 {
				sb.WriteByte(',')
			}
			k.write(sb, r)
		}
		ws()
		sb.WriteByte(']')
	case 'o':
		sb.WriteByte('{')
		for i, k := range d.kids {
			if i > 0 {
				sb.WriteByte(',')
			}
			ws()
			writeJSONString(sb, d.keys[i], r.Intn(6) == 0)
			ws()
			sb.WriteByte(':')
			k.write(sb, r)
		}
		ws()
		sb.WriteByte('}')
	}
	ws()
}

func writeJSONString(sb *strings.Builder, s string, escapeAll bool) {
	if !escapeAll {
		b, _ := json.Marshal(s)
		sb.Write(b)
		return
	}
	sb.WriteByte('"')
	for _, c := range s {
		switch {
		case c == '"' || c == '\\':
			sb.WriteByte('\\')
			sb.WriteRune(c)
		case c >= 0x20 && c < 0x7f:
			sb.WriteRune(c)
		case c >= 0x10000:
			a, b := utf16.EncodeRune(c)
			fmt.Fprintf(sb, "\\u%04x\\u%04X", a, b)
		default:
			fmt.Fprintf(sb, "\\u%04x", c)
		}
	}
	sb.WriteByte('"')
}

// c15TyForDoc derives a type to decode d against: often fitting, sometimes not.
func c15TyForDoc(r *rand.Rand, d *jdoc, depth int) cty.Type {
	if r.Intn(12) == 0 {
		return cty.DynamicPseudoType
	}
	if r.Intn(25) == 0 {
		return genTy(r, 1, TyOpts{Dyn: true, Opt: true})
	}
	prim := func(likely cty.Type) cty.Type {
		if r.Intn(4) == 0 {
			return []cty.Type{cty.Bool, cty.Number, cty.String}[r.Intn(3)]
		}
		return likely
	}
	switch d.kind {
	case 'n':
		return genTy(r, 1, TyOpts{Dyn: true, Opt: true})
	case 'b':
		return prim(cty.Bool)
	case '#':
		return prim(cty.Number)
	case 's':
		return prim(cty.String)
	case 'a':
		switch k := r.Intn(5); {
		case k <= 1 || len(d.kids) == 0 && k == 2:
			var e cty.Type = cty.String
			if len(d.kids) > 0 {
				e = c15TyForDoc(r, d.kids[r.Intn(len(d.kids))], depth-1)
			} else {
				e = genTy(r, 1, TyOpts{Dyn: true, Opt: true})
			}
			if k == 0 {
				return cty.List(e)
			}
			return cty.Set(e)
		default:
			es := make([]cty.Type, 0, len(d.kids)+1)
			for _, k := range d.kids {
				es = append(es, c15TyForDoc(r, k, depth-1))
			}
			switch r.Intn(10) {
			case 0:
				es = append(es, cty.String)
			case 1:
				if len(es) > 0 {
					es = es[:len(es)-1]
				}
			}
			return cty.Tuple(es)
		}
	case 'o':
		if r.Intn(3) == 0 {
			var e cty.Type
			if len(d.kids) > 0 {
				e = c15TyForDoc(r, d.kids[r.Intn(len(d.kids))], depth-1)
			} else {
				e = genTy(r, 1, TyOpts{Dyn: true, Opt: true})
			}
			return cty.Map(e)
		}
		atys := map[string]cty.Type{}
		for i, k := range d.kids {
			atys[d.keys[i]] = c15TyForDoc(r, k, depth-1) // a later duplicate overwrites
		}
		switch r.Intn(8) {
		case 0:
			atys[attrNames[r.Intn(len(attrNames))]] = genTy(r, 1, TyOpts{Dyn: true, Opt: true})
		case 1:
			if ks := sortedKeys(atys); len(ks) > 0 { // never by Go map order: a seed must reproduce its cases
				delete(atys, ks[r.Intn(len(ks))])
			}
		}
		var opts []string
		for _, k := range sortedKeys(atys) {
			if r.Intn(4) == 0 {
				opts = append(opts, cty.NormalizeString(k))
			}
		}
		return cty.ObjectWithOptionalAttrs(atys, opts)
	}
	return genTy(r, 1, TyOpts{Dyn: true})
}

// structural type of a document as the property reads it (nil type = the document has
// conflicting duplicate keys, or keys that collide only after normalisation, or raw parts)
func c15Structural(d *jdoc) (t cty.Type, ok bool) {
	switch d.kind {
	case 'n':
		return cty.DynamicPseudoType, true
	case 'b':
		return cty.Bool, true
	case '#':
		return cty.Number, true
	case 's':
		return cty.String, true
	case 'a':
		es := make([]cty.Type, len(d.kids))
		for i, k := range d.kids {
			e, ok := c15Structural(k)
			if !ok {
				return cty.NilType, false
			}
			es[i] = e
		}
		return cty.Tuple(es), true
	case 'o':
		atys := map[string]cty.Type{}
		raw := map[string]string{}
		for i, k := range d.kids {
			e, ok := c15Structural(k)
			if !ok {
				return cty.NilType, false
			}
			nk := cty.NormalizeString(d.keys[i])
			if prev, dup := raw[nk]; dup && prev != d.keys[i] {
				return cty.NilType, false // distinct keys with one normal form
			}
			if ex, dup := atys[nk]; dup && !ex.Equals(e) {
				return cty.NilType, false // conflicting duplicate
			}
			raw[nk] = d.keys[i]
			atys[nk] = e
		}
		return cty.Object(atys), true
	}
	return cty.NilType, false
}

// plainEquiv: two plain decodings are the same document up to key order (maps), number
// spelling (compared as 512-bit parsed numbers) and string normalisation.
func plainEquiv(a, b interface{}) bool {
	switch x := a.(type) {
	case nil:
		return b == nil
	case bool:
		y, ok := b.(bool)
		return ok && x == y
	case json.Number:
		y, ok := b.(json.Number)
		if !ok {
			return false
		}
		p, e1 := cty.ParseNumberVal(string(x))
		q, e2 := cty.ParseNumberVal(string(y))
		return e1 == nil && e2 == nil && p.RawEquals(q)
	case string:
		y, ok := b.(string)
		return ok && cty.NormalizeString(x) == cty.NormalizeString(y)
	case []interface{}:
		y, ok := b.([]interface{})
		if !ok || len(x) != len(y) {
			return false
		}
		for i := range x {
			if !plainEquiv(x[i], y[i]) {
				return false
			}
		}
		return true
	case map[string]interface{}:
		y, ok := b.(map[string]interface{})
		if !ok {
			return false
		}
		nx, ny := map[string]interface{}{}, map[string]interface{}{}
		for k, v := range x {
			nx[cty.NormalizeString(k)] = v
		}
		for k, v := range y {
			ny[cty.NormalizeString(k)] = v
		}
		if len(nx) != len(ny) {
			return false
		}
		for k, v := range nx {
			w, ok := ny[k]
			if !ok || !plainEquiv(v, w) {
				return false
			}
		}
		return true
	}
	return false
}

func plainDecode(b []byte) (interface{}, error) {
	var x interface{}
	dec := json.NewDecoder(bytes.NewReader(b))
	dec.UseNumber()
	err := dec.Decode(&x)
	return x, err
}

// c15Doc runs every document-side check on one generated document.
func c15Doc(ctx *Ctx, d *jdoc) {
	r := ctx.R
	var sb strings.Builder
	d.write(&sb, r)
	b := []byte(sb.String())
	tree := jsonTreeOfBytes(b)
	if tree == "BAD" {
		ctx.Tag("doc:unlexable")
		return
	}
	tb := newC15tbl()
	tb.addDoc(b)
	// ImpliedType
	var it cty.Type
	var err error
	p, _ := try(func() { it, err = ctyjson.ImpliedType(b) })
	io := c15Outcome(p, err)
	impl := io
	if io == "ok" {
		impl = "ok " + encTy(it)
	}
	ctx.Add("json.implied", impl, tb.String(), tree)
	ctx.Tag("implied:" + io)
	// SimpleJSONValue
	var sv ctyjson.SimpleJSONValue
	p, _ = try(func() { err = sv.UnmarshalJSON(b) })
	so := c15Outcome(p, err)
	impl = so
	tb2 := newC15tbl()
	tb2.addDoc(b)
	if so == "ok" {
		impl = "ok " + encVal(sv.Value)
		tb2.addVal(sv.Value)
	}
	ctx.Add("json.simple", impl, tb2.String(), tree)
	// Unmarshal against derived types
	for i := 0; i < 2; i++ {
		c15Unmarshal(ctx, b, c15TyForDoc(r, d, 3))
	}
	// docOK: the hypothesis of C15.doc_roundtrip_partial (Lean's predicate vs the Go mirror)
	dok := docOKGo(b)
	ctx.Add("json.docok", encBool(dok), tb.String(), tree)
	if dok {
		ctx.Tag("doc:docOK")
	}
	// docOKU: the hypothesis of C15.doc_roundtrip_any_key_order (distinct normalised keys in ANY order)
	dokU := docOKUGo(b)
	ctx.Add("json.docoku", encBool(dokU), tb.String(), tree)
	if dokU {
		ctx.Tag("doc:docOKU")
		if !dok {
			ctx.Tag("doc:docOKU-unsorted-keys")
		}
	}
	// document round trip
	st, ok := c15Structural(d)
	ctx.Eval("doc "+tree, len(d.kids) > 0)
	if !ok {
		ctx.Tag("doc:conflicting-or-raw")
		if dok {
			// docOK documents have no duplicates; raw fragments are ordinary JSON: run the
			// strict round trip on them too
			c15DocStrict(ctx, b, tree)
		}
		return
	}
	ctx.Tag("doc:roundtrip")
	in := tree
	golit := fmt.Sprintf("b := []byte(%q); t, _ := json.ImpliedType(b); v, _ := json.Unmarshal(b, t); b2, _ := json.Marshal(v, t)", b)
	fail := func(sig, what, outcome string) {
		ctx.Fail(Failure{Site: "doc-roundtrip", Sig: sig, What: what, Input: in, GoLit: golit, Outcome: outcome})
	}
	if io != "ok" {
		fail("implied-"+io, "ImpliedType failed on a valid document without conflicting duplicate keys", io)
		return
	}
	if !it.Equals(st) {
		fail("implied-not-structural", "ImpliedType is not the document's structural type", encTy(it)+" vs "+encTy(st))
		return
	}
	v, uo := c15Unmarshal(ctx, b, it)
	if uo != "ok" {
		cause := "unexpected"
		if dok || dokU {
			cause = "theorem-applies"
		}
		fail("unmarshal-"+uo+":"+cause, "Unmarshal with the implied type failed", uo)
		return
	}
	b2, mo := c15Marshal(ctx, v, it)
	if mo != "ok" {
		fail("marshal-"+mo, "re-marshalling the decoded document failed", mo)
		return
	}
	x1, e1 := plainDecode(b)
	x2, e2 := plainDecode(b2)
	if e1 != nil || e2 != nil || !plainEquiv(x1, x2) {
		fail("document-changed", "re-marshalled document differs beyond key order, number spelling and string normalisation", string(b2))
	}
}

// docOKGo mirrors JsonVal.docOK on the token stream: in every object the NFC forms of the
// keys are strictly ascending (bytewise), numbers parse and satisfy NumOK.
func docOKGo(b []byte) bool {
	dec := json.NewDecoder(bytes.NewReader(b))
	dec.UseNumber()
	var val func() bool
	val = func() bool {
		tok, err := dec.Token()
		if err != nil {
			return false
		}
		switch v := tok.(type) {
		case json.Number:
			p, err := cty.ParseNumberVal(string(v))
			return err == nil && numReparses(p.AsBigFloat())
		case json.Delim:
			switch v {
			case '[':
				ok := true
				for dec.More() {
					if !val() {
						ok = false
					}
				}
				dec.Token()
				return ok
			case '{':
				ok := true
				prev, first := "", true
				for dec.More() {
					kt, err := dec.Token()
					if err != nil {
						return false
					}
					k := cty.NormalizeString(kt.(string))
					if !first && !(prev < k) {
						ok = false
					}
					prev, first = k, false
					if !val() {
						ok = false
					}
				}
				dec.Token()
				return ok
			}
			return false
		}
		return true
	}
	return val()
}

// c15DocStrict: the conclusion of C15.doc_roundtrip_partial on the real code.
func c15DocStrict(ctx *Ctx, b []byte, tree string) {
	fail := func(what string) {
		ctx.Fail(Failure{Site: "doc-roundtrip", Sig: "theorem-applies:" + what, What: "a document meeting the hypotheses of C15.doc_roundtrip_partial does not round-trip", Input: tree,
			GoLit: fmt.Sprintf("b := []byte(%q)", b), Outcome: what})
	}
	var it cty.Type
	var err error
	if p, _ := try(func() { it, err = ctyjson.ImpliedType(b) }); p || err != nil {
		fail("implied")
		return
	}
	var v cty.Value
	if p, _ := try(func() { v, err = ctyjson.Unmarshal(b, it) }); p || err != nil {
		fail("unmarshal")
		return
	}
	if !v.Type().Equals(it) {
		fail("type")
		return
	}
	var b2 []byte
	if p, _ := try(func() { b2, err = ctyjson.Marshal(v, it) }); p || err != nil {
		fail("marshal")
		return
	}
	x1, e1 := plainDecode(b)
	x2, e2 := plainDecode(b2)
	if e1 != nil || e2 != nil || !plainEquiv(x1, x2) {
		fail("changed")
	}
}

// c15ParseNum: big.ParseFloat(·,10,512) vs Num.parse512.
func c15ParseNum(ctx *Ctx, s string) {
	v, err := cty.ParseNumberVal(s)
	impl := "err"
	if err == nil {
		impl = "ok " + cty.VerifDump(v)
	}
	ctx.Add("json.parsenum", impl, encStr(s))
}

func randDecimal(r *rand.Rand) string {
	var sb strings.Builder
	if r.Intn(3) == 0 {
		sb.WriteByte('-')
	}
	n := 1 + r.Intn(45)
	for i := 0; i < n; i++ {
		sb.WriteByte(byte('0' + r.Intn(10)))
	}
	if r.Intn(2) == 0 {
		sb.WriteByte('.')
		n := r.Intn(45)
		for i := 0; i < n; i++ {
			sb.WriteByte(byte('0' + r.Intn(10)))
		}
	}
	if r.Intn(3) == 0 {
		sb.WriteByte("eE"[r.Intn(2)])
		sb.WriteString([]string{"", "+", "-"}[r.Intn(3)])
		fmt.Fprintf(&sb, "%d", r.Intn([]int{5, 30, 330, 600}[r.Intn(4)]))
	}
	return sb.String()
}

// c15NumOK: correspondence of the NumOK predicate and the probes for the number
// classes on which the round-trip theorems are meant to be applied.
func c15NumOK(ctx *Ctx, v cty.Value, class string) {
	f := v.AsBigFloat()
	ok := numReparses(f)
	ctx.Add("json.numok", encBool(ok), cty.VerifDump(v))
	ctx.Tag("numok:" + class + ":" + encBool(ok))
	switch class {
	case "int64", "uint64", "parsed", "exact-int":
		ctx.Probe("NumOK-"+class, ok, fmt.Sprintf("%s does not re-parse to a RawEquals number", f.Text('g', 40)))
	}
}

func runC15Docs(ctx *Ctx) {
	r := ctx.R
	n := ctx.N(800, 30000)
	for i := 0; i < n; i++ {
		c15Doc(ctx, genDoc(r, ctx.N(3, 4)))
	}
	// number parsing
	for _, s := range c15NumSpellings {
		c15ParseNum(ctx, s)
		c15ParseNum(ctx, "-"+s)
	}
	for _, s := range c15NumJunk {
		c15ParseNum(ctx, s)
	}
	for _, s := range c15NumRange {
		c15ParseNum(ctx, s)
		c15ParseNum(ctx, "-"+s)
		// and through the decoder, as a JSON number (where the lexer accepts it) and as a string
		c15Unmarshal(ctx, []byte(s), cty.Number)
		c15Unmarshal(ctx, []byte("\""+s+"\""), cty.Number)
	}
	n = ctx.N(1000, 40000)
	for i := 0; i < n; i++ {
		s := randDecimal(r)
		c15ParseNum(ctx, s)
		if v, err := cty.ParseNumberVal(s); err == nil && i%2 == 0 {
			c15NumOK(ctx, v, "parsed")
		}
	}
	// NumOK per class
	n = ctx.N(400, 20000)
	for i := 0; i < n; i++ {
		c15NumOK(ctx, cty.NumberIntVal(int64(r.Uint64())>>uint(r.Intn(64))), "int64")
		c15NumOK(ctx, cty.NumberUIntVal(r.Uint64()>>uint(r.Intn(64))), "uint64")
		// integers that fit their precision exactly
		k := uint(1 + r.Intn(500))
		z := new(big.Int).Rand(r, new(big.Int).Lsh(big.NewInt(1), k))
		c15NumOK(ctx, cty.NumberVal(new(big.Float).SetPrec(512).SetInt(z)), "exact-int")
		f := math.Float64frombits(r.Uint64())
		if !math.IsNaN(f) && !math.IsInf(f, 0) {
			c15NumOK(ctx, cty.NumberFloatVal(f), "float64")
		}
		c15NumOK(ctx, cty.NumberFloatVal(float64(r.Intn(1<<20))/1024), "float64-short")
		if x := c15Number(r, false); x.IsKnown() {
			c15NumOK(ctx, x, "generator")
		}
	}
}
