package main

// d19b — additions of the second deepening of C19.
//
//   - PathSet.Union / Subtract with an EMPTY operand, then a mutation of the result or of the operand, then an
//     observation of the other one: the result is an independent set (C19.pathset_algebra_empty_operand,
//     pathset_result_independent_of_operand; the seeded change
//     C19-pathset-union-subtract-empty-operand-aliases-result returned the operand itself).  Deterministic: every
//     subset of a trio of paths as the non-empty operand x {s.Union(empty), empty.Union(s), s.Subtract(empty),
//     empty.Subtract(s)} x {Add, Remove} of every path of the trio on the result / on the operand.
//   - PathSet histories over null keys, keys of compound type and keys that hold sets only
//     (C19.pathset_rules_lawful_wide, pathset_rules_lawful_with_sets).

import (
	"github.com/zclconf/go-cty/cty"
)

func runC19D19b(ctx *Ctx) {
	one := cty.NumberIntVal(1)
	onePt := cty.MustParseNumberVal("1.0")
	trios := [][]cty.Path{
		{cty.IndexPath(one), cty.IndexPath(onePt), cty.IndexPath(cty.NumberIntVal(2))},
		{cty.GetAttrPath("a"), cty.GetAttrPath("a").IndexInt(0), cty.GetAttrPath("b")},
	}
	type bin struct {
		k    string
		b, c int // operands: register 0 holds the subset, register 1 stays empty
	}
	bins := []bin{{"union", 0, 1}, {"union", 1, 0}, {"sub", 0, 1}, {"sub", 1, 0}}
	for _, trio := range trios {
		for m := 0; m < 8; m++ {
			var pre []c19PSOp
			for i, p := range trio {
				if m&(1<<i) != 0 {
					pre = append(pre, c19PSOp{k: "add", a: 0, p: p})
				}
			}
			for _, bn := range bins {
				for _, mut := range []string{"add", "rem"} {
					for _, p := range trio {
						for _, onResult := range []bool{true, false} {
							ops := append([]c19PSOp(nil), pre...)
							ops = append(ops, c19PSOp{k: bn.k, a: 2, b: bn.b, c: bn.c})
							tgt, other := 2, 0
							if !onResult {
								tgt, other = 0, 2
							}
							ops = append(ops, c19PSOp{k: mut, a: tgt, p: p}, c19PSOp{k: "has", a: other, p: p},
								c19PSOp{k: "list", a: other}, c19PSOp{k: "list", a: 1}, c19PSOp{k: "equal", a: 2, b: 0}, c19PSOp{k: "equal", a: 0, b: 2})
							c19RunPS(ctx, 3, ops, true, "d19b-empty-operand-then-mutate")
						}
					}
				}
			}
		}
	}

	// null keys and keys of compound type: wholly known, so `Equivalent` is an equivalence relation on them
	// (C19.pathset_rules_lawful_wide); any two nulls are Equals whatever their types
	wide := []cty.Path{
		cty.IndexPath(cty.NullVal(cty.Number)), cty.IndexPath(cty.NullVal(cty.String)), cty.IndexPath(cty.NullVal(cty.List(cty.String))),
		cty.IndexPath(cty.NullVal(cty.Bool)).GetAttr("a"),
		cty.IndexPath(cty.True), cty.IndexPath(cty.False),
		cty.IndexPath(cty.ListVal([]cty.Value{cty.StringVal("a")})), cty.IndexPath(cty.ListVal([]cty.Value{cty.StringVal("b")})),
		cty.IndexPath(cty.ListVal([]cty.Value{cty.StringVal("a"), cty.StringVal("b")})),
		cty.IndexPath(cty.TupleVal([]cty.Value{one, cty.StringVal("x")})), cty.IndexPath(cty.TupleVal([]cty.Value{onePt, cty.StringVal("x")})),
		cty.IndexPath(cty.TupleVal([]cty.Value{one, cty.NullVal(cty.String)})),
		cty.IndexPath(cty.ObjectVal(map[string]cty.Value{"k": cty.StringVal("v")})), cty.IndexPath(cty.EmptyObjectVal), cty.IndexPath(cty.EmptyTupleVal),
		cty.IndexPath(cty.MapVal(map[string]cty.Value{"k": one})), cty.IndexPath(cty.MapVal(map[string]cty.Value{"k": onePt})),
		cty.IndexPath(cty.ListValEmpty(cty.String)), cty.IndexPath(cty.ListValEmpty(cty.Number)),
		cty.IndexPath(one), cty.IndexPath(cty.StringVal("k")), cty.GetAttrPath("a").Index(cty.NullVal(cty.String)),
		cty.IndexPath(cty.ListVal([]cty.Value{cty.StringVal("a")}).Mark("m1")),
		// keys that hold sets (C19.pathset_rules_lawful_with_sets): the same set built in either order is one key
		cty.IndexPath(cty.SetVal([]cty.Value{cty.StringVal("a"), cty.StringVal("b")})),
		cty.IndexPath(cty.SetVal([]cty.Value{cty.StringVal("b"), cty.StringVal("a")})),
		cty.IndexPath(cty.SetVal([]cty.Value{cty.StringVal("a")})), cty.IndexPath(cty.SetValEmpty(cty.String)),
		cty.IndexPath(cty.SetVal([]cty.Value{one, cty.NumberIntVal(2)})), cty.IndexPath(cty.SetVal([]cty.Value{onePt, cty.NumberIntVal(2)})),
		cty.IndexPath(cty.ListVal([]cty.Value{cty.SetVal([]cty.Value{cty.StringVal("a")}), cty.SetValEmpty(cty.String)})),
		cty.IndexPath(cty.SetVal([]cty.Value{cty.StringVal("a").Mark("m2"), cty.StringVal("b")})),
	}
	n := ctx.N(250, 6000)
	for i := 0; i < n; i++ {
		nregs := 2 + ctx.R.Intn(2)
		ln := 6 + ctx.R.Intn(24)
		var ops []c19PSOp
		for j := 0; j < ln; j++ {
			a, b, c := ctx.R.Intn(nregs), ctx.R.Intn(nregs), ctx.R.Intn(nregs)
			p := wide[ctx.R.Intn(len(wide))]
			switch k := ctx.R.Intn(16); {
			case k < 6:
				ops = append(ops, c19PSOp{k: "add", a: a, p: p})
			case k < 8:
				ops = append(ops, c19PSOp{k: "rem", a: a, p: p})
			case k < 11:
				ops = append(ops, c19PSOp{k: "has", a: a, p: p})
			case k == 11:
				ops = append(ops, c19PSOp{k: "list", a: a})
			case k == 12:
				ops = append(ops, c19PSOp{k: "equal", a: a, b: b})
			default:
				ops = append(ops, c19PSOp{k: []string{"union", "inter", "sub", "symd"}[ctx.R.Intn(4)], a: a, b: b, c: c})
			}
		}
		c19RunPS(ctx, nregs, ops, true, "d19b-null-and-compound-keys")
	}
}
