package main

// C11 — standard functions are total and their predicted types are sound.
//
// Search on the REAL code, for every exported stdlib function (the list is
// regenerated from the source by /verif/extract) and a family of MakeToFunc
// conversion functions:
//
//	total              Call never panics and never returns a function.PanicError
//	conforms-values    a successful result conforms to ReturnTypeForValues(args)
//	conforms-types     … and to ReturnType(types of args) when that prediction exists
//	types-not-reject   if all arguments are wholly known and the call succeeded,
//	                   ReturnType(types of args) did not return an error
//
// Correspondence (tie of the regenerated parameter tables to the built code): the
// protocol model `Fn.pass1/pass2` instantiated with `Generated.stdlibSpecs` must
// be consistent with what the real call did (driver op fn.std).

import (
	"errors"
	"fmt"
	"os"
	"strings"
	"time"

	"github.com/zclconf/go-cty/cty"
	"github.com/zclconf/go-cty/cty/function"
	"github.com/zclconf/go-cty/cty/function/stdlib"
)

func init() {
	register("C11", "every exported stdlib function (list regenerated from the source) and MakeToFunc for 9 target types x argument lists of admissible length "+
		"(0-3 variadic), each argument generated from its parameter's type constraint (dynamic constraints instantiated with generated types) with nulls, unknowns "+
		"(refined and not), DynamicVal and marks injected at every position and depth, plus per-function domain-aware strings (format strings, regexes, timestamps, CSV, JSON, digits); "+
		"non-trivial = the call got past argument checking (reached Type/Impl or short-circuited to unknown); distinct = distinct (function, canonical argument wire) strings", runC11)
}

type c11Fn struct {
	name  string
	f     function.Function
	table bool // listed in Generated.stdlibSpecs
}

func c11Funcs() []c11Fn {
	var fs []c11Fn
	for _, e := range stdlibFuncs {
		fs = append(fs, c11Fn{e.Var, e.F, true})
	}
	for _, t := range []cty.Type{cty.String, cty.Number, cty.Bool, cty.List(cty.String), cty.Set(cty.Number), cty.Map(cty.Bool),
		cty.Object(map[string]cty.Type{"a": cty.String, "b": cty.Number}), cty.Tuple([]cty.Type{cty.String, cty.Bool}), cty.DynamicPseudoType} {
		fs = append(fs, c11Fn{"MakeToFunc(" + encTy(t) + ")", stdlib.MakeToFunc(t), false})
	}
	return fs
}

// domain-aware string pools, chosen by function name and parameter position
var c11Strings = map[string][][]string{
	"FormatFunc":       {{"%s", "%d", "%v", "%5.2f", "%q", "%%", "%[2]s %[1]d", "%-5s|", "%x", "%t", "%e", "%#v", "%s %s", "%", "%[9]d", "%[18446744073709551615]d", "%[18446744073709551617]s", "%[9223372036854775808]v", "%!", "%+d", "%05d", "%.3s", "%b", "%o", "%X", "%g", "%[1]s%[1]s", "a%sb", "%c", "%*d", "%.*f"}},
	"FormatListFunc":   {{"%s", "%d-%s", "%v", "%5.1f", "%%", "%[2]s %[1]d", "%", "%q"}},
	"RegexFunc":        {{"a", "(a)(b)?", "(?P<x>a+)", "[", "(?P<x>a)(b)", "^$", "a|b", "(", "\\d+", ".*", "(?P<x>.)(?P<y>.)?"}},
	"RegexAllFunc":     {{"a", "(a)(b)?", "(?P<x>a+)", "[", "", "a|b", "\\d+", "."}},
	"RegexReplaceFunc": {nil, {"a", "(a)", "[", "", "\\s+", "(?P<x>a)"}, {"$1", "${x}", "b", "", "$0$0"}},
	"FormatDateFunc":   {{"YYYY-MM-DD", "hh:mm:ss", "EEEE", "MMM", "'lit'", "'", "AA", "ZZZZZ", "", "YYYYYY", "h", "D", "Q"}, {"2006-01-02T15:04:05Z", "2006-01-02T15:04:05+07:00", "2006-01-02", "", "x", "2006-13-02T15:04:05Z", "0000-01-01T00:00:00Z", "2006-01-02T15:04:05.999999999-07:00", "2006-01-02t15:04:05z"}},
	"TimeAddFunc":      {{"2006-01-02T15:04:05Z", "2006-01-02T15:04:05+07:00", "x", "", "9999-12-31T23:59:59Z"}, {"1h", "-1h", "10s", "1.5h", "x", "", "2562047h47m16.854775807s", "1000000h", "-2562047h48m", "1ns"}},
	"CSVDecodeFunc":    {{"a,b\n1,2\n", "a,a\n1,2", "", "a\n", "a,b\n1", "\"a\n", "a,b\n1,2,3\n", "é,b\r\n1,2\r\n", ",\n1,2\n", "a"}},
	"JSONDecodeFunc":   {{"1", "\"a\"", "[1,\"a\"]", "{\"a\":1}", "{", "null", "[]", "{\"a\":[null,{\"b\":true}]}", "", "1e999", "tru", "[1,[2,[3]]]", "{\"a\":1,\"a\":2}", "-0", " 1 "}},
	"ParseIntFunc":     {{"0", "1", "-1", "ff", "FF", "zz", "", "-", "+5", " 1", "1 ", "12345678901234567890123", "0x10", "1.5", "١", "Z", "-0"}},
	"IndentFunc":       {nil, {"a", "a\nb", "", "\n", "a\r\nb"}},
	"SplitFunc":        {{"", ",", "ab", "é"}, {"a,b", "", ",", "aébéc", "abab"}},
	"ReplaceFunc":      {nil, {"", "a", "ab"}, {"", "x", "aa"}},
	"TrimFunc":         {nil, {"", "a", "ab", "é", "-"}},
}

// number pools for parameters whose magnitude is an amount of work or memory
// (indent(2^31, …) legitimately allocates gigabytes): small and boundary values only
var c11Ints = map[string][][]int64{
	"IndentFunc": {{-2, -1, 0, 1, 2, 8, 300}},
}

// c11DynType picks a type for a dynamically-typed parameter that lies inside (or
// next to) the function's intended domain, so that the callbacks are reached
// with shapes they branch on; one time in five any type at all.
func c11DynType(ctx *Ctx, fn string, i int) cty.Type {
	r := ctx.R
	if r.Intn(5) == 0 {
		return genTy(r, 2, TyOpts{})
	}
	e := func() cty.Type { return genTy(r, 1, TyOpts{}) }
	prim := func() cty.Type { return []cty.Type{cty.String, cty.Number, cty.Bool}[r.Intn(3)] }
	obj := func() cty.Type {
		atys := map[string]cty.Type{}
		for k := 0; k < r.Intn(4); k++ {
			atys[attrNames[r.Intn(4)]] = e()
		}
		return cty.Object(atys)
	}
	tup := func() cty.Type {
		es := make([]cty.Type, r.Intn(4))
		for k := range es {
			es[k] = e()
		}
		return cty.Tuple(es)
	}
	seq := func() cty.Type {
		if r.Intn(2) == 0 {
			return cty.List(e())
		}
		return tup()
	}
	switch fn {
	case "MergeFunc", "KeysFunc", "ValuesFunc":
		if r.Intn(2) == 0 {
			return cty.Map(prim())
		}
		return obj()
	case "LookupFunc":
		if i == 0 {
			if r.Intn(2) == 0 {
				return cty.Map(prim())
			}
			return obj()
		}
		return prim()
	case "SetUnionFunc", "SetIntersectionFunc", "SetSubtractFunc", "SetSymmetricDifferenceFunc", "SetHasElementFunc", "SetProductFunc":
		switch r.Intn(4) {
		case 0:
			return cty.Set(prim())
		case 1:
			return cty.List(prim())
		case 2:
			return cty.Set(tup())
		}
		return cty.Set(cty.Number)
	case "ElementFunc", "IndexFunc", "HasIndexFunc", "SliceFunc", "ConcatFunc", "CoalesceListFunc", "ReverseListFunc", "ChunklistFunc", "DistinctFunc", "ContainsFunc", "ZipmapFunc", "LengthFunc":
		switch r.Intn(5) {
		case 0:
			return cty.Set(prim())
		case 1:
			return cty.Map(prim())
		}
		return seq()
	case "FlattenFunc":
		switch r.Intn(3) {
		case 0:
			return cty.List(cty.List(prim()))
		case 1:
			return cty.Tuple([]cty.Type{cty.Set(prim()), cty.List(prim()), prim()})
		}
		return cty.List(cty.Set(cty.List(prim())))
	}
	return genTy(r, 1, TyOpts{})
}

func c11GenArg(ctx *Ctx, fn string, i int, p function.Parameter, inject bool) cty.Value {
	r := ctx.R
	t := p.Type
	o := ValOpts{NoInf: r.Intn(3) != 0}
	if inject {
		o.Unknown, o.Null, o.Marks, o.DynVal = r.Intn(2) == 0, r.Intn(2) == 0, r.Intn(2) == 0, r.Intn(2) == 0
	}
	if inject && p.AllowDynamicType && t != cty.DynamicPseudoType && r.Intn(16) == 0 {
		// AllowDynamicType lets cty.DynamicVal through to the callbacks whatever the parameter's
		// type constraint is (setunion(DynamicVal, …) reported an internal panic before /repo 8027069)
		return cty.DynamicVal
	}
	if t == stdlib.Bytes {
		b := []byte(genString(r))
		v := stdlib.BytesVal(b)
		switch {
		case inject && r.Intn(8) == 0:
			return cty.NullVal(t)
		case inject && r.Intn(8) == 0:
			return cty.UnknownVal(t)
		case inject && r.Intn(8) == 0:
			return v.Mark(markNames[r.Intn(len(markNames))])
		}
		return v
	}
	if t == cty.String {
		if pools, ok := c11Strings[fn]; ok && i < len(pools) && pools[i] != nil && r.Intn(6) != 0 {
			v := cty.StringVal(pools[i][r.Intn(len(pools[i]))])
			if o.Marks && r.Intn(6) == 0 {
				v = v.Mark(markNames[r.Intn(len(markNames))])
			}
			return v
		}
	}
	if t == cty.Number {
		if pools, ok := c11Ints[fn]; ok && i < len(pools) && pools[i] != nil && (!inject || r.Intn(5) != 0) {
			v := cty.NumberIntVal(pools[i][r.Intn(len(pools[i]))])
			if o.Marks && r.Intn(6) == 0 {
				v = v.Mark(markNames[r.Intn(len(markNames))])
			}
			return v
		}
		if _, ok := c11Ints[fn]; ok && i == 0 {
			o.Unknown, o.Null = true, true
			if r.Intn(2) == 0 {
				return cty.UnknownVal(t)
			}
			return cty.NullVal(t)
		}
	}
	if t == cty.Number && r.Intn(3) == 0 {
		// small and boundary integers are what counts, bases, indices and lengths need
		v := cty.NumberIntVal(int64([]int{-2, -1, 0, 1, 2, 3, 5, 10, 16, 36, 62, 63, 1023, 1024, 1025, 2048}[r.Intn(16)]))
		if o.Marks && r.Intn(6) == 0 {
			v = v.Mark(markNames[r.Intn(len(markNames))])
		}
		return v
	}
	if inject && t == cty.DynamicPseudoType && r.Intn(12) == 0 {
		return cty.DynamicVal
	}
	if t == cty.DynamicPseudoType {
		t = c11DynType(ctx, fn, i)
	}
	if inject && r.Intn(14) == 0 {
		// a value of an unrelated type (argument checking must answer, not the callbacks)
		return genVal(r, genTy(r, 1, TyOpts{}), 1, o)
	}
	return genVal(r, t, 2, o)
}

func c11GoArgs(as []cty.Value) string {
	ss := make([]string, len(as))
	for i, a := range as {
		ss[i] = a.GoString()
	}
	return "[]cty.Value{" + strings.Join(ss, ", ") + "}"
}

func c11Wire(as []cty.Value) string {
	ss := make([]string, len(as))
	for i, a := range as {
		ss[i] = encVal(a)
	}
	return "(" + strings.Join(ss, " ") + ")"
}

func c11WhollyKnown(as []cty.Value) bool {
	for _, a := range as {
		if !a.IsWhollyKnown() {
			return false
		}
	}
	return true
}

func conformsTo(given, want cty.Type) bool { return len(given.TestConformance(want)) == 0 }

// c11Sig maps a panic / PanicError text to a stable root-cause signature
// "<cause>:<function>" (cause first, so that one known finding can cover one
// root cause across the functions that share the code).
func c11Sig(fn, msg string) string {
	msg = strings.ToLower(msg)
	for _, k := range []string{"nil pointer", "index out of range", "slice bounds", "negative repeat count", "value is null", "value is unknown", "value is marked",
		"not a number", "division of zero", "addition of infinities", "nan", "can't use elementiterator", "does not conform", "wrong type", "makeslice", "unhashable", "incompatible set rules",
		"inconsistent", "refine", "not a collection type"} {
		if strings.Contains(msg, k) {
			return strings.ReplaceAll(k, " ", "-") + ":" + fn
		}
	}
	return "other:" + fn
}

// c11Cause classifies an argument list by the feature that known findings about
// type prediction hinge on, so that a recorded finding suppresses only its own
// root cause.
func c11Cause(args []cty.Value) string {
	for _, a := range args {
		u, _ := a.Unmark()
		if u.IsNull() {
			return "null-argument"
		}
	}
	for _, a := range args {
		u, _ := a.Unmark()
		if u.IsKnown() && u.Type().IsCollectionType() && u.Type().ElementType() == cty.DynamicPseudoType && u.LengthInt() == 0 {
			return "empty-dynamic-collection"
		}
	}
	if !c11WhollyKnown(args) {
		return "unknown-argument"
	}
	return "known-arguments"
}

func c11One(ctx *Ctx, fn c11Fn, args []cty.Value) {
	key := fn.name + " " + c11Wire(args)
	lit := "stdlib." + fn.name + ".Call(" + c11GoArgs(args) + ")"
	var res cty.Value
	var err error
	panicked, pmsg := try(func() { res, err = fn.f.Call(args) })
	obs := ""
	var pe function.PanicError
	var ae function.ArgError
	switch {
	case panicked:
		obs = "P"
		ctx.Fail(Failure{Site: "total", Sig: "go-panic:" + c11SigRefine(fn.name, args, c11Sig(fn.name, pmsg)), What: "Call panicked: " + trunc(pmsg, 160), Input: key, GoLit: lit, Outcome: "Go panic"})
	case err != nil && errors.As(err, &pe):
		obs = "E"
		ctx.Fail(Failure{Site: "total", Sig: "panic-error:" + c11SigRefine(fn.name, args, c11Sig(fn.name, pe.Error())), What: "Call returned an error reporting an internal panic: " + trunc(pe.Error(), 160), Input: key, GoLit: lit, Outcome: "PanicError"})
	case err != nil && errors.As(err, &ae):
		obs = fmt.Sprintf("E%d", ae.Index)
	case err != nil:
		obs = "E"
	case res.Type() == cty.DynamicPseudoType && !res.IsKnown():
		obs = "D"
	case !res.IsKnown():
		obs = "U"
	default:
		obs = "K"
	}
	ctx.Tag("outcome:" + obs[:1])
	if fn.table {
		ctx.Add("fn.std", "consistent", encStr(fn.name), obs, c11Wire(args))
	}
	nontrivial := obs == "K" || obs == "U" || obs == "D" || obs == "E"
	ctx.Eval(key, nontrivial)
	if panicked || err != nil {
		return
	}
	// type predictions
	var rtv cty.Type
	var ev error
	if p, m := try(func() { rtv, ev = fn.f.ReturnTypeForValues(args) }); p {
		ctx.Fail(Failure{Site: "total", Sig: "go-panic-rtv:" + c11Sig(fn.name, m), What: "ReturnTypeForValues panicked: " + trunc(m, 160), Input: key, GoLit: lit, Outcome: "Go panic"})
		return
	}
	if ev != nil {
		ctx.Fail(Failure{Site: "conforms-values", Sig: "rtv-rejects-successful-call:" + fn.name, What: "Call succeeded but ReturnTypeForValues returned an error: " + trunc(ev.Error(), 120), Input: key, GoLit: lit, Outcome: res.GoString()})
	} else if !conformsTo(res.Type(), rtv) {
		ctx.Fail(Failure{Site: "conforms-values", Sig: "result-not-conforming-to-value-prediction:" + fn.name, What: "result type " + res.Type().GoString() + " does not conform to ReturnTypeForValues = " + rtv.GoString(), Input: key, GoLit: lit, Outcome: res.GoString()})
	}
	tys := make([]cty.Type, len(args))
	for i, a := range args {
		tys[i] = a.Type()
	}
	var rt cty.Type
	var et error
	if p, m := try(func() { rt, et = fn.f.ReturnType(tys) }); p {
		ctx.Fail(Failure{Site: "total", Sig: "go-panic-rt:" + c11Sig(fn.name, m), What: "ReturnType panicked: " + trunc(m, 160), Input: key, GoLit: lit, Outcome: "Go panic"})
		return
	}
	if et != nil {
		var pe2 function.PanicError
		if errors.As(et, &pe2) {
			ctx.Fail(Failure{Site: "total", Sig: "panic-error-rt:" + c11Sig(fn.name, pe2.Error()), What: "ReturnType returned an error reporting an internal panic: " + trunc(pe2.Error(), 160), Input: key, GoLit: lit, Outcome: "PanicError"})
		} else if c11WhollyKnown(args) {
			ctx.Fail(Failure{Site: "types-not-reject", Sig: "type-only-prediction-rejects:" + fn.name, What: "evaluation with wholly known values succeeded but ReturnType(argument types) returned an error: " + trunc(et.Error(), 120), Input: key, GoLit: lit, Outcome: res.GoString()})
		} else {
			ctx.Tag("type-only-error-with-unknown-args")
		}
	} else if !conformsTo(res.Type(), rt) {
		ctx.Fail(Failure{Site: "conforms-types", Sig: "result-not-conforming-to-type-prediction:" + fn.name + ":" + c11Cause(args), What: "result type " + res.Type().GoString() + " does not conform to ReturnType(types) = " + rt.GoString(), Input: key, GoLit: lit, Outcome: res.GoString()})
	}
}

func trunc(s string, n int) string {
	if len(s) > n {
		return s[:n]
	}
	return s
}

func runC11(ctx *Ctx) {
	fns := c11Funcs()
	per := ctx.N(2500, 60000)
	// case 0: the fixed witnesses of the allocation drivers; the source-derived table of number sites
	c11RunWitnesses(ctx, fns)
	for _, fn := range fns {
		t0 := time.Now()
		defer func(name string) {}(fn.name)
		ps := fn.f.Params()
		vp := fn.f.VarParam()
		// case 0 (regression, /repo 8027069): a dynamically-typed argument for an AllowDynamicType
		// parameter of a non-placeholder type, every other argument from the intended domain
		for j := 0; j < len(ps)+1; j++ {
			n := len(ps)
			if vp != nil {
				n++
			}
			if j >= n {
				break
			}
			pj := vp
			if j < len(ps) {
				pj = &ps[j]
			}
			if !pj.AllowDynamicType || pj.Type == cty.DynamicPseudoType {
				continue
			}
			args := make([]cty.Value, n)
			for i := range args {
				p := vp
				if i < len(ps) {
					p = &ps[i]
				}
				args[i] = c11GenArg(ctx, fn.name, i, *p, false)
			}
			args[j] = cty.DynamicVal
			c11One(ctx, fn, args)
		}
		for k := 0; k < per; k++ {
			n := len(ps)
			if vp != nil {
				n += ctx.R.Intn(4)
			}
			inject := k%3 != 0 // one third of the cases stay inside the intended domain
			args := make([]cty.Value, n)
			for i := range args {
				p := vp
				if i < len(ps) {
					p = &ps[i]
				}
				args[i] = c11GenArg(ctx, fn.name, i, *p, inject)
			}
			// caller-controlled numbers (indices, counts, widths, offsets, bases, lengths) at the
			// boundaries the source compares them with (c11gen.go)
			args = c11ApplyBoundaries(ctx, fn, args, inject)
			n = len(args)
			if inject && ctx.R.Intn(40) == 0 && n > 0 {
				args = args[:n-1] // wrong argument count
			}
			c11One(ctx, fn, args)
		}
		if d := time.Since(t0); d > 2*time.Second && os.Getenv("C11_TIMING") != "" {
			fmt.Fprintf(os.Stderr, "c11: %s took %v\n", fn.name, d)
		}
	}
	c11D11bCorrespondence(ctx) // slice d11b: the functions proved total end to end (c11_d11b.go); last, so that the draws above are unchanged
}
