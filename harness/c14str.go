package main

func runC14Strings(ctx *Ctx) {}
