package main

// C14, string / regexp / date / CSV functions.  Every call of an external library
// that the real function makes is repeated here DIRECTLY against that library and
// recorded as an oracle entry `(<libfn> (<args>) <answer>)`; the Lean model is
// `post ∘ oracle`.  The reference result the predicate compares with is built
// from the same direct library calls.

import (
	"encoding/csv"
	"fmt"
	"io"
	"regexp"
	"strconv"
	"strings"
	"time"

	"github.com/apparentlymart/go-textseg/v15/textseg"
	"github.com/zclconf/go-cty/cty"
	"github.com/zclconf/go-cty/cty/function"
	"github.com/zclconf/go-cty/cty/function/stdlib"
	"golang.org/x/text/unicode/norm"
)

type oracle struct {
	entries []string
	seen    map[string]bool
}

func newOracle() *oracle { return &oracle{seen: map[string]bool{}} }

func (o *oracle) add(fn string, args []string, answer string) {
	ks := make([]string, len(args))
	for i, a := range args {
		ks[i] = encStr(a)
	}
	e := "(" + fn + " (" + strings.Join(ks, " ") + ") " + answer + ")"
	if !o.seen[e] {
		o.seen[e] = true
		o.entries = append(o.entries, e)
	}
}

func (o *oracle) wire() string { return "(" + strings.Join(o.entries, " ") + ")" }

func encStrs(ss []string) string {
	ws := make([]string, len(ss))
	for i, s := range ss {
		ws[i] = encStr(s)
	}
	return "(" + strings.Join(ws, " ") + ")"
}

func encInts(is []int) string {
	ws := make([]string, len(is))
	for i, v := range is {
		ws[i] = strconv.Itoa(v)
	}
	return "(" + strings.Join(ws, " ") + ")"
}

// nfc records and returns the NFC form (what cty.StringVal stores).
func (o *oracle) nfc(s string) string {
	n := norm.NFC.String(s)
	o.add("nfc", []string{s}, encStr(n))
	return n
}

func clustersOf(s string) []string {
	var out []string
	b := []byte(s)
	for len(b) > 0 {
		d, _, _ := textseg.ScanGraphemeClusters(b, true)
		if d <= 0 {
			d = len(b)
		}
		out = append(out, string(b[:d]))
		b = b[d:]
	}
	return out
}

func (o *oracle) clusters(s string) []string {
	cs := clustersOf(s)
	o.add("clusters", []string{s}, encStrs(cs))
	return cs
}

// longer strings over the C05 alphabet plus words, digits and separators
var c14Atoms = append(append([]string{}, strAtoms...), "hello", "World", " ", "  ", "\t", ",", "1", "23", "ß", "ǆ", "ŉ", "İ", "x", "A", "\n\n", "\r\n\r\n", "\"", "'", "$")

func genC14Str(ctx *Ctx, max int) string {
	n := ctx.R.Intn(max + 1)
	var sb strings.Builder
	for i := 0; i < n; i++ {
		sb.WriteString(c14Atoms[ctx.R.Intn(len(c14Atoms))])
	}
	return sb.String()
}

func sv(s string) cty.Value { return cty.StringVal(s) }

type glueCase struct {
	name, goNm string
	f          function.Function
	args       []cty.Value
	orc        *oracle
	// reference: wantErr = the documented function fails; else want is the result
	wantErr bool
	want    cty.Value
	skip    bool   // reference undefined for this input (only totality is judged)
	failSig string // signature used when the expectation is not met
	accSig  string // signature used when an input outside the domain is accepted
}

func runGlue(ctx *Ctx, c glueCase) {
	out, res, class := stdOut(c.f, c.args)
	if class == "ok" && res.Type() == cty.String && res.IsKnown() && !res.IsNull() {
		c.orc.nfc(res.AsString()) // a fact about the real library: the result is a fixed point of NFC
	}
	ctx.Add("std.glue", out, c.name, wireArgs(c.args), c.orc.wire())
	c14RefGlue(ctx, c, out)
	ctx.Tag("fn:" + c.name)
	ctx.Tag("class:" + c.name + ":" + class)
	ctx.Eval(c.name+" "+wireArgs(c.args), true)
	fail := func(sig, what string) { c14Fail(ctx, c.name, sig, what, c.goNm, c.args, out) }
	switch {
	case class == "panic":
		fail(c.name+"-go-panic", "a Go panic escaped Function.Call")
	case class == "panicerr":
		sig := c.name + "-panicerror"
		if c.failSig != "" {
			sig = c.failSig
		}
		fail(sig, "the implementation panicked inside Impl (PanicError)")
	case c.skip:
	case c.wantErr && class != "err":
		sig := c.name + "-accepts-outside-domain"
		if c.accSig != "" {
			sig = c.accSig
		}
		fail(sig, "input outside the documented domain was accepted")
	case !c.wantErr && class != "ok":
		fail(c.name+"-rejects-inside-domain", "input inside the documented domain was rejected")
	case !c.wantErr && !res.RawEquals(c.want):
		sig := c.name + "-differs-from-reference"
		if c.failSig != "" {
			sig = c.failSig
		}
		fail(sig, "result differs from the reference "+c.want.GoString())
	}
}

func runC14Strings(ctx *Ctx) {
	r := ctx.R
	n := ctx.N(400, 8000)
	// ---- one-call string functions
	type f1 struct {
		name, goNm, lib string
		f               function.Function
		call            func(string) string
	}
	for _, e := range []f1{
		{"upper", "Upper", "toUpper", stdlib.UpperFunc, strings.ToUpper},
		{"lower", "Lower", "toLower", stdlib.LowerFunc, strings.ToLower},
		{"title", "Title", "title", stdlib.TitleFunc, strings.Title},
		{"trimspace", "TrimSpace", "trimSpace", stdlib.TrimSpaceFunc, strings.TrimSpace},
	} {
		for i := 0; i < n; i++ {
			a := sv(genC14Str(ctx, 5))
			o := newOracle()
			lib := e.call(a.AsString())
			o.add(e.lib, []string{a.AsString()}, encStr(lib))
			runGlue(ctx, glueCase{name: e.name, goNm: e.goNm, f: e.f, args: []cty.Value{a}, orc: o, want: sv(o.nfc(lib))})
		}
	}
	type f2 struct {
		name, goNm, lib string
		f               function.Function
		call            func(a, b string) string
	}
	for _, e := range []f2{
		{"trim", "Trim", "trim", stdlib.TrimFunc, strings.Trim},
		{"trimprefix", "TrimPrefix", "trimPrefix", stdlib.TrimPrefixFunc, strings.TrimPrefix},
		{"trimsuffix", "TrimSuffix", "trimSuffix", stdlib.TrimSuffixFunc, strings.TrimSuffix},
	} {
		for i := 0; i < n; i++ {
			a := sv(genC14Str(ctx, 5))
			b := sv(genC14Str(ctx, 2))
			if r.Intn(3) == 0 { // a real prefix / suffix / cutset of a
				cs := clustersOf(a.AsString())
				if len(cs) > 0 {
					if e.name == "trimsuffix" {
						b = sv(strings.Join(cs[len(cs)-1-r.Intn(imin(2, len(cs))):], ""))
					} else {
						b = sv(strings.Join(cs[:1+r.Intn(imin(2, len(cs)))], ""))
					}
				}
			}
			o := newOracle()
			lib := e.call(a.AsString(), b.AsString())
			o.add(e.lib, []string{a.AsString(), b.AsString()}, encStr(lib))
			runGlue(ctx, glueCase{name: e.name, goNm: e.goNm, f: e.f, args: []cty.Value{a, b}, orc: o, want: sv(o.nfc(lib))})
		}
	}
	// ---- replace
	for i := 0; i < n; i++ {
		a, b, c := sv(genC14Str(ctx, 6)), sv(genC14Str(ctx, 1)), sv(genC14Str(ctx, 2))
		o := newOracle()
		lib := strings.Replace(a.AsString(), b.AsString(), c.AsString(), -1)
		o.add("replaceAll", []string{a.AsString(), b.AsString(), c.AsString()}, encStr(lib))
		runGlue(ctx, glueCase{name: "replace", goNm: "Replace", f: stdlib.ReplaceFunc, args: []cty.Value{a, b, c}, orc: o, want: sv(o.nfc(lib))})
	}
	// ---- split / join
	for i := 0; i < n; i++ {
		sep, str := sv(genC14Str(ctx, 1)), sv(genC14Str(ctx, 6))
		o := newOracle()
		parts := strings.Split(str.AsString(), sep.AsString())
		o.add("split", []string{str.AsString(), sep.AsString()}, encStrs(parts))
		vals := make([]cty.Value, len(parts))
		for j, p := range parts {
			vals[j] = sv(o.nfc(p))
		}
		want := cty.ListValEmpty(cty.String)
		if len(vals) > 0 {
			want = cty.ListVal(vals)
		}
		runGlue(ctx, glueCase{name: "split", goNm: "Split", f: stdlib.SplitFunc, args: []cty.Value{sep, str}, orc: o, want: want})
	}
	for i := 0; i < n; i++ {
		sep := sv(genC14Str(ctx, 1))
		args := []cty.Value{sep}
		var items []string
		hasNull := false
		for k := r.Intn(3); k >= 0; k-- {
			m := r.Intn(4)
			if m == 0 {
				args = append(args, cty.ListValEmpty(cty.String))
				continue
			}
			els := make([]cty.Value, m)
			for j := range els {
				if r.Intn(12) == 0 {
					els[j] = cty.NullVal(cty.String)
					hasNull = true
				} else {
					els[j] = sv(genC14Str(ctx, 2))
					items = append(items, els[j].AsString())
				}
			}
			args = append(args, cty.ListVal(els))
		}
		if r.Intn(15) == 0 {
			args = args[:1]
		}
		o := newOracle()
		c := glueCase{name: "join", goNm: "Join", f: stdlib.JoinFunc, args: args, orc: o}
		if len(args) == 1 || hasNull {
			c.wantErr = true
		} else {
			c.want = sv(o.nfc(strings.Join(items, sep.AsString())))
		}
		runGlue(ctx, c)
	}
	// ---- strlen / reverse / substr on grapheme clusters
	for i := 0; i < n; i++ {
		a := sv(genC14Str(ctx, 7))
		o := newOracle()
		cs := o.clusters(a.AsString())
		runGlue(ctx, glueCase{name: "strlen", goNm: "Strlen", f: stdlib.StrlenFunc, args: []cty.Value{a}, orc: o, want: cty.NumberIntVal(int64(len(cs)))})
		o = newOracle()
		cs = o.clusters(a.AsString())
		rev := make([]string, len(cs))
		for j := range cs {
			rev[len(cs)-1-j] = cs[j]
		}
		runGlue(ctx, glueCase{name: "reverse", goNm: "Reverse", f: stdlib.ReverseFunc, args: []cty.Value{a}, orc: o, want: sv(o.nfc(strings.Join(rev, "")))})
	}
	c14Substr(ctx, n*3)
	// ---- chomp / indent
	for i := 0; i < n; i++ {
		s := genC14Str(ctx, 5) + []string{"", "\n", "\r\n", "\r", "\n\r\n\n", "\r\r"}[r.Intn(6)]
		a := sv(s)
		o := newOracle()
		runGlue(ctx, glueCase{name: "chomp", goNm: "Chomp", f: stdlib.ChompFunc, args: []cty.Value{a}, orc: o, want: sv(o.nfc(strings.TrimRight(a.AsString(), "\r\n")))})
	}
	for i := 0; i < n; i++ {
		a := sv(genC14Str(ctx, 6))
		var sp cty.Value
		k := 0
		inDomain := true
		big := false
		switch r.Intn(14) {
		case 0:
			sp, inDomain = cty.NumberIntVal(int64(-1-r.Intn(3))), false
		case 1:
			sp, inDomain = cty.NumberFloatVal(1.5), false
		case 2:
			sp, inDomain = cty.MustParseNumberVal("1e30"), false
		case 3, 4:
			// counts whose padding would not fit (math.MaxInt32 and beyond): refused when the string has a line
			// break, immaterial when it has none (/repo d4d90b0) -- never a panic, never an attempt to build it
			big = true
			sp = cty.NumberIntVal([]int64{2147483647, 2147483648, 1 << 40, 1<<62 + 1}[r.Intn(4)])
			if r.Intn(2) == 0 {
				a = sv(strings.ReplaceAll(a.AsString(), "\n", " "))
			} else if r.Intn(2) == 0 {
				a = sv(a.AsString() + "\n")
			}
			inDomain = !strings.Contains(a.AsString(), "\n")
			ctx.Tag(fmt.Sprintf("indent:huge-count:linebreak=%v", !inDomain))
		default:
			k = r.Intn(6)
			sp = cty.NumberIntVal(int64(k))
		}
		o := newOracle()
		c := glueCase{name: "indent", goNm: "Indent", f: stdlib.IndentFunc, args: []cty.Value{sp, a}, orc: o}
		if inDomain && big {
			c.want = sv(o.nfc(a.AsString()))
		} else if inDomain {
			c.want = sv(o.nfc(strings.ReplaceAll(a.AsString(), "\n", "\n"+strings.Repeat(" ", k))))
		} else {
			c.wantErr = true
		}
		runGlue(ctx, c)
	}
	c14Regex(ctx, n*2)
	c14Dates(ctx, n*2)
	c14TimeAddFractions(ctx, ctx.N(500, 5000))
	c14Csv(ctx, n*2)
}

// ---- substr ---------------------------------------------------------------------

func c14Substr(ctx *Ctx, n int) {
	r := ctx.R
	// the cluster-list function itself, exhaustively over small scopes
	ctx.res.Exhaustive = true
	ctx.res.Scope = "substr: every string of 0..4 single-cluster characters x offset -7..7 x length -3..7 (825 cases); and/or/not: all boolean arguments"
	for l := 0; l <= 4; l++ {
		cs := []string{"a", "b", "c", "d"}[:l]
		for off := -7; off <= 7; off++ {
			for ln := -3; ln <= 7; ln++ {
				var res cty.Value
				var err error
				p, _ := try(func() {
					res, err = stdlib.Substr(sv(strings.Join(cs, "")), cty.NumberIntVal(int64(off)), cty.NumberIntVal(int64(ln)))
				})
				impl := "panic"
				if !p && err == nil {
					impl = encStrs(clustersOf(res.AsString()))
				} else if !p {
					impl = "err"
				}
				ctx.Add("std.substr", impl, encStrs(cs), strconv.Itoa(off), strconv.Itoa(ln))
			}
		}
	}
	for i := 0; i < n; i++ {
		a := sv(genC14Str(ctx, 7))
		cs := clustersOf(a.AsString())
		off := int64(r.Intn(2*len(cs)+5) - len(cs) - 2)
		ln := int64(r.Intn(len(cs)+4) - 2)
		if i == 0 { // corpus: witness of the negative-offset / zero-length defect repaired by 2a9c93a, must pass
			a, cs, off, ln = sv("a"), []string{"a"}, -1, 0
		}
		var offV, lnV cty.Value = cty.NumberIntVal(off), cty.NumberIntVal(ln)
		inDomain := true
		switch r.Intn(30) * imin(i, 1) {
		case 0:
			offV, inDomain = cty.NumberFloatVal(0.5), false
		case 1:
			lnV, inDomain = cty.MustParseNumberVal("1e30"), false
		case 2:
			off = -1 << 63
			offV = cty.NumberIntVal(off)
		case 3:
			ln = 1<<63 - 1
			lnV = cty.NumberIntVal(ln)
		}
		o := newOracle()
		o.clusters(a.AsString())
		c := glueCase{name: "substr", goNm: "Substr", f: stdlib.SubstrFunc, args: []cty.Value{a, offV, lnV}, orc: o}
		if !inDomain {
			c.wantErr = true
			runGlue(ctx, c)
			continue
		}
		// reference: positions are grapheme clusters; a negative offset counts from the end; a negative
		// length means "to the end"; otherwise at most `length` clusters
		start := off
		if off < 0 {
			start = int64(len(cs)) + off
			if start < 0 {
				start = 0 // before the start: not specified by the documentation; the code clamps, accepted
				ctx.Tag("substr:offset-before-start")
			}
		}
		if start > int64(len(cs)) {
			start = int64(len(cs))
		}
		rest := cs[start:]
		if ln >= 0 && ln < int64(len(rest)) {
			rest = rest[:ln]
		}
		c.want = sv(o.nfc(strings.Join(rest, "")))
		if off < 0 && ln == 0 {
			c.failSig = "substr-negative-offset-zero-length" // regression signature of fix 2a9c93a
		}
		runGlue(ctx, c)
		// never splits a cluster: the result is a run of whole clusters of the input
		if res, err := stdlib.Substr(a, offV, lnV); err == nil {
			got := res.AsString()
			okRun := false
			for x := 0; x <= len(cs) && !okRun; x++ {
				for y := x; y <= len(cs); y++ {
					if norm.NFC.String(strings.Join(cs[x:y], "")) == got {
						okRun = true
						break
					}
				}
			}
			if !okRun {
				c14Fail(ctx, "substr", "substr-splits-cluster", "result is not a run of whole grapheme clusters of the input", "Substr", c.args, res.GoString())
			}
		}
	}
}

// ---- regex family -----------------------------------------------------------------

var c14Patterns = []string{"a", "(a)(b)?", "(?P<x>a)(?P<y>b)?", "(a)|(b)", "(?P<x>a)|(b)", "[", "a*", "", "(?P<x>.)(?P<x>.)", "é+", `\pL+`,
	`(\d+)-(\d+)`, ".", "^", "$", "(?i)A", "(a", "x*?", `\b`, `(?P<year>\d\d)(?P<mon>\d)?`, `(?s).`, `\X`, `[^a]+`, "(b)(a)(b)?", `(?P<b>b)|(?P<a>a)`, "👍", `\n`, `a{2,1}`}

func regexValue(o *oracle, re *regexp.Regexp, str string, idx []int, ty cty.Type) cty.Value {
	cap := func(i int) cty.Value {
		if idx[2*i] < 0 || idx[2*i+1] < 0 {
			return cty.NullVal(cty.String)
		}
		return sv(o.nfc(str[idx[2*i]:idx[2*i+1]]))
	}
	switch {
	case ty == cty.String:
		return cap(0)
	case ty.IsTupleType():
		vs := make([]cty.Value, re.NumSubexp())
		for i := range vs {
			vs[i] = cap(i + 1)
		}
		return cty.TupleVal(vs)
	default:
		m := map[string]cty.Value{}
		for i, nm := range re.SubexpNames() {
			if i > 0 {
				m[nm] = cap(i) // a repeated name: the last group wins
			}
		}
		return cty.ObjectVal(m)
	}
}

func c14Regex(ctx *Ctx, n int) {
	r := ctx.R
	subj := func() string {
		s := genC14Str(ctx, 4)
		for k := r.Intn(4); k > 0; k-- {
			s += []string{"a", "b", "ab", "12-34", "7", "A", "ba", "bab"}[r.Intn(8)]
		}
		return s
	}
	for i := 0; i < n; i++ {
		pat := sv(c14Patterns[r.Intn(len(c14Patterns))])
		str := sv(subj())
		o := newOracle()
		re, err := regexp.Compile(pat.AsString())
		if err != nil {
			o.add("regexCompile", []string{pat.AsString()}, "err")
			runGlue(ctx, glueCase{name: "regex", goNm: "Regex", f: stdlib.RegexFunc, args: []cty.Value{pat, str}, orc: o, wantErr: true})
			runGlue(ctx, glueCase{name: "regexall", goNm: "RegexAll", f: stdlib.RegexAllFunc, args: []cty.Value{pat, str}, orc: o, wantErr: true})
			repl := sv("-")
			runGlue(ctx, glueCase{name: "regexreplace", goNm: "RegexReplace", f: stdlib.RegexReplaceFunc, args: []cty.Value{str, pat, repl}, orc: o, wantErr: true})
			continue
		}
		names := re.SubexpNames()[1:]
		o.add("regexCompile", []string{pat.AsString()}, encStrs(names))
		// documented result type: string / tuple / object; mixing is an error
		named, unnamed := 0, 0
		attrs := map[string]cty.Type{}
		for _, nm := range names {
			if nm == "" {
				unnamed++
			} else {
				named++
				attrs[nm] = cty.String
			}
		}
		var ty cty.Type
		switch {
		case named > 0 && unnamed > 0:
			ty = cty.NilType
		case unnamed > 0:
			ets := make([]cty.Type, unnamed)
			for j := range ets {
				ets[j] = cty.String
			}
			ty = cty.Tuple(ets)
		case named > 0:
			ty = cty.Object(attrs)
		default:
			ty = cty.String
		}
		// regex
		o1 := newOracle()
		o1.entries, o1.seen = append([]string{}, o.entries...), map[string]bool{}
		c := glueCase{name: "regex", goNm: "Regex", f: stdlib.RegexFunc, args: []cty.Value{pat, str}, orc: o1}
		idx := re.FindStringSubmatchIndex(str.AsString())
		if idx != nil {
			// the law about the regexp package that C14.regex_never_panics assumes (IdxOK): one pair per group incl.
			// the whole match, every pair (-1,-1) or 0 <= a <= b <= len(subject), the whole match always present
			okIdx := len(idx) == 2*(len(names)+1) && idx[0] >= 0
			for j := 0; okIdx && j+1 < len(idx); j += 2 {
				a, b := idx[j], idx[j+1]
				okIdx = (a < 0 && b < 0) || (0 <= a && a <= b && b <= len(str.AsString()))
			}
			ctx.Probe("regexp-submatch-index-shape", okIdx, fmt.Sprintf("FindStringSubmatchIndex(%q, %q) = %v", pat.AsString(), str.AsString(), idx))
		}
		if ty == cty.NilType {
			c.wantErr = true
		} else {
			if idx == nil {
				o1.add("regexFind", []string{pat.AsString(), str.AsString()}, "none")
				c.wantErr = true
			} else {
				o1.add("regexFind", []string{pat.AsString(), str.AsString()}, encInts(idx))
				c.want = regexValue(o1, re, str.AsString(), idx, ty)
			}
		}
		runGlue(ctx, c)
		// regexall
		o2 := newOracle()
		o2.entries = append([]string{}, o.entries...)
		c = glueCase{name: "regexall", goNm: "RegexAll", f: stdlib.RegexAllFunc, args: []cty.Value{pat, str}, orc: o2}
		if ty == cty.NilType {
			c.wantErr = true
		} else {
			all := re.FindAllStringSubmatchIndex(str.AsString(), -1)
			ws := make([]string, len(all))
			vals := make([]cty.Value, len(all))
			for j, ix := range all {
				c14ProbeIdx(ctx, len(names), len(str.AsString()), ix, pat.AsString(), str.AsString())
				ws[j] = encInts(ix)
				vals[j] = regexValue(o2, re, str.AsString(), ix, ty)
			}
			o2.add("regexFindAll", []string{pat.AsString(), str.AsString()}, "("+strings.Join(ws, " ")+")")
			if len(vals) == 0 {
				c.want = cty.ListValEmpty(ty)
			} else {
				c.want = cty.ListVal(vals)
			}
		}
		runGlue(ctx, c)
		// regexreplace
		o3 := newOracle()
		o3.entries = append([]string{}, o.entries...)
		repl := sv([]string{"-", "", "$1", "${x}", "$0$0", "$", "é", "<$2>", "$$"}[r.Intn(9)])
		lib := re.ReplaceAllString(str.AsString(), repl.AsString())
		o3.add("regexReplaceAll", []string{pat.AsString(), str.AsString(), repl.AsString()}, encStr(lib))
		runGlue(ctx, glueCase{name: "regexreplace", goNm: "RegexReplace", f: stdlib.RegexReplaceFunc, args: []cty.Value{str, pat, repl}, orc: o3, want: sv(o3.nfc(lib))})
	}
}

// ---- formatdate / timeadd -----------------------------------------------------------

func genTimestamp(ctx *Ctx) string {
	r := ctx.R
	y, mo, d := r.Intn(10000), 1+r.Intn(12), 1+r.Intn(28)
	if r.Intn(6) == 0 {
		d = 29 + r.Intn(3)
	}
	h, mi, s := r.Intn(24), r.Intn(60), r.Intn(60)
	frac := ""
	switch r.Intn(5) {
	case 0:
		frac = fmt.Sprintf(".%d", r.Intn(1000))
	case 1:
		frac = ".123456789"
	case 2:
		// 4 to 9 digits: fractions that are not exact in binary (a seeded change parsed the fraction
		// through a float64 and lost a nanosecond for about 2 % of them)
		k := 4 + r.Intn(6)
		frac = "."
		for i := 0; i < k; i++ {
			frac += string(rune('0' + r.Intn(10)))
		}
	}
	zone := "Z"
	switch r.Intn(4) {
	case 0:
		zone = fmt.Sprintf("%c%02d:%02d", "+-"[r.Intn(2)], r.Intn(24), []int{0, 30, 45, 59}[r.Intn(4)])
	case 1:
		zone = []string{"+00:00", "-00:00", "+14:00", "-12:00", "+05:30"}[r.Intn(5)]
	}
	ts := fmt.Sprintf("%04d-%02d-%02dT%02d:%02d:%02d%s%s", y, mo, d, h, mi, s, frac, zone)
	// malformed variants
	switch r.Intn(14) {
	case 0:
		muts := []func(string) string{
			func(s string) string { return strings.Replace(s, "T", " ", 1) },
			func(s string) string { return strings.Replace(s, "T", "t", 1) },
			func(s string) string { return strings.TrimSuffix(s, "Z") },
			func(s string) string { return s[:len(s)/2] },
			func(s string) string { return strings.Replace(s, ".", ",", 1) },
			func(s string) string { return s[:11] + strings.TrimPrefix(s[11:], "0") },
			func(s string) string { return strings.Replace(s, ":", "", 1) },
			func(s string) string { return s + "x" },
			func(s string) string { return strings.Replace(s, "Z", "z", 1) },
			func(s string) string { return "" },
			func(s string) string { return strings.Replace(s, "Z", "+24:00", 1) },
			func(s string) string { return strings.Replace(s, "Z", "+01:60", 1) },
			func(s string) string { return s[:17] + "60" + s[19:] },
			func(s string) string { return s[:5] + "13" + s[7:] },
			func(s string) string { return strings.Replace(s, "Z", "+1:00", 1) },
			func(s string) string { return s[:19] + "." + s[19:] },
		}
		ts = muts[r.Intn(len(muts))](ts)
	}
	return ts
}

var rfc3339Re = regexp.MustCompile(`^(\d{4})-(\d{2})-(\d{2})T(\d{2}):(\d{2}):(\d{2})(\.\d+)?(Z|[+-](\d{2}):(\d{2}))$`)

// strictRFC3339 is the harness's own reading of RFC 3339 "date-time" (upper-case
// T and Z, two-digit fields in range, period as the fraction separator, zone
// offset hours 00-23 and minutes 00-59); the fields are then taken from time.Parse.
func strictRFC3339(ts string) (time.Time, bool) {
	m := rfc3339Re.FindStringSubmatch(ts)
	if m == nil {
		return time.Time{}, false
	}
	num := func(s string) int { v, _ := strconv.Atoi(s); return v }
	mo, d, h, mi, sec := num(m[2]), num(m[3]), num(m[4]), num(m[5]), num(m[6])
	if mo < 1 || mo > 12 || d < 1 || h > 23 || mi > 59 || sec > 59 {
		return time.Time{}, false
	}
	if m[8] != "Z" && (num(m[9]) > 23 || num(m[10]) > 59) {
		return time.Time{}, false
	}
	t, err := time.Parse(time.RFC3339, ts) // checks the day against the month
	if err != nil {
		return time.Time{}, false
	}
	return t, true
}

func (o *oracle) parseTimestamp(ts string) (time.Time, bool) {
	t, ok := strictRFC3339(ts)
	if !ok {
		o.add("parseTimestamp", []string{ts}, "err")
		return t, false
	}
	_, off := t.Zone()
	o.add("parseTimestamp", []string{ts}, fmt.Sprintf("(%d %d %d %d %d %d %d %d)", t.Year(), int(t.Month()), t.Day(), int(t.Weekday()), t.Hour(), t.Minute(), t.Second(), off))
	return t, true
}

// lenientOnly: forms RFC 3339 tolerates but the documentation of the function does not
// promise (lower-case t / z, leap second 60): only totality is judged there.
func lenientOnly(ts string) bool {
	if len(ts) >= 19 && ts[17:19] == "60" {
		return true
	}
	return strings.ContainsAny(ts, "tz")
}

var dateVerbs = map[string]string{"YYYY": "2006", "YY": "06", "MMMM": "January", "MMM": "Jan", "MM": "01", "M": "1", "DD": "02", "D": "2",
	"EEEE": "Monday", "EEE": "Mon", "hh": "15", "HH": "03", "H": "3", "AA": "PM", "aa": "pm", "mm": "04", "m": "4", "ss": "05", "s": "5",
	"ZZZZZ": "-07:00", "ZZZZ": "-0700", "Z": "Z07:00"}

// refFormatDate: the documented formatdate mini-language rendered through time.Format.
func refFormatDate(format string, t time.Time) (string, bool) {
	var sb strings.Builder
	b := format
	for len(b) > 0 {
		c := b[0]
		switch {
		case c == '\'':
			if len(b) > 1 && b[1] == '\'' {
				sb.WriteByte('\'')
				b = b[2:]
				continue
			}
			// literal up to the closing quote; '' inside is an escaped quote
			i := 1
			closed := false
			for i < len(b) {
				if b[i] == '\'' {
					if i+1 < len(b) && b[i+1] == '\'' {
						sb.WriteByte('\'')
						i += 2
						continue
					}
					closed = true
					i++
					break
				}
				sb.WriteByte(b[i])
				i++
			}
			if !closed {
				return "", false
			}
			b = b[i:]
		case (c >= 'a' && c <= 'z') || (c >= 'A' && c <= 'Z'):
			i := 1
			for i < len(b) && b[i] == c {
				i++
			}
			verb := b[:i]
			b = b[i:]
			switch verb {
			case "h":
				sb.WriteString(strconv.Itoa(t.Hour()))
			case "ZZZ":
				if s := t.Format("-0700"); s == "+0000" {
					sb.WriteString("UTC")
				} else {
					sb.WriteString(s)
				}
			default:
				layout, ok := dateVerbs[verb]
				if !ok {
					return "", false
				}
				sb.WriteString(t.Format(layout))
			}
		default:
			sb.WriteByte(c)
			b = b[1:]
		}
	}
	return sb.String(), true
}

func genDateFormat(ctx *Ctx) string {
	r := ctx.R
	parts := []string{"YYYY", "YY", "MMMM", "MMM", "MM", "M", "DD", "D", "EEEE", "EEE", "hh", "h", "HH", "H", "AA", "aa", "mm", "m", "ss", "s",
		"ZZZZZ", "ZZZZ", "ZZZ", "Z", "-", ":", " ", "/", "'T'", "''", "'o''clock'", "é", "👍", ".", ",", "1", "'at'"}
	bad := []string{"YYY", "Y", "DDD", "E", "EE", "hhh", "A", "aaa", "ZZ", "Q", "x", "'open", "MMMMM", "sss", "'", "'a''", "T"}
	var sb strings.Builder
	for k := r.Intn(7); k > 0; k-- {
		if r.Intn(16) == 0 {
			sb.WriteString(bad[r.Intn(len(bad))])
		} else {
			sb.WriteString(parts[r.Intn(len(parts))])
		}
		if r.Intn(3) == 0 {
			sb.WriteString([]string{" ", "-", ":", ", "}[r.Intn(4)])
		}
	}
	return sb.String()
}

func c14Dates(ctx *Ctx, n int) {
	r := ctx.R
	durs := []string{"1h", "-1h", "24h", "90m", "1.5h", "1s", "0", "100ms", "-8760h", "1h30m15s", "87600h", "2562047h", "1d", "", "h", "1x", "1 h", "-", "9223372036s", "1us", "1µs"}
	for i := 0; i < n; i++ {
		format, ts := sv(genDateFormat(ctx)), sv(genTimestamp(ctx))
		if i == 0 { // corpus: minimal witness of the unterminated-literal finding
			format, ts = sv("'a''"), sv("2020-01-02T03:04:05Z")
		}
		o := newOracle()
		t, ok := o.parseTimestamp(ts.AsString())
		c := glueCase{name: "formatdate", goNm: "FormatDate", f: stdlib.FormatDateFunc, args: []cty.Value{format, ts}, orc: o}
		c.skip = !ok && lenientOnly(ts.AsString())
		if !ok {
			c.wantErr = true
		} else if want, fok := refFormatDate(format.AsString(), t); fok {
			c.want = sv(o.nfc(want))
		} else {
			c.wantErr = true
			if strings.HasSuffix(format.AsString(), "''") {
				c.accSig = "formatdate-unterminated-literal-ending-in-escaped-quote"
			}
		}
		runGlue(ctx, c)
		// timeadd
		dur := sv(durs[r.Intn(len(durs))])
		if m := rfc3339Re.FindStringSubmatch(ts.AsString()); m != nil && m[7] != "" && r.Intn(2) == 0 {
			// a duration that brings the sum exactly onto a whole second: the only place where the
			// sub-second part of the parsed timestamp is visible in the RFC 3339 result
			fr := (m[7][1:] + "000000000")[:9]
			ns, _ := strconv.Atoi(fr)
			if r.Intn(2) == 0 {
				dur = sv(fmt.Sprintf("%dns", 1000000000-ns))
			} else {
				dur = sv(fmt.Sprintf("-%dns", ns))
			}
			ctx.Tag("timeadd:onto-whole-second")
		}
		o = newOracle()
		t, ok = o.parseTimestamp(ts.AsString())
		c = glueCase{name: "timeadd", goNm: "TimeAdd", f: stdlib.TimeAddFunc, args: []cty.Value{ts, dur}, orc: o}
		c.skip = !ok && lenientOnly(ts.AsString())
		if !ok {
			c.wantErr = true
		} else {
			d, err := time.ParseDuration(dur.AsString())
			o.add("parseDuration", []string{dur.AsString()}, encBool(err == nil))
			if err != nil {
				c.wantErr = true
			} else {
				lib := t.Add(d).Format(time.RFC3339)
				o.add("timeAdd", []string{ts.AsString(), dur.AsString()}, encStr(lib))
				c.want = sv(o.nfc(lib))
			}
		}
		runGlue(ctx, c)
	}
}

// c14TimeAddFractions: timestamps with 4 to 9 fraction digits plus the duration that lands exactly on a
// whole second (from below and from above), against time.Parse / Add / Format.
func c14TimeAddFractions(ctx *Ctx, n int) {
	r := ctx.R
	for i := 0; i < n; i++ {
		k := 4 + r.Intn(6)
		fr := ""
		for j := 0; j < k; j++ {
			fr += string(rune('0' + r.Intn(10)))
		}
		ns, _ := strconv.Atoi((fr + "000000000")[:9])
		ts := fmt.Sprintf("2020-%02d-%02dT%02d:%02d:%02d.%sZ", 1+r.Intn(12), 1+r.Intn(28), r.Intn(24), r.Intn(60), r.Intn(60), fr)
		for _, dur := range []string{fmt.Sprintf("%dns", 1000000000-ns), fmt.Sprintf("-%dns", ns)} {
			o := newOracle()
			t, ok := o.parseTimestamp(ts)
			d, err := time.ParseDuration(dur)
			o.add("parseDuration", []string{dur}, encBool(err == nil))
			if !ok || err != nil {
				continue
			}
			lib := t.Add(d).Format(time.RFC3339)
			o.add("timeAdd", []string{ts, dur}, encStr(lib))
			ctx.Tag("timeadd:fraction-onto-whole-second")
			runGlue(ctx, glueCase{name: "timeadd", goNm: "TimeAdd", f: stdlib.TimeAddFunc, args: []cty.Value{sv(ts), sv(dur)}, orc: o, want: sv(o.nfc(lib))})
		}
	}
}

// ---- csvdecode ----------------------------------------------------------------------

func csvReadAll(s string, fields int) (recs [][]string, failed bool) {
	cr := csv.NewReader(strings.NewReader(s))
	cr.FieldsPerRecord = fields
	for {
		rec, err := cr.Read()
		if err == io.EOF {
			return recs, false
		}
		if err != nil {
			return recs, true
		}
		recs = append(recs, rec)
	}
}

func encRecs(recs [][]string, failed bool) string {
	ws := make([]string, len(recs))
	for i, r := range recs {
		ws[i] = encStrs(r)
	}
	return "(" + encBool(failed) + " (" + strings.Join(ws, " ") + "))"
}

func c14Csv(ctx *Ctx, n int) {
	r := ctx.R
	cells := []string{"a", "b", "c", "1", "", "x y", "\"q\"\"q\"", "é", "é", "\"a,b\"", "\"l1\nl2\"", " ", "👍", "a\"b", "\"open"}
	for i := 0; i < n; i++ {
		cols := 1 + r.Intn(3)
		rows := r.Intn(4)
		var sb strings.Builder
		for y := 0; y <= rows; y++ {
			k := cols
			if r.Intn(15) == 0 {
				k = 1 + r.Intn(4)
			}
			for x := 0; x < k; x++ {
				if x > 0 {
					sb.WriteByte(',')
				}
				if y == 0 && r.Intn(4) != 0 {
					sb.WriteString([]string{"a", "b", "c", "id", "é", "é", "n m"}[r.Intn(7)])
				} else {
					sb.WriteString(cells[r.Intn(len(cells))])
				}
			}
			sb.WriteString([]string{"\n", "\r\n", "\n", "\n\n"}[r.Intn(4)])
		}
		s := sb.String()
		switch r.Intn(20) {
		case 0:
			s = ""
		case 1:
			s = strings.TrimRight(s, "\r\n")
		}
		a := sv(s)
		in := a.AsString()
		o := newOracle()
		c := glueCase{name: "csvdecode", goNm: "CSVDecode", f: stdlib.CSVDecodeFunc, args: []cty.Value{a}, orc: o}
		hr := csv.NewReader(strings.NewReader(in))
		hdr, err := hr.Read()
		switch {
		case err == io.EOF:
			o.add("csvHeader", []string{in}, "eof")
		case err != nil:
			o.add("csvHeader", []string{in}, "err")
		default:
			o.add("csvHeader", []string{in}, encStrs(hdr))
			distinct := map[string]bool{}
			for _, h := range hdr {
				distinct[o.nfc(h)] = true
			}
			for _, k := range []int{len(hdr), len(distinct)} {
				recs, failed := csvReadAll(in, k)
				o.add("csvAll", []string{in, strconv.Itoa(k)}, encRecs(recs, failed))
				// the law about encoding/csv that C14.csvdecode_never_panics assumes: with FieldsPerRecord = k > 0 every
				// record delivered before the first error has exactly k fields
				okRecs := true
				for _, rec := range recs {
					if k > 0 && len(rec) != k {
						okRecs = false
					}
				}
				ctx.Probe("csv-fields-per-record", okRecs, fmt.Sprintf("csv.Reader{FieldsPerRecord: %d} on %q delivered %v", k, in, recs))
			}
		}
		// reference: encoding/csv's own ReadAll (first record fixes the field count)
		all, aerr := csv.NewReader(strings.NewReader(in)).ReadAll()
		dup := false
		seen := map[string]bool{}
		nseen := map[string]bool{}
		for _, h := range hdr {
			if seen[h] {
				dup = true
			}
			seen[h] = true
			nseen[norm.NFC.String(h)] = true
		}
		switch {
		case aerr != nil || len(all) == 0 || dup:
			c.wantErr = true
		case len(nseen) != len(seen):
			// distinct column names that normalise to the same attribute name: not specified
			c.skip = true
			ctx.Tag("csv:nfc-colliding-headers")
		default:
			atys := map[string]cty.Type{}
			for _, h := range all[0] {
				atys[h] = cty.String
			}
			ety := cty.Object(atys)
			var vals []cty.Value
			for _, rec := range all[1:] {
				m := map[string]cty.Value{}
				for j, cell := range rec {
					m[all[0][j]] = sv(o.nfc(cell))
				}
				vals = append(vals, cty.ObjectVal(m))
			}
			if len(vals) == 0 {
				c.want = cty.ListValEmpty(ety)
			} else {
				c.want = cty.ListVal(vals)
			}
		}
		runGlue(ctx, c)
	}
}

func imin(a, b int) int {
	if a < b {
		return a
	}
	return b
}
