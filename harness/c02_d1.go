package main

// C02, deepening (d02): cases the new theorems talk about that the generators of c02.go / c02b.go do not reach.
//   * GetAttr with the attribute name given in a non-NFC spelling, as a CORRESPONDENCE case (the normal form is an
//     oracle column: `name = NormalizeString(name)` is the first step of the model of GetAttr here);
//   * the six comparison methods on one exact value carried at two precisions and on two values that print alike
//     (the witnesses of C02.equality_text_counterexample / _coarse, reached through ordinary operations);
//   * Modulo on whole numbers held at float64 precision beyond 2^53, and on fractional operands, against the exact
//     remainder of truncated division computed with math/big.Int / big.Rat;
//   * division results judged against the exact quotient rounded to max(prec) bits (nearest even) — the pinned form
//     of the half-ulp predicate of c02.go;
//   * wrong-typed operands at EVERY position of every type-checked method.

import (
	"fmt"
	"math"
	"math/big"

	"github.com/zclconf/go-cty/cty"
	"golang.org/x/text/unicode/norm"
)

// roundNE rounds the positive rational n/d to p significant bits, nearest even, exactly.
// withinHalfUlp: |f - exact| <= half a unit in the last place of a p-bit float of exact's magnitude.
func withinHalfUlp(f *big.Float, exact *big.Rat, p uint) bool {
	if f.IsInf() {
		return false
	}
	fr, _ := f.Rat(nil)
	diff := new(big.Rat).Sub(fr, exact)
	diff.Abs(diff)
	e := roundNE(exact, p).MantExp(nil) // value = m * 2^e, 0.5 <= |m| < 1, so one ulp at p bits is 2^(e-p)
	half := new(big.Rat).SetInt64(1)
	k := e - int(p) - 1
	if k >= 0 {
		half.SetInt(new(big.Int).Lsh(big.NewInt(1), uint(k)))
	} else {
		half.SetFrac(big.NewInt(1), new(big.Int).Lsh(big.NewInt(1), uint(-k)))
	}
	return diff.Cmp(half) <= 0
}

func roundNE(r *big.Rat, p uint) *big.Float {
	f := new(big.Float).SetPrec(p).SetMode(big.ToNearestEven)
	f.SetRat(r) // big.Float.SetRat is correctly rounded (quotient of two exact big.Floats at precision p)
	return f
}

// mantText prints the mantissa (in [0.5, 1)) of a number exactly, for a replayable Go literal.
func mantText(v cty.Value) string {
	m := new(big.Float)
	v.AsBigFloat().MantExp(m)
	return m.Text('g', -1)
}

func c02Deep(ctx *Ctx) {
	// --- regression case: the recorded HasElement miss (C03 hash-coherence root cause), deterministically ------------
	{
		ms := []cty.Value{cty.NumberIntVal(0), cty.NumberFloatVal(0.5), cty.NumberFloatVal(3.9477794105)}
		probe := cty.MustParseNumberVal("3.9477794105")
		ctx.Eval("sethas-regression "+encVal(probe), true)
		ctx.Tag("d02:haselement-hash-regression")
		c02HasElementRef(ctx, cty.SetVal(ms), ms, probe)
		// whole numbers at two precisions hash alike: must be found
		ms2 := []cty.Value{cty.NumberIntVal(7), cty.NumberFloatVal(0.5)}
		c02HasElementRef(ctx, cty.SetVal(ms2), ms2, cty.MustParseNumberVal("7"))
		c02HasElementRef(ctx, cty.SetVal(ms2), ms2, cty.MustParseNumberVal("0.5"))
	}
	// --- GetAttr, non-NFC names: correspondence ---------------------------------------------------------------
	for si, sp := range c02Spellings {
		raw, nfc := sp[0], sp[1]
		for _, built := range []string{raw, nfc} {
			ov := cty.ObjectVal(map[string]cty.Value{built: cty.NumberIntVal(int64(si)), "plain": cty.True})
			for _, asked := range []string{raw, nfc, "plain", "nope"} {
				out, _, _ := opOut(func() cty.Value { return ov.GetAttr(asked) })
				ctx.Add("d02.getattr", out, encVal(ov), encStr(asked), encStr(norm.NFC.String(asked)))
				ctx.Tag("d02:getattr-nfc")
			}
		}
	}

	// --- comparison methods on equal values at two precisions / on values that print alike -----------------------
	f01 := cty.NumberFloatVal(0.1)
	same512 := f01.Multiply(cty.MustParseNumberVal("1"))                       // float64 0.1 carried at 512 bits
	coarse := cty.NumberVal(new(big.Float).SetPrec(24).SetFloat64(0.1))         // 0.1 at 24 bits: another value, prints "0.1"
	third := cty.NumberFloatVal(1.0).Divide(cty.NumberIntVal(3))                // 1/3 at 64 bits
	third512 := third.Multiply(cty.MustParseNumberVal("1"))
	pairs := [][2]cty.Value{{f01, same512}, {same512, f01}, {f01, coarse}, {coarse, f01}, {third, third512}, {f01, f01},
		{cty.NumberIntVal(3), cty.MustParseNumberVal("3")}, {cty.NumberFloatVal(2.5), cty.MustParseNumberVal("2.5")}}
	for _, pr := range pairs {
		a, b := pr[0], pr[1]
		wa, wb := encVal(a), encVal(b)
		c := a.AsBigFloat().Cmp(b.AsBigFloat())
		ctx.Tag("d02:cmp-two-precisions")
		type m struct {
			name string
			op   string
			f    func() cty.Value
			want bool
		}
		for _, x := range []m{
			{"lt", "op.lt", func() cty.Value { return a.LessThan(b) }, c < 0},
			{"gt", "op.gt", func() cty.Value { return a.GreaterThan(b) }, c > 0},
			{"le", "op.le", func() cty.Value { return a.LessThanOrEqualTo(b) }, c <= 0},
			{"ge", "op.ge", func() cty.Value { return a.GreaterThanOrEqualTo(b) }, c >= 0},
			{"eq", "op.equals", func() cty.Value { return a.Equals(b) }, c == 0},
			{"ne", "op.notequal", func() cty.Value { return a.NotEqual(b) }, c != 0},
		} {
			out, res, p := opOut(x.f)
			ctx.Add(x.op, out, wa, wb)
			ctx.Eval("cmpm "+x.name+" "+wa+" "+wb, !p)
			if p || !res.IsKnown() || res.IsNull() || res.Type() != cty.Bool || res.True() != x.want {
				sig := "cmp-method:" + x.name
				if x.name != "lt" && x.name != "gt" {
					// LessThanOrEqualTo / GreaterThanOrEqualTo / Equals / NotEqual go through rawNumberEqual
					sig = "cmp-method-by-text-equality"
				}
				ctx.Fail(Failure{Site: "compare", Sig: sig, What: "comparison method disagrees with exact comparison of the two values (big.Float.Cmp = " + fmt.Sprint(c) + ")",
					Input: x.name + " " + wa + " " + wb, GoLit: fmt.Sprintf("%#v ; %#v", a, b), Outcome: out})
			}
		}
	}

	// --- Modulo beyond the dividend's precision -------------------------------------------------------------------
	type mc struct{ x, y cty.Value }
	var mods []mc
	mods = append(mods, mc{cty.NumberFloatVal(1e17), cty.NumberIntVal(7)}, mc{cty.NumberFloatVal(math.Pow(2, 60)), cty.NumberIntVal(3)},
		mc{cty.NumberFloatVal(math.Pow(2, 53) + 2), cty.NumberIntVal(3)}, mc{cty.NumberFloatVal(5.5), cty.NumberIntVal(2)},
		mc{cty.NumberFloatVal(-7.25), cty.NumberFloatVal(0.5)}, mc{cty.MustParseNumberVal("100000000000000000"), cty.NumberIntVal(7)})
	for i := 0; i < ctx.N(300, 6000); i++ {
		// whole numbers held at float64 precision, 2^40 … 2^75, small whole divisors
		e := 40 + ctx.R.Intn(36)
		xf := math.Ldexp(1+ctx.R.Float64(), e)
		if ctx.R.Intn(2) == 0 {
			xf = -xf
		}
		y := int64(ctx.R.Intn(2000) - 1000)
		if y == 0 {
			y = 7
		}
		mods = append(mods, mc{cty.NumberFloatVal(math.Trunc(xf)), cty.NumberIntVal(y)})
	}
	for _, c := range mods {
		wx, wy := encVal(c.x), encVal(c.y)
		out, res, p := opOut(func() cty.Value { return c.x.Modulo(c.y) })
		ctx.Add("op.mod", out, wx, wy)
		key := "modp " + wx + " " + wy
		ctx.Eval(key, !p)
		lit := fmt.Sprintf("cty.NumberVal(new(big.Float).SetPrec(%d).SetMantExp(big.NewFloat(%s), %d)).Modulo(%#v)", c.x.AsBigFloat().Prec(), mantText(c.x), c.x.AsBigFloat().MantExp(nil), c.y)
		if p {
			ctx.Fail(Failure{Site: "modulo", Sig: "mod-panic", What: "modulo panicked on finite operands with a non-zero divisor", Input: key, GoLit: lit, Outcome: "panic"})
			continue
		}
		xr, yr := ratOf(c.x), ratOf(c.y)
		q := new(big.Rat).Quo(xr, yr)
		qi := new(big.Int).Quo(q.Num(), q.Denom()) // big.Int.Quo truncates toward zero
		want := new(big.Rat).Sub(xr, new(big.Rat).Mul(yr, new(big.Rat).SetInt(qi)))
		got := ratOf(res)
		big53 := c.x.AsBigFloat().MinPrec() > 0 && new(big.Float).Abs(c.x.AsBigFloat()).Cmp(big.NewFloat(math.Pow(2, 53))) > 0
		if big53 {
			ctx.Tag("d02:mod-dividend-beyond-2^53")
		} else {
			ctx.Tag("d02:mod-small")
		}
		if got == nil || got.Cmp(want) != 0 {
			ctx.Fail(Failure{Site: "modulo", Sig: "mod-rounded-at-dividend-precision", What: "Modulo is not the remainder of truncated division: the quotient is rounded before it is truncated and the product/difference are rounded to the dividend's precision",
				Input: key, GoLit: lit, Outcome: res.GoString() + " want " + want.RatString()})
		}
	}

	// --- Divide: the exact quotient rounded (nearest even) to exactly max(prec) bits ------------------------------
	for i := 0; i < ctx.N(1500, 40000); i++ {
		a, b := genNumber(ctx.R, ValOpts{}), genNumber(ctx.R, ValOpts{})
		ra, rb := ratOf(a), ratOf(b)
		if ra == nil || rb == nil || rb.Sign() == 0 || ra.Sign() == 0 {
			continue
		}
		var res cty.Value
		if p, _ := try(func() { res = a.Divide(b) }); p {
			continue // reported by c02Arith
		}
		p := a.AsBigFloat().Prec()
		if q := b.AsBigFloat().Prec(); q > p {
			p = q
		}
		want := roundNE(new(big.Rat).Quo(ra, rb), p)
		ctx.Eval("divpin "+encVal(a)+" "+encVal(b), true)
		ctx.Tag("d02:div-pinned")
		// The property speaks of the value ("to within the precision of the operands"); the precision the result is stored
		// at is compared by the num.quo correspondence, and a drift there alone is a broken tie, not a failing input.
		if res.AsBigFloat().Cmp(want) != 0 && !withinHalfUlp(res.AsBigFloat(), new(big.Rat).Quo(ra, rb), p) {
			ctx.Fail(Failure{Site: "arith-halfulp", Sig: "pinned:quo", What: "the quotient is not within half a unit in the last place (at max(precisions) bits) of the exact quotient",
				Input: encVal(a) + " " + encVal(b), GoLit: fmt.Sprintf("%#v ; %#v", a, b), Outcome: res.GoString() + " want " + want.Text('g', 40)})
		}
	}

	// --- Divide / Modulo on the 64-bit and 32-bit boundaries: whole quotients that fit are exact, remainders are truncated-division remainders
	{
		grid := []int64{math.MinInt64, math.MinInt64 + 1, math.MaxInt64, math.MaxInt64 - 1, math.MinInt32, math.MaxInt32, -(1 << 53), 1 << 53, 1<<53 + 1, -3, -2, -1, 1, 2, 3, 7, 1 << 31, 1 << 32, -(1 << 62), 1 << 62}
		for _, x := range grid {
			for _, y := range grid {
				a, b := cty.NumberIntVal(x), cty.NumberIntVal(y)
				key := fmt.Sprintf("int64grid %d %d", x, y)
				lit := fmt.Sprintf("cty.NumberIntVal(%d) ; cty.NumberIntVal(%d)", x, y)
				ctx.Eval(key, true)
				ctx.Tag("d02:int64-boundary-grid")
				bx, by := big.NewInt(x), big.NewInt(y)
				q, r := new(big.Int).QuoRem(bx, by, new(big.Int))
				var dv, mv cty.Value
				if p, _ := try(func() { dv = a.Divide(b); mv = a.Modulo(b) }); p {
					ctx.Fail(Failure{Site: "arith-exact-int", Sig: "int64grid-panic", What: "Divide / Modulo panicked on whole 64-bit operands with a non-zero divisor", Input: key, GoLit: lit, Outcome: "panic"})
					continue
				}
				if r.Sign() == 0 { // whole quotient of at most 65 bits: fits every precision cty uses, so it is exact
					if got := ratOf(dv); got == nil || got.Cmp(new(big.Rat).SetInt(q)) != 0 {
						ctx.Fail(Failure{Site: "arith-exact-int", Sig: "int64grid:quo", What: "a whole quotient of two 64-bit integers is not exact", Input: key, GoLit: lit, Outcome: dv.GoString() + " want " + q.String()})
					}
				}
				if got := ratOf(mv); got == nil || got.Cmp(new(big.Rat).SetInt(r)) != 0 {
					ctx.Fail(Failure{Site: "modulo", Sig: "int64grid:mod", What: "Modulo of two 64-bit integers is not the remainder of truncated division", Input: key, GoLit: lit, Outcome: mv.GoString() + " want " + r.String()})
				}
			}
		}
	}

	// --- wrong-typed operands, every position ------------------------------------------------------------------------
	wrong := []cty.Value{cty.StringVal("1"), cty.True, cty.ListValEmpty(cty.Number), cty.EmptyObjectVal, cty.NullVal(cty.String), cty.UnknownVal(cty.Bool)}
	okNum := []cty.Value{cty.NumberIntVal(2), cty.UnknownVal(cty.Number), cty.DynamicVal, cty.NullVal(cty.Number), cty.NumberIntVal(1).Mark("m")}
	okBool := []cty.Value{cty.True, cty.UnknownVal(cty.Bool), cty.DynamicVal, cty.False.Mark("m")}
	type bop struct {
		name string
		f    func(a, b cty.Value) cty.Value
		num  bool
	}
	bops := []bop{{"add", cty.Value.Add, true}, {"sub", cty.Value.Subtract, true}, {"mul", cty.Value.Multiply, true}, {"div", cty.Value.Divide, true},
		{"mod", cty.Value.Modulo, true}, {"lt", cty.Value.LessThan, true}, {"gt", cty.Value.GreaterThan, true}, {"le", cty.Value.LessThanOrEqualTo, true},
		{"ge", cty.Value.GreaterThanOrEqualTo, true}, {"and", cty.Value.And, false}, {"or", cty.Value.Or, false}}
	for _, o := range bops {
		goods := okBool
		if o.num {
			goods = okNum
		}
		for _, w := range wrong {
			if !o.num && w.Type() == cty.Bool {
				continue
			}
			for _, g := range goods {
				for pos := 0; pos < 2; pos++ {
					a, b := w, g
					if pos == 1 {
						a, b = g, w
					}
					out, _, p := opOut(func() cty.Value { return o.f(a, b) })
					ctx.Add("op."+o.name, out, encVal(a), encVal(b))
					ctx.Eval(fmt.Sprintf("wrongtype %s %d %s %s", o.name, pos, encVal(a), encVal(b)), true)
					ctx.Tag("d02:wrong-type")
					if !p {
						ctx.Fail(Failure{Site: "wrong-type", Sig: "wrong-type-accepted:" + o.name, What: "an operand of the wrong type yielded a value", Input: o.name + " " + encVal(a) + " " + encVal(b),
							GoLit: fmt.Sprintf("%#v ; %#v", a, b), Outcome: out})
					}
				}
			}
		}
	}
	type uop struct {
		name string
		f    func(a cty.Value) cty.Value
		num  bool
	}
	for _, o := range []uop{{"neg", cty.Value.Negate, true}, {"abs", cty.Value.Absolute, true}, {"not", cty.Value.Not, false}} {
		for _, w := range wrong {
			if !o.num && w.Type() == cty.Bool {
				continue
			}
			out, _, p := opOut(func() cty.Value { return o.f(w) })
			ctx.Add("op."+o.name, out, encVal(w))
			ctx.Eval("wrongtype "+o.name+" "+encVal(w), true)
			ctx.Tag("d02:wrong-type")
			if !p {
				ctx.Fail(Failure{Site: "wrong-type", Sig: "wrong-type-accepted:" + o.name, What: "an operand of the wrong type yielded a value", Input: o.name + " " + encVal(w), GoLit: fmt.Sprintf("%#v", w), Outcome: out})
			}
		}
	}
	// lookups: receivers that cannot be indexed, keys of the wrong type, GetAttr on a non-object
	recvBad := []cty.Value{cty.StringVal("s"), cty.NumberIntVal(1), cty.True, cty.SetVal([]cty.Value{cty.True}), cty.EmptyObjectVal}
	for _, v := range recvBad {
		for _, k := range []cty.Value{cty.NumberIntVal(0), cty.StringVal("a"), cty.DynamicVal} {
			for _, nm := range []string{"index", "hasindex"} {
				out, _, p := opOut(func() cty.Value {
					if nm == "index" {
						return v.Index(k)
					}
					return v.HasIndex(k)
				})
				ctx.Add("op."+nm, out, encVal(v), encVal(k))
				ctx.Eval("wrongrecv "+nm+" "+encVal(v)+" "+encVal(k), true)
				ctx.Tag("d02:wrong-receiver")
				if !p {
					ctx.Fail(Failure{Site: "wrong-type", Sig: "wrong-receiver-accepted:" + nm, What: "Index/HasIndex on a value that is not a list, map or tuple yielded a value", Input: encVal(v) + " " + encVal(k), GoLit: fmt.Sprintf("%#v ; %#v", v, k), Outcome: out})
				}
			}
		}
	}
	lst := cty.ListVal([]cty.Value{cty.StringVal("a")})
	tup := cty.TupleVal([]cty.Value{cty.StringVal("a")})
	mp := cty.MapVal(map[string]cty.Value{"a": cty.True})
	for _, c := range []struct{ v, k cty.Value }{{lst, cty.StringVal("0")}, {lst, cty.True}, {tup, cty.StringVal("0")}, {tup, cty.NullVal(cty.String)},
		{mp, cty.NumberIntVal(0)}, {mp, cty.True}, {lst.Mark("m"), cty.StringVal("0")}, {mp, cty.ListValEmpty(cty.String)}} {
		out, _, p := opOut(func() cty.Value { return c.v.Index(c.k) })
		ctx.Add("op.index", out, encVal(c.v), encVal(c.k))
		ctx.Eval("wrongkey "+encVal(c.v)+" "+encVal(c.k), true)
		ctx.Tag("d02:wrong-key")
		if !p {
			ctx.Fail(Failure{Site: "wrong-type", Sig: "wrong-key-accepted:index", What: "Index with a key of the wrong type yielded a value", Input: encVal(c.v) + " " + encVal(c.k), GoLit: fmt.Sprintf("%#v ; %#v", c.v, c.k), Outcome: out})
		}
	}
	for _, v := range []cty.Value{cty.StringVal("s"), lst, mp, tup, cty.NumberIntVal(1)} {
		out, _, p := opOut(func() cty.Value { return v.GetAttr("a") })
		ctx.Add("op.getattr", out, encVal(v), encStr("a"))
		ctx.Eval("wrongrecv getattr "+encVal(v), true)
		ctx.Tag("d02:wrong-receiver")
		if !p {
			ctx.Fail(Failure{Site: "wrong-type", Sig: "wrong-receiver-accepted:getattr", What: "GetAttr on a value that is not an object yielded a value", Input: encVal(v), GoLit: fmt.Sprintf("%#v", v), Outcome: out})
		}
	}
}

// ---- pinned precision: every arithmetic result against the exact rational result rounded where the model pins it ----

// c02PinnedPairs: operand pairs aimed at the precision decisions: whole numbers held at float64 (53-bit) and lower
// precisions whose product / sum / difference needs 54..64 or 65..128 bits, int64-built pairs whose product needs
// 65..128 bits, 512-bit parsed integers, and mixed precisions.
func c02PinnedPairs(ctx *Ctx) [][2]cty.Value {
	var out [][2]cty.Value
	lit := [][2]float64{{4294967295, 4294967295}, {134217729, 134217729}, {9007199254740991, 3}, {9007199254740991, 9007199254740991},
		{9007199254740991, 1}, {4503599627370497, 4503599627370495}, {94906267, 94906265}, {3, 6004799503160661}}
	for _, l := range lit {
		out = append(out, [2]cty.Value{cty.NumberFloatVal(l[0]), cty.NumberFloatVal(l[1])})
		out = append(out, [2]cty.Value{cty.NumberFloatVal(-l[0]), cty.NumberFloatVal(l[1])})
	}
	n := ctx.N(1200, 30000)
	for i := 0; i < n; i++ {
		// two odd whole numbers of ba and bb bits
		ba, bb := 1+ctx.R.Intn(53), 1+ctx.R.Intn(53)
		switch ctx.R.Intn(4) {
		case 0: // product needs 54..64 bits
			ba = 27 + ctx.R.Intn(11)
			bb = 54 + ctx.R.Intn(11) - ba
			if bb > 53 {
				bb = 53
			}
			if bb < 1 {
				bb = 1
			}
		case 1: // product needs 65..106 bits
			ba = 33 + ctx.R.Intn(21)
			bb = 33 + ctx.R.Intn(21)
		}
		mk := func(bits int) float64 {
			if bits <= 1 {
				return 1
			}
			v := (uint64(1) << uint(bits-1)) | (ctx.R.Uint64() & ((uint64(1) << uint(bits-1)) - 1)) | 1
			return float64(v) // exact: bits ≤ 53
		}
		x, y := mk(ba), mk(bb)
		if ctx.R.Intn(3) == 0 {
			x = -x
		}
		var a, b cty.Value
		switch ctx.R.Intn(6) {
		case 0: // low precision holders
			pa := uint(ba + ctx.R.Intn(4))
			pb := uint(bb + ctx.R.Intn(4))
			a = cty.NumberVal(new(big.Float).SetPrec(pa).SetFloat64(x))
			b = cty.NumberVal(new(big.Float).SetPrec(pb).SetFloat64(y))
		case 1: // int64-built (64-bit precision): ofInt a ⊗ ofInt b
			xi := ctx.R.Int63() >> uint(ctx.R.Intn(40))
			yi := ctx.R.Int63() >> uint(ctx.R.Intn(40))
			if ctx.R.Intn(2) == 0 {
				xi = -xi
			}
			a, b = cty.NumberIntVal(xi), cty.NumberIntVal(yi)
		case 2: // mixed: float64-derived × int64-built
			a, b = cty.NumberFloatVal(x), cty.NumberIntVal(int64(y))
		case 3: // mixed: float64-derived × 512-bit parsed
			a, b = cty.NumberFloatVal(x), cty.MustParseNumberVal(fmt.Sprintf("%.0f", y))
		default:
			a, b = cty.NumberFloatVal(x), cty.NumberFloatVal(y)
		}
		out = append(out, [2]cty.Value{a, b})
	}
	for i := 0; i < ctx.N(800, 20000); i++ {
		out = append(out, [2]cty.Value{genNumber(ctx.R, ValOpts{}), genNumber(ctx.R, ValOpts{})})
	}
	return out
}

func c02Pinned(ctx *Ctx) {
	for _, pr := range c02PinnedPairs(ctx) {
		a, b := pr[0], pr[1]
		ra, rb := ratOf(a), ratOf(b)
		if ra == nil || rb == nil {
			continue
		}
		wa, wb := numWire(a), numWire(b)
		pa, pb := a.AsBigFloat().Prec(), b.AsBigFloat().Prec()
		pmax := pa
		if pb > pmax {
			pmax = pb
		}
		lit := fmt.Sprintf("%#v ; %#v (precisions %d, %d)", a, b, pa, pb)
		type pin struct {
			name  string
			f     func() cty.Value
			exact *big.Rat
		}
		for _, o := range []pin{
			{"add", func() cty.Value { return a.Add(b) }, new(big.Rat).Add(ra, rb)},
			{"sub", func() cty.Value { return a.Subtract(b) }, new(big.Rat).Sub(ra, rb)},
			{"mul", func() cty.Value { return a.Multiply(b) }, new(big.Rat).Mul(ra, rb)},
		} {
			var res cty.Value
			panicked, _ := try(func() { res = o.f() })
			impl := "panic"
			if !panicked {
				impl = "ok " + numWire(res)
			}
			ctx.Add("num."+o.name, impl, wa, wb)
			key := "pin " + o.name + " " + wa + " " + wb
			ctx.Eval(key, !panicked)
			if panicked {
				ctx.Fail(Failure{Site: "arith-total", Sig: "panic:" + o.name, What: "arithmetic on finite operands panicked", Input: key, GoLit: lit, Outcome: "panic"})
				continue
			}
			f := res.AsBigFloat()
			bits := 0
			if o.exact.Sign() != 0 && o.exact.IsInt() {
				bits = o.exact.Num().BitLen()
			}
			switch {
			case bits == 0:
				ctx.Tag("d02:pinned-" + o.name + "-other")
			case bits <= 53:
				ctx.Tag("d02:pinned-" + o.name + "-int<=53bits")
			case bits <= 64:
				ctx.Tag("d02:pinned-" + o.name + "-int-54..64bits")
			case bits <= 128:
				ctx.Tag("d02:pinned-" + o.name + "-int-65..128bits")
			default:
				ctx.Tag("d02:pinned-" + o.name + "-int>128bits")
			}
			if pmax == 0 {
				continue // two zero-precision zeros
			}
			var want *big.Float
			var wantPrec uint
			if o.name == "mul" {
				// cty pins: the exact product rounded at 512 bits, stored at max(operand precisions, bits it needs)
				want = roundNE(o.exact, 512)
				wantPrec = pmax
				if mp := want.MinPrec(); mp > wantPrec {
					wantPrec = mp
				}
			} else {
				want = roundNE(o.exact, pmax)
				wantPrec = pmax
			}
			if f.IsInf() || f.Cmp(want) != 0 {
				ctx.Fail(Failure{Site: "arith-pinned", Sig: "pinned-value:" + o.name, What: "the result is not the exact result rounded (nearest even) at the precision the operation pins (add/sub: max of the operand precisions; mul: 512 bits)",
					Input: key, GoLit: lit, Outcome: res.GoString() + " want " + want.Text('g', 60) + " exact " + o.exact.RatString()})
			} else if f.Prec() != wantPrec {
				ctx.Fail(Failure{Site: "arith-pinned", Sig: "pinned-prec:" + o.name, What: "the result does not carry the documented precision (add/sub: max of the operand precisions; mul: max of them and the bits the product needs)",
					Input: key, GoLit: lit, Outcome: fmt.Sprintf("%s prec %d want %d", res.GoString(), f.Prec(), wantPrec)})
			}
			// integer exactness: a whole result that fits the pinned precision is exact
			fitsAt := uint(512)
			if o.name != "mul" {
				fitsAt = pmax
			}
			if o.exact.IsInt() && uint(o.exact.Num().BitLen()) <= fitsAt {
				rr, _ := f.Rat(nil)
				if rr.Cmp(o.exact) != 0 {
					ctx.Fail(Failure{Site: "arith-exact-int", Sig: "exactint-pinned:" + o.name, What: "a whole-number result that fits the pinned precision is not exact",
						Input: key, GoLit: lit, Outcome: res.GoString() + " exact " + o.exact.RatString()})
				}
			}
		}
	}
}
