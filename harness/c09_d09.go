package main

import (
	"fmt"
	"math/rand"
	"sort"

	"github.com/zclconf/go-cty/cty"
)

// d09: shapes the C09 theorems added by slice d09 talk about, with their distribution:
//   - lists and tuples (of DIFFERENT lengths) next to a bare DynamicPseudoType member: the
//     fallback of unifyTuplesAsList (C09.nil_iff_equal_unsafe_at, …_placeholder_witness);
//   - tuples only, of different lengths, nested (unifyTupleTypesToList at every level);
//   - objects whose (nested) attribute sets differ (unifyObjectTypesToMap at every level);
//   - deep chains, so that `unifyTy`'s fuel (C09.fuel_enough) is exercised well past the
//     depth of the other generators.

func c09d09Prim(r *rand.Rand) cty.Type {
	return []cty.Type{cty.String, cty.Number, cty.Bool, cty.String}[r.Intn(4)]
}

func c09d09Tuple(r *rand.Rand, depth int) cty.Type {
	es := make([]cty.Type, r.Intn(4))
	for i := range es {
		switch {
		case depth > 0 && r.Intn(3) == 0:
			es[i] = c09d09Tuple(r, depth-1)
		case depth > 0 && r.Intn(5) == 0:
			es[i] = cty.List(c09d09Prim(r))
		default:
			es[i] = c09d09Prim(r)
		}
	}
	return cty.Tuple(es)
}

func c09d09Object(r *rand.Rand, depth int) cty.Type {
	names := []string{"a", "b", "c", "d"}
	m := map[string]cty.Type{}
	for _, n := range names {
		if r.Intn(2) == 0 {
			continue
		}
		switch {
		case depth > 0 && r.Intn(3) == 0:
			m[n] = c09d09Object(r, depth-1)
		case depth > 0 && r.Intn(6) == 0:
			m[n] = cty.Map(c09d09Prim(r))
		default:
			m[n] = c09d09Prim(r)
		}
	}
	return cty.Object(m)
}

// wrap t in k collection / structural layers
func c09d09Deep(r *rand.Rand, t cty.Type, k int) cty.Type {
	for i := 0; i < k; i++ {
		switch r.Intn(5) {
		case 0:
			t = cty.List(t)
		case 1:
			t = cty.Map(t)
		case 2:
			t = cty.Tuple([]cty.Type{t})
		case 3:
			t = cty.Object(map[string]cty.Type{"a": t})
		default:
			t = cty.Set(t)
		}
	}
	return t
}

func c09d09Tags(ctx *Ctx, tys []cty.Type) {
	bare, nested := false, false
	tupLens := map[int]bool{}
	attrSets := map[string]bool{}
	for _, t := range tys {
		if t == cty.DynamicPseudoType {
			bare = true
		} else if t.HasDynamicTypes() {
			nested = true
		}
		if t.IsTupleType() {
			tupLens[len(t.TupleElementTypes())] = true
		}
		if t.IsObjectType() {
			names := make([]string, 0)
			for n := range t.AttributeTypes() {
				names = append(names, n)
			}
			sort.Strings(names)
			attrSets[fmt.Sprint(names)] = true
		}
	}
	if bare {
		ctx.Tag("d09:bare-placeholder-member")
	}
	if nested {
		ctx.Tag("d09:nested-placeholder")
	}
	if len(tupLens) > 1 {
		ctx.Tag("d09:tuple-lengths-differ")
	}
	if len(attrSets) > 1 {
		ctx.Tag("d09:attribute-sets-differ")
	}
}

func c09D09(c *c09Run) {
	ctx := c.ctx
	r := ctx.R
	n := ctx.N(240, 4000)
	for i := 0; i < n; i++ {
		var tys []cty.Type
		switch i % 4 {
		case 0: // lists + tuples of different lengths + (mostly) a bare placeholder
			k := 2 + r.Intn(3)
			tys = make([]cty.Type, k)
			for j := range tys {
				if r.Intn(2) == 0 {
					tys[j] = cty.List(c09d09Prim(r))
				} else {
					tys[j] = c09d09Tuple(r, 1)
				}
			}
			tys[r.Intn(k)] = cty.List(c09d09Prim(r))
			tys[r.Intn(k)] = c09d09Tuple(r, 1)
			if r.Intn(4) != 0 {
				tys = append(tys, cty.DynamicPseudoType)
				j := r.Intn(len(tys))
				tys[j], tys[len(tys)-1] = tys[len(tys)-1], tys[j]
			}
			ctx.Tag("shape:d09-list-tuple-placeholder")
		case 1: // tuples only
			k := 2 + r.Intn(2)
			tys = make([]cty.Type, k)
			for j := range tys {
				tys[j] = c09d09Tuple(r, 2)
			}
			ctx.Tag("shape:d09-tuples")
		case 2: // objects only, attribute sets differ at some level
			k := 2 + r.Intn(2)
			tys = make([]cty.Type, k)
			for j := range tys {
				tys[j] = c09d09Object(r, 2)
			}
			if r.Intn(5) == 0 {
				tys[r.Intn(k)] = cty.Map(c09d09Prim(r))
			}
			ctx.Tag("shape:d09-objects")
		default: // deep chains around related leaves
			depth := 4 + r.Intn(5)
			a := c09d09Deep(rand.New(rand.NewSource(int64(i))), c09d09Prim(r), depth)
			b := c09d09Deep(rand.New(rand.NewSource(int64(i))), c09d09Prim(r), depth)
			tys = []cty.Type{a, b}
			if r.Intn(3) == 0 {
				tys = append(tys, c09d09Deep(rand.New(rand.NewSource(int64(i))), cty.DynamicPseudoType, depth))
			}
			ctx.Tag(fmt.Sprintf("shape:d09-deep:%d", depth))
		}
		c09d09Tags(ctx, tys)
		c.list(tys, 2)
	}
}
