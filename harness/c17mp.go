package main

// C17, MessagePack half — msgpack.Unmarshal and msgpack.ImpliedType on arbitrary bytes.
//
// Predicate = the property: (1) no panic and no crash (the decoders run in a worker sub-process,
// c17.go: a fatal error is an observation attributed to the input); (2) a returned value passes
// C06's public-accessor walk and the Lean judge Value.WF, TestConformance(target) is empty, its
// type carries no optional-attribute annotation; a returned implied type is usable; (3) the
// TotalAlloc delta around the call is <= c17mAllocK*len(input) + c17mAllocC.
//
// Correspondence: when the harness' own reader (c16mp.go) splits the bytes into exactly one item
// tree inside the item-level model (valid UTF-8 in str items, NFC strings, extension bodies that
// split into complete items) the outcome ok <value> / err / panic of the real code is compared with
// the Lean model through the driver ops d17.unmarshal (lean/CtyModel/d17Msgpack.lean: the decoder model of C17,
// which follows /repo bb6ac26) and mp.implied; d17.allocfit ties the allocation cost model to the measurement.

import (
	"regexp"
	"encoding/hex"
	"fmt"
	"math"
	"os"
	"strings"
	"time"

	"github.com/zclconf/go-cty/cty"
	"github.com/zclconf/go-cty/cty/msgpack"
)

type c17mCase struct {
	b     []byte
	t     cty.Type // NilType: ImpliedType only
	tag   string
	big   bool   // hand-made scalable input: no dump, no correspondence
	desc  string // big: how the input is described
	golit string // big: the replay
	want  string // regression cases: the required outcome of Unmarshal ("" = anything but a panic)
	fix   string
	cut   string // d17 cut-off documents: the model's wire form of the document (lean D17.Cut), for d17.cutfit
	per   int    // … and the least number of bytes one counted slot costs (32-byte cty.Value slots: 16; extension bodies: 1)
}

type c17m struct {
	ctx     *Ctx
	judge   *c06Judge
	pool    [][]byte // complete items of other encodings
	exts    [][]byte // extension items seen in real encodings
	cases   []c17mCase
	seen    map[string]bool
	maxR    float64
	okAfter int
	total   int
	corrN   int
}

func c17mLit(fn string, b []byte, t cty.Type) string {
	s := fmt.Sprintf("%q", b)
	if len(s) > 600 {
		s = s[:300] + "…" + s[len(s)-200:]
	}
	if t == cty.NilType {
		return fmt.Sprintf("%s([]byte(%s))", fn, s)
	}
	return fmt.Sprintf("%s([]byte(%s), %#v)", fn, s, t)
}

func c17mShort(b []byte) string {
	s := hex.EncodeToString(b)
	if len(s) > 300 {
		s = fmt.Sprintf("%s…(%d bytes)…%s", s[:160], len(b), s[len(s)-80:])
	}
	return "h" + s
}

func (c *c17mCase) input() string {
	if c.big {
		return c.desc + " " + c17mShort(c.b)
	}
	return c17mShort(c.b) + " " + c17jTyWire(c.t)
}

func (c *c17mCase) lit(fn string) string {
	if c.big {
		return c.golit
	}
	if fn == "msgpack.ImpliedType" {
		return c17mLit(fn, c.b, cty.NilType)
	}
	return c17mLit(fn, c.b, c.t)
}

func (m *c17m) add(c c17mCase) { m.cases = append(m.cases, c) }

// c17mForged counts the array / map / str / bin / ext headers of the input (at any byte offset: the
// bytes need not be a well-formed item sequence) that announce more members / bytes than the input
// has bytes left.  It names the root cause of an allocation beyond the bound.
func c17mForged(b []byte) int {
	cnt := 0
	for p := 0; p < len(b); p++ {
		var n uint64
		switch b[p] {
		case 0xdc, 0xde, 0xda, 0xc5, 0xc8:
			if p+3 > len(b) {
				continue
			}
			n = uint64(b[p+1])<<8 | uint64(b[p+2])
		case 0xdd, 0xdf, 0xdb, 0xc6, 0xc9:
			if p+5 > len(b) {
				continue
			}
			n = uint64(b[p+1])<<24 | uint64(b[p+2])<<16 | uint64(b[p+3])<<8 | uint64(b[p+4])
		default:
			continue
		}
		if n > uint64(len(b)-p) {
			cnt++
		}
	}
	return cnt
}

// c17mPerHeader: what ONE forged header may cost after /repo 9555bea: allocHint clamps the
// pre-allocation to 1024 members — 32 KiB for a slice of cty.Value, ~115 KiB for a Go map
const c17mPerHeader = 120000

// c17mAllocCause names the ROOT CAUSE of an allocation beyond the bound, from what was observed:
//
//	clamped-preallocation-at-every-forged-header   the input holds h >= 2 headers announcing more than is left of
//	                                  it and the allocation is within the bound + h * 120000: every such header
//	                                  is answered with a pre-allocation of allocHint(n) <= 1024 members before a
//	                                  single member has been read, so nested forged headers (4 bytes per level)
//	                                  cost ~29 KB per input byte
//	sized-by-unverified-length-header the input holds such headers and the allocation is beyond even that: a
//	                                  buffer sized by the announced length itself (what 9555bea / 12d5e4f repaired)
//	quadratic-in-nesting-depth        nested >= 64 deep and within the bound times the depth
//	decimal-expansion-of-huge-exponent a number text with an exponent of magnitude >= 10^4 and the allocation within 64 bytes
//	                                  per unit of exponent (set hash: big.Float.String())
//	unexpected                        anything else
func c17mAllocCause(b []byte, alloc, limit uint64) string {
	if h := c17mForged(b); h > 0 {
		if h >= 2 && alloc <= limit+uint64(h)*c17mPerHeader {
			return "clamped-preallocation-at-every-forged-header"
		}
		return "sized-by-unverified-length-header"
	}
	if d := c17mDepth(b); d >= 64 && alloc <= limit*uint64(d) {
		return "quadratic-in-nesting-depth"
	}
	if e := c17mSumExponents(b); e >= 10000 && alloc <= 64*e+limit {
		// the same root cause as the JSON half's finding: a number that travels as text with a large decimal
		// (e) or binary (p) exponent is cheap to parse and is expanded in decimal when a set hashes it
		return "decimal-expansion-of-huge-exponent"
	}
	return "unexpected"
}

var c17mExpRe = regexp.MustCompile(`[0-9a-fA-F.][eEpP][+-]?([0-9]{1,18})`)

// sum of the magnitudes of the decimal / binary exponents spelled in the document's number texts
func c17mSumExponents(b []byte) uint64 {
	var sum uint64
	for _, m := range c17mExpRe.FindAllSubmatch(b, -1) {
		var e uint64
		fmt.Sscanf(string(m[1]), "%d", &e)
		if e < 1<<31 {
			sum += e
		}
	}
	return sum
}

// bb6: the tree holds a refinement map that states both length bounds (the inputs /repo bb6ac26 is about)
func bb6(it *mpItem) bool {
	if it.kind == "ext" && it.code == 12 && it.hdr == "m" {
		lo, hi := false, false
		for k := 0; k+1 < len(it.xs); k += 2 {
			if x := it.xs[k]; (x.kind == "int" && x.i == 5) || (x.kind == "uint" && x.u == 5) {
				lo = true
			} else if (x.kind == "int" && x.i == 6) || (x.kind == "uint" && x.u == 6) {
				hi = true
			}
		}
		if lo && hi {
			return true
		}
	}
	for _, x := range it.xs {
		if bb6(x) {
			return true
		}
	}
	return false
}

func c17mDepth(b []byte) int {
	d := 0
	for _, s := range mpScan(b) {
		if s.depth > d {
			d = s.depth
		}
	}
	return d
}

func c17mCrashCause(why string) string {
	switch {
	case strings.Contains(why, "stack overflow") || strings.Contains(why, "goroutine stack exceeds"):
		return "unbounded-recursion-stack-overflow"
	case strings.Contains(why, "out of memory") || strings.Contains(why, "cannot allocate") || strings.Contains(why, "makeslice") || strings.Contains(why, "too large"):
		return "out-of-memory"
	}
	return "unexpected"
}

// flush runs the collected cases in worker processes and judges every observation.
func (m *c17m) flush() {
	cases := m.cases
	m.cases = nil
	if len(cases) == 0 {
		return
	}
	reqs := make([]c17Req, len(cases))
	for i, c := range cases {
		reqs[i] = c17Req{b: c.b, t: c.t}
	}
	obs, err := c17RunBatch(reqs, 30*time.Second)
	if err != nil {
		m.ctx.Probe("c17-worker-runs", false, err.Error())
		return
	}
	m.ctx.Probe("c17-worker-runs", true, "")
	for i := range cases {
		m.judgeCase(&cases[i], obs[i])
	}
}

func (m *c17m) judgeCase(c *c17mCase, o c17Obs) {
	ctx := m.ctx
	limit := uint64(c17mAllocK)*uint64(len(c.b)) + c17mAllocC
	type decRun struct {
		dec   string
		out   string
		alloc uint64
	}
	runs := []decRun{{"msgpack.ImpliedType", o.iOut, o.iAlloc}}
	if c.t != cty.NilType {
		runs = append(runs, decRun{"msgpack.Unmarshal", o.uOut, o.uAlloc})
	}
	safe := true
	for _, r := range runs {
		ctx.Tag(r.dec + ":" + r.out)
		switch r.out {
		case "crash", "timeout":
			safe = false
			cause := c17mCrashCause(o.why)
			if r.out == "timeout" {
				cause = "timeout"
			}
			if !o.confirmed {
				cause += ":not-confirmed-alone"
			}
			ctx.Fail(Failure{Site: "crash", Sig: r.dec + ":" + cause, What: "the decoder brings the process down (fatal error, not recoverable) on this input",
				Input: c.input(), GoLit: c.lit(r.dec), Outcome: r.out + " | " + o.why})
		case "panic":
			ctx.Fail(Failure{Site: "no-panic", Sig: r.dec + ":" + c17jPanicSig(o.why), What: r.dec + " panics on this input: " + o.why,
				Input: c.input(), GoLit: c.lit(r.dec), Outcome: "panic: " + o.why})
		}
		if r.out == "ok" || r.out == "err" || r.out == "panic" {
			if ratio := float64(r.alloc) / float64(len(c.b)+128); ratio > m.maxR && !c.big && c17mForged(c.b) == 0 {
				m.maxR = ratio
			}
			if r.alloc > limit {
				if r.alloc > 1<<28 {
					safe = false
				}
				cause := c17mAllocCause(c.b, r.alloc, limit)
				if cause == "unexpected" && r.dec == "msgpack.Unmarshal" && r.out == "ok" && c.t != cty.NilType && c17jHasSetOfCompound(c.t) && r.alloc <= 32*limit {
					// the requested type holds a set whose members are not primitive and the allocation is within 32 times
					// the bound: the root cause named in c17json.go (set.Values sorts compound members by setRules.Less,
					// which hashes both operands of every comparison, and hashing a set sorts the sets inside it again)
					cause = "set-of-compound-members-ordered-by-hash-at-every-traversal"
				}
				ctx.Fail(Failure{Site: "alloc", Sig: r.dec + ":" + cause,
					What:  fmt.Sprintf("%s allocated %d bytes for a %d-byte input: more than %d*len+%d", r.dec, r.alloc, len(c.b), c17mAllocK, c17mAllocC),
					Input: c.input(), GoLit: c.lit(r.dec), Outcome: fmt.Sprintf("%s alloc=%d len=%d", r.out, r.alloc, len(c.b))})
			}
		}
	}
	if c.cut != "" && c.t != cty.NilType && (o.uOut == "ok" || o.uOut == "err") {
		// the allocation cost model on a document cut off after a length header against the measured allocation
		ctx.Add("d17.cutfit", "fit", c.cut, encTy(c.t), fmt.Sprint(o.uAlloc), fmt.Sprint(c.per))
	}
	if c.want != "" && o.uOut != c.want {
		ctx.Fail(Failure{Site: "regression", Sig: "msgpack.Unmarshal:" + c.fix + ":" + c17mShort(c.b), What: "the witness of a repaired decoder defect (/repo " + c.fix + ") no longer gives " + c.want,
			Input: c.input(), GoLit: c.lit("msgpack.Unmarshal"), Outcome: o.uOut + " " + o.why})
	}
	if !safe {
		return
	}
	// the results themselves: decode again in this process (the worker survived it within the bound)
	var tree *mpItem
	if !c.big && len(c.b) <= 1<<14 {
		if tr, err := mpReadAll(c.b); err == nil && mpHasBad(tr) == "" && c16StringsNormal(tr) {
			tree = tr
			ctx.Tag("lex:one-item-tree")
		} else {
			ctx.Tag("lex:not-in-the-item-model")
		}
	}
	if c.t != cty.NilType && (o.uOut == "ok" || o.uOut == "err") {
		var v cty.Value
		var err error
		p, _ := try(func() { v, err = msgpack.Unmarshal(c.b, c.t) })
		out := "ok"
		if p {
			out = "panic"
		} else if err != nil {
			out = "err"
		}
		ctx.Probe("c17-worker-and-parent-agree", out == o.uOut, fmt.Sprintf("msgpack.Unmarshal %s: worker %s, parent %s", c.input(), o.uOut, out))
		if out == "ok" {
			m.okAfter++
			m.judgeValue(c, v)
		}
		if tree != nil && out != "panic" {
			impl := out
			if out == "ok" {
				if p, _ := try(func() { impl = "ok " + canonVal(v) }); p {
					impl = ""
				}
			}
			if impl != "" {
				// the C17 decoder model (lean/CtyModel/d17Msgpack.lean, follows /repo bb6ac26)
				ctx.Add("d17.unmarshal", impl, tree.wire(), encTy(c.t))
				m.corrN++
				// the allocation cost model against what was measured: the model's size of the document is a lower
				// bound of its bytes (extension bodies counted twice), and a document that decodes allocates at
				// least one byte per element slot the model counts
				okFlag := "0"
				if out == "ok" {
					okFlag = "1"
				}
				ctx.Add("d17.allocfit", "fit", tree.wire(), encTy(c.t), fmt.Sprint(len(c.b)), fmt.Sprint(o.uAlloc), okFlag)
				if bb6(tree) {
					ctx.Tag("mp:refinement-states-both-length-bounds:" + out)
				}
			}
		}
	} else if tree != nil && o.uOut == "panic" {
		ctx.Add("d17.unmarshal", "panic", tree.wire(), encTy(c.t))
	}
	if o.iOut == "ok" || o.iOut == "err" {
		var ty cty.Type
		var err error
		p, _ := try(func() { ty, err = msgpack.ImpliedType(c.b) })
		out := "ok"
		if p {
			out = "panic"
		} else if err != nil {
			out = "err"
		}
		ctx.Probe("c17-worker-and-parent-agree", out == o.iOut, fmt.Sprintf("msgpack.ImpliedType %s: worker %s, parent %s", c.input(), o.iOut, out))
		if out == "ok" {
			prob := ""
			if !c.big {
				prob = c17jTypeProblem(ty)
				if prob == "" && tyHasOptional(ty) {
					prob = "optional-annotations-in-implied-type"
				}
			} else if ty == cty.NilType {
				prob = "nil-type-without-error"
			}
			if prob != "" {
				ctx.Fail(Failure{Site: "implied-type", Sig: "msgpack.ImpliedType:" + prob, What: "ImpliedType returned a type that is not usable: " + prob,
					Input: c.input(), GoLit: c.lit("msgpack.ImpliedType"), Outcome: c17jTyWire(ty)})
			}
		}
		if tree != nil && out != "panic" {
			impl := out
			if out == "ok" {
				impl = "ok " + c17jTyWire(ty)
			}
			ctx.Add("mp.implied", impl, tree.wire())
		}
	} else if tree != nil && o.iOut == "panic" {
		ctx.Add("mp.implied", "panic", tree.wire())
	}
}

func (m *c17m) judgeValue(c *c17mCase, v cty.Value) {
	ctx := m.ctx
	if v == cty.NilVal {
		ctx.Fail(Failure{Site: "result", Sig: "msgpack.Unmarshal:nil-value-without-error", What: "Unmarshal returned cty.NilVal and a nil error",
			Input: c.input(), GoLit: c.lit("msgpack.Unmarshal"), Outcome: "NilVal"})
		return
	}
	var errs []error
	if p, why := try(func() { errs = v.Type().TestConformance(c.t) }); p || len(errs) != 0 {
		ctx.Fail(Failure{Site: "conforms", Sig: "msgpack.Unmarshal:result-type-does-not-conform", What: "the type of the decoded value does not conform to the requested type " + why,
			Input: c.input(), GoLit: c.lit("msgpack.Unmarshal"), Outcome: c17jTyWire(v.Type())})
	}
	if c.big {
		return
	}
	cc := *c
	m.judge.see("msgpack.Unmarshal", v, func() string { return cc.lit("msgpack.Unmarshal") })
}

// ---- runner -----------------------------------------------------------------------------------

func runC17Mp(ctx *Ctx) {
	m := &c17m{ctx: ctx, judge: &c06Judge{ctx: ctx, seen: map[string]struct{}{}}, seen: map[string]bool{}}
	t0 := time.Now()
	phase := func(name string) {
		if os.Getenv("C17M_TRACE") != "" {
			fmt.Fprintf(os.Stderr, "C17M %s %.1fs\n", name, time.Since(t0).Seconds())
		}
		t0 = time.Now()
	}
	m.corpus()
	m.flush()
	phase("corpus")
	m.families()
	m.flush()
	phase("families")
	m.d17Families(); m.d17CutFamily(); m.flush(); phase("d17-families")
	m.maxR = 0
	m.generated()
	m.flush()
	phase("generated")
	m.judge.finish()
	phase("judge")
	ctx.Tag(fmt.Sprintf("mp:max-alloc-per-input-byte-on-generated-cases:%d", int(m.maxR)))
	ctx.Tag(fmt.Sprintf("mp:mutated-encodings-decoding-ok-permille:%d", m.okAfter*1000/maxInt(m.total, 1)))
}

// (S) regression cases first: the minimal witnesses of every repaired MessagePack decoder defect
func (m *c17m) corpus() {
	str, num := cty.String, cty.Number
	tupS := cty.Tuple([]cty.Type{str})
	objA := cty.Object(map[string]cty.Type{"a": str})
	objAB := cty.Object(map[string]cty.Type{"a": str, "b": str})
	optA := cty.ObjectWithOptionalAttrs(map[string]cty.Type{"a": str, "b": num}, []string{"a"})
	type rc struct {
		it   *mpItem
		t    cty.Type
		want string
		fix  string
	}
	binS, binN := mpBin([]byte(`"string"`)), mpBin([]byte(`"number"`))
	for _, c := range []rc{
		// 4e89662: NaN
		{mpF64(math.NaN()), num, "err", "4e89662"},
		{mpF32(float32(math.NaN())), num, "err", "4e89662"},
		{mpArr(mpF64(math.NaN())), cty.List(num), "err", "4e89662"},
		{mpExt(12, 1, []*mpItem{mpInt(3), mpArr(mpF64(math.NaN()), mpBool(true))}, nil), num, "err", "4e89662"},
		// 28caeac: contradictory refinements
		{mpExt(12, 2, []*mpItem{mpInt(1), mpBool(false), mpInt(1), mpBool(true)}, nil), str, "err", "28caeac"},
		{mpExt(12, 2, []*mpItem{mpInt(1), mpBool(true), mpInt(1), mpBool(false)}, nil), str, "err", "28caeac"},
		{mpExt(12, 2, []*mpItem{mpInt(3), mpArr(mpInt(5), mpBool(true)), mpInt(4), mpArr(mpInt(1), mpBool(true))}, nil), num, "err", "28caeac"},
		{mpExt(12, 2, []*mpItem{mpInt(5), mpInt(3), mpInt(6), mpInt(1)}, nil), cty.List(str), "err", "28caeac"},
		{mpExt(12, 1, []*mpItem{mpInt(5), mpInt(-1)}, nil), cty.List(str), "", "28caeac"},
		{mpExt(12, 1, []*mpItem{mpInt(6), mpInt(-1)}, nil), cty.List(str), "err", "28caeac"},
		{mpExt(12, 2, []*mpItem{mpInt(2), mpStr("a"), mpInt(2), mpStr("b")}, nil), str, "err", "28caeac"},
		// d1824c6: the length is checked before an empty tuple / object is accepted
		{mpArr(), tupS, "err", "d1824c6"},
		{mpMap(), objA, "err", "d1824c6"},
		{mpExt(12, 1, []*mpItem{mpInt(3), mpArr()}, nil), num, "err", "d1824c6"},
		{mpExt(12, 1, []*mpItem{mpInt(4), mpArr()}, nil), num, "err", "d1824c6"},
		{mpArr(), cty.EmptyTuple, "ok", "d1824c6"},
		{mpMap(), cty.EmptyObject, "ok", "d1824c6"},
		// a52fc1e: repeated attribute
		{mpMap(mpStr("a"), mpStr("x"), mpStr("a"), mpStr("y")), objAB, "err", "a52fc1e"},
		{mpMap(mpStr("a"), mpStr("x"), mpStr("c"), mpStr("y")), objAB, "err", "a52fc1e"},
		// 018901f: a key that is not a string
		{mpMap(mpInt(5), mpStr("a")), cty.Map(str), "err", "018901f"},
		{mpMap(mpInt(5), mpStr("a"), mpStr("b"), mpStr("c")), cty.Map(str), "err", "018901f"},
		// e63bbcc: members of different types under a dynamic element type
		{mpArr(mpArr(binS, mpStr("a")), mpArr(binN, mpInt(1))), cty.List(cty.DynamicPseudoType), "err", "e63bbcc"},
		{mpArr(mpArr(binS, mpStr("a")), mpArr(binN, mpInt(1))), cty.Set(cty.DynamicPseudoType), "err", "e63bbcc"},
		{mpMap(mpStr("a"), mpArr(binS, mpStr("a")), mpStr("b"), mpArr(binN, mpInt(1))), cty.Map(cty.DynamicPseudoType), "err", "e63bbcc"},
		{mpArr(mpArr(binS, mpStr("a")), mpNil()), cty.List(cty.DynamicPseudoType), "", "e63bbcc"},
		// 8be0315: the value of an unrecognised refinement key is skipped
		{mpExt(12, 2, []*mpItem{mpInt(99), mpInt(1), mpInt(1), mpBool(false)}, nil), str, "ok", "8be0315"},
		{mpExt(12, 2, []*mpItem{mpInt(99), mpInt(1), mpBool(false), mpInt(7)}, nil), str, "err", "8be0315"},
		{mpExt(12, 1, []*mpItem{mpInt(99), mpStr("x")}, nil), str, "ok", "8be0315"},
		{mpExt(12, 1, []*mpItem{mpInt(99), mpArr(mpInt(1), mpMap(mpStr("k"), mpNil()))}, nil), str, "ok", "8be0315"},
		// 7775e8c / a8a957a: bytes that are not UTF-8 are not a string, nor a key
		{mpBin([]byte{0xff}), str, "err", "7775e8c"},
		{&mpItem{kind: "str", s: []byte{'a', 0xc3}}, str, "err", "7775e8c"},
		{mpArr(mpBin([]byte{0xff})), cty.List(str), "err", "7775e8c"},
		{mpExt(12, 1, []*mpItem{mpInt(2), mpBin([]byte{0xff})}, nil), str, "err", "7775e8c"},
		{mpMap(&mpItem{kind: "str", s: []byte{0xff}}, mpStr("x")), cty.Map(str), "err", "a8a957a"},
		// afdc0a2: no optional-attribute annotation in the type of a value
		{mpNil(), optA, "ok", "afdc0a2"},
		{mpArr(), cty.List(optA), "ok", "afdc0a2"},
		{mpMap(mpStr("a"), mpStr("x"), mpStr("b"), mpInt(1)), optA, "ok", "afdc0a2"},
		{mpArr(mpBin([]byte(`["object",{"a":"string"},["a"]]`)), mpNil()), cty.DynamicPseudoType, "ok", "afdc0a2"},
		// 5020d30 through the dynamic wrapper
		{mpArr(mpBin([]byte(`["object",{"a":"string"},["b"]]`)), mpMap()), cty.DynamicPseudoType, "err", "5020d30"},
		// bb6ac26: a not-null list whose length bounds meet is not unknown
		{mpExt(12, 3, []*mpItem{mpInt(1), mpBool(false), mpInt(5), mpInt(2), mpInt(6), mpInt(2)}, nil), cty.List(str), "err", "bb6ac26"},
		{mpExt(12, 3, []*mpItem{mpInt(5), mpInt(2), mpInt(6), mpInt(2), mpInt(1), mpBool(false)}, nil), cty.List(str), "err", "bb6ac26"},
		{mpExt(12, 3, []*mpItem{mpInt(1), mpBool(false), mpInt(5), mpInt(2), mpInt(6), mpInt(2)}, nil), cty.Set(str), "ok", "bb6ac26"},
		{mpExt(12, 3, []*mpItem{mpInt(1), mpBool(false), mpInt(5), mpInt(1 << 40), mpInt(6), mpInt(1 << 40)}, nil), cty.List(str), "err", "bb6ac26"},
	} {
		b := mpWrite(nil, c.it)
		m.ctx.Eval("corpus "+c17mShort(b)+" "+c17jTyWire(c.t), true)
		m.add(c17mCase{b: b, t: c.t, tag: "corpus", want: c.want, fix: c.fix})
	}
	// 9555bea / 12d5e4f: a header that announces up to 2^32-1 members and no body
	for _, h := range [][]byte{{0xdd, 0xff, 0xff, 0xff, 0xff}, {0xdf, 0xff, 0xff, 0xff, 0xff}, {0xdd, 0x80, 0, 0, 0}, {0xdc, 0xff, 0xff}, {0xde, 0xff, 0xff}, {0xdd, 0x7f, 0xff, 0xff, 0xff}, {0xdf, 0x7f, 0xff, 0xff, 0xff}} {
		for _, t := range []cty.Type{cty.List(str), cty.Set(str), cty.Map(str), cty.List(cty.DynamicPseudoType), cty.DynamicPseudoType, str} {
			m.ctx.Eval("corpus "+c17mShort(h)+" "+c17jTyWire(t), true)
			m.add(c17mCase{b: h, t: t, tag: "corpus", want: "err", fix: "9555bea"})
		}
	}
}

// the scalable families of the quantifier
func (m *c17m) families() {
	ctx := m.ctx
	str := cty.String
	rep := func(unit []byte, n int, tail []byte) []byte {
		out := make([]byte, 0, len(unit)*n+len(tail))
		for i := 0; i < n; i++ {
			out = append(out, unit...)
		}
		return append(out, tail...)
	}
	dynUnit := append([]byte{0x92, 0xc4, 9}, []byte(`"dynamic"`)...)
	depths := []int{1000, 3000}
	if ctx.Thorough {
		depths = []int{1000, 3000, 10000, 30000, 100000}
	}
	for _, d := range depths {
		ctx.Eval(fmt.Sprintf("family nesting %d", d), true)
		// arrays of one member, d deep (ImpliedType recurses on the data alone)
		m.add(c17mCase{b: rep([]byte{0x91}, d, []byte{0xc0}), tag: "family", big: true, desc: fmt.Sprintf("nested-arrays depth=%d", d),
			golit: fmt.Sprintf("msgpack.ImpliedType(append(bytes.Repeat([]byte{0x91}, %d), 0xc0))", d)})
		m.add(c17mCase{b: rep([]byte{0x91}, d, nil), tag: "family", big: true, desc: fmt.Sprintf("open-arrays depth=%d", d),
			golit: fmt.Sprintf("msgpack.ImpliedType(bytes.Repeat([]byte{0x91}, %d))", d)})
		m.add(c17mCase{b: rep([]byte{0x81, 0xa1, 'a'}, d, []byte{0xc0}), tag: "family", big: true, desc: fmt.Sprintf("nested-maps depth=%d", d),
			golit: fmt.Sprintf("msgpack.ImpliedType(append(bytes.Repeat([]byte{0x81, 0xa1, 'a'}, %d), 0xc0))", d)})
		// dynamic wrappers, d deep: the type is in the data
		m.add(c17mCase{b: rep(dynUnit, d, []byte{0xc0}), t: cty.DynamicPseudoType, tag: "family", big: true, desc: fmt.Sprintf("dyn-wrappers depth=%d", d),
			golit: fmt.Sprintf("msgpack.Unmarshal(append(bytes.Repeat(append([]byte{0x92, 0xc4, 9}, `\"dynamic\"`...), %d), 0xc0), cty.DynamicPseudoType)", d)})
		if d <= 1000 {
			ty := cty.Type(cty.Bool)
			for i := 0; i < d; i++ {
				ty = cty.List(ty)
			}
			m.add(c17mCase{b: rep([]byte{0x91}, d, []byte{0xc3}), t: ty, tag: "family", big: true, desc: fmt.Sprintf("nested-lists depth=%d", d),
				golit: fmt.Sprintf("t := cty.Bool; for i := 0; i < %d; i++ { t = cty.List(t) }; msgpack.Unmarshal(append(bytes.Repeat([]byte{0x91}, %d), 0xc3), t)", d, d)})
		}
	}
	// headers announcing huge lengths with no body, every kind x targets of every kind
	targets := []cty.Type{cty.List(str), cty.Set(cty.Number), cty.Map(str), cty.Tuple([]cty.Type{str, str}), cty.Object(map[string]cty.Type{"a": str}), cty.DynamicPseudoType, str, cty.Number, cty.Bool,
		cty.List(cty.DynamicPseudoType), cty.Map(cty.List(str))}
	for _, code := range []byte{0xdc, 0xdd, 0xde, 0xdf, 0xda, 0xdb, 0xc5, 0xc6, 0xc8, 0xc9} {
		for _, n := range []uint64{1 << 31, 1<<31 - 1, 1<<32 - 1, 1 << 24, 65535, 1025} {
			w := 4
			switch code {
			case 0xdc, 0xde, 0xda, 0xc5, 0xc8:
				w = 2
				if n > 65535 {
					continue
				}
			}
			h := mpPutN([]byte{code}, n, w)
			if code == 0xc8 || code == 0xc9 {
				h = append(h, 12)
			}
			for _, body := range [][]byte{nil, {0xc0}, {0xa1, 'a', 0xa1, 'b'}} {
				b := append(append([]byte(nil), h...), body...)
				for _, t := range targets {
					ctx.Eval("family huge "+c17mShort(b)+" "+c17jTyWire(t), true)
					m.add(c17mCase{b: b, t: t, tag: "family-huge-length"})
				}
				// … and nested one level down, and as the value of a dynamic wrapper
				m.add(c17mCase{b: append([]byte{0x91}, b...), t: cty.List(cty.List(str)), tag: "family-huge-length"})
				m.add(c17mCase{b: append(append([]byte{0x92, 0xc4, 17}, []byte(`["list","string"]`)...), b...), t: cty.DynamicPseudoType, tag: "family-huge-length"})
			}
		}
	}
	// object keys spelled in several Unicode normalization forms: every way of filling k slots of the map with the
	// NFC spelling, the NFD spelling, the other attribute and a stray key; whatever is accepted must have every attribute
	{
		mpStr := func(s string) []byte { return append(mpHeader("str", uint64(len(s)), 0, 0), s...) }
		nfc, nfd := "caf\u00e9", "cafe\u0301"
		oty := cty.Object(map[string]cty.Type{nfc: str, "id": str})
		oty3 := cty.Object(map[string]cty.Type{nfc: str, "id": str, "z": str})
		keys := []string{nfc, nfd, "id", "z", "stray"}
		var fill func(k int, cur []string, f func([]string))
		fill = func(k int, cur []string, f func([]string)) {
			if k == 0 {
				f(cur)
				return
			}
			for _, key := range keys {
				fill(k-1, append(cur[:len(cur):len(cur)], key), f)
			}
		}
		for k := 1; k <= 3; k++ {
			fill(k, nil, func(ks []string) {
				b := mpHeader("map", uint64(len(ks)), 0, 0)
				for i, key := range ks {
					b = append(append(b, mpStr(key)...), mpStr(fmt.Sprintf("v%d", i))...)
				}
				for _, t := range []cty.Type{oty, oty3} {
					ctx.Eval("family object-key-spellings "+c17mShort(b)+" "+c17jTyWire(t), true)
					m.add(c17mCase{b: b, t: t, tag: "family-object-key-spellings"})
					m.add(c17mCase{b: append([]byte{0x91}, b...), t: cty.List(t), tag: "family-object-key-spellings"})
					tj, _ := t.MarshalJSON()
					w := append(append([]byte{0x92}, mpHeader("bin", uint64(len(tj)), 0, 0)...), tj...)
					m.add(c17mCase{b: append(w, b...), t: cty.DynamicPseudoType, tag: "family-object-key-spellings"})
				}
			})
		}
	}
	// extension items, type code 12, bodies of the boundary lengths
	for _, n := range []int{0, 1, 2, 3, 1023, 1024, 1025, 4096} {
		for _, fill := range []byte{0xc0, 0x00, 0x81} {
			body := make([]byte, n)
			for i := range body {
				body[i] = fill
			}
			if n >= 3 {
				copy(body, []byte{0x81, 0x01, 0xc2})
			}
			for _, code := range []byte{12, 0, 5} {
				b := append(mpHeader("ext", uint64(n), 0, code), body...)
				for _, t := range []cty.Type{str, cty.List(str), cty.DynamicPseudoType, cty.Number} {
					ctx.Eval("family ext "+c17mShort(b)+" "+c17jTyWire(t), true)
					m.add(c17mCase{b: b, t: t, tag: "family-ext-length"})
				}
			}
		}
	}
}

func (m *c17m) generated() {
	ctx := m.ctx
	r := ctx.R
	depth := ctx.N(3, 4)
	addCase := func(b []byte, t cty.Type, tag string, nontrivial bool) {
		key := string(b) + " " + c17jTyWire(t)
		ctx.Eval(tag+" "+c17mShort(b)+" "+c17jTyWire(t), nontrivial && !m.seen[key])
		m.seen[key] = true
		m.add(c17mCase{b: b, t: t, tag: tag})
	}
	// ---- mutated encodings ----
	n := ctx.N(9000, 120000)
	for i := 0; i < n; i++ {
		ct := genTy(r, depth, TyOpts{Dyn: r.Intn(3) != 0, Opt: r.Intn(4) == 0})
		v := c16Val(ctx, ct, depth, c16Opts{unknown: r.Intn(4) != 0, null: r.Intn(3) != 0})
		var b []byte
		var err error
		if p, _ := try(func() { b, err = msgpack.Marshal(v, ct) }); p || err != nil {
			ctx.Tag("mp:valid-encoding:marshal-failed")
			continue
		}
		// the pools: complete items and extension items of real encodings
		if i%4 == 0 {
			for _, s := range mpScan(b) {
				frag := b[s.off:s.end]
				if s.kind == "ext" && len(m.exts) < 256 {
					m.exts = append(m.exts, append([]byte(nil), frag...))
				}
				if len(frag) > 64 {
					continue
				}
				if len(m.pool) < 256 {
					m.pool = append(m.pool, append([]byte(nil), frag...))
				} else if r.Intn(16) == 0 {
					m.pool[r.Intn(len(m.pool))] = append([]byte(nil), frag...)
				}
			}
		}
		if i%8 == 0 {
			addCase(b, ct, "pristine", false)
		}
		k := 1 + r.Intn(4)
		mb := b
		for j := 0; j < k; j++ {
			var kind string
			mb, kind = m.mutate(mb)
			ctx.Tag("mp:mutation:" + kind)
		}
		ty, rel := c17jTargetType(r, ct, v.Type())
		ctx.Tag("mp:target:" + rel)
		m.total++
		addCase(mb, ty, "mut", true)
		if i%7 == 0 {
			addCase(mb, []cty.Type{cty.DynamicPseudoType, genTy(r, 2, TyOpts{Dyn: true, Opt: true, Capsule: true}), cty.String, cty.Map(cty.DynamicPseudoType), cty.Number}[r.Intn(5)], "mut-2nd-target", true)
		}
		if len(m.cases) >= 4000 {
			m.flush()
		}
	}
	// ---- random item trees (c16's generator: every item kind, adversarial refinement maps) under 0..2 byte mutations ----
	n = ctx.N(2500, 40000)
	for i := 0; i < n; i++ {
		it := c16RandItem(ctx, 2)
		mb := mpWrite(nil, it)
		for j := r.Intn(3); j > 0; j-- {
			var kind string
			mb, kind = m.mutate(mb)
			ctx.Tag("mp:mutation:" + kind)
		}
		var ty cty.Type
		if r.Intn(3) == 0 {
			ty = []cty.Type{cty.Number, cty.String, cty.Bool, cty.DynamicPseudoType, cty.List(cty.Number), cty.Tuple([]cty.Type{cty.Number, cty.Bool}), cty.Map(cty.String), cty.Set(cty.String)}[r.Intn(8)]
		} else {
			ty = genTy(r, 2, TyOpts{Dyn: true, Opt: true, Capsule: r.Intn(10) == 0})
		}
		addCase(mb, ty, "random-item", true)
	}
	// ---- extension items of the adversarial families, bare, against every refinable kind ----
	n = ctx.N(1500, 20000)
	for i := 0; i < n; i++ {
		b := m.extItem()
		ty := []cty.Type{cty.String, cty.Number, cty.List(cty.String), cty.Set(cty.Number), cty.Map(cty.Bool), cty.DynamicPseudoType, cty.Bool, cty.EmptyObject, cty.List(cty.DynamicPseudoType)}[r.Intn(9)]
		if r.Intn(4) == 0 {
			b = append([]byte{0x91}, b...)
			ty = cty.List(ty)
		}
		ctx.Tag("mp:mutation:ext-family")
		addCase(b, ty, "ext-family", true)
	}
	// ---- raw random bytes ----
	n = ctx.N(3000, 40000)
	for i := 0; i < n; i++ {
		mb := make([]byte, r.Intn(24))
		for k := range mb {
			if r.Intn(3) == 0 {
				mb[k] = byte(r.Intn(256))
			} else {
				mb[k] = []byte{0xc0, 0xc2, 0xc3, 0x90, 0x91, 0x92, 0x80, 0x81, 0xa0, 0xa1, 'a', 0xc4, 0x01, 0x02, 0x0c, 0xd4, 0xc7, 0xcb, 0xca, 0xdc, 0xdd, 0xde, 0xdf, 0x00, 0xff, 0x7f, 0xe0}[r.Intn(27)]
			}
		}
		ty := genTy(r, 2, TyOpts{Dyn: true, Opt: true})
		ctx.Tag("mp:mutation:raw-bytes")
		addCase(mb, ty, "raw", true)
	}
}
