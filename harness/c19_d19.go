package main

// C19, additions of slice d19 (audit/audit-C15-C20.md, section C19, item 7).
//
//	pathset twins     for a path p and a twin q that `Equivalent` must identify with it (index keys
//	                  re-marked, numbers re-stated at another precision) and a near miss r that it
//	                  must not: Add / Has / Remove / Union / Intersection / Subtract / Equal across
//	                  the two, through c19RunPS — so both the correspondence (`pathset.run`) and the
//	                  reference-set predicates see them.  This is hash coherence of pathSetRules
//	                  observed through the public API: a hash that files p and q in different
//	                  buckets makes Has(q) false after Add(p).
//	pathset hash order many paths with random attribute names in one set, then List(): cty/set
//	                  lists bucket ids in ascending order, so the listing reveals the order of the
//	                  real pathSetRules.Hash values — compared with the model's CRC-64 (this ties
//	                  the model's hash to the implementation's, not to the harness's own crc64).
//	wholly known keys histories over index keys that are null / bool / known lists and tuples
//	                  (no unknown anywhere): judged against the reference set as well.
//
// Every random choice from ctx.R; distributions printed with ctx.Tag.

import (
	"fmt"

	"github.com/zclconf/go-cty/cty"
)

var d19Numbers = []string{"0", "1", "2", "3", "7", "0.5", "1e40", "-1"}
var d19Strings = []string{"", "0", "a", "k", "é", "zz", "a b"}

// d19Key returns an index key that names a member (known number or string), in one of
// several representations, and a tag saying which.
func d19Key(ctx *Ctx) cty.Value {
	r := ctx.R
	if r.Intn(2) == 0 {
		return cty.MustParseNumberVal(d19Numbers[r.Intn(len(d19Numbers))])
	}
	return cty.StringVal(d19Strings[r.Intn(len(d19Strings))])
}

// d19TwinKey returns a key that Equals(k) is known-true for, in another representation.
func d19TwinKey(ctx *Ctx, k cty.Value) (cty.Value, string) {
	r := ctx.R
	raw, _ := k.Unmark()
	switch c := r.Intn(4); {
	case c == 0:
		return raw.Mark(markNames[r.Intn(len(markNames))]), "marked"
	case c == 1:
		return raw.Mark("m1").Mark("m3"), "marked2"
	case c == 2 && raw.Type() == cty.Number:
		// the same number at another precision: via float64 when exact, else via its text
		f := raw.AsBigFloat()
		if f64, acc := f.Float64(); acc == 0 {
			return cty.NumberFloatVal(f64), "float64"
		}
		return cty.MustParseNumberVal(f.Text('f', -1)), "reparsed"
	case c == 2:
		return cty.StringVal(raw.AsString()), "same"
	}
	if raw.Type() == cty.Number {
		f := raw.AsBigFloat()
		if f.IsInt() {
			if i, acc := f.Int64(); acc == 0 {
				return cty.NumberIntVal(i).Mark("m2"), "int64+marked"
			}
		}
	}
	return raw, "unmarked"
}

// d19OtherKey returns a key that is NOT equal to k (same type where possible).
func d19OtherKey(ctx *Ctx, k cty.Value) cty.Value {
	raw, _ := k.Unmark()
	for i := 0; i < 20; i++ {
		o := d19Key(ctx)
		if eq := o.Equals(raw); eq.IsKnown() && eq.False() {
			if ctx.R.Intn(3) == 0 {
				return o.Mark("m1")
			}
			return o
		}
	}
	return cty.StringVal("other")
}

func d19Path(ctx *Ctx, names []string) cty.Path {
	r := ctx.R
	n := r.Intn(5)
	var p cty.Path
	for i := 0; i < n; i++ {
		if r.Intn(2) == 0 {
			p = append(p, cty.GetAttrStep{Name: names[r.Intn(len(names))]})
		} else {
			k := d19Key(ctx)
			if r.Intn(4) == 0 {
				k = k.Mark(markNames[r.Intn(len(markNames))])
			}
			p = append(p, cty.IndexStep{Key: k})
		}
	}
	return p
}

// d19Twin: every index key replaced by a twin; returns the kinds used.
func d19Twin(ctx *Ctx, p cty.Path) (cty.Path, string) {
	q := make(cty.Path, len(p))
	kinds := "none"
	for i, s := range p {
		if is, ok := s.(cty.IndexStep); ok {
			k, kind := d19TwinKey(ctx, is.Key)
			q[i] = cty.IndexStep{Key: k}
			kinds = kind
		} else {
			q[i] = s
		}
	}
	return q, kinds
}

// d19NearMiss: one step changed so that the paths must NOT be equivalent (nil if p is empty).
func d19NearMiss(ctx *Ctx, p cty.Path, names []string) cty.Path {
	if len(p) == 0 {
		return cty.GetAttrPath("a")
	}
	q := p.Copy()
	i := ctx.R.Intn(len(q))
	switch s := q[i].(type) {
	case cty.IndexStep:
		if ctx.R.Intn(4) == 0 {
			q[i] = cty.GetAttrStep{Name: "#"} // hashes like an index step, is none
		} else {
			q[i] = cty.IndexStep{Key: d19OtherKey(ctx, s.Key)}
		}
	case cty.GetAttrStep:
		n := names[ctx.R.Intn(len(names))]
		if n == s.Name {
			n = s.Name + "x"
		}
		q[i] = cty.GetAttrStep{Name: n}
	}
	return q
}

var d19Alphabet = []rune("abcdefghijklmnopqrstuvwxyzABCXYZ0123456789_-#é世")

func d19RandName(ctx *Ctx) string {
	n := 1 + ctx.R.Intn(8)
	rs := make([]rune, n)
	for i := range rs {
		rs[i] = d19Alphabet[ctx.R.Intn(len(d19Alphabet))]
	}
	return cty.StringVal(string(rs)).AsString() // NFC-normalised as cty would
}

func runC19D19(ctx *Ctx) {
	names := []string{"a", "b", "ab", "é", "zz", "#"}

	// (1) twins and near misses
	n := ctx.N(500, 12000)
	for i := 0; i < n; i++ {
		p := d19Path(ctx, names)
		q, kind := d19Twin(ctx, p)
		r := d19NearMiss(ctx, p, names)
		ops := []c19PSOp{
			{k: "add", a: 0, p: p}, {k: "has", a: 0, p: q}, {k: "has", a: 0, p: r},
			{k: "add", a: 1, p: q}, {k: "has", a: 1, p: p}, {k: "equal", a: 0, b: 1}, {k: "equal", a: 1, b: 0},
			{k: "add", a: 0, p: q}, {k: "list", a: 0},
			{k: "add", a: 1, p: r}, {k: "equal", a: 0, b: 1}, {k: "equal", a: 1, b: 0},
			{k: "union", a: 2, b: 0, c: 1}, {k: "list", a: 2},
			{k: "inter", a: 3, b: 0, c: 1}, {k: "list", a: 3},
			{k: "sub", a: 3, b: 1, c: 0}, {k: "has", a: 3, p: r}, {k: "has", a: 3, p: p},
			{k: "symd", a: 3, b: 0, c: 1}, {k: "list", a: 3},
			{k: "rem", a: 0, p: q}, {k: "empty", a: 0}, {k: "has", a: 0, p: p},
		}
		c19RunPS(ctx, 4, ops, true, "d19-twin")
		ctx.Tag("d19-twin:" + kind)
		ctx.Tag(fmt.Sprintf("d19-twin:len%d", len(p)))
	}

	// (2) hash order: many paths with random attribute names, listed
	m := ctx.N(60, 1500)
	for i := 0; i < m; i++ {
		var ops []c19PSOp
		k := 8 + ctx.R.Intn(25)
		var all []cty.Path
		for j := 0; j < k; j++ {
			var p cty.Path
			for s := 0; s < 1+ctx.R.Intn(3); s++ {
				if ctx.R.Intn(4) == 0 {
					p = append(p, cty.IndexStep{Key: d19Key(ctx)})
				} else {
					p = append(p, cty.GetAttrStep{Name: d19RandName(ctx)})
				}
			}
			all = append(all, p)
			ops = append(ops, c19PSOp{k: "add", a: j % 2, p: p})
		}
		ops = append(ops, c19PSOp{k: "list", a: 0}, c19PSOp{k: "list", a: 1},
			c19PSOp{k: "union", a: 2, b: 0, c: 1}, c19PSOp{k: "list", a: 2})
		for _, p := range all[:3] {
			tw, _ := d19Twin(ctx, p)
			ops = append(ops, c19PSOp{k: "has", a: 2, p: tw}, c19PSOp{k: "rem", a: 2, p: tw}, c19PSOp{k: "has", a: 2, p: p})
		}
		ops = append(ops, c19PSOp{k: "list", a: 2})
		c19RunPS(ctx, 3, ops, true, "d19-hash-order")
	}

	// (3) wholly known keys of other kinds (null, bool, lists, tuples, objects; marked too):
	// `Equivalent` is an equivalence there, so the reference set applies
	wk := []cty.Value{
		cty.NullVal(cty.Number), cty.NullVal(cty.String), cty.NullVal(cty.DynamicPseudoType), cty.True, cty.False,
		cty.ListVal([]cty.Value{cty.StringVal("a")}), cty.ListVal([]cty.Value{cty.StringVal("b")}),
		cty.ListVal([]cty.Value{cty.StringVal("a")}).Mark("m1"),
		cty.TupleVal([]cty.Value{cty.NumberIntVal(1), cty.StringVal("x")}),
		cty.TupleVal([]cty.Value{cty.MustParseNumberVal("1.0"), cty.StringVal("x").Mark("m2")}),
		cty.ObjectVal(map[string]cty.Value{"a": cty.True}), cty.EmptyObjectVal, cty.EmptyTupleVal,
		cty.NumberIntVal(1), cty.StringVal("a"), cty.NullVal(cty.Number).Mark("m3"),
	}
	h := ctx.N(150, 4000)
	for i := 0; i < h; i++ {
		pick := func() cty.Path {
			var p cty.Path
			for s := 0; s < 1+ctx.R.Intn(2); s++ {
				if ctx.R.Intn(4) == 0 {
					p = append(p, cty.GetAttrStep{Name: names[ctx.R.Intn(len(names))]})
				} else {
					p = append(p, cty.IndexStep{Key: wk[ctx.R.Intn(len(wk))]})
				}
			}
			return p
		}
		nregs := 2
		var ops []c19PSOp
		for j := 0; j < 6+ctx.R.Intn(14); j++ {
			a, b := ctx.R.Intn(nregs), ctx.R.Intn(nregs)
			switch k := ctx.R.Intn(12); {
			case k < 4:
				ops = append(ops, c19PSOp{k: "add", a: a, p: pick()})
			case k < 6:
				ops = append(ops, c19PSOp{k: "rem", a: a, p: pick()})
			case k < 9:
				ops = append(ops, c19PSOp{k: "has", a: a, p: pick()})
			case k == 9:
				ops = append(ops, c19PSOp{k: "list", a: a})
			case k == 10:
				ops = append(ops, c19PSOp{k: "equal", a: a, b: b})
			default:
				ops = append(ops, c19PSOp{k: []string{"union", "inter", "sub", "symd"}[ctx.R.Intn(4)], a: a, b: a, c: b})
			}
		}
		c19RunPS(ctx, nregs, ops, true, "d19-wholly-known-keys")
	}
}

// d19ProbeOracle checks, on the real library, the two contracts the walk / transform
// theorems assume of the set oracle the model is fed (`Walk.IterPerm X`: iteration lists
// exactly the stored members, each once) and the one the unproved RawEquals form of
// transform-id would need (`iter-rebuild`: a set rebuilt by SetVal from its own iteration
// iterates alike), for every set inside v.
func d19ProbeOracle(ctx *Ctx, v cty.Value) {
	if v == cty.NilVal {
		return
	}
	v, _ = v.Unmark()
	if v.IsNull() || !v.IsKnown() {
		return
	}
	ty := v.Type()
	switch {
	case ty.IsSetType():
		members := ssetMembers(cty.VerifDump(v))
		used := make([]bool, len(members))
		ok := true
		var its []string
		for it := v.ElementIterator(); it.Next(); {
			_, e := it.Element()
			d := cty.VerifDump(e)
			its = append(its, d)
			found := false
			for i, m := range members {
				if !used[i] && m == d {
					used[i], found = true, true
					break
				}
			}
			if !found {
				ok = false
			}
			d19ProbeOracle(ctx, e)
		}
		ctx.Probe("IterPerm", ok && len(its) == len(members), "a set's iteration is not a permutation of its stored members: "+v.GoString())
		if len(its) > 0 {
			same := false
			try(func() {
				r := cty.SetVal(v.AsValueSlice())
				var its2 []string
				for it := r.ElementIterator(); it.Next(); {
					_, e := it.Element()
					its2 = append(its2, cty.VerifDump(e))
				}
				same = fmt.Sprint(its) == fmt.Sprint(its2)
			})
			ctx.Probe("iter-rebuild", same, "SetVal of a set's own iteration iterates differently: "+v.GoString())
			ctx.Tag("probe:set")
		}
	case ty.IsListType() || ty.IsTupleType() || ty.IsMapType() || ty.IsObjectType():
		for it := v.ElementIterator(); it.Next(); {
			_, e := it.Element()
			d19ProbeOracle(ctx, e)
		}
	}
}
