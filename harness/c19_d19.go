package main

// C19, additions of slice d19 (audit/audit-C15-C20.md, section C19, item 7).
//
//	pathset twins     for a path p and a twin q that `Equivalent` must identify with it (index keys
//	                  re-marked, numbers re-stated at another precision) and a near miss r that it
//	                  must not: Add / Has / Remove / Union / Intersection / Subtract / Equal across
//	                  the two, through c19RunPS — so both the correspondence (`pathset.run`) and the
//	                  reference-set predicates see them.  This is hash coherence of pathSetRules
//	                  observed through the public API: a hash that files p and q in different
//	                  buckets makes Has(q) false after Add(p).
//	pathset hash order many paths with random attribute names in one set, then List(): cty/set
//	                  lists bucket ids in ascending order, so the listing reveals the order of the
//	                  real pathSetRules.Hash values — compared with the model's CRC-64 (this ties
//	                  the model's hash to the implementation's, not to the harness's own crc64).
//	wholly known keys histories over index keys that are null / bool / known lists and tuples
//	                  (no unknown anywhere): judged against the reference set as well.
//
// Every random choice from ctx.R; distributions printed with ctx.Tag.

import (
	"fmt"
	"strings"

	"github.com/zclconf/go-cty/cty"
)

var d19Numbers = []string{"0", "1", "2", "3", "7", "0.5", "1e40", "-1"}
var d19Strings = []string{"", "0", "a", "k", "é", "zz", "a b"}

// d19Key returns an index key that names a member (known number or string), in one of
// several representations, and a tag saying which.
func d19Key(ctx *Ctx) cty.Value {
	r := ctx.R
	if r.Intn(2) == 0 {
		return cty.MustParseNumberVal(d19Numbers[r.Intn(len(d19Numbers))])
	}
	return cty.StringVal(d19Strings[r.Intn(len(d19Strings))])
}

// d19TwinKey returns a key that Equals(k) is known-true for, in another representation.
func d19TwinKey(ctx *Ctx, k cty.Value) (cty.Value, string) {
	r := ctx.R
	raw, _ := k.Unmark()
	switch c := r.Intn(4); {
	case c == 0:
		return raw.Mark(markNames[r.Intn(len(markNames))]), "marked"
	case c == 1:
		return raw.Mark("m1").Mark("m3"), "marked2"
	case c == 2 && raw.Type() == cty.Number:
		// the same number at another precision: via float64 when exact, else via its text
		f := raw.AsBigFloat()
		if f64, acc := f.Float64(); acc == 0 {
			return cty.NumberFloatVal(f64), "float64"
		}
		return cty.MustParseNumberVal(f.Text('f', -1)), "reparsed"
	case c == 2:
		return cty.StringVal(raw.AsString()), "same"
	}
	if raw.Type() == cty.Number {
		f := raw.AsBigFloat()
		if f.IsInt() {
			if i, acc := f.Int64(); acc == 0 {
				return cty.NumberIntVal(i).Mark("m2"), "int64+marked"
			}
		}
	}
	return raw, "unmarked"
}

// d19OtherKey returns a key that is NOT equal to k (same type where possible).
func d19OtherKey(ctx *Ctx, k cty.Value) cty.Value {
	raw, _ := k.Unmark()
	for i := 0; i < 20; i++ {
		o := d19Key(ctx)
		if eq := o.Equals(raw); eq.IsKnown() && eq.False() {
			if ctx.R.Intn(3) == 0 {
				return o.Mark("m1")
			}
			return o
		}
	}
	return cty.StringVal("other")
}

func d19Path(ctx *Ctx, names []string) cty.Path {
	r := ctx.R
	n := r.Intn(5)
	var p cty.Path
	for i := 0; i < n; i++ {
		if r.Intn(2) == 0 {
			p = append(p, cty.GetAttrStep{Name: names[r.Intn(len(names))]})
		} else {
			k := d19Key(ctx)
			if r.Intn(4) == 0 {
				k = k.Mark(markNames[r.Intn(len(markNames))])
			}
			p = append(p, cty.IndexStep{Key: k})
		}
	}
	return p
}

// d19Twin: every index key replaced by a twin; returns the kinds used.
func d19Twin(ctx *Ctx, p cty.Path) (cty.Path, string) {
	q := make(cty.Path, len(p))
	kinds := "none"
	for i, s := range p {
		if is, ok := s.(cty.IndexStep); ok {
			k, kind := d19TwinKey(ctx, is.Key)
			q[i] = cty.IndexStep{Key: k}
			kinds = kind
		} else {
			q[i] = s
		}
	}
	return q, kinds
}

// d19NearMiss: one step changed so that the paths must NOT be equivalent (nil if p is empty).
func d19NearMiss(ctx *Ctx, p cty.Path, names []string) cty.Path {
	if len(p) == 0 {
		return cty.GetAttrPath("a")
	}
	q := p.Copy()
	i := ctx.R.Intn(len(q))
	switch s := q[i].(type) {
	case cty.IndexStep:
		if ctx.R.Intn(4) == 0 {
			q[i] = cty.GetAttrStep{Name: "#"} // hashes like an index step, is none
		} else {
			q[i] = cty.IndexStep{Key: d19OtherKey(ctx, s.Key)}
		}
	case cty.GetAttrStep:
		n := names[ctx.R.Intn(len(names))]
		if n == s.Name {
			n = s.Name + "x"
		}
		q[i] = cty.GetAttrStep{Name: n}
	}
	return q
}

var d19Alphabet = []rune("abcdefghijklmnopqrstuvwxyzABCXYZ0123456789_-#é世")

func d19RandName(ctx *Ctx) string {
	n := 1 + ctx.R.Intn(8)
	rs := make([]rune, n)
	for i := range rs {
		rs[i] = d19Alphabet[ctx.R.Intn(len(d19Alphabet))]
	}
	return cty.StringVal(string(rs)).AsString() // NFC-normalised as cty would
}

func runC19D19(ctx *Ctx) {
	names := []string{"a", "b", "ab", "é", "zz", "#"}

	// (1) twins and near misses
	n := ctx.N(500, 12000)
	for i := 0; i < n; i++ {
		p := d19Path(ctx, names)
		q, kind := d19Twin(ctx, p)
		r := d19NearMiss(ctx, p, names)
		ops := []c19PSOp{
			{k: "add", a: 0, p: p}, {k: "has", a: 0, p: q}, {k: "has", a: 0, p: r},
			{k: "add", a: 1, p: q}, {k: "has", a: 1, p: p}, {k: "equal", a: 0, b: 1}, {k: "equal", a: 1, b: 0},
			{k: "add", a: 0, p: q}, {k: "list", a: 0},
			{k: "add", a: 1, p: r}, {k: "equal", a: 0, b: 1}, {k: "equal", a: 1, b: 0},
			{k: "union", a: 2, b: 0, c: 1}, {k: "list", a: 2},
			{k: "inter", a: 3, b: 0, c: 1}, {k: "list", a: 3},
			{k: "sub", a: 3, b: 1, c: 0}, {k: "has", a: 3, p: r}, {k: "has", a: 3, p: p},
			{k: "symd", a: 3, b: 0, c: 1}, {k: "list", a: 3},
			{k: "rem", a: 0, p: q}, {k: "empty", a: 0}, {k: "has", a: 0, p: p},
		}
		c19RunPS(ctx, 4, ops, true, "d19-twin")
		ctx.Tag("d19-twin:" + kind)
		ctx.Tag(fmt.Sprintf("d19-twin:len%d", len(p)))
	}

	// (2) hash order: many paths with random attribute names, listed
	m := ctx.N(60, 1500)
	for i := 0; i < m; i++ {
		var ops []c19PSOp
		k := 8 + ctx.R.Intn(25)
		var all []cty.Path
		for j := 0; j < k; j++ {
			var p cty.Path
			for s := 0; s < 1+ctx.R.Intn(3); s++ {
				if ctx.R.Intn(4) == 0 {
					p = append(p, cty.IndexStep{Key: d19Key(ctx)})
				} else {
					p = append(p, cty.GetAttrStep{Name: d19RandName(ctx)})
				}
			}
			all = append(all, p)
			ops = append(ops, c19PSOp{k: "add", a: j % 2, p: p})
		}
		ops = append(ops, c19PSOp{k: "list", a: 0}, c19PSOp{k: "list", a: 1},
			c19PSOp{k: "union", a: 2, b: 0, c: 1}, c19PSOp{k: "list", a: 2})
		for _, p := range all[:3] {
			tw, _ := d19Twin(ctx, p)
			ops = append(ops, c19PSOp{k: "has", a: 2, p: tw}, c19PSOp{k: "rem", a: 2, p: tw}, c19PSOp{k: "has", a: 2, p: p})
		}
		ops = append(ops, c19PSOp{k: "list", a: 2})
		c19RunPS(ctx, 3, ops, true, "d19-hash-order")
	}

	// (3) wholly known keys of other kinds (null, bool, lists, tuples, objects; marked too):
	// `Equivalent` is an equivalence there, so the reference set applies
	wk := []cty.Value{
		cty.NullVal(cty.Number), cty.NullVal(cty.String), cty.NullVal(cty.DynamicPseudoType), cty.True, cty.False,
		cty.ListVal([]cty.Value{cty.StringVal("a")}), cty.ListVal([]cty.Value{cty.StringVal("b")}),
		cty.ListVal([]cty.Value{cty.StringVal("a")}).Mark("m1"),
		cty.TupleVal([]cty.Value{cty.NumberIntVal(1), cty.StringVal("x")}),
		cty.TupleVal([]cty.Value{cty.MustParseNumberVal("1.0"), cty.StringVal("x").Mark("m2")}),
		cty.ObjectVal(map[string]cty.Value{"a": cty.True}), cty.EmptyObjectVal, cty.EmptyTupleVal,
		cty.NumberIntVal(1), cty.StringVal("a"), cty.NullVal(cty.Number).Mark("m3"),
	}
	h := ctx.N(150, 4000)
	for i := 0; i < h; i++ {
		pick := func() cty.Path {
			var p cty.Path
			for s := 0; s < 1+ctx.R.Intn(2); s++ {
				if ctx.R.Intn(4) == 0 {
					p = append(p, cty.GetAttrStep{Name: names[ctx.R.Intn(len(names))]})
				} else {
					p = append(p, cty.IndexStep{Key: wk[ctx.R.Intn(len(wk))]})
				}
			}
			return p
		}
		nregs := 2
		var ops []c19PSOp
		for j := 0; j < 6+ctx.R.Intn(14); j++ {
			a, b := ctx.R.Intn(nregs), ctx.R.Intn(nregs)
			switch k := ctx.R.Intn(12); {
			case k < 4:
				ops = append(ops, c19PSOp{k: "add", a: a, p: pick()})
			case k < 6:
				ops = append(ops, c19PSOp{k: "rem", a: a, p: pick()})
			case k < 9:
				ops = append(ops, c19PSOp{k: "has", a: a, p: pick()})
			case k == 9:
				ops = append(ops, c19PSOp{k: "list", a: a})
			case k == 10:
				ops = append(ops, c19PSOp{k: "equal", a: a, b: b})
			default:
				ops = append(ops, c19PSOp{k: []string{"union", "inter", "sub", "symd"}[ctx.R.Intn(4)], a: a, b: a, c: b})
			}
		}
		c19RunPS(ctx, nregs, ops, true, "d19-wholly-known-keys")
	}
}

// d19ProbeOracle checks, on the real library, the two contracts the walk / transform
// theorems assume of the set oracle the model is fed (`Walk.IterPerm X`: iteration lists
// exactly the stored members, each once) and the one the unproved RawEquals form of
// transform-id would need (`iter-rebuild`: a set rebuilt by SetVal from its own iteration
// iterates alike), for every set inside v.
func d19ProbeOracle(ctx *Ctx, v cty.Value) {
	if v == cty.NilVal {
		return
	}
	v, _ = v.Unmark()
	if v.IsNull() || !v.IsKnown() {
		return
	}
	ty := v.Type()
	switch {
	case ty.IsSetType():
		members := ssetMembers(cty.VerifDump(v))
		used := make([]bool, len(members))
		ok := true
		var its []string
		for it := v.ElementIterator(); it.Next(); {
			_, e := it.Element()
			d := cty.VerifDump(e)
			its = append(its, d)
			found := false
			for i, m := range members {
				if !used[i] && m == d {
					used[i], found = true, true
					break
				}
			}
			if !found {
				ok = false
			}
			d19ProbeOracle(ctx, e)
		}
		ctx.Probe("IterPerm", ok && len(its) == len(members), "a set's iteration is not a permutation of its stored members: "+v.GoString())
		if len(its) > 0 {
			same := false
			try(func() {
				r := cty.SetVal(v.AsValueSlice())
				var its2 []string
				for it := r.ElementIterator(); it.Next(); {
					_, e := it.Element()
					its2 = append(its2, cty.VerifDump(e))
				}
				same = fmt.Sprint(its) == fmt.Sprint(its2)
			})
			ctx.Probe("iter-rebuild", same, "SetVal of a set's own iteration iterates differently: "+v.GoString())
			ctx.Tag("probe:set")
		}
	case ty.IsListType() || ty.IsTupleType() || ty.IsMapType() || ty.IsObjectType():
		for it := v.ElementIterator(); it.Next(); {
			_, e := it.Element()
			d19ProbeOracle(ctx, e)
		}
	}
}

// ---- paths built with the public builders from shared bases ------------------------------------
//
// Every other scenario builds each path as an independent chain (or takes Path.Copy of what
// Walk reports).  Here the path of every member is built by extending the PARENT's path VALUE
// with Path.GetAttr / Index / IndexInt / IndexString — all siblings from the one base value, the
// bases themselves grown by the builders, lengths 0 … 8 and more — and by a Walk callback that
// extends the path it is handed; all built paths are kept, and only afterwards judged: each must
// still lead to its own member (walk-lead-back), be Equals to itself only, be one member of a
// PathSet of them all, and carry its member's marks back (unmark-remark).  The builder calls are
// also a correspondence case (`path.build`: the model's builders are pure).

type d19Built struct {
	p       cty.Path // built with the public builders, from the parent's path value
	ind     cty.Path // the same steps in a slice of its own
	v       cty.Value
	anc     cty.ValueMarks // marks of the containers on the way
	setStep bool
	reg     int
}

func d19Wrap(ctx *Ctx, v cty.Value, n int) cty.Value {
	for i := 0; i < n; i++ {
		switch k := ctx.R.Intn(4); {
		case k == 0:
			v = cty.ObjectVal(map[string]cty.Value{"w": v, "z": cty.True})
		case k == 1:
			v = cty.TupleVal([]cty.Value{v, cty.StringVal("t")})
		case k == 2 && v.Type() != cty.DynamicPseudoType:
			v = cty.MapVal(map[string]cty.Value{"k": v})
		case k == 3 && v.Type() != cty.DynamicPseudoType:
			v = cty.ListVal([]cty.Value{v})
		default:
			v = cty.ObjectVal(map[string]cty.Value{"w": v})
		}
		if ctx.R.Intn(6) == 0 {
			v = v.Mark(markNames[ctx.R.Intn(len(markNames))])
		}
	}
	return v
}

// d19Extend: base extended by one step through a public builder (chosen at random among
// those that can express the step); instr is the correspondence instruction.
func d19Extend(ctx *Ctx, base cty.Path, src int, s cty.PathStep) (cty.Path, string) {
	switch s := s.(type) {
	case cty.GetAttrStep:
		return base.GetAttr(s.Name), fmt.Sprintf("(ga %d %s)", src, encStr(s.Name))
	case cty.IndexStep:
		k := s.Key
		if k.Type() == cty.Number && k.IsKnown() && !k.IsNull() && !k.IsMarked() && ctx.R.Intn(2) == 0 {
			if i, acc := k.AsBigFloat().Int64(); acc == 0 && i >= 0 && i < 1<<30 {
				return base.IndexInt(int(i)), fmt.Sprintf("(ixi %d %d)", src, i)
			}
		}
		if k.Type() == cty.String && k.IsKnown() && !k.IsNull() && !k.IsMarked() && ctx.R.Intn(2) == 0 {
			return base.IndexString(k.AsString()), fmt.Sprintf("(ixs %d %s)", src, encStr(k.AsString()))
		}
		return base.Index(k), fmt.Sprintf("(ix %d %s)", src, encVal(k))
	}
	return base, "(bad)"
}

func d19Own(p cty.Path, s cty.PathStep) cty.Path {
	q := make(cty.Path, len(p)+1)
	copy(q, p)
	q[len(p)] = s
	return q
}

func c19BuiltPathsCase(ctx *Ctx, v cty.Value) {
	wrapN := ctx.R.Intn(9)
	root := d19Wrap(ctx, v, wrapN)
	vw, lit := encVal(root), root.GoString()
	glit := lit + " ; the path of every member built by extending its parent's path value with GetAttr/Index/IndexInt/IndexString, siblings from the one base, all kept"

	// (1) the tree of members, every path derived from its parent's path value
	var nodes []d19Built
	var prog []string
	var derive func(at int)
	derive = func(at int) {
		n := nodes[at]
		kids := c19Kids(n.v)
		raw, _ := n.v.Unmark()
		isSet := raw.IsKnown() && !raw.IsNull() && raw.Type().IsSetType()
		first := len(nodes)
		for _, k := range kids { // all siblings from the one base value, before going deeper
			p, instr := d19Extend(ctx, n.p, n.reg, k.step)
			prog = append(prog, instr)
			nodes = append(nodes, d19Built{p: p, ind: d19Own(n.ind, k.step), v: k.v, anc: marksUnion(n.anc, n.v.Marks()),
				setStep: n.setStep || isSet, reg: len(prog)})
		}
		for i := range kids {
			derive(first + i)
		}
	}
	nodes = append(nodes, d19Built{p: nil, ind: cty.Path{}, v: root, anc: cty.ValueMarks{}, reg: 0})
	derive(0)
	info := map[string]d19Built{}
	for _, n := range nodes {
		if _, dup := info[encPath(n.ind)]; !dup {
			info[encPath(n.ind)] = n
		}
	}
	outs := make([]string, len(nodes))
	for i, n := range nodes {
		outs[i] = encPath(n.p)
	}
	ctx.Add("path.build", "("+strings.Join(outs, " ")+")", prog...)
	ctx.Tag(fmt.Sprintf("built:wrap%d", wrapN))
	maxLen := 0
	for _, n := range nodes {
		if len(n.ind) > maxLen {
			maxLen = len(n.ind)
		}
	}
	ctx.Tag(fmt.Sprintf("built:maxlen%d", maxLen))

	// (2) a Walk callback that extends the path it is handed with the builders and keeps the results
	kept := append([]d19Built(nil), nodes...)
	try(func() {
		cty.Walk(root, func(p cty.Path, x cty.Value) (bool, error) {
			for _, k := range c19Kids(x) {
				d, _ := d19Extend(ctx, p, 0, k.step)
				ind := d19Own(p, k.step) // p is intact while the callback runs
				if n, ok := info[encPath(ind)]; ok {
					kept = append(kept, d19Built{p: d, ind: ind, v: n.v, anc: n.anc, setStep: n.setStep})
				}
			}
			return true, nil
		})
	})
	ctx.Eval("built "+vw, len(kept) > 1)

	// (3) judged only now, with every built path still alive
	var plain []d19Built
	for _, n := range kept {
		if n.setStep {
			continue
		}
		plain = append(plain, n)
		pk := encPath(n.ind)
		var got cty.Value
		var err error
		pan, _ := try(func() { got, err = n.p.Apply(root) })
		if pan || err != nil {
			ctx.Fail(Failure{Site: "walk-lead-back", Sig: "built-path-apply-failed", What: "the path built for a member by extending its parent's path does not apply to the root", Input: vw + " " + pk, GoLit: glit + " ; member at " + pathLit(n.ind), Outcome: encPath(n.p)})
			continue
		}
		gu, _ := got.Unmark()
		nu, _ := n.v.Unmark()
		if !gu.RawEquals(nu) {
			ctx.Fail(Failure{Site: "walk-lead-back", Sig: "built-path-other-member", What: "the path built for a member by extending its parent's path leads to a different member once its siblings' paths have been built", Input: vw + " " + pk, GoLit: glit + " ; member at " + pathLit(n.ind), Outcome: "path is now " + encPath(n.p) + " -> " + encVal(got)})
		} else if !got.Marks().Equal(marksUnion(n.anc, n.v.Marks())) {
			ctx.Fail(Failure{Site: "walk-lead-back", Sig: "built-path-marks", What: "marks reached through a built path are not those of the member and its ancestors", Input: vw + " " + pk, GoLit: glit + " ; member at " + pathLit(n.ind), Outcome: encVal(got)})
		}
		if !n.p.Equals(n.ind) || !n.ind.HasPrefix(n.p) {
			ctx.Fail(Failure{Site: "path-equals", Sig: "built-path-not-itself", What: "a built path is not Equals to the same steps in a slice of its own", Input: pk, GoLit: glit + " ; member at " + pathLit(n.ind), Outcome: encPath(n.p)})
		}
	}
	// Equals only to itself: siblings and random pairs
	pairs := 0
	for i := 0; i < len(plain) && pairs < 400; i++ {
		for _, j := range []int{i + 1, i + 2, ctx.R.Intn(len(plain))} {
			if j >= len(plain) || j == i {
				continue
			}
			pairs++
			same := encPath(plain[i].ind) == encPath(plain[j].ind)
			var eq bool
			if pan, _ := try(func() { eq = plain[i].p.Equals(plain[j].p) }); pan || eq != same {
				ctx.Fail(Failure{Site: "path-equals", Sig: "built-paths-equal", What: "paths built for two different members are Equals (or one built path is not Equals to itself)", Input: encPath(plain[i].ind) + " " + encPath(plain[j].ind), GoLit: glit + " ; members at " + pathLit(plain[i].ind) + " and " + pathLit(plain[j].ind), Outcome: encPath(plain[i].p) + " " + encPath(plain[j].p)})
			}
		}
	}
	// one PathSet of them all
	want := map[string]bool{}
	var ps []cty.Path
	for _, n := range plain {
		want[encPath(n.ind)] = true
		ps = append(ps, n.p)
	}
	if pan, _ := try(func() {
		s := cty.NewPathSet(ps...)
		l := s.List()
		ok := len(l) == len(want)
		for _, n := range plain {
			if !s.Has(n.ind) {
				ok = false
			}
		}
		if !ok {
			ctx.Fail(Failure{Site: "pathset-members", Sig: "built-paths", What: fmt.Sprintf("a PathSet of the built paths of %d different members has %d members / lacks one of them", len(want), len(l)), Input: vw, GoLit: glit, Outcome: encPaths(l)})
		}
	}); pan {
		ctx.Fail(Failure{Site: "pathset-no-panic", Sig: "built-paths", What: "a PathSet of built paths panicked", Input: vw, GoLit: glit, Outcome: "panic"})
	}
	// marks re-applied through the built paths
	var pvm []cty.PathValueMarks
	for _, n := range nodes {
		if !n.setStep && len(n.v.Marks()) > 0 {
			pvm = append(pvm, cty.PathValueMarks{Path: n.p, Marks: n.v.Marks()})
		}
	}
	if pan, _ := try(func() {
		u, _ := root.UnmarkDeep()
		back := u.MarkWithPaths(pvm)
		if !back.RawEquals(root) {
			ctx.Fail(Failure{Site: "unmark-remark", Sig: "built-paths-not-restored", What: "MarkWithPaths with the built paths of the marked members does not restore the value", Input: vw, GoLit: glit, Outcome: encVal(back)})
		}
	}); pan {
		ctx.Fail(Failure{Site: "unmark-remark", Sig: "built-paths-panic", What: "MarkWithPaths with built paths panicked", Input: vw, GoLit: glit, Outcome: "panic"})
	}
}
