package main

// C04, d04 additions.
//
// c04d04ConvTie: the REAL conversion model (lean/CtyModel/Convert.lean, driver op
// cv.convert of Driver/HConvert.lean — the model C04.convert_real_no_invention /
// convert_real_top_marks_kept are theorems about) is diffed against convert.Convert on
// the marked inputs of the C04 generators (several distinct marks, top-level and nested,
// on null and unknown members) and on their deeply unmarked twins.

import (
	"strings"

	"github.com/zclconf/go-cty/cty"
)

func c04d04ConvTie(ctx *Ctx, v, clean cty.Value, ty cty.Type, outM, outC string) {
	tw := encTy(ty)
	ctx.Add("cv.convert", outM, encVal(v), tw)
	ctx.Add("cv.convert", outC, encVal(clean), tw)
	ctx.Tag("d04:cv.convert:" + strings.SplitN(outM, " ", 2)[0])
}
