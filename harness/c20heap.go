package main

// C20 — the REAL go-cty driven through histories of API calls and caller
// mutations, mirrored op for op by the Lean heap model (lean/CtyModel/HeapOps.lean,
// driver op `heap.run`).  This file holds the register machine over the real
// code, the fingerprint printers (same syntax as the model's `fp`), the bucket /
// slice layout printer (len, cap, backing-array identity) and the independent
// classification of every observed fingerprint change.

import (
	"fmt"
	"math/big"
	"sort"
	"strings"
	"unsafe"

	"github.com/zclconf/go-cty/cty"
	"github.com/zclconf/go-cty/cty/set"
)

// ---- S-expressions of cty.VerifDump ---------------------------------------

type c20sx struct {
	atom string
	list []*c20sx
	isL  bool
}

func c20parse(s string) *c20sx {
	pos := 0
	var rec func() *c20sx
	rec = func() *c20sx {
		for pos < len(s) && s[pos] == ' ' {
			pos++
		}
		if pos >= len(s) {
			return &c20sx{atom: ""}
		}
		if s[pos] == '(' {
			pos++
			n := &c20sx{isL: true}
			for {
				for pos < len(s) && s[pos] == ' ' {
					pos++
				}
				if pos >= len(s) {
					return n
				}
				if s[pos] == ')' {
					pos++
					return n
				}
				n.list = append(n.list, rec())
			}
		}
		st := pos
		for pos < len(s) && s[pos] != ' ' && s[pos] != '(' && s[pos] != ')' {
			pos++
		}
		return &c20sx{atom: s[st:pos]}
	}
	return rec()
}

func (n *c20sx) String() string {
	if !n.isL {
		return n.atom
	}
	parts := make([]string, len(n.list))
	for i, k := range n.list {
		parts[i] = k.String()
	}
	return "(" + strings.Join(parts, " ") + ")"
}

// c20unkText is the opaque refinement text of an unknown payload `(unk …)`.
func c20unkText(n *c20sx) string {
	parts := []string{}
	for _, k := range n.list[1:] {
		parts = append(parts, k.String())
	}
	return strings.Join(parts, " ")
}

// c20payloadFP turns the VerifDump of a payload into the model's fingerprint syntax.
func c20payloadFP(n *c20sx) string {
	if !n.isL {
		if n.atom == "null" {
			return "(null)"
		}
		return "#bad"
	}
	if len(n.list) == 0 {
		return "#bad"
	}
	switch n.list[0].atom {
	case "unk":
		return "(unk " + encStr(c20unkText(n)) + ")"
	case "b":
		return "(b " + n.list[1].atom + ")"
	case "n":
		// (n sign mant exp prec) = (-1)^sign * mant * 2^exp ; histories use whole numbers only
		mant, _ := new(big.Int).SetString(n.list[2].atom, 10)
		var e int
		fmt.Sscan(n.list[3].atom, &e)
		if e < 0 {
			return "#frac"
		}
		mant.Lsh(mant, uint(e))
		if n.list[1].atom == "1" {
			mant.Neg(mant)
		}
		return "(n " + mant.String() + ")"
	case "s":
		return "(s " + n.list[1].atom + ")"
	case "seq":
		var sb strings.Builder
		sb.WriteString("(seq")
		for _, k := range n.list[1:] {
			sb.WriteString(c20payloadFP(k))
		}
		sb.WriteString(")")
		return sb.String()
	case "smap":
		var sb strings.Builder
		sb.WriteString("(map")
		for _, k := range n.list[1:] {
			sb.WriteString(" " + k.list[0].atom + c20payloadFP(k.list[1]))
		}
		sb.WriteString(")")
		return sb.String()
	case "sset":
		var sb strings.Builder
		sb.WriteString("(set")
		cur, open := "", false
		for _, k := range n.list[1:] {
			if !open || k.list[0].atom != cur {
				if open {
					sb.WriteString(")")
				}
				cur, open = k.list[0].atom, true
				sb.WriteString(" " + cur + "(seq")
			}
			sb.WriteString(c20payloadFP(k.list[1]))
		}
		if open {
			sb.WriteString(")")
		}
		sb.WriteString(")")
		return sb.String()
	case "mk":
		var sb strings.Builder
		sb.WriteString("(mk")
		for _, m := range n.list[1].list {
			sb.WriteString(" " + m.atom)
		}
		sb.WriteString("(of" + c20payloadFP(n.list[2]) + "))")
		return sb.String()
	}
	return "#bad"
}

func c20primName(t cty.Type) string {
	switch t {
	case cty.Bool:
		return "bool"
	case cty.Number:
		return "number"
	case cty.String:
		return "string"
	case cty.DynamicPseudoType:
		return "dyn"
	}
	return ""
}

func c20primType(n string) cty.Type {
	switch n {
	case "bool":
		return cty.Bool
	case "number":
		return cty.Number
	case "string":
		return cty.String
	}
	return cty.DynamicPseudoType
}

func c20tysFP(ts []cty.Type) string {
	if ts == nil {
		return "(null)"
	}
	var sb strings.Builder
	sb.WriteString("(seq")
	for _, e := range ts {
		sb.WriteString(c20tyFP(e))
	}
	sb.WriteString(")")
	return sb.String()
}

func c20tymapFP(m map[string]cty.Type) string {
	if m == nil {
		return "(null)"
	}
	ks := make([]string, 0, len(m))
	for k := range m {
		ks = append(ks, k)
	}
	sort.Strings(ks)
	var sb strings.Builder
	sb.WriteString("(map")
	for _, k := range ks {
		sb.WriteString(" " + encStr(k) + c20tyFP(m[k]))
	}
	sb.WriteString(")")
	return sb.String()
}

func c20tyFP(t cty.Type) string {
	switch {
	case c20primName(t) != "":
		return "(tp " + encStr(c20primName(t)) + ")"
	case t.IsListType():
		return "(tl" + c20tyFP(t.ElementType()) + ")"
	case t.IsSetType():
		return "(te" + c20tyFP(t.ElementType()) + ")"
	case t.IsMapType():
		return "(tm" + c20tyFP(t.ElementType()) + ")"
	case t.IsTupleType():
		return "(tt" + c20tysFP(t.TupleElementTypes()) + ")"
	case t.IsObjectType():
		return "(to" + c20tymapFP(t.AttributeTypes()) + ")"
	}
	return "#badty"
}

func c20valFP(v cty.Value) string {
	return "(v" + c20tyFP(v.Type()) + c20payloadFP(c20parse(cty.VerifDump(v))) + ")"
}

// ---- looking inside (harness-only; unsafe mirrors of unexported layouts) ----

type c20valueMirror struct {
	ty cty.Type
	v  interface{}
}

func c20rawValue(ty cty.Type, v interface{}) cty.Value {
	m := c20valueMirror{ty, v}
	return *(*cty.Value)(unsafe.Pointer(&m))
}

func c20innerSetOfValue(v cty.Value) (set.Set[interface{}], bool) {
	m := *(*c20valueMirror)(unsafe.Pointer(&v))
	s, ok := m.v.(set.Set[interface{}])
	return s, ok
}

func c20innerSetOfVS(s cty.ValueSet) set.Set[interface{}] {
	return *(*set.Set[interface{}])(unsafe.Pointer(&s))
}

func c20innerSetOfPS(s cty.PathSet) set.Set[cty.Path] {
	return *(*set.Set[cty.Path])(unsafe.Pointer(&s))
}

func c20pathFP(p cty.Path) string {
	if p == nil {
		return "(null)"
	}
	var sb strings.Builder
	sb.WriteString("(seq")
	for _, st := range p {
		switch s := st.(type) {
		case cty.GetAttrStep:
			sb.WriteString("(attr " + encStr(s.Name) + ")")
		case cty.IndexStep:
			sb.WriteString(c20valFP(s.Key))
		default:
			sb.WriteString("#badstep")
		}
	}
	sb.WriteString(")")
	return sb.String()
}

func c20vsetFP(s cty.ValueSet) string {
	ety := s.ElementType()
	ids, buckets := set.VerifBuckets(c20innerSetOfVS(s))
	var sb strings.Builder
	sb.WriteString("(v" + c20tyFP(ety) + "(set")
	for i, id := range ids {
		fmt.Fprintf(&sb, " %d(seq", id)
		for _, e := range buckets[i] {
			sb.WriteString(c20payloadFP(c20parse(cty.VerifDump(c20rawValue(ety, e)))))
		}
		sb.WriteString(")")
	}
	sb.WriteString("))")
	return sb.String()
}

func c20psetFP(s cty.PathSet) string {
	ids, buckets := set.VerifBuckets(c20innerSetOfPS(s))
	var sb strings.Builder
	sb.WriteString("(set")
	for i, id := range ids {
		fmt.Fprintf(&sb, " %d(seq", id)
		for _, p := range buckets[i] {
			sb.WriteString(c20pathFP(p))
		}
		sb.WriteString(")")
	}
	sb.WriteString(")")
	return sb.String()
}

// ---- registers --------------------------------------------------------------

// c20Go is one register of Go data the caller holds.
type c20Go struct {
	kind   string // float slice map marks types tymap vset path pset
	f      *big.Float
	vs     []cty.Value
	vm     map[string]cty.Value
	mk     cty.ValueMarks
	tys    []cty.Type
	tm     map[string]cty.Type
	set    cty.ValueSet
	path   cty.Path
	ps     cty.PathSet
	paths  []cty.Path
	origin string          // accessor that produced it ("" = made by the caller)
	given  map[string]bool // API entry points it was passed to
	holdsWalkPath bool     // a PathSet (or its List()) that was given a Walk callback's path without a copy
}

func (g *c20Go) fp() string {
	switch g.kind {
	case "float":
		i, acc := g.f.Int(nil)
		if acc != big.Exact {
			return "#frac"
		}
		return "(n " + i.String() + ")"
	case "slice":
		if g.vs == nil {
			return "(null)"
		}
		var sb strings.Builder
		sb.WriteString("(seq")
		for _, v := range g.vs {
			sb.WriteString(c20valFP(v))
		}
		sb.WriteString(")")
		return sb.String()
	case "map":
		if g.vm == nil {
			return "(null)"
		}
		ks := make([]string, 0, len(g.vm))
		for k := range g.vm {
			ks = append(ks, k)
		}
		sort.Strings(ks)
		var sb strings.Builder
		sb.WriteString("(map")
		for _, k := range ks {
			sb.WriteString(" " + encStr(k) + c20valFP(g.vm[k]))
		}
		sb.WriteString(")")
		return sb.String()
	case "marks":
		if g.mk == nil {
			return "(null)"
		}
		ms := []string{}
		for m := range g.mk {
			ms = append(ms, encStr(fmt.Sprint(m)))
		}
		sort.Strings(ms)
		var sb strings.Builder
		sb.WriteString("(marks")
		for _, m := range ms {
			sb.WriteString(" " + m)
		}
		sb.WriteString(")")
		return sb.String()
	case "types":
		return c20tysFP(g.tys)
	case "tymap":
		return c20tymapFP(g.tm)
	case "vset":
		return c20vsetFP(g.set)
	case "path":
		return c20pathFP(g.path)
	case "pset":
		return c20psetFP(g.ps)
	case "paths":
		if g.paths == nil {
			return "(null)"
		}
		var sb strings.Builder
		sb.WriteString("(seq")
		for _, p := range g.paths {
			sb.WriteString(c20pathFP(p))
		}
		sb.WriteString(")")
		return sb.String()
	}
	return "#badkind"
}

type c20Ev struct {
	p cty.Path
	v cty.Value
}

// c20Walk is a running cty.Walk, suspended inside its callback.
type c20Walk struct {
	ev     chan c20Ev
	resume chan bool
	done   bool
}

type c20stop struct{}

func (c20stop) Error() string { return "stop" }

func c20startWalk(v cty.Value) (*c20Walk, c20Ev) {
	w := &c20Walk{ev: make(chan c20Ev), resume: make(chan bool)}
	go func() {
		cty.Walk(v, func(p cty.Path, v cty.Value) (bool, error) {
			w.ev <- c20Ev{p, v}
			if !<-w.resume {
				return false, c20stop{}
			}
			return true, nil
		})
		close(w.ev)
	}()
	return w, <-w.ev
}

func (w *c20Walk) next() (c20Ev, bool) {
	if w.done {
		return c20Ev{}, false
	}
	w.resume <- true
	e, ok := <-w.ev
	if !ok {
		w.done = true
	}
	return e, ok
}

func (w *c20Walk) cancel() {
	if !w.done {
		w.resume <- false
		for range w.ev {
		}
		w.done = true
	}
}

// c20H is the register machine over the real code.
type c20H struct {
	ext     bool   // an entry point of harness/c20_d2.go was executed: the history is diffed against `heapx.run`
	outside string // non-empty: a valid call outside the model's fragment was executed; from there on the history is judged by (S) only
	vals  []cty.Value
	gos   []*c20Go
	walks []*c20Walk
	outs  []string
}

func (h *c20H) pushGo(g *c20Go) {
	if g.given == nil {
		g.given = map[string]bool{}
	}
	h.gos = append(h.gos, g)
}

func (h *c20H) snapshot() (vs, gs []string) {
	vs = make([]string, len(h.vals))
	for i, v := range h.vals {
		vs[i] = c20valFP(v)
	}
	gs = make([]string, len(h.gos))
	for i, g := range h.gos {
		gs[i] = g.fp()
	}
	return
}

func (h *c20H) close() {
	for _, w := range h.walks {
		w.cancel()
	}
}

// layout prints bucket len/cap/backing-array identity of every set held in a
// register, then len/cap/identity of every slice register, numbering the arrays
// by first appearance (same traversal as HHeap.layoutStr).
func (h *c20H) layout() string {
	seen := map[unsafe.Pointer]int{}
	num := func(p unsafe.Pointer) int {
		if k, ok := seen[p]; ok {
			return k
		}
		seen[p] = len(seen)
		return seen[p]
	}
	var parts []string
	bucketStr := func(pre string, ids []int, lens, caps []int, ptrs []unsafe.Pointer) {
		bs := make([]string, len(ids))
		for i := range ids {
			bs[i] = fmt.Sprintf("%d:%d/%d@%d", ids[i], lens[i], caps[i], num(ptrs[i]))
		}
		parts = append(parts, pre+"{"+strings.Join(bs, " ")+"}")
	}
	valSet := func(pre string, s set.Set[interface{}]) {
		ids, buckets := set.VerifBuckets(s)
		lens, caps, ptrs := []int{}, []int{}, []unsafe.Pointer{}
		for _, b := range buckets {
			lens, caps, ptrs = append(lens, len(b)), append(caps, cap(b)), append(ptrs, c20data(b))
		}
		bucketStr(pre, ids, lens, caps, ptrs)
	}
	for _, v := range h.vals {
		if v.Type().IsSetType() && !v.IsMarked() && v.IsKnown() && !v.IsNull() {
			if s, ok := c20innerSetOfValue(v); ok {
				valSet("V", s)
			}
		}
	}
	for _, g := range h.gos {
		switch g.kind {
		case "vset":
			valSet("G", c20innerSetOfVS(g.set))
		case "pset":
			ids, buckets := set.VerifBuckets(c20innerSetOfPS(g.ps))
			lens, caps, ptrs := []int{}, []int{}, []unsafe.Pointer{}
			for _, b := range buckets {
				lens, caps, ptrs = append(lens, len(b)), append(caps, cap(b)), append(ptrs, c20data(b))
			}
			bucketStr("G", ids, lens, caps, ptrs)
		}
	}
	for i, g := range h.gos {
		var l, c int
		var p unsafe.Pointer
		switch {
		case g.kind == "slice" && g.vs != nil:
			l, c, p = len(g.vs), cap(g.vs), c20data(g.vs)
		case g.kind == "types" && g.tys != nil:
			l, c, p = len(g.tys), cap(g.tys), c20data(g.tys)
		case g.kind == "path" && g.path != nil:
			l, c, p = len(g.path), cap(g.path), c20data(g.path)
		case g.kind == "paths" && g.paths != nil:
			l, c, p = len(g.paths), cap(g.paths), c20data(g.paths)
		default:
			continue
		}
		if c == 0 {
			parts = append(parts, fmt.Sprintf("S%d:%d/0@-", i, l))
		} else {
			parts = append(parts, fmt.Sprintf("S%d:%d/%d@%d", i, l, c, num(p)))
		}
	}
	return strings.Join(parts, " ")
}

// ---- oracle columns -----------------------------------------------------------

// c20perm finds, for every element of `out`, its position in `flat` (fingerprints).
func c20perm(flat, out []string) ([]int, bool) {
	used := make([]bool, len(flat))
	perm := make([]int, len(out))
	for i, o := range out {
		found := false
		for j, f := range flat {
			if !used[j] && f == o {
				used[j], perm[i], found = true, j, true
				break
			}
		}
		if !found {
			return nil, false
		}
	}
	return perm, len(out) == len(flat)
}

func c20setFlat(ety cty.Type, s set.Set[interface{}]) (ids []int, flat []string) {
	ids, flat, _ = c20setFlatV(ety, s)
	return
}

// c20setFlatV: bucket id, fingerprint and member value, in bucket order
func c20setFlatV(ety cty.Type, s set.Set[interface{}]) (ids []int, flat []string, vals []cty.Value) {
	bids, buckets := set.VerifBuckets(s)
	for i, b := range buckets {
		for _, e := range b {
			ids = append(ids, bids[i])
			v := c20rawValue(ety, e)
			vals = append(vals, v)
			flat = append(flat, c20payloadFP(c20parse(cty.VerifDump(v))))
		}
	}
	return
}

func c20payloadFPs(vs []cty.Value) []string {
	out := make([]string, len(vs))
	for i, v := range vs {
		out[i] = c20payloadFP(c20parse(cty.VerifDump(v)))
	}
	return out
}

func c20pathHash(p cty.Path) int {
	ids, _ := set.VerifBuckets(c20innerSetOfPS(cty.NewPathSet(p)))
	return ids[0]
}

func c20ints(xs []int) string {
	parts := make([]string, len(xs)+1)
	parts[0] = "l"
	for i, x := range xs {
		parts[i+1] = fmt.Sprint(x)
	}
	return "(" + strings.Join(parts, " ") + ")"
}

// c20data is the address of a slice's backing array (nil when cap is 0).
func c20data[T any](s []T) unsafe.Pointer {
	if cap(s) == 0 {
		return nil
	}
	return unsafe.Pointer(&s[:1][0])
}
