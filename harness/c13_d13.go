package main

// C13, deepening pass d13: extra deterministic and random cases that reach what the
// theorems added in Lemmas/d13*.lean speak about.
//
//  * set algebra / sethaselement on two Equals-equal numbers that hash differently (the
//    witness of C13.setAlgebraOnAllKnownMembers_counterexample; root cause: the C03
//    hash-coherence finding) — a recorded finding, it must keep reproducing;
//  * (more below, each block says which theorem it serves).

import (
	"fmt"

	"github.com/zclconf/go-cty/cty"
)

// pairs of numbers that are Equals-true (same shortest decimal text at their own precision) but
// hash into different buckets (their 10-significant-digit texts differ)
var c13IncoherentPairs = [][2]cty.Value{
	{cty.NumberFloatVal(3.9477794105), cty.MustParseNumberVal("3.9477794105")},
	// pairs whose bucket order (hash ascending) disagrees with their exact numeric order: in a set holding
	// both, setRules.Less answers false both ways (RawEquals), so the iteration order is the bucket order
	{cty.NumberFloatVal(9.3350578075), cty.MustParseNumberVal("9.3350578075")},
	{cty.NumberFloatVal(7.5953385255), cty.MustParseNumberVal("7.5953385255")},
}

func c13D13(ctx *Ctx) {
	c13D13Incoherent(ctx)
	c13D13Index(ctx)
	c13D13Compose(ctx)
}

// The set functions compose (C13.sethaselement_of_setop): sethaselement(setop(a, b), q) must be the
// union / intersection / difference / symmetric difference of what an Equals scan of the two member
// lists answers for q — evaluated on the REAL functions for every q drawn from a, from b, and fresh.
func c13D13Compose(ctx *Ctx) {
	opts := ValOpts{Null: true, Small: true, NoInf: true}
	etys := []cty.Type{cty.Number, cty.String, cty.Bool, cty.Tuple([]cty.Type{cty.Number, cty.String}), cty.List(cty.String),
		cty.Object(map[string]cty.Type{"a": cty.String}), cty.Map(cty.Number)}
	ops := []string{"setunion", "setintersection", "setsubtract", "setsymmetricdifference"}
	n := ctx.N(60, 1500)
	for i := 0; i < n; i++ {
		ety := etys[ctx.R.Intn(len(etys))]
		a := c13Set(ety, c13Members(ctx, ety, ctx.R.Intn(5), opts))
		b := c13Set(ety, c13Members(ctx, ety, ctx.R.Intn(5), opts))
		probes := append(append([]cty.Value{}, c13Slice(a)...), c13Slice(b)...)
		probes = append(probes, genVal(ctx.R, ety, 1, opts))
		for _, name := range ops {
			res := c13Invoke(name, []cty.Value{a, b})
			if res.class != "ok" || !res.val.IsWhollyKnown() {
				ctx.Tag("d13:compose:setop-" + res.class)
				continue
			}
			for _, q := range probes {
				if !q.IsWhollyKnown() || q.IsNull() {
					continue // a null needle is outside sethaselement's domain (the parameter does not allow null)
				}
				inA, inB := c13Member(c13Slice(a), q), c13Member(c13Slice(b), q)
				var want bool
				switch name {
				case "setunion":
					want = inA || inB
				case "setintersection":
					want = inA && inB
				case "setsubtract":
					want = inA && !inB
				default:
					want = inA != inB
				}
				args := []cty.Value{res.val, q}
				h := c13Case(ctx, "sethaselement", args, false)
				key := "compose " + name + " " + c13EncArgs([]cty.Value{a, b, q})
				ctx.Eval(key, true)
				ctx.Tag(fmt.Sprintf("d13:compose:%s:%v", name, want))
				if h.class != "ok" || !h.val.RawEquals(cty.BoolVal(want)) {
					ctx.Fail(Failure{Site: "compose", Sig: "compose:" + name,
						What:  fmt.Sprintf("sethaselement(%s(a, b), q) differs from the reference over plain slices (want %v)", name, want),
						Input: key, GoLit: "stdlib.SetHasElement(" + c13GoLit(name, []cty.Value{a, b}) + ", " + q.GoString() + ")", Outcome: h.wire()})
				}
			}
		}
	}
}

// index / hasindex on their whole key domain (C13.index_list_any_number, index_tuple, index_map):
// every odd number (fractional, negative zero, beyond int64, infinite) as key of lists and tuples of
// every length 0-6; every key of c13Keys, present or absent, on maps of 0-3 entries; keys of the wrong type.
func c13D13Index(ctx *Ctx) {
	strs := []cty.Value{cty.StringVal("a"), cty.StringVal("b"), cty.StringVal("c"), cty.StringVal("d"), cty.StringVal("e"), cty.StringVal("f")}
	mixed := []cty.Value{cty.StringVal("a"), cty.NumberIntVal(1), cty.True, cty.NullVal(cty.String), cty.EmptyTupleVal, cty.StringVal("f")}
	run := func(name string, args []cty.Value) {
		res := c13Case(ctx, name, args, false)
		c13Judge(ctx, name, args, res)
		ctx.Tag("d13:index:" + name + ":" + res.class)
	}
	for l := 0; l <= 6; l++ {
		list := c13List(cty.String, strs[:l])
		tup := cty.TupleVal(mixed[:l])
		for _, odd := range c13OddNumbers {
			for _, name := range []string{"index", "hasindex"} {
				run(name, []cty.Value{list, odd})
				run(name, []cty.Value{tup, odd})
			}
		}
		for _, bad := range []cty.Value{cty.StringVal("0"), cty.True, cty.NullVal(cty.Number)} {
			run("index", []cty.Value{list, bad})
			run("index", []cty.Value{tup, bad})
		}
	}
	for n := 0; n <= 3; n++ {
		m := map[string]cty.Value{}
		for i := 0; i < n; i++ {
			m[c13Keys[i]] = cty.NumberIntVal(int64(i))
		}
		mv := c13Map(cty.Number, m)
		for _, k := range c13Keys {
			run("index", []cty.Value{mv, cty.StringVal(k)})
			run("hasindex", []cty.Value{mv, cty.StringVal(k)})
		}
		run("index", []cty.Value{mv, cty.NumberIntVal(0)})
		run("index", []cty.Value{mv, cty.NullVal(cty.String)})
	}
}

func c13D13Incoherent(ctx *Ctx) {
	for _, pr := range c13IncoherentPairs {
		a, b := pr[0], pr[1]
		if !c13Eq(a, b) || a.Hash() == b.Hash() {
			// the C03 finding was repaired: the pair is no witness any more
			ctx.Tag("d13:incoherent-pair-no-longer-incoherent")
			continue
		}
		sa, sb := cty.SetVal([]cty.Value{a}), cty.SetVal([]cty.Value{b})
		// a set holding BOTH (two Equals-equal members): its iteration order is the bucket order, because
		// setRules.Less answers false both ways for RawEquals members (correspondence only)
		both := cty.SetVal([]cty.Value{a, b})
		c13Case(ctx, "reverse", []cty.Value{both}, false)
		c13Case(ctx, "setunion", []cty.Value{both, sa}, false)
		c13Case(ctx, "setproduct", []cty.Value{both, both}, false)
		c13Case(ctx, "contains", []cty.Value{both, a}, false)
		ctx.Tag("d13:incoherent:two-equal-members-in-one-set")
		for _, name := range []string{"setunion", "setintersection", "setsubtract", "setsymmetricdifference", "sethaselement"} {
			args := []cty.Value{sa, sb}
			if name == "sethaselement" {
				args = []cty.Value{sa, b}
			}
			res := c13Case(ctx, name, args, false)
			ctx.Tag("d13:incoherent:" + name)
			want := c13Reference(name, args)
			key := name + " " + c13EncArgs(args)
			ctx.Eval(key, true)
			ok := res.class == "ok"
			if ok {
				if want.asSet {
					ok = c13SameSet(res.val, want.val)
				} else {
					ok = res.val.RawEquals(want.val)
				}
			}
			if !ok {
				ctx.Fail(Failure{Site: "setalgebra", Sig: "equal-numbers-in-different-hash-buckets:" + name,
					What: "the set functions treat two Equals-equal numbers as different members when their hashes differ " +
						"(reference over plain slices with Equals: " + want.val.GoString() + ")",
					Input: key, GoLit: c13GoLit(name, args), Outcome: res.wire()})
			}
		}
	}
}
