package main

// C13, deepening pass d13: extra deterministic and random cases that reach what the
// theorems added in Lemmas/d13*.lean speak about.
//
//  * set algebra / sethaselement on two Equals-equal numbers that hash differently (the
//    witness of C13.setAlgebraOnAllKnownMembers_counterexample; root cause: the C03
//    hash-coherence finding) — a recorded finding, it must keep reproducing;
//  * (more below, each block says which theorem it serves).

import (
	"github.com/zclconf/go-cty/cty"
)

// pairs of numbers that are Equals-true (same shortest decimal text at their own precision) but
// hash into different buckets (their 10-significant-digit texts differ)
var c13IncoherentPairs = [][2]cty.Value{
	{cty.NumberFloatVal(3.9477794105), cty.MustParseNumberVal("3.9477794105")},
}

func c13D13(ctx *Ctx) {
	c13D13Incoherent(ctx)
}

func c13D13Incoherent(ctx *Ctx) {
	for _, pr := range c13IncoherentPairs {
		a, b := pr[0], pr[1]
		if !c13Eq(a, b) || a.Hash() == b.Hash() {
			// the C03 finding was repaired: the pair is no witness any more
			ctx.Tag("d13:incoherent-pair-no-longer-incoherent")
			continue
		}
		sa, sb := cty.SetVal([]cty.Value{a}), cty.SetVal([]cty.Value{b})
		for _, name := range []string{"setunion", "setintersection", "setsubtract", "setsymmetricdifference", "sethaselement"} {
			args := []cty.Value{sa, sb}
			if name == "sethaselement" {
				args = []cty.Value{sa, b}
			}
			res := c13Case(ctx, name, args, false)
			ctx.Tag("d13:incoherent:" + name)
			want := c13Reference(name, args)
			key := name + " " + c13EncArgs(args)
			ctx.Eval(key, true)
			ok := res.class == "ok"
			if ok {
				if want.asSet {
					ok = c13SameSet(res.val, want.val)
				} else {
					ok = res.val.RawEquals(want.val)
				}
			}
			if !ok {
				ctx.Fail(Failure{Site: "setalgebra", Sig: "equal-numbers-in-different-hash-buckets:" + name,
					What: "the set functions treat two Equals-equal numbers as different members when their hashes differ " +
						"(reference over plain slices with Equals: " + want.val.GoString() + ")",
					Input: key, GoLit: c13GoLit(name, args), Outcome: res.wire()})
			}
		}
	}
}
