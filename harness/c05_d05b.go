package main

// C05, additions of slice d05b:
//
//  * the BRIDGE beyond integers: `c05TextAgrees` is the decidable side condition `D05b.textFree` of Props/C05.lean,
//    evaluated on the REAL code — for every two numbers the receiver and the calls carry, `Equals(a, b)` answers as
//    `Cmp(a, b) == 0` does.  Every builder case that satisfies it (integers or not) is also diffed against the model
//    under the total exact oracle (`rfn.runi`): there `C05.refine_code_eq_exact_textfree` proves the code's
//    text-based equality and the exact oracle give the same run.  c05d05bFractions generates non-integer cases at
//    one and at several precisions (exactly representable fractions are text-free at any precision; 0.1 at 53 and at
//    512 bits is not, and is tagged `bridge:text-dependent`);
//  * far-side infinite bounds (`NumberRangeLowerBound(+Inf)`, `NumberRangeUpperBound(-Inf)`, singleton or computed)
//    followed by finite bounds (`C05.far_lower_infinity_recorded`);
//  * known sets with unknown members of 2..4 stored elements under length constraints -1..5, and `Length()` of every
//    known collection compared with the model's `knownLength` (`rfn.klen`: the range of possible lengths the code
//    computes; `C05.known_length_rejects_exactly`).

import (
	"fmt"
	"math"
	"math/big"

	"github.com/zclconf/go-cty/cty"
)

// the numbers a receiver carries: a known number, or the bounds of an (already refined) unknown number
func c05RecvNums(recv c05Recv) []*big.Float {
	var fs []*big.Float
	u, _ := recv.v.Unmark()
	if u.Type() == cty.Number && !u.IsNull() {
		if u.IsKnown() {
			fs = append(fs, u.AsBigFloat())
		} else {
			r := u.Range()
			lo, _ := r.NumberLowerBound()
			hi, _ := r.NumberUpperBound()
			for _, b := range []cty.Value{lo, hi} {
				if b.IsKnown() && !b.IsNull() {
					fs = append(fs, b.AsBigFloat())
				}
			}
		}
	}
	return fs
}

// c05TextAgrees mirrors D05b.textFree of the model, on the real code: every pair of numbers of the input is
// compared by Value.Equals exactly as by big.Float.Cmp.
func c05TextAgrees(recv c05Recv, calls []c05Call) bool {
	fs := append(c05RecvNums(recv), c05CallNums(calls)...)
	for _, a := range fs {
		for _, b := range fs {
			if cty.NumberVal(a).Equals(cty.NumberVal(b)).True() != (a.Cmp(b) == 0) {
				return false
			}
		}
	}
	return true
}

func c05d05bFracPool() []cty.Value {
	var pool []cty.Value
	at := func(prec uint, x float64) cty.Value { return cty.NumberVal(new(big.Float).SetPrec(prec).SetFloat64(x)) }
	// exactly representable fractions, at four precisions
	for _, x := range []float64{-2.5, -0.75, -0.5, 0.125, 0.25, 0.5, 0.75, 1.5, 2.5, 1024.0625} {
		pool = append(pool, cty.NumberFloatVal(x), at(24, x), at(100, x), cty.MustParseNumberVal(fmt.Sprint(x)))
	}
	// not exactly representable: one precision each side
	for _, s := range []string{"0.1", "0.3", "-0.1", "2.7", "1e-7"} {
		pool = append(pool, cty.MustParseNumberVal(s)) // 512 bits
	}
	pool = append(pool, cty.NumberFloatVal(0.1), cty.NumberFloatVal(0.3), cty.NumberFloatVal(0.1+0.2), cty.NumberFloatVal(-0.1), cty.NumberFloatVal(2.7))
	// some integers and the infinities
	pool = append(pool, cty.NumberIntVal(0), cty.NumberIntVal(1), cty.NumberIntVal(3), cty.NumberFloatVal(-1),
		cty.PositiveInfinity, cty.NegativeInfinity, cty.NumberFloatVal(math.Inf(1)), cty.NumberFloatVal(math.Inf(-1)))
	return pool
}

func c05d05bFractions(ctx *Ctx, j *c05Judge) {
	pool := c05d05bFracPool()
	r := ctx.R
	pick := func() c05Arg { return c05Known(pool[r.Intn(len(pool))]) }
	randCall := func() c05Call {
		switch r.Intn(9) {
		case 0:
			return c05Call{k: "nn"}
		case 1:
			if r.Intn(3) == 0 {
				return c05Call{k: "nl"}
			}
			return c05Call{k: "nn"}
		case 2:
			return c05Call{k: "ri", a: pick(), b: pick()}
		case 3, 4, 5:
			return c05Call{k: "lo", a: pick(), incl: r.Intn(2) == 0}
		default:
			return c05Call{k: "hi", a: pick(), incl: r.Intn(2) == 0}
		}
	}
	n := ctx.N(1000, 40000)
	for i := 0; i < n; i++ {
		var recv c05Recv
		switch r.Intn(4) {
		case 0:
			recv = c05Refined(cty.Number, "cty.Number")
		case 1:
			a, b := pool[r.Intn(len(pool))], pool[r.Intn(len(pool))]
			if a.AsBigFloat().Cmp(b.AsBigFloat()) >= 0 || a.AsBigFloat().IsInf() || b.AsBigFloat().IsInf() {
				recv = c05Refined(cty.Number, "cty.Number", c05Call{k: "lo", a: c05Known(pool[0]), incl: true})
			} else {
				recv = c05Refined(cty.Number, "cty.Number", c05Call{k: "lo", a: c05Known(a), incl: r.Intn(2) == 0}, c05Call{k: "hi", a: c05Known(b), incl: r.Intn(2) == 0})
			}
		case 2:
			recv = c05KnownRecv(pool[r.Intn(len(pool))])
		default:
			recv = c05Refined(cty.Number, "cty.Number").marked("m")
		}
		var calls []c05Call
		for k := 1 + r.Intn(4); k > 0; k-- {
			calls = append(calls, randCall())
		}
		if c05TextAgrees(recv, calls) {
			ctx.Tag("d05b:fractions:text-free")
		} else {
			ctx.Tag("d05b:fractions:text-dependent")
		}
		j.run(recv, calls)
	}
}

// far-side infinite bounds, then finite bounds on either side, on unknown / refined / marked receivers
func c05d05bFarInfinity(ctx *Ctx, j *c05Judge, scope *[]string) {
	posInfs := []c05Arg{c05PosInf, c05Known(cty.NumberFloatVal(math.Inf(1)))}
	negInfs := []c05Arg{c05NegInf, c05Known(cty.NumberFloatVal(math.Inf(-1)))}
	recvs := []c05Recv{
		c05Refined(cty.Number, "cty.Number"),
		c05Refined(cty.Number, "cty.Number", c05Call{k: "lo", a: c05I(1), incl: true}),
		c05Refined(cty.Number, "cty.Number", c05Call{k: "hi", a: c05I(1), incl: false}),
		c05Refined(cty.Number, "cty.Number", c05Call{k: "nn"}).marked("m"),
	}
	afters := [][]c05Call{{}, {{k: "hi", a: c05I(5), incl: true}}, {{k: "lo", a: c05I(5), incl: true}}, {{k: "nn"}},
		{{k: "lo", a: c05PosInf, incl: true}}, {{k: "hi", a: c05NegInf, incl: true}}, {{k: "hi", a: c05PosInf, incl: true}}, {{k: "lo", a: c05NegInf, incl: true}}}
	cnt := 0
	for _, recv := range recvs {
		for _, incl := range []bool{true, false} {
			for _, after := range afters {
				for _, a := range posInfs {
					ctx.Tag("d05b:far-infinity:lower=+inf")
					j.run(recv, append([]c05Call{{k: "lo", a: a, incl: incl}}, after...))
					cnt++
				}
				for _, a := range negInfs {
					ctx.Tag("d05b:far-infinity:upper=-inf")
					j.run(recv, append([]c05Call{{k: "hi", a: a, incl: incl}}, after...))
					cnt++
				}
				ctx.Tag("d05b:far-infinity:range-inclusive")
				j.run(recv, append([]c05Call{{k: "ri", a: posInfs[0], b: posInfs[1]}}, after...))
				j.run(recv, append([]c05Call{{k: "ri", a: negInfs[1], b: negInfs[0]}}, after...))
				cnt += 2
			}
		}
	}
	*scope = append(*scope, fmt.Sprintf("far-side infinite bounds: lower=+inf / upper=-inf (singleton and computed, inclusive and exclusive, NumberRangeInclusive) then one more call, on 4 receivers (%d chains)", cnt))
}

// c05Klen: `Length()` of a known collection as a range of possible lengths, the way the model's knownLength reports it
func c05Klen(u cty.Value) string {
	var out string
	if p, _ := try(func() {
		l := u.Length()
		if l.IsKnown() {
			n, _ := l.AsBigFloat().Int64()
			out = fmt.Sprintf("ok %d %d", n, n)
			return
		}
		lo, _ := l.Range().NumberLowerBound()
		hi, _ := l.Range().NumberUpperBound()
		a, _ := lo.AsBigFloat().Int64()
		b, _ := hi.AsBigFloat().Int64()
		out = fmt.Sprintf("ok %d %d", a, b)
	}); p {
		return "panic"
	}
	return out
}

// known sets (and, as controls, lists and maps) whose stored members are partly unknown, under length constraints
func c05d05bKnownLengths(ctx *Ctx, j *c05Judge, scope *[]string) {
	us, un := cty.UnknownVal(cty.String), cty.UnknownVal(cty.Number)
	s := func(x string) cty.Value { return cty.StringVal(x) }
	recvs := []c05Recv{
		c05KnownRecv(cty.SetVal([]cty.Value{us, s("a")})),
		c05KnownRecv(cty.SetVal([]cty.Value{us, s("a"), s("b")})),
		c05KnownRecv(cty.SetVal([]cty.Value{us, s("a"), s("b"), s("c")})),
		c05KnownRecv(cty.SetVal([]cty.Value{un, cty.NumberIntVal(1), cty.NumberIntVal(2)})),
		c05KnownRecv(cty.SetVal([]cty.Value{us.RefineNotNull(), s("a")})),
		c05KnownRecv(cty.SetVal([]cty.Value{cty.TupleVal([]cty.Value{us}), cty.TupleVal([]cty.Value{s("a")})})),
		c05KnownRecv(cty.SetVal([]cty.Value{us})),
		c05KnownRecv(cty.SetVal([]cty.Value{s("a"), s("b"), s("c")})),
		c05KnownRecv(cty.SetVal([]cty.Value{us, s("a"), s("b")})).marked("m"),
		c05KnownRecv(cty.ListVal([]cty.Value{us, s("a"), us})),
		c05KnownRecv(cty.MapVal(map[string]cty.Value{"k": us, "l": s("a")})),
		c05KnownRecv(cty.SetValEmpty(cty.String)),
		c05KnownRecv(cty.NullVal(cty.Set(cty.String))),
	}
	cnt := 0
	for _, recv := range recvs {
		u, _ := recv.v.Unmark()
		ctx.Add("rfn.klen", c05Klen(u), encVal(u))
		for n := -1; n <= 5; n++ {
			for _, k := range []string{"ll", "lu", "cl"} {
				c := c05Call{k: k, n: n}
				ctx.Tag("d05b:known-length:" + k)
				j.run(recv, []c05Call{c})
				j.run(recv, []c05Call{{k: "nn"}, c})
				cnt += 2
				// a second length constraint after an accepted one
				if n >= 1 && n <= 3 {
					for m := 0; m <= 4; m += 2 {
						j.run(recv, []c05Call{c, {k: "ll", n: m}})
						j.run(recv, []c05Call{c, {k: "lu", n: m}})
						cnt += 2
					}
				}
			}
		}
	}
	*scope = append(*scope, fmt.Sprintf("known collections with partly unknown members: length lower/upper/exact -1..5, alone, after NotNull, and followed by a second bound, on %d receivers (%d chains); Length() vs knownLength on each", len(recvs), cnt))
}

// c05d05bJointLength: C05.known_collection_is_assertion on the real code — the calls a known collection ACCEPTED hold
// jointly of some length the collection can have (its stored length; 1..stored for a set with not wholly known members).
func c05d05bJointLength(j *c05Judge, recv c05Recv, uRecv cty.Value, calls []c05Call, panicAt int) {
	t := uRecv.Type()
	if uRecv.IsNull() || !(t.IsListType() || t.IsSetType() || t.IsMapType()) {
		return
	}
	nOK := len(calls)
	if panicAt >= 0 {
		nOK = panicAt
	}
	lo, hi := uRecv.LengthInt(), uRecv.LengthInt()
	if t.IsSetType() && !uRecv.IsWhollyKnown() && hi >= 1 {
		lo = 1
	}
	nLen := 0
	for _, c := range calls[:nOK] {
		if c.k == "ll" || c.k == "lu" || c.k == "cl" {
			nLen++
		}
	}
	if nLen == 0 {
		return
	}
	j.ctx.Tag(fmt.Sprintf("d05b:joint-length:%d-accepted-length-calls", nLen))
	for l := lo; l <= hi; l++ {
		all := true
		for _, c := range calls[:nOK] {
			switch c.k {
			case "ll":
				all = all && c.n <= l
			case "lu":
				all = all && l <= c.n
			case "cl":
				all = all && c.n == l
			}
		}
		if all {
			return
		}
	}
	j.fail("known-is-assertion", "length-constraints-jointly-excluding-every-possible-length-accepted:"+c05TyKind(t),
		fmt.Sprintf("the accepted length constraints hold jointly of no length %d..%d the known collection can have", lo, hi),
		recv, calls[:nOK], "no panic")
}

// c05d05bOnePrecision: the part of the bridge that is SEARCHED, not proved — at ONE precision math/big's shortest decimal
// text tells any two different non-integers apart (so there `Value.Equals` is exact comparison).  Probed on the real
// library over adjacent numbers (one unit in the last place apart: the hardest pairs) at precisions 4..512, and the
// model's `rawEqual` is diffed on the same pairs (`num.raweq`).
func c05d05bOnePrecision(ctx *Ctx, scope *[]string) {
	r := ctx.R
	precs := []uint{4, 8, 11, 24, 53, 64, 100, 512}
	n := ctx.N(1200, 15000)
	done := 0
	for i := 0; i < n; i++ {
		prec := precs[r.Intn(len(precs))]
		// a mantissa of exactly prec bits, odd (so x is a non-integer whenever exp < 0)
		mant := new(big.Int).SetBit(new(big.Int), int(prec)-1, 1)
		for b := 0; b < int(prec)-1; b++ {
			if r.Intn(2) == 0 {
				mant.SetBit(mant, b, 1)
			}
		}
		mant.SetBit(mant, 0, 1)
		if r.Intn(6) == 0 { // near a power of two: the interval below is half as wide
			mant.SetBit(new(big.Int), int(prec)-1, 1)
			mant.SetBit(mant, 0, 1)
		}
		exp := -(1 + r.Intn(int(prec)+40))
		step := int64(1 + r.Intn(2)) // one or two units in the last place
		m2 := new(big.Int).Add(mant, big.NewInt(step))
		if m2.BitLen() > int(prec) {
			m2.Sub(mant, big.NewInt(step))
		}
		mk := func(m *big.Int) *big.Float {
			f := new(big.Float).SetPrec(prec).SetInt(m)
			return f.SetMantExp(f, exp)
		}
		x, y := mk(mant), mk(m2)
		if r.Intn(2) == 0 {
			x, y = x.Neg(x), y.Neg(y)
		}
		if x.IsInt() || y.IsInt() || x.Prec() != prec || y.Prec() != prec || x.Cmp(y) == 0 {
			continue
		}
		vx, vy := cty.NumberVal(x), cty.NumberVal(y)
		eq := vx.Equals(vy).True()
		ctx.Probe("text-injective-at-one-precision", !eq,
			fmt.Sprintf("prec %d: %s and %s differ in value but Value.Equals calls them equal", prec, x.Text('p', 0), y.Text('p', 0)))
		ctx.Add("num.raweq", encBool(eq), numWire(vx), numWire(vy))
		ctx.Add("num.raweq", encBool(vx.Equals(vx).True()), numWire(vx), numWire(vx))
		ctx.Tag(fmt.Sprintf("d05b:one-precision:adjacent@%d", prec))
		done++
	}
	*scope = append(*scope, fmt.Sprintf("one precision: %d pairs of non-integers one or two ulps apart at precisions 4..512 (probe: Equals tells them apart)", done))
}
