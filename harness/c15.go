package main

// C15 — JSON round trip (cty/json: marshal.go, unmarshal.go, type_implied.go,
// simple.go, value.go, type.go).
//
// Correspondence: real json.Marshal -> bytes -> token tree (lexed by encoding/json,
// the ORACLE for the byte level) vs the model's marshal; real json.Unmarshal /
// ImpliedType / SimpleJSONValue on the lexed tree of the input vs the model;
// big.ParseFloat(·,10,512) vs Num.parse512.  Oracle columns sent with every case:
// the NFC form of every string of the case that is not already normalised, and for
// every set member involved its bucket id and hash bytes (VerifHash/VerifHashBytes).
//
// Predicates on the real outputs: round trip (type preserved, RawEquals and Equals),
// mirror (plain encoding/json decoding has the value's structure, for EVERY constraint: wrapper
// objects exactly at the placeholder positions, numbers compared by value; c15_d15.go, which also
// evaluates Lean's specification `mirrorsW` on the real token tree), document round
// trip, rejection of unknown / marked / infinite (infinities at every depth: runC15Inf), no
// optional-attribute annotation in the type of any decoded value, Marshal of a non-conforming
// value = Marshal of convert.Convert (runC15Conv), SimpleJSONValue.MarshalJSON = Marshal against
// the own type, ImpliedType at its nesting limit (runC15Deep), coverage floors (c15Floors).
//
// A round-trip failure is signed with its ROOT CAUSE, worked out from what was observed
// (c15Cause): nested-placeholder-null/-empty (type lost or output refused, and the outcome is
// the one unmarshal.go's rules give: c15PredTy), num-reparse / num-text-not-exact-at-own-
// precision / set-hash (types agree and every difference found by walking original and result
// in parallel is exactly that: c15Diff); anything else is `unexpected` and never matches a
// recorded finding.

import (
	"bytes"
	"encoding/hex"
	"encoding/json"
	"fmt"
	"math"
	"math/big"
	"math/rand"
	"sort"
	"strings"

	"github.com/zclconf/go-cty/cty"
	ctyjson "github.com/zclconf/go-cty/cty/json"
)

func init() {
	register("C15", "values of all kinds generated to depth 3/4 (nulls at every depth, empty collections, numbers of every class: small ints, "+
		"int64/uint64 limits, 2^k±1 to 2^600, float64 incl. extremes and 1e±300, 40-digit decimals, low-precision floats; strings incl. non-ASCII, "+
		"normalizable and JSON-escaped) x constraints obtained by replacing arbitrary sub-types by the placeholder and toggling optional attributes; "+
		"JSON documents from a grammar with duplicate keys, nested nulls, empty arrays/objects, number spellings, dynamic wrappers x types derived "+
		"from the document, mutated or random. non-trivial = depth >= 2 or a non-integer number; distinct = distinct canonical wire strings", runC15)
}

// ---- oracle table ---------------------------------------------------------

type c15tbl struct {
	nfc map[string]string
	hk  map[string]string
}

func newC15tbl() *c15tbl { return &c15tbl{nfc: map[string]string{}, hk: map[string]string{}} }

func (t *c15tbl) addStr(s string) {
	if n := cty.NormalizeString(s); n != s {
		t.nfc[s] = n
	}
}

func (t *c15tbl) addDoc(b []byte) {
	dec := json.NewDecoder(bytes.NewReader(b))
	dec.UseNumber()
	for {
		tok, err := dec.Token()
		if err != nil {
			return
		}
		if s, ok := tok.(string); ok {
			t.addStr(s)
		}
	}
}

func (t *c15tbl) addMember(ety cty.Type, ev cty.Value) {
	try(func() {
		hb, p := cty.VerifHashBytes(ev)
		if p {
			return
		}
		t.hk[encTy(ety)+" "+cty.VerifDump(ev)] = fmt.Sprintf("%d %s", cty.VerifHash(ev), "h"+hex.EncodeToString(hb))
	})
}

func (t *c15tbl) addVal(v cty.Value) {
	if v == cty.NilVal {
		return
	}
	v, _ = v.Unmark()
	if !v.IsKnown() || v.IsNull() {
		return
	}
	ty := v.Type()
	switch {
	case ty.IsSetType():
		for it := v.ElementIterator(); it.Next(); {
			_, ev := it.Element()
			t.addMember(ty.ElementType(), ev)
			t.addVal(ev)
		}
	case ty.IsListType() || ty.IsMapType() || ty.IsTupleType() || ty.IsObjectType():
		for it := v.ElementIterator(); it.Next(); {
			_, ev := it.Element()
			t.addVal(ev)
		}
	}
}

// addSetMembersOfDoc supplies the hash oracle for set members when the real decoder did
// not return a value to read them from (error or panic): every element of an array that
// is decoded against a set type is decoded on its own and hashed.
func (t *c15tbl) addSetMembersOfDoc(b []byte, ty cty.Type, depth int) {
	if depth > 8 {
		return
	}
	try(func() {
		switch {
		case ty == cty.DynamicPseudoType:
			var w map[string]json.RawMessage
			if json.Unmarshal(b, &w) != nil || w["type"] == nil || w["value"] == nil {
				return
			}
			it, err := ctyjson.UnmarshalType(w["type"])
			if err != nil {
				return
			}
			t.addSetMembersOfDoc(w["value"], it, depth+1)
		case ty.IsListType() || ty.IsSetType():
			var a []json.RawMessage
			if json.Unmarshal(b, &a) != nil {
				return
			}
			for _, e := range a {
				t.addSetMembersOfDoc(e, ty.ElementType(), depth+1)
				if ty.IsSetType() {
					try(func() {
						if ev, err := ctyjson.Unmarshal(e, ty.ElementType()); err == nil {
							t.addVal(ev)
							t.addMember(ev.Type(), ev)
						}
					})
				}
			}
		case ty.IsTupleType():
			var a []json.RawMessage
			if json.Unmarshal(b, &a) != nil {
				return
			}
			etys := ty.TupleElementTypes()
			for i, e := range a {
				if i < len(etys) {
					t.addSetMembersOfDoc(e, etys[i], depth+1)
				}
			}
		case ty.IsMapType():
			var m map[string]json.RawMessage
			if json.Unmarshal(b, &m) != nil {
				return
			}
			for _, e := range m {
				t.addSetMembersOfDoc(e, ty.ElementType(), depth+1)
			}
		case ty.IsObjectType():
			var m map[string]json.RawMessage
			if json.Unmarshal(b, &m) != nil {
				return
			}
			for k, e := range m {
				if ty.HasAttribute(k) {
					t.addSetMembersOfDoc(e, ty.AttributeType(k), depth+1)
				}
			}
		}
	})
}

func (t *c15tbl) String() string {
	var sb strings.Builder
	sb.WriteString("(tbl (nfc")
	for _, k := range sortedKeys(t.nfc) {
		sb.WriteString(" (" + encStr(k) + " " + encStr(t.nfc[k]) + ")")
	}
	sb.WriteString(") (hk")
	for _, k := range sortedKeys(t.hk) {
		sb.WriteString(" (" + k + " " + t.hk[k] + ")")
	}
	sb.WriteString("))")
	return sb.String()
}

// ---- generators -----------------------------------------------------------

var c15NumPool = []func() cty.Value{
	func() cty.Value { return cty.MustParseNumberVal("1e300") },
	func() cty.Value { return cty.MustParseNumberVal("1e-300") },
	func() cty.Value { return cty.MustParseNumberVal("-1.5e-300") },
	func() cty.Value { return cty.MustParseNumberVal("1234567890123456789012345678901234567890.5") },
	func() cty.Value { return cty.MustParseNumberVal("0.1234567890123456789012345678901234567891") },
	func() cty.Value { return cty.MustParseNumberVal("1234567890123456789012345678901234567890") },
	func() cty.Value { return cty.NumberFloatVal(1e300) },
	func() cty.Value { return cty.NumberFloatVal(1e-300) },
	func() cty.Value { return cty.NumberFloatVal(math.MaxFloat64) },
	func() cty.Value { return cty.NumberFloatVal(-math.MaxFloat64) },
	func() cty.Value { return cty.NumberFloatVal(math.SmallestNonzeroFloat64) },
	func() cty.Value { return cty.NumberFloatVal(1e22) },
	func() cty.Value { return cty.NumberFloatVal(1e23) },
	func() cty.Value { return cty.NumberFloatVal(3.9477794105) },
	func() cty.Value { return cty.NumberFloatVal(0.1) },
	func() cty.Value { return cty.MustParseNumberVal("0.1") },
	func() cty.Value { return cty.NumberFloatVal(float64(float32(0.1))) },
}

func c15Number(r *rand.Rand, inf bool) cty.Value {
	if r.Intn(4) == 0 {
		return c15NumPool[r.Intn(len(c15NumPool))]()
	}
	return genNumber(r, ValOpts{NoInf: !inf})
}

var c15StrAtoms = []string{"\"", "\\", "<&>", " ", "\t", "\x01", "\x00", "/", "true", "1", "0.5", "\u212a", "\ufeff", "\U0001D11E", "\u2028"}

func c15String(r *rand.Rand) string {
	s := genString(r)
	if r.Intn(3) == 0 {
		s += c15StrAtoms[r.Intn(len(c15StrAtoms))]
	}
	return s
}

type c15Opts struct {
	Null, Unknown, Marks, Inf, Capsule bool
}

// c15Val generates a value of (a concretisation of) type t.
func c15Val(r *rand.Rand, t cty.Type, depth int, o c15Opts) cty.Value {
	if t == cty.DynamicPseudoType {
		if o.Null && r.Intn(6) == 0 {
			return cty.NullVal(t)
		}
		if o.Unknown && r.Intn(6) == 0 {
			return cty.DynamicVal
		}
		t = genTy(r, minInt(depth, 1), TyOpts{Capsule: o.Capsule})
	}
	v := c15ValU(r, t, depth, o)
	if o.Marks && r.Intn(10) == 0 {
		v = v.Mark(markNames[r.Intn(len(markNames))])
	}
	return v
}

func c15ValU(r *rand.Rand, t cty.Type, depth int, o c15Opts) cty.Value {
	if o.Null && r.Intn(9) == 0 {
		return cty.NullVal(t)
	}
	if o.Unknown && r.Intn(10) == 0 {
		return genUnknown(r, t)
	}
	so := o
	so.Marks = false // no marks inside sets
	switch {
	case t == cty.Bool:
		return cty.BoolVal(r.Intn(2) == 0)
	case t == cty.Number:
		return c15Number(r, o.Inf)
	case t == cty.String:
		return cty.StringVal(c15String(r))
	case t.IsCapsuleType():
		return cty.CapsuleVal(t, capsulePayloads[r.Intn(len(capsulePayloads))])
	case t.IsListType():
		ety := c15Concretize(r, t.ElementType())
		n := r.Intn(4)
		if n == 0 || depth <= 0 {
			return cty.ListValEmpty(ety)
		}
		vs := make([]cty.Value, n)
		for i := range vs {
			vs[i] = c15Val(r, ety, depth-1, o)
		}
		return cty.ListVal(vs)
	case t.IsSetType():
		ety := c15Concretize(r, t.ElementType())
		n := r.Intn(4)
		if n == 0 || depth <= 0 {
			return cty.SetValEmpty(ety)
		}
		vs := make([]cty.Value, n)
		for i := range vs {
			vs[i] = c15Val(r, ety, depth-1, so)
		}
		return cty.SetVal(vs)
	case t.IsMapType():
		ety := c15Concretize(r, t.ElementType())
		n := r.Intn(4)
		if n == 0 || depth <= 0 {
			return cty.MapValEmpty(ety)
		}
		vs := map[string]cty.Value{}
		for i := 0; i < n; i++ {
			vs[[]string{"a", "b", "k", "é", "zz", "", "type", "value", "<"}[r.Intn(9)]] = c15Val(r, ety, depth-1, o)
		}
		return cty.MapVal(vs)
	case t.IsTupleType():
		es := t.TupleElementTypes()
		vs := make([]cty.Value, len(es))
		for i := range es {
			vs[i] = c15Val(r, es[i], depth-1, o)
		}
		return cty.TupleVal(vs)
	case t.IsObjectType():
		vs := map[string]cty.Value{}
		atys := t.AttributeTypes()
		for _, k := range sortedKeys(atys) { // sorted: every random draw in a reproducible order
			vs[k] = c15Val(r, atys[k], depth-1, o)
		}
		return cty.ObjectVal(vs)
	}
	panic("c15Val: unsupported type " + t.GoString())
}

// c15Concretize: element types of collections must be concrete for the members to
// share one type; keep the placeholder only where a typed null/empty can carry it.
func c15Concretize(r *rand.Rand, t cty.Type) cty.Type {
	return concretize(r, t.WithoutOptionalAttributesDeep())
}

// ---- helpers --------------------------------------------------------------

func c15Outcome(p bool, err error) string {
	switch {
	case p:
		return "panic"
	case err != nil:
		return "err"
	}
	return "ok"
}

func valDepth(v cty.Value) int {
	v, _ = v.Unmark()
	if !v.IsKnown() || v.IsNull() {
		return 1
	}
	ty := v.Type()
	if ty.IsListType() || ty.IsSetType() || ty.IsMapType() || ty.IsTupleType() || ty.IsObjectType() {
		d := 0
		for it := v.ElementIterator(); it.Next(); {
			_, ev := it.Element()
			if x := valDepth(ev); x > d {
				d = x
			}
		}
		return d + 1
	}
	return 1
}

func hasFraction(v cty.Value) bool {
	found := false
	try(func() {
		cty.Walk(v, func(_ cty.Path, x cty.Value) (bool, error) {
			x, _ = x.Unmark()
			if x.IsKnown() && !x.IsNull() && x.Type() == cty.Number && !x.AsBigFloat().IsInt() {
				found = true
			}
			return true, nil
		})
	})
	return found
}

// numReparses: does Text('f',-1) re-parsed at 512 bits give a RawEquals number? (NumOK)
func numReparses(f *big.Float) bool {
	if f.IsInf() {
		return false
	}
	p, err := cty.ParseNumberVal(f.Text('f', -1))
	return err == nil && p.RawEquals(cty.NumberVal(f))
}

// numTextOwnPrec: does Text('f',-1) re-parsed at the number's OWN precision give the number
// back?  (math/big's shortest-text search takes the rounding interval to be symmetric; below a
// power of two the neighbour is only half as far, so for many exact powers of two the text
// it picks belongs to the neighbour below.)
func numTextOwnPrec(f *big.Float) bool {
	if f.IsInf() {
		return false
	}
	g, _, err := big.ParseFloat(f.Text('f', -1), 10, f.Prec(), big.ToNearestEven)
	return err == nil && g.Cmp(f) == 0
}

// c15NumCause: why a number that fails NumOK fails it.
//
//	num-text-not-exact-at-own-precision  the decimal text does not even identify the number at
//	              its own precision (math/big, exact powers of two: 2^513 held at 512 bits)
//	num-reparse   the text identifies the number at its own precision, which is not the 512
//	              bits it is parsed at (float64 1e23, low-precision big.Floats)
func c15NumCause(f *big.Float) string {
	if !numTextOwnPrec(f) {
		return "num-text-not-exact-at-own-precision"
	}
	return "num-reparse"
}

// c15SideAll collects the side conditions of C15.roundtrip_partial that (v, t)
// violates.  (A Go mirror of the Lean predicates: compared with them on every case
// through json.applies, and used to name the root cause of a round-trip failure.)
//
// nested-placeholder-null / -empty: a null / an empty list, set or map at a position whose
// constraint is not the placeholder itself and, optional-attribute annotations aside
// (Unmarshal drops them since /repo afdc0a2), is not the value's type there — given
// conformance that means: a placeholder is NESTED in the constraint of that position.
func c15SideAll(v cty.Value, t cty.Type, inSet bool, out map[string]bool) {
	if t == cty.DynamicPseudoType {
		t = v.Type()
	}
	vt := v.Type()
	exact := t.WithoutOptionalAttributesDeep().Equals(vt)
	if v.IsNull() {
		if !exact {
			out["nested-placeholder-null"] = true
		}
		return
	}
	switch {
	case vt == cty.Number:
		f := v.AsBigFloat()
		if !numReparses(f) {
			out["num-reparse"] = true // NumOK fails (the Lean predicate); the finer cause next to it
			out[c15NumCause(f)] = true
		} else if inSet {
			p, _ := cty.ParseNumberVal(f.Text('f', -1))
			if cty.VerifHash(p) != cty.VerifHash(v) {
				out["set-hash"] = true
			}
		}
	case vt.IsListType() || vt.IsSetType() || vt.IsMapType():
		if v.LengthInt() == 0 {
			if !exact {
				out["nested-placeholder-empty"] = true
			}
			return
		}
		ety := cty.DynamicPseudoType
		if t.IsListType() || t.IsSetType() || t.IsMapType() {
			ety = t.ElementType()
		}
		for it := v.ElementIterator(); it.Next(); {
			_, ev := it.Element()
			c15SideAll(ev, ety, inSet || vt.IsSetType(), out)
		}
	case vt.IsTupleType():
		if !t.IsTupleType() || len(t.TupleElementTypes()) != v.LengthInt() {
			out["nonconforming"] = true
			return
		}
		etys := t.TupleElementTypes()
		i := 0
		for it := v.ElementIterator(); it.Next(); i++ {
			_, ev := it.Element()
			c15SideAll(ev, etys[i], inSet, out)
		}
	case vt.IsObjectType():
		if !t.IsObjectType() {
			out["nonconforming"] = true
			return
		}
		atys := t.AttributeTypes()
		for _, k := range sortedKeys(vt.AttributeTypes()) {
			aty, ok := atys[k]
			if !ok {
				out["nonconforming"] = true
				return
			}
			c15SideAll(v.GetAttr(k), aty, inSet, out)
		}
	}
}

// c15Side: the violated side condition of highest precedence (input distribution tag only;
// the signature of a failure is worked out from what was OBSERVED, see c15Cause).
func c15Side(v cty.Value, t cty.Type) string {
	all := map[string]bool{}
	c15SideAll(v, t, false, all)
	for _, s := range []string{"nonconforming", "nested-placeholder-null", "nested-placeholder-empty", "num-text-not-exact-at-own-precision", "num-reparse", "set-hash"} {
		if all[s] {
			return s
		}
	}
	return ""
}

// c15PredTy: the type that the decoder gives the encoder's output for v against the
// constraint c (annotations already dropped), by the rules of unmarshal.go alone: a null and
// an empty list/set/map take the constraint as written, a placeholder position takes the
// type written into the wrapper, a non-empty collection takes the one type of its decoded
// members — and is REFUSED when they are of different types.
func c15PredTy(v cty.Value, c cty.Type) (ty cty.Type, refused bool) {
	vt := v.Type()
	switch {
	case c == cty.DynamicPseudoType:
		return vt, false
	case v.IsNull():
		return c, false
	case vt.IsListType() || vt.IsSetType() || vt.IsMapType():
		if !(c.IsListType() || c.IsSetType() || c.IsMapType()) || v.LengthInt() == 0 {
			return c, false
		}
		ety := cty.DynamicPseudoType
		for it := v.ElementIterator(); it.Next(); {
			_, ev := it.Element()
			et, r := c15PredTy(ev, c.ElementType())
			switch {
			case r:
				return c, true
			case ety == cty.DynamicPseudoType:
				ety = et
			case et != cty.DynamicPseudoType && !et.Equals(ety):
				return c, true
			}
		}
		switch {
		case vt.IsListType():
			return cty.List(ety), false
		case vt.IsSetType():
			return cty.Set(ety), false
		}
		return cty.Map(ety), false
	case vt.IsTupleType() && c.IsTupleType() && len(c.TupleElementTypes()) == v.LengthInt():
		etys := make([]cty.Type, 0, v.LengthInt())
		i := 0
		for it := v.ElementIterator(); it.Next(); i++ {
			_, ev := it.Element()
			et, r := c15PredTy(ev, c.TupleElementTypes()[i])
			if r {
				return c, true
			}
			etys = append(etys, et)
		}
		return cty.Tuple(etys), false
	case vt.IsObjectType() && c.IsObjectType():
		atys := map[string]cty.Type{}
		for _, k := range sortedKeys(vt.AttributeTypes()) {
			if !c.HasAttribute(k) {
				return c, false
			}
			et, r := c15PredTy(v.GetAttr(k), c.AttributeType(k))
			if r {
				return c, true
			}
			atys[k] = et
		}
		return cty.Object(atys), false
	}
	return c, false
}

// c15Diff walks the original v and the round-trip result v2 (of one type) in parallel and
// names, for every place where they are not the same value, the reason:
//
//	num-reparse / num-text-not-exact-at-own-precision (c15NumCause)
//	              a number came back as exactly the 512-bit parse of its own Text('f',-1),
//	              which is not RawEquals to it (recorded findings)
//	set-hash      a set with a number inside whose re-parsed form hashes into another bucket
//	              (recorded finding; members of a set cannot be paired up, so inside a set the
//	              reason is taken from the numbers it holds)
//	unexpected-…  anything else
func c15Diff(v, v2 cty.Value, out map[string]bool) {
	if v.IsNull() || v2.IsNull() {
		if v.IsNull() != v2.IsNull() {
			out["unexpected-nullness"] = true
		}
		return
	}
	ty := v.Type()
	switch {
	case ty == cty.Number:
		if v2.RawEquals(v) {
			return
		}
		f := v.AsBigFloat()
		exp, err := cty.ParseNumberVal(f.Text('f', -1))
		if err == nil && !numReparses(f) && v2.RawEquals(exp) {
			out[c15NumCause(f)] = true
		} else {
			out["unexpected-number"] = true
		}
	case ty.IsPrimitiveType():
		if !v2.RawEquals(v) {
			out["unexpected-leaf"] = true
		}
	case ty.IsSetType():
		in := map[string]bool{}
		c15SideAll(v, ty, false, in)
		switch {
		case in["num-text-not-exact-at-own-precision"]:
			out["num-text-not-exact-at-own-precision"] = true
		case in["num-reparse"]:
			out["num-reparse"] = true
		case in["set-hash"]:
			out["set-hash"] = true
		default:
			eq := cty.False
			if p, _ := try(func() { eq = v2.Equals(v) }); p || !eq.IsKnown() || eq.False() || !v2.RawEquals(v) {
				out["unexpected-set"] = true
			}
		}
	case ty.IsListType() || ty.IsTupleType():
		if v.LengthInt() != v2.LengthInt() {
			out["unexpected-length"] = true
			return
		}
		it2 := v2.ElementIterator()
		for it := v.ElementIterator(); it.Next() && it2.Next(); {
			_, a := it.Element()
			_, b := it2.Element()
			c15Diff(a, b, out)
		}
	case ty.IsMapType() || ty.IsObjectType():
		if v.LengthInt() != v2.LengthInt() {
			out["unexpected-length"] = true
			return
		}
		it2 := v2.ElementIterator()
		for it := v.ElementIterator(); it.Next() && it2.Next(); {
			ka, a := it.Element()
			kb, b := it2.Element()
			if !ka.RawEquals(kb) {
				out["unexpected-keys"] = true
				return
			}
			c15Diff(a, b, out)
		}
	}
}

// c15Cause: the root cause of an OBSERVED round-trip failure of the given kind, or
// "unexpected" when the observation is not exactly what a recorded cause produces (a
// recorded finding must not hide another defect):
//
//	unmarshal-err   only a nested placeholder explains it, and only where unmarshal.go's
//	                rules make the members of some list/set/map come out with different types
//	type            only a nested placeholder explains it, and the type that came back must be
//	                the one those rules give
//	equals          types agree: every difference found by the parallel walk must be a number
//	                re-parse or a set hash
func c15Cause(kind string, v cty.Value, t cty.Type, v2 cty.Value) string {
	all := map[string]bool{}
	c15SideAll(v, t, false, all)
	nested := ""
	switch {
	case all["nonconforming"]:
	case all["nested-placeholder-null"]:
		nested = "nested-placeholder-null"
	case all["nested-placeholder-empty"]:
		nested = "nested-placeholder-empty"
	}
	switch kind {
	case "unmarshal-err", "unmarshal-panic":
		if _, refused := c15PredTy(v, t.WithoutOptionalAttributesDeep()); refused && nested != "" {
			return nested
		}
	case "type":
		if pt, refused := c15PredTy(v, t.WithoutOptionalAttributesDeep()); !refused && nested != "" && v2.Type().Equals(pt) {
			return nested
		}
	case "equals":
		d := map[string]bool{}
		c15Diff(v, v2, d)
		for k := range d {
			if strings.HasPrefix(k, "unexpected") {
				return "unexpected"
			}
		}
		switch {
		case d["num-text-not-exact-at-own-precision"]:
			return "num-text-not-exact-at-own-precision"
		case d["num-reparse"]:
			return "num-reparse"
		case d["set-hash"]:
			return "set-hash"
		}
	}
	return "unexpected"
}

func c15GoLit(v cty.Value, t cty.Type) string {
	return fmt.Sprintf("v := %#v; t := %#v; b, _ := json.Marshal(v, t); v2, err := json.Unmarshal(b, t)", v, t)
}

// ---- cases ----------------------------------------------------------------

// c15Marshal: correspondence of Marshal on a conforming pair; returns the bytes.
func c15Marshal(ctx *Ctx, v cty.Value, t cty.Type) (b []byte, outcome string) {
	var err error
	p, _ := try(func() { b, err = ctyjson.Marshal(v, t) })
	outcome = c15Outcome(p, err)
	impl := outcome
	tb := newC15tbl()
	tb.addVal(v)
	if outcome == "ok" {
		tree := jsonTreeOfBytes(b)
		if tree == "BAD" {
			ctx.Fail(Failure{Site: "valid-json", Sig: "marshal-output-not-json", What: "Marshal produced bytes that encoding/json does not lex as one JSON value",
				Input: encVal(v) + " " + encTy(t), GoLit: c15GoLit(v, t), Outcome: string(b)})
			return b, "bad"
		}
		impl = "ok " + tree
	}
	if len(v.Type().TestConformance(t)) == 0 {
		ctx.Add("json.marshal", impl, tb.String(), encVal(v), encTy(t))
	}
	return b, outcome
}

// c15Unmarshal: correspondence of Unmarshal on a lexable document.
func c15Unmarshal(ctx *Ctx, b []byte, t cty.Type) (v cty.Value, outcome string) {
	var err error
	p, why := try(func() { v, err = ctyjson.Unmarshal(b, t) })
	outcome = c15Outcome(p, err)
	_ = why
	tree := jsonTreeOfBytes(b)
	if tree == "BAD" {
		return v, outcome
	}
	impl := outcome
	tb := newC15tbl()
	tb.addDoc(b)
	if outcome == "ok" {
		impl = "ok " + encVal(v)
		tb.addVal(v)
		// C15.unmarshal_type_has_no_annotations on the real output (/repo afdc0a2)
		ctx.Eval("noopt "+tree+" "+encTy(t), strings.Contains(encTy(t), " 1)"))
		if !v.Type().Equals(v.Type().WithoutOptionalAttributesDeep()) {
			ctx.Fail(Failure{Site: "decoded-type", Sig: "optional-annotations-in-value-type", What: "Unmarshal returned a value whose type carries optional-attribute annotations",
				Input: tree + " " + encTy(t), GoLit: fmt.Sprintf("json.Unmarshal([]byte(%q), %#v)", b, t), Outcome: encTy(v.Type())})
		}
	} else if strings.Contains(encTy(t), "(E ") || strings.Contains(encTy(t), "D") {
		tb.addSetMembersOfDoc(b, t, 0)
	}
	ctx.Add("json.unmarshal", impl, tb.String(), tree, encTy(t))
	ctx.Tag("unmarshal:" + outcome)
	return v, outcome
}

func c15RoundTrip(ctx *Ctx, v cty.Value, t cty.Type, how string) {
	ctx.Tag("pair:" + how)
	key := "rt " + encVal(v) + " " + encTy(t)
	b, mo := c15Marshal(ctx, v, t)
	side := c15Side(v, t)
	in := encVal(v) + " " + encTy(t)
	{
		// do the hypotheses of C15.roundtrip_partial hold?  Lean's own predicates (driver)
		// against the Go mirror that names the root cause of a failure.
		all := map[string]bool{}
		c15SideAll(v, t, false, all)
		tb := newC15tbl()
		tb.addVal(v)
		ctx.Add("json.applies", encBool(!all["num-reparse"] && !all["nonconforming"])+" "+encBool(!strings.Contains(encTy(v.Type()), "(E "))+" "+
			encBool(!all["nested-placeholder-null"] && !all["nested-placeholder-empty"]), tb.String(), encVal(v), encTy(t))
	}
	v2 := cty.NilVal
	fail := func(kind, what, outcome string) {
		cause := "unexpected"
		if p, _ := try(func() { cause = c15Cause(kind, v, t, v2) }); p {
			cause = "unexpected"
		}
		ctx.Fail(Failure{Site: "roundtrip", Sig: kind + ":" + cause, What: what, Input: in, GoLit: c15GoLit(v, t), Outcome: outcome})
	}
	ctx.Eval(key, valDepth(v) >= 2 || hasFraction(v))
	if side != "" {
		ctx.Tag("side:" + side)
	} else {
		ctx.Tag("side:none")
	}
	if mo != "ok" {
		if mo != "bad" {
			fail("marshal-"+mo, "Marshal failed on a wholly known, unmarked, capsule-free value conforming to the constraint", mo)
		}
		return
	}
	var uo string
	v2, uo = c15Unmarshal(ctx, b, t)
	if uo == "ok" && v2.Type().Equals(v.Type()) && !strings.Contains(encTy(v.Type()), "(E ") {
		c15Same(ctx, v2, v)
	}
	switch {
	case uo == "panic":
		fail("unmarshal-panic", "Unmarshal panics on Marshal's own output", string(b))
	case uo == "err":
		fail("unmarshal-err", "Unmarshal rejects Marshal's own output", string(b))
	case !v2.Type().Equals(v.Type()):
		fail("type", "round trip changed the type of the value", string(b)+" -> "+encVal(v2))
	default:
		// "equal to the original" is Equals (known, true); RawEquals is observed as well
		eq := cty.False
		p, _ := try(func() { eq = v2.Equals(v) })
		raw := v2.RawEquals(v)
		switch {
		case p:
			fail("equals-panic", "Equals panics on the round trip result and the original", string(b)+" -> "+encVal(v2))
		case !eq.IsKnown() || eq.False():
			what := "round trip result is not Equals to the original"
			if raw {
				what += " (although RawEquals)"
			}
			fail("equals", what, string(b)+" -> "+encVal(v2))
		case !raw:
			ctx.Tag("rawequals-false-but-equals-true")
		}
	}
	// mirror: plain decoding has the value's structure, wrapper objects exactly at the placeholder
	// positions of the constraint (every constraint; c15_d15.go)
	c15MirrorW(ctx, v, t, b)
}

// c15Same: Lean's specification of "equal value" (sameP) against the real RawEquals, on
// set-free values of one type.
func c15Same(ctx *Ctx, a, b cty.Value) {
	eq := false
	if p, _ := try(func() { eq = a.RawEquals(b) }); p {
		return
	}
	ctx.Add("json.same", encBool(eq), encVal(a), encVal(b))
	ctx.Tag("same:" + encBool(eq))
}

func c15Rejects(ctx *Ctx, v cty.Value, t cty.Type) {
	why := ""
	switch {
	case v.ContainsMarked():
		why = "marked"
	case !v.IsWhollyKnown():
		why = "unknown"
	default:
		inf := false
		cty.Walk(v, func(_ cty.Path, x cty.Value) (bool, error) {
			if x.IsKnown() && !x.IsNull() && x.Type() == cty.Number && x.AsBigFloat().IsInf() {
				inf = true
			}
			return true, nil
		})
		if inf {
			why = "infinite"
		}
	}
	_, mo := c15Marshal(ctx, v, t)
	ctx.Eval("rej "+encVal(v)+" "+encTy(t), valDepth(v) >= 2)
	if why == "" {
		return
	}
	ctx.Tag("reject:" + why)
	if mo != "err" {
		ctx.Fail(Failure{Site: "rejects", Sig: why + ":" + mo, What: "a value JSON cannot represent (" + why + ") was not rejected with an error", Input: encVal(v) + " " + encTy(t),
			GoLit: c15GoLit(v, t), Outcome: mo})
	}
}

func runC15(ctx *Ctx) {
	r := ctx.R
	depth := ctx.N(3, 4)
	// 0. corpus: the minimised witnesses of the recorded findings (they must keep
	// reproducing, or the record is stale), then the small scope, enumerated
	runC15Corpus(ctx)
	runC15Enum(ctx)
	runC15OddNames(ctx)
	// 1. round trips
	n := ctx.N(1000, 40000)
	for i := 0; i < n; i++ {
		t0 := genTy(r, depth, TyOpts{Dyn: true})
		v := c15Val(r, t0, depth, c15Opts{Null: true})
		c15RoundTrip(ctx, v, v.Type(), "own-type")
		if !strings.Contains(encTy(v.Type()), "(E ") {
			if w := c15Val(r, v.Type(), depth, c15Opts{Null: true}); w.Type().Equals(v.Type()) {
				c15Same(ctx, v, w)
			}
		}
		c15RoundTrip(ctx, v, weakenToConstraint(r, v.Type()), "weakened")
		if i%4 == 0 {
			c15RoundTrip(ctx, v, cty.DynamicPseudoType, "dynamic")
		}
	}
	// 2. values JSON cannot represent
	n = ctx.N(400, 10000)
	for i := 0; i < n; i++ {
		t0 := genTy(r, depth, TyOpts{Dyn: true, Capsule: i%5 == 0})
		v := c15Val(r, t0, depth, c15Opts{Null: true, Unknown: true, Marks: true, Inf: true, Capsule: true})
		t := v.Type()
		if i%2 == 0 {
			t = weakenToConstraint(r, t)
		}
		c15Rejects(ctx, v, t)
	}
	runC15Inf(ctx)
	runC15Conv(ctx)
	runC15KeyCollisions(ctx)
	// 3. documents, number parsing, NumOK
	runC15Docs(ctx)
	runC15Deep(ctx)
	c15Floors(ctx)
	sort.Strings(ctx.res.Samples)
}

func runC15Corpus(ctx *Ctx) {
	// the hash values that C15.envHash (mirror_with_sets_counterexample) takes from the implementation
	{
		h53 := cty.VerifHash(cty.NumberFloatVal(3.9477794105))
		h512 := cty.VerifHash(cty.MustParseNumberVal("3.9477794105"))
		ctx.Probe("set-hash-witness", h53 == 1243578146 && h512 == 1459007788,
			fmt.Sprintf("Hash(float64 3.9477794105)=%d (expected 1243578146), Hash(parsed)=%d (expected 1459007788)", h53, h512))
	}
	str := cty.StringVal
	objA := cty.Object(map[string]cty.Type{"a": cty.String})
	optA := cty.ObjectWithOptionalAttrs(map[string]cty.Type{"a": cty.String}, []string{"a"})
	// the recorded findings (each must keep reproducing under its own signature) …
	pairs := []struct {
		v cty.Value
		t cty.Type
	}{
		{cty.NullVal(cty.List(cty.String)), cty.List(cty.DynamicPseudoType)},
		{cty.ListValEmpty(cty.Bool), cty.List(cty.DynamicPseudoType)},
		{cty.ListVal([]cty.Value{cty.NullVal(cty.List(cty.String)), cty.ListVal([]cty.Value{str("a")})}), cty.List(cty.List(cty.DynamicPseudoType))},
		{cty.ListVal([]cty.Value{cty.ListValEmpty(cty.String), cty.ListVal([]cty.Value{str("a")})}), cty.List(cty.List(cty.DynamicPseudoType))},
		{cty.NumberFloatVal(1e23), cty.Number},
		// 2^513 held at cty's own 512 bits: math/big's shortest text is the neighbour's
		{cty.MustParseNumberVal(new(big.Int).Lsh(big.NewInt(1), 513).String()), cty.Number},
		{cty.SetVal([]cty.Value{cty.NumberFloatVal(3.9477794105)}), cty.Set(cty.Number)},
		{cty.SetVal([]cty.Value{cty.NumberFloatVal(3.9477794105), cty.MustParseNumberVal("3.9477794105")}), cty.Set(cty.Number)},
		// a placeholder nested UNDER an optional attribute: still a type loss, and the annotation is not its cause
		{cty.NullVal(cty.Object(map[string]cty.Type{"a": cty.List(cty.String)})),
			cty.ObjectWithOptionalAttrs(map[string]cty.Type{"a": cty.List(cty.DynamicPseudoType)}, []string{"a"})},
		// a number that does not re-parse next to a null at an ANNOTATED position: the only
		// difference left is the number (this was misread as a type loss while the model was stale)
		{cty.TupleVal([]cty.Value{cty.NumberFloatVal(1e23), cty.NullVal(cty.Object(map[string]cty.Type{"Ab": cty.Bool}))}),
			cty.Tuple([]cty.Type{cty.Number, cty.ObjectWithOptionalAttrs(map[string]cty.Type{"Ab": cty.Bool}, []string{"Ab"})})},
	}
	for i, p := range pairs {
		// each recorded witness must still fail (else the record, or this list, is stale)
		before := ctx.res.FailureCount
		c15RoundTrip(ctx, p.v, p.t, "corpus")
		if ctx.res.FailureCount == before {
			ctx.Fail(Failure{Site: "corpus-stale", Sig: fmt.Sprintf("recorded-witness-no-longer-fails:%d", i), What: "the minimised witness of a recorded C15 finding round-trips now: the record in known_findings.json (or this list) is stale",
				Input: encVal(p.v) + " " + encTy(p.t), GoLit: c15GoLit(p.v, p.t), Outcome: "round trip succeeded"})
		}
	}
	// … and the witnesses of the REPAIRED part of the type loss (/repo afdc0a2: Unmarshal drops
	// the optional-attribute annotations of the requested type): a null, an empty list / set /
	// map, and a null next to a typed sibling, each against an annotated constraint without any
	// placeholder.  They must round-trip; any failure here is a regression.
	fixed := []struct {
		v cty.Value
		t cty.Type
	}{
		{cty.NullVal(objA), optA},
		{cty.ListValEmpty(objA), cty.List(optA)},
		{cty.SetValEmpty(objA), cty.Set(optA)},
		{cty.MapValEmpty(objA), cty.Map(optA)},
		{cty.ListVal([]cty.Value{cty.NullVal(objA), cty.ObjectVal(map[string]cty.Value{"a": str("x")})}), cty.List(optA)},
		{cty.MapVal(map[string]cty.Value{"k": cty.NullVal(objA), "zz": cty.ObjectVal(map[string]cty.Value{"a": str("x")})}), cty.Map(optA)},
		{cty.TupleVal([]cty.Value{cty.NullVal(cty.List(objA)), cty.ListValEmpty(objA)}), cty.Tuple([]cty.Type{cty.List(optA), cty.List(optA)})},
		{cty.ObjectVal(map[string]cty.Value{"a": cty.NullVal(cty.String)}), optA},
	}
	for i, p := range fixed {
		before := ctx.res.FailureCount
		c15RoundTrip(ctx, p.v, p.t, "corpus-fixed")
		if ctx.res.FailureCount != before {
			ctx.Fail(Failure{Site: "regression", Sig: fmt.Sprintf("optional-annotation-typeloss:%d", i),
				What:  "a value against a placeholder-free constraint with optional attributes does not round-trip (repaired by /repo afdc0a2)",
				Input: encVal(p.v) + " " + encTy(p.t), GoLit: c15GoLit(p.v, p.t), Outcome: "round trip failed"})
		}
	}
	docs := []struct {
		doc string
		t   cty.Type
	}{
		{"[]", cty.Tuple([]cty.Type{cty.String})},
		{`{"value":[],"type":["tuple",["string"]]}`, cty.DynamicPseudoType},
		{`[[]]`, cty.List(cty.Tuple([]cty.Type{cty.String}))},
		{`[{"value":1,"type":"number"},{"value":"a","type":"string"}]`, cty.List(cty.DynamicPseudoType)},
		{`[{"value":1,"type":"number"},{"value":"a","type":"string"}]`, cty.Set(cty.DynamicPseudoType)},
		{`{"a":{"value":1,"type":"number"},"b":{"value":"a","type":"string"}}`, cty.Map(cty.DynamicPseudoType)},
		{`[1,"a"]`, cty.List(cty.DynamicPseudoType)},
		{`{"value":1,"type":["object",{"a":"string"},["b"]]}`, cty.DynamicPseudoType},
	}
	// regression (/repo afdc0a2): a type descriptor with an optional attribute must not leak the
	// annotation into the type of the decoded value, nor may a requested type
	for _, d := range []struct {
		doc string
		t   cty.Type
	}{
		{`{"type":["object",{"a":"string"},["a"]],"value":null}`, cty.DynamicPseudoType},
		{`{"type":["list",["object",{"a":"string"},["a"]]],"value":[]}`, cty.DynamicPseudoType},
		{`[{"type":["object",{"a":"string"},["a"]],"value":null},{"type":["object",{"a":"string"}],"value":{"a":"x"}}]`, cty.List(cty.DynamicPseudoType)},
		{`null`, optA},
		{`[]`, cty.List(optA)},
		{`{}`, cty.Map(cty.Tuple([]cty.Type{optA}))},
	} {
		v, o := c15Unmarshal(ctx, []byte(d.doc), d.t)
		if o != "ok" || !v.Type().Equals(v.Type().WithoutOptionalAttributesDeep()) {
			ctx.Fail(Failure{Site: "regression", Sig: "decoded-type-has-optional-annotations:" + d.doc, What: "Unmarshal refuses the document or returns a value whose type carries optional-attribute annotations (repaired by /repo afdc0a2)",
				Input: d.doc + " " + encTy(d.t), GoLit: fmt.Sprintf("json.Unmarshal([]byte(%q), %#v)", d.doc, d.t), Outcome: o})
		}
	}
	for _, d := range docs {
		// regression: these inputs made the decoder panic before /repo e63bbcc, 4e1e2c6, 5020d30
		if _, o := c15Unmarshal(ctx, []byte(d.doc), d.t); o == "panic" {
			ctx.Fail(Failure{Site: "regression", Sig: "decoder-panic:" + d.doc, What: "a repaired decoder panic is back", Input: d.doc + " " + encTy(d.t),
				GoLit: fmt.Sprintf("json.Unmarshal([]byte(%q), %#v)", d.doc, d.t), Outcome: "panic"})
		}
	}
	c15Doc(ctx, &jdoc{kind: 'o', keys: []string{"e\u0301"}, kids: []*jdoc{{kind: 'n'}}})
}
