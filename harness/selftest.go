package main

func init() {
	register("selftest", "wire codec echo over generated values", func(ctx *Ctx) {
		o := ValOpts{Unknown: true, Null: true, Marks: true, DynVal: true}
		for i := 0; i < ctx.N(5000, 50000); i++ {
			t := genTy(ctx.R, 3, TyOpts{Dyn: true, Opt: false, Capsule: true})
			v := genVal(ctx.R, t, 3, o)
			w := encVal(v)
			ctx.Add("val.echo", w, w)
			ctx.Eval(w, true)
		}
	})
}
