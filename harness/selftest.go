package main

import (
	"fmt"
	"sort"
	"strings"

	"github.com/zclconf/go-cty/cty"
)

func encMarks(m cty.ValueMarks) string {
	ms := make([]string, 0, len(m))
	for k := range m {
		ms = append(ms, encStr(fmt.Sprint(k)))
	}
	sort.Strings(ms)
	return "(" + strings.Join(ms, " ") + ")"
}

func init() {
	register("selftest", "wire codec echo and observers over generated values", func(ctx *Ctx) {
		o := ValOpts{Unknown: true, Null: true, Marks: true, DynVal: true}
		for i := 0; i < ctx.N(5000, 50000); i++ {
			t := genTy(ctx.R, 3, TyOpts{Dyn: true, Opt: false, Capsule: true})
			v := genVal(ctx.R, t, 3, o)
			w := encVal(v)
			ctx.Add("val.echo", w, w)
			_, dm := v.UnmarkDeep()
			ctx.Add("val.obs", fmt.Sprintf("%s %s %s %s %s %s %s", encBool(v.IsNull()), encBool(v.IsKnown()), encBool(v.IsMarked()),
				encBool(v.ContainsMarked()), encBool(v.IsWhollyKnown()), encMarks(v.Marks()), encMarks(dm)), w)
			ud, _ := v.UnmarkDeep()
			ctx.Add("val.unmarkdeep", encVal(ud), w)
			u1, _ := v.Unmark()
			ctx.Add("val.unmark", encVal(u1), w)
			ctx.Add("val.withmarks", encVal(v.WithMarks(cty.NewValueMarks("m2", "m0"))), w, "(x6d32 x6d30)")
			ctx.Eval(w, true)
		}
	})
}
