package main

// C03 — equality is a coherent equivalence that agrees with hashing and sets.
// The runner has two halves: the value half (c03val.go: Equals / RawEquals /
// hash bytes / SetVal / ValueSet of the real go-cty on pools of values with many
// equalities) and the generic half (c03set.go: cty/set over int rules).

import (
	"fmt"
	"math/big"
	"strings"

	"github.com/zclconf/go-cty/cty"
)

func init() {
	register("C03", "pairs/triples of values of every type incl. numbers equal at different precisions, 10th-digit boundary pairs, NFC-equal strings, nulls, nested structures; "+
		"set histories (all of length<=4 over 3 values, random longer) and permutations of constructor inputs. non-trivial = pair is Equals-true or hash-equal, triple has an equal pair, "+
		"SetVal has >=2 inputs, history has >=3 calls; distinct = distinct canonical wire strings", runC03)
}

func c03NumPair(ctx *Ctx, a, b cty.Value) {
	wa, wb := numWire(a), numWire(b)
	fa := a.AsBigFloat()
	ctx.Add("num.textf", encStr(fa.Text('f', -1)), wa)
	ctx.Add("num.textg", encStr(fa.String()), wa)
	eq := a.Equals(b)
	ctx.Add("num.raweq", encBool(eq.True()), wa, wb)
}

// opOut runs a Value-returning operation and prints "ok <wire>" or "panic".
func opOut(f func() cty.Value) (string, cty.Value, bool) {
	var v cty.Value
	p, _ := try(func() { v = f() })
	if p {
		return "panic", cty.NilVal, true
	}
	return "ok " + encVal(v), v, false
}

// c03DoPool: every predicate and every correspondence family on one pool.
// sets: 0 = none, 1 = sampled SetVal inputs, 2 = every input multiset of size <= 2 too.
func c03DoPool(ctx *Ctx, p c03Pool, sets int) {
	m := c03Matrix(p)
	c03Judge(ctx, m)
	c03PoolCorr(ctx, m)
	c03D03bPool(ctx, p)
	if sets > 0 {
		c03SetCases(ctx, m, sets == 2, ctx.N(1, 2))
		c03VSCases(ctx, m, ctx.N(2, 4))
	}
}

func runC03(ctx *Ctx) {
	// 1. plain number pairs of every magnitude / precision class (text functions, rawNumberEqual)
	o := ValOpts{}
	for i := 0; i < ctx.N(1000, 20000); i++ {
		a, b := genNumber(ctx.R, o), genNumber(ctx.R, o)
		c03NumPair(ctx, a, b)
		ctx.Eval("numpair "+numWire(a)+" "+numWire(b), a.Equals(b).True())
	}
	// 2. fixed pools: the three recorded witnesses, strings, bools
	w4 := []cty.Value{cty.NumberFloatVal(3.9477794105), cty.MustParseNumberVal("3.9477794105"), cty.NumberFloatVal(0.1), cty.MustParseNumberVal("0.1"),
		cty.NumberFloatVal(0.1).Multiply(c03One), cty.NumberIntVal(17179869181), cty.NumberIntVal(17179869182),
		cty.NumberVal(new(big.Float).Neg(new(big.Float).SetInt64(0))), cty.Zero, cty.NullVal(cty.Number)}
	c03DoPool(ctx, c03Pool{"fixed/witnesses", w4}, 2)
	for _, k := range c03Wrappers {
		full := 1
		if k == "tuple1" || k == "set1" || ctx.Thorough {
			full = 2
		}
		c03DoPool(ctx, c03WrapPool("fixed/witnesses", k, w4[:7]), full)
	}
	var strs []cty.Value
	for _, s := range c03Strs {
		strs = append(strs, cty.StringVal(s))
	}
	strs = c03DedupVals(strs, 9)
	c03DoPool(ctx, c03Pool{"fixed/strings", append(append([]cty.Value(nil), strs...), cty.NullVal(cty.String))}, 2)
	for _, k := range []string{"tuple1", "set2", "map1", "setlist"} {
		c03DoPool(ctx, c03WrapPool("fixed/strings", k, strs), 1)
	}
	// 2a. compound members whose hash texts would collide if a delimiter of the hash text could come
	// out of a string unescaped (a seeded change wrote strings without %q: ["a","b"] and [`a";"b`]
	// tied in Less and kept their insertion order)
	{
		ls := func(ss ...string) cty.Value {
			vs := make([]cty.Value, len(ss))
			for i, x := range ss {
				vs[i] = cty.StringVal(x)
			}
			return cty.ListVal(vs)
		}
		delim := []cty.Value{ls("a", "b"), ls(`a";"b`), ls("a", "b", "c"), ls(`a";"b`, "c"), ls("a", `b";"c`), ls(`a\`, "b"), ls(`a\";"b`), ls("a;", "b")}
		c03DoPool(ctx, c03Pool{"fixed/hash-delimiters", delim}, 2)
		var tups, maps []cty.Value
		for _, k := range []string{"v", `v";"w`, `v">;<"w`, `v";}{"k":"w`} {
			tups = append(tups, cty.TupleVal([]cty.Value{cty.StringVal(k), cty.StringVal("z")}))
			maps = append(maps, cty.MapVal(map[string]cty.Value{"k": cty.StringVal(k)}))
		}
		c03DoPool(ctx, c03Pool{"fixed/hash-delimiters:tuple", tups}, 2)
		c03DoPool(ctx, c03Pool{"fixed/hash-delimiters:map", maps}, 2)
	}
	// 2a'. compound members that differ only deep inside long strings of one length (a seeded change hashed only the
	// first 64 bytes and the length: the members tied in Less and kept their insertion order)
	for _, n := range []int{16, 32, 64, 128, 256, 1024, 4096} {
		prefix := strings.Repeat("arn:aws:iam::123456789012:role/", n/31+1)[:n]
		var ls, os []cty.Value
		for _, tail := range []string{"aaaa", "aaab", "baaa", "zzzz"} {
			ls = append(ls, cty.ListVal([]cty.Value{cty.StringVal(prefix + tail)}))
			os = append(os, cty.ObjectVal(map[string]cty.Value{"id": cty.StringVal(prefix + tail), "n": cty.Zero}))
		}
		c03DoPool(ctx, c03Pool{fmt.Sprintf("fixed/long-strings-%d:list", n), ls}, 2)
		c03DoPool(ctx, c03Pool{fmt.Sprintf("fixed/long-strings-%d:object", n), os}, 2)
	}
	c03DoPool(ctx, c03Pool{"fixed/bools", []cty.Value{cty.True, cty.False, cty.NullVal(cty.Bool)}}, 2)
	// 2b. the model's copy of strconv's printable-rune table (hash bytes of strings are %q-quoted):
	// every edge of every range the model claims to know, and random runes inside them
	edges := []rune{0x1f, 0x20, 0x22, 0x5c, 0x7e, 0x7f, 0x80, 0xa0, 0xa1, 0xac, 0xad, 0xae, 0xff, 0x100, 0x377, 0x10ff, 0x1100, 0x11ff,
		0x2000, 0x200f, 0x2010, 0x2027, 0x2028, 0x202f, 0x2100, 0x213f, 0xabff, 0xac00, 0xd7a3, 0xfb00, 0xfb06, 0xfffd, 0x1f1e6, 0x1f1ff, 0x1f300, 0x1f64f, 7, 8, 9, 10, 11, 12, 13, 0}
	for i := 0; i < ctx.N(150, 3000); i++ {
		lo := []rune{0x20, 0xa1, 0x100, 0x1100, 0x2000, 0x2100, 0xac00, 0x1f300}[ctx.R.Intn(8)]
		edges = append(edges, lo+rune(ctx.R.Intn(map[rune]int{0x20: 0x60, 0xa1: 0x5f, 0x100: 0x278, 0x1100: 0x100, 0x2000: 0x30, 0x2100: 0x40, 0xac00: 0x2ba4, 0x1f300: 0x350}[lo])))
	}
	for _, r := range edges {
		v := cty.StringVal("a" + string(r))
		w := encVal(v)
		if b, pn := cty.VerifHashBytes(v); !pn {
			ctx.Add("hash.bytes", "ok "+encStr(string(b)), w)
			ctx.Tag("rune-table")
		}
	}
	// 3. number pools (one number at several precisions + neighbours) and wrapped pools
	for k := 0; k < ctx.N(24, 150); k++ {
		base := c03NumPool(ctx)
		if len(base) < 2 {
			continue
		}
		c03DoPool(ctx, c03Pool{"num", append(append([]cty.Value(nil), base...), cty.NullVal(cty.Number))}, 1)
		for j := 0; j < ctx.N(1, 2); j++ {
			kind := c03Wrappers[ctx.R.Intn(len(c03Wrappers))]
			var p c03Pool
			if pn, _ := try(func() { p = c03WrapPool("num", kind, base) }); !pn {
				c03DoPool(ctx, p, 1)
			}
		}
	}
	// 4. generated values of every type with their re-precisioned twins
	for k := 0; k < ctx.N(60, 400); k++ {
		if p, ok := c03GenPool(ctx, true); ok {
			c03DoPool(ctx, p, k%2)
		}
		if p, ok := c03GenPool(ctx, false); ok {
			sets := 0
			if k%4 == 0 {
				sets = 1
			}
			c03DoPool(ctx, p, sets)
		}
	}
	// 5. pairs of any two types, unknowns, marks, DynamicVal: symmetry
	for i := 0; i < ctx.N(2000, 40000); i++ {
		c03WildPair(ctx)
	}
	// 5b. d03: pools inside the proved frontier, hypothesis predicates, large sets, unknown members
	runC03D03(ctx)
	runC03D03b(ctx)
	// 6. the generic cty/set half
	runC03SetBudget(ctx, ctx.Thorough)
}
