package main

import (
	"github.com/zclconf/go-cty/cty"
)

func init() {
	register("C03", "pairs/triples of values of every type incl. numbers equal at different precisions, 10th-digit boundary pairs, NFC-equal strings, nulls, nested structures; "+
		"set histories (all of length<=4 over 3 values, random longer) and permutations of constructor inputs. non-trivial = pair is Equals-true or hash-equal, or history has >=3 ops; "+
		"distinct = distinct canonical wire strings", runC03)
}

func c03NumPair(ctx *Ctx, a, b cty.Value) {
	wa, wb := numWire(a), numWire(b)
	fa := a.AsBigFloat()
	ctx.Add("num.textf", encStr(fa.Text('f', -1)), wa)
	ctx.Add("num.textg", encStr(fa.String()), wa)
	eq := a.Equals(b)
	ctx.Add("num.raweq", encBool(eq.True()), wa, wb)
}

// opOut runs a Value-returning operation and prints "ok <wire>" or "panic".
func opOut(f func() cty.Value) (string, cty.Value, bool) {
	var v cty.Value
	p, _ := try(func() { v = f() })
	if p {
		return "panic", cty.NilVal, true
	}
	return "ok " + encVal(v), v, false
}

func c03ValPair(ctx *Ctx, a, b cty.Value) {
	wa, wb := encVal(a), encVal(b)
	out, _, _ := opOut(func() cty.Value { return a.Equals(b) })
	ctx.Add("op.equals", out, wa, wb)
}

func runC03(ctx *Ctx) {
	o := ValOpts{}
	n := ctx.N(3000, 100000)
	for i := 0; i < n; i++ {
		a, b := genNumber(ctx.R, o), genNumber(ctx.R, o)
		c03NumPair(ctx, a, b)
		ctx.Eval("numpair "+numWire(a)+" "+numWire(b), a.Equals(b).True())
	}
	vo := ValOpts{Unknown: true, Null: true, Marks: true, DynVal: true, Small: true}
	for i := 0; i < ctx.N(6000, 200000); i++ {
		t := genTy(ctx.R, 2, TyOpts{Dyn: true})
		a := genVal(ctx.R, t, 2, vo)
		var b cty.Value
		if ctx.R.Intn(4) == 0 {
			b = genVal(ctx.R, genTy(ctx.R, 2, TyOpts{Dyn: true}), 2, vo)
		} else {
			b = genVal(ctx.R, t, 2, vo)
		}
		c03ValPair(ctx, a, b)
		ctx.Eval("valpair "+encVal(a)+" "+encVal(b), true)
	}
}
