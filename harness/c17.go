package main

// C17 — decoders are safe on arbitrary input: error or conforming value, never a panic or a
// crash, memory within a fixed multiple of the input size.
//
// Five decoders: json.Unmarshal, json.UnmarshalType / (*cty.Type).UnmarshalJSON, json.ImpliedType
// (the JSON half: c17json.go, c17json_mut.go, runner runC17Json) and msgpack.Unmarshal,
// msgpack.ImpliedType (the MessagePack half: c17mp.go, c17mp_mut.go, runner runC17Mp).
//
// This file: the rule, the runner, and the shared skeleton of the MessagePack half — the worker
// sub-process (crash isolation + allocation measurement) and its line protocol.
//
// WORKER.  `ctyharness -worker c17` re-executes this binary as a decoder worker: GOMEMLIMIT and
// an address-space limit, debug.SetMaxStack(64 MiB), one goroutine.  It reads one request per line
//
//	h<hex of the input bytes> <hex of the target type as type-JSON | - (no Unmarshal)> [B|U|I]
//
// (B both decoders — the default —, U msgpack.Unmarshal only, I msgpack.ImpliedType only)
//
// runs msgpack.Unmarshal (when a type is given) and msgpack.ImpliedType on the bytes, each under
// recover with runtime.MemStats.TotalAlloc read before and after, and answers one line
//
//	<ok|err|panic> <alloc> <ok|err|panic> <alloc> <hex of the panic text, or ->
//
// The parent pipelines a batch of requests; when the worker dies (fatal error: stack overflow, out
// of memory) or stops answering (watchdog), the first unanswered request is the input being
// processed: it is re-run alone in a fresh worker to confirm, recorded as the observation "crash"
// (or "timeout") for that input, and the rest of the batch goes to a new worker.  Values are
// judged in the parent: an input the worker survived within the allocation bound is decoded again
// in-process to obtain the cty.Value for the well-formedness / conformance / correspondence checks.

import (
	"bufio"
	"encoding/hex"
	"fmt"
	"io"
	"os"
	"os/exec"
	"runtime"
	"runtime/debug"
	"strconv"
	"strings"
	"syscall"
	"time"

	"github.com/zclconf/go-cty/cty"
	ctyjson "github.com/zclconf/go-cty/cty/json"
	"github.com/zclconf/go-cty/cty/msgpack"
)

// the allocation bound of the MessagePack half (calibrated on the unchanged tree: the dearest flat
// shape, a set of one-byte numbers, costs ~330 bytes per input byte — a cty.Value, a big.Float with
// its mantissa, the set's hash text and bucket entry; every call pays ~5 KiB for the library's
// decoder and its buffered reader).  A decoder that sizes a buffer by a forged 2^31 header asks for
// gigabytes for a 5-byte input and fails it by six orders of magnitude.
//
// The constant: one forged header may cost what allocHint's clamp allows (1024 members: 32 KiB for a
// slice, ~115 KiB for a Go map) and one forged str/bin header the 1 MB chunks in which the msgpack
// library (third party, not judged) reads a byte string whose announced length it cannot verify
// (readN: one chunk up front, a second one appended before the read fails: 3.4 MB observed).
const (
	c17mAllocK = 512
	c17mAllocC = 4 << 20
)

const c17mRule = " || MessagePack half: valid encodings (msgpack.Marshal of values generated to depth 3/4 incl. null / unknown / refined unknown members, against constraints " +
	"with dynamic placeholders at any position) with 1..4 mutations drawn from: bit flip, byte insert/delete, truncation, slice deletion/duplication, length-field edits on " +
	"array/map/str/bin/ext headers (±1, other width, huge lengths 2^31..2^32-1 with and without a body), splice of a complete item of another encoding, extension-body swap " +
	"(type code 12 with bodies of 0, 1, 2, 1023, 1024, 1025 bytes; refinement maps with repeated, unknown, contradictory keys; crossed bounds; other codes), item-tree edits " +
	"(NaN floats, non-string map keys, int<->uint, str<->bin, duplicate keys, dropped members), invalid UTF-8 in strings and keys, malformed type JSON inside dynamic wrappers; " +
	"plus raw random bytes, random item trees, and the scalable families (nesting 10^3 quick .. 10^5 thorough of arrays, maps and dynamic wrappers; every 16/32-bit header " +
	"announcing up to 2^32-1 members/bytes with no body) x target types equal to, related to (mutateTy, weakened, own type, annotated) or unrelated to the original constraint. " +
	"Per (bytes, type): msgpack.Unmarshal and msgpack.ImpliedType in a worker sub-process under recover with a TotalAlloc measurement; bound: alloc <= 512*len(input) + 4 MiB; " +
	"a result is judged by C06's accessor walk + Lean Value.WF and TestConformance(target). non-trivial = not a pristine encoding; distinct = distinct (bytes, target type)"

func init() {
	if len(os.Args) >= 3 && os.Args[1] == "-worker" && os.Args[2] == "c17" {
		c17WorkerMain()
		os.Exit(0)
	}
	register("C17", c17jRule+c17mRule, runC17)
	register("C17m", c17mRule, func(ctx *Ctx) { runC17Mp(ctx) })
}

func runC17(ctx *Ctx) {
	runC17Json(ctx)
	runC17Mp(ctx)
}

// ---- worker side ------------------------------------------------------------------------------

func c17Measure(f func() error) (out, why string, alloc uint64) {
	var m0, m1 runtime.MemStats
	runtime.ReadMemStats(&m0)
	var err error
	p, w := try(func() { err = f() })
	runtime.ReadMemStats(&m1)
	alloc = m1.TotalAlloc - m0.TotalAlloc
	switch {
	case p:
		return "panic", w, alloc
	case err != nil:
		return "err", "", alloc
	}
	return "ok", "", alloc
}

// c17TyToken / c17TyOfToken: how a target type travels to the worker
func c17TyToken(t cty.Type) string {
	if t == cty.NilType {
		return "-"
	}
	if t.IsCapsuleType() {
		return fmt.Sprintf("C%d", capsuleID(t))
	}
	b, err := ctyjson.MarshalType(t)
	if err != nil {
		return "-"
	}
	return hex.EncodeToString(b)
}

func c17TyOfToken(s string) (cty.Type, bool) {
	if s == "-" {
		return cty.NilType, false
	}
	if s[0] == 'C' {
		n, _ := strconv.Atoi(s[1:])
		return capsuleTypes[n%len(capsuleTypes)], true
	}
	b, err := hex.DecodeString(s)
	if err != nil {
		return cty.NilType, false
	}
	t, err := ctyjson.UnmarshalType(b)
	if err != nil {
		return cty.NilType, false
	}
	return t, true
}

func c17WorkerMain() {
	if os.Getenv("C17_WORKER_STACK") != "default" {
		debug.SetMaxStack(64 << 20)
	}
	debug.SetMemoryLimit(3 << 30)
	// an allocation of tens of gigabytes must fail (fatal "out of memory"), not be granted lazily
	lim := syscall.Rlimit{Cur: 12 << 30, Max: 12 << 30}
	syscall.Setrlimit(syscall.RLIMIT_AS, &lim)
	runtime.GOMAXPROCS(1)
	in := bufio.NewReaderSize(os.Stdin, 1<<20)
	out := bufio.NewWriterSize(os.Stdout, 1<<16)
	for {
		line, err := in.ReadString('\n')
		line = strings.TrimSpace(line)
		if line != "" {
			f := strings.Fields(line)
			b, _ := hex.DecodeString(strings.TrimPrefix(f[0], "h"))
			uo, ua, why := "-", uint64(0), ""
			mode := "B"
			if len(f) > 2 {
				mode = f[2]
			}
			if len(f) > 1 && mode != "I" {
				if t, ok := c17TyOfToken(f[1]); ok {
					uo, why, ua = c17Measure(func() error { _, e := msgpack.Unmarshal(b, t); return e })
				}
			}
			io_, why2, ia := "-", "", uint64(0)
			if mode != "U" {
				io_, why2, ia = c17Measure(func() error { _, e := msgpack.ImpliedType(b); return e })
			}
			if why == "" {
				why = why2
			}
			w := "-"
			if why != "" {
				w = hex.EncodeToString([]byte(why))
			}
			fmt.Fprintf(out, "%s %d %s %d %s\n", uo, ua, io_, ia, w)
			out.Flush()
		}
		if err != nil {
			return
		}
	}
}

// ---- parent side ------------------------------------------------------------------------------

type c17Req struct {
	b []byte
	t cty.Type // NilType: ImpliedType only
}

type c17Obs struct {
	uOut, iOut     string // ok | err | panic | crash | timeout | - (not run)
	uAlloc, iAlloc uint64
	why            string // panic text / tail of the crashed worker's stderr
	confirmed      bool   // a crash or timeout that happened again when the input was run alone
}

type c17Worker struct {
	cmd    *exec.Cmd
	stdin  io.WriteCloser
	lines  chan string
	stderr *c17Tail
}

type c17Tail struct{ buf []byte }

func (t *c17Tail) Write(p []byte) (int, error) {
	if len(t.buf) < 4096 {
		t.buf = append(t.buf, p...)
	}
	return len(p), nil
}

func c17StartWorker(env ...string) (*c17Worker, error) {
	cmd := exec.Command(os.Args[0], "-worker", "c17")
	cmd.Env = append(append(os.Environ(), "GOMEMLIMIT=3GiB"), env...)
	stdin, err := cmd.StdinPipe()
	if err != nil {
		return nil, err
	}
	stdout, err := cmd.StdoutPipe()
	if err != nil {
		return nil, err
	}
	w := &c17Worker{cmd: cmd, stdin: stdin, lines: make(chan string, 1024), stderr: &c17Tail{}}
	cmd.Stderr = w.stderr
	if err := cmd.Start(); err != nil {
		return nil, err
	}
	go func() {
		sc := bufio.NewScanner(stdout)
		sc.Buffer(make([]byte, 1<<16), 1<<24)
		for sc.Scan() {
			w.lines <- sc.Text()
		}
		close(w.lines)
	}()
	return w, nil
}

func (w *c17Worker) stop() string {
	w.stdin.Close()
	done := make(chan struct{})
	go func() { w.cmd.Wait(); close(done) }()
	select {
	case <-done:
	case <-time.After(5 * time.Second):
		w.cmd.Process.Kill()
		<-done
	}
	tail := string(w.stderr.buf)
	if i := strings.Index(tail, "\n\n"); i > 0 {
		tail = tail[:i]
	}
	if len(tail) > 300 {
		tail = tail[:300]
	}
	return strings.TrimSpace(tail)
}

func c17ParseObs(line string) (c17Obs, bool) {
	f := strings.Fields(line)
	if len(f) != 5 {
		return c17Obs{}, false
	}
	var o c17Obs
	o.uOut, o.iOut = f[0], f[2]
	o.uAlloc, _ = strconv.ParseUint(f[1], 10, 64)
	o.iAlloc, _ = strconv.ParseUint(f[3], 10, 64)
	if f[4] != "-" {
		b, _ := hex.DecodeString(f[4])
		o.why = string(b)
	}
	return o, true
}

// c17RunBatch runs every request in worker processes; the watchdog allows `patience` per answer.
func c17RunBatch(reqs []c17Req, patience time.Duration, env ...string) ([]c17Obs, error) {
	obs := make([]c17Obs, len(reqs))
	next := 0
	for next < len(reqs) {
		w, err := c17StartWorker(env...)
		if err != nil {
			return nil, err
		}
		from := next
		go func() {
			bw := bufio.NewWriterSize(w.stdin, 1<<16)
			for i := from; i < len(reqs); i++ {
				if _, err := fmt.Fprintf(bw, "h%s %s\n", hex.EncodeToString(reqs[i].b), c17TyToken(reqs[i].t)); err != nil {
					return
				}
				if len(reqs[i].b) > 1<<12 || i%64 == 63 {
					if bw.Flush() != nil {
						return
					}
				}
			}
			bw.Flush()
			w.stdin.Close()
		}()
		died := ""
		for next < len(reqs) && died == "" {
			select {
			case line, ok := <-w.lines:
				if !ok {
					died = "crash"
					break
				}
				o, good := c17ParseObs(line)
				if !good {
					died = "crash"
					break
				}
				obs[next] = o
				next++
			case <-time.After(patience):
				died = "timeout"
				w.cmd.Process.Kill()
			}
		}
		tail := w.stop()
		if died != "" && next < len(reqs) {
			// the first unanswered request is the input that was being processed: run it alone to confirm
			o := c17Obs{uOut: died, iOut: died, why: tail}
			if reqs[next].t == cty.NilType {
				o.uOut = "-"
			}
			alone, err := c17RunAlone(reqs[next], patience, env...)
			if err == nil {
				if alone.uOut == "crash" || alone.uOut == "timeout" || alone.iOut == "crash" || alone.iOut == "timeout" {
					alone.confirmed = true
					o = alone
				} else {
					o = alone // did not happen again: the lone run is the observation
					o.why = "not-confirmed-alone: " + tail
				}
			}
			obs[next] = o
			next++
		}
	}
	return obs, nil
}

// c17RunAlone: one request, each decoder in a fresh worker of its own, so that a crash is attributed
// to the decoder that crashed.
func c17RunAlone(rq c17Req, patience time.Duration, env ...string) (c17Obs, error) {
	res := c17Obs{uOut: "-", iOut: "-"}
	one := func(mode string) (c17Obs, string, error) {
		w, err := c17StartWorker(env...)
		if err != nil {
			return c17Obs{}, "", err
		}
		go func() {
			fmt.Fprintf(w.stdin, "h%s %s %s\n", hex.EncodeToString(rq.b), c17TyToken(rq.t), mode)
			w.stdin.Close()
		}()
		var o c17Obs
		state := ""
		select {
		case line, ok := <-w.lines:
			if oo, good := c17ParseObs(line); ok && good {
				o = oo
			} else {
				state = "crash"
			}
		case <-time.After(patience):
			state = "timeout"
			w.cmd.Process.Kill()
		}
		tail := w.stop()
		if state != "" {
			o.why = tail
		}
		return o, state, nil
	}
	oi, si, err := one("I")
	if err != nil {
		return res, err
	}
	res.iOut, res.iAlloc, res.why = oi.iOut, oi.iAlloc, oi.why
	if si != "" {
		res.iOut = si
	}
	if rq.t != cty.NilType {
		ou, su, err := one("U")
		if err != nil {
			return res, err
		}
		res.uOut, res.uAlloc = ou.uOut, ou.uAlloc
		if su != "" {
			res.uOut = su
		}
		if ou.why != "" && (res.why == "" || su != "") {
			res.why = ou.why
		}
	}
	return res, nil
}
