package main

import "github.com/zclconf/go-cty/cty"

// c13Judge evaluates the property predicate for one call on wholly known arguments.
func c13Judge(ctx *Ctx, name string, args []cty.Value, res c13Res) {
	ctx.Eval(name+" "+c13EncArgs(args), res.class == "ok")
}
