package main

// C13 property predicate: an independent reference for each function, written
// over plain Go slices and maps (elements are extracted with the public
// accessors AsValueSlice / AsValueMap, compared with Equals), its documented
// result type, and its documented domain.  The reference deliberately answers
// "don't know" (skip) where judging would need package convert's unification
// and conversion rules (C08/C09): those calls are still compared with the model.

import (
	"fmt"
	"math/big"
	"sort"

	"github.com/zclconf/go-cty/cty"
)

type c13Want struct {
	skip   bool      // the reference does not decide this call
	fail   bool      // outside the documented domain: the call must fail (any error class)
	val    cty.Value // expected result (exact type and value) when !fail
	asSet  bool      // compare as sets of Equals-classes (iteration order is not part of the claim)
	why    string    // why the call is expected to fail / what was expected
	sigTag string    // extra tag for the failure signature
}

func c13Fail(why string) c13Want { return c13Want{fail: true, why: why} }
func c13Skip() c13Want           { return c13Want{skip: true} }
func c13Ok(v cty.Value) c13Want  { return c13Want{val: v} }

func c13Eq(a, b cty.Value) bool {
	eq := a.Equals(b)
	return eq.IsKnown() && eq.True()
}

// whole returns the value of a whole number that fits an int64 (Go's int).
func c13Whole(v cty.Value) (int64, bool) {
	if v.IsNull() || !v.IsKnown() || v.Type() != cty.Number {
		return 0, false
	}
	f := v.AsBigFloat()
	if f.IsInf() || !f.IsInt() {
		return 0, false
	}
	i, acc := f.Int64()
	if acc != big.Exact {
		return 0, false
	}
	return i, true
}

func c13IsSeqTy(t cty.Type) bool { return t.IsListType() || t.IsSetType() || t.IsTupleType() }

func c13Slice(v cty.Value) []cty.Value {
	if v.LengthInt() == 0 {
		return nil
	}
	return v.AsValueSlice()
}

func c13TupleOf(vs []cty.Value) cty.Value {
	if len(vs) == 0 {
		return cty.EmptyTupleVal
	}
	return cty.TupleVal(vs)
}

func c13SortedKeys(m map[string]cty.Value) []string {
	ks := make([]string, 0, len(m))
	for k := range m {
		ks = append(ks, k)
	}
	sort.Strings(ks)
	return ks
}

func c13AnyNull(args []cty.Value) bool {
	for _, a := range args {
		if a.IsNull() {
			return true
		}
	}
	return false
}

func c13Flatten(v cty.Value, out []cty.Value) []cty.Value {
	for _, e := range c13Slice(v) {
		if !e.IsNull() && c13IsSeqTy(e.Type()) {
			out = c13Flatten(e, out)
		} else {
			out = append(out, e)
		}
	}
	return out
}

func c13Member(vs []cty.Value, x cty.Value) bool {
	for _, v := range vs {
		if c13Eq(v, x) {
			return true
		}
	}
	return false
}

func c13Dedup(vs []cty.Value) []cty.Value {
	var out []cty.Value
	for _, v := range vs {
		if !c13Member(out, v) {
			out = append(out, v)
		}
	}
	return out
}

// c13Reference: what the documented behaviour of the function is on these wholly known, unmarked arguments.
func c13Reference(name string, args []cty.Value) c13Want {
	switch name {
	case "length":
		c := args[0]
		t := c.Type()
		if !(t.IsListType() || t.IsMapType() || t.IsSetType() || t.IsTupleType()) {
			return c13Fail("not a list, map, set or tuple")
		}
		if c.IsNull() {
			return c13Fail("null collection")
		}
		n := 0
		if t.IsMapType() {
			n = len(c.AsValueMap())
		} else {
			n = len(c13Slice(c))
		}
		return c13Ok(cty.NumberIntVal(int64(n)))

	case "hasindex", "index":
		c, k := args[0], args[1]
		t := c.Type()
		if !(t.IsListType() || t.IsMapType() || t.IsTupleType()) {
			return c13Fail("not a list, map or tuple")
		}
		if c.IsNull() || k.IsNull() {
			return c13Fail("null argument")
		}
		var found *cty.Value
		if t.IsMapType() {
			if k.Type() == cty.String {
				if v, ok := c.AsValueMap()[k.AsString()]; ok {
					found = &v
				}
			} else if name == "index" {
				return c13Fail("map key must be a string")
			}
		} else {
			if k.Type() == cty.Number {
				if i, ok := c13Whole(k); ok && i >= 0 && i < int64(c.LengthInt()) {
					found = &c13Slice(c)[i]
				}
			} else if name == "index" {
				return c13Fail("sequence key must be a number")
			}
		}
		if name == "hasindex" {
			return c13Ok(cty.BoolVal(found != nil))
		}
		if found == nil {
			return c13Fail("no such index")
		}
		return c13Ok(*found)

	case "element":
		l, idx := args[0], args[1]
		if !(l.Type().IsListType() || l.Type().IsTupleType()) || l.IsNull() || idx.Type() != cty.Number {
			return c13Fail("not a list/tuple and a number")
		}
		i, ok := c13Whole(idx)
		if !ok {
			return c13Fail("index is not a whole number")
		}
		n := int64(l.LengthInt())
		if n == 0 {
			return c13Fail("empty list")
		}
		m := ((i % n) + n) % n // Euclidean remainder
		return c13Ok(c13Slice(l)[m])

	case "coalescelist":
		if len(args) == 0 {
			return c13Fail("no arguments")
		}
		for _, a := range args {
			if !(a.Type().IsListType() || a.Type().IsTupleType()) {
				return c13Fail("argument is not a list or tuple")
			}
		}
		for _, a := range args {
			if !a.IsNull() && a.LengthInt() > 0 {
				return c13Ok(a)
			}
		}
		return c13Fail("no non-empty argument")

	case "coalesce":
		if len(args) == 0 {
			return c13Fail("no arguments")
		}
		for _, a := range args[1:] {
			if !a.Type().Equals(args[0].Type()) {
				return c13Skip()
			}
		}
		for _, a := range args {
			if !a.IsNull() {
				return c13Ok(a)
			}
		}
		return c13Fail("no non-null argument")

	case "compact":
		l := args[0]
		if !l.Type().Equals(cty.List(cty.String)) || l.IsNull() {
			return c13Fail("not a list of strings")
		}
		var out []cty.Value
		for _, e := range c13Slice(l) {
			if !e.IsNull() && e.AsString() != "" {
				out = append(out, e)
			}
		}
		return c13Ok(c13List(cty.String, out))

	case "sort":
		l := args[0]
		if !l.Type().Equals(cty.List(cty.String)) || l.IsNull() {
			return c13Fail("not a list of strings")
		}
		var ss []string
		for _, e := range c13Slice(l) {
			if e.IsNull() {
				return c13Fail("null string")
			}
			ss = append(ss, e.AsString())
		}
		// simple selection sort by byte order: independent of package sort
		for i := range ss {
			for j := i + 1; j < len(ss); j++ {
				if ss[j] < ss[i] {
					ss[i], ss[j] = ss[j], ss[i]
				}
			}
		}
		out := make([]cty.Value, len(ss))
		for i, s := range ss {
			out[i] = cty.StringVal(s)
		}
		return c13Ok(c13List(cty.String, out))

	case "contains":
		c, x := args[0], args[1]
		if !c13IsSeqTy(c.Type()) || c.IsNull() || x.IsNull() {
			return c13Fail("not a non-null list, tuple or set and a non-null value")
		}
		return c13Ok(cty.BoolVal(c13Member(c13Slice(c), x)))

	case "distinct":
		l := args[0]
		if !l.Type().IsListType() || l.IsNull() {
			return c13Fail("not a list")
		}
		return c13Ok(c13List(l.Type().ElementType(), c13Dedup(c13Slice(l))))

	case "chunklist":
		l, sz := args[0], args[1]
		if !l.Type().IsListType() || l.IsNull() || sz.Type() != cty.Number {
			return c13Fail("not a list and a number")
		}
		n, ok := c13Whole(sz)
		if !ok || n < 0 {
			return c13Fail("size is not a whole number >= 0")
		}
		es := c13Slice(l)
		var chunks []cty.Value
		if n == 0 {
			if len(es) > 0 {
				chunks = append(chunks, l)
			}
		} else {
			for s := 0; s < len(es); s += int(n) {
				e := s + int(n)
				if e > len(es) {
					e = len(es)
				}
				chunks = append(chunks, cty.ListVal(es[s:e]))
			}
		}
		return c13Ok(c13List(l.Type(), chunks))

	case "flatten":
		c := args[0]
		if !c13IsSeqTy(c.Type()) || c.IsNull() {
			return c13Fail("not a list, set or tuple")
		}
		return c13Ok(c13TupleOf(c13Flatten(c, nil)))

	case "keys", "values":
		m := args[0]
		t := m.Type()
		if !(t.IsMapType() || t.IsObjectType()) || m.IsNull() {
			return c13Fail("not a map or object")
		}
		vm := map[string]cty.Value{}
		if m.LengthInt() > 0 {
			vm = m.AsValueMap()
		}
		var out []cty.Value
		for _, k := range c13SortedKeys(vm) {
			if name == "keys" {
				out = append(out, cty.StringVal(k))
			} else {
				out = append(out, vm[k])
			}
		}
		if t.IsObjectType() {
			return c13Ok(c13TupleOf(out))
		}
		if name == "keys" {
			return c13Ok(c13List(cty.String, out))
		}
		return c13Ok(c13List(t.ElementType(), out))

	case "lookup":
		m, k, d := args[0], args[1], args[2]
		t := m.Type()
		if !(t.IsMapType() || t.IsObjectType()) || m.IsNull() || k.IsNull() || k.Type() != cty.String || d.IsNull() {
			return c13Fail("not a map/object, a string key and a non-null default")
		}
		vm := map[string]cty.Value{}
		if m.LengthInt() > 0 {
			vm = m.AsValueMap()
		}
		if t.IsMapType() && !d.Type().Equals(t.ElementType()) {
			return c13Skip() // needs the conversion rules
		}
		if v, ok := vm[k.AsString()]; ok {
			return c13Ok(v)
		}
		return c13Ok(d)

	case "merge":
		allSameMap := len(args) > 0
		for _, a := range args {
			t := a.Type()
			if !(t.IsMapType() || t.IsObjectType()) {
				return c13Fail("argument is not a map or object")
			}
			if !t.IsMapType() || !t.Equals(args[0].Type()) {
				allSameMap = false
			}
		}
		merged := map[string]cty.Value{}
		for _, a := range args {
			if a.IsNull() || a.LengthInt() == 0 {
				continue
			}
			for k, v := range a.AsValueMap() {
				merged[k] = v
			}
		}
		if allSameMap {
			return c13Ok(c13Map(args[0].Type().ElementType(), merged))
		}
		w := c13Ok(cty.ObjectVal(merged))
		allNull := len(args) > 0
		for _, a := range args {
			if !a.IsNull() {
				allNull = false
			}
		}
		if allNull {
			w.sigTag = "all-null-objects"
		}
		return w

	case "reverse":
		c := args[0]
		if !c13IsSeqTy(c.Type()) || c.IsNull() {
			return c13Fail("not a list, set or tuple")
		}
		es := c13Slice(c)
		out := make([]cty.Value, len(es))
		for i, e := range es {
			out[len(es)-1-i] = e
		}
		if c.Type().IsTupleType() {
			return c13Ok(c13TupleOf(out))
		}
		return c13Ok(c13List(c.Type().ElementType(), out))

	case "slice":
		l, a, b := args[0], args[1], args[2]
		if !(l.Type().IsListType() || l.Type().IsTupleType()) || c13AnyNull(args) {
			return c13Fail("not a list or tuple")
		}
		s, ok1 := c13Whole(a)
		e, ok2 := c13Whole(b)
		n := int64(l.LengthInt())
		if !ok1 || !ok2 || s < 0 || e < s || e > n {
			return c13Fail("indices outside 0 <= start <= end <= length")
		}
		out := c13Slice(l)[s:e]
		if l.Type().IsTupleType() {
			return c13Ok(c13TupleOf(out))
		}
		return c13Ok(c13List(l.Type().ElementType(), out))

	case "zipmap":
		ks, vs := args[0], args[1]
		if !ks.Type().Equals(cty.List(cty.String)) || !(vs.Type().IsListType() || vs.Type().IsTupleType()) || c13AnyNull(args) {
			return c13Fail("not a list of strings and a list or tuple")
		}
		if ks.LengthInt() != vs.LengthInt() {
			return c13Fail("lengths differ")
		}
		m := map[string]cty.Value{}
		vals := c13Slice(vs)
		for i, k := range c13Slice(ks) {
			if k.IsNull() {
				return c13Fail("null key")
			}
			m[k.AsString()] = vals[i]
		}
		if vs.Type().IsListType() {
			return c13Ok(c13Map(vs.Type().ElementType(), m))
		}
		return c13Ok(cty.ObjectVal(m))

	case "setproduct":
		if len(args) < 2 {
			return c13Fail("fewer than two arguments")
		}
		allSeq := true
		rows := [][]cty.Value{{}}
		etys := make([]cty.Type, len(args))
		for i, a := range args {
			t := a.Type()
			if !c13IsSeqTy(t) || a.IsNull() {
				return c13Fail("argument is not a list, set or tuple")
			}
			if t.IsSetType() {
				allSeq = false
			}
			if t.IsTupleType() {
				ets := t.TupleElementTypes()
				if len(ets) == 0 {
					etys[i] = cty.DynamicPseudoType
				} else {
					for _, e := range ets[1:] {
						if !e.Equals(ets[0]) {
							return c13Skip() // needs unification
						}
					}
					etys[i] = ets[0]
				}
			} else {
				etys[i] = t.ElementType()
			}
			var next [][]cty.Value
			for _, r := range rows {
				for _, e := range c13Slice(a) {
					next = append(next, append(append([]cty.Value{}, r...), e))
				}
			}
			rows = next
		}
		ety := cty.Tuple(etys)
		tv := make([]cty.Value, len(rows))
		for i, r := range rows {
			tv[i] = cty.TupleVal(r)
		}
		if allSeq {
			return c13Ok(c13List(ety, tv))
		}
		w := c13Ok(c13Set(ety, tv))
		w.asSet = true
		return w

	case "concat":
		if len(args) == 0 {
			return c13Fail("no arguments")
		}
		allSameList := true
		var all []cty.Value
		for _, a := range args {
			t := a.Type()
			if !(t.IsListType() || t.IsTupleType()) || a.IsNull() {
				return c13Fail("argument is not a list or tuple")
			}
			if !t.IsListType() || !t.Equals(args[0].Type()) {
				allSameList = false
			}
			all = append(all, c13Slice(a)...)
		}
		if allSameList {
			return c13Ok(c13List(args[0].Type().ElementType(), all))
		}
		allLists := true
		for _, a := range args {
			if !a.Type().IsListType() {
				allLists = false
			}
		}
		if allLists {
			return c13Skip() // lists of different element types: unification decides
		}
		return c13Ok(c13TupleOf(all))

	case "range":
		if len(args) < 1 || len(args) > 3 {
			return c13Fail("not one to three arguments")
		}
		is := make([]int64, len(args))
		for i, a := range args {
			if a.IsNull() || a.Type() != cty.Number {
				return c13Fail("not numbers")
			}
			x, ok := c13Whole(a)
			if !ok || x > 1<<40 || x < -(1<<40) {
				return c13Skip() // the reference is exact integer arithmetic
			}
			is[i] = x
		}
		var start, end, step int64
		switch len(is) {
		case 1:
			start, end, step = 0, is[0], 1
			if end < 0 {
				step = -1
			}
		case 2:
			start, end, step = is[0], is[1], 1
			if end < start {
				step = -1
			}
		default:
			start, end, step = is[0], is[1], is[2]
		}
		if step == 0 {
			w := c13Fail("step is zero")
			w.sigTag = "step-zero"
			return w
		}
		if (step > 0 && end < start) || (step < 0 && end > start) {
			return c13Fail("end is on the wrong side of start")
		}
		var out []cty.Value
		for x := start; (step > 0 && x < end) || (step < 0 && x > end); x += step {
			if len(out) >= 1024 {
				return c13Fail("more than 1024 elements")
			}
			out = append(out, cty.NumberIntVal(x))
		}
		return c13Ok(c13List(cty.Number, out))

	case "sethaselement":
		s, e := args[0], args[1]
		if !s.Type().IsSetType() || s.IsNull() || e.IsNull() {
			return c13Fail("not a non-null set and element")
		}
		return c13Ok(cty.BoolVal(c13Member(c13Slice(s), e)))

	case "setunion", "setintersection", "setsubtract", "setsymmetricdifference":
		if len(args) == 0 {
			return c13Fail("no arguments")
		}
		for _, a := range args {
			if !a.Type().IsSetType() || a.IsNull() {
				return c13Fail("argument is not a set")
			}
			if !a.Type().Equals(args[0].Type()) || a.Type().ElementType() == cty.DynamicPseudoType {
				return c13Skip() // needs unification / conversion
			}
		}
		acc := c13Dedup(c13Slice(args[0]))
		for _, a := range args[1:] {
			b := c13Slice(a)
			var next []cty.Value
			switch name {
			case "setunion":
				next = c13Dedup(append(append([]cty.Value{}, acc...), b...))
			case "setintersection":
				for _, x := range acc {
					if c13Member(b, x) {
						next = append(next, x)
					}
				}
			case "setsubtract":
				for _, x := range acc {
					if !c13Member(b, x) {
						next = append(next, x)
					}
				}
			default:
				for _, x := range acc {
					if !c13Member(b, x) {
						next = append(next, x)
					}
				}
				for _, x := range c13Dedup(b) {
					if !c13Member(acc, x) {
						next = append(next, x)
					}
				}
			}
			acc = next
		}
		w := c13Ok(c13Set(args[0].Type().ElementType(), acc))
		w.asSet = true
		return w
	}
	return c13Skip()
}

func c13SameSet(a, b cty.Value) bool {
	if !a.Type().Equals(b.Type()) || a.IsNull() || !a.IsKnown() || a.IsMarked() {
		return false
	}
	as, bs := c13Slice(a), c13Slice(b)
	if len(as) != len(bs) {
		return false
	}
	for _, x := range as {
		if !c13Member(bs, x) {
			return false
		}
	}
	for _, x := range bs {
		if !c13Member(as, x) {
			return false
		}
	}
	return true
}

// c13Judge evaluates the property predicate for one call on wholly known arguments.
func c13Judge(ctx *Ctx, name string, args []cty.Value, res c13Res) {
	for _, a := range args {
		if a.ContainsMarked() || !a.IsWhollyKnown() {
			return
		}
	}
	var want c13Want
	if p, why := try(func() { want = c13Reference(name, args) }); p {
		ctx.Probe("c13-reference-total", false, name+": reference panicked: "+why+" on "+c13GoLit(name, args))
		return
	}
	if want.skip {
		ctx.Tag("judge:skip:" + name)
		return
	}
	key := name + " " + c13EncArgs(args)
	ctx.Eval(key, res.class == "ok" || want.fail)
	ctx.Tag("judge:" + name)
	lit := c13GoLit(name, args)
	outcome := res.class
	if res.class == "ok" {
		outcome = res.val.GoString()
	} else if res.err != nil {
		s := res.err.Error()
		if len(s) > 160 {
			s = s[:160]
		}
		outcome = res.class + ": " + s
	}
	tag := ""
	if want.sigTag != "" {
		tag = ":" + want.sigTag
	}
	switch {
	case res.class == "panic":
		ctx.Fail(Failure{Site: name, Sig: name + ":go-panic" + tag, What: "a Go panic escaped Function.Call", Input: key, GoLit: lit, Outcome: outcome})
	case want.fail && res.class == "ok":
		ctx.Fail(Failure{Site: name, Sig: name + ":accepted-outside-domain" + tag, What: "the call succeeded on arguments outside the documented domain (" + want.why + ")", Input: key, GoLit: lit, Outcome: outcome})
	case !want.fail && res.class != "ok":
		ctx.Fail(Failure{Site: name, Sig: name + ":fails-inside-domain" + tag, What: "the call failed on arguments inside the documented domain; the reference returns " + want.val.GoString(), Input: key, GoLit: lit, Outcome: outcome})
	case !want.fail:
		same := false
		if want.asSet {
			same = c13SameSet(res.val, want.val)
		} else {
			same = res.val.RawEquals(want.val)
		}
		if !same {
			sig := name + ":wrong-value"
			if !res.val.Type().Equals(want.val.Type()) {
				sig = name + ":wrong-type"
			}
			ctx.Fail(Failure{Site: name, Sig: sig + tag, What: fmt.Sprintf("result differs from the reference over plain slices (want %s)", want.val.GoString()), Input: key, GoLit: lit, Outcome: outcome})
		}
	}
}
