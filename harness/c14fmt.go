package main

// C14, format / formatlist.  Format strings are generated from the documented verb
// grammar  '%' flags* width? ('.' digits*)? ('[' n ']')? letter ; the reference is the
// harness's own scanner for that grammar plus Go's fmt on math/big values for the
// numeric verbs and grapheme-cluster padding / truncation for strings.  The Lean
// model (scanner, argument bookkeeping, dispatch, cluster padding) is compared
// through the driver; digit rendering, Text('g',-1) and JSON quoting are oracle
// columns.

import (
	"fmt"
	"math/big"
	"regexp"
	"strconv"
	"strings"

	"github.com/zclconf/go-cty/cty"
	"github.com/zclconf/go-cty/cty/function/stdlib"
	ctyjson "github.com/zclconf/go-cty/cty/json"
	"golang.org/x/text/unicode/norm"
)

var fmtVerbRe = regexp.MustCompile(`^%([0#\-+ ]*)([1-9][0-9]*)?(\.[0-9]*)?(\[[1-9][0-9]*\])?([a-zA-Z])`)

type refVerb struct {
	raw, flags, mode string
	width, prec      int // -1 = absent
	argNum           int // 0 = not given
}

func (v refVerb) has(f byte) bool { return strings.IndexByte(v.flags, f) >= 0 }

func (v refVerb) stripped() string {
	s := "%" + v.flags
	if v.width >= 0 {
		s += strconv.Itoa(v.width)
	}
	if i := strings.IndexByte(v.raw, '.'); i >= 0 {
		j := i + 1
		for j < len(v.raw) && v.raw[j] >= '0' && v.raw[j] <= '9' {
			j++
		}
		s += v.raw[i:j]
	}
	return s + v.mode
}

// refMinusZeroPadsZeros selects the variant of the reference that follows the code as written for the
// recorded finding format-minus-zero-flags-pad-zeros-on-the-right ("%-05v" pads with zeros on the right);
// it is only used to attribute a deviation to that finding and nothing else
var refMinusZeroPadsZeros = false

// formatMaxWidthPrec: widths and precisions beyond it are outside the documented domain (format.go, /repo 84cbc5e)
const refFormatMaxWidthPrec = 1000000

func padClusters(o *oracle, s string, v refVerb) string {
	if v.width < 0 {
		return s
	}
	n := len(o.clusters(s))
	if n >= v.width {
		return s
	}
	pad := " "
	if v.has('0') && (!v.has('-') || refMinusZeroPadsZeros) {
		pad = "0"
	}
	if v.has('-') {
		return s + strings.Repeat(pad, v.width-n)
	}
	return strings.Repeat(pad, v.width-n) + s
}

func jsonQuote(o *oracle, s string) string {
	b, err := ctyjson.Marshal(cty.StringVal(s), cty.String)
	if err != nil {
		return "<json error>"
	}
	o.add("jsonStr", []string{cty.StringVal(s).AsString()}, encStr(string(b)))
	return string(b)
}

// refFormat: result, ok=false for a documented error, judged=false when the case
// involves a conversion or flag combination the reference does not define.
func refFormat(o *oracle, format string, args []cty.Value, precZeroIgnored bool) (out string, ok, judged bool) {
	var sb strings.Builder
	next, highest := 1, 0
	judged = true
	for i := 0; i < len(format); {
		if format[i] != '%' {
			sb.WriteByte(format[i])
			i++
			continue
		}
		if strings.HasPrefix(format[i:], "%%") {
			sb.WriteByte('%')
			i += 2
			continue
		}
		m := fmtVerbRe.FindStringSubmatch(format[i:])
		if m == nil {
			return "", false, judged
		}
		v := refVerb{raw: m[0], flags: m[1], mode: m[5], width: -1, prec: -1, argNum: next}
		tooWide := false
		if m[2] != "" {
			var err error
			if v.width, err = strconv.Atoi(m[2]); err != nil || v.width > refFormatMaxWidthPrec {
				tooWide = true
			}
		}
		if m[3] != "" && m[3] != "." { // "." alone = 0, as in Go's fmt
			var err error
			if v.prec, err = strconv.Atoi(m[3][1:]); err != nil || v.prec > refFormatMaxWidthPrec {
				tooWide = true
			}
		} else if m[3] == "." {
			v.prec = 0
		}
		if m[4] != "" {
			var err error
			if v.argNum, err = strconv.Atoi(m[4][1 : len(m[4])-1]); err != nil {
				v.argNum = int(^uint(0) >> 1) // beyond every argument, whatever its size
			}
		}
		i += len(m[0])
		if v.argNum > highest {
			highest = v.argNum
		}
		if v.argNum > len(args) {
			return "", false, judged
		}
		if tooWide {
			return "", false, judged
		}
		a := args[v.argNum-1]
		next = v.argNum + 1
		if v.mode != "v" && a.IsNull() {
			return "", false, judged
		}
		switch v.mode {
		case "v":
			switch {
			case a.IsNull():
				sb.WriteString(padClusters(o, "null", v))
			case a.Type() == cty.String && !v.has('#'):
				sb.WriteString(padClusters(o, a.AsString(), v))
			case a.Type() == cty.String:
				sb.WriteString(padClusters(o, jsonQuote(o, a.AsString()), v))
			case a.Type() == cty.Number && !v.has('#'):
				t := a.AsBigFloat().Text('g', -1)
				o.add("textG", []string{cty.VerifNumWire(a.AsBigFloat())}, encStr(t))
				sb.WriteString(padClusters(o, t, v))
			case a.Type() == cty.Bool:
				sb.WriteString(padClusters(o, strconv.FormatBool(a.True()), v))
			default:
				judged = false
				return "", false, judged
			}
		case "t":
			if a.Type() != cty.Bool {
				return "", false, false
			}
			sb.WriteString(strconv.FormatBool(a.True()))
		case "b", "d", "o", "x", "X":
			if a.Type() != cty.Number {
				return "", false, false
			}
			bf := a.AsBigFloat()
			if !bf.IsInt() {
				return "", false, judged
			}
			bi, _ := bf.Int(nil)
			t := fmt.Sprintf(v.stripped(), bi)
			o.add("fmtInt", []string{v.stripped(), bi.String()}, encStr(t))
			sb.WriteString(t)
		case "e", "E", "f", "g", "G":
			if a.Type() != cty.Number {
				return "", false, false
			}
			t := fmt.Sprintf(v.stripped(), a.AsBigFloat())
			o.add("fmtFloat", []string{v.stripped(), cty.VerifNumWire(a.AsBigFloat())}, encStr(t))
			sb.WriteString(t)
		case "s", "q":
			if a.Type() != cty.String {
				return "", false, false
			}
			s := a.AsString()
			if v.prec >= 0 {
				cs := o.clusters(s)
				if v.prec < len(cs) {
					if v.prec == 0 {
						// "precision limits the length of the input": zero clusters.  (Library facts about
						// the uncut string are recorded too, so that the model of the code as written can be followed.)
						full := s
						if v.mode == "q" {
							full = jsonQuote(o, o.nfc(s))
						}
						padClusters(o, full, v)
						if !precZeroIgnored {
							s = ""
						}
					} else {
						s = strings.Join(cs[:v.prec], "")
					}
				}
			}
			if v.mode == "q" {
				s = jsonQuote(o, o.nfc(s))
			}
			sb.WriteString(padClusters(o, s, v))
		default:
			return "", false, judged
		}
	}
	if highest < len(args) {
		return "", false, judged
	}
	return sb.String(), true, judged
}

var fmtLits = []string{"", "a", " ", "x=", "é", "👍", "-", ": ", "100", "\n", "가", "[", "]", ".", "#"}

func genFormat(ctx *Ctx) (string, []cty.Value) {
	r := ctx.R
	var sb strings.Builder
	var args []cty.Value
	genArgFor := func(mode byte) cty.Value {
		if r.Intn(25) == 0 {
			return cty.NullVal([]cty.Type{cty.String, cty.Number, cty.Bool}[r.Intn(3)])
		}
		switch mode {
		case 'd', 'b', 'o', 'x', 'X':
			switch r.Intn(8) {
			case 0:
				return genC14Num(ctx)
			case 1:
				return cty.NumberVal(new(big.Float).SetPrec(512).SetInt(new(big.Int).Lsh(big.NewInt(int64(1+r.Intn(9))), uint(r.Intn(200)))))
			}
			return cty.NumberIntVal(int64(r.Intn(2001) - 1000))
		case 'e', 'E', 'f', 'g', 'G':
			return genC14Num(ctx)
		case 's', 'q':
			return sv(genC14Str(ctx, 4))
		case 't':
			return cty.BoolVal(r.Intn(2) == 0)
		}
		switch r.Intn(3) {
		case 0:
			return sv(genC14Str(ctx, 3))
		case 1:
			return genC14Num(ctx)
		}
		return cty.BoolVal(r.Intn(2) == 0)
	}
	nverbs := 0
	for k := r.Intn(5); k >= 0; k-- {
		sb.WriteString(fmtLits[r.Intn(len(fmtLits))])
		switch r.Intn(12) {
		case 0:
			sb.WriteString("%%")
			continue
		case 1:
			continue
		}
		mode := "dsqtxXobefgvvsd"[r.Intn(15)]
		switch r.Intn(40) {
		case 0:
			mode = "zcUpwT"[r.Intn(6)]
		case 1:
			mode = "EG"[r.Intn(2)]
		}
		sb.WriteByte('%')
		numeric := strings.IndexByte("dxXobefgEG", mode) >= 0
		if numeric {
			for f := r.Intn(3); f > 0; f-- {
				sb.WriteByte("0#-+ "[r.Intn(5)])
			}
		} else if r.Intn(3) == 0 {
			sb.WriteByte("-0#"[r.Intn(3)])
			if r.Intn(4) == 0 { // flag combinations on %v %s %q %t too
				sb.WriteByte("-0#+ "[r.Intn(5)])
			}
		}
		hugeW := false
		if r.Intn(3) == 0 {
			if r.Intn(20) == 0 {
				// widths beyond formatMaxWidthPrec and around the wrap-around points of 32/64-bit ints: an error, never a wrap
				sb.WriteString(c14HugeWidths[r.Intn(len(c14HugeWidths))])
				hugeW = true
				ctx.Tag("format:huge-width")
			} else {
				sb.WriteString(strconv.Itoa(1 + r.Intn(12)))
			}
		}
		if r.Intn(4) == 0 {
			sb.WriteByte('.')
			if !hugeW && r.Intn(20) == 0 {
				sb.WriteString(c14HugeWidths[r.Intn(len(c14HugeWidths))])
				ctx.Tag("format:huge-precision")
			} else if r.Intn(8) != 0 {
				sb.WriteString(strconv.Itoa(r.Intn(6)))
			}
		}
		explicit := 0
		if r.Intn(6) == 0 {
			explicit = 1 + r.Intn(len(args)+2)
			if r.Intn(8) == 0 {
				// argument numbers beyond every Go integer width (the scanner accumulates digits in an int):
				// such an index names no argument, whatever it wraps to
				explicit = len(args) + 1
				sb.WriteString("[" + c14HugeIndexes[r.Intn(len(c14HugeIndexes))] + "]")
			} else {
				sb.WriteString("[" + strconv.Itoa(explicit) + "]")
			}
		}
		sb.WriteByte(mode)
		nverbs++
		if explicit == 0 || explicit > len(args) {
			args = append(args, genArgFor(mode))
		}
	}
	sb.WriteString(fmtLits[r.Intn(len(fmtLits))])
	switch r.Intn(30) {
	case 0:
		sb.WriteString([]string{"%", "%5", "%[", "%[0]d", "%-", "%.", "%[1", "%é", "%05", "%[1]", "%1$d", "%*d"}[r.Intn(12)])
	case 1:
		args = append(args, sv("extra"))
	case 2:
		if len(args) > 0 {
			args = args[:len(args)-1]
		}
	}
	return sb.String(), args
}

// widths / precisions beyond formatMaxWidthPrec (1000000), up to and beyond the wrap-around points
var c14HugeWidths = []string{"1000001", "1000010", "2147483647", "2147483648", "4294967297", "9223372036854775799", "9223372036854775800",
	"9223372036854775807", "9223372036854775808", "18446744073709551616", "18446744073709551617", "18446744073709551621", "99999999999999999999999"}

// a verb of mode v/s/q with a width and both the '-' and the '0' flag
var fmtMinusZeroRe = regexp.MustCompile(`%[0#\-+ ]*(?:-[0#\-+ ]*0|0[0#\-+ ]*-)[0#\-+ ]*[1-9][0-9]*(?:\.[0-9]*)?(?:\[[0-9]+\])?[vsq]`)

// decimal argument numbers around the wrap-around points of 32- and 64-bit integers
var c14HugeIndexes = []string{"2147483648", "4294967296", "4294967297", "9223372036854775807", "9223372036854775808", "18446744073709551615",
	"18446744073709551616", "18446744073709551617", "18446744073709551618", "99999999999999999999999", "36893488147419103233"}

func runC14Format(ctx *Ctx) {
	n := ctx.N(5000, 100000)
	for i := 0; i < n; i++ {
		format, args := genFormat(ctx)
		switch i {
		case 0: // corpus: witness of the precision-zero defect repaired by d93e8c0, must pass
			format, args = "%.0s", []cty.Value{sv("a")}
		case 1: // corpus: width digits that wrapped around to width 1 before /repo 84cbc5e: an error now
			format, args = "%18446744073709551617d", []cty.Value{cty.NumberIntVal(42)}
		case 2: // corpus: the recorded finding (minus and zero flag together)
			format, args = "%-05v", []cty.Value{cty.NumberIntVal(42)}
		case 3: // corpus: an explicit index that saturates, after a valid verb
			format, args = "%s%[9223372036854775800]s", []cty.Value{sv("a")}
		}
		fv := sv(format)
		all := append([]cty.Value{fv}, args...)
		o := newOracle()
		want, ok, judged := refFormat(o, fv.AsString(), args, false)
		c := glueCase{name: "format", goNm: "Format", f: stdlib.FormatFunc, args: all, orc: o, skip: !judged}
		if ok {
			c.want = sv(o.nfc(want))
		} else {
			c.wantErr = true
		}
		// regression signature of fix d93e8c0 (a zero precision on strings used to be ignored)
		if strings.Contains(format, ".0s") || strings.Contains(format, ".s") || strings.Contains(format, ".0q") || strings.Contains(format, ".q") ||
			strings.Contains(format, ".0[") || strings.Contains(format, ".[") {
			c.failSig = "format-string-precision-zero-ignored"
		}
		if !judged {
			ctx.Tag("format:reference-undefined")
		}
		if ok && judged && fmtMinusZeroRe.MatchString(format) {
			// recorded finding: with '-' AND '0' formatPadWidth pads with ZEROS ON THE RIGHT ("%-05v" of 42 = "42000").
			// The deviation is attributed to it only when the result is exactly what that root cause predicts.
			ctx.Tag("format:minus-and-zero-flag")
			refMinusZeroPadsZeros = true
			alt, altOK, _ := refFormat(newOracle(), fv.AsString(), args, false)
			refMinusZeroPadsZeros = false
			if got, err := stdlib.Format(fv, args...); err == nil && altOK && alt != want && got.RawEquals(sv(o.nfc(alt))) {
				c.failSig = "format-minus-zero-flags-pad-zeros-on-the-right"
			}
		}
		runGlue(ctx, c)
	}
	runC14FormatList(ctx)
}

// ---- jsonencode / jsondecode (search only here; the JSON codec itself is C15's subject) ----

func genJSONVal(ctx *Ctx, depth int) cty.Value {
	r := ctx.R
	k := r.Intn(7)
	if depth <= 0 && k >= 4 {
		k = r.Intn(4)
	}
	switch k {
	case 0:
		return sv(genC14Str(ctx, 3))
	case 1:
		return cty.NumberIntVal(int64(r.Intn(2001) - 1000))
	case 2:
		return cty.BoolVal(r.Intn(2) == 0)
	case 3:
		return cty.MustParseNumberVal(decimalPool[r.Intn(len(decimalPool))])
	case 4:
		n := r.Intn(3)
		els := make([]cty.Value, n)
		for i := range els {
			els[i] = genJSONVal(ctx, depth-1)
		}
		return cty.TupleVal(els)
	case 5:
		m := map[string]cty.Value{}
		for i := r.Intn(3); i > 0; i-- {
			m[[]string{"a", "b", "é", "k k"}[r.Intn(4)]] = genJSONVal(ctx, depth-1)
		}
		return cty.ObjectVal(m)
	}
	return cty.NullVal(cty.DynamicPseudoType)
}

func runC14Json(ctx *Ctx) {
	n := ctx.N(1500, 30000)
	for i := 0; i < n; i++ {
		v := genJSONVal(ctx, 2)
		if i == 0 { // corpus: minimal witness of the NFC-normalised JSON text finding
			v = sv("\r\u0301")
		}
		args := []cty.Value{v}
		_, enc, class := stdOut(stdlib.JSONEncodeFunc, args)
		ctx.Tag("class:jsonencode:" + class)
		ctx.Eval("json "+wireArgs(args), true)
		if class != "ok" || enc.Type() != cty.String || !enc.IsKnown() {
			c14Fail(ctx, "json", "jsonencode-failed", "jsonencode failed on a JSON-representable value", "JSONEncode", args, class)
			continue
		}
		// root cause check: the JSON text is handed to cty.StringVal, which NFC-normalises it; if that changes
		// the text (an escape letter or hex digit followed by a combining mark) the document is corrupted
		if raw, err := ctyjson.Marshal(v, v.Type()); err == nil && norm.NFC.String(string(raw)) != string(raw) {
			if enc.AsString() != strings.TrimSpace(string(raw)) {
				c14Fail(ctx, "json", "jsonencode-nfc-changes-json-text", "jsonencode NFC-normalises the JSON text it produced: a combining mark after an escape sequence is composed with the escape's last letter (\\r + U+0301 -> \\ŕ), so the result is not the JSON encoding of the value", "JSONEncode", args, enc.GoString())
				continue
			}
		}
		_, dec, dclass := stdOut(stdlib.JSONDecodeFunc, []cty.Value{enc})
		if dclass != "ok" {
			c14Fail(ctx, "json", "jsondecode-rejects-own-output", "jsondecode rejected what jsonencode produced", "JSONEncode", args, dclass+" on "+enc.GoString())
			continue
		}
		// decoding is the inverse of encoding: tuples / objects of primitives come back as they went in
		if !dec.RawEquals(v) {
			eq := cty.False
			try(func() { eq = dec.Equals(v) })
			if !(eq.IsKnown() && eq.True()) {
				c14Fail(ctx, "json", "json-roundtrip-differs", "jsondecode(jsonencode(v)) is not v", "JSONEncode", args, dec.GoString())
			}
		}
	}
}
