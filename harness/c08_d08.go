package main

// Additions of the d08 deepening of C08: inputs the new theorems speak about and the random
// generator does not reach.
//
//   - deep types: `Convert.driverEnv` answers `unify` with a fuel computed from its argument
//     (`Unify.fuelFor` = 3 x nesting depth + 8) and `apply` runs with 64 units; nested types of
//     depth up to 18 (random mixes of list / set / map / tuple / object wrappers around a
//     primitive leaf) exercise both near their bounds: unification of identical types (the
//     `UnifyLaws.same` law), of a convertible pair, and the conversion of a value of that depth.
//   - sets whose members collide in one hash bucket (`setAdd`'s "same bucket, not equivalent"
//     branch): two distinct strings with the same CRC-32 of their `%q` form are searched for.

import (
	"fmt"
	"hash/crc32"
	"math/rand"

	"github.com/zclconf/go-cty/cty"
)

// c08Nest wraps leaf type and leaf value k times; kinds[i] picks the wrapper of level i
func c08Nest(kinds []int, leafT cty.Type, leafV cty.Value) (cty.Type, cty.Value) {
	t, v := leafT, leafV
	for _, k := range kinds {
		switch k {
		case 0:
			t, v = cty.List(t), cty.ListVal([]cty.Value{v})
		case 1:
			t, v = cty.Set(t), cty.SetVal([]cty.Value{v})
		case 2:
			t, v = cty.Map(t), cty.MapVal(map[string]cty.Value{"k": v})
		case 3:
			t, v = cty.Tuple([]cty.Type{t}), cty.TupleVal([]cty.Value{v})
		default:
			t, v = cty.Object(map[string]cty.Type{"a": t}), cty.ObjectVal(map[string]cty.Value{"a": v})
		}
	}
	return t, v
}

func c08DeepKinds(r *rand.Rand, depth int) []int {
	ks := make([]int, depth)
	for i := range ks {
		ks[i] = r.Intn(5)
	}
	return ks
}

// c08CollidingStrings finds two distinct short strings whose set hashes (CRC-32 of the quoted
// form) are equal; own fixed-seed generator (the same pair on every run), about 80 000 trials
func c08CollidingStrings() (string, string, bool) {
	seen := map[uint32]string{}
	pr := rand.New(rand.NewSource(8))
	buf := make([]byte, 10)
	for i := 0; i < 600000; i++ {
		for j := range buf {
			buf[j] = byte('a' + pr.Intn(26))
		}
		s := string(buf)
		h := crc32.ChecksumIEEE([]byte(fmt.Sprintf("%q", s)))
		if o, ok := seen[h]; ok && o != s {
			return o, s, true
		}
		seen[h] = s
	}
	return "", "", false
}

func c08D08(c *c08Run) {
	ctx, r := c.ctx, c.ctx.R
	for depth := 1; depth <= 18; depth++ {
		for rep := 0; rep < ctx.N(3, 12); rep++ {
			ks := c08DeepKinds(r, depth)
			tb, vb := c08Nest(ks, cty.Bool, cty.True)
			ts, _ := c08Nest(ks, cty.String, cty.StringVal("x"))
			tn, vn := c08Nest(ks, cty.Number, cty.NumberIntVal(7))
			c08Unify(ctx, []cty.Type{tb, tb, tb})
			c08Unify(ctx, []cty.Type{tb, ts})
			c08Unify(ctx, []cty.Type{tn, ts, tb})
			ctx.Tag(fmt.Sprintf("d08:deep:%d", depth))
			c.pair(vb, ts, true)
			c.pair(vn, ts, true)
			c.pair(vb, tb, true)
		}
	}
	if a, b, ok := c08CollidingStrings(); ok {
		ctx.Tag("d08:colliding-hashes")
		sa, sb := cty.StringVal(a), cty.StringVal(b)
		c08Hash(ctx, sa)
		c08Hash(ctx, sb)
		set := cty.SetVal([]cty.Value{sa, sb, cty.StringVal("z")})
		c08Hash(ctx, set)
		c.pair(set, cty.List(cty.String), true)
		c.pair(cty.ListVal([]cty.Value{sb, sa, sb, cty.StringVal("z"), sa}), cty.Set(cty.String), true)
		c.pair(cty.TupleVal([]cty.Value{sb, sa, sa}), cty.Set(cty.String), true)
		c.pair(cty.SetVal([]cty.Value{cty.ListVal([]cty.Value{sa}), cty.ListVal([]cty.Value{sb})}), cty.Set(cty.Set(cty.String)), true)
	} else {
		ctx.Tag("d08:no-collision-found")
	}
}
