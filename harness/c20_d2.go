package main

// C20 (d20b) — the entry points added to the heap model in `lean/CtyModel/HeapD20b.lean`,
// executed on the real code inside the ordinary C20 histories (same registers, same (S)
// judgement in c20Run.step) and DIFFED against the driver op `heapx.run`: fingerprints of
// every register after every step, and len / cap / backing-array identity of every bucket
// and slice register at the end (c20H.layout).
//
//   xvsValues g            ValueSet.Values()
//   xvalValues v           Value.AsValueSlice() of a set value (ElementIterator -> Set.Iterator -> Set.Values)
//   xpsList g              PathSet.List()
//   xpsValues g            the inner set.Set[Path].Values() itself: a []Path with the real len/cap/array
//   xunify g               convert.Unify(tys) on lists and tuples of one primitive (-> unifyTuplesAsList)
//   xunmarkDeepWithPaths v Value.UnmarkDeepWithPaths(): value + (path, marks) registers per entry
//   xpsUnion g h           PathSet.Union
//   xpsSubtract g h        PathSet.Subtract
//
// The scripted scenarios are the witness histories of Props/C20.lean §8 (each was a seeded
// change that survived the earlier check) plus sets whose lowest bucket has spare capacity.

import (
	"fmt"
	"math/rand"
	"strings"

	"github.com/zclconf/go-cty/cty"
	"github.com/zclconf/go-cty/cty/convert"
	"github.com/zclconf/go-cty/cty/set"
)

func init() {
	for _, n := range []string{"xvsValues", "xvalValues", "xunmarkDeepWithPaths", "xpsUnion", "xpsSubtract"} {
		c20copying[n] = true
	}
}

// c20d2udOK: the fragment of UnmarkDeepWithPaths the model covers — no sets, no capsules, no
// dynamic pseudo-type, and object types with at most one attribute (transform ranges over
// the attribute map: with two marked attributes the order of the entries is Go's map order).
func c20d2udOK(t cty.Type) bool {
	switch {
	case t == cty.String || t == cty.Number || t == cty.Bool:
		return true
	case t.IsListType() || t.IsMapType():
		return c20d2udOK(t.ElementType())
	case t.IsTupleType():
		for _, e := range t.TupleElementTypes() {
			if !c20d2udOK(e) {
				return false
			}
		}
		return true
	case t.IsObjectType():
		if len(t.AttributeTypes()) > 1 {
			return false
		}
		for _, e := range t.AttributeTypes() {
			if !c20d2udOK(e) {
				return false
			}
		}
		return true
	}
	return false
}

// c20d2unifyPrim mirrors Heap.unifyFragment: every type list(p) or a non-empty tuple(p,…,p)
// of ONE primitive p, at least one list and one tuple.
func c20d2unifyPrim(tys []cty.Type) (cty.Type, bool) {
	var p cty.Type
	have := false
	lists, tuples := 0, 0
	see := func(e cty.Type) bool {
		if !(e == cty.String || e == cty.Number || e == cty.Bool) {
			return false
		}
		if have && e != p {
			return false
		}
		p, have = e, true
		return true
	}
	for _, t := range tys {
		switch {
		case t.IsListType():
			lists++
			if !see(t.ElementType()) {
				return p, false
			}
		case t.IsTupleType():
			tuples++
			es := t.TupleElementTypes()
			if len(es) == 0 {
				return p, false
			}
			for _, e := range es {
				if !see(e) {
					return p, false
				}
			}
		default:
			return p, false
		}
	}
	return p, have && lists > 0 && tuples > 0
}

func c20d2pathHashes(s set.Set[cty.Path]) []int {
	hs := []int{}
	for _, p := range s.Values() {
		hs = append(hs, c20pathHash(p))
	}
	return hs
}

func c20d2psetPlain(s cty.PathSet) bool {
	for _, p := range s.List() {
		if !c20pathPlain(p) {
			return false
		}
	}
	return true
}

// c20xDo executes one of the added entry points (called from c20H.do).
func (h *c20H) c20xDo(op *c20Op) (wire, golit string, ok bool) {
	nv, ng := len(h.vals), len(h.gos)
	vname := func(i int) string { return fmt.Sprintf("v%d", i) }
	gname := func(i int) string { return fmt.Sprintf("g%d", i) }
	apiWire, apiLit := "", ""
	applies := true
	panicked, why := try(func() {
		switch op.name {
		case "xvsValues":
			g := h.gk(op.a, "vset")
			if g == nil {
				applies = false
				return
			}
			_, flat := c20setFlat(g.set.ElementType(), c20innerSetOfVS(g.set))
			out := g.set.Values()
			perm, okp := c20perm(flat, c20payloadFPs(out))
			if !okp {
				applies = false
				return
			}
			h.pushGo(&c20Go{kind: "slice", vs: out, origin: "xvsValues"})
			apiWire, apiLit = fmt.Sprintf("(xvsValues %d %s)", op.a, c20ints(perm)), fmt.Sprintf("%s := %s.Values()", gname(ng), gname(op.a))
		case "xvalValues":
			v, okv := h.val(op.a)
			if !okv || !c20plain(v) || !v.Type().IsSetType() {
				applies = false
				return
			}
			s, oks := c20innerSetOfValue(v)
			if !oks {
				applies = false
				return
			}
			_, flat := c20setFlat(v.Type().ElementType(), s) // BEFORE the call: the order the buckets are in
			out := v.AsValueSlice()
			perm, okp := c20perm(flat, c20payloadFPs(out))
			if !okp {
				applies = false
				return
			}
			h.pushGo(&c20Go{kind: "slice", vs: out, origin: "xvalValues"})
			apiWire, apiLit = fmt.Sprintf("(xvalValues %d %s)", op.a, c20ints(perm)), fmt.Sprintf("%s := %s.AsValueSlice()", gname(ng), vname(op.a))
		case "xpsList":
			g := h.gk(op.a, "pset")
			if g == nil {
				applies = false
				return
			}
			// origin "psList": the member paths themselves are handed out (documented: paths are immutable by convention),
			// the same class as the abstract psList of the 49-call fragment — `classify` files a write to one of them there
			h.pushGo(&c20Go{kind: "paths", paths: g.ps.List(), origin: "psList", holdsWalkPath: g.holdsWalkPath})
			apiWire, apiLit = fmt.Sprintf("(xpsList %d)", op.a), fmt.Sprintf("%s := %s.List()", gname(ng), gname(op.a))
		case "xpsValues":
			g := h.gk(op.a, "pset")
			if g == nil {
				applies = false
				return
			}
			h.pushGo(&c20Go{kind: "paths", paths: c20innerSetOfPS(g.ps).Values(), origin: "psList", holdsWalkPath: g.holdsWalkPath})
			apiWire, apiLit = fmt.Sprintf("(xpsValues %d)", op.a), fmt.Sprintf("%s := inner(%s).Values()  // set.Set[cty.Path].Values()", gname(ng), gname(op.a))
		case "xunify":
			g := h.gk(op.a, "types")
			if g == nil || g.tys == nil {
				applies = false
				return
			}
			if _, okf := c20d2unifyPrim(g.tys); !okf {
				applies = false
				return
			}
			ty, _ := convert.Unify(g.tys)
			if ty == cty.NilType {
				h.outs = append(h.outs, "(nil)")
			} else {
				h.vals = append(h.vals, cty.NullVal(ty))
			}
			apiWire, apiLit = fmt.Sprintf("(xunify %d)", op.a), fmt.Sprintf("ty, _ := convert.Unify(%s); %s := cty.NullVal(ty)", gname(op.a), vname(nv))
		case "xunmarkDeepWithPaths":
			v, okv := h.val(op.a)
			if !okv || !c20d2udOK(v.Type()) {
				applies = false
				return
			}
			u, pvm := v.UnmarkDeepWithPaths()
			h.vals = append(h.vals, u)
			for _, e := range pvm {
				h.pushGo(&c20Go{kind: "path", path: e.Path, origin: "xunmarkDeepWithPaths"})
				h.pushGo(&c20Go{kind: "marks", mk: e.Marks, origin: "xunmarkDeepWithPaths"})
			}
			apiWire, apiLit = fmt.Sprintf("(xunmarkDeepWithPaths %d)", op.a),
				fmt.Sprintf("%s, pvm := %s.UnmarkDeepWithPaths()  // %s… = pvm[i].Path, pvm[i].Marks", vname(nv), vname(op.a), gname(ng))
		case "xpsUnion", "xpsSubtract":
			g, o := h.gk(op.a, "pset"), h.gk(op.b, "pset")
			if g == nil || o == nil || !c20d2psetPlain(g.ps) || !c20d2psetPlain(o.ps) {
				applies = false
				return
			}
			hs := c20d2pathHashes(c20innerSetOfPS(g.ps))
			var r cty.PathSet
			meth := "Union"
			if op.name == "xpsUnion" {
				hs = append(hs, c20d2pathHashes(c20innerSetOfPS(o.ps))...)
				r = g.ps.Union(o.ps)
			} else {
				meth = "Subtract"
				r = g.ps.Subtract(o.ps)
			}
			ng2 := &c20Go{kind: "pset", ps: r, origin: op.name}
			// what the operands hold (walk paths given without a copy) the result holds too
			ng2.holdsWalkPath = g.holdsWalkPath || o.holdsWalkPath
			h.pushGo(ng2)
			apiWire, apiLit = fmt.Sprintf("(%s %d %d %s)", op.name, op.a, op.b, c20ints(hs)), fmt.Sprintf("%s := %s.%s(%s)", gname(ng), gname(op.a), meth, gname(op.b))
		default:
			applies = false
		}
	})
	if !applies {
		return "", "", false
	}
	h.ext = true
	if panicked {
		return "", "PANIC " + why, true
	}
	return apiWire, apiLit, true
}

// c20d2genX proposes one of the added entry points on registers of the right kind.
func (h *c20H) c20d2genX(r *rand.Rand) *c20Op {
	switch r.Intn(8) {
	case 0:
		return &c20Op{name: "xvsValues", a: h.pickGo(r, "vset")}
	case 1:
		c := h.valsWhere(func(v cty.Value) bool { return c20plain(v) && v.Type().IsSetType() })
		if len(c) == 0 {
			return &c20Op{name: "xvsValues", a: h.pickGo(r, "vset")}
		}
		return &c20Op{name: "xvalValues", a: c[r.Intn(len(c))]}
	case 2:
		return &c20Op{name: "xpsList", a: h.pickGo(r, "pset")}
	case 3:
		return &c20Op{name: "xpsValues", a: h.pickGo(r, "pset")}
	case 4:
		var c []int
		for i, g := range h.gos {
			if g.kind == "types" && g.tys != nil {
				if _, ok := c20d2unifyPrim(g.tys); ok {
					c = append(c, i)
				}
			}
		}
		if len(c) > 0 && r.Intn(3) > 0 {
			return &c20Op{name: "xunify", a: c[r.Intn(len(c))]}
		}
		// make a []cty.Type of tuples and lists of one primitive from the values there are
		for _, p := range []cty.Type{cty.String, cty.Number, cty.Bool}[r.Intn(3):] {
			p := p
			one := func(t cty.Type) bool { _, ok := c20d2unifyPrim([]cty.Type{t, cty.List(p), cty.Tuple([]cty.Type{p})}); return ok }
			ls := h.valsWhere(func(v cty.Value) bool { return v.Type().IsListType() && one(v.Type()) })
			ts := h.valsWhere(func(v cty.Value) bool { return v.Type().IsTupleType() && one(v.Type()) })
			if len(ls) > 0 && len(ts) > 0 {
				idxs := []int{ts[r.Intn(len(ts))], ls[r.Intn(len(ls))]}
				if r.Intn(2) == 0 {
					idxs = append(idxs, ts[r.Intn(len(ts))])
				}
				r.Shuffle(len(idxs), func(i, j int) { idxs[i], idxs[j] = idxs[j], idxs[i] })
				return &c20Op{name: "newTypes", idxs: idxs, prim: make([]string, len(idxs))}
			}
		}
		return &c20Op{name: "xunify", a: h.pickGo(r, "types")}
	case 5:
		c := h.valsWhere(func(v cty.Value) bool { return v.ContainsMarked() && c20d2udOK(v.Type()) })
		if len(c) == 0 || r.Intn(4) == 0 {
			c = h.valsWhere(func(v cty.Value) bool { return c20d2udOK(v.Type()) })
		}
		if len(c) == 0 {
			return &c20Op{name: "xpsList", a: h.pickGo(r, "pset")}
		}
		return &c20Op{name: "xunmarkDeepWithPaths", a: c[r.Intn(len(c))]}
	case 6:
		return &c20Op{name: "xpsUnion", a: h.pickGo(r, "pset"), b: h.pickGo(r, "pset")}
	default:
		return &c20Op{name: "xpsSubtract", a: h.pickGo(r, "pset"), b: h.pickGo(r, "pset")}
	}
}

// c20d2random: a random history of the ordinary generator in which about every fourth step is
// one of the added entry points.
func c20d2random(ctx *Ctx, steps int) {
	r := newC20Run(ctx)
	for tries := 0; len(r.wires) < steps && tries < steps*40 && !r.panics && !r.stop; tries++ {
		var op *c20Op
		if ctx.R.Intn(4) == 0 {
			op = r.h.c20d2genX(ctx.R)
		} else {
			op = r.h.genOp(ctx.R)
		}
		if !r.step(op) {
			ctx.Tag("skip:" + op.name)
		}
	}
	if r.h.ext {
		ctx.Tag("d2:random-history-with-added-entry-points")
	}
	r.finish()
}

// c20d2valHash: the bucket id the real rules file `v` under
func c20d2valHash(v cty.Value) int {
	s := cty.NewValueSet(v.Type())
	s.Add(v)
	ids, _ := set.VerifBuckets(c20innerSetOfVS(s))
	return ids[0]
}

// c20d2above: a string whose bucket id is above (below) that of the unknowns, so that the
// bucket of the unknowns is the lowest (not the lowest) one
func c20d2strings(above bool, n int) []string {
	u := c20d2valHash(cty.UnknownVal(cty.String))
	out := []string{}
	for i := 0; len(out) < n && i < 400; i++ {
		s := fmt.Sprintf("s%d", i)
		if (c20d2valHash(cty.StringVal(s)) > u) == above {
			out = append(out, s)
		}
	}
	return out
}

func c20d2scenarios(ctx *Ctx) {
	// ---- reading a set must not change it (C20.set_values_writes_nothing / set_values_seeded_counterexample):
	// k unknowns in ONE bucket with spare capacity (3 -> cap 4, 5 -> cap 8) next to j known strings
	for _, above := range []bool{true, false} {
		for _, k := range []int{1, 2, 3, 5} {
			for j := 0; j <= 3; j++ {
				strs := c20d2strings(above, j)
				if len(strs) < j {
					continue
				}
				for _, asValue := range []bool{true, false} {
					s := newScen(ctx, fmt.Sprintf("d2: read a set with %d unknowns in one bucket (lowest=%v) and %d strings (value=%v)", k, above, j, asValue))
					var members []int
					for i := 0; i < k; i++ {
						members = append(members, s.unk(i))
					}
					for _, x := range strs {
						members = append(members, s.str(x))
					}
					if asValue {
						g := s.slice(0, members...)
						v := s.v(&c20Op{name: "setVal", a: g})
						for rep := 0; rep < 2; rep++ {
							out := s.g(&c20Op{name: "xvalValues", a: v})
							s.do(&c20Op{name: "setElem", a: out, b: members[0], n: int64(len(members) - 1)})
							s.do(&c20Op{name: "lengthInt", a: v})
						}
						vs := s.g(&c20Op{name: "asValueSet", a: v})
						s.g(&c20Op{name: "xvsValues", a: vs})
						s.v(&c20Op{name: "setValFromValueSet", a: vs})
					} else {
						vs := s.g(&c20Op{name: "newValueSet", s: "string", b: -1})
						for _, m := range members {
							s.do(&c20Op{name: "vsAdd", a: vs, b: m})
						}
						for rep := 0; rep < 2; rep++ {
							out := s.g(&c20Op{name: "xvsValues", a: vs})
							s.do(&c20Op{name: "setElem", a: out, b: members[0], n: 0})
						}
						v := s.v(&c20Op{name: "setValFromValueSet", a: vs})
						s.g(&c20Op{name: "xvalValues", a: v})
						s.do(&c20Op{name: "vsAdd", a: vs, b: s.unk(9)})
						s.g(&c20Op{name: "xvalValues", a: v})
					}
					s.end()
				}
			}
		}
	}
	// ---- the raw Values() of a PathSet: one member (the seeded shape hands out the bucket itself), then more
	{
		s := newScen(ctx, "d2: PathSet inner Values(): write and append to what it returns")
		p0 := s.g(&c20Op{name: "nilPath"})
		pa := s.g(&c20Op{name: "pathGetAttr", a: p0, s: "a"})
		pb := s.g(&c20Op{name: "pathGetAttr", a: p0, s: "b"})
		pc := s.g(&c20Op{name: "pathGetAttr", a: pa, s: "c"})
		ps := s.g(&c20Op{name: "newPathSet"})
		s.g(&c20Op{name: "xpsValues", a: ps})
		s.do(&c20Op{name: "psAdd", a: ps, b: s.g(&c20Op{name: "pathCopy", a: pa})})
		s.g(&c20Op{name: "xpsValues", a: ps})
		s.g(&c20Op{name: "xpsList", a: ps})
		s.do(&c20Op{name: "psAdd", a: ps, b: s.g(&c20Op{name: "pathCopy", a: pb})})
		s.do(&c20Op{name: "psAdd", a: ps, b: s.g(&c20Op{name: "pathCopy", a: pc})})
		s.g(&c20Op{name: "xpsValues", a: ps})
		l := s.g(&c20Op{name: "xpsList", a: ps})
		q := s.g(&c20Op{name: "elemPath", a: l, n: 0})
		s.g(&c20Op{name: "appendStep", a: q, s: "zz"})
		s.do(&c20Op{name: "psHas", a: ps, b: pa})
		s.end()
	}
	// ---- Unify must not write the []Type it is given (C20.unify_keeps_callers_slice / unify_seeded_counterexample)
	for _, viaType := range []bool{true, false} {
		s := newScen(ctx, fmt.Sprintf("d2: Unify(tuple, list) must leave the types it is given alone (TupleElementTypes of a value: %v)", viaType))
		a, b := s.str("a"), s.str("b")
		g := s.slice(0, a, b)
		tup := s.v(&c20Op{name: "tupleVal", a: g})
		lst := s.v(&c20Op{name: "listVal", a: g})
		var tys int
		if viaType {
			g2 := s.slice(0, tup, lst)
			outer := s.v(&c20Op{name: "tupleVal", a: g2})
			tys = s.g(&c20Op{name: "tupleElementTypes", a: outer})
		} else {
			tys = s.g(&c20Op{name: "newTypes", idxs: []int{tup, lst, tup}, prim: []string{"", "", ""}})
			s.v(&c20Op{name: "tupleType", a: tys})
		}
		s.v(&c20Op{name: "xunify", a: tys})
		s.r.step(&c20Op{name: "xunify", a: tys}) // again: applies only if the first call left the types alone
		s.end()
	}
	// ---- UnmarkDeepWithPaths hands out copies (C20.read_entry_points_return_fresh / unmark_seeded_counterexample)
	{
		s := newScen(ctx, "d2: UnmarkDeepWithPaths: write every mark set and path it returns")
		x := s.str("x")
		xm := s.v(&c20Op{name: "mark", a: x, s: "m"})
		one := s.num(1)
		g := s.slice(0, xm, one)
		tup := s.v(&c20Op{name: "tupleVal", a: g})
		top := s.v(&c20Op{name: "mark", a: tup, s: "top"})
		lst := s.v(&c20Op{name: "listVal", a: s.slice(0, top, top)})
		mp := s.v(&c20Op{name: "mapVal", a: s.gomap([]string{"k", "j"}, lst, lst)})
		obj := s.v(&c20Op{name: "objectVal", a: s.gomap([]string{"o"}, mp)})
		for _, v := range []int{xm, top, lst, obj} {
			before := len(s.r.h.gos)
			s.v(&c20Op{name: "xunmarkDeepWithPaths", a: v})
			for i, end := before, len(s.r.h.gos); i < end; i++ {
				switch s.r.h.gos[i].kind {
				case "marks":
					s.do(&c20Op{name: "marksAdd", a: i, s: "zz"})
				case "path":
					if len(s.r.h.gos[i].path) > 0 {
						s.do(&c20Op{name: "setStep", a: i, n: 0, s: "zz"})
					}
					s.g(&c20Op{name: "appendStep", a: i, s: "yy"})
				}
			}
		}
		s.v(&c20Op{name: "xunmarkDeepWithPaths", a: obj})
		s.end()
	}
	// ---- PathSet.Union / Subtract answer a set of their own, also for an empty operand
	// (C20.pathset_union_seeded_counterexample)
	for _, meth := range []string{"xpsUnion", "xpsSubtract"} {
		s := newScen(ctx, "d2: "+meth+" with an empty operand, then Add to the result")
		p0 := s.g(&c20Op{name: "nilPath"})
		pa := s.g(&c20Op{name: "pathGetAttr", a: p0, s: "a"})
		pab := s.g(&c20Op{name: "pathGetAttr", a: pa, s: "b"})
		pc := s.g(&c20Op{name: "pathGetAttr", a: p0, s: "c"})
		ps := s.g(&c20Op{name: "newPathSet"})
		e := s.g(&c20Op{name: "newPathSet"})
		s.do(&c20Op{name: "psAdd", a: ps, b: pa})
		s.do(&c20Op{name: "psAdd", a: ps, b: pab})
		r1 := s.g(&c20Op{name: meth, a: ps, b: e})
		s.do(&c20Op{name: "psAdd", a: r1, b: pc})
		r2 := s.g(&c20Op{name: meth, a: e, b: ps})
		s.do(&c20Op{name: "psAdd", a: r2, b: pc})
		r3 := s.g(&c20Op{name: meth, a: ps, b: r1})
		s.do(&c20Op{name: "psRemove", a: r3, b: pa})
		s.do(&c20Op{name: "psRemove", a: ps, b: pab})
		s.g(&c20Op{name: "xpsList", a: r1})
		s.g(&c20Op{name: "xpsList", a: r3})
		s.end()
	}
}

func c20d2(ctx *Ctx) {
	c20d2scenarios(ctx)
	n := ctx.N(500, 12000)
	for i := 0; i < n; i++ {
		c20d2random(ctx, 6+ctx.R.Intn(ctx.N(16, 36)))
	}
}

var _ = strings.Join
