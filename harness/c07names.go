package main

// C07, "capsule-free types survive JSON serialization unchanged" for object types whose attribute names need
// escaping in JSON (or are otherwise unusual).  Added after the seeded change
// C07-object-type-json-attr-names-go-quoted was missed: the generated attribute names were all letters.

import "github.com/zclconf/go-cty/cty"

var c07OddNames = []string{
	"",
	" ",
	"a b",
	"quote\"d",
	"back\\slash",
	"tab\u0009here",
	"new\u000aline",
	"cr\u000dlf",
	"bs\u0008",
	"ff\u000c",
	"del\u007f",
	"bell\u0007",
	"vtab\u000b",
	"nul\u0000",
	"nul\u0000mid",
	"esc\u001b[0m",
	"us\u001f",
	"<&>",
	"\u2028sep",
	"\u2029sep",
	"tag\U000e0001",
	"unassigned\U000e0fff",
	"emoji\U0001f600",
	"bmp-unprintable\ufdd0",
	"\ufeffbom",
	"nonchar\uffff",
	"e\u0301",
	"\u1112\u1161\u11ab",
	"\u212a",
	"\u00ff",
	"\u00e9",
	"h\u00e9llo w\u00f6rld",
	"\u65e5\u672c\u8a9e",
	"/slash",
	"\\u0041",
	"\\x41",
}

func c07OddNameTypes() []cty.Type {
	var out []cty.Type
	for i, n := range c07OddNames {
		m := c07OddNames[(i+1)%len(c07OddNames)]
		obj := cty.Object(map[string]cty.Type{n: cty.String})
		out = append(out,
			obj,
			cty.ObjectWithOptionalAttrs(map[string]cty.Type{n: cty.Number, "a": cty.Bool}, []string{n}),
			cty.ObjectWithOptionalAttrs(map[string]cty.Type{n: cty.Number, m: cty.Bool}, []string{m}),
			cty.List(obj),
			cty.Map(cty.Object(map[string]cty.Type{n: cty.DynamicPseudoType, m: cty.List(cty.String)})),
			cty.Tuple([]cty.Type{obj, cty.Bool}),
			cty.Object(map[string]cty.Type{"o": obj, n: cty.Set(obj)}),
		)
	}
	return out
}

func c07OddNames_run(ctx *Ctx) {
	ts := c07OddNameTypes()
	for i, t := range ts {
		ctx.Tag("oddname")
		c07Single(ctx, t)
		u := ts[(i+7)%len(ts)]
		c07Pair(ctx, t, u, "oddname")
		c07Pair(ctx, t, rebuildTy(t), "oddname-rebuilt")
	}
}
