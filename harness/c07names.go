package main

// C07, "capsule-free types survive JSON serialization unchanged" for object types whose attribute names need
// escaping in JSON (or are otherwise unusual).  Added after the seeded change
// C07-object-type-json-attr-names-go-quoted was missed: the generated attribute names were all letters.

import (
	"strconv"

	"github.com/zclconf/go-cty/cty"
)

func goQuote(s string) string { return strconv.QuoteToASCII(s) }

var c07OddNames = []string{
	"",
	" ",
	"a b",
	"quote\"d",
	"back\\slash",
	"tab\u0009here",
	"new\u000aline",
	"cr\u000dlf",
	"bs\u0008",
	"ff\u000c",
	"del\u007f",
	"bell\u0007",
	"vtab\u000b",
	"nul\u0000",
	"nul\u0000mid",
	"esc\u001b[0m",
	"us\u001f",
	"<&>",
	"\u2028sep",
	"\u2029sep",
	"tag\U000e0001",
	"unassigned\U000e0fff",
	"emoji\U0001f600",
	"bmp-unprintable\ufdd0",
	"\ufeffbom",
	"nonchar\uffff",
	"e\u0301",
	"\u1112\u1161\u11ab",
	"\u212a",
	"\u00ff",
	"\u00e9",
	"h\u00e9llo w\u00f6rld",
	"\u65e5\u672c\u8a9e",
	"/slash",
	"\\u0041",
	"\\x41",
}

func c07OddNameTypes() []cty.Type {
	var out []cty.Type
	for i, n := range c07OddNames {
		m := c07OddNames[(i+1)%len(c07OddNames)]
		obj := cty.Object(map[string]cty.Type{n: cty.String})
		out = append(out,
			obj,
			cty.ObjectWithOptionalAttrs(map[string]cty.Type{n: cty.Number, "a": cty.Bool}, []string{n}),
			cty.ObjectWithOptionalAttrs(map[string]cty.Type{n: cty.Number, m: cty.Bool}, []string{m}),
			cty.List(obj),
			cty.Map(cty.Object(map[string]cty.Type{n: cty.DynamicPseudoType, m: cty.List(cty.String)})),
			cty.Tuple([]cty.Type{obj, cty.Bool}),
			cty.Object(map[string]cty.Type{"o": obj, n: cty.Set(obj)}),
		)
	}
	return out
}

// c07OptionalSpellings: an optional attribute named in ANY spelling is the attribute of the normalised
// name (cty normalises attribute names to NFC): the type equals the one built from the normalised
// spelling, differs from the type without optional attributes, loses the annotation when stripped, and
// its optional set names declared attributes only.  (A seeded change stored the caller's raw spelling in
// the optional set: the correspondence saw it, no predicate did.)
func c07OptionalSpellings(ctx *Ctx) {
	for _, n := range c07OddNames {
		nn := cty.NormalizeString(n)
		atys := map[string]cty.Type{n: cty.Number, "a": cty.Bool}
		if nn == "a" {
			continue
		}
		var raw, nfc, plain cty.Type
		if p, _ := try(func() {
			raw = cty.ObjectWithOptionalAttrs(atys, []string{n})
			nfc = cty.ObjectWithOptionalAttrs(map[string]cty.Type{nn: cty.Number, "a": cty.Bool}, []string{nn})
			plain = cty.Object(atys)
		}); p {
			continue
		}
		ctx.Eval("optional-spelling "+encStr(n), n != nn)
		ctx.Tag("optional-spelling")
		fail := func(sig, what string) {
			ctx.Fail(Failure{Site: "optional-names", Sig: sig, What: what, Input: "(O-opt " + encStr(n) + ")",
				GoLit: "cty.ObjectWithOptionalAttrs(map[string]cty.Type{" + goQuote(n) + ": cty.Number, \"a\": cty.Bool}, []string{" + goQuote(n) + "})", Outcome: encTy(raw)})
		}
		switch {
		case !raw.Equals(nfc) || !nfc.Equals(raw):
			fail("spelling-changes-the-type", "an object type whose optional attribute is named in a non-normalised spelling does not equal the type built from the normalised spelling")
		case raw.Equals(plain):
			fail("optional-annotation-lost", "an object type with an optional attribute equals the type without optional attributes")
		case !raw.WithoutOptionalAttributesDeep().Equals(plain) || raw.WithoutOptionalAttributesDeep().Equals(raw):
			fail("strip-does-not-strip", "WithoutOptionalAttributesDeep does not give the plain object type")
		case !raw.AttributeOptional(nn):
			fail("optional-attribute-not-optional", "the attribute named optional is not reported as optional")
		default:
			for k := range raw.OptionalAttributes() {
				if !raw.HasAttribute(k) {
					fail("optional-set-names-undeclared-attribute", "OptionalAttributes names an attribute the type does not declare")
				}
			}
		}
	}
}

func c07OddNames_run(ctx *Ctx) {
	c07OptionalSpellings(ctx)
	ts := c07OddNameTypes()
	for i, t := range ts {
		ctx.Tag("oddname")
		c07Single(ctx, t)
		u := ts[(i+7)%len(ts)]
		c07Pair(ctx, t, u, "oddname")
		c07Pair(ctx, t, rebuildTy(t), "oddname-rebuilt")
	}
}
