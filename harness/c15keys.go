package main

// C15 — documents whose object keys differ as written and coincide after NFC normalisation
// ("é" and "é").  The decoders must treat them as ONE key, deterministically: the
// document clause says the implied type is the document's structural type and decoding gives the
// corresponding value — a function of the document, not of Go's map iteration order.
// (unmarshalObject normalises keys since /repo 5aa0ac9; unmarshalMap and impliedObjectType stored
// the raw spelling and left the collision to cty.MapVal / cty.Object, which range over a Go map.)

import (
	"fmt"

	"github.com/zclconf/go-cty/cty"
	ctyjson "github.com/zclconf/go-cty/cty/json"
)

func runC15KeyCollisions(ctx *Ctx) {
	type kc struct {
		doc string
		t   cty.Type // NilType: ImpliedType
	}
	const pre, dec = "\u00e9", "e\u0301" // the JSON escapes: precomposed é, and e + combining acute
	cases := []kc{
		{`{"` + pre + `":1,"` + dec + `":"x"}`, cty.NilType},
		{`{"` + dec + `":true,"` + pre + `":[1]}`, cty.NilType},
		{`{"a":{"` + pre + `":1,"` + dec + `":"x"}}`, cty.NilType},
		{`{"` + pre + `":1,"` + dec + `":2}`, cty.Map(cty.Number)},
		{`{"` + dec + `":"first","` + pre + `":"second","z":"z"}`, cty.Map(cty.String)},
		{`[{"` + pre + `":1,"` + dec + `":2}]`, cty.List(cty.Map(cty.Number))},
		{`{"` + pre + `":1,"` + dec + `":2}`, cty.Object(map[string]cty.Type{"\u00e9": cty.Number})},
		{`{"\u00c5":1,"A\u030a":2,"\u212b":3}`, cty.Map(cty.Number)},
	}
	for _, c := range cases {
		seen := map[string]int{}
		for i := 0; i < 60; i++ {
			var out string
			try(func() {
				if c.t == cty.NilType {
					ty, err := ctyjson.ImpliedType([]byte(c.doc))
					if err != nil {
						out = "err"
					} else {
						out = "ok " + encTy(ty)
					}
				} else {
					v, err := ctyjson.Unmarshal([]byte(c.doc), c.t)
					if err != nil {
						out = "err"
					} else {
						out = "ok " + encVal(v)
					}
				}
			})
			seen[out]++
		}
		dcd := "json.Unmarshal"
		if c.t == cty.NilType {
			dcd = "json.ImpliedType"
		}
		ctx.Eval("keycollision "+c.doc, true)
		ctx.Tag("keycollision:" + dcd)
		if len(seen) > 1 {
			ctx.Fail(Failure{Site: "document", Sig: "nfc-colliding-keys-decoded-by-map-iteration-order:" + dcd,
				What:    dcd + " gives different answers on repeated calls for a document whose keys coincide after NFC normalisation (the result depends on Go's map iteration order)",
				Input:   c.doc,
				GoLit:   fmt.Sprintf("%s([]byte(%q), …) called 60 times", dcd, c.doc),
				Outcome: fmt.Sprintf("%v", seen)})
		}
	}
}
