package main

// C11 — source-derived boundary generator.
//
// For every exported stdlib function whose Type/Impl does arithmetic on a
// caller-controlled number (int conversions through gocty.FromCtyValue,
// AsBigFloat().Int(), slicing, make(), strings.Repeat, loops bounded by an
// argument) the table c11NumSites names the argument, its role and the source
// expression it feeds.  c11ApplyBoundaries replaces such arguments, AFTER the
// other arguments have been generated, by boundary values relative to the
// lengths the source compares them with: 0, -1, 1, len, len±1, -len, MaxInt32±1,
// MaxInt64(+1), MinInt64(-1), 2^64±1, fractions, ±inf, ±1e30, -0, numbers held at a
// low precision.  Every draw is tagged `num:<fn>:<arg>:<role>=<label>`, so the
// distribution in the evidence is the per-function table of interesting numbers.
//
// Arguments that drive an allocation (indent's space count, format's widths,
// the product of setproduct's lengths) are capped at c11AllocCap in generated
// inputs; what lies beyond the cap is NOT run (tag `alloc-driver-not-run:…`)
// except for the fixed witnesses of c11AllocWitnesses, whose requested size
// exceeds what the Go runtime can address, so that makeslice panics at once
// without allocating.

import (
	"fmt"
	"math"
	"math/big"
	"math/rand"
	"strings"

	"github.com/zclconf/go-cty/cty"
	"github.com/zclconf/go-cty/cty/function"
	"github.com/zclconf/go-cty/cty/function/stdlib"
)

const c11AllocCap = 1000000

type c11NumSite struct {
	arg   int    // argument index; -1 = every (variadic) argument
	role  string // index | offset | length | count | base | float | step | alloc
	src   string // the source expression(s) the number reaches
	ref   int    // index of the argument whose length the number is compared with (-1: none)
	alloc bool   // drives an allocation: capped at c11AllocCap
}

var c11NumSites = map[string][]c11NumSite{
	"ElementFunc":    {{1, "index", "collection.go Type: index % len(etys); etys[index]  Impl: index % l; input.Index(index)", 0, false}},
	"IndexFunc":      {{1, "index", "collection.go Type: gocty int; idx >= len(etys) || idx < 0; etys[idx]  Impl: Value.Index", 0, false}},
	"HasIndexFunc":   {{1, "index", "collection.go Impl: Value.HasIndex (int64 conversion, length comparison)", 0, false}},
	"SliceFunc":      {{1, "offset", "collection.go sliceIndexes: startIndex < 0, > length, > endIndex; TupleElementTypes()[start:end]; AsValueSlice()[start:end]", 0, false}, {2, "offset", "collection.go sliceIndexes: endIndex < 0, > length", 0, false}},
	"ChunklistFunc":  {{1, "count", "collection.go Impl: size < 0; (i+1)%size", 0, false}},
	"SubstrFunc":     {{1, "offset", "string.go Impl: offset += totalLen; seek loop pos == offset; sub[i:]", 0, false}, {2, "length", "string.go Impl: length == 0, < 0; pos == length; sub[:i]", 0, false}},
	"BytesSliceFunc": {{1, "offset", "bytes.go Impl: offset > len(buf); (*bufPtr)[offset:offset+length]", 0, false}, {2, "length", "bytes.go Impl: length > len(buf)-offset", 0, false}},
	"IndentFunc":     {{0, "alloc", "string.go Impl: strings.Repeat(\" \", spaces) — only when the string has a line break and the result stays within MaxInt32 bytes (since /repo d4d90b0)", 1, true}},
	"ParseIntFunc":   {{1, "base", "number.go Impl: base < 2 || base > 62; big.Int.SetString(numstr, base)", -1, false}},
	"RangeFunc":      {{-1, "step", "sequence.go Impl: loop num.Add(step) bounded by 1024 values; step == 0, ±inf", -1, false}},
	"LogFunc":        {{-1, "float", "number.go Impl: gocty float64; math.Log(num)/math.Log(base); NaN check", -1, false}},
	"PowFunc":        {{-1, "float", "number.go Impl: gocty float64; math.Pow; NaN check", -1, false}},
	"IntFunc":        {{0, "float", "number.go Impl: bf.IsInf; bf.Int(nil) (as many bits as the exponent says)", -1, false}},
	"CeilFunc":       {{0, "float", "number.go Impl: f.Int(nil); i.Add(i, 1); f.SetInt(i)", -1, false}},
	"FloorFunc":      {{0, "float", "number.go Impl: f.Int(nil); i.Sub(i, 1)", -1, false}},
	"SignumFunc":     {{0, "float", "number.go Impl: AsBigFloat().Sign()", -1, false}},
	"AbsoluteFunc":   {{0, "float", "Value.Absolute", -1, false}},
	"NegateFunc":     {{0, "float", "Value.Negate", -1, false}},
	"AddFunc":        {{-1, "float", "Value.Add: big.ErrNaN on inf + -inf (recovered in Impl)", -1, false}},
	"SubtractFunc":   {{-1, "float", "Value.Subtract: big.ErrNaN on inf - inf", -1, false}},
	"MultiplyFunc":   {{-1, "float", "Value.Multiply: big.ErrNaN on 0 * inf", -1, false}},
	"DivideFunc":     {{-1, "float", "Value.Divide: x/0, 0/0, inf/inf", -1, false}},
	"ModuloFunc":     {{-1, "float", "Value.Modulo: x%0, inf%x, x%inf; big.Float.Int of the quotient", -1, false}},
	"MinFunc":        {{-1, "float", "number.go Impl: LessThan against +inf", -1, false}},
	"MaxFunc":        {{-1, "float", "number.go Impl: GreaterThan against -inf", -1, false}},
	"GreaterThanFunc":          {{-1, "float", "Value.GreaterThan", -1, false}},
	"GreaterThanOrEqualToFunc": {{-1, "float", "Value.GreaterThanOrEqualTo", -1, false}},
	"LessThanFunc":             {{-1, "float", "Value.LessThan", -1, false}},
	"LessThanOrEqualToFunc":    {{-1, "float", "Value.LessThanOrEqualTo", -1, false}},
}

// functions whose string / list arguments carry numbers: handled by their own generators below
var c11CustomSites = map[string]string{
	"FormatFunc":     "format.go/format_fsm.go: verb.Width, verb.Prec and the argument number through formatArgNumAppendDigit (saturating); width/precision > 10^6 refused (since /repo 84cbc5e); args[argIdx]; formatPadWidth: strings.Repeat(pad, Width-len) [alloc]; str[:pos] by precision; fmt.Sprintf(raw verb, big.Int/big.Float)",
	"FormatListFunc": "format.go: as format, per element; lists of one length",
	"SetProductFunc": "collection.go Impl: total *= arg.LengthInt() guarded by maxTotal = MaxInt32/len(args) (since /repo 490ecb9); make([][]cty.Value, total) [alloc]; thresholds argMaxLen > 1024, maxLength > 2048, maxLength < 0",
	"FormatDateFunc": "datetime_rfc3339.go: s[0:4] … s[17:19], s[19:], str[len(str)-len(\"07:00\"):] after time.Parse accepted what the strict parser refused; datetime.go: tok[1:len(tok)-1], m.String()[:3]",
	"TimeAddFunc":    "datetime.go: time.ParseDuration; ts.Add(duration) (int64 nanoseconds, saturating)",
	"ZipmapFunc":     "collection.go: len(keysRaw) != len(valueTypesRaw); keys.LengthInt() != values.LengthInt(); values.Index(i)",
}

func c11BigInt(s string) cty.Value {
	z, _ := new(big.Int).SetString(s, 10)
	return cty.NumberVal(new(big.Float).SetPrec(512).SetInt(z))
}

type c11B struct {
	label string
	v     cty.Value
}

// c11IntBoundaries: whole numbers around the reference length L and around the
// edges of the Go integer types the source converts to.
func c11IntBoundaries(L int64) []c11B {
	n := cty.NumberIntVal
	return []c11B{
		{"0", n(0)}, {"-1", n(-1)}, {"1", n(1)}, {"2", n(2)},
		{"len", n(L)}, {"len-1", n(L - 1)}, {"len+1", n(L + 1)}, {"-len", n(-L)}, {"-len-1", n(-L - 1)}, {"-len+1", n(-L + 1)}, {"2len", n(2 * L)}, {"2len+1", n(2*L + 1)},
		{"maxint32", n(math.MaxInt32)}, {"maxint32+1", n(math.MaxInt32 + 1)}, {"minint32", n(math.MinInt32)}, {"minint32-1", n(math.MinInt32 - 1)},
		{"maxuint32+1", n(math.MaxUint32 + 1)},
		{"maxint64", n(math.MaxInt64)}, {"maxint64-1", n(math.MaxInt64 - 1)}, {"maxint64+1", c11BigInt("9223372036854775808")},
		{"minint64", n(math.MinInt64)}, {"minint64+1", n(math.MinInt64 + 1)}, {"minint64-1", c11BigInt("-9223372036854775809")},
		{"2^64-1", cty.NumberUIntVal(math.MaxUint64)}, {"2^64", c11BigInt("18446744073709551616")}, {"2^64+1", c11BigInt("18446744073709551617")},
		{"2^53+1", n(1<<53 + 1)},
	}
}

// c11InDomain: the subset that stays inside (or right at the edge of) the intended domain
var c11InDomain = map[string]bool{"0": true, "-1": true, "1": true, "2": true, "len": true, "len-1": true, "len+1": true, "-len": true, "-len-1": true, "-len+1": true, "2len": true, "2len+1": true}

func c11NonIntBoundaries(L int64) []c11B {
	lowprec := cty.NumberVal(new(big.Float).SetPrec(8).SetInt64(L))
	lenHalf := cty.NumberVal(new(big.Float).SetPrec(512).Add(new(big.Float).SetInt64(L), big.NewFloat(0.5)))
	negZero := cty.NumberVal(new(big.Float).Neg(new(big.Float).SetInt64(0)))
	return []c11B{
		{"0.5", cty.NumberFloatVal(0.5)}, {"-0.5", cty.NumberFloatVal(-0.5)}, {"len+0.5", lenHalf}, {"1e-30", cty.MustParseNumberVal("1e-30")},
		{"0.1dec", cty.MustParseNumberVal("0.1")}, {"1-1e-30", cty.MustParseNumberVal("0.999999999999999999999999999999")},
		{"+inf", cty.PositiveInfinity}, {"-inf", cty.NegativeInfinity}, {"1e30", cty.MustParseNumberVal("1e30")}, {"-1e30", cty.MustParseNumberVal("-1e30")},
		{"-0", negZero}, {"len@8bit", lowprec}, {"maxfloat64", cty.NumberFloatVal(math.MaxFloat64)}, {"1e309", cty.MustParseNumberVal("1e309")}, {"-1e309", cty.MustParseNumberVal("-1e309")},
		{"1e-400", cty.MustParseNumberVal("1e-400")}, {"denormal", cty.NumberFloatVal(math.SmallestNonzeroFloat64)},
	}
}

// c11RefLen: the length the source compares the number with
func c11RefLen(fn string, v cty.Value) int64 {
	u, _ := v.Unmark()
	if u.IsNull() || !u.IsKnown() {
		if u.Type().IsTupleType() {
			return int64(u.Type().Length())
		}
		return 3
	}
	ty := u.Type()
	switch {
	case ty == cty.String:
		if fn == "SubstrFunc" {
			return int64(c11Graphemes(u.AsString()))
		}
		return int64(strings.Count(u.AsString(), "\n"))
	case ty == stdlib.Bytes:
		return int64(len(*(u.EncapsulatedValue().(*[]byte))))
	case ty.IsListType() || ty.IsSetType() || ty.IsMapType() || ty.IsTupleType() || ty.IsObjectType():
		return int64(u.LengthInt())
	}
	return 3
}

func c11Graphemes(s string) int {
	v, err := stdlib.Strlen(cty.StringVal(s))
	if err != nil {
		return len(s)
	}
	f, _ := v.AsBigFloat().Int64()
	return int(f)
}

func c11ParamAt(f function.Function, i int) *function.Parameter {
	ps := f.Params()
	if i < len(ps) {
		return &ps[i]
	}
	return f.VarParam()
}

func c11DrawNumber(ctx *Ctx, fn string, i int, site c11NumSite, L int64, inject bool, p *function.Parameter) cty.Value {
	r := ctx.R
	var pool []c11B
	switch {
	case site.role == "float" || site.role == "step":
		pool = append(c11NonIntBoundaries(L), c11IntBoundaries(L)...)
		pool = append(pool, c11B{"1023", cty.NumberIntVal(1023)}, c11B{"1024", cty.NumberIntVal(1024)}, c11B{"1025", cty.NumberIntVal(1025)}, c11B{"10", cty.NumberIntVal(10)})
	case site.role == "base":
		pool = c11IntBoundaries(36)
		for _, b := range []int64{2, 10, 16, 35, 37, 61, 62, 63, 64} {
			pool = append(pool, c11B{fmt.Sprint(b), cty.NumberIntVal(b)})
		}
		pool = append(pool, c11NonIntBoundaries(36)...)
	default:
		pool = c11IntBoundaries(L)
		if inject {
			pool = append(pool, c11NonIntBoundaries(L)...)
		}
	}
	if !inject {
		var in []c11B
		for _, b := range pool {
			if c11InDomain[b.label] {
				in = append(in, b)
			}
		}
		if len(in) > 0 && site.role != "float" && site.role != "step" {
			pool = in
		}
	}
	b := pool[r.Intn(len(pool))]
	if site.alloc {
		// never run an allocation of more than the cap (an infinity is refused by the int conversion)
		if f := b.v.AsBigFloat(); !f.IsInf() && f.Cmp(big.NewFloat(c11AllocCap)) > 0 {
			ctx.Tag("alloc-driver-not-run:" + fn + ":" + fmt.Sprint(i) + "=" + b.label)
			b = c11B{"cap", cty.NumberIntVal(c11AllocCap)}
			if r.Intn(8) != 0 {
				b = c11B{"small", cty.NumberIntVal(int64(r.Intn(300)))}
			}
		}
	}
	ctx.Tag("num:" + fn + ":" + fmt.Sprint(i) + ":" + site.role + "=" + b.label)
	v := b.v
	if inject && p != nil && p.AllowMarked && r.Intn(8) == 0 {
		v = v.Mark(markNames[r.Intn(len(markNames))])
	}
	return v
}

// c11ApplyBoundaries rewrites the caller-controlled numbers of an argument list
// (generated by c11GenArg) with boundary values; the other arguments stay.
func c11ApplyBoundaries(ctx *Ctx, fn c11Fn, args []cty.Value, inject bool) []cty.Value {
	r := ctx.R
	switch fn.name {
	case "FormatFunc", "FormatListFunc":
		if len(args) > 0 && r.Intn(2) == 0 {
			args[0] = cty.StringVal(c11GenFormat(ctx, fn.name, args[1:]))
			if fn.name == "FormatListFunc" && r.Intn(2) == 0 {
				c11EqualiseLists(ctx, args[1:])
			}
		}
		return args
	case "SetProductFunc":
		if r.Intn(3) == 0 {
			return c11GenSetProduct(ctx, inject)
		}
		return args
	case "FormatDateFunc":
		if len(args) == 2 && r.Intn(2) == 0 {
			if r.Intn(2) == 0 {
				args[0] = cty.StringVal(c11GenDateFormat(r))
			}
			args[1] = cty.StringVal(c11MutTimestamp(ctx))
		}
		return args
	case "TimeAddFunc":
		if len(args) == 2 && r.Intn(2) == 0 {
			args[0] = cty.StringVal(c11MutTimestamp(ctx))
			if r.Intn(2) == 0 {
				args[1] = cty.StringVal(c11Durations[r.Intn(len(c11Durations))])
			}
		}
		return args
	case "ZipmapFunc":
		if len(args) == 2 && r.Intn(2) == 0 {
			c11EqualiseLists(ctx, args)
		}
		return args
	}
	sites, ok := c11NumSites[fn.name]
	if !ok || r.Intn(5) < 2 {
		return args
	}
	for _, s := range sites {
		for i := range args {
			if s.arg != -1 && s.arg != i {
				continue
			}
			p := c11ParamAt(fn.f, i)
			if p == nil || (p.Type != cty.Number && p.Type != cty.DynamicPseudoType) {
				continue
			}
			if r.Intn(4) == 0 {
				continue // keep what the general generator drew (nulls, unknowns, other types)
			}
			L := int64(3)
			if s.ref >= 0 && s.ref < len(args) && s.ref != i {
				L = c11RefLen(fn.name, args[s.ref])
			}
			if fn.name == "IndexFunc" || fn.name == "HasIndexFunc" {
				// maps take string keys: leave those alone
				if u, _ := args[0].Unmark(); u.Type().IsMapType() || u.Type().IsObjectType() {
					continue
				}
			}
			args[i] = c11DrawNumber(ctx, fn.name, i, s, L, inject, p)
		}
	}
	if fn.name == "RangeFunc" && len(args) >= 2 && r.Intn(2) == 0 {
		// start/end/step whose quotient sits at the 1024-value limit
		k := []int64{1023, 1024, 1025}[r.Intn(3)]
		st := []string{"1", "-1", "0.5", "1e-30", "3", "1e30", "0.1"}[r.Intn(7)]
		step := cty.MustParseNumberVal(st)
		start := []cty.Value{cty.NumberIntVal(0), cty.NumberIntVal(-5), cty.MustParseNumberVal("1e30"), cty.MustParseNumberVal("0.1")}[r.Intn(4)]
		end := start.Add(step.Multiply(cty.NumberIntVal(k)))
		ctx.Tag(fmt.Sprintf("num:RangeFunc:span=%d*%s", k, st))
		args[0], args[1] = start, end
		if len(args) >= 3 {
			args[2] = step
		}
	}
	return args
}

// c11EqualiseLists gives the sequence arguments one length (±1 now and then), so that
// zipmap / formatlist get past their length comparison
func c11EqualiseLists(ctx *Ctx, args []cty.Value) {
	r := ctx.R
	n := r.Intn(4)
	for i, a := range args {
		u, marks := a.Unmark()
		ty := u.Type()
		if u.IsNull() || !u.IsKnown() || !(ty.IsListType() || ty.IsTupleType()) {
			continue
		}
		k := n
		if r.Intn(6) == 0 {
			k = n + r.Intn(3) - 1
		}
		if k < 0 {
			k = 0
		}
		ctx.Tag(fmt.Sprintf("lists-equalised:len=%d", k))
		vs := u.AsValueSlice()
		for len(vs) < k {
			if ty.IsListType() {
				vs = append(vs, genVal(r, ty.ElementType(), 1, ValOpts{Null: true, Unknown: r.Intn(4) == 0, Marks: r.Intn(4) == 0, NoInf: true}))
			} else {
				vs = append(vs, genVal(r, cty.String, 1, ValOpts{NoInf: true}))
			}
		}
		vs = vs[:k]
		var nv cty.Value
		switch {
		case ty.IsTupleType():
			nv = cty.TupleVal(vs)
		case len(vs) == 0:
			nv = cty.ListValEmpty(ty.ElementType())
		default:
			if !cty.CanListVal(vs) {
				continue
			}
			nv = cty.ListVal(vs)
		}
		args[i] = nv.WithMarks(marks)
	}
}

// ---------------------------------------------------------------- format strings

var c11WidthLits = []string{"0", "1", "2", "3", "5", "10", "64", "100", "999999", "1000000", "1000001", "2147483647", "2147483648", "4294967296",
	"9223372036854775807", "9223372036854775808", "18446744073709551615", "18446744073709551616", "18446744073709551617", "18446744073709551621",
	"99999999999999999999999999999", "00", "007"}

// c11GoWrap replays `n = 10*n + d` in Go int arithmetic (wrapping), as format_fsm.go does for widths and precisions
func c11GoWrap(lit string) int64 {
	var n int64
	for _, c := range lit {
		n = 10*n + int64(c-'0')
	}
	return n
}

// c11GenFormat builds a format string of 0-3 verbs with flags, widths, precisions and explicit
// argument numbers drawn from boundary literals.  A width that reaches formatPadWidth's
// strings.Repeat (verbs v, s, q) is kept only when its wrapped value is at most c11AllocCap.
func c11GenFormat(ctx *Ctx, fn string, rest []cty.Value) string {
	r := ctx.R
	var sb strings.Builder
	nv := r.Intn(4)
	for k := 0; k < nv; k++ {
		if r.Intn(3) == 0 {
			sb.WriteString([]string{"a", "é", " ", "%%", "x=", "\n"}[r.Intn(6)])
		}
		verb := "vtbdoxXeEfgGsq"[r.Intn(14)]
		if r.Intn(20) == 0 {
			verb = "c*!z%[]. "[r.Intn(9)]
		}
		sb.WriteByte('%')
		for _, fl := range "+-# 0" {
			if r.Intn(5) == 0 {
				sb.WriteRune(fl)
			}
		}
		idx := ""
		if r.Intn(3) == 0 {
			n := len(rest)
			lits := []string{"0", "1", "2", fmt.Sprint(n), fmt.Sprint(n + 1), fmt.Sprint(n - 1), "2147483647", "2147483648", "4294967297", "9223372036854775807", "9223372036854775808",
				"18446744073709551615", "18446744073709551616", "18446744073709551617", "-1", "01", ""}
			l := lits[r.Intn(len(lits))]
			ctx.Tag("num:" + fn + ":argnum=" + l)
			idx = "[" + l + "]"
		}
		if idx != "" && r.Intn(4) == 0 {
			sb.WriteString(idx) // wrong place: before width
			idx = ""
		}
		if r.Intn(2) == 0 {
			w := c11WidthLits[r.Intn(len(c11WidthLits))]
			eff := c11GoWrap(w)
			pads := verb == 'v' || verb == 's' || verb == 'q'
			switch {
			case pads && eff > c11AllocCap:
				ctx.Tag("alloc-driver-not-run:" + fn + ":width=" + w)
				w = []string{"0", "1", "5", "64"}[r.Intn(4)]
			case eff >= 999999 && r.Intn(10) != 0:
				w = "12" // the megabyte paddings only now and then
			}
			ctx.Tag("num:" + fn + ":width=" + w)
			sb.WriteString(w)
		}
		if r.Intn(3) == 0 {
			p := c11WidthLits[r.Intn(len(c11WidthLits))]
			if eff := c11GoWrap(p); eff >= 999999 && eff <= 1000001 && r.Intn(10) != 0 {
				p = "3"
			}
			if r.Intn(12) == 0 {
				p = ""
			}
			ctx.Tag("num:" + fn + ":prec=" + p)
			sb.WriteString("." + p)
		}
		sb.WriteString(idx)
		sb.WriteByte(verb)
	}
	return sb.String()
}

// ---------------------------------------------------------------- setproduct

func c11StrList(n int) cty.Value {
	if n == 0 {
		return cty.ListValEmpty(cty.String)
	}
	vs := make([]cty.Value, n)
	for i := range vs {
		vs[i] = cty.StringVal(fmt.Sprint(i))
	}
	return cty.ListVal(vs)
}

// c11GenSetProduct: known lists/sets/tuples whose lengths multiply to at most 10^4 and unknown
// collections whose refined length bounds sit at the thresholds the source tests (1024, 2048, overflow)
func c11GenSetProduct(ctx *Ctx, inject bool) []cty.Value {
	r := ctx.R
	n := 2 + r.Intn(3)
	args := make([]cty.Value, n)
	total := 1
	for i := range args {
		if inject && r.Intn(3) == 0 {
			b := []int{0, 1, 2, 3, 1023, 1024, 1025, 2047, 2048, 2049, math.MaxInt32, math.MaxInt64}[r.Intn(12)]
			ty := cty.List(cty.String)
			if r.Intn(3) == 0 {
				ty = cty.Set(cty.Number)
			}
			bld := cty.UnknownVal(ty).Refine().CollectionLengthUpperBound(b)
			lbl := fmt.Sprintf("unknown-maxlen=%d", b)
			if r.Intn(3) == 0 && b > 0 {
				lo := []int{0, 1, b - 1, b}[r.Intn(4)]
				bld = bld.CollectionLengthLowerBound(lo)
				lbl += fmt.Sprintf(",minlen=%d", lo)
			}
			ctx.Tag("num:SetProductFunc:" + lbl)
			args[i] = bld.NewValue()
			continue
		}
		l := []int{0, 1, 1, 2, 2, 3, 7, 10, 100}[r.Intn(9)]
		if total*l > 10000 {
			ctx.Tag("alloc-driver-not-run:SetProductFunc:product>10^4")
			l = 1
		}
		if l > 0 {
			total *= l
		}
		ctx.Tag(fmt.Sprintf("num:SetProductFunc:len=%d", l))
		v := c11StrList(l)
		switch r.Intn(4) {
		case 0:
			if l > 0 {
				v = cty.SetVal(v.AsValueSlice())
			} else {
				v = cty.SetValEmpty(cty.String)
			}
		case 1:
			if l <= 3 {
				v = cty.TupleVal(v.AsValueSlice())
			}
		}
		if inject && r.Intn(8) == 0 {
			v = v.Mark(markNames[r.Intn(len(markNames))])
		}
		args[i] = v
	}
	return args
}

// ---------------------------------------------------------------- timestamps, durations

var c11Stamps = []string{"2006-01-02T15:04:05Z", "2006-01-02T15:04:05+07:00", "2006-01-02T15:04:05.999999999-07:00", "2000-02-29T23:59:59Z", "1900-02-28T00:00:00Z",
	"0000-01-01T00:00:00Z", "9999-12-31T23:59:59Z", "2006-01-02T15:04:05.5Z", "2006-12-31T23:59:59+23:59"}

var c11StampSubst = [][2]string{{"T15", "T5"}, {"T15", "T24"}, {"T15", "T1"}, {":05", ":60"}, {":05", ":5"}, {":04", ":4"}, {":04", ":60"}, {"-01-", "-13-"}, {"-01-", "-00-"}, {"-01-", "-1-"},
	{"-02T", "-32T"}, {"-02T", "-00T"}, {"-02T", "-2T"}, {"02-29", "02-30"}, {"02-28", "02-29"}, {"2006", "06"}, {"2006", "12006"}, {"Z", "z"}, {"T", "t"}, {"T", " "}, {"Z", ""}, {"Z", "ZZ"},
	{"+07:00", "+24:00"}, {"+07:00", "+07:60"}, {"+07:00", "+7:00"}, {"+07:00", "+0700"}, {"+07:00", "+07"}, {"-07:00", "-24:00"}, {"+23:59", "+23:60"}, {".5", ",5"}, {".5", "."}, {".5", ".1234567890123"},
	{".999999999", ",999999999"}, {"05Z", "05.Z"}, {"05Z", "05,1Z"}, {"05Z", "05+99:99"}, {"05Z", "05-00:00"}}

func c11MutTimestamp(ctx *Ctx) string {
	r := ctx.R
	s := c11Stamps[r.Intn(len(c11Stamps))]
	for k := r.Intn(3); k > 0; k-- {
		switch r.Intn(5) {
		case 0, 1:
			sub := c11StampSubst[r.Intn(len(c11StampSubst))]
			if strings.Contains(s, sub[0]) {
				s = strings.Replace(s, sub[0], sub[1], 1)
				ctx.Tag("stamp-mutation:" + sub[0] + "->" + sub[1])
			}
		case 2:
			if len(s) > 0 {
				i := r.Intn(len(s))
				s = s[:i] + string("0123456789-:TZ+.,tz é"[r.Intn(21)]) + s[i+1:]
				ctx.Tag("stamp-mutation:replace-byte")
			}
		case 3:
			if len(s) > 0 {
				i := r.Intn(len(s) + 1)
				s = s[:i]
				ctx.Tag(fmt.Sprintf("stamp-mutation:truncate@%d", i))
			}
		case 4:
			if len(s) > 0 {
				i := r.Intn(len(s))
				s = s[:i] + s[i+1:]
				ctx.Tag("stamp-mutation:delete-byte")
			}
		}
	}
	return strings.ToValidUTF8(s, "")
}

func c11GenDateFormat(r *rand.Rand) string {
	var sb strings.Builder
	for k := r.Intn(5); k >= 0; k-- {
		switch r.Intn(6) {
		case 0:
			sb.WriteString([]string{"'", "''", "'a'", "'a''b'", "'a", "a'", "'''", "''''", "'é'", "' '"}[r.Intn(10)])
		case 1:
			sb.WriteString([]string{"-", ":", " ", "/", "é", "1", "\n", "T"}[r.Intn(8)])
		default:
			c := "YMDEhHAamsZyQzd"[r.Intn(15)]
			sb.WriteString(strings.Repeat(string(c), 1+r.Intn(6)))
		}
	}
	return sb.String()
}

var c11Durations = []string{"0", "0s", "1ns", "-1ns", "1h", "-1h", "1.5h", ".5h", "1h30m", "1h-1m", "9223372036854775807ns", "9223372036854775808ns", "-9223372036854775808ns", "-9223372036854775809ns",
	"2562047h47m16.854775807s", "2562047h47m16.854775808s", "2562048h", "-2562047h47m16.854775808s", "106751d", "1e3s", "1µs", "1us", "1 h", "", "h", "1", "+1h", "0.000000000000000000000000001h",
	"99999999999999999999h", "1.7976931348623157e308h", "87600000h"}

// ---------------------------------------------------------------- fixed witnesses of allocation drivers

type c11Witness struct {
	fn    string
	cause string
	args  func() []cty.Value
}

// Requests beyond what the runtime can address: makeslice panics before allocating anything.
var c11AllocWitnesses = []c11Witness{
	{"IndentFunc", "spaces-beyond-address-space", func() []cty.Value { return []cty.Value{cty.NumberIntVal(1 << 62), cty.StringVal("a")} }},
	{"FormatFunc", "width-beyond-address-space", func() []cty.Value {
		return []cty.Value{cty.StringVal("%9223372036854775807s"), cty.StringVal("a")}
	}},
	{"FormatFunc", "width-beyond-address-space", func() []cty.Value { return []cty.Value{cty.StringVal("%1125899906842624v"), cty.NumberIntVal(1)} }},
	{"FormatListFunc", "width-beyond-address-space", func() []cty.Value {
		return []cty.Value{cty.StringVal("%-9223372036854775807q"), cty.ListVal([]cty.Value{cty.StringVal("a")})}
	}},
	{"SetProductFunc", "product-of-lengths-overflows", func() []cty.Value {
		as := make([]cty.Value, 7)
		for i := range as {
			as[i] = c11StrList(512)
		}
		return as // 512^7 = 2^63
	}},
	{"SetProductFunc", "product-of-lengths-overflows", func() []cty.Value {
		as := make([]cty.Value, 6)
		for i := range as {
			as[i] = c11StrList(1024)
		}
		return as // 2^60 elements
	}},
}

// c11SigRefine appends the root cause to the signature of a failure whose argument list
// is one of the allocation drivers' (so that a recorded finding covers that cause only).
func c11SigRefine(fn string, args []cty.Value, sig string) string {
	if !strings.Contains(sig, "makeslice") {
		return sig
	}
	switch fn {
	case "IndentFunc":
		if len(args) == 2 {
			if u, _ := args[0].Unmark(); u.Type() == cty.Number && u.IsKnown() && !u.IsNull() && u.GreaterThan(cty.NumberIntVal(c11AllocCap)).True() {
				return sig + ":spaces-beyond-address-space"
			}
		}
	case "FormatFunc", "FormatListFunc":
		if len(args) > 0 {
			if u, _ := args[0].Unmark(); u.Type() == cty.String && u.IsKnown() && !u.IsNull() && c11HasHugeWidth(u.AsString()) {
				return sig + ":width-beyond-address-space"
			}
		}
	case "SetProductFunc":
		p := new(big.Int).SetInt64(1)
		for _, a := range args {
			u, _ := a.Unmark()
			if !u.IsKnown() || u.IsNull() || !(u.Type().IsCollectionType() || u.Type().IsTupleType()) {
				return sig
			}
			p.Mul(p, big.NewInt(int64(u.LengthInt())))
		}
		if p.Cmp(big.NewInt(1<<40)) > 0 {
			return sig + ":product-of-lengths-overflows"
		}
	}
	return sig
}

func c11HasHugeWidth(f string) bool {
	run := 0
	for _, c := range f {
		if c >= '0' && c <= '9' {
			run++
			if run >= 13 {
				return true
			}
		} else {
			run = 0
		}
	}
	return false
}

// c11RunWitnesses runs the fixed witnesses first (case 0) and prints the source-derived table.
func c11RunWitnesses(ctx *Ctx, fns []c11Fn) {
	byName := map[string]c11Fn{}
	for _, f := range fns {
		byName[f.name] = f
	}
	for _, w := range c11AllocWitnesses {
		if f, ok := byName[w.fn]; ok {
			ctx.Tag("alloc-witness:" + w.fn + ":" + w.cause)
			c11One(ctx, f, w.args())
		}
	}
	c11AllocCorrespondence(ctx)
	for fn, ss := range c11NumSites {
		for _, s := range ss {
			ctx.Tag(fmt.Sprintf("numsite:%s:arg%d:%s <- %s", fn, s.arg, s.role, s.src))
		}
	}
	for fn, src := range c11CustomSites {
		ctx.Tag("numsite:" + fn + ":custom <- " + src)
	}
}
