package main

// C18, slice d18b: the generator is taken to where the new theorems talk.
//
//   - float32 double-rounding band (C18.float32_refused_iff, float32StoresNearest_counterexample): numbers of more than 53
//     significant bits around the float32 refusal threshold 2^128 - 2^103 and around float32 midpoints.  Judged with the
//     closed form of the theorem: accepted iff |Float64(x)| < 2^128 - 2^103, stored value = float32(Float64(x)).  How
//     often the stored value is NOT the nearest float32 (big.Float.Float32()) is printed as a tag, not as a failure.
//   - the array length rule for every length (C18.array_length_rule): lists and sets of length 0..4 into arrays of
//     length 0..4, directly, behind a pointer and as a struct field.
//   - a null element of a map (C18.map_null_element_is_nil_member): maps with null elements into map[string]*T.
//   - ToCtyValue of a big.Int of any magnitude (C18.bigInt_tocty_exact): |v| up to 2^600.
//
// Every case is also a correspondence case (gocty.fromnum / gocty.fromcty / gocty.tocty).

import (
	"fmt"
	"math"
	"math/big"
	"reflect"
	"strings"

	"github.com/zclconf/go-cty/cty"
	"github.com/zclconf/go-cty/cty/gocty"
)

func d18bPow2(n int) *big.Float {
	return new(big.Float).SetPrec(512).SetMantExp(new(big.Float).SetPrec(512).SetInt64(1), n)
}

func d18bJudgeF32(ctx *Ctx, x *big.Float, class string) {
	rt := c18T(new(float32))
	v := cty.NumberVal(new(big.Float).Copy(x))
	impl, target, _, panicked, why := c18From(v, rt)
	nw, tw := cty.VerifNumWire(x), encGoTy(rt)
	ctx.Add("gocty.fromnum", impl, nw, tw)
	ctx.Eval("f32band "+nw, true)
	lit := fmt.Sprintf("var t float32; err := gocty.FromCtyValue(%s, &t)", c18NumLit(x))
	thr := new(big.Float).SetPrec(512).Sub(d18bPow2(128), d18bPow2(103))
	f64, _ := x.Float64()
	wantOK := x.IsInf() || (!math.IsInf(f64, 0) && new(big.Float).Abs(new(big.Float).SetFloat64(f64)).Cmp(thr) < 0)
	ok := strings.HasPrefix(impl, "ok")
	switch {
	case panicked:
		ctx.Fail(Failure{Site: "float32_refused_iff", Sig: "panic decoding a number into float32", What: "FromCtyValue panicked: " + why, Input: nw + " " + tw, GoLit: lit, Outcome: "panic"})
	case ok != wantOK:
		ctx.Fail(Failure{Site: "float32_refused_iff", Sig: fmt.Sprintf("float32 accepted=%v but |Float64(x)| < 2^128-2^103 is %v", ok, wantOK),
			What: "a finite number is refused by float32 exactly when its float64 rounding is infinite or at least 2^128-2^103", Input: nw + " " + tw, GoLit: lit, Outcome: impl})
	case ok:
		got := float32(target.Elem().Float())
		if got != float32(f64) || math.Signbit(float64(got)) != math.Signbit(f64) {
			ctx.Fail(Failure{Site: "float_ok_iff", Sig: "float32 target does not hold float32(Float64(x))", What: "the stored value is Go's float32 conversion of x.Float64()", Input: nw + " " + tw, GoLit: lit, Outcome: impl})
		}
		if !x.IsInf() {
			if n, _ := x.Float32(); n != got {
				ctx.Tag("f32band:" + class + ":stored-differs-from-nearest-float32(double rounding)")
			} else {
				ctx.Tag("f32band:" + class + ":stored-is-nearest")
			}
		}
	default:
		if n, _ := x.Float32(); !math.IsInf(float64(n), 0) {
			ctx.Tag("f32band:" + class + ":refused-though-Float32()-is-finite(beyond MaxFloat32)")
		} else {
			ctx.Tag("f32band:" + class + ":refused")
		}
	}
}

func runC18D18bFloat32(ctx *Ctx) {
	// the recorded witnesses
	one := new(big.Float).SetPrec(512).SetInt64(1)
	w1 := new(big.Float).SetPrec(512).Add(one, d18bPow2(-24))
	w1.Add(w1, d18bPow2(-60))
	d18bJudgeF32(ctx, w1, "witness")
	d18bJudgeF32(ctx, new(big.Float).SetPrec(512).Neg(w1), "witness")
	thr := new(big.Float).SetPrec(512).Sub(d18bPow2(128), d18bPow2(103))
	w2 := new(big.Float).SetPrec(512).Sub(thr, d18bPow2(74))
	d18bJudgeF32(ctx, w2, "witness")
	d18bJudgeF32(ctx, new(big.Float).SetPrec(512).Sub(w2, one), "witness")
	d18bJudgeF32(ctx, new(big.Float).SetPrec(512).Neg(w2), "witness")
	// around the refusal threshold: thr - d, d = +-2^k +- 2^j
	n := ctx.N(150, 3000)
	for i := 0; i < n; i++ {
		k := 60 + ctx.R.Intn(20) // the float64 half-ulp at 2^127 is 2^74
		d := d18bPow2(k)
		if ctx.R.Intn(2) == 0 {
			d.Add(d, d18bPow2(ctx.R.Intn(k)))
		} else {
			d.Sub(d, d18bPow2(ctx.R.Intn(k)))
		}
		x := new(big.Float).SetPrec(512)
		if ctx.R.Intn(3) == 0 {
			x.Add(thr, d)
		} else {
			x.Sub(thr, d)
		}
		if ctx.R.Intn(2) == 0 {
			x.Neg(x)
		}
		d18bJudgeF32(ctx, x, "threshold")
	}
	// around float32 midpoints: m = f + ulp/2, x = m +- 2^-j below the float64 resolution
	for i := 0; i < n; i++ {
		bits := uint32(ctx.R.Int63()) & 0x7fffffff
		f := math.Float32frombits(bits)
		if math.IsInf(float64(f), 0) || math.IsNaN(float64(f)) || f == 0 {
			continue
		}
		g := math.Nextafter32(f, float32(math.Inf(1)))
		if math.IsInf(float64(g), 0) {
			continue
		}
		m := new(big.Float).SetPrec(512).Add(new(big.Float).SetFloat64(float64(f)), new(big.Float).SetFloat64(float64(g)))
		m.Quo(m, new(big.Float).SetInt64(2))
		_, e := math.Frexp(float64(f))
		tiny := d18bPow2(e - 54 - ctx.R.Intn(40)) // below half a float64 ulp of m
		x := new(big.Float).SetPrec(512)
		if ctx.R.Intn(2) == 0 {
			x.Add(m, tiny)
		} else {
			x.Sub(m, tiny)
		}
		if ctx.R.Intn(4) == 0 {
			x.Neg(x)
		}
		d18bJudgeF32(ctx, x, "midpoint")
	}
}

type d18bArrField struct {
	A [2]string `cty:"a"`
}

func runC18D18bArrays(ctx *Ctx) {
	arrs := []reflect.Type{c18T(new([0]string)), c18T(new([1]string)), c18T(new([2]string)), c18T(new([3]string)), c18T(new([4]string))}
	mk := func(n int) []cty.Value {
		var vs []cty.Value
		for i := 0; i < n; i++ {
			vs = append(vs, cty.StringVal(fmt.Sprintf("e%d", i)))
		}
		return vs
	}
	for l := 0; l <= 4; l++ {
		for _, set := range []bool{false, true} {
			var v cty.Value
			switch {
			case l == 0 && set:
				v = cty.SetValEmpty(cty.String)
			case l == 0:
				v = cty.ListValEmpty(cty.String)
			case set:
				v = cty.SetVal(mk(l))
			default:
				v = cty.ListVal(mk(l))
			}
			for n, at := range arrs {
				for _, rt := range []reflect.Type{at, reflect.PointerTo(at)} {
					impl, target, _, panicked, _ := c18From(v, rt)
					vw, tw := encVal(v), encGoTy(rt)
					c18AddFrom(ctx, impl, vw, tw)
					ctx.Eval("arrlen "+vw+" "+tw, l != n)
					ctx.Tag(fmt.Sprintf("arraylen:%s empty=%v set=%v", map[bool]string{true: "len==n", false: "len!=n"}[l == n], l == 0, set))
					ok := strings.HasPrefix(impl, "ok")
					lit := fmt.Sprintf("var t %s; err := gocty.FromCtyValue(<%s of %d strings>, &t)", rt, map[bool]string{false: "list", true: "set"}[set], l)
					switch {
					case panicked:
						ctx.Fail(Failure{Site: "array_length_rule", Sig: "panic decoding a collection into an array", What: "FromCtyValue panicked", Input: vw + " " + tw, GoLit: lit, Outcome: impl})
					case ok != (l == n):
						ctx.Fail(Failure{Site: "array_length_rule", Sig: fmt.Sprintf("a collection of length %d decoded into an array of length %d: ok=%v", l, n, ok),
							What: "a list or set is decoded into an array only of exactly its length", Input: vw + " " + tw, GoLit: lit, Outcome: impl})
					case ok:
						el := target.Elem()
						if rt.Kind() == reflect.Ptr {
							el = el.Elem()
						}
						for i := 0; i < n; i++ {
							if el.Index(i).String() != fmt.Sprintf("e%d", i) {
								ctx.Fail(Failure{Site: "array_length_rule", Sig: "array member not the decoded element", What: "members in iteration order", Input: vw + " " + tw, GoLit: lit, Outcome: impl})
								break
							}
						}
					}
				}
			}
			// as a struct field ([2]string)
			ov := cty.ObjectVal(map[string]cty.Value{"a": v})
			rt := c18T(new(d18bArrField))
			impl, _, _, panicked, _ := c18From(ov, rt)
			vw, tw := encVal(ov), encGoTy(rt)
			c18AddFrom(ctx, impl, vw, tw)
			ctx.Eval("arrlen-field "+vw, l != 2)
			if panicked || strings.HasPrefix(impl, "ok") != (l == 2) {
				ctx.Fail(Failure{Site: "array_length_rule", Sig: fmt.Sprintf("a collection of length %d decoded into a [2]string field: %s", l, strings.SplitN(impl, " ", 2)[0]),
					What: "a list or set is decoded into an array only of exactly its length", Input: vw + " " + tw, GoLit: "struct{A [2]string `cty:\"a\"`}", Outcome: impl})
			}
		}
	}
}

func runC18D18bMapNulls(ctx *Ctx) {
	keys := []string{"a", "b", "c", "d"}
	for mask := 0; mask < 16; mask++ {
		m := map[string]cty.Value{}
		nulls := 0
		for i, k := range keys {
			if mask&(1<<i) != 0 {
				m[k] = cty.NullVal(cty.String)
				nulls++
			} else {
				m[k] = cty.StringVal("v" + k)
			}
		}
		v := cty.MapVal(m)
		for _, rt := range []reflect.Type{c18T(new(map[string]*string)), c18T(new(*map[string]*string)), c18T(new(map[string]**string))} {
			impl, target, _, panicked, _ := c18From(v, rt)
			vw, tw := encVal(v), encGoTy(rt)
			c18AddFrom(ctx, impl, vw, tw)
			ctx.Eval("mapnull "+vw+" "+tw, nulls > 0)
			ctx.Tag(fmt.Sprintf("mapnull:%d of 4 elements null into %s", nulls, rt))
			lit := fmt.Sprintf("var t %s; err := gocty.FromCtyValue(<map of 4 strings, null mask %04b>, &t)", rt, mask)
			if panicked || !strings.HasPrefix(impl, "ok") {
				ctx.Fail(Failure{Site: "map_null_element_is_nil_member", Sig: "a map with null elements is not decoded into a map of pointers", What: "null decodes to a nil pointer member", Input: vw + " " + tw, GoLit: lit, Outcome: impl})
				continue
			}
			gm := target.Elem()
			if gm.Kind() == reflect.Ptr {
				gm = gm.Elem()
			}
			for i, k := range keys {
				e := gm.MapIndex(reflect.ValueOf(k))
				isNull := mask&(1<<i) != 0
				if !e.IsValid() {
					ctx.Fail(Failure{Site: "map_null_element_is_nil_member", Sig: fmt.Sprintf("key of a %s element missing from the decoded Go map", map[bool]string{true: "null", false: "non-null"}[isNull]),
						What: "the Go map has exactly the keys of the cty map", Input: vw + " " + tw, GoLit: lit, Outcome: impl})
					continue
				}
				// the innermost pointer: nil iff the element is null; the pointers around it are allocated
				inner, outerNil := e, false
				for inner.Type().Elem().Kind() == reflect.Ptr {
					if inner.IsNil() {
						outerNil = true
						break
					}
					inner = inner.Elem()
				}
				switch {
				case outerNil:
					ctx.Fail(Failure{Site: "map_null_element_is_nil_member", Sig: "outer pointer of a map member is nil", What: "only the innermost pointer stands for null", Input: vw + " " + tw, GoLit: lit, Outcome: impl})
				case isNull != inner.IsNil():
					ctx.Fail(Failure{Site: "map_null_element_is_nil_member", Sig: fmt.Sprintf("element null=%v but innermost pointer nil=%v", isNull, inner.IsNil()), What: "null decodes to a nil pointer member, anything else to a non-nil one",
						Input: vw + " " + tw, GoLit: lit, Outcome: impl})
				}
			}
		}
	}
}

func runC18D18bBigInt(ctx *Ctx) {
	n := ctx.N(120, 2000)
	for i := 0; i < n; i++ {
		bitsN := 1 + ctx.R.Intn(600)
		v := new(big.Int).Rand(ctx.R, new(big.Int).Lsh(big.NewInt(1), uint(bitsN)))
		v.SetBit(v, bitsN-1, 1) // exactly bitsN bits
		if ctx.R.Intn(4) != 0 {
			v.SetBit(v, 0, 1) // odd: every bit matters
		}
		if ctx.R.Intn(2) == 0 {
			v.Neg(v)
		}
		for _, ptr := range []bool{false, true} {
			var g reflect.Value
			if ptr {
				g = reflect.ValueOf(new(big.Int).Set(v))
			} else {
				g = reflect.ValueOf(*new(big.Int).Set(v))
			}
			impl, cv, err, panicked := c18To(g, cty.Number)
			ctx.Add("gocty.tocty", impl, encGoVal(g), encTy(cty.Number), "()")
			ctx.Eval(fmt.Sprintf("bigint-exact %s ptr=%v", v.String(), ptr), bitsN > 53)
			cls := "<=53 bits"
			switch {
			case bitsN > 64:
				cls = ">64 bits"
			case bitsN > 53:
				cls = "54..64 bits"
			}
			ctx.Tag("bigint-tocty:" + cls)
			lit := fmt.Sprintf("v, _ := new(big.Int).SetString(%q, 10); gocty.ToCtyValue(v, cty.Number)", v.String())
			if panicked || err != nil {
				ctx.Fail(Failure{Site: "bigInt_tocty_exact", Sig: "ToCtyValue of a big.Int fails", What: "a big.Int converts to the number", Input: v.String(), GoLit: lit, Outcome: impl})
				continue
			}
			back, acc := cv.AsBigFloat().Int(nil)
			if acc != big.Exact || back.Cmp(v) != 0 {
				ctx.Fail(Failure{Site: "bigInt_tocty_exact", Sig: "ToCtyValue of a big.Int is not the integer (rounded)", What: "the number made from a big.Int is exactly the integer, for every magnitude", Input: v.String(), GoLit: lit, Outcome: impl})
			}
			var out big.Int
			if err := gocty.FromCtyValue(cv, &out); err != nil || out.Cmp(v) != 0 {
				ctx.Fail(Failure{Site: "bigInt_tocty_exact", Sig: "big.Int does not round-trip", What: "big.Int -> number -> big.Int is the identity", Input: v.String(), GoLit: lit, Outcome: impl})
			}
		}
	}
}

func runC18D18b(ctx *Ctx) {
	runC18D18bFloat32(ctx)
	runC18D18bArrays(ctx)
	runC18D18bMapNulls(ctx)
	runC18D18bBigInt(ctx)
}
