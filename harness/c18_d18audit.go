package main

// C18, harness items of the audit (audit/audit-C15-C20.md, C18 item 7):
//  * the round-trip known-finding label is chosen by WHAT differed (c18Diff), not by a generator flag;
//  * "ok iff representable" is evaluated on the boundary tables for big.Int, big.Float and
//    numeric targets behind pointers as well, with the stored value checked (runC18NumbersDeep);
//  * the bridge type of arrays / big numbers is obtained from the REAL ImpliedType on a Go type in
//    which arrays are replaced by slices and big numbers by int / float64 (c18Substitute), instead
//    of comparing the model with a harness re-implementation;
//  * non-nil values of unsupported kinds are handed to ToCtyValue (runC18IrregularValues).

import (
	"fmt"
	"math"
	"math/big"
	"reflect"
	"strings"

	"github.com/zclconf/go-cty/cty"
	"github.com/zclconf/go-cty/cty/gocty"
)

// c18Diff compares a Go value with what came back from the round trip and classifies every
// difference: a string / map key that differs only by NFC normalisation; a nil pointer (to a
// pointee that can itself stand for null) that came back non-nil; anything else.
type c18Diff struct {
	nfc, nilLevel, other bool
	first                string
}

func (d *c18Diff) note(kind *bool, path, what string) {
	*kind = true
	if d.first == "" {
		d.first = path + ": " + what
	}
}

func (d *c18Diff) walk(a, b reflect.Value, path string) {
	rt := a.Type()
	if rt == c18BigIntT || rt == c18BigFloatT || rt == c18ValueT {
		if encGoVal(a) != encGoVal(b) {
			d.note(&d.other, path, "special value differs")
		}
		return
	}
	switch rt.Kind() {
	case reflect.String:
		if a.String() != b.String() {
			if cty.NormalizeString(a.String()) == b.String() {
				d.note(&d.nfc, path, "string normalised")
			} else {
				d.note(&d.other, path, "string differs")
			}
		}
	case reflect.Ptr:
		switch {
		case a.IsNil() && b.IsNil():
		case a.IsNil():
			if c18NilableElem(rt.Elem()) {
				d.note(&d.nilLevel, path, "nil pointer came back non-nil")
			} else {
				d.note(&d.other, path, "nil pointer came back non-nil")
			}
		case b.IsNil():
			d.note(&d.other, path, "pointer came back nil")
		default:
			d.walk(a.Elem(), b.Elem(), "*"+path)
		}
	case reflect.Slice:
		if a.IsNil() != b.IsNil() || a.Len() != b.Len() {
			d.note(&d.other, path, "slice nil-ness or length differs")
			return
		}
		fallthrough
	case reflect.Array:
		for i := 0; i < a.Len(); i++ {
			d.walk(a.Index(i), b.Index(i), fmt.Sprintf("%s[%d]", path, i))
		}
	case reflect.Map:
		if a.IsNil() != b.IsNil() {
			d.note(&d.other, path, "map nil-ness differs")
			return
		}
		// group the keys of a by their normal form: cty normalises map keys, so the members of one
		// group collide and Go's map order decides which one survives
		groups := map[string][]reflect.Value{}
		for _, k := range a.MapKeys() {
			nk := cty.NormalizeString(k.String())
			groups[nk] = append(groups[nk], k)
		}
		for nk, ks := range groups {
			bk := b.MapIndex(reflect.ValueOf(nk))
			if !bk.IsValid() {
				d.note(&d.other, path, "map key lost")
				continue
			}
			if len(ks) > 1 || ks[0].String() != nk {
				d.note(&d.nfc, path, "map key normalised")
			}
			var firstSub *c18Diff
			matched := false
			for _, k := range ks {
				sub := &c18Diff{}
				sub.walk(a.MapIndex(k), bk, fmt.Sprintf("%s[%q]", path, k.String()))
				if firstSub == nil {
					firstSub = sub
				}
				if !sub.other {
					d.nfc = d.nfc || sub.nfc
					d.nilLevel = d.nilLevel || sub.nilLevel
					if d.first == "" {
						d.first = sub.first
					}
					matched = true
					break
				}
			}
			if !matched {
				d.note(&d.other, path, firstSub.first)
			}
		}
		if b.Len() > len(groups) {
			d.note(&d.other, path, "map gained keys")
		}
	case reflect.Struct:
		for i := 0; i < rt.NumField(); i++ {
			d.walk(a.Field(i), b.Field(i), path+"."+rt.Field(i).Name)
		}
	case reflect.Float32, reflect.Float64:
		if math.Float64bits(a.Float()) != math.Float64bits(b.Float()) {
			d.note(&d.other, path, "float differs")
		}
	case reflect.Bool:
		if a.Bool() != b.Bool() {
			d.note(&d.other, path, "bool differs")
		}
	case reflect.Int, reflect.Int8, reflect.Int16, reflect.Int32, reflect.Int64:
		if a.Int() != b.Int() {
			d.note(&d.other, path, "integer differs")
		}
	case reflect.Uint, reflect.Uint8, reflect.Uint16, reflect.Uint32, reflect.Uint64:
		if a.Uint() != b.Uint() {
			d.note(&d.other, path, "integer differs")
		}
	default:
		d.note(&d.other, path, "unsupported kind")
	}
}

// c18HasNilToNilable: the Go value holds a nil pointer whose pointee type can itself stand for null
// (pointer, slice, map, array, cty.Value) — the shape of the recorded nil-pointer finding
func c18HasNilToNilable(v reflect.Value) bool {
	rt := v.Type()
	if rt == c18BigIntT || rt == c18BigFloatT || rt == c18ValueT {
		return false
	}
	switch rt.Kind() {
	case reflect.Ptr:
		if v.IsNil() {
			return c18NilableElem(rt.Elem())
		}
		return c18HasNilToNilable(v.Elem())
	case reflect.Slice, reflect.Array:
		for i := 0; i < v.Len(); i++ {
			if c18HasNilToNilable(v.Index(i)) {
				return true
			}
		}
	case reflect.Map:
		for _, k := range v.MapKeys() {
			if c18HasNilToNilable(v.MapIndex(k)) {
				return true
			}
		}
	case reflect.Struct:
		for i := 0; i < rt.NumField(); i++ {
			if c18HasNilToNilable(v.Field(i)) {
				return true
			}
		}
	}
	return false
}

// ---- boundary numbers into big and pointer targets ------------------------------------------

func runC18NumbersDeep(ctx *Ctx) {
	targets := []reflect.Type{c18BigIntT, c18BigFloatT, c18T(new(*big.Int)), c18T(new(**big.Float)), c18T(new(*int8)), c18T(new(**uint16)),
		c18T(new(*int64)), c18T(new(*uint64)), c18T(new(*float32)), c18T(new(**float64))}
	xs := append(c18Boundaries(), c18FloatBoundaries()...)
	for _, rt := range targets {
		depth, base := c18Depth(rt)
		for _, x := range xs {
			v := cty.NumberVal(new(big.Float).Copy(x))
			impl, target, _, _, why := c18From(v, rt)
			nw, tw := cty.VerifNumWire(x), encGoTy(rt)
			ctx.Add("gocty.fromnum", impl, nw, tw)
			ctx.Eval("fromnum "+nw+" "+tw, true)
			verd, _ := c18Verdict(v, rt)
			ctx.Tag("num-deep:" + rt.String() + ":" + verd.String() + ":" + impl[:2])
			c18Judge(ctx, v, rt, impl, why)
			if !strings.HasPrefix(impl, "ok") {
				continue
			}
			// stored value
			lit := fmt.Sprintf("var t %s; err := gocty.FromCtyValue(%s, &t)", rt, c18NumLit(x))
			e := target.Elem()
			bad := ""
			for i := 0; i < depth; i++ {
				if e.IsNil() {
					bad = "nil pointer stored for a non-null number"
					break
				}
				e = e.Elem()
			}
			if bad == "" {
				switch {
				case base == c18BigIntT:
					bi := e.Interface().(big.Int)
					if xi, acc := x.Int(nil); acc != big.Exact || xi.Cmp(&bi) != 0 {
						bad = "big.Int holds " + bi.String()
					}
				case base == c18BigFloatT:
					bf := e.Interface().(big.Float)
					if bf.Cmp(x) != 0 || bf.Signbit() != x.Signbit() {
						bad = "big.Float holds " + bf.Text('g', -1)
					}
				case base.Kind() == reflect.Float32 || base.Kind() == reflect.Float64:
					// judged (with its tolerance) on the scalar targets in runC18Numbers; the model pins the exact value
				default:
					xi, _ := x.Int(nil)
					var got *big.Int
					if base.Kind() >= reflect.Uint && base.Kind() <= reflect.Uint64 {
						got = new(big.Int).SetUint64(e.Uint())
					} else {
						got = big.NewInt(e.Int())
					}
					if got.Cmp(xi) != 0 {
						bad = "integer holds " + got.String()
					}
				}
			}
			if bad != "" {
				ctx.Fail(Failure{Site: "int_ok_iff", Sig: "stored number differs for " + rt.String(), What: "an accepted number must be stored exactly: " + bad,
					Input: nw + " " + tw, GoLit: lit, Outcome: impl})
			}
		}
	}
}

// ---- the bridge type through the real ImpliedType -------------------------------------------

// c18Substitute: the Go type with every array replaced by a slice, big.Int by int and big.Float by
// float64 — "arrays and big numbers to the corresponding list and number types".  ok = false when
// reflect can not build the type (then the caller falls back to the harness' own reading).
func c18Substitute(rt reflect.Type) (out reflect.Type, ok bool) {
	defer func() {
		if recover() != nil {
			out, ok = nil, false
		}
	}()
	var sub func(rt reflect.Type) reflect.Type
	sub = func(rt reflect.Type) reflect.Type {
		switch rt {
		case c18BigIntT:
			return reflect.TypeOf(int(0))
		case c18BigFloatT:
			return reflect.TypeOf(float64(0))
		case c18ValueT:
			return rt
		}
		switch rt.Kind() {
		case reflect.Ptr:
			return reflect.PtrTo(sub(rt.Elem()))
		case reflect.Slice, reflect.Array:
			return reflect.SliceOf(sub(rt.Elem()))
		case reflect.Map:
			return reflect.MapOf(rt.Key(), sub(rt.Elem()))
		case reflect.Struct:
			fs := make([]reflect.StructField, rt.NumField())
			for i := range fs {
				f := rt.Field(i)
				fs[i] = reflect.StructField{Name: f.Name, PkgPath: f.PkgPath, Type: sub(f.Type), Tag: f.Tag, Anonymous: false}
				if f.Anonymous {
					fs[i].Name = "Emb" + f.Name
				}
			}
			return reflect.StructOf(fs)
		}
		return rt
	}
	return sub(rt), true
}

// c18RealBridge: the bridge type as the real ImpliedType computes it on the substituted Go type
func c18RealBridge(rt reflect.Type) (impl string, real bool) {
	st, ok := c18Substitute(rt)
	if !ok {
		return "", false
	}
	var it cty.Type
	var err error
	pn, _ := try(func() { it, err = gocty.ImpliedType(reflect.Zero(st).Interface()) })
	switch {
	case pn:
		return "panic", true
	case err != nil:
		return "err", true
	}
	return "ok " + encTy(it), true
}

// ---- non-nil values of unsupported kinds into ToCtyValue -------------------------------------

func runC18IrregularValues(ctx *Ctx) {
	ch := make(chan int, 1)
	var iface interface{} = 7
	vals := []interface{}{ch, func() {}, &iface, complex(1, 2), uintptr(3), map[int]string{1: "a"}, map[bool]int{true: 1},
		[]chan int{ch}, map[string]func(){"f": func() {}}, &ch, c18NoTag{1, 2}, c18TaggedChan{A: ch}, []c18NoTag{{1, 2}},
		c18TaggedIface{A: 7, B: 1}, c18TaggedIface{A: "x", B: 1}, []interface{}{1, "a"}, map[string]interface{}{"a": 1}}
	tys := []cty.Type{cty.String, cty.Number, cty.Map(cty.String), cty.List(cty.Number), cty.EmptyObject, cty.DynamicPseudoType,
		cty.Object(map[string]cty.Type{"a": cty.Number, "b": cty.Number}), cty.Object(map[string]cty.Type{"a": cty.DynamicPseudoType, "b": cty.Number}),
		cty.Tuple([]cty.Type{cty.Number, cty.Number}), cty.Set(cty.Number)}
	for _, g := range vals {
		rt := reflect.TypeOf(g)
		for _, ty := range tys {
			var v cty.Value
			var err error
			pn, why := try(func() { v, err = gocty.ToCtyValue(g, ty) })
			ctx.Eval("irregular-value tocty "+rt.String()+" "+encTy(ty), true)
			out := "err"
			switch {
			case pn:
				out = "panic"
			case err == nil:
				out = "ok"
			}
			ctx.Tag("irregular-value:tocty:" + out)
			lit := fmt.Sprintf("gocty.ToCtyValue(<non-nil %s>, %#v)", rt, ty)
			if pn {
				ctx.Fail(Failure{Site: "tocty_no_panic", Sig: "ToCtyValue panics for a non-nil Go value of kind " + rt.Kind().String(), What: "ToCtyValue must return an error, not panic: " + why,
					Input: rt.String() + " " + encTy(ty), GoLit: lit, Outcome: "panic"})
			} else if err == nil && c18RefusedValue(reflect.ValueOf(g)) {
				ctx.Fail(Failure{Site: "errors_otherwise", Sig: "non-nil Go value of unsupported kind " + rt.Kind().String() + " converted without error", What: "an unsupported Go kind must be refused",
					Input: rt.String() + " " + encTy(ty), GoLit: lit, Outcome: fmt.Sprintf("%#v", v)})
			}
		}
	}
}

// c18RefusedValue: once pointers and interfaces are unwrapped (ToCtyValue does that by design), the
// value is of a scalar kind gocty has no rule for
func c18RefusedValue(v reflect.Value) bool {
	for v.Kind() == reflect.Ptr || v.Kind() == reflect.Interface {
		if v.IsNil() {
			return false
		}
		v = v.Elem()
	}
	switch v.Kind() {
	case reflect.Chan, reflect.Func, reflect.Complex64, reflect.Complex128, reflect.Uintptr:
		return true
	}
	return false
}
