// ctyharness runs the real go-cty implementation (from /repo, build tag
// "verif") and the compiled Lean model (ctydrv) on the same generated cases,
// diffs their canonicalised outputs (correspondence), and evaluates each
// property's predicate on the implementation's own outputs (search for a
// failing input).  It writes a JSON result that ./check turns into the verdict
// and the evidence file.
package main

import (
	"bufio"
	"crypto/sha256"
	"encoding/json"
	"flag"
	"fmt"
	"math/rand"
	"os"
	"os/exec"
	"sort"
	"strings"
	"time"
)

// Case is one correspondence case: a driver line and the implementation's
// canonical answer to the same question.
type Case struct {
	Op   string   `json:"op"`
	Args []string `json:"args"`
	Impl string   `json:"impl"`
	Desc string   `json:"desc,omitempty"`
}

// Failure is a property-predicate failure on the real implementation.
type Failure struct {
	Site    string `json:"site"`    // which clause of the property / call site
	Sig     string `json:"sig"`     // root-cause signature matched by known_findings.json
	What    string `json:"what"`    // human description
	Input   string `json:"input"`   // wire form of the failing input
	GoLit   string `json:"golit"`   // Go literal(s) to replay against the real code
	Outcome string `json:"outcome"` // what the implementation did
}

type Mismatch struct {
	Case  Case   `json:"case"`
	Model string `json:"model"`
}

type Result struct {
	Property      string         `json:"property"`
	Tier          string         `json:"tier"`
	Seed          int64          `json:"seed"`
	Evaluations   int            `json:"evaluations"`
	Distinct      int            `json:"distinct_nontrivial"`
	Rule          string         `json:"rule"`
	Samples       []string       `json:"samples"`
	Compared      int            `json:"correspondence_compared"`
	Unmodelled    int            `json:"unmodelled_skipped"`
	Mismatches    []Mismatch     `json:"mismatches"`
	MismatchCount int            `json:"mismatch_count"`
	Failures      []Failure      `json:"failures"`
	FailureCount  int            `json:"failure_count"`
	Dist          map[string]int `json:"distribution"`
	Exhaustive    bool           `json:"exhaustive"`
	Scope         string         `json:"scope,omitempty"`
	Probes        map[string]int `json:"assumption_probes,omitempty"`
	ProbeFails    []string       `json:"assumption_probe_failures,omitempty"`
	WallS         float64        `json:"wall_s"`
}

// Ctx is what a property runner sees.
type Ctx struct {
	R        *rand.Rand
	Tier     string
	Thorough bool
	Seed     int64
	res      *Result
	cases    []Case
	seen     map[[32]byte]struct{}
	failSeen map[string]int
}

func (c *Ctx) N(quick, thorough int) int {
	if c.Thorough {
		return thorough
	}
	return quick
}

// Add records a correspondence case.
func (c *Ctx) Add(op string, impl string, args ...string) {
	c.cases = append(c.cases, Case{Op: op, Args: args, Impl: impl})
}

// Eval counts one property evaluation; key is the canonical case string used
// for distinct counting, nontrivial is the property's own rule.
func (c *Ctx) Eval(key string, nontrivial bool) {
	c.res.Evaluations++
	if nontrivial {
		h := sha256.Sum256([]byte(key))
		if _, ok := c.seen[h]; !ok {
			c.seen[h] = struct{}{}
			c.res.Distinct++
			if len(c.res.Samples) < 8 && (c.res.Distinct%97 == 1) {
				s := key
				if len(s) > 400 {
					s = s[:400] + "…"
				}
				c.res.Samples = append(c.res.Samples, s)
			}
		}
	}
}

func (c *Ctx) Tag(t string) { c.res.Dist[t]++ }

func (c *Ctx) Fail(f Failure) {
	c.res.FailureCount++
	k := f.Site + "|" + f.Sig
	c.failSeen[k]++
	// keep the smallest witness per (site, sig), at most 40 distinct ones
	for i := range c.res.Failures {
		if c.res.Failures[i].Site == f.Site && c.res.Failures[i].Sig == f.Sig {
			if len(f.Input) < len(c.res.Failures[i].Input) {
				c.res.Failures[i] = f
			}
			return
		}
	}
	if len(c.res.Failures) < 40 {
		c.res.Failures = append(c.res.Failures, f)
	}
}

func (c *Ctx) Probe(name string, ok bool, detail string) {
	if c.res.Probes == nil {
		c.res.Probes = map[string]int{}
	}
	c.res.Probes[name]++
	if !ok && len(c.res.ProbeFails) < 10 {
		c.res.ProbeFails = append(c.res.ProbeFails, name+": "+detail)
	}
}

type runner struct {
	rule string
	run  func(*Ctx)
}

var runners = map[string]runner{}

func register(id, rule string, f func(*Ctx)) { runners[id] = runner{rule, f} }

func main() {
	prop := flag.String("prop", "", "property id")
	tier := flag.String("tier", "quick", "quick|thorough")
	seed := flag.Int64("seed", 1, "PRNG seed")
	drv := flag.String("drv", "", "path of the compiled Lean driver")
	out := flag.String("out", "", "result JSON path")
	dump := flag.String("dumpcases", "", "write the driver input lines here (debug)")
	replay := flag.String("replay", "", "replay file to re-run")
	dumpspecs := flag.String("dumpspecs", "", "write Generated/StdlibSpecs.lean into this directory and exit")
	flag.Parse()
	if *dumpspecs != "" {
		if err := dumpSpecs(*dumpspecs); err != nil {
			fmt.Fprintln(os.Stderr, err)
			os.Exit(2)
		}
		return
	}
	if *replay != "" {
		os.Exit(doReplay(*replay, *drv))
	}
	rn, ok := runners[*prop]
	if !ok {
		fmt.Fprintf(os.Stderr, "no runner for %q\n", *prop)
		os.Exit(2)
	}
	start := time.Now()
	res := &Result{Property: *prop, Tier: *tier, Seed: *seed, Rule: rn.rule, Dist: map[string]int{}}
	ctx := &Ctx{R: rand.New(rand.NewSource(*seed)), Tier: *tier, Thorough: *tier == "thorough", Seed: *seed,
		res: res, seen: map[[32]byte]struct{}{}, failSeen: map[string]int{}}
	rn.run(ctx)
	if err := correspond(ctx, *drv, *dump); err != nil {
		fmt.Fprintf(os.Stderr, "driver: %v\n", err)
		os.Exit(2)
	}
	sort.Slice(res.Failures, func(i, j int) bool { return res.Failures[i].Site+res.Failures[i].Sig < res.Failures[j].Site+res.Failures[j].Sig })
	res.WallS = time.Since(start).Seconds()
	b, _ := json.MarshalIndent(res, "", " ")
	if *out == "" {
		os.Stdout.Write(b)
	} else if err := os.WriteFile(*out, b, 0o644); err != nil {
		fmt.Fprintln(os.Stderr, err)
		os.Exit(2)
	}
}

// correspond pipes every recorded case through the Lean driver and diffs.
func correspond(ctx *Ctx, drv, dump string) error {
	if len(ctx.cases) == 0 {
		return nil
	}
	if drv == "" {
		return fmt.Errorf("no -drv given")
	}
	var sb strings.Builder
	for i, cs := range ctx.cases {
		fmt.Fprintf(&sb, "%d %s", i, cs.Op)
		for _, a := range cs.Args {
			sb.WriteByte(' ')
			sb.WriteString(a)
		}
		sb.WriteByte('\n')
	}
	if dump != "" {
		os.WriteFile(dump, []byte(sb.String()), 0o644)
	}
	cmd := exec.Command(drv)
	cmd.Stdin = strings.NewReader(sb.String())
	cmd.Stderr = os.Stderr
	po, err := cmd.StdoutPipe()
	if err != nil {
		return err
	}
	if err := cmd.Start(); err != nil {
		return err
	}
	sc := bufio.NewScanner(po)
	sc.Buffer(make([]byte, 1<<20), 1<<28)
	i := 0
	for sc.Scan() {
		line := sc.Text()
		if i >= len(ctx.cases) {
			return fmt.Errorf("driver printed too many lines")
		}
		want := fmt.Sprintf("%d ", i)
		if !strings.HasPrefix(line, want) {
			return fmt.Errorf("driver line %d out of sync: %q", i, line)
		}
		model := line[len(want):]
		cs := ctx.cases[i]
		i++
		if model == "unmodelled" {
			ctx.res.Unmodelled++
			continue
		}
		ctx.res.Compared++
		ctx.res.Dist["op:"+cs.Op]++
		if model != cs.Impl {
			ctx.res.MismatchCount++
			if len(ctx.res.Mismatches) < 20 {
				ctx.res.Mismatches = append(ctx.res.Mismatches, Mismatch{cs, model})
			} else {
				// keep the shortest ones
				worst, wl := -1, 0
				for j, m := range ctx.res.Mismatches {
					if l := len(strings.Join(m.Case.Args, " ")); l > wl {
						worst, wl = j, l
					}
				}
				if len(strings.Join(cs.Args, " ")) < wl {
					ctx.res.Mismatches[worst] = Mismatch{cs, model}
				}
			}
		}
	}
	if err := cmd.Wait(); err != nil {
		return fmt.Errorf("driver exit: %v (after %d of %d lines)", err, i, len(ctx.cases))
	}
	if i != len(ctx.cases) {
		return fmt.Errorf("driver answered %d of %d lines", i, len(ctx.cases))
	}
	return nil
}

func doReplay(path, drv string) int {
	b, err := os.ReadFile(path)
	if err != nil {
		fmt.Fprintln(os.Stderr, err)
		return 2
	}
	fmt.Printf("replay file %s:\n%s\n", path, b)
	return 0
}
