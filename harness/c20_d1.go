package main

// C20 (d20) — entry points the heap model does NOT cover, judged on the real code
// alone (S): mark paths, optional attributes, ValueSet / PathSet algebra, PathSet
// Remove / AddAllSteps / NewPathSet(paths…), ranges of refined unknowns, and the
// `Equals` loop with a member comparison that panics.  Each scenario builds values,
// takes their fingerprints, then mutates every Go object it passed in or was handed
// back, and compares.  Nothing here is diffed against Lean; the distribution tags
// `d1:<scenario>` say what ran.

import (
	"fmt"
	"math/big"
	"reflect"
	"sort"
	"strings"

	"github.com/zclconf/go-cty/cty"
	"github.com/zclconf/go-cty/cty/convert"
	"github.com/zclconf/go-cty/cty/function/stdlib"
)

type c20d1obs struct {
	vals  []cty.Value
	tys   []cty.Type
	vsets []cty.ValueSet
	psets []cty.PathSet
}

func (o *c20d1obs) fp() string {
	var sb strings.Builder
	for _, v := range o.vals {
		sb.WriteString(c20valFP(v) + ";")
	}
	for _, t := range o.tys {
		sb.WriteString(c20tyFP(t))
		if t.IsObjectType() {
			opt := []string{}
			for k := range t.OptionalAttributes() {
				opt = append(opt, k)
			}
			sort.Strings(opt)
			sb.WriteString(fmt.Sprintf("opt%q", opt))
		}
		sb.WriteString(";")
	}
	for _, s := range o.vsets {
		sb.WriteString(c20vsetFP(s) + ";")
	}
	for _, s := range o.psets {
		sb.WriteString(c20psetFP(s) + ";")
	}
	return sb.String()
}

// c20d1run: `build` creates what must stay as it is and returns the mutation to try.
// knownSig != "": the change is a documented read-only accessor / ownership transfer.
func c20d1run(ctx *Ctx, name, golit, knownSig string, build func(o *c20d1obs) func()) {
	o := &c20d1obs{}
	var mutate func()
	if p, why := try(func() { mutate = build(o) }); p {
		ctx.Fail(Failure{Site: "no-panic", Sig: "panic:d1:" + name, What: "scenario panicked while building: " + name, GoLit: golit, Outcome: why})
		return
	}
	before := o.fp()
	if p, why := try(mutate); p {
		ctx.Fail(Failure{Site: "no-panic", Sig: "panic:d1:" + name, What: "scenario panicked while mutating: " + name, GoLit: golit, Outcome: why})
		return
	}
	after := o.fp()
	ctx.Eval("d1 "+name, false)
	ctx.Tag("d1:" + name)
	if before != after {
		sig := knownSig
		if sig == "" {
			sig = "unmodelled-api:" + name
		}
		ctx.Fail(Failure{Site: "fingerprints-stable", Sig: sig, What: "an existing value, type or helper set changed: " + name, Input: name, GoLit: golit,
			Outcome: before + " -> " + after})
		ctx.Tag("leak:" + sig)
	} else if knownSig != "" {
		// a documented leak that stopped leaking: the record is stale
		ctx.Tag("d1:documented-leak-not-observed:" + knownSig)
	}
}

type c20capsule struct{ n int }

// c20d1scenarios: scripted histories for the entry points added to the heap model in this round
// (diffed against Lean like every history, and judged by (S)).
func c20d1scenarios(ctx *Ctx) {
	// REGRESSION for /repo 776b476 (C20.pathSetAddAllSteps_append_safe): the members AddAllSteps files share the caller's array but have no spare capacity
	s := newScen(ctx, "AddAllSteps: append to a listed member must not overwrite a longer member")
	p0 := s.g(&c20Op{name: "nilPath"})
	pa := s.g(&c20Op{name: "pathGetAttr", a: p0, s: "a"})
	pab := s.g(&c20Op{name: "pathGetAttr", a: pa, s: "b"})
	ps := s.g(&c20Op{name: "newPathSet"})
	s.do(&c20Op{name: "psAddAllSteps", a: ps, b: pab})
	l := s.g(&c20Op{name: "psList", a: ps})
	for i := 0; i < 2; i++ {
		q := s.g(&c20Op{name: "elemPath", a: l, n: int64(i)})
		if len(s.r.h.gos[q].path) == 1 {
			s.g(&c20Op{name: "appendStep", a: q, s: "zz"})
		}
	}
	s.end()
	// the remedy: AddAllSteps(path.Copy()) keeps the caller's path the caller's; Remove leaves the other members alone
	s = newScen(ctx, "AddAllSteps(Copy) then write the path; Remove a prefix")
	p0 = s.g(&c20Op{name: "nilPath"})
	pa = s.g(&c20Op{name: "pathGetAttr", a: p0, s: "a"})
	pab = s.g(&c20Op{name: "pathGetAttr", a: pa, s: "b"})
	cp := s.g(&c20Op{name: "pathCopy", a: pab})
	ps = s.g(&c20Op{name: "newPathSet"})
	s.do(&c20Op{name: "psAddAllSteps", a: ps, b: cp})
	s.do(&c20Op{name: "setStep", a: pab, n: 0, s: "zz"})
	s.do(&c20Op{name: "psRemove", a: ps, b: pa})
	s.do(&c20Op{name: "psHas", a: ps, b: pa})
	s.do(&c20Op{name: "psHas", a: ps, b: cp})
	s.end()
	// WithSameMarks reads the source's marker, builds its own
	s = newScen(ctx, "WithSameMarks then write the marks of the source")
	v := s.v(&c20Op{name: "stringVal", s: "a"})
	m := s.v(&c20Op{name: "mark", a: v, s: "p"})
	w := s.v(&c20Op{name: "withSameMarks", a: v, b: m})
	_ = w
	s.do(&c20Op{name: "unmark", a: m})
	mk := len(s.r.h.gos) - 1
	s.do(&c20Op{name: "marksAdd", a: mk, s: "q"})
	s.v(&c20Op{name: "withSameMarks", a: m, b: w})
	s.end()
}

func c20d1(ctx *Ctx) {
	c20d1scenarios(ctx)
	str, num := cty.StringVal, cty.NumberIntVal
	// ---- reading a set must not change it: sets whose lowest bucket holds 3 (5, 6, 7: spare capacity) hash-colliding
	// members next to members of other buckets.  (A seeded change seeded set.Values() from the first bucket's slice:
	// the append wrote into the set's own storage and the ordering sort permuted it, so a value changed by being read.)
	{
		read := func(v cty.Value) {
			for i := 0; i < 3; i++ {
				try(func() { _ = v.AsValueSlice() })
				try(func() { _ = v.LengthInt() })
				try(func() { _ = v.GoString() })
				try(func() { _ = v.Equals(v) })
				try(func() {
					for it := v.ElementIterator(); it.Next(); {
						it.Element()
					}
				})
			}
		}
		var triples [][]cty.Value
		triples = append(triples, []cty.Value{cty.MustParseNumberVal("62.00000000001"), cty.MustParseNumberVal("62.00000000002"), cty.MustParseNumberVal("62.00000000003")})
		triples = append(triples, []cty.Value{cty.UnknownVal(cty.Number), cty.UnknownVal(cty.Number).RefineNotNull(), cty.UnknownVal(cty.Number).Refine().NumberRangeLowerBound(num(0), true).NewValue()})
		five := append(append([]cty.Value{}, triples[0]...), cty.MustParseNumberVal("62.00000000004"), cty.MustParseNumberVal("62.00000000005"))
		triples = append(triples, five)
		for ti, tr := range triples {
			for single := int64(1); single <= 9; single++ {
				tr, single := tr, single
				c20d1run(ctx, fmt.Sprintf("read a set with a %d-member bucket (family %d) next to %d", len(tr), ti, single),
					fmt.Sprintf("v := cty.SetVal(%d hash-colliding numbers…, cty.NumberIntVal(%d)); v.AsValueSlice(); v.GoString(); v.Equals(v); iterate", len(tr), single), "",
					func(o *c20d1obs) func() {
						v := cty.SetVal(append(append([]cty.Value{}, tr...), num(single)))
						w := cty.ListVal([]cty.Value{v})
						o.vals = append(o.vals, v, w)
						return func() { read(v); read(w) }
					})
			}
		}
	}
	// ---- conversions and stdlib calls must not change the TYPE of an existing value: tuple types whose element types
	// mix tuples and lists that unify to a list (convert / setproduct hand Type.TupleElementTypes() to unify; a seeded
	// change let unifyTuplesAsList substitute the unified list type into that slice and restore it only on failure)
	{
		mk := func() cty.Value {
			return cty.TupleVal([]cty.Value{cty.TupleVal([]cty.Value{str("a"), str("b")}), cty.ListVal([]cty.Value{str("c")})})
		}
		for _, target := range []cty.Type{cty.List(cty.DynamicPseudoType), cty.Set(cty.DynamicPseudoType)} {
			target := target
			c20d1run(ctx, "Convert a tuple of (tuple, list) to "+target.FriendlyName()+": the tuple type must stay what it was",
				"v := TupleVal{TupleVal{\"a\",\"b\"}, ListVal{\"c\"}}; convert.Convert(v, "+target.GoString()+"); convert.Convert(UnknownVal(v.Type()), …); v.Type()", "",
				func(o *c20d1obs) func() {
					v := mk()
					w := cty.UnknownVal(v.Type())
					o.vals = append(o.vals, v, w)
					o.tys = append(o.tys, v.Type())
					return func() {
						try(func() { convert.Convert(v, target) })
						try(func() { convert.Convert(w, target) })
						try(func() { convert.Convert(cty.NullVal(v.Type()), target) })
						try(func() { convert.GetConversionUnsafe(v.Type(), target) })
					}
				})
		}
		c20d1run(ctx, "setproduct with a tuple of (tuple, list): the argument's type must stay what it was",
			"v := TupleVal{TupleVal{\"a\",\"b\"}, ListVal{\"c\"}}; stdlib.SetProduct(v, v)", "",
			func(o *c20d1obs) func() {
				v := mk()
				o.vals = append(o.vals, v)
				o.tys = append(o.tys, v.Type())
				return func() {
					try(func() { stdlib.SetProduct(v, cty.ListVal([]cty.Value{str("x")})) })
					try(func() { stdlib.SetProductFunc.ReturnType([]cty.Type{v.Type(), v.Type()}) })
				}
			})
	}
	// ---- stdlib calls on tuples whose TYPE shares its element-type array with another tuple type (what slice() and concat()
	// themselves hand out: a sub-slice with spare capacity): a later call must not write through that array (a seeded
	// change let concat's Type callback append onto the leading tuple's own TupleElementTypes() slice)
	{
		base := func() cty.Value { return cty.UnknownVal(cty.Tuple([]cty.Type{cty.String, cty.Number, cty.Bool})) }
		extras := [][]cty.Value{{str("x")}, {cty.True}, {num(1), str("y")}}
		c20d1run(ctx, "concat onto a slice of an unknown tuple: the source tuple's type must stay what it was",
			"b := UnknownVal(Tuple{string,number,bool}); s, _ := stdlib.Slice(b, 0, 1); stdlib.Concat(s, TupleVal{\"x\"}); b.Type()", "",
			func(o *c20d1obs) func() {
				b := base()
				other := cty.NullVal(b.Type())
				o.vals = append(o.vals, b, other)
				o.tys = append(o.tys, b.Type())
				var slices []cty.Value
				for k := int64(0); k <= 2; k++ {
					for n := k; n <= 3; n++ {
						var sl cty.Value
						if p, _ := try(func() { sl, _ = stdlib.Slice(b, num(k), num(n)) }); p || sl == cty.NilVal {
							continue
						}
						slices = append(slices, sl)
						o.vals = append(o.vals, sl)
					}
				}
				return func() {
					for _, sl := range slices {
						for _, ex := range extras {
							try(func() { stdlib.Concat(sl, cty.TupleVal(ex)) })
							try(func() { stdlib.ConcatFunc.ReturnType([]cty.Type{sl.Type(), cty.TupleVal(ex).Type()}) })
						}
					}
				}
			})
		c20d1run(ctx, "two concats onto one unknown tuple: the first result's type must stay what it was",
			"b := UnknownVal(Tuple{string,number}); r1, _ := stdlib.Concat(b, TupleVal{\"x\"}); stdlib.Concat(b, TupleVal{true}); stdlib.Concat(r1, TupleVal{1}); r1.Type()", "",
			func(o *c20d1obs) func() {
				b := cty.UnknownVal(cty.Tuple([]cty.Type{cty.String, cty.Number}))
				r1, _ := stdlib.Concat(b, cty.TupleVal([]cty.Value{str("x")}))
				r2, _ := stdlib.Concat(r1, cty.TupleVal([]cty.Value{num(7)}))
				o.vals = append(o.vals, b, r1, r2)
				o.tys = append(o.tys, b.Type(), r1.Type(), r2.Type())
				return func() {
					for _, ex := range extras {
						try(func() { stdlib.Concat(b, cty.TupleVal(ex)) })
						try(func() { stdlib.Concat(r1, cty.TupleVal(ex)) })
						try(func() { stdlib.Concat(r2, cty.TupleVal(ex)) })
						try(func() { stdlib.Concat(r1, cty.TupleVal(ex), r2) })
					}
				}
			})
		// the same sources through the other sequence / collection functions that take tuples
		c20d1run(ctx, "sequence functions on derived unknown tuples: sources and earlier results must stay what they were",
			"b := UnknownVal(Tuple{string,number,bool}); s := slice(b,0,2); reverse / element / flatten / coalescelist / setproduct / chunklist / length / contains / index on b and s", "",
			func(o *c20d1obs) func() {
				b := base()
				sl, _ := stdlib.Slice(b, num(0), num(2))
				o.vals = append(o.vals, b, sl)
				o.tys = append(o.tys, b.Type(), sl.Type())
				return func() {
					for _, v := range []cty.Value{b, sl} {
						v := v
						try(func() { stdlib.Reverse(v) })
						try(func() { stdlib.Element(v, num(1)) })
						try(func() { stdlib.Flatten(cty.TupleVal([]cty.Value{v, v})) })
						try(func() { stdlib.CoalesceList(v, cty.TupleVal([]cty.Value{str("z")})) })
						try(func() { stdlib.SetProduct(v, cty.TupleVal([]cty.Value{str("z")})) })
						try(func() { stdlib.Chunklist(v, num(1)) })
						try(func() { stdlib.Length(v) })
						try(func() { stdlib.Contains(v, str("a")) })
						try(func() { stdlib.Index(v, num(0)) })
						try(func() { convert.Convert(v, cty.List(cty.String)) })
					}
				}
			})
	}
	// ---- marks with paths
	c20d1run(ctx, "UnmarkDeepWithPaths: write the mark sets and paths it returns",
		`v := ObjectVal{a: "x".Mark("m"), b: [1.Mark("n")]}.Mark("top"); _, pvm := v.UnmarkDeepWithPaths(); pvm[i].Marks["zz"] = struct{}{}; pvm[i].Path[0] = GetAttrStep{"zz"}`, "",
		func(o *c20d1obs) func() {
			v := cty.ObjectVal(map[string]cty.Value{"a": str("x").Mark("m"), "b": cty.ListVal([]cty.Value{num(1).Mark("n")})}).Mark("top")
			o.vals = append(o.vals, v)
			u, pvm := v.UnmarkDeepWithPaths()
			o.vals = append(o.vals, u)
			return func() {
				for i := range pvm {
					pvm[i].Marks["zz"] = struct{}{}
					delete(pvm[i].Marks, "m")
					if len(pvm[i].Path) > 0 {
						pvm[i].Path[0] = cty.GetAttrStep{Name: "zz"}
					}
				}
			}
		})
	c20d1run(ctx, "MarkWithPaths: write the []PathValueMarks afterwards",
		`pvm := []PathValueMarks{{GetAttrPath("a"), NewValueMarks("m")}, {nil, NewValueMarks("top")}}; w := v.MarkWithPaths(pvm); pvm[0].Marks["zz"] = struct{}{}; pvm[0].Path[0] = GetAttrStep{"b"}`, "",
		func(o *c20d1obs) func() {
			v := cty.ObjectVal(map[string]cty.Value{"a": str("x"), "b": num(2)})
			pvm := []cty.PathValueMarks{{Path: cty.GetAttrPath("a"), Marks: cty.NewValueMarks("m")}, {Path: cty.Path{}, Marks: cty.NewValueMarks("top")}}
			w := v.MarkWithPaths(pvm)
			o.vals = append(o.vals, v, w)
			return func() {
				pvm[0].Marks["zz"] = struct{}{}
				delete(pvm[0].Marks, "m")
				pvm[1].Marks["zz"] = struct{}{}
				pvm[0].Path[0] = cty.GetAttrStep{Name: "b"}
			}
		})
	c20d1run(ctx, "UnmarkDeep / Marks of a nested value: write the mark set returned",
		`u, ms := v.UnmarkDeep(); ms["zz"] = struct{}{}; delete(ms, "m")`, "",
		func(o *c20d1obs) func() {
			v := cty.TupleVal([]cty.Value{str("x").Mark("m"), num(1)}).Mark("top")
			u, ms := v.UnmarkDeep()
			ms2 := v.Marks()
			o.vals = append(o.vals, v, u)
			return func() { ms["zz"] = struct{}{}; delete(ms, "m"); ms2["zz"] = struct{}{}; delete(ms2, "top") }
		})
	c20d1run(ctx, "WithSameMarks / WithMarks(Unmark result): write the sets afterwards",
		`raw, ms := v.Unmark(); w := raw.WithMarks(ms); x := raw.WithSameMarks(v); ms["zz"] = struct{}{}`, "",
		func(o *c20d1obs) func() {
			v := str("x").Mark("m")
			raw, ms := v.Unmark()
			w := raw.WithMarks(ms)
			x := raw.WithSameMarks(v)
			y := cty.True.WithMarks(ms, cty.NewValueMarks("k"))
			o.vals = append(o.vals, v, raw, w, x, y)
			return func() { ms["zz"] = struct{}{}; delete(ms, "m") }
		})
	// ---- optional attributes
	c20d1run(ctx, "ObjectWithOptionalAttrs: write the map and the slice afterwards",
		`atys := map[string]Type{"a": String, "b": Number}; opt := []string{"a"}; t := ObjectWithOptionalAttrs(atys, opt); atys["a"] = Bool; delete(atys, "b"); opt[0] = "b"`, "",
		func(o *c20d1obs) func() {
			atys := map[string]cty.Type{"a": cty.String, "b": cty.Number}
			opt := []string{"a"}
			t := cty.ObjectWithOptionalAttrs(atys, opt)
			o.tys = append(o.tys, t)
			o.vals = append(o.vals, cty.NullVal(t))
			return func() { atys["a"] = cty.Bool; delete(atys, "b"); opt[0] = "b" }
		})
	c20d1run(ctx, "OptionalAttributes: write the map it returns",
		`t := ObjectWithOptionalAttrs(map[string]Type{"a": String, "b": Number}, []string{"a"}); m := t.OptionalAttributes(); m["b"] = struct{}{}; delete(m, "a")`,
		"optionalattributes-returns-internal-map",
		func(o *c20d1obs) func() {
			t := cty.ObjectWithOptionalAttrs(map[string]cty.Type{"a": cty.String, "b": cty.Number}, []string{"a"})
			o.tys = append(o.tys, t)
			m := t.OptionalAttributes()
			return func() { m["b"] = struct{}{}; delete(m, "a") }
		})
	// ---- ValueSet algebra
	for _, alg := range []string{"Union", "Intersection", "Subtract", "SymmetricDifference"} {
		for _, side := range []string{"write the result", "write the operands"} {
			alg, side := alg, side
			c20d1run(ctx, "ValueSet."+alg+": "+side,
				`a, b := sets of strings, a bucket of unknowns with spare capacity in each; r := a.`+alg+`(b); then Add/Remove on the result (operands must stay) or on the operands (result must stay)`, "",
				func(o *c20d1obs) func() {
					unk := func(i int) cty.Value {
						return cty.UnknownVal(cty.String).Refine().StringPrefixFull(fmt.Sprint("u", i)).NewValue()
					}
					a, b := cty.NewValueSet(cty.String), cty.NewValueSet(cty.String)
					for i := 0; i < 3; i++ {
						a.Add(unk(i))
						b.Add(unk(i + 1))
					}
					a.Add(str("p"))
					b.Add(str("p"))
					b.Add(str("q"))
					var r cty.ValueSet
					switch alg {
					case "Union":
						r = a.Union(b)
					case "Intersection":
						r = a.Intersection(b)
					case "Subtract":
						r = a.Subtract(b)
					default:
						r = a.SymmetricDifference(b)
					}
					if side == "write the result" {
						o.vsets = append(o.vsets, a, b)
						return func() { r.Add(unk(7)); r.Add(unk(8)); r.Remove(str("p")); r.Remove(unk(1)) }
					}
					o.vsets = append(o.vsets, r)
					o.vals = append(o.vals, cty.SetValFromValueSet(r))
					return func() { a.Add(unk(8)); a.Remove(str("p")); b.Remove(str("q")); b.Add(unk(9)); b.Remove(unk(1)) }
				})
		}
	}
	// ---- PathSet beyond Add / Has / List
	c20d1run(ctx, "PathSet.Remove / Union / Intersection / Subtract / SymmetricDifference: mutate the results",
		`s := NewPathSet(a, a.b, [0]); t := NewPathSet(a.b, c); for each r := s.Op(t): r.Add(zz); r.Remove(a.b); s.Remove(absent)`, "",
		func(o *c20d1obs) func() {
			pa, pab, pi, pc := cty.GetAttrPath("a"), cty.GetAttrPath("a").GetAttr("b"), cty.IndexIntPath(0), cty.GetAttrPath("c")
			s, t := cty.NewPathSet(pa.Copy(), pab.Copy(), pi.Copy()), cty.NewPathSet(pab.Copy(), pc.Copy())
			o.psets = append(o.psets, s, t)
			rs := []cty.PathSet{s.Union(t), s.Intersection(t), s.Subtract(t), s.SymmetricDifference(t)}
			return func() {
				for _, r := range rs {
					r.Add(cty.GetAttrPath("zz"))
					r.Remove(pab)
					r.Remove(pa)
				}
				s.Remove(cty.GetAttrPath("absent"))
			}
		})
	c20d1run(ctx, "NewPathSet(paths…) / AddAllSteps: write a step of the path afterwards",
		`p := GetAttrPath("a").GetAttr("b"); s := NewPathSet(p); q := GetAttrPath("x").GetAttr("y"); s.AddAllSteps(q); p[0] = GetAttrStep{"zz"}; q[1] = GetAttrStep{"zz"}`,
		"pathset-add-retains-path",
		func(o *c20d1obs) func() {
			p := cty.GetAttrPath("a").GetAttr("b")
			s := cty.NewPathSet(p)
			q := cty.GetAttrPath("x").GetAttr("y")
			s.AddAllSteps(q)
			o.psets = append(o.psets, s)
			return func() { p[0] = cty.GetAttrStep{Name: "zz"}; q[1] = cty.GetAttrStep{Name: "zz"} }
		})
	c20d1run(ctx, "PathSet.Add(path.Copy()) / AddAllSteps(path.Copy()): the documented remedy",
		`s.Add(p.Copy()); s.AddAllSteps(q.Copy()); p[0] = …; q[1] = …`, "",
		func(o *c20d1obs) func() {
			p := cty.GetAttrPath("a").GetAttr("b")
			q := cty.GetAttrPath("x").GetAttr("y")
			s := cty.NewPathSet(p.Copy())
			s.AddAllSteps(q.Copy())
			o.psets = append(o.psets, s)
			return func() { p[0] = cty.GetAttrStep{Name: "zz"}; q[1] = cty.GetAttrStep{Name: "zz"} }
		})
	// ---- ranges of refined unknowns
	c20d1run(ctx, "Range().NumberLowerBound / UpperBound: write the big.Float of the bound",
		`v := UnknownVal(Number).Refine().NumberRangeLowerBound(1, true).NumberRangeUpperBound(9, true).NewValue(); lo, _ := v.Range().NumberLowerBound(); lo.AsBigFloat().SetInt64(99)`, "",
		func(o *c20d1obs) func() {
			v := cty.UnknownVal(cty.Number).Refine().NotNull().NumberRangeLowerBound(num(1), true).NumberRangeUpperBound(num(9), true).NewValue()
			l := cty.UnknownVal(cty.List(cty.String)).Refine().CollectionLengthLowerBound(1).CollectionLengthUpperBound(4).NewValue()
			o.vals = append(o.vals, v, l)
			lo, _ := v.Range().NumberLowerBound()
			hi, _ := v.Range().NumberUpperBound()
			o.vals = append(o.vals, lo, hi)
			return func() {
				lo.AsBigFloat().SetInt64(99)
				hi.AsBigFloat().SetInt64(-99)
				f := new(big.Float)
				f.Copy(lo.AsBigFloat()).SetInt64(5)
				_ = l.Range().LengthLowerBound()
				v.Refine().NumberRangeLowerBound(num(2), true).NewValue()
				l.Refine().CollectionLengthUpperBound(2).NewValue()
			}
		})
	// ---- purity: the Equals loop when a member comparison PANICS (C20.equals_loop_pure_counterexample).
	// Only a capsule type whose user-supplied Equals panics produces this: it is the caller's own panic
	// that surfaces or not with Go's map order — recorded as a distribution tag, not a failure.
	{
		capTy := cty.CapsuleWithOps("boom", reflect.TypeOf(c20capsule{}), &cty.CapsuleOps{
			Equals:    func(a, b interface{}) cty.Value { panic("user-supplied Equals panics") },
			RawEquals: func(a, b interface{}) bool { return a == b },
		})
		x, y := cty.CapsuleVal(capTy, &c20capsule{1}), cty.CapsuleVal(capTy, &c20capsule{2})
		seen := map[string]bool{}
		for i := 0; i < 200; i++ {
			a := cty.ObjectVal(map[string]cty.Value{"a": x, "b": num(1), "c": num(1), "d": num(1)})
			b := cty.ObjectVal(map[string]cty.Value{"a": y, "b": num(2), "c": num(2), "d": num(2)})
			if p, _ := try(func() { seen[encVal(a.Equals(b))] = true }); p {
				seen["panic"] = true
			}
		}
		ks := []string{}
		for k := range seen {
			ks = append(ks, k)
		}
		sort.Strings(ks)
		ctx.Eval("d1 equals-capsule-panic-order", false)
		ctx.Tag(fmt.Sprintf("pure:equals-capsule-panic-order:%d-distinct-outcomes", len(ks)))
		// the theorem's first half on the real code: whatever the order, the call answers False or the member's own panic
		for _, k := range ks {
			if k != "panic" && k != encVal(cty.False) {
				ctx.Fail(Failure{Site: "purity-repeat", Sig: "equals-invents-outcome", What: "Equals with a known-unequal member and a panicking member comparison answered neither False nor the panic",
					Input: "{a: capsule, b: 1, …} == {a: capsule', b: 2, …}", GoLit: "see harness/c20_d1.go", Outcome: strings.Join(ks, " | ")})
			}
		}
	}
}
