package main

// C16 — MessagePack encoding round-trips values, including unknown ones.
//
// For generated (value, type constraint) pairs the REAL cty/msgpack is run:
//
//	Marshal  → bytes → item tree (c16mp.go, the harness' own reader)   vs   model `mp.marshal`
//	Unmarshal of those bytes, of mutated item trees and of hand-made items   vs   model `mp.unmarshal`
//	  (number equality inside the refinement builder as the code does it) and `mp.unmarshalx` (the exact
//	  oracle the theorems are stated for; it answers `unmodelled` where the two could differ)
//	ImpliedType                                                         vs   model `mp.implied`
//	cty.ParseNumberVal                                                  vs   model `mp.parse`
//
// and the property predicate is evaluated on the real outputs: the decoded value
// has the original's type, equals it in every known part (whole numbers and exact
// float64 numerically identical, every other number Equal), is unknown exactly
// where the original was, with a refinement that admits everything the
// original's admitted; marked values are refused with an error.

import (
	"bytes"
	"fmt"
	"math"
	"math/big"
	"math/rand"
	"sort"
	"strings"
	"unicode/utf8"

	"github.com/zclconf/go-cty/cty"
	"github.com/zclconf/go-cty/cty/convert"
	"github.com/zclconf/go-cty/cty/ctystrings"
	"github.com/zclconf/go-cty/cty/msgpack"
	"golang.org/x/text/unicode/norm"
)

func init() {
	register("C16", "generated (value, constraint) pairs: every type kind nested to depth 3 (4 thorough), DynamicPseudoType at any constraint position, "+
		"null / unknown / refined unknown members at every depth (not-null, numeric bounds incl./excl./infinite/huge, prefixes up to 330 bytes with multi-byte "+
		"runes and combining sequences at the cut, length bounds), numbers at the int64/uint64 limits ±1, whole numbers beyond, exact float64, other decimals, "+
		"non-standard precisions, ±inf, ±0; marked values; mutated and hand-made item trees for the decoder. "+
		"non-trivial = depth >= 2 or a non-integer number; distinct = distinct wire strings", runC16)
}

// ---- canonical print of a decoded value (sets without bucket ids, sorted) ----

func canonPayload(v cty.Value) string {
	if v.IsMarked() || !v.IsKnown() || v.IsNull() {
		return cty.VerifDump(v)
	}
	ty := v.Type()
	switch {
	case ty.IsListType() || ty.IsTupleType():
		var sb strings.Builder
		sb.WriteString("(seq")
		for it := v.ElementIterator(); it.Next(); {
			_, ev := it.Element()
			sb.WriteByte(' ')
			sb.WriteString(canonPayload(ev))
		}
		sb.WriteByte(')')
		return sb.String()
	case ty.IsMapType() || ty.IsObjectType():
		var sb strings.Builder
		sb.WriteString("(smap")
		for it := v.ElementIterator(); it.Next(); {
			ek, ev := it.Element()
			sb.WriteString(" (" + encStr(ek.AsString()) + " " + canonPayload(ev) + ")")
		}
		sb.WriteByte(')')
		return sb.String()
	case ty.IsSetType():
		var ms []string
		for it := v.ElementIterator(); it.Next(); {
			_, ev := it.Element()
			ms = append(ms, canonPayload(ev))
		}
		sort.Strings(ms)
		if len(ms) == 0 {
			return "(sset)"
		}
		return "(sset " + strings.Join(ms, " ") + ")"
	}
	return cty.VerifDump(v)
}

// c16Wire is the wire form of an input value for `mp.marshal`: as encVal, but a
// set lists its members in ITERATION order (cty sorts set members by value when
// iterating, and that is the order Marshal writes them in) under a dummy bucket id.
func c16WirePayload(v cty.Value) string {
	if v.IsMarked() {
		u, m := v.Unmark()
		return "(mk " + encMarks(m) + " " + c16WirePayload(u) + ")"
	}
	if !v.IsKnown() || v.IsNull() {
		return cty.VerifDump(v)
	}
	ty := v.Type()
	switch {
	case ty.IsListType() || ty.IsTupleType():
		var sb strings.Builder
		sb.WriteString("(seq")
		for it := v.ElementIterator(); it.Next(); {
			_, ev := it.Element()
			sb.WriteByte(' ')
			sb.WriteString(c16WirePayload(ev))
		}
		sb.WriteByte(')')
		return sb.String()
	case ty.IsMapType() || ty.IsObjectType():
		var sb strings.Builder
		sb.WriteString("(smap")
		for it := v.ElementIterator(); it.Next(); {
			ek, ev := it.Element()
			sb.WriteString(" (" + encStr(ek.AsString()) + " " + c16WirePayload(ev) + ")")
		}
		sb.WriteByte(')')
		return sb.String()
	case ty.IsSetType():
		var sb strings.Builder
		sb.WriteString("(sset")
		for it := v.ElementIterator(); it.Next(); {
			_, ev := it.Element()
			sb.WriteString(" (0 " + c16WirePayload(ev) + ")")
		}
		sb.WriteByte(')')
		return sb.String()
	}
	return cty.VerifDump(v)
}

func c16Wire(v cty.Value) string { return "(v " + encTy(v.Type()) + " " + c16WirePayload(v) + ")" }

func canonVal(v cty.Value) string {
	if v == cty.NilVal {
		return "NILVAL"
	}
	return "(v " + encTy(v.Type()) + " " + canonPayload(v) + ")"
}

// ---- walking a value ---------------------------------------------------------

// c16Walk calls f on every node (marks removed for the walk).
func c16Walk(v cty.Value, depth int, f func(v cty.Value, depth int)) {
	v, _ = v.Unmark()
	f(v, depth)
	if !v.IsKnown() || v.IsNull() {
		return
	}
	ty := v.Type()
	if ty.IsCollectionType() || ty.IsTupleType() || ty.IsObjectType() {
		for it := v.ElementIterator(); it.Next(); {
			_, ev := it.Element()
			c16Walk(ev, depth+1, f)
		}
	}
}

func c16Depth(v cty.Value) int {
	d := 0
	c16Walk(v, 1, func(_ cty.Value, k int) {
		if k > d {
			d = k
		}
	})
	return d
}

// c16Oracle is the oracle column of `mp.marshal`: the real SafeKnownPrefix of
// every byte-cut prefix the encoder will compute.  ok=false: an answer that is
// not UTF-8 (the model's strings are).
func c16Oracle(v cty.Value) (col string, ok bool) {
	ok = true
	seen := map[string]bool{}
	var sb strings.Builder
	sb.WriteByte('(')
	c16Walk(v, 1, func(n cty.Value, _ int) {
		if n.IsKnown() || n.Type() != cty.String {
			return
		}
		p := n.Range().StringPrefix()
		if len(p) <= 256 {
			return
		}
		cut := p[:255]
		if seen[cut] {
			return
		}
		seen[cut] = true
		safe := ctystrings.SafeKnownPrefix(cut)
		if !utf8.ValidString(safe) {
			ok = false
			return
		}
		if sb.Len() > 1 {
			sb.WriteByte(' ')
		}
		fmt.Fprintf(&sb, "(h%x %s)", cut, encStr(safe))
	})
	sb.WriteByte(')')
	return sb.String(), ok
}

// ---- Go literals for replay --------------------------------------------------

func c16NumLit(f *big.Float) string {
	if f.IsInf() {
		if f.Signbit() {
			return "cty.NegativeInfinity"
		}
		return "cty.PositiveInfinity"
	}
	if i, acc := f.Int64(); acc == big.Exact && f.Prec() == 64 && !(i == 0 && f.Signbit()) {
		return fmt.Sprintf("cty.NumberIntVal(%d)", i)
	}
	if f.Prec() == 53 {
		if x, acc := f.Float64(); acc == big.Exact {
			return fmt.Sprintf("cty.NumberFloatVal(%s)", big.NewFloat(x).Text('g', -1))
		}
	}
	if f.Prec() == 512 {
		s := f.Text('f', -1)
		if g, _, err := big.ParseFloat(s, 10, 512, big.ToNearestEven); err == nil && g.Cmp(f) == 0 && g.Signbit() == f.Signbit() {
			return fmt.Sprintf("cty.MustParseNumberVal(%q)", s)
		}
	}
	return fmt.Sprintf("cty.NumberVal(func() *big.Float { f, _, _ := big.ParseFloat(%q, 0, %d, big.ToNearestEven); return f }())", f.Text('p', 0), f.Prec())
}

func c16TyLit(t cty.Type) string { return t.GoString() }

func c16Lit(v cty.Value) string {
	if v.IsMarked() {
		u, m := v.Unmark()
		var ms []string
		for k := range m {
			ms = append(ms, fmt.Sprintf("%q", fmt.Sprint(k)))
		}
		sort.Strings(ms)
		return c16Lit(u) + ".WithMarks(cty.NewValueMarks(" + strings.Join(ms, ", ") + "))"
	}
	ty := v.Type()
	if v.IsNull() {
		return "cty.NullVal(" + c16TyLit(ty) + ")"
	}
	if !v.IsKnown() {
		if ty == cty.DynamicPseudoType {
			return "cty.DynamicVal"
		}
		s := "cty.UnknownVal(" + c16TyLit(ty) + ")"
		if !strings.HasPrefix(cty.VerifDump(v), "(unk (") {
			return s
		}
		rng := v.Range()
		s += ".Refine()"
		if rng.DefinitelyNotNull() {
			s += ".NotNull()"
		}
		switch {
		case ty == cty.Number:
			if lo, inc := rng.NumberLowerBound(); lo.IsKnown() && !strings.Contains(cty.VerifDump(v), "(nu f - ") && !strings.Contains(cty.VerifDump(v), "(nu u - ") {
				s += fmt.Sprintf(".NumberRangeLowerBound(%s, %v)", c16NumLit(lo.AsBigFloat()), inc)
			}
			if hi, inc := rng.NumberUpperBound(); hi.IsKnown() && !strings.HasSuffix(cty.VerifDump(v), " -))") {
				s += fmt.Sprintf(".NumberRangeUpperBound(%s, %v)", c16NumLit(hi.AsBigFloat()), inc)
			}
		case ty == cty.String:
			if p := rng.StringPrefix(); p != "" {
				s += fmt.Sprintf(".StringPrefixFull(%q)", p)
			}
		case ty.IsCollectionType():
			if lo := rng.LengthLowerBound(); lo != 0 {
				s += fmt.Sprintf(".CollectionLengthLowerBound(%d)", lo)
			}
			if hi := rng.LengthUpperBound(); hi != math.MaxInt {
				s += fmt.Sprintf(".CollectionLengthUpperBound(%d)", hi)
			}
		}
		return s + ".NewValue()"
	}
	switch {
	case ty == cty.Bool:
		return fmt.Sprintf("cty.BoolVal(%v)", v.True())
	case ty == cty.String:
		return fmt.Sprintf("cty.StringVal(%q)", v.AsString())
	case ty == cty.Number:
		return c16NumLit(v.AsBigFloat())
	case ty.IsCapsuleType():
		return "cty.CapsuleVal(" + c16TyLit(ty) + ", new(int))"
	case ty.IsListType() || ty.IsSetType() || ty.IsTupleType():
		var ms []string
		for it := v.ElementIterator(); it.Next(); {
			_, ev := it.Element()
			ms = append(ms, c16Lit(ev))
		}
		switch {
		case ty.IsTupleType():
			return "cty.TupleVal([]cty.Value{" + strings.Join(ms, ", ") + "})"
		case len(ms) == 0 && ty.IsListType():
			return "cty.ListValEmpty(" + c16TyLit(ty.ElementType()) + ")"
		case len(ms) == 0:
			return "cty.SetValEmpty(" + c16TyLit(ty.ElementType()) + ")"
		case ty.IsListType():
			return "cty.ListVal([]cty.Value{" + strings.Join(ms, ", ") + "})"
		}
		return "cty.SetVal([]cty.Value{" + strings.Join(ms, ", ") + "})"
	default:
		var ms []string
		for it := v.ElementIterator(); it.Next(); {
			ek, ev := it.Element()
			ms = append(ms, fmt.Sprintf("%q: %s", ek.AsString(), c16Lit(ev)))
		}
		if ty.IsMapType() {
			if len(ms) == 0 {
				return "cty.MapValEmpty(" + c16TyLit(ty.ElementType()) + ")"
			}
			return "cty.MapVal(map[string]cty.Value{" + strings.Join(ms, ", ") + "})"
		}
		return "cty.ObjectVal(map[string]cty.Value{" + strings.Join(ms, ", ") + "})"
	}
}

// ---- generators ---------------------------------------------------------------

func c16BF(prec uint, s string) cty.Value {
	f, _, err := big.ParseFloat(s, 0, prec, big.ToNearestEven)
	if err != nil {
		panic(err)
	}
	return cty.NumberVal(f)
}

// c16Wide is 2^k + d held at exactly the precision it needs.
func c16Wide(k uint, d int64) cty.Value {
	z := new(big.Int).Lsh(big.NewInt(1), k)
	z.Add(z, big.NewInt(d))
	f := new(big.Float).SetPrec(uint(z.BitLen())).SetInt(z)
	return cty.NumberVal(f)
}

// the numbers the quantifier names, beyond what genNumber already covers
var c16NumPool = func() []cty.Value {
	vs := []cty.Value{
		cty.NumberIntVal(math.MaxInt64), cty.NumberIntVal(math.MaxInt64 - 1), cty.NumberIntVal(math.MinInt64), cty.NumberIntVal(math.MinInt64 + 1),
		cty.NumberUIntVal(1 << 63), cty.NumberUIntVal(1<<63 + 1), cty.NumberUIntVal(math.MaxUint64), cty.NumberUIntVal(math.MaxUint64 - 1),
		cty.MustParseNumberVal("18446744073709551616"), cty.MustParseNumberVal("18446744073709551617"), cty.MustParseNumberVal("-9223372036854775809"),
		cty.MustParseNumberVal("9223372036854775807.5"), cty.MustParseNumberVal("-9223372036854775808.5"), cty.MustParseNumberVal("18446744073709551615.25"),
		cty.NumberFloatVal(math.Ldexp(1, 63)), cty.NumberFloatVal(-math.Ldexp(1, 63)), cty.NumberFloatVal(math.Ldexp(1, 64)), cty.NumberFloatVal(1e30), cty.NumberFloatVal(-1e22),
		cty.NumberFloatVal(math.Ldexp(1, 62)), cty.NumberFloatVal(9007199254740993), cty.NumberFloatVal(123456789012345680000),
		cty.NumberFloatVal(0.5), cty.NumberFloatVal(-0.75), cty.NumberFloatVal(1.0 / 3), cty.NumberFloatVal(1e-320), cty.NumberFloatVal(math.MaxFloat64),
		cty.NumberFloatVal(127), cty.NumberFloatVal(128), cty.NumberFloatVal(-32), cty.NumberFloatVal(-33), cty.NumberIntVal(255), cty.NumberIntVal(256), cty.NumberIntVal(65535), cty.NumberIntVal(65536),
		cty.NumberIntVal(4294967295), cty.NumberIntVal(4294967296), cty.NumberIntVal(-128), cty.NumberIntVal(-129), cty.NumberIntVal(-32768), cty.NumberIntVal(-32769), cty.NumberIntVal(-2147483648), cty.NumberIntVal(-2147483649),
		cty.MustParseNumberVal("0.1"), cty.MustParseNumberVal("-0.1"), cty.MustParseNumberVal("1e-30"), cty.MustParseNumberVal("1e-200"), cty.MustParseNumberVal("1e-520"), cty.MustParseNumberVal("3e-1100"), cty.MustParseNumberVal("123456789.000000001"),
		cty.MustParseNumberVal("1e40"), cty.MustParseNumberVal("1e200"), cty.MustParseNumberVal("-1e154"),
		c16BF(100, "0.1"), c16BF(100, "-3.3"), c16BF(24, "0.1"), c16BF(600, "0.1"), c16BF(20, "1e30"), c16BF(70, "1e25"), c16BF(64, "0x1p+70"), c16BF(600, "0x1.000000000000000000000000000001p+100"),
		c16BF(8, "0x1p+200"), c16BF(30, "12345678912345"), c16BF(1, "0x1p+64"),
		// whole numbers at the edge of what the decoder's 512-bit parse keeps: 2^512-1 (fits), 2^512+1 at 513 bits (does not)
		// (2^513+3 at 514 bits is rounded UP by the decoder)
		c16Wide(512, -1), c16Wide(512, 1), c16Wide(513, 3), c16BF(8, "0x1p+3000"),
		cty.PositiveInfinity, cty.NegativeInfinity, cty.NumberFloatVal(math.Inf(1)), cty.NumberVal(new(big.Float).SetInf(true)),
		cty.NumberVal(new(big.Float).Neg(new(big.Float))), cty.Zero,
	}
	return vs
}()

func c16Number(ctx *Ctx) cty.Value {
	r := ctx.R
	switch r.Intn(10) {
	case 0, 1, 2:
		return c16NumPool[r.Intn(len(c16NumPool))]
	case 3:
		// a whole float64 beyond int64
		return cty.NumberFloatVal(math.Ldexp(float64(r.Int63n(1<<53)|1<<52), 11+r.Intn(60)) * float64(1-2*r.Intn(2)))
	case 4:
		// 2^63 / 2^64 neighbourhood at 512 bits
		z := new(big.Int).Lsh(big.NewInt(1), uint(63+r.Intn(2)))
		z.Add(z, big.NewInt(int64(r.Intn(5)-2)))
		if r.Intn(2) == 0 {
			z.Neg(z)
		}
		return cty.NumberVal(new(big.Float).SetPrec(512).SetInt(z))
	case 5:
		// a decimal with a few fractional digits, parsed at 512 bits
		return cty.MustParseNumberVal(fmt.Sprintf("%d.%0*d", r.Intn(2000)-1000, 1+r.Intn(12), r.Intn(1000)))
	}
	return genNumber(r, ValOpts{})
}

var c16PrefixAtoms = []string{"a", "b", "-", "/", " ", "é", "é", "가", "ᄀ", "ᅡ", "👍", "\U0001F3FD", "‍", "\U0001F1E6", "\U0001F1FA", "\r\n", "Å", "ﬁ", "z", "1"}

func c16Prefix(ctx *Ctx) string {
	r := ctx.R
	switch r.Intn(4) {
	case 0:
		return genString(r)
	case 1:
		return []string{"a", "ab", "a-", "x/", "foo-", "é", "가나"}[r.Intn(7)]
	}
	// long: around and beyond the encoder's limit, varied material at the cut
	var sb strings.Builder
	pad := 236 + r.Intn(24)
	fill := []string{"a", "ab", "-", "é"}[r.Intn(4)]
	for sb.Len() < pad {
		sb.WriteString(fill)
	}
	n := 2 + r.Intn(30)
	for i := 0; i < n; i++ {
		sb.WriteString(c16PrefixAtoms[r.Intn(len(c16PrefixAtoms))])
	}
	return sb.String()
}

// c16Unknown builds an unknown value of type t with a random valid refinement of every kind.
func c16Unknown(ctx *Ctx, t cty.Type) cty.Value {
	r := ctx.R
	u := cty.UnknownVal(t)
	if t == cty.DynamicPseudoType || r.Intn(5) == 0 {
		return u
	}
	for attempt := 0; attempt < 8; attempt++ {
		var res cty.Value
		p, _ := try(func() {
			b := u.Refine()
			if r.Intn(2) == 0 {
				b = b.NotNull()
			}
			switch {
			case t == cty.Number:
				a, c := c16Number(ctx), c16Number(ctx)
				if a.AsBigFloat().Cmp(c.AsBigFloat()) > 0 {
					a, c = c, a
				}
				if r.Intn(3) != 0 {
					b = b.NumberRangeLowerBound(a, r.Intn(2) == 0)
				}
				if r.Intn(3) != 0 {
					b = b.NumberRangeUpperBound(c, r.Intn(2) == 0)
				}
			case t == cty.String:
				if r.Intn(4) != 0 {
					if r.Intn(3) == 0 {
						b = b.StringPrefix(c16Prefix(ctx))
					} else {
						b = b.StringPrefixFull(c16Prefix(ctx))
					}
				}
			case t.IsCollectionType():
				lo := r.Intn(4)
				if r.Intn(8) == 0 {
					lo = 100 + r.Intn(70000)
				}
				if r.Intn(2) == 0 {
					b = b.CollectionLengthLowerBound(lo)
				}
				if r.Intn(2) == 0 {
					hi := lo + r.Intn(4)
					if r.Intn(8) == 0 {
						hi = lo + 1<<uint(r.Intn(40))
					}
					b = b.CollectionLengthUpperBound(hi)
				}
			}
			res = b.NewValue()
		})
		if !p {
			return res
		}
	}
	return u
}

// c16Concretize replaces every placeholder by a concrete type (as concretize, but
// walking attributes in a fixed order so that the PRNG stream is reproducible).
func c16Concretize(r *rand.Rand, t cty.Type) cty.Type {
	switch {
	case t == cty.DynamicPseudoType:
		return genTy(r, 1, TyOpts{})
	case t.IsListType():
		return cty.List(c16Concretize(r, t.ElementType()))
	case t.IsSetType():
		return cty.Set(c16Concretize(r, t.ElementType()))
	case t.IsMapType():
		return cty.Map(c16Concretize(r, t.ElementType()))
	case t.IsTupleType():
		es := t.TupleElementTypes()
		n := make([]cty.Type, len(es))
		for i := range es {
			n[i] = c16Concretize(r, es[i])
		}
		return cty.Tuple(n)
	case t.IsObjectType():
		src := t.AttributeTypes()
		atys := map[string]cty.Type{}
		for _, k := range sortedKeys(src) {
			atys[k] = c16Concretize(r, src[k])
		}
		return cty.Object(atys)
	}
	return t
}

type c16Opts struct {
	unknown, null, marks, capsule bool
}

// c16Val generates a value conforming to the constraint t.
func c16Val(ctx *Ctx, t cty.Type, depth int, o c16Opts) cty.Value {
	r := ctx.R
	if t == cty.DynamicPseudoType {
		if o.unknown && r.Intn(6) == 0 {
			return cty.DynamicVal
		}
		if o.null && r.Intn(12) == 0 {
			return cty.NullVal(cty.DynamicPseudoType)
		}
		t = genTy(r, minInt(depth, 2), TyOpts{Capsule: o.capsule})
	}
	v := c16ValU(ctx, t, depth, o)
	if o.marks && r.Intn(6) == 0 {
		v = v.Mark(markNames[r.Intn(len(markNames))])
	}
	return v
}

func c16ValU(ctx *Ctx, t cty.Type, depth int, o c16Opts) cty.Value {
	r := ctx.R
	if o.null && r.Intn(10) == 0 {
		return cty.NullVal(c16Concretize(r, t))
	}
	if o.unknown && r.Intn(6) == 0 {
		return c16Unknown(ctx, c16Concretize(r, t))
	}
	switch {
	case t == cty.Bool:
		return cty.BoolVal(r.Intn(2) == 0)
	case t == cty.Number:
		return c16Number(ctx)
	case t == cty.String:
		return cty.StringVal(genString(r))
	case t.IsCapsuleType():
		return cty.CapsuleVal(t, capsulePayloads[r.Intn(len(capsulePayloads))])
	case t.IsListType() || t.IsSetType() || t.IsMapType():
		ety := c16Concretize(r, t.ElementType())
		n := r.Intn(4)
		if depth <= 0 {
			n = 0
		}
		oo := o
		if t.IsSetType() {
			oo.marks = false
		}
		vs := make([]cty.Value, n)
		for i := range vs {
			vs[i] = c16Val(ctx, ety, depth-1, oo)
		}
		switch {
		case t.IsListType():
			if n == 0 {
				return cty.ListValEmpty(ety)
			}
			return cty.ListVal(vs)
		case t.IsSetType():
			if n == 0 {
				return cty.SetValEmpty(ety)
			}
			return cty.SetVal(vs)
		}
		if n == 0 {
			return cty.MapValEmpty(ety)
		}
		m := map[string]cty.Value{}
		for _, v := range vs {
			m[[]string{"a", "b", "k", "é", "zz", "", "가"}[r.Intn(7)]] = v
		}
		return cty.MapVal(m)
	case t.IsTupleType():
		es := t.TupleElementTypes()
		vs := make([]cty.Value, len(es))
		for i := range es {
			vs[i] = c16Val(ctx, es[i], depth-1, o)
		}
		return cty.TupleVal(vs)
	case t.IsObjectType():
		vs := map[string]cty.Value{}
		atys := t.AttributeTypes()
		for _, k := range sortedKeys(atys) { // a fixed order: the PRNG stream must not depend on Go's map order
			vs[k] = c16Val(ctx, atys[k], depth-1, o)
		}
		return cty.ObjectVal(vs)
	}
	panic("c16Val: unsupported type " + t.GoString())
}

// ---- the property predicate on real outputs -----------------------------------

func c16HasCapsule(v cty.Value) bool { return strings.Contains(encTy(v.Type()), "(C ") }

// c16Route: which encoding the property speaks of for a known number
func c16IsWholeOrF64(f *big.Float) (whole, f64 bool) {
	if f.IsInf() {
		return false, true
	}
	whole = f.IsInt()
	_, acc := f.Float64()
	return whole, acc == big.Exact
}

type c16Diff struct {
	site, sig, why string
}

func c16NumSig(f *big.Float) string {
	whole, f64 := c16IsWholeOrF64(f)
	_, acc := f.Int64()
	switch {
	case whole && acc != big.Exact && f.MinPrec() > 512:
		// all digits are written (since /repo 986ad55), but the decoder parses at 512 bits
		return "whole-wider-than-512-bits"
	case whole && acc != big.Exact:
		// (until /repo 986ad55 the class whole-beyond-int64-shortest-text-inexact lived here: the shortest
		// text of a whole number held at few bits is another number; all digits are written now)
		return "whole-beyond-int64"
	case whole:
		return "int64"
	case f64:
		return "exact-float64"
	case f.Prec() == 512:
		return "decimal-512"
	}
	return fmt.Sprintf("decimal-nonstandard-precision")
}

// admits-all comparison of one numeric bound: does the decoded bound (d) admit
// everything the original bound (o) admits?  lower=true for lower bounds.
func c16BoundCovers(d cty.Value, dinc bool, o cty.Value, oinc bool, lower bool) bool {
	if !d.IsKnown() || !o.IsKnown() {
		return !d.IsKnown() || false
	}
	c := d.AsBigFloat().Cmp(o.AsBigFloat())
	if !lower {
		c = -c
	}
	return c < 0 || (c == 0 && (dinc || !oinc))
}

// c16Approx compares the decoded value with the original.  nil = the property holds.
func c16Approx(dec, orig cty.Value) *c16Diff {
	if !dec.Type().Equals(orig.Type()) {
		return &c16Diff{"type-preserved", "", "decoded " + encTy(dec.Type()) + " for " + encTy(orig.Type())}
	}
	ty := orig.Type()
	if orig.IsNull() {
		if !dec.IsNull() {
			return &c16Diff{"roundtrip", "null-lost", "null decoded as " + canonVal(dec)}
		}
		return nil
	}
	if !orig.IsKnown() {
		if dec.IsKnown() {
			return &c16Diff{"roundtrip-refinement", "unknown-became-known", "unknown decoded as " + canonVal(dec)}
		}
		if ty == cty.DynamicPseudoType {
			return nil
		}
		or, dr := orig.Range(), dec.Range()
		if !or.DefinitelyNotNull() && dr.DefinitelyNotNull() {
			return &c16Diff{"roundtrip-refinement", "not-null-invented", "decoded refinement excludes null"}
		}
		switch {
		case ty == cty.Number:
			ol, oli := or.NumberLowerBound()
			dl, dli := dr.NumberLowerBound()
			oh, ohi := or.NumberUpperBound()
			dh, dhi := dr.NumberUpperBound()
			if !c16BoundCovers(dl, dli, ol, oli, true) {
				return &c16Diff{"roundtrip-refinement", "lower-bound-narrowed:" + c16NumSig(ol.AsBigFloat()), fmt.Sprintf("lower bound %s/%v decoded as %s/%v", cty.VerifDump(ol), oli, cty.VerifDump(dl), dli)}
			}
			if !c16BoundCovers(dh, dhi, oh, ohi, false) {
				return &c16Diff{"roundtrip-refinement", "upper-bound-narrowed:" + c16NumSig(oh.AsBigFloat()), fmt.Sprintf("upper bound %s/%v decoded as %s/%v", cty.VerifDump(oh), ohi, cty.VerifDump(dh), dhi)}
			}
		case ty == cty.String:
			if !strings.HasPrefix(or.StringPrefix(), dr.StringPrefix()) {
				return &c16Diff{"roundtrip-refinement", "prefix-not-a-prefix", fmt.Sprintf("prefix %q decoded as %q", or.StringPrefix(), dr.StringPrefix())}
			}
			if !utf8.ValidString(dr.StringPrefix()) || !norm.NFC.IsNormalString(dr.StringPrefix()) {
				return &c16Diff{"roundtrip-refinement", "prefix-malformed", fmt.Sprintf("decoded prefix %q", dr.StringPrefix())}
			}
		case ty.IsCollectionType():
			if dr.LengthLowerBound() > or.LengthLowerBound() || dr.LengthUpperBound() < or.LengthUpperBound() {
				return &c16Diff{"roundtrip-refinement", "length-bounds-narrowed", fmt.Sprintf("[%d,%d] decoded as [%d,%d]", or.LengthLowerBound(), or.LengthUpperBound(), dr.LengthLowerBound(), dr.LengthUpperBound())}
			}
		}
		return nil
	}
	if !dec.IsKnown() || dec.IsNull() {
		return &c16Diff{"roundtrip", "known-lost", canonVal(orig) + " decoded as " + canonVal(dec)}
	}
	switch {
	case ty == cty.Number:
		of, df := orig.AsBigFloat(), dec.AsBigFloat()
		whole, f64 := c16IsWholeOrF64(of)
		if whole || f64 {
			// "whole numbers of any size and exact float64 values come back numerically identical"
			if of.Cmp(df) != 0 {
				return &c16Diff{"roundtrip-number", c16NumSig(of), fmt.Sprintf("%s decoded as %s", cty.VerifDump(orig), cty.VerifDump(dec))}
			}
			return nil
		}
		// "every other number comes back equal"
		if !dec.RawEquals(orig) {
			return &c16Diff{"roundtrip-number", c16NumSig(of), fmt.Sprintf("%s decoded as %s (not Equal)", cty.VerifDump(orig), cty.VerifDump(dec))}
		}
		return nil
	case ty == cty.Bool || ty == cty.String:
		if !dec.RawEquals(orig) {
			return &c16Diff{"roundtrip", "primitive", canonVal(orig) + " decoded as " + canonVal(dec)}
		}
		return nil
	case ty.IsSetType():
		if dec.LengthInt() != orig.LengthInt() {
			return &c16Diff{"roundtrip", "set-length", canonVal(orig) + " decoded as " + canonVal(dec)}
		}
		// a matching of members (sets are small)
		ds := dec.AsValueSlice()
		used := make([]bool, len(ds))
		var first *c16Diff
		for _, om := range orig.AsValueSlice() {
			found := false
			for j, dm := range ds {
				if used[j] {
					continue
				}
				if d := c16Approx(dm, om); d == nil {
					used[j], found = true, true
					break
				} else if first == nil {
					first = d
				}
			}
			if !found {
				if first != nil && first.site != "type-preserved" {
					return first
				}
				return &c16Diff{"roundtrip", "set-member", canonVal(orig) + " decoded as " + canonVal(dec)}
			}
		}
		return nil
	default:
		if dec.LengthInt() != orig.LengthInt() {
			return &c16Diff{"roundtrip", "length", canonVal(orig) + " decoded as " + canonVal(dec)}
		}
		oi, di := orig.ElementIterator(), dec.ElementIterator()
		for oi.Next() && di.Next() {
			ok, ov := oi.Element()
			dk, dv := di.Element()
			if !ok.RawEquals(dk) {
				return &c16Diff{"roundtrip", "key", canonVal(orig) + " decoded as " + canonVal(dec)}
			}
			if d := c16Approx(dv, ov); d != nil {
				return d
			}
		}
		return nil
	}
}

// c16TypeSig classifies a lost type: the decoder rebuilds the type of a null,
// unknown or empty collection from the CONSTRAINT, so a placeholder inside a
// collection/tuple/object constraint is not filled in.
func c16TypeSig(v cty.Value, ct cty.Type) string {
	sig := "other"
	var rec func(v cty.Value, ct cty.Type)
	rec = func(v cty.Value, ct cty.Type) {
		if ct == cty.DynamicPseudoType || !ct.HasDynamicTypes() {
			return
		}
		empty := v.IsKnown() && !v.IsNull() && v.Type().IsCollectionType() && v.LengthInt() == 0
		if (v.IsNull() || !v.IsKnown() || empty) && !v.Type().Equals(ct) {
			sig = "null-unknown-or-empty-under-partly-dynamic-constraint"
			return
		}
		if !v.IsKnown() || v.IsNull() {
			return
		}
		switch {
		case ct.IsCollectionType():
			for it := v.ElementIterator(); it.Next(); {
				_, ev := it.Element()
				rec(ev, ct.ElementType())
			}
		case ct.IsTupleType():
			es := ct.TupleElementTypes()
			i := 0
			for it := v.ElementIterator(); it.Next(); i++ {
				_, ev := it.Element()
				rec(ev, es[i])
			}
		case ct.IsObjectType():
			for k, at := range ct.AttributeTypes() {
				rec(v.GetAttr(k), at)
			}
		}
	}
	rec(v, ct)
	return sig
}

// c16EncText: the decimal text Marshal writes for a number that travels as text
// (all digits of a whole number, the shortest identifying text otherwise).
func c16EncText(f *big.Float) string {
	if f.IsInt() {
		return f.Text('f', 0)
	}
	return f.Text('f', -1)
}

// c16InexactText: the root-cause class of a number (known, or a bound of an unknown)
// somewhere in v whose decimal text as Marshal writes it does not parse back (at 512
// bits) to the same number; "" if there is none.
func c16InexactText(v cty.Value) string {
	cls := ""
	note := func(f *big.Float) {
		if f.IsInf() {
			return
		}
		if _, acc := f.Int64(); acc == big.Exact {
			return
		}
		if _, acc := f.Float64(); acc == big.Exact && !f.IsInt() {
			return
		}
		back, _, err := big.ParseFloat(c16EncText(f), 10, 512, big.ToNearestEven)
		if err == nil && back.Cmp(f) == 0 {
			return
		}
		if s := c16NumSig(f); cls == "" || s == "whole-wider-than-512-bits" {
			cls = s
		}
	}
	c16Walk(v, 1, func(n cty.Value, _ int) {
		if n.Type() != cty.Number || n.IsNull() {
			return
		}
		if n.IsKnown() {
			note(n.AsBigFloat())
			return
		}
		if lo, _ := n.Range().NumberLowerBound(); lo.IsKnown() {
			note(lo.AsBigFloat())
		}
		if hi, _ := n.Range().NumberUpperBound(); hi.IsKnown() {
			note(hi.AsBigFloat())
		}
	})
	return cls
}

func c16MaxRefinementText(v cty.Value) int {
	m := 0
	c16Walk(v, 1, func(n cty.Value, _ int) {
		if n.IsKnown() || n.Type() != cty.Number {
			return
		}
		tot := 0
		if lo, _ := n.Range().NumberLowerBound(); lo.IsKnown() && !lo.AsBigFloat().IsInf() {
			tot += len(c16EncText(lo.AsBigFloat()))
		}
		if hi, _ := n.Range().NumberUpperBound(); hi.IsKnown() && !hi.AsBigFloat().IsInf() {
			tot += len(c16EncText(hi.AsBigFloat()))
		}
		if tot > m {
			m = tot
		}
	})
	return m
}

// c16Case runs one (value, constraint) pair through the real code.
func c16Case(ctx *Ctx, v cty.Value, ct cty.Type, tag string) {
	w, tw := c16Wire(v), encTy(ct)
	key := tag + " " + w + " " + tw
	lit := "msgpack.Marshal(" + c16Lit(v) + ", " + c16TyLit(ct) + ")"
	ctx.Tag("case:" + tag)
	nontrivial := c16Depth(v) >= 2
	c16Walk(v, 1, func(n cty.Value, _ int) {
		if n.IsKnown() && !n.IsNull() && n.Type() == cty.Number && !n.AsBigFloat().IsInt() {
			nontrivial = true
		}
		if !n.IsKnown() {
			ctx.Tag("unknown:" + c05TyKind(n.Type()))
		}
	})
	ctx.Eval(key, nontrivial)

	var b []byte
	var err error
	p, why := try(func() { b, err = msgpack.Marshal(v, ct) })
	conforms := len(v.Type().TestConformance(ct)) == 0
	oracle, oracleOK := c16Oracle(v)
	if !oracleOK {
		ctx.Tag("skip:safe-prefix-oracle-not-utf8")
	}
	c16d16Numbers(ctx, v)
	impl := "err"
	var tree *mpItem
	switch {
	case p:
		impl = "panic"
	case err == nil:
		var rerr error
		tree, rerr = mpReadAll(b)
		if rerr != nil {
			ctx.Probe("mp-reader-reads-real-output", false, fmt.Sprintf("%v on %x", rerr, b))
			return
		}
		ctx.Probe("mp-reader-reads-real-output", true, "")
		if bad := mpHasBad(tree); bad != "" {
			ctx.Tag("skip:" + bad)
			tree = nil
		} else {
			impl = "ok " + tree.wire()
			c16d16IntWidths(ctx, tree) // d16: family and width of every integer item (the wire form drops the width)
			// self-check of the writer on what the library wrote (the library writes compactly)
			if back := mpWrite(nil, tree); !bytes.Equal(back, b) {
				ctx.Probe("mp-rewrite", false, fmt.Sprintf("%x rewritten as %x", b, back))
			} else {
				ctx.Probe("mp-rewrite", true, "")
			}
		}
	}
	if oracleOK && (tree != nil || err != nil || p) {
		ctx.Add("mp.marshal", impl, w, tw, oracle)
		ctx.Add("d16.shape", "wf:true shape:true ok-or-err:true", w, tw, oracle) // d16: hypotheses of marshal_total_partial hold of every generated conforming value
		if !conforms {
			// d16: the convert.Convert path of Marshal.  A conversion that builds a set orders its members by the
			// real hash: with a set type in sight both sides print every array with its members sorted.
			if strings.Contains(tw, "(E ") || strings.Contains(encTy(v.Type()), "(E ") {
				simpl := impl
				if tree != nil {
					simpl = "ok " + c16d16WireSorted(tree)
				}
				ctx.Add("d16.marshalc-sets", simpl, w, tw, oracle)
			} else {
				ctx.Add("d16.marshalc", impl, w, tw, oracle)
			}
			ctx.Tag("marshal-nonconforming:" + strings.SplitN(impl, " ", 2)[0])
		}
	}

	if v.ContainsMarked() {
		// "marked values are rejected with an error"
		if p {
			ctx.Fail(Failure{Site: "marked-rejected", Sig: "panic", What: "Marshal panicked on a marked value", Input: w + " " + tw, GoLit: lit, Outcome: why})
		} else if err == nil {
			sig := "accepted"
			if !conforms {
				// root cause: the type does not conform, Marshal converts first, and the conversion DROPS the part
				// of the value that carries the mark (an attribute the target object type does not have)
				if cv, cerr := convert.Convert(v, ct); cerr == nil && !cv.ContainsMarked() {
					sig = "accepted:mark-only-in-part-dropped-by-conversion-to-constraint"
				}
			}
			ctx.Fail(Failure{Site: "marked-rejected", Sig: sig, What: "Marshal accepted a marked value", Input: w + " " + tw, GoLit: lit, Outcome: fmt.Sprintf("%x", b)})
		}
		return
	}
	if !conforms {
		return
	}
	if c16HasCapsule(v) {
		if p {
			ctx.Fail(Failure{Site: "capsule-rejected", Sig: "panic", What: "Marshal panicked on a capsule value", Input: w + " " + tw, GoLit: lit, Outcome: why})
		}
		return
	}
	if p || err != nil {
		out := why
		if err != nil {
			out = err.Error()
		}
		ctx.Fail(Failure{Site: "marshal-total", Sig: map[bool]string{true: "panic", false: "error"}[p], What: "Marshal failed on an unmarked capsule-free conforming value", Input: w + " " + tw, GoLit: lit, Outcome: out})
		return
	}
	var dec cty.Value
	var derr error
	dp, dwhy := try(func() { dec, derr = msgpack.Unmarshal(b, ct) })
	if tree != nil {
		dimpl := "err"
		if dp {
			dimpl = "panic"
		} else if derr == nil {
			dimpl = "ok " + canonVal(dec)
		}
		ctx.Add("mp.unmarshal", dimpl, tree.wire(), tw)
		ctx.Add("mp.unmarshalx", dimpl, tree.wire(), tw) // the exact oracle of the theorems: must agree wherever it answers
	}
	ulit := "b, _ := " + lit + "; msgpack.Unmarshal(b, " + c16TyLit(ct) + ")"
	// the hypotheses of C16.roundtrip_covers must imply that the real round trip is fine
	realOK := !dp && derr == nil && c16Approx(dec, v) == nil
	if oracleOK {
		fop := "mp.fitsimp" // the driver answers `unmodelled` (not compared) when the hypotheses do not hold
		if strings.Contains(encTy(v.Type()), "(E ") {
			fop = "mp.fitsimp-sets"
		}
		ctx.Add(fop, encBool(realOK), w, tw, oracle, encBool(realOK))
	}
	if dp || derr != nil {
		out, sig := dwhy, "panic"
		if derr != nil {
			out, sig = derr.Error(), "error"
		}
		switch {
		case strings.Contains(out, "inconsistent") && strings.Contains(out, "element types"),
			strings.Contains(out, "elements must have the same type"):
			// the decoder met members of different types (a panic of ListVal/SetVal/MapVal before /repo e63bbcc, an error since)
			sig = "inconsistent-element-types:" + c16TypeSig(v, ct)
		case c16d16InexactBound(v) != "" && (strings.Contains(out, "bound") || strings.Contains(out, "invalid refinements")):
			// the decoded bounds are not the encoded ones, and no longer consistent with each other
			// (a panic of the refinement builder before /repo 28caeac, an error since); d16: the root cause must
			// sit in a BOUND of an unknown number with TWO bounds, not in any number anywhere in the value
			sig = "inconsistent-bounds:" + c16d16InexactBound(v)
		case strings.Contains(out, "oversize unknown value refinement") && c16MaxRefinementText(v) > 900:
			sig = "oversize-refinement-from-long-bound-text"
		}
		ctx.Fail(Failure{Site: "decode-own-output", Sig: sig, What: "Unmarshal does not accept what Marshal produced for the same type", Input: w + " " + tw, GoLit: ulit, Outcome: out})
		return
	}
	if d := c16Approx(dec, v); d != nil {
		sig := d.sig
		if d.site == "type-preserved" {
			sig = c16TypeSig(v, ct)
		}
		ctx.Fail(Failure{Site: d.site, Sig: sig, What: "round trip through Marshal/Unmarshal with the same constraint: " + d.why, Input: w + " " + tw, GoLit: ulit, Outcome: canonVal(dec)})
	}
	// ImpliedType of real output
	c16Implied(ctx, b, tree)
}

func c16Implied(ctx *Ctx, b []byte, tree *mpItem) {
	if tree == nil {
		return
	}
	var ty cty.Type
	var err error
	p, _ := try(func() { ty, err = msgpack.ImpliedType(b) })
	impl := "err"
	if p {
		impl = "panic"
	} else if err == nil {
		impl = "ok " + encTy(ty)
	}
	ctx.Add("mp.implied", impl, tree.wire())
}

// ---- decoder on item trees that Marshal does not produce ------------------------

func c16StringsNormal(it *mpItem) bool {
	if (it.kind == "str" || it.kind == "bin") && utf8.Valid(it.s) && !norm.NFC.IsNormal(it.s) {
		return false // the decoder normalises what it takes as a string; the driver runs with norm = id
	}
	for _, x := range it.xs {
		if !c16StringsNormal(x) {
			return false
		}
	}
	return true
}

// c16Decode runs the real decoder and the model on the bytes of an item tree.
func c16Decode(ctx *Ctx, it *mpItem, ct cty.Type, tag string) {
	b := mpWrite(nil, it)
	back, err := mpReadAll(b)
	if err != nil {
		ctx.Probe("mp-writer-readable", false, fmt.Sprintf("%v on %x", err, b))
		return
	}
	ctx.Probe("mp-writer-readable", true, "")
	if bad := mpHasBad(back); bad != "" {
		ctx.Tag("skip:decode-outside-item-model")
		return
	}
	if !c16StringsNormal(back) {
		// d16: strings that are not in NFC — the real normalisation travels as an oracle column
		table, _, ok := c16d16NormTable(back)
		if !ok {
			ctx.Tag("skip:decode-non-nfc-bin")
			return
		}
		ctx.Tag("decode-nfc:" + tag)
		var dec cty.Value
		var derr error
		dp, _ := try(func() { dec, derr = msgpack.Unmarshal(b, ct) })
		dimpl := "err"
		if dp {
			dimpl = "panic"
		} else if derr == nil {
			dimpl = "ok " + canonVal(dec)
		}
		ctx.Add("d16.unmarshaln", dimpl, back.wire(), encTy(ct), table)
		return
	}
	ctx.Tag("decode:" + tag)
	var dec cty.Value
	var derr error
	dp, _ := try(func() { dec, derr = msgpack.Unmarshal(b, ct) })
	dimpl := "err"
	if dp {
		dimpl = "panic"
	} else if derr == nil {
		dimpl = "ok " + canonVal(dec)
	}
	ctx.Add("mp.unmarshal", dimpl, back.wire(), encTy(ct))
	ctx.Add("mp.unmarshalx", dimpl, back.wire(), encTy(ct))
	c16Implied(ctx, b, back)
}

func c16RandItem(ctx *Ctx, depth int) *mpItem {
	r := ctx.R
	n := 14
	if depth <= 0 {
		n = 11
	}
	switch r.Intn(n) {
	case 0:
		return mpNil()
	case 1:
		return mpBool(r.Intn(2) == 0)
	case 2:
		return mpInt(int64(r.Intn(300) - 150))
	case 3:
		it := mpInt([]int64{0, 1, 5, -1, -32, -33, 127, 128, math.MaxInt64, math.MinInt64}[r.Intn(10)])
		it.width = []int{0, 1, 2, 4, 8}[r.Intn(5)]
		return it
	case 4:
		it := mpUint([]uint64{0, 1, 6, 255, 256, 1 << 32, 1 << 63, math.MaxUint64}[r.Intn(8)])
		it.width = []int{1, 2, 4, 8}[r.Intn(4)]
		return it
	case 5:
		return mpF64([]float64{0, 1.5, -2, math.Inf(1), math.Inf(-1), math.NaN(), 1e300, 0.1, math.Copysign(0, -1)}[r.Intn(9)])
	case 6:
		return mpF32([]float32{0, 1.5, -2, float32(math.Inf(1)), float32(math.NaN()), 0.1}[r.Intn(6)])
	case 7:
		return mpStr([]string{"", "a", "b", "é", "1", "-0", "0.5", "Inf", "-Inf", "1e3", "12345678901234567890", "1.", ".5", "+7", "--1", "1_0", "0x10", "abc"}[r.Intn(18)])
	case 8:
		return mpBin([][]byte{{}, []byte("a"), []byte(`"string"`), []byte(`["list","string"]`), []byte(`"number"`), []byte(`"dynamic"`), {0xff}, []byte("7")}[r.Intn(8)])
	case 9:
		return c16RandExt(ctx)
	case 10:
		return mpStr(genString(r))
	case 11, 12:
		k := r.Intn(4)
		xs := make([]*mpItem, k)
		for i := range xs {
			xs[i] = c16RandItem(ctx, depth-1)
		}
		it := mpArr(xs...)
		if r.Intn(6) == 0 {
			it.width = 2
		}
		return it
	default:
		k := r.Intn(4)
		var xs []*mpItem
		for i := 0; i < k; i++ {
			if r.Intn(8) == 0 {
				xs = append(xs, c16RandItem(ctx, 0))
			} else {
				xs = append(xs, mpStr([]string{"a", "b", "c", "é", "", "zz"}[r.Intn(6)]))
			}
			xs = append(xs, c16RandItem(ctx, depth-1))
		}
		return mpMap(xs...)
	}
}

func c16RandExt(ctx *Ctx) *mpItem {
	r := ctx.R
	if r.Intn(5) == 0 {
		return &mpItem{kind: "ext", code: int8([]int{0, 12, 5, -1}[r.Intn(4)]), raw: make([]byte, r.Intn(2)), hdr: "other"}
	}
	var stream []*mpItem
	n := r.Intn(4)
	for i := 0; i < n; i++ {
		key := int64(r.Intn(8))
		if r.Intn(10) == 0 {
			stream = append(stream, c16RandItem(ctx, 0))
		} else {
			stream = append(stream, mpInt(key))
		}
		switch {
		case r.Intn(6) == 0:
			stream = append(stream, c16RandItem(ctx, 1))
		case key == 1:
			stream = append(stream, mpBool(r.Intn(3) == 0))
		case key == 2:
			stream = append(stream, mpStr([]string{"a", "ab", "b", "", "é"}[r.Intn(5)]))
		case key == 3 || key == 4:
			var num *mpItem
			switch r.Intn(5) {
			case 0:
				num = mpF64([]float64{0.5, math.Inf(1), math.Inf(-1), 2}[r.Intn(4)])
			case 1:
				num = mpStr([]string{"0.1", "7", "Inf", "-Inf", "x"}[r.Intn(5)])
			default:
				num = mpInt(int64(r.Intn(7) - 3))
			}
			if r.Intn(8) == 0 {
				stream = append(stream, mpArr())
			} else if r.Intn(8) == 0 {
				stream = append(stream, mpArr(num))
			} else {
				stream = append(stream, mpArr(num, mpBool(r.Intn(2) == 0)))
			}
		default:
			stream = append(stream, mpInt(int64(r.Intn(5)-1)))
		}
	}
	count := n
	if r.Intn(8) == 0 {
		count = r.Intn(5)
	}
	if r.Intn(12) == 0 {
		count = -1
	}
	code := int8(12)
	if r.Intn(10) == 0 {
		code = int8(r.Intn(20))
	}
	var trailing []byte
	if r.Intn(10) == 0 {
		trailing = mpWrite(nil, c16RandItem(ctx, 0))
	}
	return mpExt(code, count, stream, trailing)
}

// c16Mutate changes one node of the tree (or its surroundings).
func c16Mutate(ctx *Ctx, root *mpItem) *mpItem {
	r := ctx.R
	root = root.clone()
	var nodes []*mpItem
	var collect func(it *mpItem)
	collect = func(it *mpItem) {
		nodes = append(nodes, it)
		if it.kind != "ext" {
			for _, x := range it.xs {
				collect(x)
			}
		}
	}
	collect(root)
	n := nodes[r.Intn(len(nodes))]
	switch r.Intn(7) {
	case 0:
		*n = *c16RandItem(ctx, 1)
	case 1:
		n.width = []int{0, 1, 2, 4, 8}[r.Intn(5)]
	case 2:
		if (n.kind == "arr" || n.kind == "map") && len(n.xs) >= 2 {
			step := 1
			if n.kind == "map" {
				step = 2
			}
			n.xs = n.xs[:len(n.xs)-step]
		} else {
			*n = *mpNil()
		}
	case 3:
		if n.kind == "arr" {
			n.xs = append(n.xs, c16RandItem(ctx, 0))
		} else if n.kind == "map" {
			if len(n.xs) >= 2 && r.Intn(2) == 0 {
				n.xs = append(n.xs, n.xs[0].clone(), c16RandItem(ctx, 0)) // duplicate key
			} else {
				n.xs = append(n.xs, mpStr("q"), c16RandItem(ctx, 0))
			}
		} else {
			*n = *mpArr(n.clone())
		}
	case 4:
		if n.kind == "int" && n.i >= 0 {
			*n = *mpUint(uint64(n.i))
		} else if n.kind == "uint" && n.u <= math.MaxInt64 {
			*n = *mpInt(int64(n.u))
		} else if n.kind == "f64" && !math.IsNaN(n.f) {
			*n = *mpF32(float32(n.f))
		} else if n.kind == "str" {
			*n = *mpBin(n.s)
		} else {
			*n = *c16RandExt(ctx)
		}
	case 5:
		*n = *c16RandExt(ctx)
	default:
		if n.kind == "ext" && len(n.raw) > 1 {
			raw := append([]byte(nil), n.raw...)
			raw[r.Intn(len(raw))] ^= byte(1 << uint(r.Intn(8)))
			m := &mpItem{kind: "ext", code: n.code, raw: raw}
			mpParseExtBody(m)
			*n = *m
		} else {
			*n = *mpNil()
		}
	}
	return root
}

// the hand-probed decoder candidates of DESIGN §8 #13 (they belong to C17; here they
// are correspondence cases of the decoder model)
func c16HandItems(ctx *Ctx) int {
	tupS := cty.Tuple([]cty.Type{cty.String})
	optA := cty.ObjectWithOptionalAttrs(map[string]cty.Type{"a": cty.String, "b": cty.Number}, []string{"a"})
	plainUnknown := func() *mpItem { return &mpItem{kind: "ext", code: 0, raw: []byte{0}, hdr: "other"} }
	objA := cty.Object(map[string]cty.Type{"a": cty.String})
	objAB := cty.Object(map[string]cty.Type{"a": cty.String, "b": cty.String})
	cases := []struct {
		it *mpItem
		ty cty.Type
	}{
		{mpF64(math.NaN()), cty.Number},
		{mpF32(float32(math.NaN())), cty.Number},
		{mpExt(12, 2, []*mpItem{mpInt(1), mpBool(false), mpInt(1), mpBool(true)}, nil), cty.String},
		{mpExt(12, 2, []*mpItem{mpInt(1), mpBool(true), mpInt(1), mpBool(false)}, nil), cty.String},
		{mpArr(), tupS},
		{mpMap(), objA},
		{mpExt(12, 1, []*mpItem{mpInt(3), mpArr()}, nil), cty.Number},
		{mpExt(12, 1, []*mpItem{mpInt(4), mpArr()}, nil), cty.Number},
		{mpExt(12, 2, []*mpItem{mpInt(3), mpArr(mpInt(5), mpBool(true)), mpInt(4), mpArr(mpInt(1), mpBool(true))}, nil), cty.Number},
		{mpExt(12, 2, []*mpItem{mpInt(5), mpInt(3), mpInt(6), mpInt(1)}, nil), cty.List(cty.String)},
		{mpExt(12, 1, []*mpItem{mpInt(5), mpInt(-1)}, nil), cty.List(cty.String)},
		{mpExt(12, 2, []*mpItem{mpInt(2), mpStr("a"), mpInt(2), mpStr("b")}, nil), cty.String},
		{mpExt(12, 2, []*mpItem{mpInt(99), mpInt(1), mpBool(false), mpInt(7)}, nil), cty.String},
		{mpExt(12, 1, []*mpItem{mpInt(99), mpStr("x")}, nil), cty.String},
		{mpExt(12, -1, nil, []byte{0}), cty.String},
		{mpExt(12, -1, nil, []byte{0}), cty.DynamicPseudoType},
		{mpExt(12, 1, []*mpItem{mpInt(1), mpBool(false)}, nil), cty.DynamicPseudoType},
		{mpExt(5, 1, []*mpItem{mpInt(1), mpBool(false)}, nil), cty.String},
		{mpExt(12, 1, []*mpItem{mpInt(3), mpArr(mpF64(math.Inf(-1)), mpBool(true))}, nil), cty.Number},
		{mpExt(12, 1, []*mpItem{mpInt(3), mpArr(mpStr("-Inf"), mpBool(true))}, nil), cty.Number},
		{mpExt(12, 1, []*mpItem{mpInt(3), mpArr(mpF64(math.NaN()), mpBool(true))}, nil), cty.Number},
		{mpExt(12, 1, []*mpItem{mpInt(3), mpExt(12, 2, []*mpItem{mpInt(1), mpBool(false), mpInt(1), mpBool(true)}, nil)}, nil), cty.Number},
		{mpMap(mpStr("a"), mpStr("x"), mpStr("a"), mpStr("y")), objAB},
		{mpMap(mpStr("a"), mpStr("x"), mpStr("c"), mpStr("y")), objAB},
		{mpMap(mpInt(5), mpStr("a")), cty.Map(cty.String)},
		{mpArr(mpArr(mpBin([]byte(`"string"`)), mpStr("a")), mpArr(mpBin([]byte(`"number"`)), mpInt(1))), cty.List(cty.DynamicPseudoType)},
		{mpArr(mpArr(mpBin([]byte(`"string"`)), mpStr("a")), mpNil()), cty.List(cty.DynamicPseudoType)},
		{mpArr(mpBin([]byte(`["object",{"a":"string"},["b"]]`)), mpMap()), cty.DynamicPseudoType},
		{mpArr(mpBin([]byte(`["object",{"a":"string"},["a"]]`)), mpMap(mpStr("a"), mpStr("x"))), cty.DynamicPseudoType},
		{mpArr(mpNil(), mpNil()), cty.DynamicPseudoType},
		{mpArr(mpBin([]byte(`"string"`))), cty.DynamicPseudoType},
		{mpUint(math.MaxUint64), cty.Number},
		{mpStr("Inf"), cty.Number},
		{mpBin([]byte("12")), cty.Number},
		{mpBin([]byte("ab")), cty.String},
		{mpNil(), cty.Set(cty.String)},
		{mpArr(mpStr("b"), mpStr("a"), mpStr("b")), cty.Set(cty.String)},
		// /repo afdc0a2: the type of a decoded value never carries optional-attribute annotations
		{mpNil(), optA},
		{plainUnknown(), optA},
		{mpExt(12, 1, []*mpItem{mpInt(1), mpBool(false)}, nil), optA},
		{mpArr(), cty.List(optA)},
		{mpMap(), cty.Map(optA)},
		{mpArr(mpNil()), cty.Tuple([]cty.Type{optA})},
		{mpMap(mpStr("a"), mpStr("x"), mpStr("b"), mpInt(1)), optA},
		{mpMap(mpStr("a"), mpNil(), mpStr("b"), plainUnknown()), optA},
		{mpArr(mpBin([]byte(`["object",{"a":"string"},["a"]]`)), mpNil()), cty.DynamicPseudoType},
		{mpArr(mpBin([]byte(`["object",{"a":"string"},["a"]]`)), plainUnknown()), cty.DynamicPseudoType},
		{mpArr(mpBin([]byte(`["list",["object",{"a":"string"},["a"]]]`)), mpArr()), cty.DynamicPseudoType},
		// /repo 7775e8c: bytes that are not UTF-8 are not a string (a str item of that kind is outside the item model)
		{mpBin([]byte{0xff}), cty.String},
		{mpBin([]byte{'a', 0xc3}), cty.String},
		{mpArr(mpBin([]byte{0xff})), cty.List(cty.String)},
		{mpBin([]byte{0xff}), cty.Number},
		// /repo 986ad55: all digits of a whole number beyond int64
		{mpStr("9223372036854775808"), cty.Number},
		{mpStr("13407807929942597099574024998205846127479365820592393377723561443721764030073546976801874298166903427690031858186486050853753882811946569946433649006084097"), cty.Number},
	}
	for _, c := range cases {
		c16Decode(ctx, c.it, c.ty, "hand")
	}
	return len(cases)
}

// c16TwoBoundWitnesses: unknown numbers with two bounds that are witnesses of findings.
func c16TwoBoundWitnesses() []cty.Value {
	var out []cty.Value
	add := func(lo cty.Value, loInc bool, hi cty.Value, hiInc bool) {
		var v cty.Value
		if p, _ := try(func() {
			v = cty.UnknownVal(cty.Number).Refine().NumberRangeLowerBound(lo, loInc).NumberRangeUpperBound(hi, hiInc).NewValue()
		}); !p {
			out = append(out, v)
		}
	}
	// repaired by /repo 986ad55 (was decode-own-output / inconsistent-bounds:whole-beyond-int64-shortest-text-inexact): must pass
	add(cty.NumberFloatVal(math.Ldexp(1, 63)), true, cty.NumberUIntVal(1<<63), true)
	add(cty.NumberFloatVal(math.Ldexp(1, 63)), true, cty.NumberFloatVal(1.844674407370955e+19), true)
	add(cty.NumberFloatVal(-1e22), false, cty.NumberFloatVal(1e30), false)
	// recorded: bounds wider than the 512 bits the decoder parses at move onto each other
	add(cty.MustParseNumberVal("13407807929942597099574024998205846127479365820592393377723561443721764030073546976801874298166903427690031858186486050853753882811946569946433649006084096"), false, c16Wide(512, 1), true)
	add(c16Wide(513, 1), true, c16Wide(513, 3), false)
	// recorded: a bound of a non-standard precision moves past the other bound
	add(c16BF(100, "0.1"), false, cty.MustParseNumberVal("0.1"), true)
	add(cty.MustParseNumberVal("0.1"), true, c16BF(600, "0.1"), false)
	add(c16BF(100, "-3.3"), true, cty.MustParseNumberVal("-3.3"), false)
	add(cty.MustParseNumberVal("-3.3"), false, c16BF(100, "-3.3"), true)
	return out
}

var c16ParsePool = []string{"", "0", "-0", "+0", "1", "-1", "007", "1.", ".5", "-.5", "+.5", ".", "-", "+", "1.2.3", "1..2", "--1", "+-1", "1_0", "1e3", "1E3", "1p4", "0x10", "0b1", "Inf", "-Inf", "+Inf", "inf", "-inf",
	"infinity", "NaN", "nan", " 1", "1 ", "0.1", "0.30000000000000004", "123456789012345678901234567890", "0.000000000000000000000000000001", "9223372036854775808", "18446744073709551616",
	"1.0000000000000000000000000000000000000000000000000000000000000000000000000000000000000000000000000000000000000000000000000000000000000000000000000000000000001",
	"3.14159265358979323846264338327950288419716939937510582097494459230781640628620899862803482534211706798214808651328230664709384460955058223172535940812848111745028410270193852110555964462294895493038196"}

func c16Parse(ctx *Ctx, s string) {
	var v cty.Value
	var err error
	p, _ := try(func() { v, err = cty.ParseNumberVal(s) })
	impl := "err"
	if p {
		impl = "panic"
	} else if err == nil {
		impl = "ok " + cty.VerifDump(v)
	}
	ctx.Add("mp.parse", impl, encStr(s))
	if strings.ContainsAny(s, "eEpP") {
		ctx.Add("d16.parse", impl, encStr(s)) // d16: exponent spellings (unmodelled by mp.parse)
		ctx.Tag("parse-exponent:" + strings.SplitN(impl, " ", 2)[0])
	}
}

func runC16(ctx *Ctx) {
	r := ctx.R
	// 1. the number classes of the quantifier, every one of them, bare and inside a list
	for _, n := range c16NumPool {
		c16Case(ctx, n, cty.Number, "numpool")
		c16Case(ctx, n, cty.DynamicPseudoType, "numpool-dyn")
		c16Case(ctx, cty.ListVal([]cty.Value{n, cty.UnknownVal(cty.Number)}), cty.List(cty.Number), "numpool-list")
		c16Parse(ctx, n.AsBigFloat().Text('f', -1))
		c16Parse(ctx, c16EncText(n.AsBigFloat()))
		if !n.AsBigFloat().IsInf() {
			for _, incl := range []bool{true, false} {
				var lo, hi cty.Value
				if p, _ := try(func() {
					lo = cty.UnknownVal(cty.Number).Refine().NumberRangeLowerBound(n, incl).NewValue()
					hi = cty.UnknownVal(cty.Number).Refine().NotNull().NumberRangeUpperBound(n, incl).NewValue()
				}); !p {
					c16Case(ctx, lo, cty.Number, "numpool-bound")
					c16Case(ctx, hi, cty.Number, "numpool-bound")
				}
			}
		}
	}
	for _, s := range c16ParsePool {
		c16Parse(ctx, s)
	}
	for _, s := range []string{"1.5e-3", "12e+2", "-2.5E2", "1e", "e5", "1e5e", "0e5", "-0e5", "1p-3", ".5e1", "5.e1", "1e400", "1e-400", "123456789e-30", "1e27", "1e28", "1e-27", "1e-28", "1e-248", "1e-249", "3e-300", "7e300", "1.e", ".e1", "1e+", "1e-", "1e1.5", "1_0e1", "1e1_0", "1.25p3", "1p+70", "1P-70", "0.1e1", "9007199254740993e-1", "1e0", "1e-0", "+1e2", "1e0000001", "1e1234567", "Infe1", "0x1p4"} {
		c16Parse(ctx, s)
	}
	nHand := c16HandItems(ctx)
	nHand += c16d16BB6(ctx)
	c16d16NFCItems(ctx)
	c16d16NonConforming(ctx)
	// 1b. regression witnesses of the repaired findings with root cause whole-beyond-int64-shortest-text-inexact
	// (they must pass), and the witnesses of the recorded ones that need two bounds
	for _, w := range c16TwoBoundWitnesses() {
		c16Case(ctx, w, cty.Number, "witness")
	}
	// 1c. /repo afdc0a2: constraints with optional-attribute annotations (Marshal ignores them, Unmarshal takes them off)
	{
		optA := cty.ObjectWithOptionalAttrs(map[string]cty.Type{"a": cty.String, "b": cty.Number}, []string{"a"})
		full := cty.ObjectVal(map[string]cty.Value{"a": cty.NullVal(cty.String), "b": cty.NumberFloatVal(math.Ldexp(1, 70))})
		plain := cty.Object(map[string]cty.Type{"a": cty.String, "b": cty.Number})
		c16Case(ctx, full, optA, "optional-attrs")
		c16Case(ctx, cty.NullVal(plain), optA, "optional-attrs")
		c16Case(ctx, cty.UnknownVal(plain), optA, "optional-attrs")
		c16Case(ctx, cty.UnknownVal(plain).RefineNotNull(), optA, "optional-attrs")
		c16Case(ctx, cty.ListValEmpty(plain), cty.List(optA), "optional-attrs")
		c16Case(ctx, cty.ListVal([]cty.Value{full, cty.NullVal(plain)}), cty.List(optA), "optional-attrs")
		c16Case(ctx, cty.MapValEmpty(plain), cty.Map(optA), "optional-attrs")
		c16Case(ctx, cty.SetValEmpty(plain), cty.Set(optA), "optional-attrs")
		c16Case(ctx, cty.TupleVal([]cty.Value{cty.NullVal(plain), full}), cty.Tuple([]cty.Type{optA, optA}), "optional-attrs")
		c16Case(ctx, cty.ObjectVal(map[string]cty.Value{"x": cty.NullVal(plain)}), cty.Object(map[string]cty.Type{"x": optA}), "optional-attrs")
	}
	// 2. small integers around every width boundary of the integer encodings (exhaustive)
	for _, c := range []int64{0, 127, 255, 65535, 4294967295, -32, -128, -32768, -2147483648} {
		for d := int64(-2); d <= 2; d++ {
			c16Case(ctx, cty.NumberIntVal(c+d), cty.Number, "int-widths")
		}
	}
	ctx.res.Exhaustive = true
	ctx.res.Scope = fmt.Sprintf("all %d pool numbers (limits of int64/uint64 ±1, whole beyond, exact float64, decimals, non-standard precisions, ±inf, ±0) bare, under the placeholder, in a list and as inclusive/exclusive bounds; every integer within 2 of each width boundary of the integer encodings; %d number spellings; %d hand-made decoder inputs", len(c16NumPool), len(c16ParsePool), nHand)

	// 3. random (value, constraint) pairs
	n := ctx.N(2600, 60000)
	depth := ctx.N(3, 4)
	for i := 0; i < n; i++ {
		o := c16Opts{unknown: r.Intn(4) != 0, null: r.Intn(3) != 0}
		tyo := TyOpts{Dyn: r.Intn(3) != 0, Opt: r.Intn(4) == 0}
		tag := "random"
		switch r.Intn(12) {
		case 0:
			o.marks, tag = true, "marked"
		case 1:
			o.capsule, tyo.Capsule, tag = true, true, "capsule"
		}
		var ct cty.Type
		switch r.Intn(10) {
		case 0:
			ct = cty.DynamicPseudoType
		case 1:
			ct = cty.String
		case 2:
			ct = cty.Number
		case 3:
			ct = cty.List(cty.Number)
		default:
			ct = genTy(r, depth, tyo)
		}
		v := c16Val(ctx, ct, depth, o)
		c16Case(ctx, v, ct, tag)
		if i%3 == 0 {
			// the exact type as constraint, and the placeholder as constraint
			vu, _ := v.UnmarkDeep()
			if !c16HasCapsule(vu) {
				c16Case(ctx, vu, vu.Type(), "exact-type")
				c16Case(ctx, vu, cty.DynamicPseudoType, "placeholder")
			}
		}
		// decoder on mutated encodings of this value
		if i%2 == 0 && !v.ContainsMarked() {
			if b, err := msgpack.Marshal(v, ct); err == nil {
				if tree, rerr := mpReadAll(b); rerr == nil && mpHasBad(tree) == "" {
					m := c16Mutate(ctx, tree)
					if r.Intn(3) == 0 {
						m = c16Mutate(ctx, m)
					}
					dt := ct
					if r.Intn(5) == 0 {
						dt = mutateTy(r, ct, TyOpts{Dyn: true})
					}
					c16Decode(ctx, m, dt, "mutant")
				}
			}
		}
	}
	// 4. unknown values of every refinement kind, bare
	for i := 0; i < ctx.N(1500, 30000); i++ {
		var t cty.Type
		switch r.Intn(7) {
		case 0:
			t = cty.Number
		case 1, 2:
			t = cty.String
		case 3:
			t = cty.List(cty.String)
		case 4:
			t = []cty.Type{cty.Set(cty.Number), cty.Map(cty.Bool)}[r.Intn(2)]
		case 5:
			t = cty.Number
		default:
			t = genTy(r, 1, TyOpts{})
		}
		u := c16Unknown(ctx, t)
		ct := t
		if r.Intn(4) == 0 {
			ct = cty.DynamicPseudoType
		}
		c16Case(ctx, u, ct, "unknown")
	}
	// 5. random items × random types for the decoder and ImpliedType
	for i := 0; i < ctx.N(2500, 50000); i++ {
		it := c16RandItem(ctx, 2)
		var ty cty.Type
		if r.Intn(3) == 0 {
			ty = []cty.Type{cty.Number, cty.String, cty.Bool, cty.DynamicPseudoType, cty.List(cty.Number), cty.Tuple([]cty.Type{cty.Number, cty.Bool}), cty.Map(cty.String), cty.Set(cty.String)}[r.Intn(8)]
		} else {
			ty = genTy(r, 2, TyOpts{Dyn: true, Capsule: r.Intn(10) == 0})
		}
		c16Decode(ctx, it, ty, "random-item")
	}
	// 6. number spellings
	for i := 0; i < ctx.N(1500, 30000); i++ {
		switch r.Intn(4) {
		case 0:
			c16Parse(ctx, c16Number(ctx).AsBigFloat().Text('f', -1))
		case 1:
			c16Parse(ctx, fmt.Sprintf("%d.%0*d", r.Intn(200)-100, 1+r.Intn(40), r.Int63()))
		case 2:
			if r.Intn(2) == 0 {
				// d16: a decimal literal with an exponent
				m := fmt.Sprintf("%d", r.Int63n(1<<uint(1+r.Intn(62))))
				if r.Intn(2) == 0 {
					m += fmt.Sprintf(".%0*d", 1+r.Intn(30), r.Int63())
				}
				c16Parse(ctx, m+string("eEpP"[r.Intn(4)])+[]string{"", "+", "-"}[r.Intn(3)]+fmt.Sprintf("%d", r.Intn([]int{10, 40, 400, 3000}[r.Intn(4)])))
				break
			}
			var sb strings.Builder
			for k := r.Intn(6); k >= 0; k-- {
				sb.WriteByte("0123456789.+-_e"[r.Intn(15)])
			}
			c16Parse(ctx, sb.String())
		default:
			c16Parse(ctx, new(big.Float).SetPrec(uint(1+r.Intn(200))).SetMantExp(big.NewFloat(r.Float64()+0.5), r.Intn(400)-200).Text('f', -1))
		}
	}
}
