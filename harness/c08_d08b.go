package main

// Additions of the d08b deepening of C08.
//
//   - convert_commutes_with_unmarkDeep: for every generated pair whose value contains a mark at
//     any depth the conversion of the deeply unmarked value is run too: both runs end in the same
//     class (value / error / panic) and UnmarkDeep of the marked result is the unmarked result
//     (`C08.convert_commutes_with_unmarkDeep`, `…_failures`, `…_converse`).  A dedicated generator
//     marks values densely (every node with probability 1/2, up to two marks) because the general
//     one marks a node with probability 1/7 only when marks are switched on.
//   - unknown sets: the length bounds of a converted unknown set, with a witness that the lower
//     bound the result promises is met by a concrete set the input admits
//     (`C08.unknown_set_to_set_lower_bound`).

import (
	"fmt"

	"github.com/zclconf/go-cty/cty"
)

// c08MarkDepth: the number of marker layers met on the deepest path, and the number of marked nodes
func c08MarkStats(v cty.Value) (depth, count int) {
	if v.IsMarked() {
		u, _ := v.Unmark()
		d, c := c08MarkStats(u)
		return d + 1, c + 1
	}
	if !v.IsKnown() || v.IsNull() || !(v.Type().IsCollectionType() || v.Type().IsTupleType() || v.Type().IsObjectType()) {
		return 0, 0
	}
	for it := v.ElementIterator(); it.Next(); {
		_, ev := it.Element()
		d, c := c08MarkStats(ev)
		if d > depth {
			depth = d
		}
		count += c
	}
	return depth, count
}

// unmarkCommutes: the predicate of `convert_commutes_with_unmarkDeep` on one pair
func (c *c08Run) unmarkCommutes(v cty.Value, t cty.Type, out c08Out) {
	if !v.ContainsMarked() {
		return
	}
	ctx := c.ctx
	u, _ := v.UnmarkDeep()
	d, n := c08MarkStats(v)
	if n > 4 {
		n = 4
	}
	ctx.Tag(fmt.Sprintf("d08b:marked:layers=%d,nodes=%d", d, n))
	ou := c08Convert(u, t)
	ctx.Eval("unmark-commutes "+encVal(v)+" "+encTy(t), !v.Type().Equals(t))
	if out.kind != ou.kind {
		c.fail("convert_commutes_with_unmarkDeep", "outcome:"+out.kind+"/"+ou.kind,
			"converting a marked value and converting its deeply unmarked copy end differently", v, t,
			c08Outcome(out)+" vs unmarked "+c08Outcome(ou))
		return
	}
	if out.kind != "ok" {
		return
	}
	var ru cty.Value
	if p, why := try(func() { ru, _ = out.v.UnmarkDeep() }); p {
		c.fail("convert_commutes_with_unmarkDeep", "unmarkdeep-panics", "UnmarkDeep of the result panics", v, t, why)
		return
	}
	if !c08RawEq(ru, ou.v) {
		c.fail("convert_commutes_with_unmarkDeep", "result-differs",
			"UnmarkDeep of the converted marked value is not the conversion of the deeply unmarked value", v, t,
			encVal(ru)+" vs "+encVal(ou.v))
	}
}

// conformingIdentity: "a value that already conforms to the requested type converts to itself"
// (`C08.ConformingConvertsToItself`), for targets with placeholders and without optional attributes
// (an absent optional attribute conforms but is added as a null)
func (c *c08Run) conformingIdentity(v cty.Value, t cty.Type, out c08Out) {
	if !t.HasDynamicTypes() || c08HasOpt(t) || v.Type().Equals(t) || len(v.Type().TestConformance(t)) > 0 {
		return
	}
	if !v.IsWhollyKnown() {
		// an unknown converts to an unknown that admits it but may be less refined (a set's length
		// lower bound is clamped to 1 whatever the element conversion): the clause is about known values
		return
	}
	ctx := c.ctx
	ctx.Eval("conforming-identity "+encVal(v)+" "+encTy(t), true)
	ctx.Tag("d08b:conforming:" + out.kind)
	sig := ""
	switch {
	case out.kind == "err":
		sig = "fails:" + c08Kind(v.Type())
	case out.kind == "ok" && !c08Same(out.v, v):
		sig = "changes:" + c08Kind(v.Type())
	default:
		return
	}
	if c08HasEmptyColl(v) {
		sig = "empty-collection-keeps-nested-placeholder"
	} else if c08HasUnknownLengthSet(v) {
		sig = "set-unknown-length-keeps-nested-placeholder"
	}
	c.fail("conforming_identity", sig, "a value that conforms to the requested type does not convert to itself", v, t, c08Outcome(out))
}

// c08MarkDensely marks nodes of v with probability 1/2 (sets are rebuilt by SetVal, which moves
// the marks of members up to the set, as the API always does)
func c08MarkDensely(c *c08Run, v cty.Value) cty.Value {
	r := c.ctx.R
	if v.IsKnown() && !v.IsNull() {
		ty := v.Type()
		switch {
		case ty.IsListType() || ty.IsSetType() || ty.IsTupleType():
			var vs []cty.Value
			for it := v.ElementIterator(); it.Next(); {
				_, ev := it.Element()
				vs = append(vs, c08MarkDensely(c, ev))
			}
			if len(vs) > 0 {
				switch {
				case ty.IsListType():
					v = cty.ListVal(vs)
				case ty.IsSetType():
					v = cty.SetVal(vs)
				default:
					v = cty.TupleVal(vs)
				}
			}
		case ty.IsMapType() || ty.IsObjectType():
			vs := map[string]cty.Value{}
			for it := v.ElementIterator(); it.Next(); {
				kv, ev := it.Element()
				vs[kv.AsString()] = c08MarkDensely(c, ev)
			}
			if len(vs) > 0 {
				if ty.IsMapType() {
					v = cty.MapVal(vs)
				} else {
					v = cty.ObjectVal(vs)
				}
			}
		}
	}
	if r.Intn(2) == 0 {
		v = v.Mark(markNames[r.Intn(len(markNames))])
		if r.Intn(3) == 0 {
			v = v.Mark(markNames[r.Intn(len(markNames))])
		}
	}
	return v
}

func c08D08b(c *c08Run) {
	ctx, r := c.ctx, c.ctx.R
	// densely marked values of random types against derived targets
	for i := 0; i < ctx.N(2500, 40000); i++ {
		s := genTy(r, 3, TyOpts{Dyn: r.Intn(5) == 0, MaxWidth: 3})
		o := c08VOpts{unknown: r.Intn(3) == 0, null: r.Intn(3) == 0, dynVal: true}
		var v cty.Value
		if p, _ := try(func() { v = c08MarkDensely(c, c08Val(r, s, 3, o)) }); p {
			ctx.Tag("d08b:dense:rebuild-failed")
			continue
		}
		t := c08Derive(r, v.Type(), 3)
		ctx.Tag("d08b:dense")
		c.pair(v, t, true)
	}
	// the former witnesses of empty-collection-keeps-nested-placeholder, kept as regression cases (`C08.idempotent_empty_witness`, `C08.conforming_converts_to_itself_empty_witness`)
	ctx.Tag("d08b:witness")
	c.pair(cty.TupleVal([]cty.Value{
		cty.MapVal(map[string]cty.Value{"m": cty.ListVal([]cty.Value{cty.StringVal("x")})}),
		cty.MapValEmpty(cty.List(cty.String)),
	}), cty.List(cty.Map(cty.List(cty.DynamicPseudoType))), true)
	c.pair(cty.ListVal([]cty.Value{cty.ListValEmpty(cty.Map(cty.Bool)), cty.ListVal([]cty.Value{cty.MapVal(map[string]cty.Value{"k": cty.True})})}),
		cty.List(cty.List(cty.Map(cty.DynamicPseudoType))), true)
	// unknown sets with length bounds through set -> set / list, each with a concrete set the
	// range admits whose members coalesce under the element conversion
	coalescing := []cty.Value{cty.StringVal("1"), cty.StringVal("1.0"), cty.StringVal("01"), cty.StringVal("1e0")}
	for lo := 0; lo <= 4; lo++ {
		for hi := lo; hi <= 5; hi++ {
			for _, nn := range []bool{false, true} {
				b := cty.UnknownVal(cty.Set(cty.String)).Refine().CollectionLengthLowerBound(lo).CollectionLengthUpperBound(hi)
				if nn {
					b = b.NotNull()
				}
				u := b.NewValue()
				for _, t := range []cty.Type{cty.Set(cty.Number), cty.Set(cty.Bool), cty.List(cty.Number), cty.Set(cty.DynamicPseudoType)} {
					ctx.Tag("d08b:unknown-set:" + c08Kind(t))
					c.pair(u, t, true)
				}
				// the admitted concrete set of `lo` strings that all denote the number 1 (lo <= 4)
				if lo >= 1 {
					k := cty.SetVal(coalescing[:lo])
					ctx.Tag("d08b:coalescing-set")
					c.pair(k, cty.Set(cty.Number), true)
					ur := c08Convert(u, cty.Set(cty.Number))
					kr := c08Convert(k, cty.Set(cty.Number))
					ctx.Eval(fmt.Sprintf("unknown-set-lower-bound %d %d", lo, hi), lo >= 2)
					if ur.kind == "ok" && kr.kind == "ok" && !ur.v.IsKnown() {
						if got := ur.v.Range().LengthLowerBound(); got > kr.v.LengthInt() {
							c.fail("unknown_null_sound", "unknown-set-lower-bound-exceeds-coalesced-length",
								"the converted unknown set promises more members than the conversion of an admitted set has", u, cty.Set(cty.Number),
								fmt.Sprintf("lower bound %d, admitted %s converts to %d member(s)", got, encVal(k), kr.v.LengthInt()))
						}
					}
				}
			}
		}
	}
}
