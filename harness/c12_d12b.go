package main

// C12, slice d12b — the tie for `strlen` on UNKNOWN arguments (StrlenFunc's own unknown handling: the
// number of grapheme clusters of the string prefix of the argument's range becomes a lower bound of the
// unknown result; model: lean/CtyModel/Stdlib/d12bStrlen.lean, theorem C12.sound_strlen).  The real
// `StrlenFunc.Call` is compared with the model through the driver verb `c12.strlen`; the segmentation of
// the one string the function looks at (the prefix, or the known string) is an oracle column computed
// with the real textseg.  The law the theorem assumes of textseg (a safe prefix has at most as many
// clusters as any string it is a prefix of) is probed on every generated pair.

import (
	"strings"
	"unicode/utf8"

	"github.com/zclconf/go-cty/cty"
	"github.com/zclconf/go-cty/cty/function/stdlib"
)

func c12d12bStrlen(ctx *Ctx) {
	n := ctx.N(150, 3000)
	for i := 0; i < n; i++ {
		known := cty.StringVal(genC14Str(ctx, 6)).AsString()
		var w cty.Value
		kind := ""
		switch ctx.R.Intn(7) {
		case 0:
			w, kind = cty.UnknownVal(cty.String), "unrefined"
		case 1:
			w, kind = cty.DynamicVal, "dynamic"
		case 2:
			w, kind = cty.StringVal(known), "known"
		case 3:
			w, kind = cty.UnknownVal(cty.String).RefineNotNull(), "not-null"
		default:
			cut := ctx.R.Intn(len(known) + 1)
			for cut > 0 && cut < len(known) && !utf8.RuneStart(known[cut]) {
				cut--
			}
			var v cty.Value
			if p, _ := try(func() {
				b := cty.UnknownVal(cty.String).Refine().StringPrefix(known[:cut])
				if ctx.R.Intn(2) == 0 {
					b = b.NotNull()
				}
				v = b.NewValue()
			}); p {
				ctx.Tag("strlen-tie:prefix-builder-panic")
				continue
			}
			w, kind = v, "prefix"
		}
		seg := ""
		switch {
		case w.IsKnown():
			seg = w.AsString()
		case w.Type() == cty.String:
			seg = w.Range().StringPrefix()
		}
		cs := clustersOf(seg)
		out, _, class := stdOut(stdlib.StrlenFunc, []cty.Value{w})
		ws := make([]string, len(cs))
		for j, c := range cs {
			ws[j] = encStr(c)
		}
		ctx.Add("c12.strlen", out, encVal(w), "("+strings.Join(ws, " ")+")")
		ctx.Tag("strlen-tie:" + kind + ":" + class)
		if len(seg) > 0 && !w.IsKnown() {
			ctx.Tag("strlen-tie:non-empty-prefix")
		}
		if !w.IsKnown() && strings.HasPrefix(known, seg) {
			ctx.Probe("textseg:clusters-of-range-prefix-at-most-clusters-of-string", len(cs) <= len(clustersOf(known)),
				encStr(seg)+" "+encStr(known))
		}
	}
}

// c12d12bScenario names the scenario of a per-function theorem of Props/C12.lean (sound_<fn>) that a paired
// run falls into, so that the evidence shows how often the search and the correspondence reach what each
// theorem talks about (distribution keys `thm:<theorem>:<scenario>`).
func c12d12bScenario(ctx *Ctx, fn string, os, ws []cty.Value) {
	if len(os) != len(ws) || len(ws) == 0 {
		return
	}
	tag := func(thm, sc string) { ctx.Tag("thm:" + thm + ":" + sc) }
	shape := func(w cty.Value) string {
		switch {
		case !w.IsKnown() && w.Type() == cty.DynamicPseudoType:
			return "dynamic-val"
		case !w.IsKnown():
			r := "unknown"
			try(func() {
				if w.Type().IsCollectionType() {
					rng := w.Range()
					if rng.LengthLowerBound() > 0 || rng.LengthUpperBound() < 1<<40 {
						r = "unknown-with-length-bounds"
					}
				}
				if w.Type() == cty.String && w.Range().StringPrefix() != "" {
					r = "unknown-with-prefix"
				}
			})
			return r
		case w.IsNull():
			return "null"
		case !w.IsWhollyKnown():
			if w.Type().IsSetType() {
				return "set-with-unknown-member"
			}
			return "known-with-unknown-member"
		}
		return "unchanged"
	}
	w0 := shape(ws[0])
	switch fn {
	case "LengthFunc":
		tag("sound_length", w0)
	case "CompactFunc":
		tag("sound_compact", w0)
	case "DistinctFunc":
		tag("sound_distinct", w0)
	case "KeysFunc":
		tag("sound_keys", w0)
	case "ValuesFunc":
		tag("sound_values", w0)
	case "ReverseListFunc":
		tag("sound_reverse", w0)
	case "SortFunc":
		tag("sound_sort", w0)
	case "StrlenFunc":
		tag("sound_strlen", w0)
	case "CoalesceListFunc", "CoalesceFunc":
		thm := "sound_coalescelist"
		if fn == "CoalesceFunc" {
			thm = "sound_coalesce"
		}
		first := "no-unknown-argument"
		for _, w := range ws {
			if !w.IsKnown() {
				first = "some-argument-unknown"
				break
			}
			if !w.IsWhollyKnown() {
				first = "some-argument-partly-unknown"
			}
		}
		tag(thm, first)
	case "ElementFunc":
		if len(ws) == 2 {
			tag("sound_element", "list:"+w0+",index:"+shape(ws[1]))
		}
	case "ContainsFunc":
		if len(ws) == 2 {
			tag("sound_contains_partial", "haystack:"+w0+",needle:"+shape(ws[1]))
		}
	case "LookupFunc":
		if len(ws) == 3 {
			k := "object"
			if os[0].Type().IsMapType() {
				k = "map"
			}
			thm := "sound_lookup_object"
			if k == "map" {
				thm = "sound_lookup_map_partial"
			}
			tag(thm, k+":"+w0+",key:"+shape(ws[1])+",default:"+shape(ws[2]))
		}
	case "IndexFunc":
		if len(ws) == 2 {
			tag("sound_index", "collection:"+w0+",key:"+shape(ws[1]))
		}
	case "HasIndexFunc":
		if len(ws) == 2 {
			tag("sound_hasindex", "collection:"+w0+",key:"+shape(ws[1]))
		}
	case "ZipmapFunc":
		if len(ws) == 2 {
			tag("sound_zipmap", "keys:"+w0+",values:"+shape(ws[1]))
		}
	case "ConcatFunc":
		sc := "all-unchanged"
		for _, w := range ws {
			if !w.IsKnown() {
				sc = "some-argument-unknown"
				break
			}
			if !w.IsWhollyKnown() {
				sc = "some-argument-partly-unknown"
			}
		}
		tag("sound_concat_partial", sc)
	case "SetProductFunc":
		any := "all-lengths-known"
		for _, w := range ws {
			if !w.IsKnown() {
				any = "some-argument-of-unknown-length"
			}
		}
		tag("sound_setproduct_counterexample", any)
	}
}
