package main

// C12, slice d12b — the tie for `strlen` on UNKNOWN arguments (StrlenFunc's own unknown handling: the
// number of grapheme clusters of the string prefix of the argument's range becomes a lower bound of the
// unknown result; model: lean/CtyModel/Stdlib/d12bStrlen.lean, theorem C12.sound_strlen).  The real
// `StrlenFunc.Call` is compared with the model through the driver verb `c12.strlen`; the segmentation of
// the one string the function looks at (the prefix, or the known string) is an oracle column computed
// with the real textseg.  The law the theorem assumes of textseg (a safe prefix has at most as many
// clusters as any string it is a prefix of) is probed on every generated pair.

import (
	"strings"
	"unicode/utf8"

	"github.com/zclconf/go-cty/cty"
	"github.com/zclconf/go-cty/cty/function/stdlib"
)

func c12d12bStrlen(ctx *Ctx) {
	n := ctx.N(150, 3000)
	for i := 0; i < n; i++ {
		known := cty.StringVal(genC14Str(ctx, 6)).AsString()
		var w cty.Value
		kind := ""
		switch ctx.R.Intn(7) {
		case 0:
			w, kind = cty.UnknownVal(cty.String), "unrefined"
		case 1:
			w, kind = cty.DynamicVal, "dynamic"
		case 2:
			w, kind = cty.StringVal(known), "known"
		case 3:
			w, kind = cty.UnknownVal(cty.String).RefineNotNull(), "not-null"
		default:
			cut := ctx.R.Intn(len(known) + 1)
			for cut > 0 && cut < len(known) && !utf8.RuneStart(known[cut]) {
				cut--
			}
			var v cty.Value
			if p, _ := try(func() {
				b := cty.UnknownVal(cty.String).Refine().StringPrefix(known[:cut])
				if ctx.R.Intn(2) == 0 {
					b = b.NotNull()
				}
				v = b.NewValue()
			}); p {
				ctx.Tag("strlen-tie:prefix-builder-panic")
				continue
			}
			w, kind = v, "prefix"
		}
		seg := ""
		switch {
		case w.IsKnown():
			seg = w.AsString()
		case w.Type() == cty.String:
			seg = w.Range().StringPrefix()
		}
		cs := clustersOf(seg)
		out, _, class := stdOut(stdlib.StrlenFunc, []cty.Value{w})
		ws := make([]string, len(cs))
		for j, c := range cs {
			ws[j] = encStr(c)
		}
		ctx.Add("c12.strlen", out, encVal(w), "("+strings.Join(ws, " ")+")")
		ctx.Tag("strlen-tie:" + kind + ":" + class)
		if len(seg) > 0 && !w.IsKnown() {
			ctx.Tag("strlen-tie:non-empty-prefix")
		}
		if !w.IsKnown() && strings.HasPrefix(known, seg) {
			ctx.Probe("textseg:clusters-of-range-prefix-at-most-clusters-of-string", len(cs) <= len(clustersOf(known)),
				encStr(seg)+" "+encStr(known))
		}
	}
}
